(** Proofs about Model/Hashmap.v: label decoding for all three forms, decoding of
    every serialised Patricia tree, the encoder produces the serialisation of
    the canonical tree, round trip. *)
From Coq Require Import List NArith Arith Lia Bool Sorted Permutation.
From Tongo Require Import Lib.Bits Lib.Res Spec.Dict Model.Hashmap Proofs.DictP
  Proofs.HashmapPut Proofs.HashmapSort.
Import ListNotations.

(** ** list helpers *)
Lemma firstn_app_len {A} n (l1 l2 : list A) : length l1 = n -> firstn n (l1 ++ l2) = l1.
Proof. intros <-. apply firstn_app_exact. Qed.

Lemma skipn_app_len {A} n (l1 l2 : list A) : length l1 = n -> skipn n (l1 ++ l2) = l2.
Proof. intros <-. apply skipn_app_exact. Qed.

Lemma short_app_len {A} n (l1 l2 : list A) : length l1 = n -> short n (l1 ++ l2) = false.
Proof. intros <-. rewrite short_spec, app_length. apply Nat.ltb_ge. lia. Qed.

Lemma last_app_ne {A} (l1 l2 : list A) d : l2 <> [] -> last (l1 ++ l2) d = last l2 d.
Proof.
  intros Hne. induction l1 as [|a l1 IH]; [reflexivity|].
  cbn [app]. destruct (l1 ++ l2) eqn:E.
  - apply app_eq_nil in E. destruct E; congruence.
  - cbn [last]. rewrite <- IH. reflexivity.
Qed.

Lemma mk_cell_ok b rs c : mk_cell b rs = Ok c -> c = Cell b rs.
Proof.
  unfold mk_cell. destruct (1023 <? length b)%nat; [discriminate|].
  destruct (4 <? length rs)%nat; [discriminate|]. intros H; inversion H; reflexivity.
Qed.

(** ** label fields *)
Lemma read_unary_ones k r : read_unary (ones k ++ false :: r) = Ok (k, r).
Proof.
  induction k as [|k IH]; [reflexivity|].
  unfold ones in *. cbn [repeat app read_unary]. rewrite IH. reflexivity.
Qed.

Lemma lim_fits k m : (k <= m)%nat -> (N.of_nat k < 2 ^ N.of_nat (lim_width m))%N.
Proof.
  intros H. unfold lim_width. rewrite N2Nat.id.
  pose proof (N.size_gt (N.of_nat m)). lia.
Qed.

Lemma read_lim_enc k m r : (k <= m)%nat ->
  read_lim m (bits_of (lim_width m) (N.of_nat k) ++ r) = Ok (N.of_nat k, r).
Proof.
  intros H. unfold read_lim.
  rewrite short_app_len by apply bits_of_length.
  rewrite firstn_app_len by apply bits_of_length.
  rewrite skipn_app_len by apply bits_of_length.
  rewrite N_of_bits_bits_of_small by (apply lim_fits; exact H). reflexivity.
Qed.

(** every valid label form decodes to the label it encodes *)
Lemma load_label_enc f m lbl rest room :
  form_valid f lbl -> (length lbl <= m)%nat -> (length lbl <= room)%nat ->
  load_label m room (enc_label f m lbl ++ rest) = Ok (lbl, rest).
Proof.
  intros Hv Hm Hr. destruct f as [| |b]; cbn [enc_label].
  - unfold hml_short. cbn [app load_label].
    rewrite <- app_assoc. cbn [app]. rewrite read_unary_ones. cbn [bind].
    rewrite short_app_len by reflexivity.
    replace (room <? length lbl)%nat with false by (symmetry; apply Nat.ltb_ge; lia).
    rewrite firstn_app_len, skipn_app_len by reflexivity. reflexivity.
  - unfold hml_long. cbn [app load_label].
    rewrite <- app_assoc. rewrite read_lim_enc by exact Hm. cbn [bind].
    replace (N.of_nat room <? N.of_nat (length lbl))%N with false
      by (symmetry; apply N.ltb_ge; lia).
    rewrite Nat2N.id.
    rewrite short_app_len by reflexivity.
    rewrite firstn_app_len, skipn_app_len by reflexivity. reflexivity.
  - unfold hml_same. cbn [app load_label].
    rewrite read_lim_enc by exact Hm. cbn [bind].
    replace (N.of_nat room <? N.of_nat (length lbl))%N with false
      by (symmetry; apply N.ltb_ge; lia).
    rewrite Nat2N.id. cbn [form_valid] in Hv. rewrite <- Hv. reflexivity.
Qed.

(** loadLabelSize agrees with loadLabel on the length *)
Lemma load_label_size_enc f m lbl rest :
  (length lbl <= m)%nat ->
  load_label_size m (enc_label f m lbl ++ rest) =
    Ok (N.of_nat (length lbl), match f with FSame _ => rest | _ => lbl ++ rest end).
Proof.
  intros Hm. destruct f as [| |b]; cbn [enc_label].
  - unfold hml_short. cbn [app load_label_size].
    rewrite <- app_assoc. cbn [app]. rewrite read_unary_ones. reflexivity.
  - unfold hml_long. cbn [app load_label_size].
    rewrite <- app_assoc. rewrite read_lim_enc by exact Hm. reflexivity.
  - unfold hml_same. cbn [app load_label_size].
    rewrite read_lim_enc by exact Hm. reflexivity.
Qed.

(** the form the Go encoder chooses *)
Definition go_form (lbl : bits) : form := if (length lbl <? 8)%nat then FShort else FLong.

Lemma enc_label_go_eq m lbl : enc_label_go m lbl = enc_label (go_form lbl) m lbl.
Proof.
  unfold enc_label_go, go_form. destruct (length lbl <? 8)%nat; cbn [enc_label].
  - unfold hml_short. rewrite <- app_assoc. reflexivity.
  - reflexivity.
Qed.

Lemma go_form_valid lbl : form_valid (go_form lbl) lbl.
Proof. unfold go_form. destruct (length lbl <? 8)%nat; exact I. Qed.

Section Codec.
Variable V : Type.
Variable venc : V -> bits * list cell.
Variable vdec : bits -> list cell -> option V.
(* Unmarshal of what Marshal appended to the leaf (bits and references) gives
   the value back; the value is in tail position, nothing follows it *)
Hypothesis vcodec : forall v, vdec (fst (venc v)) (snd (venc v)) = Some v.

(** ** decoding the serialisation of any Patricia tree, any label forms *)
Lemma map_inner_cells (t : apt V) : forall N m prefix c,
  wf_pt m (erase t) -> forms_valid t -> (length prefix + m = N)%nat ->
  cells_of venc m t = Ok c ->
  map_inner vdec N m c prefix = Ok (tree_to_list prefix (erase t)).
Proof.
  induction t as [f lbl v|f lbl l IHl r IHr]; intros N m prefix c Hwf Hfv HN Hc.
  - cbn [cells_of] in Hc. apply mk_cell_ok in Hc. subst c.
    cbn [erase wf_pt forms_valid] in *.
    cbn [map_inner].
    rewrite load_label_enc by (auto; lia). cbn [bind].
    replace (length (prefix ++ lbl) <? N)%nat with false
      by (symmetry; apply Nat.ltb_ge; rewrite app_length; lia).
    unfold vdec_res. rewrite vcodec. cbn [bind].
    rewrite firstn_all2 by (rewrite app_length; lia). reflexivity.
  - cbn [cells_of] in Hc.
    apply bind_ok in Hc. destruct Hc as (lc & Hlc & Hc).
    apply bind_ok in Hc. destruct Hc as (rc & Hrc & Hc).
    apply mk_cell_ok in Hc. subst c.
    cbn [erase wf_pt forms_valid] in *.
    destruct Hwf as (Hlen & Hwl & Hwr). destruct Hfv as (Hf & Hfl & Hfr).
    cbn [map_inner].
    rewrite <- (app_nil_r (enc_label f m lbl)).
    rewrite load_label_enc by (auto; lia). cbn [bind].
    replace (length (prefix ++ lbl) <? N)%nat with true
      by (symmetry; apply Nat.ltb_lt; rewrite app_length; lia).
    replace (m - (1 + length lbl))%nat with (m - length lbl - 1)%nat by lia.
    rewrite (IHl N (m - length lbl - 1)%nat ((prefix ++ lbl) ++ [false]) lc); auto;
      [|rewrite !app_length; cbn [length]; lia].
    cbn [bind].
    rewrite (IHr N (m - length lbl - 1)%nat ((prefix ++ lbl) ++ [true]) rc); auto;
      [|rewrite !app_length; cbn [length]; lia].
    cbn [bind tree_to_list]. rewrite <- !app_assoc. reflexivity.
Qed.

Theorem decode_any_label_form n (t : apt V) c :
  wf_pt n (erase t) -> forms_valid t ->
  cells_of venc n t = Ok c ->
  decode vdec n c = Ok (tree_to_list [] (erase t)).
Proof.
  intros Hwf Hfv Hc. unfold decode. apply (map_inner_cells t n n [] c); auto.
Qed.

(** ** the encoder: serialisation of the canonical tree with the Go form choice *)
Fixpoint annot_go (t : pt V) : apt V :=
  match t with
  | Leaf lbl v => ALeaf (go_form lbl) lbl v
  | Fork lbl l r => AFork (go_form lbl) lbl (annot_go l) (annot_go r)
  end.

Lemma erase_annot_go t : erase (annot_go t) = t.
Proof. induction t as [lbl v|lbl l IHl r IHr]; cbn [annot_go erase]; congruence. Qed.

Lemma annot_go_valid t : forms_valid (annot_go t).
Proof.
  induction t as [lbl v|lbl l IHl r IHr]; cbn [annot_go forms_valid];
    auto using go_form_valid.
Qed.

Lemma lcp_go_cons x y a0 a' b' :
  lcp_go (x :: a0 :: a') (y :: b') =
    if Bool.eqb x y then do r <- lcp_go (a0 :: a') b'; Ok (x :: r) else Ok [].
Proof. reflexivity. Qed.

(* first key continues with 0 after p, last key with 1: the label is p, also
   when the differing bit is the very last one (which the loop never compares) *)
Lemma lcp_go_fork p a b : lcp_go (p ++ false :: a) (p ++ true :: b) = Ok p.
Proof.
  induction p as [|x p IH].
  - cbn [app]. destruct a; reflexivity.
  - cbn [app]. destruct (p ++ false :: a) as [|a0 a''] eqn:E; [destruct p; discriminate|].
    rewrite lcp_go_cons, Bool.eqb_reflx, IH. reflexivity.
Qed.

Lemma split_keys_cons p (b : bool) k (v : V) t :
  split_keys (length p) (((p ++ [b]) ++ k, v) :: t) =
    do lr <- split_keys (length p) t;
    Ok (if b then (fst lr, (k, v) :: snd lr) else ((k, v) :: fst lr, snd lr)).
Proof.
  cbn [split_keys]. rewrite <- !app_assoc.
  rewrite short_app_len, skipn_app_len by reflexivity. reflexivity.
Qed.

Lemma split_keys_right p (R : list (bits * V)) :
  split_keys (length p) (addp (p ++ [true]) R) = Ok ([], R).
Proof.
  induction R as [|[k v] R IH]; [reflexivity|].
  cbn [addp map fst snd]. rewrite split_keys_cons. fold (addp (p ++ [true]) R).
  rewrite IH. reflexivity.
Qed.

Lemma split_keys_fork p (L R : list (bits * V)) :
  split_keys (length p) (addp (p ++ [false]) L ++ addp (p ++ [true]) R) = Ok (L, R).
Proof.
  induction L as [|[k v] L IH]; cbn [addp map app fst snd].
  - apply split_keys_right.
  - rewrite split_keys_cons. fold (addp (p ++ [false]) L). rewrite IH. reflexivity.
Qed.

Lemma last_addp_key p (R : list (bits * V)) d d' :
  R <> [] -> fst (last (addp p R) d) = p ++ fst (last R d').
Proof.
  induction R as [|a R IH]; intros Hne; [congruence|].
  destruct R as [|a2 R2]; [reflexivity|].
  change (addp p (a :: a2 :: R2)) with ((p ++ fst a, snd a) :: addp p (a2 :: R2)).
  change (last (a :: a2 :: R2) d') with (last (a2 :: R2) d').
  rewrite <- IH by discriminate.
  cbn [addp map last]. reflexivity.
Qed.

Lemma encode_map_multi fuel n k0 v0 (rest : list (bits * V)) :
  rest <> [] ->
  encode_map venc (S fuel) n ((k0, v0) :: rest) =
    (do lbl <- lcp_go k0 (fst (last ((k0, v0) :: rest) (k0, v0)));
     do lr <- split_keys (length lbl) ((k0, v0) :: rest);
     do lc <- encode_map venc fuel (n - length lbl - 1) (fst lr);
     do rc <- encode_map venc fuel (n - length lbl - 1) (snd lr);
     mk_cell (enc_label_go n lbl) [lc; rc]).
Proof. destruct rest; [congruence|reflexivity]. Qed.

Lemma encode_map_tree (t : pt V) : forall fuel n,
  (length (tree_to_list [] t) < fuel)%nat ->
  encode_map venc fuel n (tree_to_list [] t) = cells_of venc n (annot_go t).
Proof.
  induction t as [lbl v|lbl l IHl r IHr]; intros fuel n Hfuel.
  - destruct fuel as [|fuel]; [cbn in Hfuel; lia|].
    cbn [tree_to_list app encode_map annot_go cells_of].
    rewrite enc_label_go_eq. reflexivity.
  - destruct fuel as [|fuel]; [lia|].
    cbn [tree_to_list app annot_go cells_of] in Hfuel |- *.
    rewrite (ttl_prefix V l (lbl ++ [false])), (ttl_prefix V r (lbl ++ [true])) in Hfuel |- *.
    pose proof (ttl_nonempty V l []) as HneL. pose proof (ttl_nonempty V r []) as HneR.
    rewrite app_length, !addp_length in Hfuel.
    set (L := tree_to_list [] l) in *. set (R := tree_to_list [] r) in *.
    assert (HlenR : (0 < length R)%nat) by (destruct R; [congruence|cbn; lia]).
    assert (HlenL : (0 < length L)%nat) by (destruct L; [congruence|cbn; lia]).
    destruct L as [|[kl vl] L'] eqn:EL; [congruence|].
    cbn [addp map app fst snd]. fold (addp (lbl ++ [false]) L').
    rewrite encode_map_multi.
    2:{ intros H. apply app_eq_nil in H. destruct H as [_ H].
        destruct R; [congruence|discriminate]. }
    (* the last key *)
    rewrite app_comm_cons, last_app_ne.
    2:{ destruct R; [congruence|discriminate]. }
    rewrite (last_addp_key (lbl ++ [true]) R _ (kl, vl)) by exact HneR.
    rewrite <- !app_assoc. cbn [app].
    rewrite lcp_go_fork. cbn [bind].
    (* the split *)
    change ((lbl ++ false :: kl, vl) :: addp (lbl ++ [false]) L' ++ addp (lbl ++ [true]) R)
      with (((lbl ++ false :: kl, vl) :: addp (lbl ++ [false]) L') ++ addp (lbl ++ [true]) R).
    replace ((lbl ++ false :: kl, vl) :: addp (lbl ++ [false]) L')
      with (addp (lbl ++ [false]) ((kl, vl) :: L'))
      by (cbn [addp map fst snd]; rewrite <- app_assoc; reflexivity).
    rewrite split_keys_fork. cbn [bind fst snd].
    rewrite IHl by lia.
    rewrite IHr by lia.
    rewrite enc_label_go_eq. reflexivity.
Qed.

(** ** round trip: distinct keys in ANY order *)
Theorem encode_is_canonical n (kvs : list (bits * V)) :
  NoDup (map fst kvs) -> keys_len n kvs -> kvs <> [] ->
  exists t, wf_pt n t /\ tree_to_list [] t = bsort kvs /\
            encode venc n kvs = cells_of venc n (annot_go t).
Proof.
  intros Hnd Hl Hne.
  pose proof (bsort_sorted V kvs Hnd) as Hs.
  pose proof (keys_len_perm V n _ _ (bsort_perm V kvs) Hl) as Hl'.
  assert (Hne' : bsort kvs <> []) by (intros H; apply Hne, (bsort_nil_inv V); exact H).
  destruct (sorted_tree_exists V n (bsort kvs) Hs Hl' Hne') as (t & Hwf & Et).
  exists t. repeat split; auto.
  pose proof (bsort_length V kvs) as Hlen.
  unfold encode. destruct kvs as [|kv0 kvs']; [congruence|].
  rewrite <- Et in Hlen |- *. apply encode_map_tree. lia.
Qed.

Theorem encode_decode_dict n (kvs : list (bits * V)) c :
  NoDup (map fst kvs) -> keys_len n kvs -> kvs <> [] ->
  encode venc n kvs = Ok c -> decode vdec n c = Ok (bsort kvs).
Proof.
  intros Hnd Hl Hne Hc.
  destruct (encode_is_canonical n kvs Hnd Hl Hne) as (t & Hwf & Et & Ee).
  rewrite Ee in Hc. rewrite <- Et.
  replace (tree_to_list [] t) with (tree_to_list [] (erase (annot_go t)))
    by (rewrite erase_annot_go; reflexivity).
  apply decode_any_label_form; auto.
  - rewrite erase_annot_go. exact Hwf.
  - apply annot_go_valid.
Qed.

Theorem encode_decode_dict_e n (kvs : list (bits * V)) c :
  NoDup (map fst kvs) -> keys_len n kvs ->
  encode_e venc n kvs = Ok c -> decode_e vdec n c = Ok (bsort kvs).
Proof.
  intros Hnd Hl Hc. unfold encode_e in Hc. destruct kvs as [|kv0 kvs'].
  - apply mk_cell_ok in Hc. subst c. reflexivity.
  - apply bind_ok in Hc. destruct Hc as (c' & Hc' & Hc).
    apply mk_cell_ok in Hc. subst c. cbn [decode_e].
    apply encode_decode_dict; auto. discriminate.
Qed.

(** the cells depend only on the set of pairs, not on the order of the slice *)
Theorem encode_perm_invariant n (l1 l2 : list (bits * V)) :
  NoDup (map fst l1) -> Permutation l1 l2 ->
  encode venc n l1 = encode venc n l2 /\ encode_e venc n l1 = encode_e venc n l2.
Proof.
  intros Hnd Hp.
  assert (E : encode venc n l1 = encode venc n l2).
  { unfold encode. rewrite (bsort_perm_eq V l1 l2 Hnd Hp), (Permutation_length Hp).
    destruct l1 as [|a l1'], l2 as [|b l2']; try reflexivity.
    - apply Permutation_nil in Hp. discriminate.
    - apply Permutation_sym, Permutation_nil in Hp. discriminate. }
  split; [exact E|]. unfold encode_e. rewrite E.
  destruct l1 as [|a l1'], l2 as [|b l2']; try reflexivity.
  - apply Permutation_nil in Hp. discriminate.
  - apply Permutation_sym, Permutation_nil in Hp. discriminate.
Qed.

(** dictionaries of another implementation, HashmapE level *)
Theorem decode_e_any_label_form n (t : option (apt V)) c :
  (forall a, t = Some a -> wf_pt n (erase a) /\ forms_valid a) ->
  cells_of_e venc n t = Ok c ->
  decode_e vdec n c =
    Ok (match t with Some a => tree_to_list [] (erase a) | None => [] end).
Proof.
  intros Hw Hc. destruct t as [a|]; cbn [cells_of_e] in Hc.
  - apply bind_ok in Hc. destruct Hc as (c' & Hc' & Hc).
    apply mk_cell_ok in Hc. subst c. cbn [decode_e].
    destruct (Hw a eq_refl). apply decode_any_label_form; auto.
  - apply mk_cell_ok in Hc. subst c. reflexivity.
Qed.

End Codec.
