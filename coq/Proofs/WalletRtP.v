(** Decoding a built wallet body gives back what was requested (C14): v3, v4,
    v5 beta, v5r1 here; the highload dictionary in WalletHlP.v. *)
From Coq Require Import List NArith ZArith Arith Bool Lia.
From Tongo Require Import Lib.Bits Lib.Res Model.BocParse Model.CellHash Spec.ReprHash Model.Wallet
  Proofs.WalletP Proofs.WalletSigP.
Import ListNotations.

Ltac step n L := rewrite (take_app_n n) by L; cbn [bind fst snd].

Lemma split_signed_app sg b rs :
  length sg = 512%nat -> split_signed (ocell (sg ++ b) rs) = Ok (sg, ocell b rs).
Proof.
  intros Hs. unfold split_signed. cbn [cdata crefs ocell]. rewrite short_spec, app_length, Hs.
  replace (512 + length b <? 512)%nat with false by (symmetry; apply Nat.ltb_ge; lia).
  rewrite firstn_len_app, skipn_len_app by exact Hs. reflexivity.
Qed.

Lemma decode_v3_built sub valid seqno ms sg u :
  modes_ok ms -> length sg = 512%nat -> (seqno < 4294967296)%N ->
  body_v3 sub valid seqno ms = Ok u ->
  decode_v3 (ocell (sg ++ cdata u) (crefs u)) =
    Ok (mkdec (sub mod 4294967296) (unix32 valid) seqno 0 ms).
Proof.
  intros Hm Hs Hq Hu. unfold body_v3 in Hu. apply payload_v1v4_ok in Hu. destruct Hu as (-> & _).
  unfold decode_v3. cbn [cdata crefs ocell]. rewrite split_signed_app by exact Hs.
  cbn [bind fst snd cdata crefs ocell]. rewrite <- !app_assoc.
  step 32%nat ltac:(apply u32_len). step 32%nat ltac:(apply u32_len). step 32%nat ltac:(apply u32_len).
  rewrite <- (app_nil_r (modes_bits ms)), payload_dec_modes by exact Hm. cbn [bind].
  rewrite N_u32_mod, (N_u32 (unix32 valid)) by apply unix32_bound. rewrite N_u32 by exact Hq. reflexivity.
Qed.

Lemma decode_v4_built sub valid seqno ms sg u :
  modes_ok ms -> length sg = 512%nat -> (seqno < 4294967296)%N ->
  body_v4 sub valid seqno ms = Ok u ->
  decode_v4 (ocell (sg ++ cdata u) (crefs u)) =
    Ok (mkdec (sub mod 4294967296) (unix32 valid) seqno 0 ms).
Proof.
  intros Hm Hs Hq Hu. unfold body_v4 in Hu. apply payload_v1v4_ok in Hu. destruct Hu as (-> & _).
  unfold decode_v4. cbn [cdata crefs ocell]. rewrite split_signed_app by exact Hs.
  cbn [bind fst snd cdata crefs ocell]. rewrite <- !app_assoc.
  step 32%nat ltac:(apply u32_len). step 32%nat ltac:(apply u32_len). step 32%nat ltac:(apply u32_len).
  step 8%nat ltac:(reflexivity).
  rewrite <- (app_nil_r (modes_bits ms)), payload_dec_modes by exact Hm. cbn [bind].
  rewrite N_u32_mod, (N_u32 (unix32 valid)) by apply unix32_bound. rewrite N_u32 by exact Hq. reflexivity.
Qed.

Lemma op_ext_u32 : N_of_bits (u32 op_signed_external) = op_signed_external.
Proof. apply N_u32. unfold op_signed_external. lia. Qed.

Definition v5beta_id (net : N) (wc : Z) (sub : N) : N :=
  N_of_bits (u32 net ++ u8 (Z.to_N (wc mod 256)) ++ u8 0 ++ u32 sub).

Lemma decode_v5beta_built net wc sub valid seqno ms sg a :
  modes_ok ms -> length sg = 512%nat -> (seqno < 4294967296)%N ->
  actions_cell ms = Ok a ->
  decode_v5beta (ocell (v5beta_bits op_signed_external net wc sub valid seqno ++ sg) [a]) =
    Ok (mkdec (v5beta_id net wc sub) (unix32 valid) seqno 0 ms).
Proof.
  intros Hm Hs Hq Ha. unfold decode_v5beta, v5beta_bits. cbn [cdata crefs ocell].
  rewrite <- !app_assoc.
  step 32%nat ltac:(apply u32_len). rewrite op_ext_u32.
  change (N.eqb op_signed_external op_signed_internal) with false.
  change (N.eqb op_signed_external op_signed_external) with true. cbn [orb negb].
  replace (u32 net ++ u8 (Z.to_N (wc mod 256)) ++ u8 0 ++ u32 sub ++
           u32 (unix32 valid) ++ u32 seqno ++ [false] ++ sg)
    with ((u32 net ++ u8 (Z.to_N (wc mod 256)) ++ u8 0 ++ u32 sub) ++
          u32 (unix32 valid) ++ u32 seqno ++ [false] ++ sg) by (rewrite <- !app_assoc; reflexivity).
  step 80%nat ltac:(rewrite !app_length, !u32_len, !u8_len; reflexivity).
  step 32%nat ltac:(apply u32_len). step 32%nat ltac:(apply u32_len).
  step 1%nat ltac:(reflexivity).
  rewrite (take_all 512) by exact Hs. cbn [bind fst snd first_ref].
  rewrite (actions_dec_cell ms a Hm Ha). cbn [bind].
  rewrite (N_u32 (unix32 valid)) by apply unix32_bound. rewrite N_u32 by exact Hq.
  change (N_of_bits [false]) with 0%N. unfold v5beta_id. reflexivity.
Qed.

Lemma decode_v5r1_built wid valid seqno ms sg a :
  modes_ok ms -> length sg = 512%nat -> (seqno < 4294967296)%N ->
  actions_cell ms = Ok a ->
  decode_v5r1 (ocell (v5r1_bits op_signed_external wid valid seqno ++ sg) [a]) =
    Ok (mkdec (wid mod 4294967296) (unix32 valid) seqno 0 ms).
Proof.
  intros Hm Hs Hq Ha. unfold decode_v5r1, v5r1_bits. cbn [cdata crefs ocell].
  rewrite <- !app_assoc.
  step 32%nat ltac:(apply u32_len). rewrite op_ext_u32.
  change (N.eqb op_signed_external op_signed_internal) with false.
  change (N.eqb op_signed_external op_signed_external) with true. cbn [orb].
  step 32%nat ltac:(apply u32_len). step 32%nat ltac:(apply u32_len). step 32%nat ltac:(apply u32_len).
  change ([true; false] ++ sg) with ([true] ++ [false] ++ sg).
  step 1%nat ltac:(reflexivity). cbn [nth first_ref bind].
  rewrite (actions_dec_cell ms a Hm Ha). cbn [bind].
  step 1%nat ltac:(reflexivity). cbn [nth].
  rewrite (take_all 512) by exact Hs. cbn [bind fst snd].
  rewrite N_u32_mod, (N_u32 (unix32 valid)) by apply unix32_bound. rewrite N_u32 by exact Hq. reflexivity.
Qed.
