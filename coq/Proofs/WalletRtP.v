(** Decoding a built wallet body gives back what was requested (C14): v3, v4,
    v5 beta, v5r1 here; the highload dictionary in WalletHlP.v. *)
From Coq Require Import List NArith ZArith Arith Bool Lia.
From Tongo Require Import Lib.Bits Lib.Res Model.BocParse Model.CellHash Spec.ReprHash Model.Wallet
  Proofs.WalletP Proofs.WalletSigP.
From Tongo Require Model.TlbCore Proofs.TlbCoreP.
Import ListNotations.

Ltac step n L := rewrite (take_app_n n) by L; cbn [bind fst snd].

Lemma split_signed_app sg b rs :
  length sg = 512%nat -> split_signed (ocell (sg ++ b) rs) = Ok (sg, ocell b rs).
Proof.
  intros Hs. unfold split_signed. cbn [cdata crefs ocell]. rewrite short_spec, app_length, Hs.
  replace (512 + length b <? 512)%nat with false by (symmetry; apply Nat.ltb_ge; lia).
  rewrite firstn_len_app, skipn_len_app by exact Hs. reflexivity.
Qed.

Lemma decode_v3_built sub valid seqno ms sg u :
  modes_ok ms -> length sg = 512%nat -> (seqno < 4294967296)%N ->
  body_v3 sub valid seqno ms = Ok u ->
  decode_v3 (ocell (sg ++ cdata u) (crefs u)) =
    Ok (mkdec (sub mod 4294967296) (unix32 valid) seqno 0 ms).
Proof.
  intros Hm Hs Hq Hu. unfold body_v3 in Hu. apply payload_v1v4_ok in Hu. destruct Hu as (-> & _).
  unfold decode_v3. cbn [cdata crefs ocell]. rewrite split_signed_app by exact Hs.
  cbn [bind fst snd cdata crefs ocell]. rewrite <- !app_assoc.
  step 32%nat ltac:(apply u32_len). step 32%nat ltac:(apply u32_len). step 32%nat ltac:(apply u32_len).
  rewrite <- (app_nil_r (modes_bits ms)), payload_dec_modes by exact Hm. cbn [bind].
  rewrite N_u32_mod, (N_u32 (unix32 valid)) by apply unix32_bound. rewrite N_u32 by exact Hq. reflexivity.
Qed.

Lemma decode_v4_built sub valid seqno ms sg u :
  modes_ok ms -> length sg = 512%nat -> (seqno < 4294967296)%N ->
  body_v4 sub valid seqno ms = Ok u ->
  decode_v4 (ocell (sg ++ cdata u) (crefs u)) =
    Ok (mkdec (sub mod 4294967296) (unix32 valid) seqno 0 ms).
Proof.
  intros Hm Hs Hq Hu. unfold body_v4 in Hu. apply payload_v1v4_ok in Hu. destruct Hu as (-> & _).
  unfold decode_v4. cbn [cdata crefs ocell]. rewrite split_signed_app by exact Hs.
  cbn [bind fst snd cdata crefs ocell]. rewrite <- !app_assoc.
  step 32%nat ltac:(apply u32_len). step 32%nat ltac:(apply u32_len). step 32%nat ltac:(apply u32_len).
  step 8%nat ltac:(reflexivity).
  rewrite <- (app_nil_r (modes_bits ms)), payload_dec_modes by exact Hm. cbn [bind].
  rewrite N_u32_mod, (N_u32 (unix32 valid)) by apply unix32_bound. rewrite N_u32 by exact Hq. reflexivity.
Qed.

Lemma op_ext_u32 : N_of_bits (u32 op_signed_external) = op_signed_external.
Proof. apply N_u32. unfold op_signed_external. lia. Qed.

Definition v5beta_id (net : N) (wc : Z) (sub : N) : N :=
  N_of_bits (u32 net ++ u8 (Z.to_N (wc mod 256)) ++ u8 0 ++ u32 sub).

Lemma decode_v5beta_built net wc sub valid seqno ms sg a :
  modes_ok ms -> length sg = 512%nat -> (seqno < 4294967296)%N ->
  actions_cell ms = Ok a ->
  decode_v5beta (ocell (v5beta_bits op_signed_external net wc sub valid seqno ++ sg) [a]) =
    Ok (mkdec (v5beta_id net wc sub) (unix32 valid) seqno 0 ms).
Proof.
  intros Hm Hs Hq Ha. unfold decode_v5beta, v5beta_bits. cbn [cdata crefs ocell].
  rewrite <- !app_assoc.
  step 32%nat ltac:(apply u32_len). rewrite op_ext_u32.
  change (N.eqb op_signed_external op_signed_internal) with false.
  change (N.eqb op_signed_external op_signed_external) with true. cbn [orb negb].
  replace (u32 net ++ u8 (Z.to_N (wc mod 256)) ++ u8 0 ++ u32 sub ++
           u32 (unix32 valid) ++ u32 seqno ++ [false] ++ sg)
    with ((u32 net ++ u8 (Z.to_N (wc mod 256)) ++ u8 0 ++ u32 sub) ++
          u32 (unix32 valid) ++ u32 seqno ++ [false] ++ sg) by (rewrite <- !app_assoc; reflexivity).
  step 80%nat ltac:(rewrite !app_length, !u32_len, !u8_len; reflexivity).
  step 32%nat ltac:(apply u32_len). step 32%nat ltac:(apply u32_len).
  step 1%nat ltac:(reflexivity).
  rewrite (take_all 512) by exact Hs. cbn [bind fst snd first_ref].
  rewrite (actions_dec_cell ms a Hm Ha). cbn [bind].
  rewrite (N_u32 (unix32 valid)) by apply unix32_bound. rewrite N_u32 by exact Hq.
  change (N_of_bits [false]) with 0%N. unfold v5beta_id. reflexivity.
Qed.

(** v5r1 extended actions *)
Lemma ok_inj' {A} (a b : A) : @Ok A a = Ok b -> a = b.
Proof. intros H. injection H. auto. Qed.

Lemma ext_one_bits x xb rest : ext_action_bits x = Ok xb -> ext_one (xb ++ rest) = Ok (x, rest).
Proof.
  unfold ext_action_bits, ext_one. destruct x as [a|a|b].
  - destruct (TlbCore.addr_ok a) eqn:Ea; [|discriminate]. intros H; apply ok_inj' in H; subst xb. rewrite <- app_assoc.
    rewrite (take_app_n 8) by apply u8_len. cbn [bind fst snd]. rewrite N_u8 by lia. cbn [N.eqb Pos.eqb].
    rewrite TlbCoreP.addr_parse_bits by exact Ea. reflexivity.
  - destruct (TlbCore.addr_ok a) eqn:Ea; [|discriminate]. intros H; apply ok_inj' in H; subst xb. rewrite <- app_assoc.
    rewrite (take_app_n 8) by apply u8_len. cbn [bind fst snd]. rewrite N_u8 by lia. cbn [N.eqb Pos.eqb].
    rewrite TlbCoreP.addr_parse_bits by exact Ea. reflexivity.
  - intros H; apply ok_inj' in H; subst xb. rewrite <- app_assoc.
    rewrite (take_app_n 8) by apply u8_len. cbn [bind fst snd]. rewrite N_u8 by lia. cbn [N.eqb Pos.eqb].
    rewrite (take_app_n 1) by reflexivity. reflexivity.
Qed.

Lemma ext_tail_chain t : forall n, ext_tail t = Ok n ->
  match n with None => t = [] | Some c => ext_chain_dec c = Ok t end.
Proof.
  induction t as [|x t IH]; intros n H.
  - cbn in H. injection H as <-. reflexivity.
  - cbn [ext_tail] in H. apply bind_ok in H. destruct H as (n' & Hn & H).
    apply bind_ok in H. destruct H as (xb & Hx & H). apply bind_ok in H. destruct H as (c & Hc & H).
    injection H as <-. apply mk_ok in Hc. destruct Hc as (-> & _). specialize (IH n' Hn).
    unfold ocell. cbn [ext_chain_dec]. rewrite <- (app_nil_r xb), (ext_one_bits x xb [] Hx). cbn [bind fst snd].
    destruct n' as [c'|]; cbn [opt_list].
    + rewrite IH. reflexivity.
    + subst t. reflexivity.
Qed.

Lemma decode_v5r1x_built wid valid seqno ms xs sg a p :
  modes_ok ms -> length sg = 512%nat -> (seqno < 4294967296)%N ->
  actions_cell ms = Ok a -> v5r1x_parts xs = Ok p -> xs <> Some [] ->
  decode_v5r1x (ocell (u32 op_signed_external ++ u32 wid ++ u32 (unix32 valid) ++ u32 seqno ++ [true] ++
                       fst p ++ sg) (a :: snd p)) =
    Ok (mkdec (wid mod 4294967296) (unix32 valid) seqno 0 ms, xs).
Proof.
  intros Hm Hs Hq Ha Hp Hne. unfold decode_v5r1x. cbn [cdata crefs ocell].
  step 32%nat ltac:(apply u32_len). rewrite op_ext_u32.
  change (N.eqb op_signed_external op_signed_internal) with false.
  change (N.eqb op_signed_external op_signed_external) with true. cbn [orb].
  step 32%nat ltac:(apply u32_len). step 32%nat ltac:(apply u32_len). step 32%nat ltac:(apply u32_len).
  step 1%nat ltac:(reflexivity). cbn [nth first_ref bind tl].
  rewrite (actions_dec_cell ms a Hm Ha). cbn [bind].
  rewrite N_u32_mod, (N_u32 (unix32 valid)) by apply unix32_bound. rewrite (N_u32 seqno) by exact Hq.
  unfold v5r1x_parts in Hp. destruct xs as [[|x t]|].
  - contradiction Hne. reflexivity.
  - apply bind_ok in Hp. destruct Hp as (xb & Hx & Hp). apply bind_ok in Hp. destruct Hp as (n & Hn & Hp).
    apply ok_inj' in Hp. subst p. cbn [fst snd]. rewrite <- !app_assoc.
    step 1%nat ltac:(reflexivity). cbn [nth].
    unfold ext_dec_body. rewrite (ext_one_bits x xb sg Hx). cbn [bind fst snd].
    pose proof (ext_tail_chain t n Hn) as Ht. destruct n as [c|]; cbn [opt_list].
    + rewrite Ht. cbn [bind fst snd]. rewrite (take_all 512) by exact Hs. reflexivity.
    + subst t. cbn [bind fst snd]. rewrite (take_all 512) by exact Hs. reflexivity.
  - apply ok_inj' in Hp. subst p. cbn [fst snd].
    step 1%nat ltac:(reflexivity). cbn [nth bind fst snd]. rewrite (take_all 512) by exact Hs. reflexivity.
Qed.

Lemma decode_v5r1_built wid valid seqno ms sg a :
  modes_ok ms -> length sg = 512%nat -> (seqno < 4294967296)%N ->
  actions_cell ms = Ok a ->
  decode_v5r1 (ocell (v5r1_bits op_signed_external wid valid seqno ++ sg) [a]) =
    Ok (mkdec (wid mod 4294967296) (unix32 valid) seqno 0 ms).
Proof.
  intros Hm Hs Hq Ha. unfold decode_v5r1.
  pose proof (decode_v5r1x_built wid valid seqno ms None sg a ([false], []) Hm Hs Hq Ha eq_refl ltac:(discriminate)) as H.
  cbn [fst snd] in H. unfold v5r1_bits. rewrite <- !app_assoc.
  change ([true; false] ++ sg) with ([true] ++ [false] ++ sg). rewrite H. reflexivity.
Qed.
