(** Totality of the extended TL-B walker of Model/TlbHand.v: for every
    environment, descriptor, fuel, cell tree and cost state the outcome is a
    value or an error, never a panic — including the hand-written decoders
    (dictionaries, VmStack lists, tuples, cell slices, snake data, Grams). *)
From Coq Require Import List NArith ZArith Arith Lia Bool.
From Tongo Require Import Lib.Bits Lib.Res Spec.Dict Model.Hashmap Model.TlbCore Model.TlbTotal
     Proofs.TlbTotalP Model.TlbHand.
Import ListNotations.

(** induction on cell trees (nested through the list of references) *)
Section XtreeInd.
  Variable P : xtree -> Prop.
  Hypothesis Hnode : forall k b r, Forall P r -> P (XT k b r).
  Fixpoint xtree_ind' (c : xtree) : P c :=
    match c with
    | XT k b r =>
        Hnode k b r
          ((fix go (l : list xtree) : Forall P l :=
              match l with
              | [] => Forall_nil P
              | x :: t => Forall_cons x (xtree_ind' x) (go t)
              end) r)
    end.
End XtreeInd.

Definition ynp {A} (r : yres A) : Prop := np (fst r).

Lemma ynp_ret {A} (a : A) st : ynp (yret a st).
Proof. exact I. Qed.
Lemma ynp_err {A} e st : ynp (@yerr A e st).
Proof. exact I. Qed.
Lemma ynp_bind {A B} (r : yres A) (k : A -> ct -> yres B) :
  ynp r -> (forall a st, ynp (k a st)) -> ynp (ybind r k).
Proof. destruct r as [[a | e | p] st]; unfold ynp; cbn; auto. Qed.
Lemma ynp_lift {A} (r : res A) st : np r -> ynp (ylift r st).
Proof. destruct r; unfold ynp; cbn; auto. Qed.
Lemma ynp_if {A} (b : bool) (x y : yres A) : ynp x -> ynp y -> ynp (if b then x else y).
Proof. destruct b; auto. Qed.

Lemma np_ytake_bits n s : np (ytake_bits n s).
Proof. unfold ytake_bits. destruct (short n (yb s)); exact I. Qed.
Lemma np_ytake_ref s : np (ytake_ref s).
Proof. unfold ytake_ref. destruct (yr s); exact I. Qed.

Lemma np_vm_cellslice s : np (vm_cellslice s).
Proof.
  unfold vm_cellslice. apply np_bind; [apply np_ytake_ref|]. intros [cell s1].
  apply np_bind; [apply np_ytake_bits|]. intros a.
  apply np_bind; [apply np_ytake_bits|]. intros b.
  apply np_if; [exact I|].
  apply np_bind; [apply np_ytake_bits|]. intros c.
  apply np_bind; [apply np_ytake_bits|]. intros d.
  apply np_if; [exact I|].
  destruct cell as [k cb crefs]. apply np_if; [exact I|]. apply np_if; exact I.
Qed.

Lemma np_grams s : np (grams s).
Proof.
  unfold grams. apply np_bind; [apply np_ytake_bits|]. intros x.
  apply np_if; [exact I|]. apply np_bind; [apply np_ytake_bits|]. intros y. exact I.
Qed.

Lemma np_fixed_text s : np (fixed_text s).
Proof.
  unfold fixed_text. apply np_bind; [apply np_ytake_bits|]. intros x.
  apply np_bind; [apply np_ytake_bits|]. intros y. exact I.
Qed.

Lemma np_read_unary l : np (read_unary l).
Proof. induction l as [ | [ | ] t IH]; cbn; try exact I. apply np_bind; [exact IH | intros; exact I]. Qed.
Lemma np_read_lim m l : np (read_lim m l).
Proof. unfold read_lim. destruct (short _ l); exact I. Qed.

Lemma np_load_label m room c : np (load_label m room c).
Proof.
  unfold load_label. destruct c as [ | [ | ] c1]; try exact I.
  - destruct c1 as [ | [ | ] c2]; try exact I.
    + destruct c2 as [ | b c3]; [exact I|].
      apply np_bind; [apply np_read_lim|]. intros [lnN c4]. apply np_if; exact I.
    + apply np_bind; [apply np_read_lim|]. intros [lnN c3].
      apply np_if; [exact I|]. apply np_if; exact I.
  - apply np_bind; [apply np_read_unary|]. intros [ln c2].
    apply np_if; [exact I|]. apply np_if; exact I.
Qed.

(** * the tree walkers *)
Lemma vmw_np : forall c mode st, ynp (vmw mode c st).
Proof.
  induction c as [k b refs IH] using xtree_ind'. intros mode st.
  cbn [vmw]. lazy zeta.
  (* the tuple body, for any remaining bits / refs that are among the children *)
  assert (Hafter : forall refs1 b1 stx, Forall (fun c => forall mode st, ynp (vmw mode c st)) refs1 ->
            ynp (match refs1 with
                 | [] => yerr ENotEnoughRefs stx
                 | c2 :: r3 => doy (_, st2) <- vmw None c2 stx; yret (mkys k b1 r3) st2
                 end)).
  { intros refs1 b1 stx HF. destruct refs1 as [ | c2 r3]; [exact I|].
    inversion HF; subst. apply ynp_bind; [auto | intros; exact I]. }
  assert (Htuple : forall n b1 stx,
            ynp (if N.eqb n 0 then yret (mkys k b1 refs) stx else
                 if N.eqb (N.pred n) 0 then
                   match refs with
                   | [] => yerr ENotEnoughRefs stx
                   | c2 :: r3 => doy (_, st2) <- vmw None c2 stx; yret (mkys k b1 r3) st2
                   end
                 else match refs with
                      | [] => yerr ENotEnoughRefs stx
                      | c1 :: r1 =>
                          if N.eqb (N.pred n) 1 then
                            doy (_, st1) <- vmw None c1 stx;
                             match r1 with
                             | [] => yerr ENotEnoughRefs st1
                             | c2 :: r3 => doy (_, st2) <- vmw None c2 st1; yret (mkys k b1 r3) st2
                             end
                          else doy (_, st1) <- vmw (Some (N.pred n)) c1 stx;
                               match r1 with
                               | [] => yerr ENotEnoughRefs st1
                               | c2 :: r3 => doy (_, st2) <- vmw None c2 st1; yret (mkys k b1 r3) st2
                               end
                      end)).
  { intros n b1 stx. apply ynp_if; [exact I|]. apply ynp_if; [apply Hafter; exact IH|].
    destruct refs as [ | c1 r1]; [exact I|]. inversion IH as [ | ? ? Hc1 Hr1]; subst.
    apply ynp_if.
    - apply ynp_bind; [apply Hc1|]. intros _ stz. apply (Hafter r1 b1 stz Hr1).
    - apply ynp_bind; [apply Hc1|]. intros _ stz. apply (Hafter r1 b1 stz Hr1). }
  destruct mode as [n | ].
  - exact (Htuple n b (tickc st)).
  - assert (Hb : forall w s1 stx, ynp (doy (x, st) <- ylift (ytake_bits w s1) stx; yret (snd x) st)).
    { intros. apply ynp_bind; [apply ynp_lift; apply np_ytake_bits | intros; exact I]. }
    apply ynp_if; [exact I|]. apply ynp_if; [exact I|].
    apply ynp_if; [exact I|].
    apply ynp_if; [apply Hb|].
    apply ynp_if.
    { apply ynp_if; [exact I|]. apply ynp_if; [apply Hb|].
      apply ynp_if; [exact I|]. apply ynp_if; exact I. }
    apply ynp_if.
    { apply ynp_bind; [apply ynp_lift; apply np_ytake_ref | intros; exact I]. }
    apply ynp_if; [apply ynp_lift; apply np_vm_cellslice|].
    apply ynp_if; [exact I|].
    apply ynp_if; [|exact I].
    apply ynp_if; [exact I|]. exact (Htuple _ _ _).
Qed.

Lemma vm_list_np : forall c depth st, ynp (vm_list c depth st).
Proof.
  induction c as [k b refs IH] using xtree_ind'. intros depth st. cbn [vm_list]. lazy zeta.
  apply ynp_if; [exact I|].
  destruct refs as [ | rest refs']; [exact I|]. inversion IH; subst.
  apply ynp_bind; [auto|]. intros r st1.
  apply ynp_bind; [apply vmw_np|]. intros; exact I.
Qed.

Lemma snake_np : forall c st, ynp (snake c st).
Proof.
  induction c as [k b refs IH] using xtree_ind'. intros st. cbn [snake]. lazy zeta.
  apply ynp_if; [exact I|].
  destruct refs as [ | c1 r']; [exact I|]. inversion IH; subst.
  apply ynp_bind; [auto | intros; exact I].
Qed.

Lemma hm_tree_np V E n vsz :
  (forall s st, ynp (V s st)) ->
  (forall e, E = Some e -> forall s st, ynp (e s st)) ->
  forall c left plen st, ynp (hm_tree V E n vsz left c plen st).
Proof.
  intros HV HE.
  assert (HX : forall s st, ynp (with_extra E s st)).
  { intros s st. unfold with_extra. destruct E as [e | ]; [apply (HE e eq_refl) | exact I]. }
  induction c as [k b refs IH] using xtree_ind'. intros left plen st. cbn [hm_tree]. lazy zeta.
  apply ynp_if; [exact I|].
  apply ynp_bind; [apply ynp_lift; apply np_load_label|]. intros [lbl rest] st1.
  apply ynp_if.
  - destruct refs as [ | l refs']; [exact I|]. inversion IH as [ | ? ? Hl Hr]; subst.
    apply ynp_bind; [apply Hl|]. intros _ st2.
    destruct refs' as [ | r refs'']; [exact I|]. inversion Hr; subst.
    apply ynp_bind; [auto|]. intros _ st3. apply HX.
  - apply ynp_bind; [apply HX|]. intros s1 st2.
    apply ynp_bind; [apply HV|]. intros; exact I.
Qed.

Lemma bt_tree_np : forall c st, ynp (bt_tree c st).
Proof.
  induction c as [k b refs IH] using xtree_ind'. intros st. cbn [bt_tree]. lazy zeta.
  destruct b as [ | [ | ] b']; try exact I.
  destruct refs as [ | l refs']; [exact I|]. inversion IH as [ | ? ? Hl Hr]; subst.
  apply ynp_bind; [apply Hl|]. intros ll st1.
  destruct refs' as [ | r refs'']; [exact I|]. inversion Hr; subst.
  apply ynp_bind; [auto | intros; exact I].
Qed.

Lemma bt_leaves_np V : (forall s st, ynp (V s st)) -> forall ls last st, ynp (bt_leaves V ls last st).
Proof.
  intros HV. induction ls as [ | x t IH]; intros last st; cbn [bt_leaves]; [exact I|].
  apply ynp_bind; [apply HV | intros; apply IH].
Qed.

(** * the descriptor walker *)
Lemma ybody_np env hk (D : yty -> ys -> ct -> yres ys) :
  (forall t s st, ynp (D t s st)) -> forall t s st, ynp (ybody env hk D t s st).
Proof.
  intros IH t s st. unfold ybody. lazy zeta.
  assert (Hbits : forall w stx, ynp (doy (x, st) <- ylift (ytake_bits w s) stx; yret (snd x) st)).
  { intros. apply ynp_bind; [apply ynp_lift; apply np_ytake_bits | intros; exact I]. }
  assert (Hinto : forall (cr : xtree * ys) chk t' stx,
            ynp (match sub_slice (fst cr) chk with
                 | Some s2 => doy (_, st) <- D t' s2 stx; yret (snd cr) st
                 | None => yret (snd cr) stx
                 end)).
  { intros. destruct (sub_slice (fst cr) chk); [|exact I].
    apply ynp_bind; [apply IH | intros; exact I]. }
  destruct t; try apply Hbits.
  - apply ynp_if; [exact I | apply Hbits].
  - apply ynp_bind; [apply ynp_lift; apply np_ytake_bits|]. intros x st2.
    apply ynp_bind; [apply ynp_lift; apply np_ytake_bits | intros; exact I].
  - apply ynp_bind; [apply ynp_lift; apply np_xunary | intros; exact I].
  - apply ynp_if; [apply ynp_if; exact I|].
    apply ynp_bind; [apply ynp_lift; apply np_ytake_bits|]. intros x st2. apply ynp_if; exact I.
  - apply ynp_bind; [apply ynp_lift; apply np_ytake_bits|]. intros x st2. apply ynp_if; [apply IH | exact I].
  - apply ynp_bind; [apply ynp_lift; apply np_ytake_bits|]. intros x st2. apply ynp_if; apply IH.
  - apply ynp_bind; [apply ynp_lift; apply np_ytake_bits|]. intros x st2. apply ynp_if; [|apply IH].
    apply ynp_bind; [apply ynp_lift; apply np_ytake_ref|]. intros cr st3. apply Hinto.
  - apply ynp_bind; [apply ynp_lift; apply np_ytake_ref|]. intros cr st3. apply Hinto.
  - apply ynp_bind; [apply ynp_lift; apply np_ytake_bits|]. intros x st2. apply ynp_if; [|exact I].
    apply ynp_bind; [apply ynp_lift; apply np_ytake_ref|]. intros cr st3. apply Hinto.
  - clear Hbits. generalize st. revert s. induction fs as [ | t1 ft IHf]; intros s0 stx; [exact I|].
    apply ynp_bind; [apply IH|]. intros s1 st2. apply IHf.
  - induction alts as [ | [[len val] t'] rest IHa]; [exact I|].
    apply ynp_if; [exact IHa|]. apply ynp_if; [apply IH | exact IHa].
  - exact I.
  - apply ynp_bind; [apply ynp_lift; apply np_ytake_ref | intros; exact I].
  - apply ynp_bind; [apply ynp_lift; apply np_addr_parse | intros; exact I].
  - destruct (nth_error env i); [apply IH | exact I].
  - apply ynp_lift. apply np_grams.
  - apply ynp_bind; [apply snake_np | intros; exact I].
  - apply ynp_bind; [apply snake_np|]. intros r st2. apply ynp_if; exact I.
  - apply ynp_lift. apply np_fixed_text.
  - unfold hm_decode. apply hm_tree_np; [intros; apply IH | intros e He; discriminate].
  - unfold hm_decode. apply hm_tree_np; [intros; apply IH|].
    intros e He. inversion He; subst. intros; apply IH.
  - unfold vm_stack. apply ynp_bind; [apply ynp_lift; apply np_ytake_bits|]. intros x st2.
    apply ynp_if; [exact I|]. apply ynp_bind; [apply vm_list_np | intros; exact I].
  - apply vmw_np.
  - unfold vm_tuple. apply ynp_bind; [apply ynp_lift; apply np_ytake_bits|]. intros x st2. apply vmw_np.
  - apply ynp_lift. apply np_vm_cellslice.
  - exact I.
  - exact I.
  - apply ynp_bind; [apply snake_np|]. intros r st2. apply ynp_if; [apply ynp_if; exact I | exact I].
  - apply ynp_bind; [apply bt_tree_np|]. intros leaves st2.
    apply ynp_bind; [apply bt_leaves_np; intros; apply IH|]. intros last st3.
    destruct (yb s) as [ | [ | ] b']; exact I.
  - apply ynp_if; [apply IH | exact I].
  - apply ynp_bind; [apply ynp_lift; apply np_ytake_ref|]. intros cr st3. apply Hinto.
  - apply IH.
  - apply ynp_if; [exact I|]. apply ynp_if; apply IH.
  - destruct (yr s); [exact I|].
    apply ynp_bind; [apply ynp_lift; apply np_ytake_ref|]. intros cr st3. apply Hinto.
  - clear Hbits. generalize st. revert s.
    induction fs as [ | t1 ft IHf]; intros s0 stx; [exact I|].
    apply ynp_bind; [apply IH|]. intros s1 st2. apply IHf.
Qed.

Theorem ydec_np env hk rs : forall fuel t s st, ynp (ydec env hk rs fuel t s st).
Proof.
  induction fuel as [ | f IH]; intros t s st; cbn [ydec]; [exact I|]. lazy zeta.
  apply ynp_if; [|apply ybody_np; exact IH].
  apply ynp_if; [exact I|].
  apply ynp_if; [exact I|].
  destruct (rs (cell_of s)) as [c' | ]; [|exact I].
  apply ynp_bind; [apply ybody_np; exact IH | intros; exact I].
Qed.

Theorem yunmarshal_np env hk rs fuel t c : ynp (yunmarshal env hk rs fuel t c).
Proof. apply ydec_np. Qed.
