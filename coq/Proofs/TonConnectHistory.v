(** C19 — the behaviour of tonconnect.ParseStateInit / CheckProof BEFORE the repairs
    "fix: ParseStateInit returns an error for a state-init without code or data or with
    several roots" and "fix: ParseStateInit rejects wallet versions without a data layout".
    Kept so that the defects re-appearing is understood at once (corpus + this file).

    F16  a state-init lacking code or data that hashes to the claimed address made
         ParseStateInit return (nil, nil); ed25519.Verify then panicked on the empty key.
    F22  a state-init whose code is V3R2Lockup (in knownHashes, no case in the switch) made
         ParseStateInit return the all-zero key.  The all-zero string is a valid Ed25519
         public key of order 4, for which anybody can produce signatures (one try in four
         succeeds), so CheckProof accepted a proof for such an address from anybody. *)
From Coq Require Import String Ascii List NArith ZArith Bool.
From Tongo Require Import Lib.Bits Lib.Res Model.TonConnect.
Import ListNotations.
Local Open Scope Z_scope.

Definition parse_state_init_key_before_fix (boc : bytes -> res (list cell)) (lib_ok ext_ok : cell -> bool)
           (known : known_table) (si : bytes) : res bytes :=
  do cells <- boc si;
  match cells with
  | [root] =>
      do (code, data) <- parse_state_init lib_ok root;
      match code, data with
      | Some c, Some d =>
          match c_hash c with
          | None => Err EOther
          | Some h =>
              match lookup h known with
              | None => Err EOther
              | Some None => Ok (repeat 0%N 32)     (* var pubKey tlb.Bits256 left untouched *)
              | Some (Some l) => data_key ext_ok l d
              end
          end
      | _, _ => Ok []                               (* return nil, err  with err == nil *)
      end
  | _ => Ok []                                      (* len(cells) != 1: return nil, err(nil) *)
  end.

Section Before.
  Variable H : bytes -> bytes.
  Variable verify : bytes -> bytes -> bytes -> bool.
  Variable b64 : bytes -> option bytes.
  Variable boc : bytes -> res (list cell).
  Variable lib_ok ext_ok : cell -> bool.
  Variable known : known_table.
  Variable exec : Z * bytes -> exec_result.
  Variable cp cd : bytes -> res bool.
  Variable lifetime now : Z.

  Definition wallet_key_before_fix (acc : Z * bytes) (si : bytes) : res bytes :=
    match get_wallet_pubkey (exec acc) with
    | Some k => Ok k
    | None =>
        match si with
        | [] => Err EOther
        | _ =>
            do ok <- compare_state_init boc (snd acc) si;
            if negb ok then Err EOther
            else parse_state_init_key_before_fix boc lib_ok ext_ok known si
        end
    end.

  Definition check_proof_before_fix (tp : proof) : res bytes :=
    do verified <- cp (p_payload tp);
    if negb verified then Err EOther
    else
      do pm <- convert b64 tp;
      if expired now (m_ts pm) lifetime then Err EOther
      else
        do ok <- cd (m_domain pm);
        if negb ok then Err EOther
        else
          do acc <- parse_account_id (p_address tp);
          do k <- wallet_key_before_fix acc (p_state_init tp);
          do v <- ed_verify verify k (create_message H pm) (m_sig pm);
          if v then Ok k else Err EOther.
End Before.

(* ---- witnesses ---- *)

Definition w_hash : bytes := repeat 17%N 32.                          (* 0x11 ... *)
Definition w_address : bytes := [48; 58]%N ++ repeat 49%N 64.         (* "0:1111...11" *)
Definition w_proof : proof := mkProof w_address 0 [] [] [] [1%N].
Definition w_yes : bytes -> res bool := fun _ => Ok true.

(* F16: root = five zero bits (no split_depth, no special, no code, no data, no library) *)
Definition w_root_empty : cell := Cell 0 [false; false; false; false; false] [] (Some w_hash).

Lemma F16_panics_before_fix :
  check_proof_before_fix (fun x => x) (fun _ _ _ => false) (fun _ => Some []) (fun _ => Ok [w_root_empty])
    (fun _ => true) (fun _ => true) [] (fun _ => ExErr) w_yes w_yes 300 0 w_proof = Panic PEdKeyLen.
Proof. vm_compute. reflexivity. Qed.

Lemma F16_rejected_after_fix :
  check_proof (fun x => x) (fun _ _ _ => false) (fun _ => Some []) (fun _ => Ok [w_root_empty])
    (fun _ => true) (fun _ => true) [] (fun _ => ExErr) w_yes w_yes 300 0 w_proof = Err EOther.
Proof. vm_compute. reflexivity. Qed.

(* F22: code with a known hash and no layout; the forged signature verifies under the zero key *)
Definition w_code_hash : bytes := repeat 34%N 32.
Definition w_code : cell := Cell 0 [true] [] (Some w_code_hash).
Definition w_data : cell := Cell 0 (repeat true 320) [] (Some (repeat 51%N 32)).
Definition w_root_lockup : cell := Cell 0 [false; false; true; true; false] [w_code; w_data] (Some w_hash).
Definition w_known : known_table := [(w_code_hash, None)].
Definition w_verify_zero : bytes -> bytes -> bytes -> bool := fun pk _ _ => beqb pk (repeat 0%N 32).

Lemma F22_zero_key_accepted_before_fix :
  check_proof_before_fix (fun x => x) w_verify_zero (fun _ => Some []) (fun _ => Ok [w_root_lockup])
    (fun _ => true) (fun _ => true) w_known (fun _ => ExErr) w_yes w_yes 300 0 w_proof = Ok (repeat 0%N 32).
Proof. vm_compute. reflexivity. Qed.

Lemma F22_rejected_after_fix :
  check_proof (fun x => x) w_verify_zero (fun _ => Some []) (fun _ => Ok [w_root_lockup])
    (fun _ => true) (fun _ => true) w_known (fun _ => ExErr) w_yes w_yes 300 0 w_proof = Err EOther.
Proof. vm_compute. reflexivity. Qed.

(** * A per-server cache "state-init text -> key" that is not keyed by the address
      (seeded mutant C19-r2m2): the result of a call then depends on the earlier calls.
      Model of that design and a 2-call history on which it differs from the stateless check:
      the attacker logs in for his own address A = hash(S) with state-init S, then presents S
      for the victim's address V, signed with his own key. *)
Definition cache := list (bytes * bytes).
Fixpoint cache_find (si : bytes) (c : cache) : option bytes :=
  match c with
  | [] => None
  | (s, k) :: t => if beqb si s then Some k else cache_find si t
  end.

Section Cached.
  Variable H : bytes -> bytes.
  Variable verify : bytes -> bytes -> bytes -> bool.
  Variable b64 : bytes -> option bytes.
  Variable boc : bytes -> res (list cell).
  Variable lib_ok ext_ok : cell -> bool.
  Variable known : known_table.
  Variable exec : Z * bytes -> exec_result.
  Variable cp cd : bytes -> res bool.
  Variable lifetime now : Z.

  Definition wallet_key_cached (c : cache) (acc : Z * bytes) (si : bytes) : cache * res bytes :=
    match get_wallet_pubkey (exec acc) with
    | Some k => (c, Ok k)
    | None =>
        match si with
        | [] => (c, Err EOther)
        | _ =>
            match cache_find si c with
            | Some k => (c, Ok k)
            | None =>
                match compare_state_init boc (snd acc) si with
                | Ok true =>
                    match parse_state_init_key boc lib_ok ext_ok known si with
                    | Ok k => ((si, k) :: c, Ok k)
                    | Err e => (c, Err e)
                    | Panic p => (c, Panic p)
                    end
                | Ok false => (c, Err EOther)
                | Err e => (c, Err e)
                | Panic p => (c, Panic p)
                end
            end
        end
    end.

  Definition check_proof_cached (c : cache) (tp : proof) : cache * res bytes :=
    match cp (p_payload tp) with
    | Ok true =>
        match convert b64 tp with
        | Ok pm =>
            if expired now (m_ts pm) lifetime then (c, Err EOther)
            else match cd (m_domain pm) with
                 | Ok true =>
                     match parse_account_id (p_address tp) with
                     | Ok acc =>
                         let '(c', rk) := wallet_key_cached c acc (p_state_init tp) in
                         (c', do k <- rk;
                              do v <- ed_verify verify k (create_message H pm) (m_sig pm);
                              if v then Ok k else Err EOther)
                     | Err e => (c, Err e)
                     | Panic p => (c, Panic p)
                     end
                 | Ok false => (c, Err EOther)
                 | Err e => (c, Err e)
                 | Panic p => (c, Panic p)
                 end
        | Err e => (c, Err e)
        | Panic p => (c, Panic p)
        end
    | Ok false => (c, Err EOther)
    | Err e => (c, Err e)
    | Panic p => (c, Panic p)
    end.
End Cached.

Definition w_attacker_key : bytes := repeat 255%N 32.      (* the 256 one-bits at offset 64 of w_data *)
Definition w_known_v4 : known_table := [(w_code_hash, Some (mkLayout 64 false))].
Definition w_verify_attacker : bytes -> bytes -> bytes -> bool := fun pk _ _ => beqb pk w_attacker_key.
Definition w_victim_address : bytes := [48; 58]%N ++ repeat 50%N 64.   (* "0:2222...22" *)
Definition w_login : proof := w_proof.                                  (* address 0:11..11 = hash of the state-init *)
Definition w_forged : proof := mkProof w_victim_address 0 [] [] [] [1%N].

Definition w_cached_step (c : cache) (tp : proof) : cache * res bytes :=
  check_proof_cached (fun x => x) w_verify_attacker (fun _ => Some []) (fun _ => Ok [w_root_lockup])
    (fun _ => true) (fun _ => true) w_known_v4 (fun _ => ExErr) w_yes w_yes 300 0 c tp.
Definition w_stateless (tp : proof) : res bytes :=
  check_proof (fun x => x) w_verify_attacker (fun _ => Some []) (fun _ => Ok [w_root_lockup])
    (fun _ => true) (fun _ => true) w_known_v4 (fun _ => ExErr) w_yes w_yes 300 0 tp.

(* alone, the forged proof is rejected by both; after the attacker's own login the cached
   design accepts it with the attacker's key for the victim's address *)
Lemma addressless_cache_refuted :
  (snd (w_cached_step [] w_forged) = Err EOther) /\
  (w_stateless w_forged = Err EOther) /\
  (w_stateless w_login = Ok w_attacker_key) /\
  (snd (run_history w_cached_step [] (w_login :: w_forged :: nil)) = (Ok w_attacker_key :: Ok w_attacker_key :: nil)) /\
  (map w_stateless (w_login :: w_forged :: nil) = (Ok w_attacker_key :: Err EOther :: nil)).
Proof. repeat split; vm_compute; reflexivity. Qed.

(** * Laying the secret out as a 64-byte HMAC block in the constructor (seeded mutant C19-r3m2):
      [copy(key[:], secret)] drops everything after byte 64, whereas HMAC hashes longer keys.
      With any MAC that depends on the whole key, two servers whose secrets agree on the first
      64 bytes then accept each other's payloads, and a payload issued the documented way
      under the full secret is rejected. *)
Definition block_key (s : bytes) : bytes := firstn 64 s ++ repeat 0%N (64 - length s).
(* a toy MAC in which every key byte matters (the last ones first) *)
Definition w_mac (k m : bytes) : bytes := firstn 32 (rev k ++ m ++ repeat 0%N 32).
Definition w_secret_a : bytes := repeat 1%N 64 ++ [3%N].
Definition w_secret_b : bytes := repeat 1%N 64 ++ [2%N].
Definition w_nonce : bytes := repeat 7%N 8.

Lemma block_key_design_refuted :
  (* the model: B rejects A's payload, each accepts its own *)
  (check_payload w_mac w_secret_b 300 0 (generate_payload w_mac w_secret_a w_nonce 300 0) = Ok false) /\
  (check_payload w_mac w_secret_a 300 0 (generate_payload w_mac w_secret_a w_nonce 300 0) = Ok true) /\
  (* the block-key design: B accepts A's payload ... *)
  (check_payload w_mac (block_key w_secret_b) 300 0
     (generate_payload w_mac (block_key w_secret_a) w_nonce 300 0) = Ok true) /\
  (* ... and A rejects a payload issued under its own full secret *)
  (check_payload w_mac (block_key w_secret_a) 300 0 (generate_payload w_mac w_secret_a w_nonce 300 0) = Ok false).
Proof. repeat split; vm_compute; reflexivity. Qed.

(** * GeneratePayload storing now + lifetime SECONDS (seeded mutant C19-r4m1) while CheckPayload
      still accepts until stored + lifetime: the lifetime is counted twice.  Lifetime 300 s,
      issued at second 1000, presented at second 1450 (150 s after it should have expired). *)
Definition generate_payload_seconds (hmac : bytes -> bytes -> bytes) (secret nonce : bytes) (lifetime now : Z) : bytes :=
  let body := nonce ++ be64 ((now + lifetime * giga) / giga) in
  hex_encode (firstn 32 (body ++ hmac secret body)).

Lemma lifetime_counted_twice_refuted :
  (check_payload w_mac w_secret_a 300 (1450 * giga) (generate_payload w_mac w_secret_a w_nonce 300 (1000 * giga)) = Ok false) /\
  (check_payload w_mac w_secret_a 300 (1450 * giga) (generate_payload_seconds w_mac w_secret_a w_nonce 300 (1000 * giga)) = Ok true) /\
  (check_payload w_mac w_secret_a 300 (1250 * giga) (generate_payload w_mac w_secret_a w_nonce 300 (1000 * giga)) = Ok true).
Proof. repeat split; vm_compute; reflexivity. Qed.

(** * CheckPayload looking at the hex-decoding error only when the length is not 32 (seeded mutant
      C19-r5m1): encoding/hex returns the bytes decoded before the error, so a genuine payload
      followed by one more hex digit, or by a non-hex tail of one or two characters, passes. *)
Fixpoint hex_decode_prefix (l : bytes) : bytes * bool :=      (* decoded prefix, error? *)
  match l with
  | [] => ([], false)
  | [_] => ([], true)
  | a :: b :: t =>
      match nib a, nib b with
      | Some x, Some y => let '(r, e) := hex_decode_prefix t in ((16 * x + y)%N :: r, e)
      | _, _ => ([], true)
      end
  end.

Definition check_payload_lenient (hmac : bytes -> bytes -> bytes) (secret : bytes) (lifetime now : Z)
           (payload : bytes) : res bool :=
  let '(b, e) := hex_decode_prefix payload in
  if negb (Nat.eqb (length b) 32) then Ok false
  else
    let mac := hmac secret (firstn 16 b) in
    if (length mac <? 16)%nat then Panic PSlice
    else if negb (beqb (skipn 16 b) (firstn 16 mac)) then Ok false
    else Ok (negb (expired now (to_int64 (be_val (firstn 8 (skipn 8 b)))) lifetime)).

Definition w_payload : bytes := generate_payload w_mac w_secret_a w_nonce 300 (1000 * giga).

Lemma lenient_hex_refuted :
  (check_payload w_mac w_secret_a 300 (1000 * giga) w_payload = Ok true) /\
  (check_payload w_mac w_secret_a 300 (1000 * giga) (w_payload ++ [48%N]) = Ok false) /\
  (check_payload w_mac w_secret_a 300 (1000 * giga) (w_payload ++ [33%N]) = Ok false) /\
  (check_payload w_mac w_secret_a 300 (1000 * giga) (w_payload ++ [48; 103]%N) = Ok false) /\
  (check_payload_lenient w_mac w_secret_a 300 (1000 * giga) (w_payload ++ [48%N]) = Ok true) /\
  (check_payload_lenient w_mac w_secret_a 300 (1000 * giga) (w_payload ++ [33%N]) = Ok true) /\
  (check_payload_lenient w_mac w_secret_a 300 (1000 * giga) (w_payload ++ [48; 103]%N) = Ok true).
Proof. repeat split; vm_compute; reflexivity. Qed.
