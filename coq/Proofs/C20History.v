(** C20 history: designs of the JSON decoders that were considered / seeded and
    are refuted by a concrete document.  The current code is modelled in
    Model/Json.v; nothing here is used by the theorems of Properties/C20.v. *)
From Coq Require Import List NArith ZArith Bool.
From Tongo Require Import Lib.Bits Lib.Res Model.BitString Model.BitStringD Model.BocParse Model.JsonText Model.Json.
From Tongo Require Model.Address.
Import ListNotations.
Local Open Scope N_scope.

(* DeserializeBoc as the list of root indices *)
Definition deser_root_ids (bs : list N) : res (list nat) := do p <- parse_boc bs; Ok (p_roots p).

(* "b5ee9c72010100000000": generic magic, size 1, off_bytes 1, 0 cells, 0 roots,
   0 absent, 0 data bytes -- a consistent bag of cells with no root *)
Definition doc_zero_roots : str :=
  quote [98; 53; 101; 101; 57; 99; 55; 50; 48; 49; 48; 49; 48; 48; 48; 48; 48; 48; 48; 48].

(* the parser accepts it with an empty root list ... *)
Lemma zero_roots_is_wellformed :
  deser_root_ids [0xb5; 0xee; 0x9c; 0x72; 1; 1; 0; 0; 0; 0] = Ok [].
Proof. vm_compute. reflexivity. Qed.

(* ... so a decoder that rejects only "more than one root" indexes an empty
   slice: Cell.UnmarshalJSON would panic on malformed input *)
Lemma parse_cell_gt1_refuted : parse_cell_gt1 deser_root_ids doc_zero_roots = Panic PIndex.
Proof. vm_compute. reflexivity. Qed.

(* the decoder as it is returns an error on the same document *)
Lemma parse_cell_zero_roots : parse_cell deser_root_ids doc_zero_roots = Err EOther.
Proof. vm_compute. reflexivity. Qed.

(** * padding of the Fift text by rounding the length up *)
(* Since the repair of ReadBits (its byte-aligned path used to copy whole bytes
   and leave the source's following bits behind the length) the value ReadBits
   returns has a CLEAN buffer: 10110 read at a byte-aligned position of a source
   that continues with 111... *)
Definition read_value : res bs :=
  read_bs (repeat false 8) [true; false; true; true; false] [true; true; true; false; false; false; false; false; false; false; false].

Lemma read_value_buffer_is_clean :
  exists r, read_value = Ok r /\ abs r = [true; false; true; true; false]
            /\ buf r = [true; false; true; true; false; false; false; false].
Proof. vm_compute. eexists. repeat split. Qed.

(* ... so the rounding design is NOT refuted through ReadBits any more: on a
   clean buffer it prints the same text *)
Lemma roundup_agrees_on_read_value :
  (do r <- read_value; print_bitstring_bs_roundup r) = (do r <- read_value; print_bitstring_bs r).
Proof. vm_compute. reflexivity. Qed.

(* Bits behind the length are still reachable through the public API: the
   exported On(n) sets a bit below the capacity without touching the length
   (Model.BitStringD.set_bit), and Buffer() hands out the byte slice.
   NewBitString(8); WriteBit 1,0,1,1,0; On(5); On(6); On(7): *)
Definition on_value : bs := on_bs [true; false; true; true; false] [true; true; true].

Lemma on_value_buffer :
  abs on_value = [true; false; true; true; false]
  /\ buf on_value = [true; false; true; true; false; true; true; true].
Proof. vm_compute. split; reflexivity. Qed.

(* the encoder as it is prints B4_ (10110 + tag 1 + zeros) and it parses back *)
Lemma on_value_prints_its_bits :
  print_bitstring_bs on_value = Ok (quote [66; 52; 95])
  /\ parse_bitstring (quote [66; 52; 95]) = Ok [true; false; true; true; false].
Proof. vm_compute. split; reflexivity. Qed.

(* rounding the length up instead prints B7_, which parses to 1011011: a
   different, longer bit string *)
Lemma print_roundup_refuted :
  print_bitstring_bs_roundup on_value = Ok (quote [66; 55; 95])
  /\ parse_bitstring (quote [66; 55; 95]) = Ok [true; false; true; true; false; true; true].
Proof. vm_compute. split; reflexivity. Qed.

(** * user-friendly account text: accepting MORE than 36 decoded bytes *)
(* a design that only rejects fewer than 36 bytes and reads the address from the
   first 36 *)
Definition parse_human_bytes_prefix (bs : list N) : res (N * Z * list N) :=
  if short 36 bs then Err EOther else Address.parse_human_bytes (firstn 36 bs).

(* the 36 bytes of a genuine address (flag, workchain 0, 32 x AB, CRC16) followed by 01 02 03 *)
Definition long_human_bytes : list N :=
  Address.human_bytes Address.crc16_table_ref true false 0 (repeat 0xAB 32) ++ [1; 2; 3].

(* the decoder as it is rejects them; the prefix design silently returns the
   address spelled by the first 36 bytes *)
Lemma human_prefix_refuted :
  Address.parse_human_bytes long_human_bytes = Err EOther
  /\ exists f, parse_human_bytes_prefix long_human_bytes = Ok (f, 0%Z, repeat 0xAB 32).
Proof. vm_compute. split; [reflexivity|eexists; reflexivity]. Qed.
