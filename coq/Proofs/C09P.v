(** C09 (TL half): what a passing [tl_check] gives, as corollaries of the C10
    development (Proofs/TlApiP.v: binding_roundtrip, request_refines,
    response_result, response_error, request_args_refines). *)
From Coq Require Import String List NArith Arith Bool Lia.
From Tongo Require Import Lib.Bits Lib.Res Spec.TlWire Model.Tl Model.TlMatch Model.C09Check
     Proofs.TlWireP Proofs.TlApiP.
Import ListNotations.
Local Open Scope N_scope.

Lemma tl_check_parts S F B Ms Tab : tl_check S F B Ms Tab = true ->
  ids_distinct S = true /\ forallb decl_ok (S ++ F) = true /\ matches_all S F B = true /\
  forallb (fun d => ty_ok S B (decl_ty S d)) S = true /\ no_stray S F B = true /\
  methods_ok09 S F Ms = true /\ table_ok F Tab = true.
Proof.
  unfold tl_check, tl_check_list. cbn [forallb]. intros H.
  repeat (apply andb_true_iff in H as [? H]). repeat split; assumption.
Qed.

Section Checked.
  Variables (S F : list decl) (B : bindings) (Ms : list method) (Tab : list (N * N * string * string)).
  Hypothesis HC : tl_check S F B Ms Tab = true.
  Let nm := go_naming S.

  Lemma checked_matches : matches_all S F B = true.
  Proof. apply (tl_check_parts _ _ _ _ _ HC). Qed.
  Lemma checked_ids : ids_distinct S = true.
  Proof. apply (tl_check_parts _ _ _ _ _ HC). Qed.

  Lemma decl_goty d : exists g, goty (decl_ty S d) = Some g.
  Proof. unfold decl_ty. destruct (single S d); eexists; reflexivity. Qed.

  Lemma decl_served d : In d S -> ty_ok S B (decl_ty S d) = true.
  Proof.
    intros Hd. destruct (tl_check_parts _ _ _ _ _ HC) as (_ & _ & _ & Hs & _).
    rewrite forallb_forall in Hs. exact (Hs d Hd).
  Qed.

  (* every type the schema declares *)
  Lemma checked_decl_sound d : In d S ->
    exists g, goty (decl_ty S d) = Some g /\
    forall v e, tl_encode nm S (decl_ty S d) v = Some e ->
      go_marshal B g v = Ok e /\
      forall rest, exists st, go_unmarshal B g (e ++ rest) = (Ok v, st) /\ inp st = rest.
  Proof.
    intros Hd. destruct (decl_goty d) as (g & Hg). exists g. split; [exact Hg|]. intros v e He.
    exact (binding_roundtrip S F B checked_matches _ g v e checked_ids (decl_served d Hd) Hg He).
  Qed.

  (* every type expression the bindings serve: vectors, references, builtins *)
  Lemma checked_ty_sound t g v e : ty_ok S B t = true -> goty t = Some g ->
    tl_encode nm S t v = Some e ->
    go_marshal B g v = Ok e /\
    forall rest, exists st, go_unmarshal B g (e ++ rest) = (Ok v, st) /\ inp st = rest.
  Proof. intros Hok Hg He. exact (binding_roundtrip S F B checked_matches t g v e checked_ids Hok Hg He). Qed.

  (* the bytes start with the constructor id written in the schema *)
  Lemma checked_boxed_id T g c fs e : ty_ok S B (TBoxed T) = true -> goty (TBoxed T) = Some g ->
    tl_encode nm S (TBoxed T) (VRec c fs) = Some e ->
    go_marshal B g (VRec c fs) = Ok e /\
    exists d, In d (ctors_of S T) /\ xlbl nm d = c /\ firstn 4 e = le_bytes 4 (did d).
  Proof.
    intros Hok Hg He. split; [exact (proj1 (checked_ty_sound _ g _ e Hok Hg He))|].
    rewrite tl_encode_eq in He. exact (boxed_starts_with_id nm S tl_fuel T c fs e He).
  Qed.

  (* request methods of functions whose result type has one constructor *)
  Lemma checked_method f : In f F -> single_result S f = true ->
    exists m, In m Ms /\ matches_method S f m = true.
  Proof.
    intros Hf Hs. destruct (tl_check_parts _ _ _ _ _ HC) as (_ & _ & _ & _ & _ & Hm & _).
    unfold methods_ok09 in Hm. apply andb_true_iff in Hm as [_ Hm]. rewrite forallb_forall in Hm.
    specialize (Hm f Hf). rewrite Hs in Hm. apply existsb_exists in Hm as (m & Hin & Hmm).
    exists m; split; assumption.
  Qed.

  Lemma checked_request_sound f : In f F -> single_result S f = true ->
    exists m, In m Ms /\
    (forall v e, tl_request nm S f v = Some e ->
       go_request B m (match dfields f with [] => None | _ => Some v end) = Ok e /\
       firstn 4 e = le_bytes 4 (did f)) /\
    (forall v e, tl_encode nm S (TBoxed (dres f)) v = Some e -> go_response B m e = Ok (RResult v)) /\
    (forall e0 v e, find_ctor S "liteServer.error" = Some e0 ->
       tl_encode nm S (TBoxed (dres e0)) v = Some e -> go_response B m e = Ok (RError v)).
  Proof.
    intros Hf Hs. destruct (checked_method f Hf Hs) as (m & Hin & Hmm). exists m. split; [exact Hin|].
    repeat split.
    - exact (request_refines S F B checked_matches f m v e Hf Hmm H).
    - exact (proj1 (request_starts_with_id nm S f v e H)).
    - intros v e He. exact (response_result S F B checked_matches f m v e checked_ids Hf Hmm He).
    - intros e0 v e He0 He. exact (response_error S F B checked_matches f m v e checked_ids Hmm e0 He0 He).
  Qed.

  (* the server side: the arguments of every function decode into its request struct *)
  Lemma checked_request_args f bs v rest : In f F ->
    dec_args nm S tl_fuel f bs = Some (v, rest) ->
    exists st, go_unmarshal B (GNamed (camel (dname f) ++ "Request")) bs = (Ok v, st) /\ inp st = rest.
  Proof. exact (request_args_refines S F B checked_matches f bs v rest). Qed.

  (* one row of taggedRequestDecodeFunctions per function, under the function's id *)
  Lemma checked_table f : In f F ->
    exists row, In row Tab /\ row = (did f, did f, (camel (dname f) ++ "Request")%string, dname f).
  Proof.
    intros Hf. destruct (tl_check_parts _ _ _ _ _ HC) as (_ & _ & _ & _ & _ & _ & Ht).
    unfold table_ok in Ht. apply andb_true_iff in Ht as [Ht _]. apply andb_true_iff in Ht as [_ Ht].
    rewrite forallb_forall in Ht. specialize (Ht f Hf). apply existsb_exists in Ht as (row & Hin & Hr).
    exists row. split; [exact Hin|]. destruct row as [[[key tag] gt] tlname].
    repeat (apply andb_true_iff in Hr as [Hr ?]).
    apply N.eqb_eq in Hr. apply N.eqb_eq in H1. apply String.eqb_eq in H0. apply String.eqb_eq in H.
    subst. reflexivity.
  Qed.
End Checked.
