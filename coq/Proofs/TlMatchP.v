(** Soundness of the checker of Model/TlMatch.v, part 1: the statement list
    that the generator's scheme prescribes for the fields of a declaration
    ([mstmts] / [ustmts]), run by the model of the Go code, writes / reads
    exactly what the wire-format spec prescribes for those fields
    ([enc_fields] / [dec_fields]) — given that the field types do. *)
From Coq Require Import String List NArith PArith Arith Lia Bool.
From Tongo Require Import Lib.Bits Lib.Res Spec.TlWire Model.Tl Model.TlMatch
     Proofs.TlWireP Proofs.TlGoP.
Import ListNotations.
Local Open Scope N_scope.

Notation cf f := (camel (fname f)).
(* Go type of the struct field of a schema field whose TL type maps to g *)
Definition wrapg (f : field) (g : gty) : gty :=
  match fcond f with Some _ => if nilable (fty f) then g else GPtr g | None => g end.

(** * small facts *)
Lemma last_of_app pre x : last_of pre (pre ++ [x]) = Some x.
Proof.
  induction pre as [|a pre IH]; cbn [last_of app]; [reflexivity|].
  rewrite String.eqb_refl. exact IH.
Qed.

Lemma opt_cat_cons {A} (o : option (list A)) l :
  opt_cat (o :: l) = opt a <- o; opt b <- opt_cat l; Some (a ++ b).
Proof. reflexivity. Qed.

Lemma nodup_str_cons a t : nodup_str (a :: t) = true ->
  (forall x, In x t -> a <> x) /\ nodup_str t = true.
Proof.
  cbn [nodup_str]. intros H. apply andb_true_iff in H as [H1 H2]. split; [|exact H2].
  intros x Hx ->. apply negb_true_iff in H1.
  assert (existsb (String.eqb x) t = true) by (apply existsb_exists; exists x; split; [exact Hx|apply String.eqb_refl]).
  congruence.
Qed.

Lemma assoc_app_notin {A} k (l1 l2 : list (string * A)) :
  ~ In k (map fst l1) -> assoc k (l1 ++ l2) = assoc k l2.
Proof.
  induction l1 as [|[k' a] l1 IH]; cbn [map fst In app assoc]; intros H; [reflexivity|].
  destruct (String.eqb_spec k k') as [->|_]; [exfalso; apply H; left; reflexivity|].
  apply IH. intros Hin; apply H; right; exact Hin.
Qed.

Lemma assoc_app_some {A} k (l1 l2 : list (string * A)) v :
  assoc k l1 = Some v -> assoc k (l1 ++ l2) = Some v.
Proof.
  induction l1 as [|[k' a] l1 IH]; cbn [app assoc]; [discriminate|].
  destruct (String.eqb k k'); auto.
Qed.

Lemma find_ext_in {A} (p q : A -> bool) l :
  (forall x, In x l -> p x = q x) -> find p l = find q l.
Proof.
  induction l as [|a l IH]; intros H; cbn [find]; [reflexivity|].
  rewrite (H a (or_introl eq_refl)). destruct (q a); [reflexivity|].
  apply IH. intros x Hx; apply H; right; exact Hx.
Qed.

(** * lists built by [opt_cat] from one element per input *)
Lemma opt_cat_map1 {A Y X} (G : A -> option Y) (H : A -> Y -> X) l out :
  opt_cat (map (fun a => opt y <- G a; Some [H a y]) l) = Some out ->
  Forall2 (fun a x => exists y, G a = Some y /\ x = H a y) l out.
Proof.
  revert out; induction l as [|a l IH]; intros out E; cbn [map] in E.
  - cbn in E. inversion E. constructor.
  - rewrite opt_cat_cons in E. destruct (G a) as [y|] eqn:Ga; [|discriminate].
    destruct (opt_cat (map (fun a => opt y <- G a; Some [H a y]) l)) as [b|] eqn:Eb; [|discriminate].
    inversion E; subst. cbn [app]. constructor; [exists y; auto|apply IH; reflexivity].
Qed.

Section Keyed.
  Context {A Y V : Type} (G : A -> option Y) (key : A -> string) (val : A -> Y -> V).
  Let R := fun (a : A) (x : string * V) => exists y, G a = Some y /\ x = (key a, val a y).

  Lemma F2_find_assoc l out c a0 :
    Forall2 R l out -> find (fun a => String.eqb c (key a)) l = Some a0 ->
    exists y, G a0 = Some y /\ assoc c out = Some (val a0 y).
  Proof.
    intros HF; induction HF as [|a x l out (y & Gy & ->) _ IH]; cbn [find assoc]; [discriminate|].
    destruct (String.eqb c (key a)); [|exact IH].
    intros E; inversion E; subst. exists y; auto.
  Qed.

  Lemma F2_in_assoc l out a0 :
    Forall2 R l out -> nodup_str (map key l) = true -> In a0 l ->
    exists y, G a0 = Some y /\ assoc (key a0) out = Some (val a0 y).
  Proof.
    intros HF; induction HF as [|a x l out (y & Gy & ->) _ IH]; intros Hn Hin; [destruct Hin|].
    cbn [map] in Hn. apply nodup_str_cons in Hn as [Hne Hn]. cbn [assoc].
    destruct Hin as [->|Hin].
    - rewrite String.eqb_refl. exists y; auto.
    - destruct (String.eqb_spec (key a0) (key a)) as [E|_]; [|apply IH; assumption].
      exfalso. apply (Hne (key a0)); [apply in_map; exact Hin|symmetry; exact E].
  Qed.

  Lemma F2_keys l out : Forall2 R l out -> map fst out = map key l.
  Proof.
    intros HF; induction HF as [|a x l out (y & Gy & ->) _ IH]; cbn [map fst]; [reflexivity|].
    now rewrite IH.
  Qed.
End Keyed.

(** * the Go struct of a declaration *)
Lemma gofields_assoc fields sfs :
  opt_cat (map gofield fields) = Some sfs -> nodup_str (map (fun f => cf f) fields) = true ->
  forall f, In f fields -> is_true_ty (fty f) = false ->
  exists g, goty (fty f) = Some g /\ assoc (cf f) sfs = Some (wrapg f g).
Proof.
  revert sfs; induction fields as [|f0 fields IH]; intros sfs E Hn f Hin Ht; [destruct Hin|].
  cbn [map] in E, Hn. rewrite opt_cat_cons in E.
  destruct (gofield f0) as [a|] eqn:E0; [|discriminate].
  destruct (opt_cat (map gofield fields)) as [b|] eqn:Eb; [|discriminate].
  inversion E; subst sfs. apply nodup_str_cons in Hn as [Hne Hn].
  unfold gofield in E0. destruct Hin as [->|Hin].
  - rewrite Ht in E0. destruct (goty (fty f)) as [g|]; [|discriminate]. inversion E0; subst a.
    exists g. split; [reflexivity|]. cbn [app assoc]. rewrite String.eqb_refl. reflexivity.
  - destruct (IH b eq_refl Hn f Hin Ht) as (g & Hg & Ha). exists g. split; [exact Hg|].
    assert (Hd : cf f0 <> cf f) by (apply Hne; apply (in_map (fun f => cf f)); exact Hin).
    destruct (is_true_ty (fty f0)).
    + inversion E0; subst a. exact Ha.
    + destruct (goty (fty f0)) as [g0|]; [|discriminate]. inversion E0; subst a.
      cbn [app assoc]. destruct (String.eqb_spec (cf f) (cf f0)) as [E1|_]; [congruence|exact Ha].
Qed.

(** * records and the mode environment *)
Definition env_rel (env : list (string * N)) (r : record) : Prop :=
  forall m x, assoc m env = Some x -> assoc (camel m) r = Some (VNum x).

Lemma env_rel_nil r : env_rel [] r.
Proof. intros m x H; discriminate. Qed.

(* adding the value of field f, found in r under its Go name *)
Lemma env_rel_add env r f v :
  env_rel env r -> assoc (cf f) r = Some v -> env_rel (env_add f v env) r.
Proof.
  intros He Hv. unfold env_add.
  destruct (fty f); try exact He. destruct v; try exact He.
  intros m x. cbn [assoc]. destruct (String.eqb_spec m (fname f)) as [->|_]; [|apply He].
  intros E; inversion E; subst. exact Hv.
Qed.

Lemma env_rel_app env r1 r2 : env_rel env r1 -> env_rel env (r1 ++ r2).
Proof. intros He m x H. apply assoc_app_some, He, H. Qed.

Section Fields.
  Variables (S : schema) (B : bindings) (ks K0 : nat).
  Let nm := go_naming S.

  (* what the statement lists assume about a field list *)
  Definition fields_ready (sty : gty) (pre : list string) (fields : list field) : Prop :=
    (forall f, In f fields -> ty_ok S B (fty f) = true) /\
    (forall f, In f fields -> is_true_ty (fty f) = false ->
       exists g, goty (fty f) = Some g /\ field_ty sty (pre ++ [cf f]) = Some (wrapg f g)) /\
    nodup_str (map (fun f => cf f) fields) = true.

  Lemma fields_ready_tail sty pre f fields :
    fields_ready sty pre (f :: fields) -> fields_ready sty pre fields.
  Proof.
    intros (H1 & H2 & H3). cbn [map] in H3. apply nodup_str_cons in H3 as [_ H3].
    repeat split; auto; intros; [apply H1|apply H2]; try right; auto.
  Qed.

  (** ** MarshalTL *)
  Hypothesis HE : forall t g v e k', ty_ok S B t = true -> goty t = Some g ->
    enc nm S ks t v = Some e -> (K0 <= k')%nat -> genc B k' g (Some v) = Ok e.

  Lemma mfields_ok kf sty pre whole : (K0 < kf)%nat ->
    forall fields ss fs env e dn,
    fields_ready sty pre fields ->
    (forall f, In f fields -> ~ In (cf f) (map fst dn)) ->
    env_rel env (dn ++ fs) ->
    opt_cat (map (mstmt_of pre) fields) = Some ss ->
    enc_fields nm (enc nm S ks) fields fs env = Some e ->
    concat_res (map (run_mstmt (genc B kf) sty pre whole (dn ++ fs)) ss) = Ok e.
  Proof.
    intros Hkf fields; induction fields as [|f fields IH]; intros ss fs env e dn HR Hdn Henv Hss Henc.
    - cbn in Hss. inversion Hss; subst ss. cbn [enc_fields] in Henc.
      destruct fs; [|discriminate]. inversion Henc; subst. reflexivity.
    - cbn [map] in Hss. rewrite opt_cat_cons in Hss.
      destruct (mstmt_of pre f) as [s1|] eqn:Es1; [|discriminate].
      destruct (opt_cat (map (mstmt_of pre) fields)) as [s2|] eqn:Es2; [|discriminate].
      inversion Hss; subst ss. clear Hss.
      pose proof (fields_ready_tail _ _ _ _ HR) as HR'.
      destruct HR as (Hok & Hty & Hnd). cbn [map] in Hnd. apply nodup_str_cons in Hnd as [Hne _].
      cbn [enc_fields] in Henc.
      destruct (present env f) as [p|] eqn:Ep; [|discriminate].
      unfold mstmt_of in Es1. unfold present in Ep.
      destruct (negb p || is_true_ty (fty f)) eqn:Eskip.
      + (* the field occupies no bytes *)
        assert (Hs1 : concat_res (map (run_mstmt (genc B kf) sty pre whole (dn ++ fs)) s1) = Ok []).
        { destruct (fcond f) as [[m n]|].
          - destruct (is_true_ty (fty f)); [inversion Es1; reflexivity|].
            inversion Es1; subst s1. cbn [map concat_res run_mstmt].
            destruct (assoc m env) as [mv|] eqn:Em; [|discriminate]. inversion Ep; subst p.
            rewrite (Henv _ _ Em). rewrite orb_false_r in Eskip. apply negb_true_iff in Eskip.
            rewrite Eskip. reflexivity.
          - inversion Ep; subst p. cbn [negb orb] in Eskip. rewrite Eskip in Es1. discriminate. }
        apply (concat_res_app _ s1 s2 [] e Hs1).
        apply (IH s2 fs env e dn HR'); auto. intros g Hg; apply Hdn; right; exact Hg.
      + apply orb_false_iff in Eskip as [Ep' Ett]. apply negb_false_iff in Ep'. subst p.
        destruct fs as [|[l v] fs']; [discriminate|].
        destruct (String.eqb_spec l (lbl nm (fname f))) as [->|]; [|discriminate].
        change (lbl nm (fname f)) with (cf f) in *.
        destruct (enc nm S ks (fty f) v) as [a|] eqn:Ea; [|discriminate].
        destruct (enc_fields nm (enc nm S ks) fields fs' (env_add f v env)) as [b|] eqn:Eb; [|discriminate].
        inversion Henc; subst e. clear Henc.
        destruct (Hty f (or_introl eq_refl) Ett) as (g & Hg & Hft).
        assert (Hv : assoc (cf f) (dn ++ (cf f, v) :: fs') = Some v).
        { rewrite assoc_app_notin by (apply Hdn; left; reflexivity).
          cbn [assoc]. now rewrite String.eqb_refl. }
        assert (Hacc : run_maccess (genc B kf) sty pre (pre ++ [cf f], None) (dn ++ (cf f, v) :: fs') = Ok a).
        { unfold run_maccess. rewrite last_of_app, Hft, Hv. unfold wrapg.
          assert (Hgv : forall k', (K0 <= k')%nat -> genc B k' g (Some v) = Ok a)
            by (intros k' Hk'; apply (HE (fty f) g v a k'); auto; apply Hok; left; reflexivity).
          destruct (fcond f) as [_c|]; [|apply Hgv; lia].
          destruct (nilable (fty f)); [apply Hgv; lia|].
          destruct kf as [|kf']; [lia|]. cbn [genc]. apply Hgv; lia. }
        assert (Hs1 : concat_res (map (run_mstmt (genc B kf) sty pre whole (dn ++ (cf f, v) :: fs')) s1) = Ok a).
        { rewrite Ett in Es1. destruct (fcond f) as [[m n]|].
          - inversion Es1; subst s1. cbn [map concat_res run_mstmt].
            destruct (assoc m env) as [mv|] eqn:Em; [|discriminate]. inversion Ep as [Ep1].
            rewrite (Henv _ _ Em), Ep1. cbn [map concat_res]. rewrite Hacc. cbn [bind]. now rewrite !app_nil_r.
          - inversion Es1; subst s1. cbn [map concat_res run_mstmt]. rewrite Hacc. cbn [bind].
            now rewrite app_nil_r. }
        apply (concat_res_app _ s1 s2 a b Hs1).
        replace (dn ++ (cf f, v) :: fs') with ((dn ++ [(cf f, v)]) ++ fs') in *
          by (rewrite <- app_assoc; reflexivity).
        apply (IH s2 fs' (env_add f v env) b (dn ++ [(cf f, v)]) HR'); auto.
        * intros g' Hg'. rewrite map_app, in_app_iff. cbn [map fst In].
          intros [Hin|[Hin|[]]]; [apply (Hdn g'); [right; exact Hg'|exact Hin]|].
          apply (Hne (cf g')); [apply (in_map (fun f => cf f)); exact Hg'|exact Hin].
        * apply env_rel_add; assumption.
  Qed.

  (** ** UnmarshalTL *)
  Hypothesis HD : forall t g bs v rest k', ty_ok S B t = true -> goty t = Some g ->
    dec nm S ks t bs = Some (v, rest) -> (K0 <= k')%nat -> runs (gdec B k' g) bs v rest.

  Lemma mode_of_rel env r m mv : env_rel env r -> assoc m env = Some mv -> mode_of r (camel m) = mv.
  Proof. intros He Hm. unfold mode_of. now rewrite (He _ _ Hm). Qed.

  Lemma ufields_ok kf sty pre : (K0 <= kf)%nat ->
    forall fields ss env bs fs rest r0,
    fields_ready sty pre fields ->
    (forall f, In f fields -> ~ In (cf f) (map fst r0)) ->
    env_rel env r0 ->
    opt_cat (map (ustmt_of pre) fields) = Some ss ->
    dec_fields nm (dec nm S ks) fields env bs = Some (fs, rest) ->
    runs (run_ustmts (gdec B kf) sty pre ss r0) bs (r0 ++ fs) rest.
  Proof.
    intros Hkf fields; induction fields as [|f fields IH]; intros ss env bs fs rest r0 HR Hdn Henv Hss Hdec.
    - cbn in Hss. inversion Hss; subst ss. cbn [dec_fields] in Hdec. inversion Hdec; subst.
      rewrite app_nil_r. apply runs_ret.
    - cbn [map] in Hss. rewrite opt_cat_cons in Hss.
      destruct (ustmt_of pre f) as [s1|] eqn:Es1; [|discriminate].
      destruct (opt_cat (map (ustmt_of pre) fields)) as [s2|] eqn:Es2; [|discriminate].
      inversion Hss; subst ss. clear Hss.
      pose proof (fields_ready_tail _ _ _ _ HR) as HR'.
      destruct HR as (Hok & Hty & Hnd). cbn [map] in Hnd. apply nodup_str_cons in Hnd as [Hne _].
      cbn [dec_fields] in Hdec.
      destruct (present env f) as [p|] eqn:Ep; [|discriminate].
      unfold ustmt_of in Es1. unfold present in Ep.
      assert (Htail : forall g, In g fields -> ~ In (cf g) (map fst r0))
        by (intros g Hg; apply Hdn; right; exact Hg).
      destruct (negb p || is_true_ty (fty f)) eqn:Eskip.
      + (* nothing is read *)
        assert (Hs1 : s1 = [] \/ exists m n accs, s1 = [IfBit (camel m) n accs] /\
                        (accs = [] \/ N.testbit (mode_of r0 (camel m)) n = false)).
        { destruct (fcond f) as [[m n]|].
          - right. destruct (assoc m env) as [mv|] eqn:Em; [|discriminate]. inversion Ep; subst p.
            destruct (is_true_ty (fty f)).
            + inversion Es1. exists m, n, []. auto.
            + destruct (goty (fty f)) as [g|]; [|discriminate]. inversion Es1.
              eexists m, n, _. split; [reflexivity|]. right.
              rewrite (mode_of_rel _ _ _ _ Henv Em). rewrite orb_false_r in Eskip.
              now apply negb_true_iff in Eskip.
          - inversion Ep; subst p. cbn [negb orb] in Eskip. rewrite Eskip in Es1. discriminate. }
        destruct Hs1 as [E1|(m & n & accs & E1 & Hacc)]; subst s1; cbn [app].
        * apply (IH s2 env bs fs rest r0 HR'); auto.
        * cbn [run_ustmts]. apply (runs_bind _ _ _ r0 bs); [|apply (IH s2 env bs fs rest r0 HR'); auto].
          cbn [run_ustmt]. destruct Hacc as [-> | ->]; [|apply runs_ret].
          destruct (N.testbit _ _); apply runs_ret.
      + apply orb_false_iff in Eskip as [Ep' Ett]. apply negb_false_iff in Ep'. subst p.
        destruct (dec nm S ks (fty f) bs) as [[v r1]|] eqn:Ev; [|discriminate].
        destruct (dec_fields nm (dec nm S ks) fields (env_add f v env) r1) as [[fs' r2]|] eqn:Ef; [|discriminate].
        inversion Hdec; subst fs rest. clear Hdec. change (lbl nm (fname f)) with (cf f).
        destruct (Hty f (or_introl eq_refl) Ett) as (g & Hg & Hft).
        assert (Hgv : runs (gdec B kf g) bs v r1)
          by (apply (HD (fty f) g bs v r1 kf); auto; apply Hok; left; reflexivity).
        assert (Hnew : assoc (cf f) (r0 ++ [(cf f, v)]) = Some v).
        { rewrite assoc_app_notin by (apply Hdn; left; reflexivity).
          cbn [assoc]. now rewrite String.eqb_refl. }
        assert (Hs1 : exists s, s1 = [s] /\ runs (run_ustmt (gdec B kf) sty pre s r0) bs (r0 ++ [(cf f, v)]) r1).
        { rewrite Ett in Es1. destruct (fcond f) as [[m n]|] eqn:Efc.
          - rewrite Hg in Es1. inversion Es1. eexists; split; [reflexivity|]. cbn [run_ustmt].
            destruct (assoc m env) as [mv|] eqn:Em; [|discriminate]. inversion Ep as [Ep1].
            rewrite (mode_of_rel _ _ _ _ Henv Em), Ep1. cbn [run_uaccesses].
            apply (runs_bind _ _ _ (r0 ++ [(cf f, v)]) r1); [|apply runs_ret].
            unfold run_uaccess. rewrite last_of_app.
            apply (runs_bind _ _ _ v r1); [exact Hgv|apply runs_ret].
          - inversion Es1. eexists; split; [reflexivity|]. cbn [run_ustmt].
            unfold run_uaccess. rewrite last_of_app, Hft. unfold wrapg. rewrite Efc.
            apply (runs_bind _ _ _ v r1); [exact Hgv|apply runs_ret]. }
        destruct Hs1 as (s & E1 & Hs). subst s1. cbn [app run_ustmts].
        apply (runs_bind _ _ _ (r0 ++ [(cf f, v)]) r1); [exact Hs|].
        replace (r0 ++ (cf f, v) :: fs') with ((r0 ++ [(cf f, v)]) ++ fs')
          by (rewrite <- app_assoc; reflexivity).
        apply (IH s2 (env_add f v env) r1 fs' r2 (r0 ++ [(cf f, v)]) HR'); auto.
        * intros g' Hg'. rewrite map_app, in_app_iff. cbn [map fst In].
          intros [Hin|[Hin|[]]]; [apply (Htail g' Hg' Hin)|].
          apply (Hne (cf g')); [apply (in_map (fun f => cf f)); exact Hg'|exact Hin].
        * apply env_rel_add; [apply env_rel_app; exact Henv|exact Hnew].
  Qed.
End Fields.
