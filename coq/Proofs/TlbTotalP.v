(** Totality and step bound of the TL-B reflection walker: for [dec] of
    Model/TlbCore.v and for its exotic-cell aware twin [xdec] of
    Model/TlbTotal.v; on ordinary trees the two agree. *)
From Coq Require Import List NArith ZArith Arith Lia Bool.
From Tongo Require Import Lib.Bits Lib.Res Model.TlbCore Model.TlbTotal.
Import ListNotations.

Definition np {A} (r : res A) : Prop := match r with Panic _ => False | _ => True end.

Lemma np_spec {A} (r : res A) : np r <-> forall p, r <> Panic p.
Proof.
  destruct r; cbn; split; try tauto; try (intros; discriminate).
  intros H. apply (H p). reflexivity.
Qed.

Lemma np_bind {A B} (r : res A) (f : A -> res B) :
  np r -> (forall a, np (f a)) -> np (bind r f).
Proof. destruct r; cbn; auto. Qed.

Lemma np_if {A} (b : bool) (x y : res A) : np x -> np y -> np (if b then x else y).
Proof. destruct b; auto. Qed.

Lemma np_take_bits n s : np (take_bits n s).
Proof. unfold take_bits. destruct (short n (sb s)); exact I. Qed.
Lemma np_take_ref s : np (take_ref s).
Proof. unfold take_ref. destruct (sr s); exact I. Qed.
Lemma np_rd n l : np (rd n l).
Proof. unfold rd. destruct (short n l); exact I. Qed.
Lemma np_unary_go r k : forall l acc, np (unary_go r k l acc).
Proof. induction k as [ | k IH]; intros l acc; cbn; [exact I|]. destruct l as [ | [ | ] t]; cbn; auto; exact I. Qed.

Lemma np_any_parse l : np (any_parse l).
Proof.
  unfold any_parse. apply np_bind; [apply np_rd|]. intros x.
  apply np_if; [|exact I].
  apply np_bind; [apply np_rd|]. intros d.
  apply np_if; [exact I|].
  apply np_bind; [apply np_rd|]. intros p. exact I.
Qed.

Lemma np_addr_parse l : np (addr_parse l).
Proof.
  unfold addr_parse. apply np_bind; [apply np_rd|]. intros t.
  destruct (fst t) as [ | [ | ] [ | [ | ] [ | ? ? ]]];
    repeat first [ exact I
                 | apply np_bind; [first [apply np_rd | apply np_any_parse] | intros ?] ].
Qed.

(** * [dec] of Model/TlbCore.v never panics *)
Theorem dec_np env : forall fuel t s, np (dec env fuel t s).
Proof.
  induction fuel as [ | f IH]; intros t s; cbn [dec]; [exact I|].
  destruct t; cbn [dec].
  all: try (apply np_bind; [apply np_take_bits | intros x; try exact I]).
  - apply np_if; [exact I|]. apply np_bind; [apply np_take_bits | intros x; exact I].
  - apply np_bind; [apply np_take_bits | intros y; exact I].
  - apply np_unary_go.
  - apply np_if.
    + apply np_if; exact I.
    + apply np_bind; [apply np_take_bits | intros x]. apply np_if; exact I.
  - apply np_if; [|exact I]. apply np_bind; [apply IH | intros y; exact I].
  - apply np_if; (apply np_bind; [apply IH | intros y; exact I]).
  - apply np_if.
    + apply np_bind; [apply np_take_ref | intros cr].
      apply np_bind; [apply IH | intros y; exact I].
    + apply np_bind; [apply IH | intros y; exact I].
  - apply np_bind; [apply np_take_ref | intros cr].
    apply np_bind; [apply IH | intros y; exact I].
  - apply np_if; [|exact I].
    apply np_bind; [apply np_take_ref | intros cr].
    apply np_bind; [apply IH | intros y; exact I].
  - generalize (@nil value). revert s.
    induction fs as [ | t1 ft IHf]; intros s acc; [exact I|].
    apply np_bind; [apply IH | intros y]. apply IHf.
  - generalize 0%nat.
    induction alts as [ | [[len val] t'] rest IHa]; intros k; [exact I|].
    apply np_if; [apply IHa|].
    apply np_if; [|apply IHa].
    apply np_bind; [apply IH | intros y; exact I].
  - exact I.
  - apply np_bind; [apply np_take_ref | intros cr; exact I].
  - apply np_bind; [apply np_addr_parse | intros x; exact I].
  - destruct (nth_error env i); [apply IH | exact I].
Qed.

(** * the exotic-aware walker *)
Lemma np_xtake_bits n s : np (xtake_bits n s).
Proof. unfold xtake_bits. destruct (short n (xb s)); exact I. Qed.
Lemma np_xtake_ref s : np (xtake_ref s).
Proof. unfold xtake_ref. destruct (xr s); exact I. Qed.
Lemma np_enter c chk : np (enter c chk).
Proof. destruct c as [k b r]. unfold enter. destruct (N.eqb k K_LIBRARY); [exact I|]. destruct (chk && _); exact I. Qed.
Lemma np_xunary k : forall l, np (xunary k l).
Proof. induction k as [ | k IH]; intros l; cbn; [exact I|]. destruct l as [ | [ | ] t]; cbn; auto; exact I. Qed.

(* outcome is never a panic, and the step counter grows by at most [usize] *)
Definition xpost (n bound : N) (r : res (xs * N)) : Prop :=
  match r with
  | Ok (_, n') => (n' <= n + bound)%N
  | Err _ => True
  | Panic _ => False
  end.

Lemma xpost_weaken n b b' r : (b <= b')%N -> xpost n b r -> xpost n b' r.
Proof. destruct r as [[s n'] | | ]; cbn; auto. lia. Qed.

Lemma xpost_bind_leaf {A} n b (r : res A) (f : A -> res (xs * N)) :
  np r -> (forall a, xpost n b (f a)) -> xpost n b (bind r f).
Proof. destruct r; cbn; auto; tauto. Qed.

Lemma xpost_if n b (c : bool) x y : xpost n b x -> xpost n b y -> xpost n b (if c then x else y).
Proof. destruct c; auto. Qed.

Theorem xdec_post env : forall fuel t s n, xpost n (usize env fuel t) (xdec env fuel t s n).
Proof.
  induction fuel as [ | f IH]; intros t s n; cbn [xdec usize]; [exact I|].
  assert (IHw : forall t' s' b, (usize env f t' + 1 <= b)%N -> xpost n b (xdec env f t' s' (N.succ n))).
  { intros t' s' b Hb. specialize (IH t' s' (N.succ n)).
    destruct (xdec env f t' s' (N.succ n)) as [[s2 n2] | | ]; cbn [xpost fst snd bind] in *; auto; try lia. }
  assert (Hleaf : forall s', xpost n (1 + 0) (Ok (s', N.succ n))) by (intros; unfold xpost; lia).
  assert (Hsub : forall (cr : xtree * xs) t' b, (usize env f t' + 1 <= b)%N ->
            xpost n b (do e <- enter (fst cr) true;
                       match e with
                       | Some s2 => do y <- xdec env f t' s2 (N.succ n); Ok (snd cr, snd y)
                       | None => Ok (snd cr, N.succ n)
                       end)).
  { intros cr t' b Hb. apply xpost_bind_leaf; [apply np_enter|]. intros [s2 | ].
    - specialize (IH t' s2 (N.succ n)).
      destruct (xdec env f t' s2 (N.succ n)) as [[s3 n3] | | ]; cbn [xpost fst snd bind] in *; auto; try lia.
    - unfold xpost. lia. }
  destruct t; cbn [xdec usize].
  all: try (apply xpost_bind_leaf; [apply np_xtake_bits | intros x; try apply Hleaf]).
  - apply xpost_if; [exact I|]. apply xpost_bind_leaf; [apply np_xtake_bits | intros x; apply Hleaf].
  - apply xpost_bind_leaf; [apply np_xtake_bits | intros y; apply Hleaf].
  - apply xpost_bind_leaf; [apply np_xunary | intros r; apply Hleaf].
  - apply xpost_if.
    + apply xpost_if; [apply Hleaf | exact I].
    + apply xpost_bind_leaf; [apply np_xtake_bits | intros x]. apply xpost_if; [apply Hleaf | exact I].
  - apply xpost_if; [apply IHw; lia | unfold xpost; lia].
  - apply xpost_if; apply IHw; lia.
  - apply xpost_if.
    + apply xpost_bind_leaf; [apply np_xtake_ref | intros cr].
      apply xpost_bind_leaf; [apply np_enter|]. intros [s2 | ].
      * specialize (IH t s2 (N.succ n)).
        destruct (xdec env f t s2 (N.succ n)) as [[s3 n3] | | ]; cbn [xpost fst snd bind] in *; auto; try lia.
      * unfold xpost. lia.
    + apply IHw; lia.
  - apply xpost_bind_leaf; [apply np_xtake_ref | intros cr]. apply Hsub; lia.
  - apply xpost_if; [|unfold xpost; lia].
    apply xpost_bind_leaf; [apply np_xtake_ref | intros cr]. apply Hsub; lia.
  - (* TStruct *)
    assert (Hgo : forall fs s0 n0,
      xpost n0 (fold_right (fun t1 a => usize env f t1 + a) 0 fs)%N
        ((fix go (fs : list ty) (s : xs) (n : N) : res (xs * N) :=
            match fs with
            | [] => Ok (s, n)
            | t1 :: ft => do y <- xdec env f t1 s n; go ft (fst y) (snd y)
            end) fs s0 n0)).
    { induction fs0 as [ | t1 ft IHf]; intros s0 n0; cbn [fold_right].
      - unfold xpost. lia.
      - specialize (IH t1 s0 n0).
        destruct (xdec env f t1 s0 n0) as [[s1 n1] | | ]; cbn in *; auto.
        specialize (IHf s1 n1).
        match goal with |- xpost _ _ ?r => destruct r as [[s2 n2] | | ] end; cbn [xpost fst snd bind] in *; auto; try lia. }
    specialize (Hgo fs s (N.succ n)).
    match goal with |- xpost _ _ ?r => destruct r as [[s2 n2] | | ] end; cbn [xpost fst snd bind] in *; auto; try lia.
  - (* TSum *)
    induction alts as [ | [[len val] t'] rest IHa]; cbn [fold_right snd]; [exact I|].
    apply xpost_if; [eapply xpost_weaken; [|apply IHa]; lia|].
    apply xpost_if; [|eapply xpost_weaken; [|apply IHa]; lia].
    apply IHw. lia.
  - unfold xpost. lia.
  - apply xpost_bind_leaf; [apply np_xtake_ref | intros cr; apply Hleaf].
  - apply xpost_bind_leaf; [apply np_addr_parse | intros x; apply Hleaf].
  - destruct (nth_error env i); [apply IHw; lia | exact I].
Qed.

Theorem xunmarshal_np env fuel t c : np (xunmarshal env fuel t c).
Proof.
  unfold xunmarshal. apply np_bind; [apply np_enter|]. intros [s | ]; [|exact I].
  pose proof (xdec_post env fuel t s 0) as H.
  destruct (xdec env fuel t s 0) as [[s' n'] | | ]; cbn in *; auto.
Qed.

Theorem xunmarshal_steps env fuel t c s n :
  xunmarshal env fuel t c = Ok (s, n) -> (n <= usize env fuel t)%N.
Proof.
  unfold xunmarshal. destruct (enter c false) as [[s0 | ] | | ]; cbn; try discriminate.
  intros H. pose proof (xdec_post env fuel t s0 0) as P. rewrite H in P. cbn in P. lia.
Qed.
