(** History: models of liteapi/pool BEFORE the repairs, kept so that the defects
    stay documented and their witnesses stay in the regression corpus
    (/verif/corpus/C13).  Nothing here is used by the theorems about the repaired code.

      F15  findFirstWorkingConnection / findBestPingConnection compared
           [c.MasterHead().Seqno+1 >= maxSeqno] in uint32: the sum wraps to 0 at 2^32-1,
           so the only alive, current connection of a pool was never chosen.
           (repair: the comparison is done in 64 bits)
      F14  notifySubscribers did a blocking send into the capacity-1 channel of every
           waiter while holding p.mu.RLock; a waiter that had left its loop blocked in
           unsubscribe (p.mu.Lock) and never drained the channel: permanent deadlock.
           (repair: non-blocking send that keeps the newer of pending and new head)
      F14b connection.SetMasterHead sent into the pool's 10-slot update buffer while
           holding c.mu; updateBest / subscribe hold p.mu and call MasterHead() (c.mu),
           Run is the only consumer of the buffer: two more permanent deadlocks.
           (repair: the send happens after c.mu is released) *)
From Coq Require Import List NArith ZArith Bool Arith Lia.
From Tongo Require Import Model.Pool Proofs.PoolP.
Import ListNotations.

(** ---- F15: the selection rule before the repair ---- *)

Definition current_before_fix (maxs : N) (c : conn) : bool := (maxs <=? u32 (seq32 c + 1))%N.
Definition usable_before_fix (maxs : N) (c : conn) : bool := c_alive c && current_before_fix maxs c.

Fixpoint find_first_working_before_fix (maxs : N) (cs : list conn) (i : nat) : option nat :=
  match cs with
  | [] => None
  | c :: t => if usable_before_fix maxs c then Some i else find_first_working_before_fix maxs t (S i)
  end.

Fixpoint find_best_ping_before_fix (maxs : N) (cs : list conn) (i : nat) (best : option (nat * Z))
  : option (nat * Z) :=
  match cs with
  | [] => best
  | c :: t => find_best_ping_before_fix maxs t (S i)
                (if usable_before_fix maxs c then better i c best else best)
  end.

Definition update_best_before_fix (st : strategy) (cs : list conn) (prev : option nat) : option nat :=
  match cs with
  | [] => prev
  | _ =>
      let m := max_seqno cs in
      match st with
      | BestPing =>
          match find_best_ping_before_fix m cs 0 None with Some (i, _) => Some i | None => prev end
      | FirstWorking =>
          match find_first_working_before_fix m cs 0 with Some i => Some i | None => prev end
      | OtherStrategy => prev
      end
  end.

Definition wrap_seqno : N := 4294967295.
(** the witness: one connection, alive, head 2^32-1 (= the newest head) *)
Definition wrap_witness : list conn := [mkConn true wrap_seqno 1].

Lemma wrap_witness_eligible : eligible wrap_witness (mkConn true wrap_seqno 1).
Proof. split; [reflexivity|]. vm_compute. discriminate. Qed.

Lemma wrap_witness_not_chosen_before_fix :
  update_best_before_fix BestPing wrap_witness None = None /\
  update_best_before_fix FirstWorking wrap_witness None = None.
Proof. split; vm_compute; reflexivity. Qed.

Theorem update_best_spec_refuted_before_fix :
  exists st cs prev, ~ is_choice st (eligible cs) cs prev (update_best_before_fix st cs prev).
Proof.
  exists BestPing, wrap_witness, None.
  destruct wrap_witness_not_chosen_before_fix as [-> _].
  intros [[Hnone _]|(i & c & Hres & _)]; [|discriminate].
  apply (Hnone (mkConn true wrap_seqno 1)); [left; reflexivity|exact wrap_witness_eligible].
Qed.

(** the repaired rule chooses it (corpus/C13/f15_seqno_wrap.txt replays this on the Go code) *)
Lemma wrap_witness_chosen_after_fix :
  update_best BestPing wrap_witness None = Some 0 /\ update_best FirstWorking wrap_witness None = Some 0.
Proof. split; vm_compute; reflexivity. Qed.

(** the two rules differ exactly on alive connections at 2^32-1 *)
Lemma before_fix_differs_only_at_wrap m c :
  usable_before_fix m c <> usable_go m c -> c_alive c = true /\ seq32 c = wrap_seqno.
Proof.
  unfold usable_before_fix, usable_go, current_before_fix, current_go, u32.
  pose proof (seq32_lt c) as Hlt. unfold two32 in *.
  destruct (c_alive c); cbn [andb]; [|congruence]. intros Hne. split; [reflexivity|].
  destruct (N.eq_dec (seq32 c) wrap_seqno) as [He|Hn]; [exact He|]. exfalso. apply Hne.
  unfold wrap_seqno in Hn. rewrite N.mod_small by lia. reflexivity.
Qed.

(** ---- F14, F14b: the wait-list protocol before the repairs ----
    connection pc [CPub h] = "holds c.mu, head stored, blocked in / about to do the
    send"; [LSend] is a BLOCKING send into a capacity-1 channel under RLock. *)
Module WaitBeforeFix.

Definition msg := (nat * N)%type.          (* masterHeadUpdated: (Conn.ID(), Head.Seqno) *)
Inductive agent := ARun | AW (w : nat).
Inductive conn_pc := CIdle | CPub (h : N).
Inductive wres := ROk | RTimeout | RCancel.
Inductive wait_pc :=
| WNew                      (* before subscribe: wants p.mu.Lock *)
| WSubL                     (* inside subscribe, holds p.mu (write) *)
| WWait                     (* in the select loop *)
| WUnsub (r : wres)         (* left the loop with result r; deferred unsubscribe wants p.mu.Lock *)
| WDone (r : wres)          (* returned r *)
| WPanicked.                (* nil bestConn dereferenced in subscribe *)
Inductive run_pc :=
| RIdle                               (* in select *)
| RWantR (u : msg)                    (* received u from masterHeadUpdatedCh, calling p.mu.RLock *)
| RNotify (u : msg) (rem : list nat)  (* holds RLock; channels (by waiter) still to be sent to *)
| RUpd (k : nat).                     (* in updateBest, holds p.mu (write); next: conns[k].MasterHead() *)

Definition upd_cap : nat := 10.            (* make(chan masterHeadUpdated, 10) *)

Record state := mkS {
  head : nat -> N;
  cpc : nat -> conn_pc;
  updq : list msg;
  best : option nat;
  readers : nat;
  writer : option agent;
  wl : list (N * nat);
  next_id : N;
  rpc : run_pc;
  wpc : nat -> wait_pc;
  wid : nat -> N;
  wch : nat -> option msg;
  wgot : nat -> option msg;
  log : list msg
}.

Definition set_head (s : state) (v : nat -> N) : state :=
  mkS v (cpc s) (updq s) (best s) (readers s) (writer s) (wl s) (next_id s) (rpc s) (wpc s) (wid s) (wch s) (wgot s) (log s).
Definition set_cpc (s : state) (v : nat -> conn_pc) : state :=
  mkS (head s) v (updq s) (best s) (readers s) (writer s) (wl s) (next_id s) (rpc s) (wpc s) (wid s) (wch s) (wgot s) (log s).
Definition set_updq (s : state) (v : list msg) : state :=
  mkS (head s) (cpc s) v (best s) (readers s) (writer s) (wl s) (next_id s) (rpc s) (wpc s) (wid s) (wch s) (wgot s) (log s).
Definition set_best (s : state) (v : option nat) : state :=
  mkS (head s) (cpc s) (updq s) v (readers s) (writer s) (wl s) (next_id s) (rpc s) (wpc s) (wid s) (wch s) (wgot s) (log s).
Definition set_readers (s : state) (v : nat) : state :=
  mkS (head s) (cpc s) (updq s) (best s) v (writer s) (wl s) (next_id s) (rpc s) (wpc s) (wid s) (wch s) (wgot s) (log s).
Definition set_writer (s : state) (v : option agent) : state :=
  mkS (head s) (cpc s) (updq s) (best s) (readers s) v (wl s) (next_id s) (rpc s) (wpc s) (wid s) (wch s) (wgot s) (log s).
Definition set_wl (s : state) (v : list (N * nat)) : state :=
  mkS (head s) (cpc s) (updq s) (best s) (readers s) (writer s) v (next_id s) (rpc s) (wpc s) (wid s) (wch s) (wgot s) (log s).
Definition set_next_id (s : state) (v : N) : state :=
  mkS (head s) (cpc s) (updq s) (best s) (readers s) (writer s) (wl s) v (rpc s) (wpc s) (wid s) (wch s) (wgot s) (log s).
Definition set_rpc (s : state) (v : run_pc) : state :=
  mkS (head s) (cpc s) (updq s) (best s) (readers s) (writer s) (wl s) (next_id s) v (wpc s) (wid s) (wch s) (wgot s) (log s).
Definition set_wpc (s : state) (v : nat -> wait_pc) : state :=
  mkS (head s) (cpc s) (updq s) (best s) (readers s) (writer s) (wl s) (next_id s) (rpc s) v (wid s) (wch s) (wgot s) (log s).
Definition set_wid (s : state) (v : nat -> N) : state :=
  mkS (head s) (cpc s) (updq s) (best s) (readers s) (writer s) (wl s) (next_id s) (rpc s) (wpc s) v (wch s) (wgot s) (log s).
Definition set_wch (s : state) (v : nat -> option msg) : state :=
  mkS (head s) (cpc s) (updq s) (best s) (readers s) (writer s) (wl s) (next_id s) (rpc s) (wpc s) (wid s) v (wgot s) (log s).
Definition set_wgot (s : state) (v : nat -> option msg) : state :=
  mkS (head s) (cpc s) (updq s) (best s) (readers s) (writer s) (wl s) (next_id s) (rpc s) (wpc s) (wid s) (wch s) v (log s).
Definition set_log (s : state) (v : list msg) : state :=
  mkS (head s) (cpc s) (updq s) (best s) (readers s) (writer s) (wl s) (next_id s) (rpc s) (wpc s) (wid s) (wch s) (wgot s) v.

Definition fupd {A} (f : nat -> A) (i : nat) (v : A) : nat -> A :=
  fun j => if Nat.eqb j i then v else f j.

Inductive label :=
| LSetHead (c : nat) (h : N)   (* connection c enters SetMasterHead(h) *)
| LPublish (c : nat)           (* its send into masterHeadUpdatedCh completes; c.mu released *)
| LTake                        (* Run: update := <-masterHeadUpdatedCh *)
| LRLock (order : list nat)    (* Run: p.mu.RLock() in notifySubscribers; map order chosen *)
| LSend                        (* Run: ch <- update.Head for the next channel *)
| LRUnlock                     (* Run: loop finished, p.mu.RUnlock() *)
| LTick                        (* Run: ticker fired, updateBest: p.mu.Lock() *)
| LUpdRead                     (* Run: conns[k].MasterHead() *)
| LUpdDone (nb : option nat)   (* Run: bestConn := choice; p.mu.Unlock() *)
| LSubLock (w : nat)           (* waiter: p.mu.Lock() in subscribe *)
| LSubBody (w : nat)           (* waiter: body of subscribe; p.mu.Unlock() *)
| LRecv (w : nat)              (* waiter: head := <-ch and the comparison *)
| LLeave (w : nat) (r : wres)  (* waiter: timeout (RTimeout) or ctx.Done (RCancel) branch *)
| LUnsub (w : nat).            (* waiter: deferred unsubscribe, atomically *)

Definition lock_free (s : state) : bool :=
  Nat.eqb (readers s) 0 && match writer s with None => true | Some _ => false end.

Definition is_writer (s : state) (a : agent) : bool :=
  match writer s, a with
  | Some ARun, ARun => true
  | Some (AW w), AW w' => Nat.eqb w w'
  | _, _ => false
  end.

Definition mem (x : nat) (l : list nat) : bool := existsb (Nat.eqb x) l.
(** [order] enumerates the channels of the wait list (each exactly once when the
    registered waiters are distinct, which they are) *)
Definition is_order (order : list nat) (s : state) : bool :=
  let chans := map snd (wl s) in
  Nat.eqb (length order) (length chans) &&
  forallb (fun w => mem w chans) order && forallb (fun w => mem w order) chans.

Definition same_best (s : state) (c : nat) : bool :=
  match best s with Some b => Nat.eqb b c | None => false end.

Definition valid_choice (nconns : nat) (s : state) (nb : option nat) : bool :=
  match nb, best s with
  | None, None => true
  | Some i, Some b => Nat.eqb i b || Nat.ltb i nconns
  | Some i, None => Nat.ltb i nconns
  | None, Some _ => false
  end.

Section Step.
  Variable nconns : nat.          (* len(p.conns), fixed after initialisation *)
  Variable tgt : nat -> N.        (* seqno waiter w waits for *)

  Definition step (s : state) (l : label) : option state :=
    match l with
    | LSetHead c h =>
        match cpc s c with
        | CIdle =>
            if (head s c <? h)%N
            then Some (set_cpc (set_head s (fupd (head s) c h)) (fupd (cpc s) c (CPub h)))
            else Some s
        | CPub _ => None                       (* c.mu is held by the previous call *)
        end
    | LPublish c =>
        match cpc s c with
        | CPub h =>
            if Nat.ltb (length (updq s)) upd_cap
            then Some (set_cpc (set_updq s (updq s ++ [(c, h)])) (fupd (cpc s) c CIdle))
            else None                          (* buffer full: blocked holding c.mu *)
        | CIdle => None
        end
    | LTake =>
        match rpc s, updq s with
        | RIdle, u :: rest => Some (set_rpc (set_updq s rest) (RWantR u))
        | _, _ => None
        end
    | LRLock order =>
        match rpc s, writer s with
        | RWantR u, None =>
            let s1 := set_readers s (S (readers s)) in
            if same_best s (fst u)
            then if is_order order s
                 then Some (set_log (set_rpc s1 (RNotify u order)) (log s ++ [u]))
                 else None
            else Some (set_rpc s1 (RNotify u []))
        | _, _ => None
        end
    | LSend =>
        match rpc s with
        | RNotify u (w :: rem) =>
            match wch s w with
            | None => Some (set_rpc (set_wch s (fupd (wch s) w (Some u))) (RNotify u rem))
            | Some _ => None                   (* capacity-1 channel full: blocked holding RLock *)
            end
        | _ => None
        end
    | LRUnlock =>
        match rpc s with
        | RNotify u [] => Some (set_rpc (set_readers s (pred (readers s))) RIdle)
        | _ => None
        end
    | LTick =>
        match rpc s with
        | RIdle => if lock_free s then Some (set_rpc (set_writer s (Some ARun)) (RUpd 0)) else None
        | _ => None
        end
    | LUpdRead =>
        match rpc s with
        | RUpd k =>
            if is_writer s ARun && Nat.ltb k nconns
            then match cpc s k with
                 | CIdle => Some (set_rpc s (RUpd (S k)))
                 | CPub _ => None              (* c.mu held by a publisher: blocked holding p.mu *)
                 end
            else None
        | _ => None
        end
    | LUpdDone nb =>
        match rpc s with
        | RUpd k =>
            if is_writer s ARun && Nat.leb nconns k && valid_choice nconns s nb
            then Some (set_rpc (set_writer (set_best s nb) None) RIdle)
            else None
        | _ => None
        end
    | LSubLock w =>
        match wpc s w with
        | WNew => if lock_free s
                  then Some (set_wpc (set_writer s (Some (AW w))) (fupd (wpc s) w WSubL))
                  else None
        | _ => None
        end
    | LSubBody w =>
        match wpc s w with
        | WSubL =>
            if is_writer s (AW w) then
              match best s with
              | None =>                        (* p.bestConn.MasterHead() on nil: panic, deferred Unlock *)
                  Some (set_wpc (set_writer s None) (fupd (wpc s) w WPanicked))
              | Some b =>
                  match cpc s b with
                  | CPub _ => None             (* bestConn.mu held by a publisher: blocked holding p.mu *)
                  | CIdle =>
                      let s1 := set_wpc (set_writer s None) (fupd (wpc s) w WWait) in
                      if (tgt w <=? head s b)%N
                      then Some (set_log (set_wid (set_wch s1 (fupd (wch s) w (Some (b, head s b))))
                                                  (fupd (wid s) w 0%N))
                                         (log s ++ [(b, head s b)]))
                      else let id := (next_id s + 1)%N in
                           Some (set_wid (set_wl (set_next_id s1 id) (wl s ++ [(id, w)]))
                                         (fupd (wid s) w id))
                  end
              end
            else None
        | _ => None
        end
    | LRecv w =>
        match wpc s w, wch s w with
        | WWait, Some m =>
            Some (set_wpc (set_wgot (set_wch s (fupd (wch s) w None)) (fupd (wgot s) w (Some m)))
                          (fupd (wpc s) w (if (tgt w <=? snd m)%N then WUnsub ROk else WWait)))
        | _, _ => None
        end
    | LLeave w r =>
        match wpc s w, r with
        | WWait, RTimeout | WWait, RCancel => Some (set_wpc s (fupd (wpc s) w (WUnsub r)))
        | _, _ => None
        end
    | LUnsub w =>
        match wpc s w with
        | WUnsub r =>
            if lock_free s
            then Some (set_wpc (set_wl s (filter (fun e => negb (N.eqb (fst e) (wid s w))) (wl s)))
                               (fupd (wpc s) w (WDone r)))
            else None
        | _ => None
        end
    end.

  Inductive reachable (s0 : state) : state -> Prop :=
  | reach_init : reachable s0 s0
  | reach_step s l s' : reachable s0 s -> step s l = Some s' -> reachable s0 s'.

  Fixpoint run (s : state) (ls : list label) : option state :=
    match ls with
    | [] => Some s
    | l :: t => match step s l with Some s' => run s' t | None => None end
    end.
End Step.

(** a freshly built pool: heads and the current choice are arbitrary *)
Definition init_state (heads : nat -> N) (b : option nat) : state :=
  mkS heads (fun _ => CIdle) [] b 0 None [] 0%N RIdle
      (fun _ => WNew) (fun _ => 0%N) (fun _ => None) (fun _ => None) [].

(** ---- vocabulary of the theorems ---- *)

(** the holder of the pool lock (writer, or the reader = Run in notifySubscribers)
    has an enabled step *)
Definition holder_can_step (nconns : nat) (tgt : nat -> N) (s : state) : Prop :=
  match writer s with
  | Some (AW w) => step nconns tgt s (LSubBody w) <> None
  | Some ARun => step nconns tgt s LUpdRead <> None \/
                 exists nb, step nconns tgt s (LUpdDone nb) <> None
  | None => readers s = 0 \/ step nconns tgt s LSend <> None \/ step nconns tgt s LRUnlock <> None
  end.

Ltac sred :=
  cbn [head cpc updq best readers writer wl next_id rpc wpc wid wch wgot log
       set_head set_cpc set_updq set_best set_readers set_writer set_wl set_next_id
       set_rpc set_wpc set_wid set_wch set_wgot set_log fst snd] in *.

Lemma fupd_same {A} (f : nat -> A) i v : fupd f i v i = v.
Proof. unfold fupd. rewrite Nat.eqb_refl. reflexivity. Qed.

Lemma fupd_other {A} (f : nat -> A) i v j : j <> i -> fupd f i v j = f j.
Proof. unfold fupd. intros Hne. destruct (Nat.eqb_spec j i); [contradiction|reflexivity]. Qed.

Ltac fu :=
  repeat match goal with
  | H : context [fupd _ ?i _ ?j] |- _ =>
      destruct (Nat.eq_dec j i) as [?|?];
      [subst; rewrite ?fupd_same in * | rewrite ?(fupd_other _ i _ j) in * by assumption]
  | |- context [fupd _ ?i _ ?j] =>
      destruct (Nat.eq_dec j i) as [?|?];
      [subst; rewrite ?fupd_same in * | rewrite ?(fupd_other _ i _ j) in * by assumption]
  end.

Lemma lock_free_true s : lock_free s = true -> readers s = 0 /\ writer s = None.
Proof.
  unfold lock_free. intros H. apply andb_true_iff in H as [Hr Hw].
  apply Nat.eqb_eq in Hr. destruct (writer s); [discriminate|auto].
Qed.

Lemma is_writer_run s : is_writer s ARun = true -> writer s = Some ARun.
Proof. unfold is_writer. destruct (writer s) as [[|w]|]; congruence. Qed.

Lemma is_writer_w s w : is_writer s (AW w) = true -> writer s = Some (AW w).
Proof.
  unfold is_writer. destruct (writer s) as [[|w']|]; try congruence.
  intros H. apply Nat.eqb_eq in H. congruence.
Qed.

Ltac step_inv H :=
  unfold step in H;
  repeat match type of H with
  | context [match ?x with _ => _ end] => destruct x eqn:?
  end;
  try discriminate H;
  injection H as H; subst.

Ltac guards :=
  repeat match goal with
  | H : lock_free _ = true |- _ => apply lock_free_true in H as [? ?]
  | H : is_writer _ ARun = true |- _ => apply is_writer_run in H
  | H : is_writer _ (AW _) = true |- _ => apply is_writer_w in H
  | H : _ && _ = true |- _ => apply andb_true_iff in H as [? ?]
  | H : Nat.ltb _ _ = true |- _ => apply Nat.ltb_lt in H
  | H : Nat.leb _ _ = true |- _ => apply Nat.leb_le in H
  | H : Nat.ltb _ _ = false |- _ => apply Nat.ltb_ge in H
  end.

Section Dead.
  Variable nconns : nat.
  Variable tgt : nat -> N.
  Notation step := (step nconns tgt).
  Notation reachable := (reachable nconns tgt).

  Lemma run_reachable ls : forall s0 s s',
    reachable s0 s -> run nconns tgt s ls = Some s' -> reachable s0 s'.
  Proof.
    induction ls as [|l t IH]; intros s0 s s' Hr Hrun; cbn [run] in Hrun.
    - injection Hrun as <-. exact Hr.
    - destruct (step s l) as [s1|] eqn:Hs; [|discriminate].
      eapply IH; [|exact Hrun]. eapply reach_step; eassumption.
  Qed.

  (** F14: Run is sending into the full channel of a waiter that has already left
      its loop and wants the write lock for unsubscribe.  Nothing any agent does
      changes this: Run never finishes the notification, the waiter never returns. *)
  Definition f14_dead (u : msg) (w : nat) (rem : list nat) (r : wres) (s : state) : Prop :=
    rpc s = RNotify u (w :: rem) /\ wch s w <> None /\ wpc s w = WUnsub r /\ readers s <> 0 /\
    writer s = None.

  Lemma f14_dead_stable u w rem r s l s' :
    f14_dead u w rem r s -> step s l = Some s' -> f14_dead u w rem r s'.
  Proof.
    intros (Hp & Hch & Hpc & Hrd & Hwr) Hs. unfold f14_dead.
    step_inv Hs; guards; sred; try congruence.
    all: repeat apply conj; fu; sred; try congruence; try lia.
  Qed.

  Lemma f14_dead_stuck u w rem r s : f14_dead u w rem r s -> ~ holder_can_step nconns tgt s.
  Proof.
    intros (Hp & Hch & Hpc & Hrd & Hwr). unfold holder_can_step. rewrite Hwr.
    unfold PoolHistory.WaitBeforeFix.step. rewrite Hp.
    destruct (wch s w); [|contradiction]. intros [H|[H|H]]; congruence.
  Qed.

  (** F14b, first form: Run is inside updateBest (write lock held) waiting for the
      lock of connection k, which is blocked publishing into the full update buffer
      that only Run drains. *)
  Definition upd_dead (k : nat) (h : N) (s : state) : Prop :=
    rpc s = RUpd k /\ k < nconns /\ cpc s k = CPub h /\ length (updq s) = upd_cap /\
    writer s = Some ARun.

  Lemma upd_dead_stable k h s l s' :
    upd_dead k h s -> step s l = Some s' -> upd_dead k h s'.
  Proof.
    intros (Hp & Hk & Hc & Hlen & Hwr) Hs. unfold upd_dead.
    step_inv Hs; guards; sred; try congruence; try lia.
    all: repeat apply conj; fu; sred; try congruence; try lia.
    all: match goal with H : RUpd _ = RUpd _ |- _ => injection H as ->; lia end.
  Qed.

  Lemma upd_dead_stuck k h s : upd_dead k h s -> ~ holder_can_step nconns tgt s.
  Proof.
    intros (Hp & Hk & Hc & _ & Hwr). unfold holder_can_step. rewrite Hwr.
    unfold PoolHistory.WaitBeforeFix.step. rewrite Hp, Hc.
    assert (Hlt : Nat.ltb k nconns = true) by (apply Nat.ltb_lt; exact Hk).
    assert (Hle : Nat.leb nconns k = false) by (apply Nat.leb_gt; exact Hk).
    rewrite Hlt, Hle, andb_true_r, andb_false_r.
    destruct (is_writer s ARun); cbn [andb]; intros [H|[nb H]]; congruence.
  Qed.

  (** F14b, second form: a waiter is inside subscribe (write lock held) waiting for
      the lock of the best connection, which is blocked publishing into the full
      buffer, while Run has already taken an update and waits for the read lock. *)
  Definition sub_dead (w c : nat) (h : N) (u : msg) (s : state) : Prop :=
    wpc s w = WSubL /\ writer s = Some (AW w) /\ best s = Some c /\ cpc s c = CPub h /\
    length (updq s) = upd_cap /\ rpc s = RWantR u.

  Lemma sub_dead_stable w c h u s l s' :
    sub_dead w c h u s -> step s l = Some s' -> sub_dead w c h u s'.
  Proof.
    intros (Hpc & Hwr & Hb & Hc & Hlen & Hp) Hs. unfold sub_dead.
    step_inv Hs; guards; sred; try congruence; try lia.
    all: repeat apply conj; fu; sred; try congruence; try lia.
  Qed.

  Lemma sub_dead_stuck w c h u s : sub_dead w c h u s -> ~ holder_can_step nconns tgt s.
  Proof.
    intros (Hpc & Hwr & Hb & Hc & _). unfold holder_can_step. rewrite Hwr.
    unfold PoolHistory.WaitBeforeFix.step. rewrite Hpc, Hb, Hc. destruct (is_writer s (AW w)); congruence.
  Qed.

  Lemma forever (P : state -> Prop) :
    (forall s l s', P s -> step s l = Some s' -> P s') ->
    forall s s', P s -> reachable s s' -> P s'.
  Proof. intros Hst s s' Hp Hr. induction Hr; [exact Hp|eapply Hst; eassumption]. Qed.
End Dead.

(** ---- the witnesses (also in /verif/corpus/C13 as walks on the Go code) ---- *)

(** F14: one connection (head 5, the best one), one waiter for seqno 10; two head
    updates, the waiter's timeout fires before it drains its channel *)
Definition f14_tgt : nat -> N := fun _ => 10%N.
Definition f14_init : state := init_state (fun _ => 5%N) (Some 0).
Definition f14_trace : list label :=
  [ LSubLock 0; LSubBody 0;                 (* WaitMasterchainSeqno(10): registered as id 1 *)
    LSetHead 0 6; LPublish 0;               (* block 6 arrives *)
    LTake; LRLock [0]; LSend; LRUnlock;     (* Run notifies: waiter channel now holds 6 *)
    LSetHead 0 7; LPublish 0;               (* block 7 arrives *)
    LLeave 0 RTimeout;                      (* the timeout fires; the channel is not drained *)
    LTake; LRLock [0] ].                    (* Run: RLock taken, next send is into the full channel *)

Lemma f14_trace_runs :
  exists s, run 1 f14_tgt f14_init f14_trace = Some s /\ f14_dead (0, 7%N) 0 [] RTimeout s.
Proof.
  eexists. split; [vm_compute; reflexivity|].
  unfold f14_dead. sred. repeat apply conj; try reflexivity; vm_compute; discriminate.
Qed.

(** a reachable state from which, whatever any agent does afterwards, the holder of
    the pool lock never has an enabled step and waiter 0, whose timeout has fired,
    never returns *)
Theorem pool_never_blocks_refuted_before_fix :
  exists nconns tgt heads b s,
    reachable nconns tgt (init_state heads b) s /\
    forall s', reachable nconns tgt s s' ->
      ~ holder_can_step nconns tgt s' /\ wpc s' 0 = WUnsub RTimeout.
Proof.
  exists 1, f14_tgt, (fun _ => 5%N), (Some 0).
  destruct f14_trace_runs as (s & Hrun & Hd). exists s.
  split; [eapply run_reachable; [apply reach_init|exact Hrun]|]. intros s' Hr'.
  pose proof (forever 1 f14_tgt _ (f14_dead_stable 1 f14_tgt _ _ _ _) _ _ Hd Hr') as Hd'.
  split; [eapply f14_dead_stuck; exact Hd'|exact (proj1 (proj2 (proj2 Hd')))].
Qed.

Fixpoint publishes (c : nat) (from : N) (n : nat) : list label :=
  match n with
  | O => []
  | S n' => LSetHead c from :: LPublish c :: publishes c (from + 1)%N n'
  end.

(** F14b/updateBest: heads 1..10 fill the buffer, SetMasterHead(11) blocks in the
    send holding c.mu, Run's select takes the ticker branch *)
Definition upd_init : state := init_state (fun _ => 0%N) (Some 0).
Definition upd_trace : list label := publishes 0 1 10 ++ [LSetHead 0 11; LTick].

Lemma upd_trace_runs :
  exists s, run 1 f14_tgt upd_init upd_trace = Some s /\ upd_dead 1 0 11%N s.
Proof.
  eexists. split; [vm_compute; reflexivity|].
  unfold upd_dead. sred. repeat apply conj; try reflexivity. lia.
Qed.

Theorem pool_never_blocks_refuted_updatebest_before_fix :
  exists nconns tgt heads b s,
    reachable nconns tgt (init_state heads b) s /\
    forall s', reachable nconns tgt s s' ->
      ~ holder_can_step nconns tgt s' /\ rpc s' = RUpd 0.
Proof.
  exists 1, f14_tgt, (fun _ => 0%N), (Some 0).
  destruct upd_trace_runs as (s & Hrun & Hd). exists s.
  split; [eapply run_reachable; [apply reach_init|exact Hrun]|]. intros s' Hr'.
  pose proof (forever 1 f14_tgt _ (upd_dead_stable 1 f14_tgt _ _) _ _ Hd Hr') as Hd'.
  split; [eapply upd_dead_stuck; exact Hd'|exact (proj1 Hd')].
Qed.

(** F14b/subscribe: Run has received one update and is about to RLock; the buffer
    fills again, the best connection blocks in its 12th send; a waiter enters subscribe *)
Definition sub_trace : list label :=
  [LSetHead 0 1; LPublish 0; LTake] ++ publishes 0 2 10 ++ [LSetHead 0 12; LSubLock 0].

Lemma sub_trace_runs :
  exists s, run 1 (fun _ => 100%N) upd_init sub_trace = Some s /\ sub_dead 0 0 12%N (0, 1%N) s.
Proof.
  eexists. split; [vm_compute; reflexivity|].
  unfold sub_dead. sred. repeat apply conj; reflexivity.
Qed.

Theorem pool_never_blocks_refuted_subscribe_before_fix :
  exists nconns tgt heads b s,
    reachable nconns tgt (init_state heads b) s /\
    forall s', reachable nconns tgt s s' ->
      ~ holder_can_step nconns tgt s' /\ wpc s' 0 = WSubL /\ rpc s' = RWantR (0, 1%N).
Proof.
  exists 1, (fun _ => 100%N), (fun _ => 0%N), (Some 0).
  destruct sub_trace_runs as (s & Hrun & Hd). exists s.
  split; [eapply run_reachable; [apply reach_init|exact Hrun]|]. intros s' Hr'.
  pose proof (forever 1 (fun _ => 100%N) _ (sub_dead_stable 1 (fun _ => 100%N) _ _ _ _) _ _ Hd Hr') as Hd'.
  split; [eapply sub_dead_stuck; exact Hd'|].
  destruct Hd' as (H1 & _ & _ & _ & _ & H6). auto.
Qed.

End WaitBeforeFix.
