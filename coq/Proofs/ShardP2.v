(** Shard identifiers, part 2: convertShardIdent, GetParents, MatchBlockID. *)
From Coq Require Import List NArith ZArith Arith Lia Bool.
From Tongo Require Import Lib.Bits Lib.Res Model.Shard Proofs.ShardP.
Import ListNotations.
Local Open Scope N_scope.

(** ** convertShardIdent: prefix bits in the top [l] positions, then the marker bit *)
Lemma shard_of_ident_id l q : l <= 63 -> shard_of_ident (q * 2 ^ (64 - l)) l = shard_id l q.
Proof.
  intros Hl. unfold shard_of_ident. rewrite shl64_one by lia.
  rewrite shard_id_shape by exact Hl.
  replace (64 - l) with (63 - l + 1) by lia. apply shape_lor.
Qed.

(** ** GetParents *)
Lemma get_parents_same l q : l <= 63 ->
  get_parents (q * 2 ^ (64 - l)) l false false = [shard_id l q].
Proof. intros Hl. unfold get_parents. rewrite shard_of_ident_id by exact Hl. reflexivity. Qed.

Lemma get_parents_split l q : 1 <= l -> l <= 63 -> q < 2 ^ l ->
  get_parents (q * 2 ^ (64 - l)) l true false = [shard_id (l - 1) (q / 2)].
Proof.
  intros H1 Hl Hq. unfold get_parents. rewrite shard_of_ident_id by exact Hl.
  rewrite shard_parent_id by assumption. reflexivity.
Qed.

Lemma get_parents_merge l q split : l <= 62 -> q < 2 ^ l ->
  get_parents (q * 2 ^ (64 - l)) l split true
  = [shard_id (l + 1) (2 * q); shard_id (l + 1) (2 * q + 1)].
Proof.
  intros Hl Hq. unfold get_parents. rewrite shard_of_ident_id by lia.
  rewrite !shard_child_id by assumption. rewrite N.add_0_r. reflexivity.
Qed.

Lemma get_parents_all l q : l <= 63 -> q < 2 ^ l ->
  get_parents (q * 2 ^ (64 - l)) l false false = [shard_id l q] /\
  (1 <= l -> get_parents (q * 2 ^ (64 - l)) l true false = [shard_id (l - 1) (q / 2)]) /\
  (l <= 62 -> forall split, get_parents (q * 2 ^ (64 - l)) l split true
                            = [shard_id (l + 1) (2 * q); shard_id (l + 1) (2 * q + 1)]).
Proof.
  intros Hl Hq. split; [exact (get_parents_same l q Hl)|]. split.
  - intros H1. exact (get_parents_split l q H1 Hl Hq).
  - intros H62 sp. exact (get_parents_merge l q sp H62 Hq).
Qed.

(** ** MatchBlockID: true exactly when the shorter of the two prefixes is a
       prefix of the longer one (one shard is an ancestor of, or equal to, the other) *)
Lemma prefix_div_shape t t' q : t <= t' ->
  (q * 2 ^ (t + 1)) / 2 ^ (t' + 1) = shape t q / 2 ^ (t' + 1).
Proof.
  intros H. replace (t' + 1) with (t + 1 + (t' - t)) by lia.
  rewrite (N.pow_add_r 2 (t + 1) (t' - t)), <- !N.div_div by (apply N.pow_nonzero; lia).
  rewrite shape_div, N.div_mul by (apply N.pow_nonzero; lia). reflexivity.
Qed.

Lemma top_bits_prefix_shape t t' q : t <= t' -> t' <= 63 ->
  top_bits (N.to_nat (63 - t')) (q * 2 ^ (t + 1)) = top_bits (N.to_nat (63 - t')) (shape t q).
Proof.
  intros H H'. rewrite !top_bits_div by lia.
  replace (N.of_nat (64 - N.to_nat (63 - t'))) with (t' + 1) by lia.
  rewrite prefix_div_shape by exact H. reflexivity.
Qed.

Lemma shape_prefix_lt t q : t <= 63 -> q < 2 ^ (63 - t) -> q * 2 ^ (t + 1) < 2 ^ 64.
Proof.
  intros Ht Hq. replace 64 with (63 - t + (t + 1)) by lia. rewrite (N.pow_add_r 2 (63 - t) (t + 1)).
  apply N.mul_lt_mono_pos_r; [apply pow2_pos|exact Hq].
Qed.

Lemma match_block_iff u v s :
  0 < u -> u < 2 ^ 64 -> 0 < v -> v < 2 ^ 64 -> parse_shard u = Ok s ->
  let l := N.to_nat (N.min (shard_len u) (shard_len v)) in
  shard_match_block s v = true <-> top_bits l u = top_bits l v.
Proof.
  intros Hu0 Hu Hv0 Hv HP. cbv zeta.
  destruct (shape_exists u Hu0 Hu) as (q1 & E1 & Ht1 & Hq1).
  destruct (shape_exists v Hv0 Hv) as (q2 & E2 & Ht2 & Hq2).
  unfold shard_len. set (t1 := ctz64 u) in *. set (t2 := ctz64 v) in *.
  pose proof (parse_shard_shape t2 q2 Ht2 Hq2) as HPv. rewrite <- E2 in HPv.
  assert (HPu := HP). rewrite E1, parse_shard_shape in HPu by assumption. injection HPu as Es.
  unfold shard_match_block. rewrite HPv. rewrite <- Es. cbn [sh_prefix sh_mask].
  rewrite !ctz64_mask_of by assumption.
  destruct (N.ltb_spec (t1 + 1) (t2 + 1)) as [L|G].
  - (* u is the deeper shard *)
    rewrite N.min_r by lia.
    change (N.land (q1 * 2 ^ (t1 + 1)) (mask_of t2) =? q2 * 2 ^ (t2 + 1))
      with (shard_match_prefix {| sh_prefix := q2 * 2 ^ (t2 + 1); sh_mask := mask_of t2 |} (q1 * 2 ^ (t1 + 1))).
    pose proof (match_account_iff_prefix v _ (q1 * 2 ^ (t1 + 1)) Hv0 Hv
                  (shape_prefix_lt t1 q1 Ht1 Hq1) HPv) as HM.
    cbv zeta in HM. unfold shard_len in HM. fold t2 in HM. rewrite HM.
    rewrite (top_bits_prefix_shape t1 t2 q1) by lia. rewrite <- E1. reflexivity.
  - rewrite N.min_l by lia.
    change (N.land (q2 * 2 ^ (t2 + 1)) (mask_of t1) =? q1 * 2 ^ (t1 + 1))
      with (shard_match_prefix {| sh_prefix := q1 * 2 ^ (t1 + 1); sh_mask := mask_of t1 |} (q2 * 2 ^ (t2 + 1))).
    rewrite Es.
    pose proof (match_account_iff_prefix u s (q2 * 2 ^ (t2 + 1)) Hu0 Hu
                  (shape_prefix_lt t2 q2 Ht2 Hq2) HP) as HM.
    cbv zeta in HM. unfold shard_len in HM. fold t1 in HM. rewrite HM.
    rewrite (top_bits_prefix_shape t2 t1 q2) by lia. rewrite <- E2.
    split; intros H; symmetry; exact H.
Qed.

Lemma match_block_zero s : shard_match_block s 0 = false.
Proof. reflexivity. Qed.

(** ** child / parent directly on uint64 values *)
Lemma parent_child_u u left : 0 < u -> u < 2 ^ 64 -> 1 <= ctz64 u ->
  shard_parent (shard_child u left) = u.
Proof.
  intros H0 Hu Ht. destruct (shard_id_exists u H0 Hu) as (q & Hl & Hq & E).
  assert (Hl62 : shard_len u <= 62) by (unfold shard_len in *; lia).
  set (l := shard_len u) in *. rewrite E. apply parent_child; assumption.
Qed.

Lemma child_parent_u u : 0 < u -> u < 2 ^ 64 -> ctz64 u <= 62 ->
  exists left, shard_child (shard_parent u) left = u.
Proof.
  intros H0 Hu Ht. destruct (shard_id_exists u H0 Hu) as (q & Hl & Hq & E).
  assert (Hl1 : 1 <= shard_len u) by (unfold shard_len in *; lia).
  set (l := shard_len u) in *. exists (N.even q). rewrite E. apply child_parent; assumption.
Qed.
