(** C07: the BOC parser model is total (never Panic), allocates linearly, and
    returns only well-formed, acyclic cell arrays. *)
From Coq Require Import List NArith Arith Lia Bool.
From Tongo Require Import Lib.Bits Lib.Res Spec.Crc32c Model.BocParse.
Import ListNotations.

Ltac splits := repeat match goal with |- _ /\ _ => split end.

Definition no_panic {A} (r : res A) : Prop := match r with Panic _ => False | _ => True end.

Lemma short_true_iff {A} n (l : list A) : short n l = true <-> (length l < n)%nat.
Proof. rewrite short_spec. apply Nat.ltb_lt. Qed.
Lemma short_false_iff {A} n (l : list A) : short n l = false <-> (n <= length l)%nat.
Proof. rewrite short_spec. apply Nat.ltb_ge. Qed.

Lemma take_drop_ok n l :
  (n <= length l)%nat -> take_drop n l = Ok (firstn n l, skipn n l).
Proof. intros H. unfold take_drop. apply short_false_iff in H. rewrite H. reflexivity. Qed.

Lemma read_be_drop_ok n l :
  (n <= length l)%nat -> exists v, read_be_drop n l = Ok (v, skipn n l).
Proof.
  intros H. unfold read_be_drop, read_be. apply short_false_iff in H. rewrite H.
  cbn [bind]. eexists. reflexivity.
Qed.

Lemma read_list_ok k : forall w h l acc,
  (k * w <= length l)%nat ->
  exists vs, read_list k w h l acc = Ok (vs, skipn (k * w) l) /\
             length vs = (length acc + k)%nat.
Proof.
  induction k as [|k IH]; intros w h l acc Hlen.
  - cbn [read_list Nat.mul skipn]. eexists. split; [reflexivity|]. rewrite rev_length. lia.
  - cbn [read_list].
    destruct (read_be_drop_ok w l ltac:(lia)) as (v & E). rewrite E. cbn [bind].
    destruct (IH w h (skipn w l) ((if h then (v / 2)%N else v) :: acc)) as (vs & E2 & L2).
    { rewrite skipn_length. lia. }
    exists vs. rewrite E2, skipn_add. split.
    + reflexivity.
    + cbn [length] in L2. lia.
Qed.

Lemma read_refs_ok k : forall w l acc,
  (k * w <= length l)%nat ->
  exists vs, read_refs k w l acc = Ok (vs, skipn (k * w) l) /\
             length vs = (length acc + k)%nat.
Proof.
  induction k as [|k IH]; intros w l acc Hlen.
  - cbn [read_refs Nat.mul skipn]. eexists. split; [reflexivity|]. rewrite rev_length. lia.
  - cbn [read_refs].
    destruct (read_be_drop_ok w l ltac:(lia)) as (v & E). rewrite E. cbn [bind].
    destruct (IH w (skipn w l) (v :: acc)) as (vs & E2 & L2).
    { rewrite skipn_length. lia. }
    exists vs. rewrite E2, skipn_add. split.
    + reflexivity.
    + cbn [length] in L2. lia.
Qed.

(** *** header *)
Definition sub {A} (l l' : list A) : Prop := forall P, Forall P l -> Forall P l'.
Lemma sub_refl {A} (l : list A) : sub l l. Proof. intros P H; exact H. Qed.
Lemma sub_trans {A} (a b c : list A) : sub a b -> sub b c -> sub a c.
Proof. intros H1 H2 P H. apply H2, H1, H. Qed.
Lemma sub_skipn {A} n (l : list A) : sub l (skipn n l).
Proof.
  intros P H. rewrite <- (firstn_skipn n l) in H. apply Forall_app in H. apply H.
Qed.
Lemma sub_firstn {A} n (l : list A) : sub l (firstn n l).
Proof.
  intros P H. rewrite <- (firstn_skipn n l) in H. apply Forall_app in H. apply H.
Qed.

Definition header_ok (bs : bytes) (h : header) : Prop :=
  let n := length bs in
  sub bs (h_data h) /\
  (h_cells h <= N.of_nat n)%N /\ (h_roots h <= N.of_nat n)%N /\
  length (h_rootlist h) = N.to_nat (h_roots h) /\
  (length (h_data h) <= n)%nat /\
  h_alloc h = (8 * h_roots h + 8 * h_cells h)%N.

Lemma parse_header_spec bs :
  match parse_header bs with
  | Panic _ => False
  | Err _ => True
  | Ok h => header_ok bs h
  end.
Proof.
  unfold parse_header.
  destruct (short 5 bs) eqn:E5; [exact I|].
  apply short_false_iff in E5.
  rewrite take_drop_ok by lia. cbn [bind].
  destruct (skipn 4 bs) as [|fb boc1] eqn:Eb.
  { assert (length (skipn 4 bs) = 0%nat) by (rewrite Eb; reflexivity).
    rewrite skipn_length in *. lia. }
  assert (Hb1 : (length boc1 + 5 = length bs)%nat).
  { assert (length (skipn 4 bs) = S (length boc1)) by (rewrite Eb; reflexivity).
    rewrite skipn_length in *. lia. }
  assert (S1 : sub bs boc1).
  { intros P HP. apply (sub_skipn 4) in HP. rewrite Eb in HP. inversion HP; assumption. }
  match goal with |- match (match ?cfg with _ => _ end) with _ => _ end => destruct cfg as [[[[hasIdx hasCrc] hasCache] size]|] end;
    [|exact I].
  destruct (short (1 + 3 * size) boc1) eqn:Es; [exact I|].
  apply short_false_iff in Es.
  destruct boc1 as [|ob boc2]; [cbn [length] in Es; lia|].
  cbn [length] in Es, Hb1.
  assert (S2 : sub bs boc2) by (intros P HP; apply S1 in HP; inversion HP; assumption).
  destruct (read_be_drop_ok size boc2 ltac:(lia)) as (cells & E1). rewrite E1. cbn [bind].
  set (b3 := skipn size boc2).
  assert (L3 : (length b3 = length boc2 - size)%nat) by (unfold b3; apply skipn_length).
  destruct (read_be_drop_ok size b3 ltac:(lia)) as (roots & E2). rewrite E2. cbn [bind].
  set (b4 := skipn size b3).
  assert (L4 : (length b4 = length b3 - size)%nat) by (unfold b4; apply skipn_length).
  destruct (read_be_drop_ok size b4 ltac:(lia)) as (absent & E3). rewrite E3. cbn [bind].
  set (b5 := skipn size b4).
  assert (L5 : (length b5 = length b4 - size)%nat) by (unfold b5; apply skipn_length).
  destruct (short (N.to_nat ob) b5) eqn:Eo; [exact I|].
  apply short_false_iff in Eo.
  destruct (read_be_drop_ok (N.to_nat ob) b5 Eo) as (tot & E4). rewrite E4. cbn [bind].
  set (b6 := skipn (N.to_nat ob) b5).
  assert (L6 : (length b6 = length b5 - N.to_nat ob)%nat) by (unfold b6; apply skipn_length).
  destruct ((N.of_nat (length b6) <? roots)%N || (N.of_nat (length b6) <? roots * N.of_nat size)%N) eqn:Er;
    [exact I|].
  apply orb_false_iff in Er. destruct Er as (Er1 & Er2).
  apply N.ltb_ge in Er1. apply N.ltb_ge in Er2.
  destruct (N.of_nat (length b6) <? cells)%N eqn:Ec; [exact I|].
  apply N.ltb_ge in Ec.
  destruct (read_list_ok (N.to_nat roots) size false b6 []) as (rootlist & E6 & Lr).
  { nia. }
  rewrite E6. cbn [bind].
  set (b7 := skipn (N.to_nat roots * size) b6).
  assert (L7 : (length b7 <= length b6)%nat) by (unfold b7; rewrite skipn_length; lia).
  (* index *)
  match goal with |- match bind ?X _ with _ => _ end =>
    assert (Hix : match X with
                  | Panic _ => False
                  | Err _ => True
                  | Ok (_, b8) => (length b8 <= length b7)%nat /\ sub b7 b8
                  end);
    [ destruct hasIdx; [|split; [lia|apply sub_refl]];
      match goal with |- match (if ?c then _ else _) with _ => _ end => destruct c eqn:Ei end; [exact I|];
      apply N.ltb_ge in Ei;
      destruct (read_list_ok (N.to_nat cells) (N.to_nat ob) hasCache b7 []) as (ix & E7 & _);
      [ nia | rewrite E7; rewrite skipn_length; split; [lia|apply sub_skipn] ]
    | destruct X as [[index b8]|e|p] ] end; [|exact I|contradiction].
  destruct Hix as (Hix & S8).
  cbn [bind].
  destruct (N.of_nat (length b8) <? tot)%N eqn:Et; [exact I|].
  apply N.ltb_ge in Et.
  rewrite take_drop_ok by lia. cbn [bind].
  set (b9 := skipn (N.to_nat tot) b8).
  match goal with |- match bind ?X _ with _ => _ end =>
    assert (Hc : no_panic X) by (destruct hasCrc; [destruct (short 4 b9); [exact I|];
      match goal with |- no_panic (if ?c then _ else _) => destruct c; exact I end | exact I]);
    destruct X as [b10|e|p] end; [|exact I|contradiction].
  cbn [bind].
  destruct b10; [|exact I].
  unfold header_ok; cbn [h_cells h_roots h_rootlist h_data h_alloc].
  splits; try lia.
  - eapply sub_trans; [exact S2|].
    eapply sub_trans; [apply (sub_skipn size)|]. fold b3.
    eapply sub_trans; [apply (sub_skipn size)|]. fold b4.
    eapply sub_trans; [apply (sub_skipn size)|]. fold b5.
    eapply sub_trans; [apply (sub_skipn (N.to_nat ob))|]. fold b6.
    eapply sub_trans; [apply (sub_skipn (N.to_nat roots * size))|]. fold b7.
    eapply sub_trans; [exact S8|]. apply sub_firstn.
  - cbn [length] in Lr. lia.
  - rewrite firstn_length. lia.
Qed.

(** *** one cell *)
Lemma bytes_bits_length l : length (bytes_bits l) = (8 * length l)%nat.
Proof.
  induction l as [|b t IH]; [reflexivity|].
  cbn [bytes_bits length]. rewrite app_length, bits_of_length, IH. lia.
Qed.

Lemma strip_go_length k : forall r b,
  strip_go k r = Some b -> (length b < length r)%nat.
Proof.
  induction k as [|k IH]; intros r b H; [discriminate|].
  destruct r as [|[|] rest]; cbn [strip_go] in H; try discriminate.
  - injection H as <-. rewrite rev_length. cbn [length]. lia.
  - apply IH in H. cbn [length]. lia.
Qed.

Lemma strip_completion_length l b :
  strip_completion l = Some b -> (length b < length l)%nat.
Proof.
  unfold strip_completion. intros H. apply strip_go_length in H.
  rewrite rev_length in H. exact H.
Qed.

Definition rnode_ok (c : rnode) : Prop :=
  (length (rn_bits c) <= 1023)%nat /\ (length (rn_refs c) <= 7)%nat.

Definition is_byte (b : N) : Prop := (b < 256)%N.

Lemma parse_cell_spec cd refsz :
  Forall is_byte cd ->
  match parse_cell cd refsz with
  | Panic _ => False
  | Err _ => True
  | Ok (c, cd') => rnode_ok c /\ (length cd' + 2 <= length cd)%nat /\ sub cd cd'
  end.
Proof.
  intros Hbytes. unfold parse_cell.
  destruct cd as [|d1 [|d2 cd1]]; try exact I.
  assert (Hd1 : (d1 < 256)%N) by (inversion Hbytes; assumption).
  assert (Hd2 : (d2 < 256)%N) by (inversion Hbytes as [|? ? ? Ht]; inversion Ht; assumption).
  assert (S1 : sub (d1 :: d2 :: cd1) cd1) by (apply (sub_skipn 2)).
  set (dataBytes := N.to_nat (d2 / 2 + d2 mod 2)).
  set (refNum := N.to_nat (d1 mod 8)).
  match goal with |- match bind ?X _ with _ => _ end =>
    assert (Hh : match X with Panic _ => False | Err _ => True
                 | Ok cd2 => (length cd2 <= length cd1)%nat /\ sub cd1 cd2 end)
      by (destruct (N.testbit d1 4);
          [destruct (short _ cd1); [exact I|rewrite skipn_length; split; [lia|apply sub_skipn]]
          |split; [lia|apply sub_refl]]);
    destruct X as [cd2|e|p] end; [|exact I|contradiction].
  destruct Hh as (Hh & S2).
  cbn [bind].
  destruct (short (dataBytes + refsz * refNum) cd2) eqn:Es; [exact I|].
  apply short_false_iff in Es.
  match goal with |- match bind ?X _ with _ => _ end =>
    assert (Ht : no_panic X);
    [ destruct (N.testbit d1 3); [|exact I];
      destruct (dataBytes <? 1)%nat eqn:Ed; [exact I|];
      apply Nat.ltb_ge in Ed; destruct cd2; [cbn [length] in Es; lia|exact I]
    | destruct X as [ty|e|p] ] end; [|exact I|contradiction].
  cbn [bind].
  rewrite take_drop_ok by lia. cbn [bind].
  unfold top_upped_bits.
  set (data := firstn dataBytes cd2).
  assert (Ld : length data = dataBytes) by (unfold data; rewrite firstn_length; lia).
  assert (Hm2 : (d2 mod 2 < 2)%N) by (apply N.mod_lt; lia).
  assert (Hdiv : (d2 / 2 <= 127)%N).
  { apply N.lt_succ_r. apply N.div_lt_upper_bound; lia. }
  match goal with |- match bind ?X _ with _ => _ end =>
    assert (Hb : match X with Panic _ => False | Err _ => True
                 | Ok b => (length b <= 1023)%nat end) end.
  { destruct (N.eqb_spec (d2 mod 2) 0) as [He|He]; cbn [orb].
    - rewrite bytes_bits_length, Ld. unfold dataBytes. lia.
    - destruct (Nat.eqb_spec (length data) 0) as [Hz|Hz].
      + rewrite bytes_bits_length, Hz. cbn. lia.
      + destruct (strip_completion (bytes_bits data)) as [b|] eqn:Esc; [|exact I].
        apply strip_completion_length in Esc.
        rewrite bytes_bits_length, Ld in Esc. unfold dataBytes in Esc. lia. }
  match type of Hb with match ?X with _ => _ end => destruct X as [b|e|p] end;
    [|exact I|contradiction].
  cbn [bind].
  destruct (read_refs_ok refNum refsz (skipn dataBytes cd2) []) as (refs & Er & Lr).
  { rewrite skipn_length. lia. }
  rewrite Er. cbn [bind].
  unfold rnode_ok; cbn [rn_bits rn_refs].
  splits.
  - exact Hb.
  - cbn [length] in Lr. rewrite Lr. unfold refNum.
    assert (d1 mod 8 < 8)%N by (apply N.mod_lt; lia). lia.
  - rewrite !skipn_length. cbn [length]. lia.
  - eapply sub_trans; [exact S1|]. eapply sub_trans; [exact S2|].
    eapply sub_trans; [apply (sub_skipn dataBytes)|]. apply sub_skipn.
Qed.

Lemma parse_cells_spec k : forall refsz cd acc,
  Forall is_byte cd -> Forall rnode_ok acc ->
  match parse_cells k refsz cd acc with
  | Panic _ => False
  | Err _ => True
  | Ok cells => Forall rnode_ok cells /\ length cells = (length acc + k)%nat
  end.
Proof.
  induction k as [|k IH]; intros refsz cd acc Hb Hacc.
  - cbn [parse_cells]. split; [apply Forall_rev; exact Hacc|rewrite rev_length; lia].
  - cbn [parse_cells].
    pose proof (parse_cell_spec cd refsz Hb) as Hc.
    destruct (parse_cell cd refsz) as [[c cd']|e|p]; [|exact I|contradiction].
    cbn [bind]. destruct Hc as (Hok & _ & Hsub).
    specialize (IH refsz cd' (c :: acc) (Hsub _ Hb) (Forall_cons _ Hok Hacc)).
    destruct (parse_cells k refsz cd' (c :: acc)); auto.
    destruct IH as (H1 & H2). split; [exact H1|]. cbn [length] in H2. lia.
Qed.

(** *** the whole parser *)
Theorem parse_total bs : Forall is_byte bs -> forall p, parse_boc bs <> Panic p.
Proof.
  intros Hb p. unfold parse_boc.
  pose proof (parse_header_spec bs) as Hh.
  destruct (parse_header bs) as [h|e|q]; [|discriminate|contradiction].
  cbn [bind]. destruct Hh as (Hsub & _).
  pose proof (parse_cells_spec (N.to_nat (h_cells h)) (h_size h) (h_data h) [] (Hsub _ Hb) (Forall_nil _)) as Hc.
  destruct (parse_cells _ _ _ _) as [cells|e|q]; [|discriminate|contradiction].
  cbn [bind].
  destruct (negb (check_refs _ _ _)); [discriminate|].
  destruct (negb (forallb _ _)); discriminate.
Qed.

(** well-formedness of the result *)
Definition node_wf (n i : nat) (c : node) : Prop :=
  (length (n_bits c) <= 1023)%nat /\ (length (n_refs c) <= 4)%nat /\
  Forall (fun r => i < r < n)%nat (n_refs c).

Fixpoint dag_wf_from (n i : nat) (cells : list node) : Prop :=
  match cells with
  | [] => True
  | c :: t => node_wf n i c /\ dag_wf_from n (S i) t
  end.

Definition dag_wf (cells : list node) : Prop := dag_wf_from (length cells) 0 cells.

Lemma check_refs_wf n : forall cells i,
  Forall rnode_ok cells -> check_refs n i cells = true ->
  dag_wf_from (N.to_nat n) (N.to_nat i) (map node_of cells).
Proof.
  induction cells as [|c t IH]; intros i Hok Hchk; [exact I|].
  cbn [check_refs] in Hchk. apply andb_true_iff in Hchk. destruct Hchk as (Hc & Ht).
  inversion Hok as [|? ? Hc1 Ht1]; subst.
  cbn [map dag_wf_from]. split.
  - unfold refs_ok in Hc. apply andb_true_iff in Hc. destruct Hc as (Hl & Hf).
    apply Nat.leb_le in Hl. rewrite forallb_forall in Hf.
    unfold node_wf, node_of; cbn [n_bits n_refs]. rewrite map_length.
    splits; [apply Hc1|exact Hl|].
    apply Forall_forall. intros r Hin. apply in_map_iff in Hin.
    destruct Hin as (x & <- & Hx). apply Hf in Hx.
    apply andb_true_iff in Hx. destruct Hx as (H1 & H2).
    apply N.ltb_lt in H1. apply N.ltb_lt in H2. lia.
  - rewrite <- N2Nat.inj_succ. apply IH; assumption.
Qed.

Theorem parse_sound bs p :
  Forall is_byte bs -> parse_boc bs = Ok p ->
  dag_wf (p_cells p) /\ Forall (fun r => r < length (p_cells p))%nat (p_roots p).
Proof.
  intros Hb. unfold parse_boc.
  pose proof (parse_header_spec bs) as Hh.
  destruct (parse_header bs) as [h|e|q]; [|discriminate|contradiction].
  cbn [bind]. destruct Hh as (Hsub & _).
  pose proof (parse_cells_spec (N.to_nat (h_cells h)) (h_size h) (h_data h) [] (Hsub _ Hb) (Forall_nil _)) as Hc.
  destruct (parse_cells _ _ _ _) as [cells|e|q]; [|discriminate|contradiction].
  cbn [bind]. destruct Hc as (Hok & _).
  destruct (check_refs _ _ _) eqn:Echk; cbn [negb]; [|discriminate].
  destruct (forallb _ (h_rootlist h)) eqn:Er; cbn [negb]; [|discriminate].
  intros H. injection H as <-. cbn [p_cells p_roots].
  split.
  - unfold dag_wf. rewrite map_length.
    pose proof (check_refs_wf _ cells 0%N Hok Echk) as Hw.
    rewrite Nat2N.id in Hw. exact Hw.
  - rewrite map_length. rewrite forallb_forall in Er.
    apply Forall_forall. intros r Hin. apply in_map_iff in Hin.
    destruct Hin as (x & <- & Hx). apply Er in Hx. apply N.ltb_lt in Hx. lia.
Qed.

(** allocation is linear in the input length *)
Theorem parse_alloc_linear bs p :
  parse_boc bs = Ok p -> (p_alloc p <= 640 * N.of_nat (length bs))%N.
Proof.
  unfold parse_boc.
  pose proof (parse_header_spec bs) as Hh.
  destruct (parse_header bs) as [h|e|q]; [|discriminate|contradiction].
  cbn [bind]. unfold header_ok in Hh. cbv zeta in Hh. destruct Hh as (_ & Hc & Hr & Hl & _ & Ha).
  destruct (parse_cells _ _ _ _) as [cells|e|q]; cbn [bind]; try discriminate.
  destruct (negb (check_refs _ _ _)); [discriminate|].
  destruct (negb (forallb _ _)); [discriminate|].
  intros H.
  apply (f_equal (fun r => match r with Ok q => p_alloc q | _ => 0%N end)) in H.
  cbv beta iota in H. fold (p_alloc p) in H. rewrite <- H.
  change (p_alloc (mkparsed ?a ?b ?c)) with c.
  rewrite Ha, Hl. unfold cell_alloc. lia.
Qed.

(** acyclicity: the unfolding of a well-formed array to a tree is total with
    fuel n - i (so hashing, printing and serialising, which recurse over the
    references, terminate) *)
Inductive tree := T (special : bool) (ty mask : N) (b : bits) (refs : list tree).

Fixpoint unfold_at (fuel : nat) (cells : list node) (i : nat) : option tree :=
  match fuel with
  | O => None
  | S f =>
      match nth_error cells i with
      | None => None
      | Some c =>
          let fix go (rs : list nat) : option (list tree) :=
            match rs with
            | [] => Some []
            | r :: t =>
                match unfold_at f cells r, go t with
                | Some x, Some xs => Some (x :: xs)
                | _, _ => None
                end
            end in
          match go (n_refs c) with
          | Some ts => Some (T (n_special c) (n_type c) (n_mask c) (n_bits c) ts)
          | None => None
          end
      end
  end.

Lemma dag_wf_nth n : forall cells base i c,
  dag_wf_from n base cells -> nth_error cells i = Some c -> node_wf n (base + i) c.
Proof.
  induction cells as [|x t IH]; intros base i c Hwf Hn; [destruct i; discriminate|].
  destruct Hwf as (Hx & Ht). destruct i as [|i].
  - injection Hn as <-. rewrite Nat.add_0_r. exact Hx.
  - cbn [nth_error] in Hn. replace (base + S i)%nat with (S base + i)%nat by lia.
    apply (IH _ _ _ Ht Hn).
Qed.

Theorem unfold_total cells :
  dag_wf cells -> forall fuel i, (i < length cells)%nat -> (length cells - i <= fuel)%nat ->
  unfold_at fuel cells i <> None.
Proof.
  intros Hwf. induction fuel as [|f IH]; intros i Hi Hf; [lia|].
  cbn [unfold_at].
  destruct (nth_error cells i) as [c|] eqn:En; [|apply nth_error_None in En; lia].
  pose proof (dag_wf_nth _ _ 0 i c Hwf En) as (_ & _ & Hrefs). cbn [Nat.add] in Hrefs.
  match goal with |- match ?G with _ => _ end <> None => assert (HG : G <> None) end.
  { induction (n_refs c) as [|r t IHt]; [discriminate|].
    inversion Hrefs as [|? ? Hr Ht]; subst.
    specialize (IH r ltac:(lia) ltac:(lia)).
    destruct (unfold_at f cells r); [|contradiction].
    specialize (IHt Ht).
    match goal with |- match ?G with _ => _ end <> None => destruct G; [discriminate|contradiction] end. }
  match goal with |- match ?G with _ => _ end <> None => destruct G; [discriminate|contradiction] end.
Qed.
