(** Shard identifiers: every non-zero uint64 is  q * 2^(t+1) + 2^t  with
    t = trailing zeros; parse/encode, account matching and child/parent
    arithmetic in terms of that shape. *)
From Coq Require Import List NArith ZArith Arith Lia Bool.
From Tongo Require Import Lib.Bits Lib.Res Model.Shard Proofs.Crc16P.
Import ListNotations.
Local Open Scope N_scope.

Definition shape (t q : N) : N := q * 2 ^ (t + 1) + 2 ^ t.

Lemma shard_id_shape l q : l <= 63 -> shard_id l q = shape (63 - l) q.
Proof. intros H. unfold shard_id, shape. replace (64 - l) with (63 - l + 1) by lia. reflexivity. Qed.

(** ** trailing zeros *)
Lemma shape_pos t q : 0 < shape t q.
Proof. unfold shape. pose proof (pow2_pos t). lia. Qed.

Lemma shape_succ t q : shape (N.succ t) q = N.double (shape t q).
Proof.
  unfold shape. rewrite N.double_spec.
  replace (N.succ t + 1) with (N.succ (t + 1)) by lia. rewrite !N.pow_succ_r'. lia.
Qed.

Lemma ctz64_shape t q : ctz64 (shape t q) = t.
Proof.
  induction t as [|t IH] using N.peano_ind.
  - unfold shape. change (2 ^ (0 + 1)) with 2. change (2 ^ 0) with 1.
    destruct q as [|p]; [reflexivity|].
    replace (N.pos p * 2 + 1) with (N.pos p~1) by lia. reflexivity.
  - rewrite shape_succ. pose proof (shape_pos t q) as HP.
    destruct (shape t q) as [|p] eqn:E; [lia|].
    cbn [N.double ctz64 ctz_pos]. cbn [ctz64] in IH. rewrite IH. reflexivity.
Qed.

Lemma shape_exists_pos p : exists t q, N.pos p = shape t q.
Proof.
  induction p as [p IH|p IH|].
  - exists 0, (N.pos p). unfold shape. change (2 ^ (0 + 1)) with 2. change (2 ^ 0) with 1. lia.
  - destruct IH as (t & q & E). exists (N.succ t), q. rewrite shape_succ, <- E. reflexivity.
  - exists 0, 0. reflexivity.
Qed.

Lemma shape_bounds t q : shape t q < 2 ^ 64 -> t <= 63 /\ q < 2 ^ (63 - t).
Proof.
  intros H. unfold shape in H. pose proof (pow2_pos t) as Hp. pose proof (pow2_pos (t + 1)) as Hp1.
  assert (Ht : t < 64).
  { apply (N.pow_lt_mono_r_iff 2); lia. }
  split; [lia|].
  assert (E : 2 ^ 64 = 2 ^ (63 - t) * 2 ^ (t + 1)).
  { rewrite <- N.pow_add_r. f_equal. lia. }
  rewrite E in H. apply (N.mul_lt_mono_pos_r (2 ^ (t + 1))); [exact Hp1|]. lia.
Qed.

Lemma shape_lt t q : t <= 63 -> q < 2 ^ (63 - t) -> shape t q < 2 ^ 64.
Proof.
  intros Ht Hq. unfold shape.
  assert (E : 2 ^ 64 = 2 ^ (63 - t) * 2 ^ (t + 1)).
  { rewrite <- N.pow_add_r. f_equal. lia. }
  rewrite E. rewrite N.add_1_r, N.pow_succ_r'. pose proof (pow2_pos t).
  assert (q + 1 <= 2 ^ (63 - t)) by lia. nia.
Qed.

(* every non-zero uint64 has the shape, with t its number of trailing zeros *)
Lemma shape_exists u : 0 < u -> u < 2 ^ 64 ->
  exists q, u = shape (ctz64 u) q /\ ctz64 u <= 63 /\ q < 2 ^ (63 - ctz64 u).
Proof.
  intros Hp Hlt. destruct u as [|p]; [lia|].
  destruct (shape_exists_pos p) as (t & q & E).
  exists q. rewrite E, ctz64_shape. rewrite E in Hlt. split; [reflexivity|].
  apply shape_bounds. exact Hlt.
Qed.

(** ** bit-level facts about the shape *)
Lemma land_shift_pow q t : N.land (q * 2 ^ (t + 1)) (2 ^ t) = 0.
Proof.
  rewrite <- N.shiftl_mul_pow2. bits_ext n. rewrite N.pow2_bits_eqb.
  destruct (N.eqb_spec t n) as [E|NE].
  - subst n. rewrite N.shiftl_spec_low by lia. reflexivity.
  - apply andb_false_r.
Qed.

Lemma shape_lxor t q : shape t q = N.lxor (q * 2 ^ (t + 1)) (2 ^ t).
Proof. unfold shape. apply N.add_nocarry_lxor, land_shift_pow. Qed.

Lemma shape_clear t q : N.lxor (shape t q) (2 ^ t) = q * 2 ^ (t + 1).
Proof.
  rewrite shape_lxor, N.lxor_assoc, N.lxor_nilpotent, N.lxor_0_r. reflexivity.
Qed.

Lemma shape_lor t q : N.lor (q * 2 ^ (t + 1)) (2 ^ t) = shape t q.
Proof. rewrite shape_lxor. symmetry. apply N.lxor_lor, land_shift_pow. Qed.

Lemma shape_div t q : shape t q / 2 ^ (t + 1) = q.
Proof.
  unfold shape. pose proof (pow2_pos t). pose proof (pow2_pos (t + 1)).
  rewrite N.div_add_l by lia. rewrite N.div_small; [lia|].
  rewrite N.add_1_r, N.pow_succ_r'. lia.
Qed.

Lemma testbit_high a m n : a < 2 ^ m -> m <= n -> N.testbit a n = false.
Proof.
  intros Ha Hmn. destruct (N.eq_dec a 0) as [->|NZ]; [apply N.bits_0|].
  apply N.bits_above_log2.
  assert (N.log2 a < m) by (apply N.log2_lt_pow2; lia). lia.
Qed.

(** ** shifts of the model *)
Lemma shl64_one t : t <= 63 -> shl64 1 t = 2 ^ t.
Proof.
  intros H. unfold shl64. destruct (N.leb_spec 64 t); [lia|].
  rewrite N.shiftl_1_l. apply N.mod_small. unfold M64. apply N.pow_lt_mono_r; lia.
Qed.

Definition mask_of (t : N) : N := shl64 (M64 - 1) (t + 1).

Lemma mask_of_63 : mask_of 63 = 0.
Proof. reflexivity. Qed.

Lemma mask_of_val t : t < 63 -> mask_of t = 2 ^ 64 - 2 ^ (t + 1).
Proof.
  intros H. unfold mask_of, shl64. destruct (N.leb_spec 64 (t + 1)); [lia|].
  rewrite N.shiftl_mul_pow2. unfold M64.
  assert (HP : 2 ^ (t + 1) < 2 ^ 64) by (apply N.pow_lt_mono_r; lia).
  pose proof (pow2_pos (t + 1)) as Hp.
  set (P := 2 ^ (t + 1)) in *.
  replace ((2 ^ 64 - 1) * P) with (2 ^ 64 - P + (P - 1) * 2 ^ 64).
  - rewrite N.mod_add by (apply N.pow_nonzero; lia). apply N.mod_small.
    change (2 ^ 64) with 18446744073709551616 in *. lia.
  - change (2 ^ 64) with 18446744073709551616 in *. lia.
Qed.

Lemma mask_of_shape t : t < 63 -> mask_of t = shape (t + 1) (2 ^ (62 - t) - 1).
Proof.
  intros H. rewrite mask_of_val by exact H. unfold shape.
  pose proof (pow2_pos (62 - t)) as Hp.
  assert (E : 2 ^ 64 = 2 ^ (62 - t) * 2 ^ (t + 1 + 1)).
  { rewrite <- N.pow_add_r. f_equal. lia. }
  rewrite E. rewrite (N.add_1_r (t + 1)), N.pow_succ_r'.
  set (A := 2 ^ (62 - t)) in *. set (B := 2 ^ (t + 1)). pose proof (pow2_pos (t + 1)). fold B in H0.
  rewrite N.mul_sub_distr_r. nia.
Qed.

Lemma ctz64_mask_of t : t <= 63 -> ctz64 (mask_of t) = t + 1.
Proof.
  intros H. destruct (N.eq_dec t 63) as [->|NE]; [reflexivity|].
  rewrite mask_of_shape by lia. apply ctz64_shape.
Qed.

(* and-ing with the mask keeps the bits above position t *)
Lemma land_mask_of a t : a < 2 ^ 64 -> t <= 63 ->
  N.land a (mask_of t) = (a / 2 ^ (t + 1)) * 2 ^ (t + 1).
Proof.
  intros Ha Ht. destruct (N.eq_dec t 63) as [->|NE].
  - rewrite mask_of_63, N.land_0_r. change (63 + 1) with 64. rewrite N.div_small by exact Ha. reflexivity.
  - rewrite mask_of_val by lia.
    assert (E : 2 ^ 64 - 2 ^ (t + 1) = N.shiftl (N.ones (63 - t)) (t + 1)).
    { rewrite N.shiftl_mul_pow2, N.ones_equiv, <- N.sub_1_r, N.mul_sub_distr_r.
      rewrite <- N.pow_add_r. replace (63 - t + (t + 1)) with 64 by lia. lia. }
    rewrite E, <- N.shiftl_mul_pow2, <- N.shiftr_div_pow2.
    bits_ext n. destruct (N.ltb_spec n (t + 1)) as [L|G].
    + rewrite !N.shiftl_spec_low by exact L. apply andb_false_r.
    + rewrite !N.shiftl_spec_high' by exact G. rewrite N.shiftr_spec', N.sub_add by exact G.
      destruct (N.ltb_spec (n - (t + 1)) (63 - t)) as [L2|G2].
      * rewrite N.ones_spec_low by exact L2. apply andb_true_r.
      * rewrite N.ones_spec_high by exact G2. rewrite andb_false_r.
        symmetry. apply (testbit_high a 64); [exact Ha|lia].
Qed.

(** ** ParseShardID / Encode *)
Lemma parse_shard_shape t q : t <= 63 -> q < 2 ^ (63 - t) ->
  parse_shard (shape t q) = Ok {| sh_prefix := q * 2 ^ (t + 1); sh_mask := mask_of t |}.
Proof.
  intros Ht Hq. unfold parse_shard. pose proof (shape_pos t q) as Hp.
  destruct (N.eqb_spec (shape t q) 0); [lia|].
  rewrite ctz64_shape, shl64_one by exact Ht. rewrite shape_clear. reflexivity.
Qed.

Lemma shard_encode_shape t q : t <= 63 ->
  shard_encode {| sh_prefix := q * 2 ^ (t + 1); sh_mask := mask_of t |} = Ok (shape t q).
Proof.
  intros Ht. unfold shard_encode. cbn [sh_prefix sh_mask]. rewrite ctz64_mask_of by exact Ht.
  destruct (N.eqb_spec (t + 1) 0); [lia|].
  replace (t + 1 - 1) with t by lia. rewrite shl64_one by exact Ht. rewrite shape_lor. reflexivity.
Qed.

Lemma shard_parse_encode u : 0 < u -> u < 2 ^ 64 ->
  exists s, parse_shard u = Ok s /\ shard_encode s = Ok u.
Proof.
  intros Hp Hlt. destruct (shape_exists u Hp Hlt) as (q & E & Ht & Hq).
  rewrite E. eexists. split; [apply parse_shard_shape; assumption|].
  apply shard_encode_shape. exact Ht.
Qed.

Lemma parse_shard_zero : parse_shard 0 = Err EOther.
Proof. reflexivity. Qed.

(* the Encode panic (negative shift count) is unreachable from ParseShardID *)
Lemma parse_shard_mask_tz u s : u < 2 ^ 64 -> parse_shard u = Ok s -> 1 <= ctz64 (sh_mask s).
Proof.
  intros Hlt HP. destruct (N.eq_dec u 0) as [->|NZ]; [discriminate|].
  destruct (shape_exists u) as (q & E & Ht & Hq); [lia|exact Hlt|].
  rewrite E, parse_shard_shape in HP by assumption. injection HP as <-.
  cbn [sh_mask]. rewrite ctz64_mask_of by exact Ht. lia.
Qed.

(** ** MatchAccountID *)
Lemma match_shape t q ap : t <= 63 -> q < 2 ^ (63 - t) -> ap < 2 ^ 64 ->
  shard_match_prefix {| sh_prefix := q * 2 ^ (t + 1); sh_mask := mask_of t |} ap = true
  <-> ap / 2 ^ (t + 1) = q.
Proof.
  intros Ht Hq Ha. unfold shard_match_prefix. cbn [sh_prefix sh_mask].
  rewrite land_mask_of by assumption. rewrite N.eqb_eq.
  pose proof (pow2_pos (t + 1)). split; intros H0.
  - apply (N.mul_cancel_r _ _ (2 ^ (t + 1))); [lia|exact H0].
  - rewrite H0. reflexivity.
Qed.

(* the first [l] bits of a 64-bit value *)
Definition top_bits (l : nat) (x : N) : bits := firstn l (bits_of 64 x).

Lemma top_bits_div l x : (l <= 64)%nat ->
  top_bits l x = bits_of l (x / 2 ^ N.of_nat (64 - l)).
Proof.
  intros H. unfold top_bits. replace 64%nat with (l + (64 - l))%nat at 1 by lia.
  rewrite bits_of_app. replace l with (length (bits_of l (x / 2 ^ N.of_nat (64 - l)))) at 1
    by apply bits_of_length.
  apply firstn_app_exact.
Qed.

Lemma bits_of_inj w a b : a < 2 ^ N.of_nat w -> b < 2 ^ N.of_nat w ->
  bits_of w a = bits_of w b -> a = b.
Proof.
  intros Ha Hb E. rewrite <- (N_of_bits_bits_of_small w a Ha), <- (N_of_bits_bits_of_small w b Hb).
  rewrite E. reflexivity.
Qed.

Lemma div_pow_lt x t : x < 2 ^ 64 -> t <= 63 -> x / 2 ^ (t + 1) < 2 ^ (63 - t).
Proof.
  intros Hx Ht. pose proof (pow2_pos (t + 1)).
  apply N.div_lt_upper_bound; [lia|]. rewrite <- N.pow_add_r.
  replace (t + 1 + (63 - t)) with 64 by lia. exact Hx.
Qed.

(** an account matches a shard exactly when the shard's prefix bits are the
    leading bits of the account address *)
Lemma match_account_iff_prefix u s ap :
  0 < u -> u < 2 ^ 64 -> ap < 2 ^ 64 -> parse_shard u = Ok s ->
  let l := N.to_nat (shard_len u) in
  shard_match_prefix s ap = true <-> top_bits l ap = top_bits l u.
Proof.
  intros Hp Hlt Ha HP. cbv zeta.
  destruct (shape_exists u Hp Hlt) as (q & E & Ht & Hq).
  set (t := ctz64 u) in *.
  rewrite E, parse_shard_shape in HP by assumption. injection HP as <-.
  rewrite match_shape by assumption.
  unfold shard_len. fold t.
  assert (HL : (N.to_nat (63 - t) <= 64)%nat) by lia.
  rewrite !top_bits_div by exact HL.
  replace (N.of_nat (64 - N.to_nat (63 - t))) with (t + 1) by lia.
  assert (Hu : u / 2 ^ (t + 1) = q) by (rewrite E; apply shape_div).
  rewrite Hu. split; intros H0.
  - rewrite H0. reflexivity.
  - apply (bits_of_inj (N.to_nat (63 - t))); rewrite ?N2Nat.id; try assumption.
    apply div_pow_lt; assumption.
Qed.

(** ** lowest set bit, children, parent *)
Lemma lowbit64_shape t q : t <= 63 -> q < 2 ^ (63 - t) -> lowbit64 (shape t q) = 2 ^ t.
Proof.
  intros Ht Hq. unfold lowbit64, M64.
  pose proof (shape_lt t q Ht Hq) as Hlt. pose proof (shape_pos t q) as Hp.
  replace (2 ^ 64 - 1 - shape t q + 1) with (2 ^ 64 - shape t q) by lia.
  rewrite N.mod_small by lia.
  (* 2^64 - u has the same shape with the complementary prefix *)
  set (q' := 2 ^ (63 - t) - 1 - q).
  assert (E : 2 ^ 64 - shape t q = shape t q').
  { unfold shape, q'. pose proof (pow2_pos (t + 1)) as Hp1. pose proof (pow2_pos t) as Hp0.
    assert (E64 : 2 ^ 64 = 2 ^ (63 - t) * 2 ^ (t + 1)).
    { rewrite <- N.pow_add_r. f_equal. lia. }
    rewrite E64. rewrite N.add_1_r, N.pow_succ_r'.
    set (A := 2 ^ (63 - t)) in *. set (B := 2 ^ t) in *. nia. }
  rewrite E, !shape_lxor.
  assert (Hqq : N.land q q' = 0).
  { destruct (N.eq_dec q 0) as [->|NZ]; [apply N.land_0_l|].
    assert (HL : N.log2 q < 63 - t) by (apply N.log2_lt_pow2; lia).
    unfold q'. replace (2 ^ (63 - t) - 1) with (N.ones (63 - t)) by (rewrite N.ones_equiv; lia).
    rewrite <- N.lnot_sub_low by exact HL. apply N.land_lnot_diag_low. exact HL. }
  rewrite <- !N.shiftl_mul_pow2.
  bits_ext n. rewrite N.pow2_bits_eqb.
  destruct (N.eqb_spec t n) as [En|NE].
  - subst n. rewrite !N.shiftl_spec_low by lia. reflexivity.
  - rewrite !xorb_false_r, <- N.land_spec, <- N.shiftl_land, Hqq, N.shiftl_0_l. apply N.bits_0.
Qed.

Lemma sub_mod64 u x : x <= u -> u < 2 ^ 64 -> (u + M64 - x) mod M64 = u - x.
Proof.
  intros Hx Hu. unfold M64. replace (u + 2 ^ 64 - x) with (u - x + 1 * 2 ^ 64) by lia.
  rewrite N.mod_add by (apply N.pow_nonzero; lia). apply N.mod_small. lia.
Qed.

Lemma shard_child_shape t q left : 1 <= t -> t <= 63 -> q < 2 ^ (63 - t) ->
  shard_child (shape t q) left = shape (t - 1) (2 * q + (if left then 0 else 1)).
Proof.
  intros H1 Ht Hq. unfold shard_child. rewrite lowbit64_shape by assumption.
  pose proof (shape_lt t q Ht Hq) as Hlt.
  rewrite N.shiftr_div_pow2. change (2 ^ 1) with 2.
  assert (E2 : 2 ^ t = 2 * 2 ^ (t - 1)).
  { rewrite <- N.pow_succ_r'. f_equal. lia. }
  assert (Ex : 2 ^ t / 2 = 2 ^ (t - 1)).
  { rewrite E2, N.mul_comm. apply N.div_mul. lia. }
  rewrite Ex. pose proof (pow2_pos (t - 1)) as Hp.
  assert (Es : forall b, b <= 1 -> shape (t - 1) (2 * q + b) = q * 2 ^ (t + 1) + b * 2 ^ t + 2 ^ (t - 1)).
  { intros b Hb. unfold shape. replace (t - 1 + 1) with t by lia.
    rewrite N.add_1_r, N.pow_succ_r'. nia. }
  destruct left.
  - rewrite sub_mod64; [|unfold shape; lia|exact Hlt].
    rewrite Es by lia. unfold shape. lia.
  - rewrite Es by lia.
    assert (Hs : shape t q + 2 ^ (t - 1) < 2 ^ 64).
    { assert (Hb : shape (t - 1) (2 * q + 1) < 2 ^ 64).
      { apply shape_lt; [lia|]. replace (63 - (t - 1)) with (N.succ (63 - t)) by lia.
        rewrite N.pow_succ_r'. lia. }
      rewrite Es in Hb by lia. unfold shape. lia. }
    rewrite N.mod_small by exact Hs. unfold shape. lia.
Qed.

Lemma lor_one q : N.lor q 1 = 2 * (q / 2) + 1.
Proof.
  destruct q as [|[p|p|]]; try reflexivity.
  - assert (E : N.pos p~1 / 2 = N.pos p) by (symmetry; apply (N.div_unique _ 2 _ 1); lia).
    rewrite E. cbn [N.lor Pos.lor]. lia.
  - assert (E : N.pos p~0 / 2 = N.pos p) by (symmetry; apply (N.div_unique _ 2 _ 0); lia).
    rewrite E. cbn [N.lor Pos.lor]. lia.
Qed.

Lemma shard_parent_shape t q : t <= 62 -> q < 2 ^ (63 - t) ->
  shard_parent (shape t q) = shape (t + 1) (q / 2).
Proof.
  intros Ht Hq. unfold shard_parent. rewrite lowbit64_shape by (try assumption; lia).
  pose proof (shape_lt t q ltac:(lia) Hq) as Hlt.
  rewrite sub_mod64; [|unfold shape; lia|exact Hlt].
  unfold shl64. destruct (N.leb_spec 64 1); [lia|].
  rewrite N.shiftl_mul_pow2. change (2 ^ 1) with 2.
  assert (Hs : 2 ^ t * 2 < M64).
  { unfold M64. rewrite N.mul_comm, <- N.pow_succ_r'. apply N.pow_lt_mono_r; lia. }
  rewrite N.mod_small by exact Hs.
  replace (shape t q - 2 ^ t) with (q * 2 ^ (t + 1)) by (unfold shape; lia).
  replace (2 ^ t * 2) with (1 * 2 ^ (t + 1)) by (rewrite N.add_1_r, N.pow_succ_r'; lia).
  rewrite <- !N.shiftl_mul_pow2, <- N.shiftl_lor, lor_one, N.shiftl_mul_pow2.
  unfold shape. rewrite (N.add_1_r (t + 1)), N.pow_succ_r'. lia.
Qed.

(** ** in terms of (prefix length, prefix value) *)
Lemma shard_child_id l q left : l <= 62 -> q < 2 ^ l ->
  shard_child (shard_id l q) left = shard_id (l + 1) (2 * q + (if left then 0 else 1)).
Proof.
  intros Hl Hq. rewrite !shard_id_shape by lia.
  rewrite shard_child_shape; try lia.
  - f_equal. lia.
  - replace (63 - (63 - l)) with l by lia. exact Hq.
Qed.

Lemma shard_parent_id l q : 1 <= l -> l <= 63 -> q < 2 ^ l ->
  shard_parent (shard_id l q) = shard_id (l - 1) (q / 2).
Proof.
  intros H1 Hl Hq. rewrite !shard_id_shape by lia.
  rewrite shard_parent_shape; try lia.
  - f_equal. lia.
  - replace (63 - (63 - l)) with l by lia. exact Hq.
Qed.

Lemma parent_child l q left : l <= 62 -> q < 2 ^ l ->
  shard_parent (shard_child (shard_id l q) left) = shard_id l q.
Proof.
  intros Hl Hq. rewrite shard_child_id by assumption.
  rewrite shard_parent_id; try lia.
  - replace (l + 1 - 1) with l by lia. f_equal.
    destruct left; symmetry; [apply (N.div_unique _ 2 _ 0); lia|apply (N.div_unique _ 2 _ 1); lia].
  - rewrite N.add_1_r, N.pow_succ_r'. destruct left; lia.
Qed.

Lemma child_parent l q : 1 <= l -> l <= 63 -> q < 2 ^ l ->
  shard_child (shard_parent (shard_id l q)) (N.even q) = shard_id l q.
Proof.
  intros H1 Hl Hq. rewrite shard_parent_id by assumption.
  assert (Hq2 : q / 2 < 2 ^ (l - 1)).
  { apply N.div_lt_upper_bound; [lia|]. rewrite <- N.pow_succ_r'.
    replace (N.succ (l - 1)) with l by lia. exact Hq. }
  rewrite shard_child_id by (try assumption; lia).
  replace (l - 1 + 1) with l by lia. f_equal.
  pose proof (N.div_mod q 2 ltac:(lia)) as HD.
  rewrite <- N.bit0_mod, N.bit0_odd in HD. rewrite <- N.negb_odd.
  destruct (N.odd q); cbn [negb N.b2n] in *; lia.
Qed.

Lemma shard_id_exists u : 0 < u -> u < 2 ^ 64 ->
  exists q, shard_len u <= 63 /\ q < 2 ^ shard_len u /\ u = shard_id (shard_len u) q.
Proof.
  intros Hp Hlt. destruct (shape_exists u Hp Hlt) as (q & E & Ht & Hq).
  exists q. unfold shard_len. split; [lia|]. split; [exact Hq|].
  rewrite shard_id_shape by lia. replace (63 - (63 - ctz64 u)) with (ctz64 u) by lia. exact E.
Qed.

(** ** the account prefix as the leading bits of the address bytes *)
Definition addr_bits (addr : list N) : bits := flat_map (bits_of 8) addr.

Lemma be64_fold l : Forall (fun b => b < 256) l -> forall acc : bits,
  fold_left (fun a b => a * 256 + b) l (N_of_bits acc) = N_of_bits (acc ++ addr_bits l).
Proof.
  unfold addr_bits. induction l as [|b l IH]; intros HF acc; cbn [fold_left flat_map].
  - rewrite app_nil_r. reflexivity.
  - inversion HF as [|? ? Hb HF']; subst.
    rewrite app_assoc, <- IH by exact HF'. f_equal.
    rewrite N_of_bits_app, bits_of_length, N_of_bits_bits_of_small by exact Hb. reflexivity.
Qed.

Lemma addr_bits_length l : length (addr_bits l) = (8 * length l)%nat.
Proof.
  unfold addr_bits. induction l as [|b l IH]; [reflexivity|].
  cbn [flat_map length]. rewrite app_length, bits_of_length, IH. lia.
Qed.

Lemma be64_bits addr : Forall (fun b => b < 256) addr -> (8 <= length addr)%nat ->
  be64 addr < 2 ^ 64 /\ bits_of 64 (be64 addr) = firstn 64 (addr_bits addr).
Proof.
  intros HF HL. unfold be64.
  assert (HF8 : Forall (fun b => b < 256) (firstn 8 addr)).
  { rewrite Forall_forall in *. intros x Hx. apply HF.
    rewrite <- (firstn_skipn 8 addr). apply in_or_app. left. exact Hx. }
  change 0 with (N_of_bits []). rewrite (be64_fold _ HF8 []). cbn [app].
  assert (H64 : length (addr_bits (firstn 8 addr)) = 64%nat).
  { rewrite addr_bits_length, firstn_length. lia. }
  assert (HE : firstn 64 (addr_bits addr) = addr_bits (firstn 8 addr)).
  { rewrite <- (firstn_skipn 8 addr) at 1. unfold addr_bits at 1. rewrite flat_map_app.
    fold (addr_bits (firstn 8 addr)). rewrite <- H64. apply firstn_app_exact. }
  split.
  - pose proof (N_of_bits_bound (addr_bits (firstn 8 addr))) as HB. rewrite H64 in HB. exact HB.
  - rewrite HE. rewrite <- H64 at 1. apply bits_of_N_of_bits.
Qed.

(** MatchAccountID on the address bytes: true exactly when the first
    [shard_len] bits of the address are the shard's prefix bits *)
Lemma match_account_bytes u s addr :
  0 < u -> u < 2 ^ 64 -> parse_shard u = Ok s ->
  Forall (fun b => b < 256) addr -> (8 <= length addr)%nat ->
  let l := N.to_nat (shard_len u) in
  shard_match s addr = true <-> firstn l (addr_bits addr) = top_bits l u.
Proof.
  intros Hp Hlt HP HF HL. cbv zeta. unfold shard_match.
  destruct (be64_bits addr HF HL) as [Hb Hbits].
  rewrite (match_account_iff_prefix u s (be64 addr) Hp Hlt Hb HP). cbv zeta.
  unfold top_bits at 1. rewrite Hbits, firstn_firstn.
  assert (Hl : (N.to_nat (shard_len u) <= 64)%nat) by (unfold shard_len; lia).
  rewrite Nat.min_l by exact Hl. reflexivity.
Qed.
