(** TL-B address form (addr_std with optional anycast) decodes back, the
    anycast rewrite replaces exactly the first [depth] bits, JSON form and
    ParseAccountID on the user-friendly form. *)
From Coq Require Import List NArith ZArith Arith Lia Bool.
From Tongo Require Import Lib.Bits Lib.Res Model.Address Model.Adnl Model.AddressTlb
  Proofs.Crc16P Proofs.Base64P Proofs.AddressP Proofs.AddressRawP Proofs.AdnlP Proofs.ShardP.
Import ListNotations.
Local Open Scope N_scope.

(** ** reading a known prefix *)
Lemma take_app n (a l : bits) : length a = n -> take n (a ++ l) = Ok (a, l).
Proof.
  intros HL. unfold take. rewrite short_spec, app_length, HL.
  destruct (Nat.ltb_spec (n + length l) n) as [H|H]; [lia|].
  rewrite firstn_app_len, skipn_app_len by exact HL. reflexivity.
Qed.

Lemma bytes_bits_length bs : length (bytes_bits bs) = (8 * length bs)%nat.
Proof. apply to_bits_length. Qed.

Lemma bits_bytes_bytes_bits bs : bytes_ok bs -> bits_bytes (length bs) (bytes_bits bs) = bs.
Proof. intros H. apply (from_to_bits 8). exact H. Qed.

(** ** two's complement byte *)
Definition int8_list : list Z := map (fun i => (Z.of_nat i - 128)%Z) (seq 0 256).
Definition int8_check (z : Z) : bool := Z.eqb (int_of_bits (bits_of_int 8 z)) z.

Lemma int8_check_all : forallb int8_check int8_list = true.
Proof. vm_compute. reflexivity. Qed.

Lemma int8_bits_roundtrip wc : (-128 <= wc < 128)%Z -> int_of_bits (bits_of_int 8 wc) = wc.
Proof.
  intros H. pose proof int8_check_all as HA. rewrite forallb_forall in HA.
  apply Z.eqb_eq. apply HA. unfold int8_list. apply in_map_iff.
  exists (Z.to_nat (wc + 128)). split; [lia|]. apply in_seq. lia.
Qed.

Lemma bits_of_int_length w z : length (bits_of_int w z) = w.
Proof. apply bits_of_length. Qed.

(** ** Maybe Anycast *)
Definition any_ok (a : option (N * N)) : Prop :=
  match a with
  | None => True
  | Some (d, p) => 1 <= d <= 31 /\ p < 2 ^ d
  end.

Lemma anycast_roundtrip a rest : any_ok a ->
  exists e, enc_anycast a = Ok e /\ dec_anycast (e ++ rest) = Ok (a, rest) /\ (length e <= 37)%nat.
Proof.
  destruct a as [[d p]|]; cbn [any_ok enc_anycast].
  - intros [Hd Hp].
    destruct (N.ltb_spec 1023 d) as [H|_]; [lia|].
    eexists. split; [reflexivity|].
    assert (Hp64 : p mod 2 ^ 64 = p).
    { apply N.mod_small. eapply N.lt_le_trans; [exact Hp|]. apply N.pow_le_mono_r; lia. }
    rewrite Hp64. split.
    + unfold dec_anycast. cbn [app].
      change (true :: ?x) with ([true] ++ x). rewrite take_app by reflexivity. cbn [bind].
      rewrite <- app_assoc, take_app by apply bits_of_length. cbn [bind].
      rewrite N_of_bits_bits_of_small by (change (2 ^ N.of_nat 5) with 32; lia).
      destruct (N.ltb_spec d 1) as [H|_]; [lia|].
      rewrite take_app by apply bits_of_length. cbn [bind].
      rewrite N_of_bits_bits_of_small by (rewrite N2Nat.id; exact Hp). reflexivity.
    + cbn [length]. rewrite app_length, !bits_of_length. lia.
  - intros _. exists [false]. split; [reflexivity|]. split; [reflexivity|cbn; lia].
Qed.

(** ** addr_std: decode inverts encode, whatever follows in the cell *)
Lemma tlb_std_roundtrip any wc addr rest :
  any_ok any -> (-128 <= wc < 128)%Z -> length addr = 32%nat -> bytes_ok addr ->
  exists e, tlb_encode (MAStd any wc addr) = Ok e /\
            tlb_decode (e ++ rest) = Ok (MAStd any wc addr, rest).
Proof.
  intros Ha Hwc HL Hb.
  destruct (anycast_roundtrip any (bits_of_int 8 wc ++ bytes_bits addr ++ rest) Ha) as (e & He & Hd & Hlen).
  cbn [tlb_encode]. rewrite He. cbn [bind].
  set (r := [true; false] ++ e ++ bits_of_int 8 wc ++ bytes_bits addr).
  assert (Hr : short 1024 r = true).
  { rewrite short_spec. unfold r. rewrite !app_length, bits_of_int_length, bytes_bits_length, HL.
    cbn [length]. apply Nat.ltb_lt. lia. }
  rewrite Hr. exists r. split; [reflexivity|].
  unfold r, tlb_decode. rewrite <- app_assoc, take_app by reflexivity. cbn [bind].
  rewrite <- !app_assoc, Hd. cbn [bind].
  rewrite take_app by apply bits_of_int_length. cbn [bind].
  rewrite take_app by (rewrite bytes_bits_length, HL; reflexivity). cbn [bind].
  rewrite int8_bits_roundtrip by exact Hwc.
  replace 32%nat with (length addr) by exact HL.
  rewrite bits_bytes_bytes_bits by exact Hb. reflexivity.
Qed.

Lemma int8_of_Z_id wc : (-128 <= wc < 128)%Z -> int8_of_Z wc = wc.
Proof. apply int8_wc_byte. Qed.

Definition plain_std_bits (wc : Z) (addr : list N) : bits :=
  [true; false] ++ [false] ++ bits_of_int 8 wc ++ bytes_bits addr.

Lemma plain_std_bits_length wc addr : length addr = 32%nat -> length (plain_std_bits wc addr) = 267%nat.
Proof.
  intros HL. unfold plain_std_bits.
  rewrite !app_length, bits_of_int_length, bytes_bits_length, HL. reflexivity.
Qed.

Lemma tlb_encode_plain wc addr : length addr = 32%nat ->
  tlb_encode (MAStd None wc addr) = Ok (plain_std_bits wc addr).
Proof.
  intros HL. cbn [tlb_encode enc_anycast bind]. fold (plain_std_bits wc addr).
  rewrite short_spec, plain_std_bits_length by exact HL. reflexivity.
Qed.

(* AccountID -> ToMsgAddress -> cell bits -> MsgAddress -> AccountIDFromTlb *)
Lemma tlb_account_roundtrip wc addr rest :
  (-128 <= wc < 128)%Z -> length addr = 32%nat -> bytes_ok addr ->
  exists e, tlb_encode (to_msg_address wc addr) = Ok e /\ length e = 267%nat /\
            account_from_tlb_bits (e ++ rest) = Ok (Some (wc, addr)).
Proof.
  intros Hwc HL Hb. unfold to_msg_address. rewrite int8_of_Z_id by exact Hwc.
  destruct (tlb_std_roundtrip None wc addr rest I Hwc HL Hb) as (e & He & Hd).
  exists e. split; [exact He|].
  rewrite tlb_encode_plain in He by exact HL.
  assert (Ee : e = plain_std_bits wc addr) by congruence.
  split.
  - rewrite Ee. apply plain_std_bits_length. exact HL.
  - unfold account_from_tlb_bits. rewrite Hd. reflexivity.
Qed.

Lemma account_from_tlb_plain wc addr :
  account_from_tlb (to_msg_address wc addr) = Ok (Some (int8_of_Z wc, addr)).
Proof. reflexivity. Qed.

(** ** anycast rewrite *)
Lemma be32_bits addr : bytes_ok addr -> (4 <= length addr)%nat ->
  be32 addr < 2 ^ 32 /\ bits_of 32 (be32 addr) = firstn 32 (bytes_bits addr).
Proof.
  intros HF HL. unfold be32.
  assert (HF4 : bytes_ok (firstn 4 addr)).
  { unfold bytes_ok in *. rewrite Forall_forall in *. intros x Hx. apply HF.
    rewrite <- (firstn_skipn 4 addr). apply in_or_app. left. exact Hx. }
  change 0 with (N_of_bits []). rewrite (ShardP.be64_fold _ HF4 []). cbn [app].
  change (ShardP.addr_bits (firstn 4 addr)) with (bytes_bits (firstn 4 addr)).
  assert (H32 : length (bytes_bits (firstn 4 addr)) = 32%nat).
  { rewrite bytes_bits_length, firstn_length. lia. }
  assert (HE : firstn 32 (bytes_bits addr) = bytes_bits (firstn 4 addr)).
  { rewrite <- (firstn_skipn 4 addr) at 1. unfold bytes_bits, to_bits at 1. rewrite flat_map_app.
    apply firstn_app_len. exact H32. }
  split.
  - pose proof (N_of_bits_bound (bytes_bits (firstn 4 addr))) as HB. rewrite H32 in HB. exact HB.
  - rewrite HE. rewrite <- H32 at 1. apply bits_of_N_of_bits.
Qed.

Lemma be32_bytes_bits v : bytes_bits (be32_bytes v) = bits_of 32 v.
Proof.
  unfold be32_bytes, bytes_bits, to_bits. cbn [flat_map]. rewrite app_nil_r.
  change 32%nat with (8 + (8 + (8 + 8)))%nat.
  rewrite (bits_of_app 8), (bits_of_app 8 (8 + 8)), (bits_of_app 8 8).
  change (2 ^ N.of_nat (8 + (8 + 8))) with 16777216.
  change (2 ^ N.of_nat (8 + 8)) with 65536. change (2 ^ N.of_nat 8) with 256.
  rewrite <- (bits_of_mod 8 (v / 65536)), <- (bits_of_mod 8 (v / 256)), <- (bits_of_mod 8 v).
  rewrite <- (bits_of_mod 8 (v / 16777216)).
  change (2 ^ N.of_nat 8) with 256. reflexivity.
Qed.

Lemma land_shiftl_low p k a : a < 2 ^ k -> N.land a (N.shiftl p k) = 0.
Proof.
  intros Ha. apply N.bits_inj_iff. intros n. rewrite N.land_spec, N.bits_0.
  destruct (N.lt_ge_cases n k) as [H|H].
  - rewrite N.shiftl_spec_low by exact H. apply andb_false_r.
  - rewrite (ShardP.testbit_high a k n Ha H). reflexivity.
Qed.

Lemma lor_disjoint_add p k a : a < 2 ^ k -> N.lor a (N.shiftl p k) = p * 2 ^ k + a.
Proof.
  intros Ha. rewrite <- N.lxor_lor by (apply land_shiftl_low; exact Ha).
  rewrite <- N.add_nocarry_lxor by (apply land_shiftl_low; exact Ha).
  rewrite N.shiftl_mul_pow2. lia.
Qed.

(* the value of the rewritten 32-bit prefix *)
Lemma anycast_word d p x :
  1 <= d <= 32 -> p < 2 ^ d -> x < 2 ^ 32 ->
  let k := 32 - d in
  let sh := sub32 32 (d mod M32) in
  N.lor (N.land x (sub32 (shl32 1 sh) 1)) (shl32 (p mod M32) sh) = p * 2 ^ k + x mod 2 ^ k.
Proof.
  intros Hd Hp Hx k sh.
  assert (HM : M32 = 4294967296) by reflexivity.
  assert (Hsh : sh = k).
  { unfold sh, sub32. rewrite (N.mod_small d) by lia.
    replace (32 + M32 - d) with (k + 1 * M32) by (unfold k; lia).
    rewrite N.mod_add by lia. apply N.mod_small. unfold k. lia. }
  rewrite Hsh.
  assert (Hk : k < 32) by (unfold k; lia).
  assert (H2k : 2 ^ k < M32).
  { change M32 with (2 ^ 32). apply N.pow_lt_mono_r; lia. }
  assert (H2k0 : 0 < 2 ^ k) by apply pow2_pos.
  assert (Hone : shl32 1 k = 2 ^ k).
  { unfold shl32. destruct (N.leb_spec 32 k); [lia|].
    rewrite N.shiftl_1_l. apply N.mod_small. exact H2k. }
  assert (Hmask : sub32 (shl32 1 k) 1 = N.ones k).
  { rewrite Hone. unfold sub32. rewrite N.ones_equiv.
    replace (2 ^ k + M32 - 1) with (N.pred (2 ^ k) + 1 * M32) by lia.
    rewrite N.mod_add by lia. apply N.mod_small. lia. }
  assert (Hpk : p * 2 ^ k < M32).
  { change M32 with (2 ^ 32). replace 32 with (d + k) by (unfold k; lia).
    rewrite N.pow_add_r. apply N.mul_lt_mono_pos_r; [exact H2k0|exact Hp]. }
  assert (Hrw : shl32 (p mod M32) k = N.shiftl p k).
  { unfold shl32. destruct (N.leb_spec 32 k); [lia|].
    rewrite (N.mod_small p).
    - rewrite N.shiftl_mul_pow2. apply N.mod_small. exact Hpk.
    - eapply N.le_lt_trans; [|exact Hpk]. nia. }
  rewrite Hmask, Hrw, N.land_ones.
  apply lor_disjoint_add. apply N.mod_lt. lia.
Qed.

Lemma skipn_firstn_split {A} d n (l : list A) : (d <= n)%nat ->
  skipn d l = skipn d (firstn n l) ++ skipn n l.
Proof.
  intros H. destruct (Nat.le_gt_cases n (length l)) as [Hl|Hl].
  - rewrite <- (firstn_skipn n l) at 1. rewrite skipn_app, firstn_length, Nat.min_l by exact Hl.
    replace (d - n)%nat with 0%nat by lia. reflexivity.
  - rewrite firstn_all2, (skipn_all2 (n := n)) by lia. rewrite app_nil_r. reflexivity.
Qed.

Lemma anycast_rewrite_spec d p addr :
  1 <= d <= 32 -> p < 2 ^ d -> length addr = 32%nat -> bytes_ok addr ->
  bytes_bits (anycast_rewrite d p addr)
  = bits_of (N.to_nat d) p ++ skipn (N.to_nat d) (bytes_bits addr).
Proof.
  intros Hd Hp HL Hb.
  destruct (be32_bits addr Hb ltac:(lia)) as [Hx Hxb].
  unfold anycast_rewrite. cbv zeta.
  rewrite (anycast_word d p (be32 addr) Hd Hp Hx). cbv zeta.
  set (k := 32 - d). set (x := be32 addr) in *.
  set (v := p * 2 ^ k + x mod 2 ^ k).
  unfold bytes_bits at 1. unfold to_bits. rewrite flat_map_app.
  fold (to_bits 8 (be32_bytes v)). fold (bytes_bits (be32_bytes v)).
  fold (to_bits 8 (skipn 4 addr)). fold (bytes_bits (skipn 4 addr)).
  rewrite be32_bytes_bits.
  assert (Hdk : 32%nat = (N.to_nat d + N.to_nat k)%nat) by (unfold k; lia).
  assert (Hkk : N.of_nat (N.to_nat k) = k) by apply N2Nat.id.
  assert (H2k0 : 0 < 2 ^ k) by apply pow2_pos.
  (* the new word *)
  assert (Hv : bits_of 32 v = bits_of (N.to_nat d) p ++ bits_of (N.to_nat k) x).
  { rewrite Hdk, bits_of_app, Hkk. f_equal.
    - f_equal. unfold v. rewrite N.div_add_l by lia.
      rewrite N.div_small by (apply N.mod_lt; lia). lia.
    - rewrite <- (bits_of_mod _ v), <- (bits_of_mod _ x), Hkk. f_equal.
      unfold v. rewrite N.add_comm, N.mod_add by lia. apply N.mod_mod. lia. }
  (* the old word *)
  assert (Hold : skipn (N.to_nat d) (bits_of 32 x) = bits_of (N.to_nat k) x).
  { rewrite Hdk, bits_of_app. apply skipn_app_len. apply bits_of_length. }
  assert (Hrest : skipn 32 (bytes_bits addr) = bytes_bits (skipn 4 addr)).
  { rewrite <- (firstn_skipn 4 addr) at 1. unfold bytes_bits, to_bits at 1. rewrite flat_map_app.
    apply skipn_app_len. fold (to_bits 8 (firstn 4 addr)).
    rewrite to_bits_length, firstn_length. lia. }
  rewrite Hv, <- app_assoc. f_equal.
  rewrite (skipn_firstn_split (N.to_nat d) 32) by lia.
  rewrite <- Hxb, Hold, Hrest. reflexivity.
Qed.

Lemma anycast_rewrite_length d p addr : length addr = 32%nat ->
  length (anycast_rewrite d p addr) = 32%nat.
Proof.
  intros HL. unfold anycast_rewrite. cbv zeta. rewrite app_length, skipn_length, HL. reflexivity.
Qed.

(* depth 0 and depths above 32 (not decodable, but constructible) leave the address alone
   only when the shifts vanish; stated for the record on depth 0 *)
Lemma account_from_tlb_anycast d p wc addr :
  account_from_tlb (MAStd (Some (d, p)) wc addr) = Ok (Some (wc, anycast_rewrite d p addr)).
Proof. reflexivity. Qed.

Lemma anycast_rewrite_full d p wc addr :
  1 <= d <= 32 -> p < 2 ^ d -> length addr = 32%nat -> bytes_ok addr ->
  exists addr',
    account_from_tlb (MAStd (Some (d, p)) wc addr) = Ok (Some (wc, addr')) /\
    length addr' = 32%nat /\
    bytes_bits addr' = bits_of (N.to_nat d) p ++ skipn (N.to_nat d) (bytes_bits addr).
Proof.
  intros Hd Hp HL Hb. exists (anycast_rewrite d p addr).
  split; [exact (account_from_tlb_anycast d p wc addr)|].
  split; [exact (anycast_rewrite_length d p addr HL)|exact (anycast_rewrite_spec d p addr Hd Hp HL Hb)].
Qed.

(** ** JSON *)
Definition plain (c : N) : Prop := 32 <= c /\ c <> 34 /\ c <> 92.

Lemma json_str_body_app s r : Forall plain s -> json_str_body (s ++ 34 :: r) = Some (s, r).
Proof.
  induction s as [|c s IH]; intros HF; cbn [app json_str_body].
  - reflexivity.
  - inversion HF as [|? ? (H1 & H2 & H3) HF']; subst.
    destruct (N.eqb_spec c 34); [contradiction|].
    destruct (N.eqb_spec c 92); [contradiction|].
    destruct (N.ltb_spec c 32); [lia|]. cbn [orb].
    rewrite IH by exact HF'. reflexivity.
Qed.

Lemma hex_lower_plain d : d < 16 -> plain (hex_lower d).
Proof. intros H. unfold hex_lower, plain. destruct (N.ltb_spec d 10); lia. Qed.

Lemma print_raw_plain wc addr : bytes_ok addr -> Forall plain (print_raw wc addr).
Proof.
  intros Hb. unfold print_raw. apply Forall_app. split.
  - assert (G : forall n, Forall plain (dec_N n)).
    { intros n. eapply Forall_impl; [|apply dec_N_digits]. unfold is_digit, plain. intros; lia. }
    unfold dec_Z. destruct wc; try apply G. constructor; [unfold plain; lia|apply G].
  - constructor; [unfold plain; lia|].
    induction addr as [|b a IH]; cbn [flat_map]; [constructor|].
    inversion Hb as [|? ? Hb0 Hb']; subst.
    cbn [hex_byte app]. constructor; [|constructor; [|apply IH; exact Hb']].
    + apply hex_lower_plain. apply N.div_lt_upper_bound; lia.
    + apply hex_lower_plain. apply N.mod_lt. lia.
Qed.

Lemma json_roundtrip wc addr :
  (- 2 ^ 31 <= wc < 2 ^ 31)%Z -> length addr = 32%nat -> bytes_ok addr ->
  json_unmarshal (json_marshal wc addr) = Ok (wc, addr).
Proof.
  intros Hwc HL Hb. unfold json_unmarshal, json_marshal. cbn [drop_ws is_ws N.eqb orb Pos.eqb].
  rewrite json_str_body_app by (apply print_raw_plain; exact Hb).
  cbn [drop_ws]. apply parse_account_raw; assumption.
Qed.

(** ** ParseAccountID on the user-friendly form (the raw attempt fails: no colon) *)
Lemma b64_char_no_colon url d : b64_char url d <> 58.
Proof.
  unfold b64_char.
  destruct (N.ltb_spec d 26); [lia|]. destruct (N.ltb_spec d 52); [lia|].
  destruct (N.ltb_spec d 62); [lia|]. destruct (d =? 62); destruct url; lia.
Qed.

Lemma split_colon_none cs : Forall (fun c => c <> 58) cs -> split_colon cs = None.
Proof.
  induction cs as [|c cs IH]; intros HF; cbn [split_colon]; [reflexivity|].
  inversion HF as [|? ? Hc HF']; subst.
  destruct (N.eqb_spec c 58); [contradiction|]. rewrite IH by exact HF'. reflexivity.
Qed.

Lemma parse_account_human tab url b t wc addr :
  tab = crc16_table_ref -> length addr = 32%nat -> bytes_ok addr -> (-128 <= wc < 128)%Z ->
  parse_account (print_human tab url b t wc addr) = Ok (wc, addr).
Proof.
  intros Ht HL Hb Hwc. unfold parse_account.
  assert (HR : parse_raw (print_human tab url b t wc addr) = Err EOther).
  { unfold parse_raw. rewrite split_colon_none; [reflexivity|].
    unfold print_human. apply Forall_forall. intros c Hc. apply in_map_iff in Hc.
    destruct Hc as (d & <- & _). apply b64_char_no_colon. }
  rewrite HR, human_roundtrip by assumption. reflexivity.
Qed.

(* JSON string holding the user-friendly form *)
Lemma b64_char_plain url d : plain (b64_char url d).
Proof.
  unfold b64_char, plain.
  destruct (N.ltb_spec d 26); [lia|]. destruct (N.ltb_spec d 52); [lia|].
  destruct (N.ltb_spec d 62); [lia|]. destruct (d =? 62); destruct url; lia.
Qed.

Lemma json_human_roundtrip tab url b t wc addr :
  tab = crc16_table_ref -> length addr = 32%nat -> bytes_ok addr -> (-128 <= wc < 128)%Z ->
  json_unmarshal (34 :: print_human tab url b t wc addr ++ [34]) = Ok (wc, addr).
Proof.
  intros Ht HL Hb Hwc. unfold json_unmarshal. cbn [drop_ws is_ws N.eqb orb Pos.eqb].
  rewrite json_str_body_app.
  - cbn [drop_ws]. apply parse_account_human; assumption.
  - unfold print_human. apply Forall_forall. intros c Hc. apply in_map_iff in Hc.
    destruct Hc as (d & <- & _). apply b64_char_plain.
Qed.

(** ** ParseAccountID also rejects every single-digit substitution: the
       replacing character is a base64 digit, hence not a colon, so the raw
       attempt fails as well *)
Lemma Forall_set_nth {A} (P : A -> Prop) x l : forall i, Forall P l -> P x -> Forall P (set_nth i x l).
Proof.
  induction l as [|y l IH]; intros i HF Hx; destruct i; cbn [set_nth]; try exact HF.
  - inversion HF; subst. constructor; assumption.
  - inversion HF; subst. constructor; [assumption|]. apply IH; assumption.
Qed.

Lemma single_char_rejected_parse_account tab url b t wc addr i c' d' :
  tab = crc16_table_ref -> length addr = 32%nat -> bytes_ok addr -> (i < 48)%nat ->
  b64_digit true (plus_slash c') = Some d' ->
  d' <> nth i (human_digits tab b t wc addr) 0 ->
  parse_account (set_nth i c' (print_human tab url b t wc addr)) = Err EOther.
Proof.
  intros Ht HL Hb Hi Hd Hne. unfold parse_account.
  assert (Hc : c' <> 58).
  { intros ->. vm_compute in Hd. discriminate. }
  assert (HR : parse_raw (set_nth i c' (print_human tab url b t wc addr)) = Err EOther).
  { unfold parse_raw. rewrite split_colon_none; [reflexivity|].
    apply Forall_set_nth; [|exact Hc].
    unfold print_human. apply Forall_forall. intros c Hin. apply in_map_iff in Hin.
    destruct Hin as (d & <- & _). apply b64_char_no_colon. }
  rewrite HR.
  rewrite (single_char_rejected tab url b t wc addr i c' Ht HL Hb Hi); [reflexivity|].
  rewrite Hd. intros E. injection E as E. contradiction.
Qed.
