(** C11 proofs, part 6: a session lives as long as packets flow (only a
    silence of reconnectTimeout or an error of the transport ends it), and the
    application's channel is the same across sessions. *)
From Coq Require Import List NArith Bool Lia Arith.
From Tongo Require Import Spec.AdnlSpec Model.AdnlT.
Import ListNotations.
Local Open Scope N_scope.

Definition gap_of (a : arrival) : N := match a with APacket g _ => g | AClosed g => g end.
Definition is_closed (a : arrival) : bool := match a with AClosed _ => true | _ => false end.

(* no silence of 10 s and no transport error: the reader is still running and
   has delivered every data packet, in order - however long the session lasts *)
Theorem session_continues evs : forall elapsed,
  Forall (fun a => gap_of a < reconnect_timeout_ms /\ is_closed a = false) evs ->
  reader_run false elapsed evs = (data_packets evs, SRunning).
Proof.
  induction evs as [|a t IH]; intros el F; [reflexivity|].
  inversion F as [|x l [G C] Ft]; subst. destruct a as [g p|g]; [|discriminate].
  cbn [reader_run data_packets flat_map gap_of] in *.
  rewrite (proj2 (N.leb_gt reconnect_timeout_ms g) G), (IH (el + g) Ft).
  fold (data_packets t). destruct (is_control p); reflexivity.
Qed.

(* the reader ends only at a silence (STimeout) or at a close (SClosed) *)
Theorem session_end_cause evs : forall elapsed ps e,
  reader_run false elapsed evs = (ps, e) -> e <> SRunning ->
  exists a, In a evs /\
    ((e = STimeout /\ reconnect_timeout_ms <= gap_of a) \/ (e = SClosed /\ is_closed a = true)).
Proof.
  induction evs as [|a t IH]; intros el ps e R NR.
  - cbn in R. injection R as _ <-. congruence.
  - destruct a as [g p|g]; cbn [reader_run] in R.
    + destruct (N.leb_spec reconnect_timeout_ms g) as [G|G].
      * injection R as _ <-. exists (APacket g p). split; [left; reflexivity|]. left. auto.
      * destruct (reader_run false (el + g) t) as [ps' e'] eqn:R'. injection R as _ <-.
        destruct (IH (el + g) ps' e' R' NR) as [a [I C]]. exists a. split; [right; exact I|exact C].
    + exists (AClosed g). split; [left; reflexivity|].
      destruct (N.leb_spec reconnect_timeout_ms g) as [G|G]; injection R as _ <-; [left|right]; auto.
Qed.

(* the packets a reader delivers are always a prefix of the session's data packets *)
Lemma reader_prefix st evs : forall elapsed,
  exists rest, data_packets evs = fst (reader_run st elapsed evs) ++ rest.
Proof.
  induction evs as [|a t IH]; intros el; [exists []; reflexivity|].
  destruct a as [g p|g]; cbn [reader_run data_packets flat_map].
  - fold (data_packets t).
    destruct (if st then _ else _).
    + eexists. reflexivity.
    + destruct (IH (el + g)) as [rest E]. destruct (reader_run st (el + g) t) as [ps e].
      cbn [fst] in *. rewrite E. destruct (is_control p); eexists; cbn; reflexivity.
  - fold (data_packets t). destruct (if st then _ else _); eexists; reflexivity.
Qed.

(* one channel for the lifetime of the Connection: whatever any session's
   reader delivers reaches the application that called Responses() once *)
Theorem responses_same_channel st sessions : forall k,
  app_received (conn_run st false k sessions) =
  flat_map (fun evs => fst (reader_run st 0 evs)) sessions.
Proof.
  induction sessions as [|evs t IH]; intros k; [reflexivity|].
  cbn [conn_run flat_map]. unfold app_received in *.
  rewrite filter_app, map_app, (IH (S k)). f_equal.
  induction (fst (reader_run st 0 evs)) as [|p ps IHp]; [reflexivity|].
  cbn. f_equal. exact IHp.
Qed.

(* a session whose transport closes (no 10 s silence before): everything that
   arrived before is delivered, then the reader stops with SClosed *)
Theorem reader_until_closed pre g rest : forall elapsed,
  Forall (fun a => gap_of a < reconnect_timeout_ms /\ is_closed a = false) pre ->
  g < reconnect_timeout_ms ->
  reader_run false elapsed (pre ++ AClosed g :: rest) = (data_packets pre, SClosed).
Proof.
  induction pre as [|a t IH]; intros el F G.
  - cbn. rewrite (proj2 (N.leb_gt reconnect_timeout_ms g) G). reflexivity.
  - inversion F as [|x l [Ga C] Ft]; subst. destruct a as [ga p|ga]; [|discriminate].
    cbn [app reader_run data_packets flat_map gap_of] in *.
    rewrite (proj2 (N.leb_gt reconnect_timeout_ms ga) Ga), (IH (el + ga) Ft G).
    fold (data_packets t). destruct (is_control p); reflexivity.
Qed.

(* the reader's own packets: a payload that starts with the tcp.pong magic is
   consumed exactly when it is the 12-byte tcp.pong; every other length is data *)
Theorem pong_magic_consumed_iff p :
  magic_type p = magic_tcp_pong -> (is_control p = true <-> len p = 12).
Proof.
  intros M. unfold is_control. rewrite M, N.eqb_refl.
  change (magic_tcp_pong =? magic_tcp_auth_nonce) with false. rewrite orb_false_r. cbn [andb].
  apply N.eqb_eq.
Qed.

Theorem data_packet_delivered p g t elapsed :
  is_control p = false -> g < reconnect_timeout_ms ->
  fst (reader_run false elapsed (APacket g p :: t)) = p :: fst (reader_run false (elapsed + g) t).
Proof.
  intros C G. cbn [reader_run]. rewrite (proj2 (N.leb_gt reconnect_timeout_ms g) G), C.
  destruct (reader_run false (elapsed + g) t). reflexivity.
Qed.
