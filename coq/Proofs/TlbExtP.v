(** Laws of the extension layer (Model/TlbExt.v): snake data chains, length-
    prefixed bytes, and the combinators over them.  Same architecture as
    Proofs/TlbCoreP.v: the encoder equals the declarative serialisation
    (which here depends on the number of bits already in the cell), and the
    decoder inverts it. *)
From Coq Require Import List NArith ZArith Arith Lia Bool.
From Tongo Require Import Lib.Bits Lib.Res Proofs.BitStringW Proofs.BitStringR Model.TlbCore Proofs.TlbCoreP Model.TlbExt.
Import ListNotations.

(** *** snake chains *)
Lemma snake_read_chain : forall n l, (length l <= n)%nat -> snake_read (snake_chain n l) = l.
Proof.
  induction n as [|n IH]; intros l Hl.
  - destruct l; [reflexivity|cbn in Hl; lia].
  - cbn [snake_chain]. destruct (Nat.leb_spec (length l) 1023) as [Hs|Hb]; [reflexivity|].
    cbn [snake_read]. rewrite IH; [apply firstn_skipn|]. rewrite skipn_length. lia.
Qed.

Lemma snake_spec_read u l :
  let '(bs, rs) := snake_spec u l in
  match rs with [] => bs | c :: _ => bs ++ snake_read c end = l.
Proof.
  unfold snake_spec. destruct (Nat.leb_spec (length l) (1023 - u)); [reflexivity|].
  rewrite snake_read_chain; [apply firstn_skipn|]. rewrite skipn_length. lia.
Qed.

Lemma snake_spec_refs u l : length (snd (snake_spec u l)) <= 1.
Proof. unfold snake_spec. destruct (length l <=? 1023 - u)%nat; cbn; lia. Qed.

Lemma put_bits_len l b b1 : put_bits l b = Ok b1 -> length (bb b1) = (length (bb b) + length l)%nat.
Proof. intros H. apply put_bits_ok in H. destruct H as (H & _). rewrite H, app_length. reflexivity. Qed.

Ltac bind_ok H :=
  match type of H with
  | bind ?X _ = Ok _ =>
      let x := fresh "x" in let E := fresh "E" in
      destruct X as [x|?|?] eqn:E; cbn [bind] in H; [|discriminate H|discriminate H]
  end.

Lemma put_snake_ok l b b' :
  put_snake l b = Ok b' ->
  extends b b' (fst (snake_spec (length (bb b)) l)) (snd (snake_spec (length (bb b)) l)).
Proof.
  unfold put_snake. destruct (snake_spec (length (bb b)) l) as [bs rs] eqn:Es. intros H.
  bind_ok H. cbn [fst snd].
  pose proof (snake_spec_refs (length (bb b)) l) as Hr. rewrite Es in Hr. cbn [snd] in Hr.
  destruct rs as [|c [|c2 rs]]; [| |cbn in Hr; lia].
  - injection H as <-. apply extends_bits. exact E.
  - rewrite <- (app_nil_r bs), <- (app_nil_l [c]).
    eapply extends_trans; [apply extends_bits; exact E|apply extends_ref; exact H].
Qed.

Lemma get_snake_spec u l :
  get_snake (mks (fst (snake_spec u l) ++ []) (snd (snake_spec u l) ++ [])) = Ok (VBits l, mks [] []).
Proof.
  pose proof (snake_spec_read u l) as Hrd. pose proof (snake_spec_refs u l) as Hr.
  destruct (snake_spec u l) as [bs rs]. cbn [fst snd] in *. rewrite !app_nil_r.
  unfold get_snake. cbn [sr sb].
  destruct rs as [|c [|c2 rs]]; [| |cbn in Hr; lia]; rewrite Hrd; reflexivity.
Qed.

(** *** (1) encoder = declarative serialisation at the builder's fill level *)
Theorem xenc_is_spec : forall fuel t v b b',
  xenc fuel t v b = Ok b' ->
  exists bs rs, xspec fuel t v (length (bb b)) = Some (bs, rs) /\ extends b b' bs rs.
Proof.
  induction fuel as [|f IH]; intros t v b b' He; [discriminate|].
  destruct t; cbn [xenc xspec] in *.
  - (* XBase *) exact (enc_is_spec [] _ _ _ _ _ He).
  - (* XSnake *) destruct v; try discriminate.
    pose proof (put_snake_ok _ _ _ He) as Hx.
    destruct (snake_spec (length (bb b)) l) as [bs rs]. eauto.
  - (* XLenBytes *) destruct v; try discriminate.
    destruct (negb (length l mod 8 =? 0)%nat); [discriminate|].
    bind_ok He. do 2 eexists. split; [reflexivity|].
    rewrite <- (app_nil_r []). eapply extends_trans; eapply extends_bits; eassumption.
  - (* XMaybe *) destruct v; try discriminate.
    match goal with o : option value |- _ => destruct o as [y|] end; [|eauto using extends_bits].
    bind_ok He. destruct (IH _ _ _ _ He) as (bs & rs & Hs & Hx).
    rewrite (put_bits_len _ _ _ E), Nat.add_1_r in Hs. rewrite Hs.
    do 2 eexists. split; [reflexivity|].
    change (true :: bs) with ([true] ++ bs). rewrite <- (app_nil_l rs).
    eapply extends_trans; [eapply extends_bits; eassumption|exact Hx].
  - (* XEither *) destruct v; try discriminate.
    match goal with r : bool |- _ => destruct r end; bind_ok He;
      destruct (IH _ _ _ _ He) as (bs & rs & Hs & Hx);
      rewrite (put_bits_len _ _ _ E), Nat.add_1_r in Hs; rewrite Hs;
      do 2 eexists; (split; [reflexivity|]);
      [change (true :: bs) with ([true] ++ bs)|change (false :: bs) with ([false] ++ bs)];
      rewrite <- (app_nil_l rs);
      (eapply extends_trans; [eapply extends_bits; eassumption|exact Hx]).
  - (* XEitherRef *) destruct v; try discriminate.
    match goal with r : bool |- _ => destruct r end.
    + bind_ok He. bind_ok He.
      destruct (IH _ _ _ _ E0) as (bs & rs & Hs & Hx). cbn [empty_bld bb length] in Hs. rewrite Hs.
      do 2 eexists. split; [reflexivity|].
      rewrite <- (extends_empty _ _ _ Hx).
      rewrite <- (app_nil_r [true]), <- (app_nil_l [finish x0]).
      eapply extends_trans; [eapply extends_bits; eassumption|eapply extends_ref; eassumption].
    + bind_ok He. destruct (IH _ _ _ _ He) as (bs & rs & Hs & Hx).
      rewrite (put_bits_len _ _ _ E), Nat.add_1_r in Hs. rewrite Hs.
      do 2 eexists. split; [reflexivity|].
      change (false :: bs) with ([false] ++ bs). rewrite <- (app_nil_l rs).
      eapply extends_trans; [eapply extends_bits; eassumption|exact Hx].
  - (* XRef *) bind_ok He.
    destruct (IH _ _ _ _ E) as (bs & rs & Hs & Hx). cbn [empty_bld bb length] in Hs. rewrite Hs.
    do 2 eexists. split; [reflexivity|].
    rewrite <- (extends_empty _ _ _ Hx). eapply extends_ref; eassumption.
  - (* XMaybeRef *) destruct v; try discriminate.
    match goal with o : option value |- _ => destruct o as [y|] end; [|eauto using extends_bits].
    bind_ok He. bind_ok He.
    destruct (IH _ _ _ _ E0) as (bs & rs & Hs & Hx). cbn [empty_bld bb length] in Hs. rewrite Hs.
    do 2 eexists. split; [reflexivity|].
    rewrite <- (extends_empty _ _ _ Hx).
    rewrite <- (app_nil_r [true]), <- (app_nil_l [finish x0]).
    eapply extends_trans; [eapply extends_bits; eassumption|eapply extends_ref; eassumption].
  - (* XStruct *) destruct v; try discriminate.
    revert vs b He. induction fs as [|t1 ft IHf]; intros vs b He; destruct vs as [|v1 vt]; try discriminate.
    + injection He as <-. do 2 eexists. split; [reflexivity|apply extends_refl].
    + bind_ok He. destruct (IH _ _ _ _ E) as (b1 & r1 & Hs1 & H1). rewrite Hs1.
      destruct (IHf _ _ He) as (b2 & r2 & Hs2 & H2).
      assert (Hl : length (bb x) = (length (bb b) + length b1)%nat).
      { destruct H1 as (H1 & _). rewrite H1, app_length. reflexivity. }
      rewrite Hl in Hs2. rewrite Hs2.
      do 2 eexists. split; [reflexivity|]. eapply extends_trans; eassumption.
  - (* XSum *) destruct v; try discriminate.
    destruct (nth_error alts k) as [[[len val] t']|]; [|discriminate].
    bind_ok He. destruct (IH _ _ _ _ He) as (bs & rs & Hs & Hx).
    rewrite (put_bits_len _ _ _ E), bits_of_length in Hs. rewrite Hs.
    do 2 eexists. split; [reflexivity|].
    rewrite <- (app_nil_l rs).
    eapply extends_trans; [eapply extends_bits; eassumption|exact Hx].
Qed.
