(** base64 over 6-bit digits: decode inverts encode, digits are below 64,
    characters map back to their digits in both alphabets, decoding is
    xor-linear.  Facts about single bytes / digits are finite checks
    (vm_compute over at most 65536 cases) lifted by [forallb_Nrange]. *)
From Coq Require Import List NArith ZArith Arith Lia Bool.
From Tongo Require Import Lib.Bits Model.Address Proofs.Crc16P.
Import ListNotations.
Local Open Scope N_scope.

(** ** induction in steps of three / four *)
Lemma list_ind3 {A} (P : list A -> Prop) :
  P [] -> (forall a, P [a]) -> (forall a b, P [a; b]) ->
  (forall a b c t, P t -> P (a :: b :: c :: t)) -> forall l, P l.
Proof.
  intros H0 H1 H2 H3.
  fix IH 1. intros [|a [|b [|c t]]]; [exact H0|apply H1|apply H2|apply H3; apply IH].
Qed.

Lemma list_ind4 {A} (P : list A -> Prop) :
  P [] -> (forall a, P [a]) -> (forall a b, P [a; b]) -> (forall a b c, P [a; b; c]) ->
  (forall a b c d t, P t -> P (a :: b :: c :: d :: t)) -> forall l, P l.
Proof.
  intros H0 H1 H2 H3 H4.
  fix IH 1. intros [|a [|b [|c [|d t]]]]; [exact H0|apply H1|apply H2|apply H3|apply H4; apply IH].
Qed.

(** ** one quantum *)
Definition quantum_check (a b : N) : bool :=
  let d1 := N.lxor (N.shiftl (N.land a 3) 4) (N.shiftr b 4) in
  let d2 := N.lxor (N.shiftl (N.land a 15) 2) (N.shiftr b 6) in
  (N.shiftr a 2 <? 64) && (d1 <? 64) && (d2 <? 64) && (N.land a 63 <? 64)
  && (N.lxor (N.shiftl (N.shiftr a 2) 2) (N.shiftr d1 4) =? a)     (* byte 0 from d0 d1 *)
  && (N.land d1 15 =? N.shiftr b 4)                                 (* byte 1, high half *)
  && (N.shiftr d2 2 =? N.land a 15)                                 (* byte 1, low half *)
  && (N.lxor (N.shiftl (N.shiftr a 4) 4) (N.land a 15) =? a)
  && (N.land d2 3 =? N.shiftr b 6)                                  (* byte 2, high part *)
  && (N.lxor (N.shiftl (N.shiftr a 6) 6) (N.land a 63) =? a).

Lemma quantum_check_all :
  forallb (fun a => forallb (quantum_check a) (Nrange 256)) (Nrange 256) = true.
Proof. vm_compute. reflexivity. Qed.

Lemma quantum_facts a b : a < 256 -> b < 256 -> quantum_check a b = true.
Proof. intros Ha Hb. exact (forallb2_Nrange _ 256 256 quantum_check_all a b Ha Hb). Qed.

Lemma quantum_props a b : a < 256 -> b < 256 ->
  let d1 := N.lxor (N.shiftl (N.land a 3) 4) (N.shiftr b 4) in
  let d2 := N.lxor (N.shiftl (N.land a 15) 2) (N.shiftr b 6) in
  (N.shiftr a 2 < 64 /\ d1 < 64 /\ d2 < 64 /\ N.land a 63 < 64) /\
  N.lxor (N.shiftl (N.shiftr a 2) 2) (N.shiftr d1 4) = a /\
  N.land d1 15 = N.shiftr b 4 /\
  N.shiftr d2 2 = N.land a 15 /\
  N.lxor (N.shiftl (N.shiftr a 4) 4) (N.land a 15) = a /\
  N.land d2 3 = N.shiftr b 6 /\
  N.lxor (N.shiftl (N.shiftr a 6) 6) (N.land a 63) = a.
Proof.
  intros Ha Hb. pose proof (quantum_facts a b Ha Hb) as Q.
  unfold quantum_check in Q. cbv zeta in *.
  rewrite !andb_true_iff, !N.ltb_lt, !N.eqb_eq in Q.
  destruct Q as [[[[[[[[[H1 H2] H3] H4] H5] H6] H7] H8] H9] H10].
  repeat split; assumption.
Qed.

Lemma b64_dec4_enc3 a b c : a < 256 -> b < 256 -> c < 256 ->
  match b64_enc3 a b c with
  | [d0; d1; d2; d3] => b64_dec4 d0 d1 d2 d3 = [a; b; c]
  | _ => False
  end.
Proof.
  intros Ha Hb Hc.
  pose proof (quantum_props a b Ha Hb) as Q1. pose proof (quantum_props b c Hb Hc) as Q2.
  cbv zeta in Q1, Q2.
  destruct Q1 as (_ & A0 & A1 & _ & _ & _ & _).
  destruct Q2 as (_ & _ & _ & B2 & B3 & B4 & _).
  pose proof (quantum_props c c Hc Hc) as Q3. cbv zeta in Q3.
  destruct Q3 as (_ & _ & _ & _ & _ & _ & B5).
  unfold b64_enc3, b64_dec4. f_equal; [|f_equal; [|f_equal]].
  - exact A0.
  - rewrite A1, B2. exact B3.
  - rewrite B4. exact B5.
Qed.

Lemma b64_enc3_lt a b c : a < 256 -> b < 256 -> c < 256 ->
  Forall (fun d => d < 64) (b64_enc3 a b c).
Proof.
  intros Ha Hb Hc.
  pose proof (quantum_props a b Ha Hb) as Q1. pose proof (quantum_props b c Hb Hc) as Q2.
  cbv zeta in Q1, Q2.
  destruct Q1 as ((L0 & L1 & _ & _) & _). destruct Q2 as ((_ & _ & L2 & _) & _).
  pose proof (quantum_props c c Hc Hc) as Q3. cbv zeta in Q3.
  destruct Q3 as ((_ & _ & _ & L3) & _).
  unfold b64_enc3. repeat (apply Forall_cons; [assumption|]). apply Forall_nil.
Qed.

(** ** whole strings *)
Definition bytes_ok (l : list N) : Prop := Forall (fun b => b < 256) l.
Definition digits_ok (l : list N) : Prop := Forall (fun d => d < 64) l.

Lemma b64_enc_cons3 a b c t :
  b64_enc (a :: b :: c :: t) = b64_enc3 a b c ++ b64_enc t.
Proof. reflexivity. Qed.

Lemma b64_dec_enc bs : forall k, length bs = (3 * k)%nat -> bytes_ok bs ->
  b64_dec (b64_enc bs) = bs.
Proof.
  induction bs as [|a|a b|a b c t IH] using list_ind3; intros k HL HF; cbn [length] in HL; try lia.
  - reflexivity.
  - inversion HF as [|? ? Ha HF1]; subst. inversion HF1 as [|? ? Hb HF2]; subst.
    inversion HF2 as [|? ? Hc HF3]; subst.
    rewrite b64_enc_cons3.
    pose proof (b64_dec4_enc3 a b c Ha Hb Hc) as HQ.
    destruct (b64_enc3 a b c) as [|d0 [|d1 [|d2 [|d3 [|? ?]]]]]; try contradiction.
    cbn [app b64_dec]. rewrite HQ. cbn [app]. do 3 f_equal.
    apply (IH (k - 1)%nat); [lia|exact HF3].
Qed.

Lemma b64_enc_digits_ok bs : bytes_ok bs -> digits_ok (b64_enc bs).
Proof.
  induction bs as [|a|a b|a b c t IH] using list_ind3; intros HF;
    [apply Forall_nil|apply Forall_nil|apply Forall_nil|].
  inversion HF as [|? ? Ha HF1]; subst. inversion HF1 as [|? ? Hb HF2]; subst.
  inversion HF2 as [|? ? Hc HF3]; subst.
  rewrite b64_enc_cons3. apply Forall_app. split; [apply b64_enc3_lt; assumption|].
  apply IH. exact HF3.
Qed.

Lemma b64_enc_length bs : forall k, length bs = (3 * k)%nat -> length (b64_enc bs) = (4 * k)%nat.
Proof.
  induction bs as [|a|a b|a b c t IH] using list_ind3; intros k HL; cbn [length] in HL; try lia.
  - cbn. lia.
  - rewrite b64_enc_cons3, app_length. cbn [b64_enc3 length].
    rewrite (IH (k - 1)%nat) by lia. lia.
Qed.

Lemma len_mod4_spec {A} (l : list A) : len_mod4 l = true <-> exists k, length l = (4 * k)%nat.
Proof.
  induction l as [|a|a b|a b c|a b c d t IH] using list_ind4; cbn [len_mod4 length].
  - split; [exists 0%nat; reflexivity|reflexivity].
  - split; [discriminate|intros [k Hk]; lia].
  - split; [discriminate|intros [k Hk]; lia].
  - split; [discriminate|intros [k Hk]; lia].
  - rewrite IH. split; intros [k Hk]; [exists (S k); lia|exists (k - 1)%nat; lia].
Qed.

Lemma len_is_spec {A} n (l : list A) : len_is n l = true <-> length l = n.
Proof.
  revert l; induction n as [|n IH]; intros [|h t]; cbn [len_is length]; try (split; [discriminate|lia]).
  - split; reflexivity.
  - rewrite IH. lia.
Qed.

(** ** characters *)
Definition char_check (url : bool) (d : N) : bool :=
  let c := plus_slash (b64_char url d) in
  negb (is_crlf c) &&
  match b64_digit true c, b64_digit url (b64_char url d) with
  | Some x, Some y => (x =? d) && (y =? d)
  | _, _ => false
  end.

Lemma char_check_all :
  forallb (fun d => char_check true d && char_check false d) (Nrange 64) = true.
Proof. vm_compute. reflexivity. Qed.

Lemma char_facts url d : d < 64 ->
  is_crlf (plus_slash (b64_char url d)) = false /\
  b64_digit true (plus_slash (b64_char url d)) = Some d /\
  b64_digit url (b64_char url d) = Some d.
Proof.
  intros Hd. pose proof (forallb_Nrange _ 64 char_check_all d Hd) as H. cbv beta in H.
  apply andb_prop in H. destruct H as [Ht Hf].
  assert (Hc : char_check url d = true) by (destruct url; assumption).
  unfold char_check in Hc. cbv zeta in Hc. apply andb_prop in Hc. destruct Hc as [H1 H2].
  destruct (b64_digit true (plus_slash (b64_char url d))) as [x|]; [|discriminate].
  destruct (b64_digit url (b64_char url d)) as [y|]; [|discriminate].
  apply andb_prop in H2. destruct H2 as [Hx Hy].
  apply N.eqb_eq in Hx, Hy. subst x y.
  split; [|split]; try reflexivity. destruct (is_crlf _); [discriminate|reflexivity].
Qed.

(* the characters printed for a digit list are read back as that digit list *)
Lemma decode_string_print url ds : digits_ok ds ->
  b64_digits true (filter (fun c => negb (is_crlf c)) (map plus_slash (map (b64_char url) ds)))
  = Some ds.
Proof.
  induction ds as [|d ds IH]; intros HF; [reflexivity|].
  inversion HF as [|? ? Hd HF']; subst.
  destruct (char_facts url d Hd) as (H1 & H2 & _).
  cbn [map filter]. rewrite H1. cbn [negb b64_digits]. rewrite H2, IH by exact HF'. reflexivity.
Qed.

Lemma b64_digits_print url ds : digits_ok ds -> b64_digits url (map (b64_char url) ds) = Some ds.
Proof.
  induction ds as [|d ds IH]; intros HF; [reflexivity|].
  inversion HF as [|? ? Hd HF']; subst.
  destruct (char_facts url d Hd) as (_ & _ & H3).
  cbn [map b64_digits]. rewrite H3, IH by exact HF'. reflexivity.
Qed.

(** ** decoding is xor-linear *)
Lemma b64_dec4_lin a0 a1 a2 a3 e0 e1 e2 e3 :
  b64_dec4 (N.lxor a0 e0) (N.lxor a1 e1) (N.lxor a2 e2) (N.lxor a3 e3)
  = xor_list (b64_dec4 a0 a1 a2 a3) (b64_dec4 e0 e1 e2 e3).
Proof.
  unfold b64_dec4, xor_list. cbn [combine map fst snd].
  rewrite !land_lxor_distr_l, !N.shiftl_lxor, !N.shiftr_lxor.
  f_equal; [|f_equal; [|f_equal]]; lxor_ac.
Qed.

Lemma xor_list_app a1 a2 b1 b2 : length a1 = length b1 ->
  xor_list (a1 ++ a2) (b1 ++ b2) = xor_list a1 b1 ++ xor_list a2 b2.
Proof.
  revert b1; induction a1 as [|x a1 IH]; intros [|y b1] H; cbn [length] in H; try discriminate.
  - reflexivity.
  - unfold xor_list in *. cbn [app combine map]. f_equal. apply IH. lia.
Qed.

Lemma b64_dec_lin ds : forall es, length ds = length es ->
  b64_dec (xor_list ds es) = xor_list (b64_dec ds) (b64_dec es).
Proof.
  induction ds as [|a|a b|a b c|a b c d t IH] using list_ind4;
    intros es HL; cbn [length] in HL.
  - destruct es; [reflexivity|discriminate].
  - destruct es as [|e0 [|? ?]]; try discriminate. reflexivity.
  - destruct es as [|e0 [|e1 [|? ?]]]; try discriminate. reflexivity.
  - destruct es as [|e0 [|e1 [|e2 [|? ?]]]]; try discriminate. reflexivity.
  - destruct es as [|e0 [|e1 [|e2 [|e3 es]]]]; try discriminate.
    change (xor_list (a :: b :: c :: d :: t) (e0 :: e1 :: e2 :: e3 :: es))
      with (N.lxor a e0 :: N.lxor b e1 :: N.lxor c e2 :: N.lxor d e3 :: xor_list t es).
    cbn [b64_dec]. rewrite b64_dec4_lin, IH by (cbn [length] in HL; lia).
    symmetry. apply xor_list_app. reflexivity.
Qed.
