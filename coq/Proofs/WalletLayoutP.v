(** Bit-exact layout of the signed bodies per wallet version (C14). *)
From Coq Require Import List NArith ZArith Arith Bool Lia.
From Tongo Require Import Lib.Bits Lib.Res Model.BocParse Model.CellHash Spec.ReprHash Model.Wallet
  Proofs.WalletP Proofs.WalletSigP.
From Tongo Require Spec.Dict Model.Hashmap.
Import ListNotations.

(* the cell whose hash is signed, field by field *)
Definition unsigned_layout (w : wallet) (ms : list rawmsg) (seqno : N) (valid : Z) (mt rnd : N)
           (u : cell) : Prop :=
  match w_ver w with
  | V3R1 | V3R2 =>
      u = ocell (u32 (w_sub w) ++ u32 (unix32 valid) ++ u32 seqno ++ modes_bits ms) (map rm_msg ms)
      /\ (length ms <= 4)%nat
  | V4R1 | V4R2 =>
      u = ocell (u32 (w_sub w) ++ u32 (unix32 valid) ++ u32 seqno ++ zeros 8 ++ modes_bits ms)
                (map rm_msg ms)
      /\ (length ms <= 4)%nat
  | V5Beta =>
      exists a, actions_cell ms = Ok a /\
        u = ocell (u32 mt ++ u32 (w_net w) ++ u8 (Z.to_N (w_wc w mod 256)) ++ u8 0 ++ u32 (w_sub w) ++
                   u32 (unix32 valid) ++ u32 seqno ++ [false]) [a]
  | V5R1 =>
      exists a, actions_cell ms = Ok a /\
        u = ocell (u32 mt ++ u32 (w_wid w) ++ u32 (unix32 valid) ++ u32 seqno ++ [true; false]) [a]
  | HLV2R2 =>
      (length ms <= 254)%nat /\
      exists kvs, hl_entries 0 ms = Some kvs /\
        match kvs with
        | [] => u = ocell (u32 (w_sub w) ++ u64 (hl_query valid rnd) ++ [false]) []
        | _ => exists root, Hashmap.encode Hashmap.venc_any 16 kvs = Ok root /\
                 u = ocell (u32 (w_sub w) ++ u64 (hl_query valid rnd) ++ [true]) [of_dict root]
        end
  | _ => False
  end.

Lemma unsigned_body_layout w ms seqno valid mt rnd u :
  unsigned_body w ms seqno valid mt rnd = Ok u -> unsigned_layout w ms seqno valid mt rnd u.
Proof.
  unfold unsigned_body, unsigned_layout, body_v3, body_v4, body_hl, v5beta_bits, v5r1_bits.
  destruct (w_ver w); try discriminate; intros H.
  1-4: apply payload_v1v4_ok in H; rewrite <- ?app_assoc in H; exact H.
  1-2: apply bind_ok in H; destruct H as (a & Ha & H); apply mk_ok in H; destruct H as (-> & _);
       exists a; split; [exact Ha|]; rewrite <- ?app_assoc; reflexivity.
  destruct (254 <? length ms)%nat eqn:E; [discriminate|]. apply Nat.ltb_ge in E. split; [exact E|].
  destruct (hl_entries 0 ms) as [kvs|]; [|discriminate]. exists kvs. split; [reflexivity|].
  destruct kvs as [|kv kvs'].
  - apply mk_ok in H. destruct H as (-> & _). rewrite <- ?app_assoc. reflexivity.
  - apply bind_ok in H. destruct H as (root & Hr & H). apply mk_ok in H. destruct H as (-> & _).
    exists root. split; [exact Hr|]. rewrite <- ?app_assoc. reflexivity.
Qed.

(* the v5 action list: first action outermost, each cell = magic mode ^rest ^message *)
Lemma actions_layout m t c :
  actions_cell (m :: t) = Ok c ->
  exists next, actions_cell t = Ok next /\
               c = ocell (u32 action_magic ++ u8 (rm_mode m)) [next; rm_msg m].
Proof.
  cbn [actions_cell]. intros H. apply bind_ok in H. destruct H as (next & Hn & H).
  apply mk_ok in H. destruct H as (-> & _). exists next. auto.
Qed.

Section L.
Variable SK : Type.
Variable chash : cell -> res bytes.
Variable sign : SK -> bytes -> bits.

(* signature of hash(u) before the bits of u (v3, v4, highload; 512 bits) or
   after them (v5) *)
Theorem body_layout w sk ms seqno valid mt rnd body :
  create_body SK chash sign w sk ms seqno valid mt rnd = Ok body ->
  exists u hu,
    unsigned_layout w ms seqno valid mt rnd u /\ chash u = Ok hu /\
    crefs body = crefs u /\
    cdata body = (if sig_appended (w_ver w) then cdata u ++ sign sk hu
                  else fit 512 (sign sk hu) ++ cdata u) /\
    body = ocell (cdata body) (crefs body).
Proof.
  intros H. destruct (create_body_shape SK chash sign _ _ _ _ _ _ _ _ H) as (u & hu & Hu & _ & Hh & -> & _).
  exists u, hu. split; [apply unsigned_body_layout, Hu|]. split; [exact Hh|].
  destruct (sig_appended (w_ver w)); auto.
Qed.

(* sizes: v3 = 512+96+8n bits and n references, v4 = 512+104+8n, v5 beta = 689
   bits and one reference, v5r1 = 642 bits and one reference, highload =
   512+97 bits and 0 or 1 reference *)
Theorem body_size w sk ms seqno valid mt rnd body :
  (forall sk m, length (sign sk m) = 512%nat) ->
  create_body SK chash sign w sk ms seqno valid mt rnd = Ok body ->
  match w_ver w with
  | V3R1 | V3R2 => length (cdata body) = (608 + 8 * length ms)%nat /\ length (crefs body) = length ms
  | V4R1 | V4R2 => length (cdata body) = (616 + 8 * length ms)%nat /\ length (crefs body) = length ms
  | V5Beta => length (cdata body) = 689%nat /\ length (crefs body) = 1%nat
  | V5R1 => length (cdata body) = 642%nat /\ length (crefs body) = 1%nat
  | HLV2R2 => length (cdata body) = 609%nat /\
              length (crefs body) = (match ms with [] => 0 | _ => 1 end)%nat
  | _ => False
  end.
Proof.
  intros Hs H. destruct (body_layout _ _ _ _ _ _ _ _ H) as (u & hu & Hl & _ & Hr & Hd & _).
  unfold unsigned_layout in Hl. rewrite Hr, Hd.
  destruct (w_ver w); try contradiction; cbn [sig_appended].
  1-4: destruct Hl as (-> & _); cbn [cdata crefs ocell];
       rewrite ?app_length, fit_len, ?u32_len, modes_bits_len, map_length; unfold zeros; rewrite ?repeat_length; lia.
  1-2: destruct Hl as (a & _ & ->); cbn [cdata crefs ocell];
       rewrite ?app_length, Hs, ?u32_len, ?u8_len; cbn [length]; lia.
  destruct Hl as (_ & kvs & Hk & Hl). destruct kvs as [|kv kvs'].
  - subst u. cbn [cdata crefs ocell]. rewrite ?app_length, fit_len, u32_len, u64_len. cbn [length].
    destruct ms as [|m t]; [lia|]. cbn [hl_entries] in Hk.
    destruct (to_dict (rm_msg m)); [|discriminate]. destruct (hl_entries 1 t); discriminate.
  - destruct Hl as (root & _ & ->). cbn [cdata crefs ocell].
    rewrite ?app_length, fit_len, u32_len, u64_len. cbn [length].
    destruct ms as [|m t]; [discriminate|]. lia.
Qed.

End L.
