(** C20 proofs, part 6: the cell decoder instantiated with the BOC parser of
    C07 (Model/BocParse.v): whatever text it is given -- any header variant,
    index, widths, cut anywhere -- it returns a value or an error, never a
    panic.  (Model/BocParse.v has the slice and index expressions of
    parseBocHeader as explicit panic sites; C07_parse_total proves them
    unreachable for byte input, and hex decoding only produces bytes.) *)
From Coq Require Import List NArith ZArith Bool Lia Arith.
From Tongo Require Import Lib.Bits Lib.Res Model.BocParse Proofs.BocParseP
  Model.JsonText Model.Json Proofs.JsonTextP Proofs.JsonP.
Import ListNotations.
Local Open Scope N_scope.

Lemma hex_val_lt c d : hex_val c = Some d -> d < 16.
Proof.
  unfold hex_val. intros H.
  destruct ((48 <=? c) && (c <=? 57)) eqn:E1.
  { injection H as <-. apply andb_prop in E1. destruct E1 as [A B]. apply N.leb_le in A, B. lia. }
  destruct ((97 <=? c) && (c <=? 102)) eqn:E2.
  { injection H as <-. apply andb_prop in E2. destruct E2 as [A B]. apply N.leb_le in A, B. lia. }
  destruct ((65 <=? c) && (c <=? 70)) eqn:E3; [|discriminate].
  injection H as <-. apply andb_prop in E3. destruct E3 as [A B]. apply N.leb_le in A, B. lia.
Qed.

Lemma hex_decode_bytes_n : forall n cs bs, (length cs <= n)%nat ->
  hex_decode cs = Some bs -> Forall is_byte bs.
Proof.
  induction n as [|n IH]; intros cs bs Hn H.
  - destruct cs; [|cbn in Hn; lia]. injection H as <-. constructor.
  - destruct cs as [|h [|l t]]; cbn [hex_decode] in H; try discriminate.
    + injection H as <-. constructor.
    + destruct (hex_val h) as [a|] eqn:Ea; [|discriminate].
      destruct (hex_val l) as [b|] eqn:Eb; [|discriminate].
      destruct (hex_decode t) as [r|] eqn:Er; [|discriminate].
      injection H as <-. constructor.
      * apply hex_val_lt in Ea, Eb. unfold is_byte. lia.
      * apply (IH t r); [cbn [length] in Hn; lia|exact Er].
Qed.

Lemma hex_decode_bytes cs bs : hex_decode cs = Some bs -> Forall is_byte bs.
Proof. apply (hex_decode_bytes_n (length cs)). lia. Qed.

(* DeserializeBoc as the list of root indices *)
Definition deser_boc (bs : list N) : res (list nat) := do p <- parse_boc bs; Ok (p_roots p).

Theorem parse_cell_boc_total s p : parse_cell deser_boc s <> Panic p.
Proof.
  unfold parse_cell. destruct (hex_decode (trim_quotes s)) as [bs|] eqn:E; [|discriminate].
  pose proof (parse_total bs (hex_decode_bytes _ _ E)) as Ht. unfold deser_boc.
  destruct (parse_boc bs) as [pp| |q]; cbn [bind]; try discriminate.
  - destruct (p_roots pp) as [|c [|c' l]]; cbn [len_is go_index0]; discriminate.
  - exfalso. exact (Ht q eq_refl).
Qed.
