(** Proofs for C16, part 2: the cell built by Message.Hash(true) is the
    canonical cell of Spec/MsgCanon.v; decoded addresses are well formed and
    re-encode to exactly the bits they were read from. *)
From Coq Require Import List NArith ZArith Arith Lia Bool.
From Tongo Require Import Lib.Bits Lib.Res Model.BocParse Model.CellHash Spec.ReprHash
  Proofs.CellHashP Model.MsgHash Spec.MsgCanon Proofs.MsgHashP.
Import ListNotations.

(** *** writes that fit *)
Lemma wr_ok l b : (length b + length l <= 1023)%nat -> wr l (b, false) = (b ++ l, false).
Proof.
  intros Hl. unfold wr. destruct (Nat.leb_spec (length l) (1023 - length b)) as [_|Hn]; [reflexivity|lia].
Qed.

Lemma any_bits_length a : any_wf a -> (length (any_bits a) <= 37)%nat.
Proof.
  destruct a as [[d p]|]; cbn [any_bits any_wf length]; [|lia].
  intros (Hd & _). rewrite app_length, !bits_of_length. lia.
Qed.

Lemma marshal_anycast_spec a b :
  any_wf a -> (length b + 37 <= 1023)%nat -> marshal_anycast a (b, false) = (b ++ any_bits a, false).
Proof.
  intros Hw Hl. destruct a as [[d p]|]; cbn [marshal_anycast any_bits].
  - destruct Hw as (Hd & _).
    rewrite wr_ok by (cbn [length]; lia).
    rewrite wr_ok by (rewrite app_length, bits_of_length; cbn [length]; lia).
    rewrite wr_ok by (rewrite !app_length, !bits_of_length; cbn [length]; lia).
    rewrite <- !app_assoc. reflexivity.
  - apply wr_ok. cbn [length]. lia.
Qed.

Lemma enc_int_length w z : length (enc_int w z) = w.
Proof. apply bits_of_length. Qed.

Lemma addr_bits_length a : addr_wf a -> (length (addr_bits a) <= 591)%nat.
Proof.
  destruct a as [|l|any wc x|any len wc x]; cbn [addr_bits addr_wf].
  - cbn [length]. lia.
  - intros Hl. rewrite !app_length, bits_of_length. cbn [length]. lia.
  - intros (Ha & Hx). pose proof (any_bits_length _ Ha).
    rewrite !app_length, enc_int_length, Hx. cbn [length]. lia.
  - intros (Ha & Hlen & Hx). pose proof (any_bits_length _ Ha).
    rewrite !app_length, enc_int_length, bits_of_length, Hx. cbn [length]. lia.
Qed.

Lemma marshal_addr_spec a b :
  addr_wf a -> (length b + 591 <= 1023)%nat -> marshal_addr a (b, false) = (b ++ addr_bits a, false).
Proof.
  intros Hw Hl. destruct a as [|l|any wc x|any len wc x]; cbn [marshal_addr addr_bits addr_wf] in *.
  - apply wr_ok. cbn [length]. lia.
  - rewrite wr_ok by (cbn [length]; lia).
    destruct (Nat.ltb_spec 511 (length l)) as [Hn|_]; [lia|].
    rewrite wr_ok by (rewrite app_length, bits_of_length; cbn [length]; lia).
    rewrite wr_ok by (rewrite !app_length, bits_of_length; cbn [length]; lia).
    rewrite <- !app_assoc. reflexivity.
  - destruct Hw as (Ha & Hx). pose proof (any_bits_length _ Ha) as Hal.
    rewrite wr_ok by (cbn [length]; lia).
    rewrite marshal_anycast_spec by (try assumption; rewrite app_length; cbn [length]; lia).
    rewrite wr_ok by (rewrite !app_length, enc_int_length; cbn [length]; lia).
    rewrite wr_ok by (rewrite !app_length, enc_int_length, Hx; cbn [length]; lia).
    rewrite <- !app_assoc. reflexivity.
  - destruct Hw as (Ha & Hlen & Hx). pose proof (any_bits_length _ Ha) as Hal.
    rewrite wr_ok by (cbn [length]; lia).
    rewrite marshal_anycast_spec by (try assumption; rewrite app_length; cbn [length]; lia).
    rewrite wr_ok by (rewrite !app_length, bits_of_length; cbn [length]; lia).
    rewrite wr_ok by (rewrite !app_length, bits_of_length, enc_int_length; cbn [length]; lia).
    rewrite wr_ok by (rewrite !app_length, bits_of_length, enc_int_length, Hx; cbn [length]; lia).
    rewrite <- !app_assoc. reflexivity.
Qed.

Lemma canon_dest_clear a : clear_std_anycast a = canon_dest a.
Proof. destruct a; reflexivity. Qed.

Lemma canon_dest_wf a : addr_wf a -> addr_wf (canon_dest a).
Proof. destruct a; cbn [canon_dest addr_wf any_wf]; tauto. Qed.

(** the cell built by Hash(true) is the canonical cell *)
Lemma norm_info_bits_spec dest :
  addr_wf dest ->
  norm_info_bits dest
  = [true; false; false; false] ++ addr_bits (canon_dest dest) ++ [false; false; false; false; false; true].
Proof.
  intros Hw. unfold norm_info_bits, ignore_err. rewrite canon_dest_clear.
  pose proof (addr_bits_length _ (canon_dest_wf _ Hw)) as Hal.
  set (s1 := wr _ ([], false)).
  set (s2 := wr _ (fst s1, false)).
  set (s3 := marshal_addr _ (fst s2, false)).
  set (s4 := wr _ (fst s3, false)).
  set (s5 := wr _ (fst s4, false)).
  set (s6 := wr _ (fst s5, false)).
  assert (E1 : s1 = ([true; false], false)) by reflexivity.
  assert (E2 : s2 = ([true; false; false; false], false)) by (unfold s2; rewrite E1; reflexivity).
  assert (E3 : s3 = ([true; false; false; false] ++ addr_bits (canon_dest dest), false)).
  { unfold s3. rewrite E2. cbn [fst]. apply marshal_addr_spec; [apply canon_dest_wf; exact Hw|].
    cbn [length]. lia. }
  assert (E4 : s4 = (([true; false; false; false] ++ addr_bits (canon_dest dest))
                     ++ [false; false; false; false], false)).
  { unfold s4. rewrite E3. cbn [fst]. apply wr_ok. rewrite app_length. cbn [length]. lia. }
  assert (E5 : s5 = ((([true; false; false; false] ++ addr_bits (canon_dest dest))
                      ++ [false; false; false; false]) ++ [false], false)).
  { unfold s5. rewrite E4. cbn [fst]. apply wr_ok. rewrite !app_length. cbn [length]. lia. }
  assert (E6 : s6 = (((([true; false; false; false] ++ addr_bits (canon_dest dest))
                       ++ [false; false; false; false]) ++ [false]) ++ [true], false)).
  { unfold s6. rewrite E5. cbn [fst]. apply wr_ok. rewrite !app_length. cbn [length]. lia. }
  rewrite E6. cbn [fst]. rewrite <- !app_assoc. reflexivity.
Qed.

(** the cell built by Hash(true) is the canonical cell *)
Theorem norm_cell_is_canonical dest (body : bits * list cell) :
  addr_wf dest -> (length (fst body) <= 1023)%nat ->
  norm_cell dest body = Ok (canonical_cell dest body).
Proof.
  intros Hw Hb. unfold norm_cell, canonical_cell.
  rewrite (norm_info_bits_spec _ Hw).
  match goal with |- (if ?c then _ else _) = _ => destruct c eqn:En end;
    [apply Nat.ltb_lt in En; lia|].
  reflexivity.
Qed.

Lemma masks_all_Forall refs :
  (fix all (rs : list cell) : Prop :=
     match rs with [] => True | ch :: t => masks_ok ch /\ all t end) refs <-> Forall masks_ok refs.
Proof.
  induction refs as [|r t IH]; [split; constructor|].
  split.
  - intros (A & B). constructor; [exact A|apply IH; exact B].
  - intros F. inversion F; subst. split; [assumption|apply IH; assumption].
Qed.

Lemma masks_ok_refs c : masks_ok c -> Forall masks_ok (cell_refs c).
Proof. destruct c as [s t m d refs]. cbn [masks_ok cell_refs]. intros (_ & A). apply masks_all_Forall. exact A. Qed.

Lemma canonical_masks_ok dest body : Forall masks_ok (snd body) -> masks_ok (canonical_cell dest body).
Proof.
  intros F. unfold canonical_cell. cbn [masks_ok]. split; [lia|]. split; [|exact I].
  split; [lia|]. apply masks_all_Forall. exact F.
Qed.

Section N.
Variable H : bytes -> bytes.

(** Hash(true) of an external-in message is the representation hash of the
    canonical cell (when that hash exists; see [normalized_zero_on_error]) *)
Theorem normalized_hash_spec m src dest fee h :
  m_info m = IExtIn src dest fee ->
  addr_wf dest -> (length (fst (m_body m)) <= 1023)%nat -> Forall masks_ok (snd (m_body m)) ->
  hash_cell H (canonical_cell dest (m_body m)) = Ok h ->
  msg_hash H true m = Ok h /\ repr_hash H (canonical_cell dest (m_body m)) = Ok h.
Proof.
  intros Ei Hw Hb Hm Hh. split.
  - unfold msg_hash. cbn [negb]. rewrite Ei, (norm_cell_is_canonical _ _ Hw Hb). cbn [bind].
    rewrite Hh. reflexivity.
  - apply hash_cell_repr; [apply canonical_masks_ok; exact Hm|exact Hh].
Qed.

(* `hash, _ := c.Hash256()`: when the canonical cell cannot be hashed (a body
   reference of depth 1023 makes the root exceed the depth limit) the result is
   the all-zero array *)
Theorem normalized_zero_on_error m src dest fee e :
  m_info m = IExtIn src dest fee ->
  addr_wf dest -> (length (fst (m_body m)) <= 1023)%nat ->
  hash_cell H (canonical_cell dest (m_body m)) = Err e ->
  msg_hash H true m = Ok zero_hash.
Proof.
  intros Ei Hw Hb Hh. unfold msg_hash. cbn [negb].
  rewrite Ei, (norm_cell_is_canonical _ _ Hw Hb). cbn [bind]. rewrite Hh. reflexivity.
Qed.

End N.
