(** C07 — header checks that were tried and are refuted (design history).

    parseBocHeader must establish [roots <= rem] (rem = bytes left after the
    counters) before [make([]uint, 0, roots)]: that is what bounds the
    allocation by 8 * len (C07_parse_alloc_linear) and excludes the makeslice
    panic (C07_parse_total).  The shipped check is
      [rootsCount > uint(len(boc)) || len(boc) < int(rootsCount)*sizeBytes].
    The alternative "one product, computed in uint" is not equivalent. *)
From Coq Require Import NArith Lia.
Local Open Scope N_scope.

Definition two64 : N := 18446744073709551616.

(** [uint(len(boc)) < rootsCount*uint(sizeBytes)] rejects; the product wraps *)
Definition product_check_passes (rem roots size : N) : bool :=
  negb (rem <? (roots * size) mod two64).

(** the shipped check *)
Definition shipped_check_passes (rem roots size : N) : bool :=
  negb ((rem <? roots) || (rem <? roots * size)).

Lemma shipped_check_bounds rem roots size :
  shipped_check_passes rem roots size = true -> roots <= rem.
Proof.
  unfold shipped_check_passes. intros H.
  apply Bool.negb_true_iff, Bool.orb_false_iff in H. destruct H as (H & _).
  apply N.ltb_ge in H. exact H.
Qed.

(** The wrapped product lets a root count through that is far above the
    remaining bytes (lean magic, counter width 8: roots = 2^61, empty rest):
    make([]uint, 0, 2^61) panics. *)
Lemma product_check_refuted :
  exists rem roots size,
    roots < two64 /\ 1 <= size < 256 /\
    product_check_passes rem roots size = true /\
    ~ roots <= rem /\ 2 ^ 48 < 8 * roots.
Proof.
  exists 0, (2 ^ 61), 8.
  split; [vm_compute; reflexivity|].
  split; [lia|].
  split; [vm_compute; reflexivity|].
  split; [|vm_compute; reflexivity].
  intros H. apply N.le_0_r in H. vm_compute in H. discriminate H.
Qed.

(** It is sound exactly where the product cannot wrap — the generic magic has
    size <= 7 and roots < 2^56 — which is why only the lean magics (width taken
    from a full byte) show the difference. *)
Lemma product_check_sound_without_wrap rem roots size :
  1 <= size -> roots * size < two64 ->
  product_check_passes rem roots size = true -> roots <= rem.
Proof.
  intros Hs Hw H. unfold product_check_passes in H.
  apply Bool.negb_true_iff, N.ltb_ge in H.
  rewrite N.mod_small in H by exact Hw. nia.
Qed.

Lemma generic_magic_cannot_wrap roots size :
  size <= 7 -> roots < 2 ^ 56 -> roots * size < two64.
Proof. intros Hs Hr. unfold two64. change (2 ^ 56) with 72057594037927936 in Hr. nia. Qed.
