(** C04: the external-message envelope of ton.CreateExternalMessage, as the
    block.tlb schema serialises it. *)
From Coq Require Import List NArith ZArith Arith Lia Bool.
From Tongo Require Import Lib.Bits Model.TlbCore Spec.TlbSchema Spec.BlockTlb.
Import ListNotations.

(* the tlb.Message value CreateExternalMessage builds: ext_in_msg_info with
   src = addr_none, dest = addr_std without anycast, import_fee; init absent or
   in a reference; body always in a reference *)
Definition ext_in_value (wc : Z) (addr : bits) (fee : N) (init : option value) (body : ctree) : value :=
  VStruct [VSum 1 (VStruct [VAddr ANone; VAddr (AStd None wc addr); VN fee]);
           VMaybe (match init with Some si => Some (VEither true si) | None => None end);
           VEither true (VAny (ct_bits body) (ct_refs body))].

Definition fee_bits (fee : N) : bits := numeral 4 (N.of_nat (min_bytes fee)) ++ numeral (8 * min_bytes fee) fee.

Theorem create_external_message_layout wc addr fee body :
  spec_encode s_Message (ext_in_value wc addr fee None body) =
  Some ([true; false]                 (* ext_in_msg_info$10 *)
        ++ [false; false]             (* src: addr_none$00 *)
        ++ [true; false] ++ [false]   (* dest: addr_std$10, anycast nothing$0 *)
        ++ twos 8 wc ++ addr          (* workchain_id:int8 address:bits256 *)
        ++ fee_bits fee               (* import_fee:Grams *)
        ++ [false]                    (* init: nothing$0 *)
        ++ [true],                    (* body: right$1 ^X *)
        [CT (ct_bits body) (ct_refs body)]).
Proof.
  unfold ext_in_value, s_Message, s_CommonMsgInfo, s_MsgAddress, s_Grams, fee_bits.
  cbn [spec_encode s_addr s_anycast nth_error app].
  unfold le_width. change (N.to_nat (N.size (N.of_nat (16 - 1)))) with 4%nat.
  change (numeral 2 2) with [true; false].
  rewrite !app_nil_r. cbn [app]. rewrite <- !app_assoc. cbn [app]. reflexivity.
Qed.

Theorem create_external_message_layout_init wc addr fee si ib ir body :
  spec_encode s_StateInit si = Some (ib, ir) ->
  spec_encode s_Message (ext_in_value wc addr fee (Some si) body) =
  Some ([true; false] ++ [false; false] ++ [true; false] ++ [false] ++ twos 8 wc ++ addr ++ fee_bits fee
        ++ [true; true]               (* init: just$1 right$1 ^StateInit *)
        ++ [true],
        [CT ib ir; CT (ct_bits body) (ct_refs body)]).
Proof.
  intros Hsi.
  unfold ext_in_value, s_Message, s_CommonMsgInfo, s_MsgAddress, s_Grams, fee_bits.
  cbn [spec_encode s_addr s_anycast nth_error app].
  fold s_StateInit. rewrite Hsi.
  unfold le_width. change (N.to_nat (N.size (N.of_nat (16 - 1)))) with 4%nat.
  change (numeral 2 2) with [true; false].
  rewrite !app_nil_r. cbn [app]. rewrite <- !app_assoc. cbn [app]. reflexivity.
Qed.
