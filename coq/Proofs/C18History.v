(** C18, histories: why "the i-th proof of a history equals the proof of
    operation i alone" is a real requirement.  A prover that OWNS the pruned
    set and hands the same set to every cursor (instead of a fresh one per
    [Cursor()]) is modelled here for cursor operations; its second proof
    differs from the proof of the second operation alone.  (Seeded mutation
    C18-m1 is this design; with it a failing ProveKeyInHashmap pollutes the
    set as well, which this small model does not cover.) *)
From Coq Require Import List NArith Arith Bool.
From Tongo Require Import Lib.Bits Lib.Res Spec.Sha256 Model.BocParse Model.CellHash Spec.ReprHash
  Model.Merkle Proofs.MerkleP.
Import ListNotations.

Section Shared.
Variable H : bytes -> bytes.

(* state: the positions accumulated in the prover's own pruned set *)
Definition shared_step (root : cell) (st : list (list nat)) (o : op)
  : list (list nat) * option (res cell) :=
  match o with
  | OpWalk prunes => let st' := st ++ prunes in (st', Some (create_proof H (in_paths st') root))
  | OpDrop prunes => (st ++ prunes, None)
  | OpKey _ _ => (st, None)                       (* not modelled *)
  end.

Fixpoint shared_run (root : cell) (st : list (list nat)) (ops : list op) : list (option (res cell)) :=
  match ops with
  | [] => []
  | o :: t => let '(st', out) := shared_step root st o in out :: shared_run root st' t
  end.

(* the first proof of the shared design is right: the defect needs a history *)
Lemma shared_first_proof_right root prunes :
  shared_run root [] [OpWalk prunes] = prover_run H path_eqb root [OpWalk prunes].
Proof.
  cbn [shared_run shared_step prover_run prover_step run_op app]. reflexivity.
Qed.
End Shared.

(* is the cell at [path] of the body of a proof a pruned branch? *)
Definition pruned_at (r : option (option (res cell))) (path : list nat) : option bool :=
  match r with
  | Some (Some (Ok (Cell _ _ _ _ [body]))) =>
      match subcell body path with
      | Some (Cell special ty _ _ _) => Some (is_pruned special ty)
      | None => None
      end
  | _ => None
  end.

Definition wit_root : cell :=
  Cell false 0 0 [true] [Cell false 0 0 [true; false] []; Cell false 0 0 [false; true; true] []].
Definition wit_ops : list op := [OpWalk [[1%nat]]; OpWalk [[0%nat]]].

(** second operation: prune the left child only.  Alone (and in the model of
    the real prover) the right child stays; with the shared set it is gone. *)
Theorem shared_pruned_set_refuted :
  pruned_at (nth_error (prover_run sha256 path_eqb wit_root wit_ops) 1) [1%nat] = Some false /\
  pruned_at (nth_error (shared_run sha256 wit_root [] wit_ops) 1) [1%nat] = Some true /\
  nth_error (shared_run sha256 wit_root [] wit_ops) 1 <>
  nth_error (map (run_op sha256 path_eqb wit_root) wit_ops) 1.
Proof.
  assert (A : pruned_at (nth_error (prover_run sha256 path_eqb wit_root wit_ops) 1) [1%nat] = Some false)
    by (vm_compute; reflexivity).
  assert (B : pruned_at (nth_error (shared_run sha256 wit_root [] wit_ops) 1) [1%nat] = Some true)
    by (vm_compute; reflexivity).
  split; [exact A|]. split; [exact B|].
  intros E. pose proof (prover_run_map sha256 path_eqb wit_root wit_ops) as M.
  assert (C : Some false = Some true) by congruence. discriminate C.
Qed.

(** *** interleavings
    CreateProof does two things: it builds the pruned tree and attaches it to
    a Merkle-proof header cell ([Attach]), then it serialises that cell
    ([Emit]).  Call [t] works on prune set [ops t].  In the real code the
    header is allocated by the call ([local t]); in the design of seeded
    mutation C18-r3m2 it is one cell owned by the prover ([shared]).  A
    schedule is any sequence of these steps of any number of concurrent calls. *)
Inductive ev := Attach (t : nat) | Emit (t : nat).

Section Interleave.
Variable H : bytes -> bytes.
Variable root : cell.
Variable ops : nat -> list (list nat).          (* the prune set of call t *)

Definition proof_of (t : nat) : res cell := create_proof H (in_paths (ops t)) root.

Record cstate := mkC { local : nat -> option (res cell); shared : option (res cell) }.

Definition upd (f : nat -> option (res cell)) (t : nat) (v : res cell) : nat -> option (res cell) :=
  fun u => if Nat.eqb u t then Some v else f u.

(* one step; an [Emit] outputs (call, what it serialises) *)
Definition cstep (share : bool) (s : cstate) (e : ev) : cstate * list (nat * option (res cell)) :=
  match e with
  | Attach t => (mkC (upd (local s) t (proof_of t)) (Some (proof_of t)), [])
  | Emit t => (s, [(t, if share then shared s else local s t)])
  end.

Fixpoint crun (share : bool) (s : cstate) (sched : list ev) : list (nat * option (res cell)) :=
  match sched with
  | [] => []
  | e :: rest => let '(s', out) := cstep share s e in out ++ crun share s' rest
  end.

(* real design: whatever the schedule, a call emits its own proof (or nothing
   if it has not attached yet) *)
Lemma crun_local_inv : forall sched s,
  (forall t r, local s t = Some r -> r = proof_of t) ->
  forall t r, In (t, Some r) (crun false s sched) -> r = proof_of t.
Proof.
  induction sched as [|e rest IH]; intros s Hs t r Hin; [destruct Hin|].
  cbn [crun] in Hin. destruct e as [u|u]; cbn [cstep app] in Hin.
  - refine (IH _ _ t r Hin). intros t' r'. cbn [local]. unfold upd. intros E.
    destruct (Nat.eqb t' u) eqn:Eu.
    + apply Nat.eqb_eq in Eu. subst u. injection E as <-. reflexivity.
    + exact (Hs t' r' E).
  - destruct Hin as [E|Hin].
    + injection E as <- E2. exact (Hs u r E2).
    + exact (IH s Hs t r Hin).
Qed.

Theorem interleaving_independent sched t r :
  In (t, Some r) (crun false (mkC (fun _ => None) None) sched) -> r = proof_of t.
Proof. apply crun_local_inv. intros t' r' E. discriminate E. Qed.
End Interleave.

(** the shared header: two calls, schedule Attach 0; Attach 1; Emit 0 — call 0
    (which prunes only the right child) returns call 1's proof, in which the
    LEFT child is pruned and the right one is not.  Sequential schedules
    (Attach t; Emit t; ...) are right, which is why no history shows it. *)
Definition wit_calls (t : nat) : list (list nat) :=
  match t with O => [[1%nat]] | _ => [[0%nat]] end.

Definition emitted_pruned_at (o : list (nat * option (res cell))) (k : nat) (path : list nat) : option bool :=
  match nth_error o k with
  | Some (_, Some r) => pruned_at (Some (Some r)) path
  | _ => None
  end.

Theorem shared_header_refuted :
  let racy := [Attach 0; Attach 1; Emit 0; Emit 1] in
  let seq := [Attach 0; Emit 0; Attach 1; Emit 1] in
  let s0 := mkC (fun _ => None) None in
  (* real design, racy schedule: call 0's proof has the right child pruned, the left one kept *)
  emitted_pruned_at (crun sha256 wit_root wit_calls false s0 racy) 0 [1%nat] = Some true /\
  emitted_pruned_at (crun sha256 wit_root wit_calls false s0 racy) 0 [0%nat] = Some false /\
  (* shared header, racy schedule: call 0 emits a proof with the right child kept, the left pruned *)
  emitted_pruned_at (crun sha256 wit_root wit_calls true s0 racy) 0 [1%nat] = Some false /\
  emitted_pruned_at (crun sha256 wit_root wit_calls true s0 racy) 0 [0%nat] = Some true /\
  (* shared header, sequential schedule: right *)
  crun sha256 wit_root wit_calls true s0 seq = crun sha256 wit_root wit_calls false s0 seq /\
  ~ (forall t r, In (t, Some r) (crun sha256 wit_root wit_calls true s0 racy) ->
                 r = proof_of sha256 wit_root wit_calls t).
Proof.
  cbn zeta.
  assert (A : emitted_pruned_at (crun sha256 wit_root wit_calls true (mkC (fun _ => None) None)
                [Attach 0; Attach 1; Emit 0; Emit 1]) 0 [1%nat] = Some false) by (vm_compute; reflexivity).
  assert (B : pruned_at (Some (Some (proof_of sha256 wit_root wit_calls 0))) [1%nat] = Some true)
    by (vm_compute; reflexivity).
  split; [vm_compute; reflexivity|]. split; [vm_compute; reflexivity|].
  split; [exact A|]. split; [vm_compute; reflexivity|]. split; [reflexivity|].
  intros Hall.
  specialize (Hall 0%nat (proof_of sha256 wit_root wit_calls 1)).
  assert (E : proof_of sha256 wit_root wit_calls 1 = proof_of sha256 wit_root wit_calls 0).
  { apply Hall. cbn [crun cstep app shared]. left. reflexivity. }
  unfold emitted_pruned_at in A. cbn [crun cstep app shared nth_error] in A.
  rewrite E in A. congruence.
Qed.

(** *** position, not content
    A cursor prunes the POSITION it stands on.  A pruned set keyed by the
    content of the cell (its hash: seeded mutation C18-r4m1) — or by the
    identity of the cell when equal subtrees are one object, as in a tree that
    came from a BOC (tongo before the repair "fix: prune positions, not cells")
    — prunes every other occurrence of that content too.  For the dictionary
    {0 -> 7, 1 -> 7} (one-bit keys; the two leaves are equal) the proof for key
    1 prunes the sibling leaf 0; keyed by content it prunes the leaf of key 1
    as well and reveals nothing. *)
Definition bytes_eqb (a b : bytes) : bool :=
  Nat.eqb (length a) (length b) && forallb (fun p => N.eqb (fst p) (snd p)) (combine a b).

Definition same_content (root : cell) (p q : list nat) : bool :=
  match subcell root p, subcell root q with
  | Some x, Some y =>
      match hd_at sha256 x 0, hd_at sha256 y 0 with
      | Ok (h1, _), Ok (h2, _) => bytes_eqb h1 h2
      | _, _ => false
      end
  | _, _ => false
  end.

Definition prove_key_by_content (root : cell) (key : bits) : res cell :=
  do w <- prove_walk (S (length key)) root key (length key) (length key) [] [] [];
  let '(pruned, _, _, _) := w in
  create_proof sha256 (fun p => existsb (same_content root p) pruned) root.

Definition twin_leaf : cell := Cell false 0 0 ([false; false] ++ bits_of 32 7) [].
Definition twin_dict : cell := Cell false 0 0 [false; false] [twin_leaf; twin_leaf].

Theorem content_keyed_prune_refuted :
  (* by position: sibling pruned, the leaf of the key kept *)
  pruned_at (Some (Some (prove_key sha256 twin_dict [true] 32))) [0%nat] = Some true /\
  pruned_at (Some (Some (prove_key sha256 twin_dict [true] 32))) [1%nat] = Some false /\
  (* by content: the leaf of the proven key is pruned as well *)
  pruned_at (Some (Some (prove_key_by_content twin_dict [true]))) [1%nat] = Some true.
Proof. repeat split; vm_compute; reflexivity. Qed.

(** *** cursors are values
    A Prune on cursor variable [v] prunes the position [v] got when it was
    created, whatever Ref/Prune happened on other cursors in between. *)
Lemma prog_run_pruned_kept : forall is vars pruned p,
  In p pruned -> In p (prog_run vars pruned is).
Proof.
  induction is as [|[src k|v] t IH]; intros vars pruned p Hin; cbn [prog_run]; [exact Hin| |].
  - destruct (nth_error vars src); apply IH; exact Hin.
  - destruct (nth_error vars v); apply IH; [apply in_or_app; left|]; exact Hin.
Qed.

Theorem cursor_position_fixed : forall pre vars pruned v p post,
  nth_error vars v = Some p ->
  In p (prog_run vars pruned (pre ++ IPrune v :: post)).
Proof.
  induction pre as [|[src k|w] t IH]; intros vars pruned v p post Hv; cbn [app prog_run].
  - rewrite Hv. apply prog_run_pruned_kept. apply in_or_app. right. left. reflexivity.
  - destruct (nth_error vars src); apply IH; [|exact Hv].
    rewrite nth_error_app1; [exact Hv|]. apply nth_error_Some. rewrite Hv. discriminate.
  - destruct (nth_error vars w); apply IH; exact Hv.
Qed.

(** the design of seeded mutation C18-r5m1: the position is a Go byte slice
    extended by [append].  A slice is (array, length); [append] writes IN PLACE
    at index [length] when the array has spare capacity (all arrays here have
    capacity 8; the root cursor's slice is nil, so its first append
    allocates).  Two children taken from the same parent then share the byte
    that tells them apart. *)
Record slice := mkS { s_arr : option nat; s_len : nat }.

Definition arr_set (store : list (list nat)) (a i x : nat) : list (list nat) :=
  map (fun ia => if Nat.eqb (fst ia) a then set_nth i x (snd ia) else snd ia)
      (combine (seq 0 (length store)) store).

Definition slice_append (store : list (list nat)) (s : slice) (x : nat) : list (list nat) * slice :=
  match s_arr s with
  | Some a =>
      if (s_len s <? 8)%nat then (arr_set store a (s_len s) x, mkS (Some a) (S (s_len s)))
      else (store ++ [firstn (s_len s) (nth a store []) ++ x :: repeat 0%nat 7], mkS (Some (length store)) (S (s_len s)))
  | None => (store ++ [x :: repeat 0%nat 7], mkS (Some (length store)) 1)
  end.

Definition slice_read (store : list (list nat)) (s : slice) : list nat :=
  match s_arr s with Some a => firstn (s_len s) (nth a store []) | None => [] end.

Fixpoint alias_run (store : list (list nat)) (vars : list slice) (pruned : list (list nat)) (is : list instr)
  : list (list nat) :=
  match is with
  | [] => pruned
  | IRef src k :: t =>
      match nth_error vars src with
      | Some s => let '(store', s') := slice_append store s k in alias_run store' (vars ++ [s']) pruned t
      | None => alias_run store vars pruned t
      end
  | IPrune v :: t =>
      match nth_error vars v with
      | Some s => alias_run store vars (pruned ++ [slice_read store s]) t
      | None => alias_run store vars pruned t
      end
  end.

(* p := c.Ref(0); l := p.Ref(0); r := p.Ref(1); l.Prune() *)
Definition sibling_prog : list instr := [IRef 0 0; IRef 1 0; IRef 1 1; IPrune 2].

Theorem appended_slice_position_refuted :
  prog_prunes sibling_prog = [[0%nat; 0%nat]] /\
  alias_run [] [mkS None 0] [] sibling_prog = [[0%nat; 1%nat]] /\
  (* depth-first use (finish one child before taking the next) does not show it *)
  alias_run [] [mkS None 0] [] [IRef 0 0; IRef 1 0; IPrune 2; IRef 1 1] =
  prog_prunes [IRef 0 0; IRef 1 0; IPrune 2; IRef 1 1].
Proof. repeat split; vm_compute; reflexivity. Qed.

(** *** positions have no depth bound
    A position is a list of reference indices of any length (trees are up to
    1024 deep).  The design of seeded mutation C18-r6m2 packs it into a 64-bit
    word, two bits per step below a marker bit, and reads it back from the
    highest set bit: after 31 steps the marker is shifted out and a shallower
    position comes back — for a comb dictionary the sibling pruned at fork 32
    becomes an ancestor of the proven key's own leaf. *)
Definition pack64 (p : list nat) : N :=
  fold_left (fun acc k => ((acc * 4 + N.of_nat k) mod 18446744073709551616)%N) p 1%N.

Definition unpack64 (w : N) : list nat :=
  let n := ((N.to_nat (N.size w) - 1) / 2)%nat in
  map (fun i => N.to_nat ((w / 4 ^ N.of_nat (n - 1 - i)) mod 4)%N) (seq 0 n).

Fixpoint is_prefix (a b : list nat) : bool :=
  match a, b with
  | [], _ => true
  | x :: a', y :: b' => Nat.eqb x y && is_prefix a' b'
  | _ :: _, [] => false
  end.

Theorem packed_position_refuted :
  (* 31 steps: exact *)
  unpack64 (pack64 (repeat 1%nat 31)) = repeat 1%nat 31 /\
  (* key 1^32 0..: its leaf is at 1^32 ++ [0], the sibling pruned at fork 32 at 1^33 *)
  unpack64 (pack64 (repeat 1%nat 33)) = repeat 1%nat 31 /\
  (* what comes back is a proper prefix of the path to the key's own leaf *)
  is_prefix (unpack64 (pack64 (repeat 1%nat 33))) (repeat 1%nat 32 ++ [0%nat]) = true /\
  (* an all-left path of 32 steps comes back as the root *)
  unpack64 (pack64 (repeat 0%nat 32)) = [].
Proof.
  repeat split; vm_compute; reflexivity.
Qed.
