(** C18, histories: why "the i-th proof of a history equals the proof of
    operation i alone" is a real requirement.  A prover that OWNS the pruned
    set and hands the same set to every cursor (instead of a fresh one per
    [Cursor()]) is modelled here for cursor operations; its second proof
    differs from the proof of the second operation alone.  (Seeded mutation
    C18-m1 is this design; with it a failing ProveKeyInHashmap pollutes the
    set as well, which this small model does not cover.) *)
From Coq Require Import List NArith Arith Bool.
From Tongo Require Import Lib.Bits Lib.Res Spec.Sha256 Model.BocParse Model.CellHash Spec.ReprHash
  Model.Merkle Proofs.MerkleP.
Import ListNotations.

Section Shared.
Variable H : bytes -> bytes.

(* state: the positions accumulated in the prover's own pruned set *)
Definition shared_step (root : cell) (st : list (list nat)) (o : op)
  : list (list nat) * option (res cell) :=
  match o with
  | OpWalk prunes => let st' := st ++ prunes in (st', Some (create_proof H (in_paths st') root))
  | OpDrop prunes => (st ++ prunes, None)
  | OpKey _ _ => (st, None)                       (* not modelled *)
  end.

Fixpoint shared_run (root : cell) (st : list (list nat)) (ops : list op) : list (option (res cell)) :=
  match ops with
  | [] => []
  | o :: t => let '(st', out) := shared_step root st o in out :: shared_run root st' t
  end.

(* the first proof of the shared design is right: the defect needs a history *)
Lemma shared_first_proof_right root prunes :
  shared_run root [] [OpWalk prunes] = prover_run H path_eqb root [OpWalk prunes].
Proof.
  cbn [shared_run shared_step prover_run prover_step run_op app]. reflexivity.
Qed.
End Shared.

(* is the cell at [path] of the body of a proof a pruned branch? *)
Definition pruned_at (r : option (option (res cell))) (path : list nat) : option bool :=
  match r with
  | Some (Some (Ok (Cell _ _ _ _ [body]))) =>
      match subcell body path with
      | Some (Cell special ty _ _ _) => Some (is_pruned special ty)
      | None => None
      end
  | _ => None
  end.

Definition wit_root : cell :=
  Cell false 0 0 [true] [Cell false 0 0 [true; false] []; Cell false 0 0 [false; true; true] []].
Definition wit_ops : list op := [OpWalk [[1%nat]]; OpWalk [[0%nat]]].

(** second operation: prune the left child only.  Alone (and in the model of
    the real prover) the right child stays; with the shared set it is gone. *)
Theorem shared_pruned_set_refuted :
  pruned_at (nth_error (prover_run sha256 path_eqb wit_root wit_ops) 1) [1%nat] = Some false /\
  pruned_at (nth_error (shared_run sha256 wit_root [] wit_ops) 1) [1%nat] = Some true /\
  nth_error (shared_run sha256 wit_root [] wit_ops) 1 <>
  nth_error (map (run_op sha256 path_eqb wit_root) wit_ops) 1.
Proof.
  assert (A : pruned_at (nth_error (prover_run sha256 path_eqb wit_root wit_ops) 1) [1%nat] = Some false)
    by (vm_compute; reflexivity).
  assert (B : pruned_at (nth_error (shared_run sha256 wit_root [] wit_ops) 1) [1%nat] = Some true)
    by (vm_compute; reflexivity).
  split; [exact A|]. split; [exact B|].
  intros E. pose proof (prover_run_map sha256 path_eqb wit_root wit_ops) as M.
  assert (C : Some false = Some true) by congruence. discriminate C.
Qed.
