(** Cost of VmStack lists, snake data and dictionaries (Model/TlbHand.v). *)
From Coq Require Import List NArith ZArith Arith Lia Bool.
From Tongo Require Import Lib.Bits Lib.Res Spec.Dict Model.Hashmap Model.TlbCore Model.TlbTotal
     Proofs.TlbTotalP Model.TlbHand Proofs.TlbHandP Proofs.TlbHandR Proofs.TlbHandR2.
Import ListNotations.
Local Open Scope N_scope.

Lemma ypost_ret_chg {A} (P : A -> Prop) a n st b : P a -> n <= b -> ypost P b st (yret a (chg n st)).
Proof. intros H Hn. split; cbn [fst snd yret]; [rewrite cost_chg; lia | exact H]. Qed.

Lemma ysub_first k b c1 r : ysub (mkys k b r) (slice_of (XT k b (c1 :: r))).
Proof. split; cbn; [lia | exists [c1]; reflexivity]. Qed.

(** * getStackListItems: 2 x size + 912 x height^2, whatever depth is announced *)
Definition vm_list_bound (c : xtree) : N := 2 * tsz c + 912 * (thg c * thg c).

Lemma vm_list_cost : forall c depth st,
  ypost (fun r => fst r <= thg c /\ ysub (snd r) (slice_of c)) (vm_list_bound c) st (vm_list c depth st).
Proof.
  induction c as [k b refs IH] using xtree_ind'. intros depth st. unfold vm_list_bound.
  cbn [vm_list]. lazy zeta.
  pose proof (thg_pos (XT k b refs)) as Hh. pose proof (tsz_pos (XT k b refs)) as Ht.
  eapply ypost_weaken with (b := (2 * tsz (XT k b refs) + 912 * (thg (XT k b refs) * thg (XT k b refs)) - 1) + 1)
                           (P := fun r => fst r <= thg (XT k b refs) /\ ysub (snd r) (slice_of (XT k b refs)));
    [apply ypost_tick | lia | auto].
  apply ypost_if.
  { apply ypost_ret. split; [cbn [fst]; lia | apply ysub_refl]. }
  destruct refs as [ | rest refs']; [apply ypost_err; discriminate|].
  inversion IH as [ | ? ? Hrest _]; subst.
  set (a := thg rest). set (tv := tsz (XT k b refs')).
  assert (Hh2 : a + 1 <= thg (XT k b (rest :: refs'))) by (rewrite thg_cons; unfold a; lia).
  assert (Ht2 : tsz (XT k b (rest :: refs')) = tsz rest + tv) by (rewrite tsz_cons; reflexivity).
  pose proof (sq_step a _ Hh2) as Hsq.
  pose proof (tsz_pos (XT k b refs')) as Htv. fold tv in Htv.
  eapply ypost_weaken.
  - eapply ypost_bind with (b2 := tv + 912 * (a + 1))
        (Q := fun r => fst r <= a + 1 /\ ysub (snd r) (mkys k b refs')).
    + apply (Hrest (N.pred depth) (tickc st)).
    + intros r st' [Hn _]. fold a in Hn.
      eapply ypost_weaken with (b := (tv + 608 * (fst r + 1)) + VM_VALUE_SIZE * fst r)
                               (P := fun r0 => fst r0 <= a + 1 /\ ysub (snd r0) (mkys k b refs')).
      * apply ypost_chg.
        eapply ypost_bind with (b1 := tv) (b2 := 608 * (fst r + 1))
               (P := fun s2 => ysub s2 (slice_of (XT k b refs'))).
        -- apply (vmw_cost (XT k b refs') None).
        -- intros s2 st2 Hs2. apply ypost_ret_chg.
           ++ split; [cbn [fst]; lia | exact Hs2].
           ++ unfold VM_VALUE_SIZE. lia.
      * unfold VM_VALUE_SIZE. lia.
      * auto.
  - unfold vm_list_bound. fold a. unfold VM_VALUE_SIZE. rewrite Ht2. lia.
  - intros r [Hn Hs]. split; [lia|].
    eapply ysub_trans; [exact Hs | apply ysub_first].
Qed.

(** the quadratic term is real: an honest stack of n tiny integers *)
Fixpoint honest_stack (n : nat) : xtree :=
  match n with
  | O => XT 0 [] []
  | S m => XT 0 (bits_of 8 1 ++ bits_of 64 42) [honest_stack m]
  end.

Example vm_list_quadratic_64 :
  let r := vm_list (honest_stack 64) 64 (mkct 0 0) in
  (exists s, fst r = Ok (64, s)) /\ 304 * (64 * 64) <= c_alloc (snd r).
Proof. vm_compute. split; [eexists; reflexivity | discriminate]. Qed.

(** * snake data: 66 x size x height *)
Lemma bits_le_w b : N.of_nat (length b) <= 8 * cell_w b.
Proof.
  unfold cell_w. set (n := N.of_nat (length b)).
  pose proof (N.div_mod' n 8). pose proof (N.mod_lt n 8). lia.
Qed.

Lemma div8_le (x t : N) : x <= 8 * t -> x / 8 <= t.
Proof.
  intros H. assert (H1 : x / 8 <= (8 * t) / 8) by (apply N.div_le_mono; lia).
  rewrite N.mul_comm, N.div_mul in H1; lia.
Qed.

Lemma snake_cost : forall c st,
  ypost (fun r => fst r <= 8 * tsz c /\ ysub (snd r) (slice_of c)) (66 * tsz c * thg c) st (snake c st).
Proof.
  induction c as [k b refs IH] using xtree_ind'. intros st.
  cbn [snake]. lazy zeta.
  pose proof (bits_le_w b) as Hown. pose proof (cell_w_pos b) as Hw.
  set (t := tsz (XT k b refs)). set (h := thg (XT k b refs)).
  assert (Hh : 1 <= h) by apply thg_pos.
  assert (Ht : cell_w b <= t) by (unfold t; rewrite tsz_rsz; lia).
  assert (Hth : 66 * t <= 66 * t * h).
  { rewrite <- (N.mul_1_r (66 * t)) at 1. apply N.mul_le_mono_l. exact Hh. }
  eapply ypost_weaken with (b := (66 * t * h - 1) + 1)
                           (P := fun r => fst r <= 8 * t /\ ysub (snd r) (slice_of (XT k b refs)));
    [apply ypost_tick | lia | auto].
  apply ypost_if; [apply ypost_err; discriminate|].
  destruct refs as [ | c1 r'].
  - apply ypost_ret_chg.
    + split; [cbn [fst]; lia | split; cbn; [lia | exists []; reflexivity]].
    + assert (N.of_nat (length b) / 8 <= cell_w b) by (apply div8_le; exact Hown). lia.
  - inversion IH as [ | ? ? Hc1 _]; subst.
    set (t1 := tsz c1) in *. set (h1 := thg c1) in *.
    assert (Ht1 : t = t1 + tsz (XT k b r')) by (unfold t; rewrite tsz_cons; reflexivity).
    assert (Hh1 : h1 + 1 <= h) by (unfold h; rewrite thg_cons; lia).
    pose proof (tsz_rsz k b r') as Hr.
    assert (Hq : 66 * t1 * h1 + 66 * t <= 66 * t * h) by (apply quad_step; lia).
    eapply ypost_weaken.
    + eapply ypost_bind with (b2 := t + 64)
          (Q := fun r => fst r <= 8 * t /\ ysub (snd r) (slice_of (XT k b (c1 :: r')))).
      * apply (Hc1 (tickc st)).
      * intros r st' [Hn _]. fold t1 in Hn.
        assert (Hsum : N.of_nat (length b) + fst r <= 8 * t) by lia.
        apply ypost_ret_chg.
        -- split; [cbn [fst]; exact Hsum | split; cbn; [lia | exists [c1]; reflexivity]].
        -- pose proof (div8_le _ _ Hsum). lia.
    + lia.
    + auto.
Qed.

(** * dictionaries *)
Definition wt (K H : N) (c : xtree) : N := K * tsz c * H.

Lemma wt_cons K H k b c1 r : wt K H (XT k b (c1 :: r)) = wt K H c1 + wt K H (XT k b r).
Proof. unfold wt. rewrite tsz_cons. rewrite N.mul_add_distr_l, N.mul_add_distr_r. reflexivity. Qed.
Lemma wt_add K1 K2 H c : wt (K1 + K2) H c = wt K1 H c + wt K2 H c.
Proof. unfold wt. rewrite !N.mul_add_distr_r. reflexivity. Qed.
Lemma wt_ge K H c : 1 <= H -> K <= wt K H c.
Proof.
  intros HH. unfold wt. pose proof (tsz_pos c).
  assert (K * 1 * 1 <= K * tsz c * H).
  { apply N.mul_le_mono; [apply N.mul_le_mono_l|]; assumption. }
  lia.
Qed.
Lemma wt_mono K H a b : tsz a <= tsz b -> wt K H a <= wt K H b.
Proof. intros Hl. unfold wt. apply N.mul_le_mono_r. apply N.mul_le_mono_l. exact Hl. Qed.
Lemma wt_sub K H s' s : ysub s' s -> wt K H (cell_of s') <= wt K H (cell_of s).
Proof. intros Hs. apply wt_mono. apply ysub_tsz. exact Hs. Qed.

Lemma read_unary_len l n t : read_unary l = Ok (n, t) -> (length t <= length l)%nat.
Proof.
  revert n t. induction l as [ | [ | ] l IH]; intros n t; cbn; try discriminate.
  - destruct (read_unary l) as [[n1 t1] | | ]; cbn; try discriminate.
    intros E; inversion E; subst. specialize (IH n1 t eq_refl). lia.
  - intros E; inversion E; subst. lia.
Qed.

Lemma load_label_len m room c lbl rest :
  load_label m room c = Ok (lbl, rest) -> (length rest <= length c)%nat.
Proof.
  unfold load_label. destruct c as [ | [ | ] c1]; try discriminate.
  - destruct c1 as [ | [ | ] c2]; try discriminate.
    + destruct c2 as [ | b c3]; [discriminate|].
      unfold read_lim. destruct (short _ c3); cbn [bind]; [discriminate|].
      destruct (_ <? _); [discriminate|]. intros E; inversion E; subst.
      cbn [length]. rewrite skipn_length. lia.
    + unfold read_lim. destruct (short _ c2); cbn [bind]; [discriminate|].
      destruct (_ <? _); [discriminate|]. destruct (short _ _); [discriminate|].
      intros E; inversion E; subst. cbn [length]. rewrite !skipn_length. lia.
  - destruct (read_unary c1) as [[ln c2] | | ] eqn:Eu; cbn [bind]; try discriminate.
    destruct (short ln c2); [discriminate|]. destruct (_ <? _)%nat; [discriminate|].
    intros E; inversion E; subst. pose proof (read_unary_len _ _ _ Eu).
    cbn [length]. rewrite skipn_length. lia.
Qed.

Section DictCost.
  Variable V : ys -> ct -> yres ys.
  Variable E : option (ys -> ct -> yres ys).
  Variables (n : nat) (vsz : N) (H Uv Ue : N).
  Hypothesis HH : 1 <= H.
  Hypothesis HV : forall s st, thg (cell_of s) <= H ->
    ypost (fun s' => ysub s' s) (wt Uv H (cell_of s)) st (V s st).
  Hypothesis HE : forall e, E = Some e -> forall s st, thg (cell_of s) <= H ->
    ypost (fun s' => ysub s' s) (wt Ue H (cell_of s)) st (e s st).

  Definition hm_k : N := Uv + Ue + (1 + fork_charge n + leaf_charge n vsz).

  Lemma with_extra_cost s st : thg (cell_of s) <= H ->
    ypost (fun s' => ysub s' s) (wt Ue H (cell_of s)) st (with_extra E s st).
  Proof.
    intros Hs. unfold with_extra. destruct E as [e | ] eqn:Ee.
    - apply (HE e eq_refl); exact Hs.
    - apply ypost_ret. apply ysub_refl.
  Qed.

  Lemma hm_tree_cost : forall c left plen st, thg c <= H ->
    ypost (fun s' => ysub s' (slice_of c)) (wt hm_k H c) st (hm_tree V E n vsz left c plen st).
  Proof.
    induction c as [k b refs IH] using xtree_ind'. intros left plen st Hc.
    cbn [hm_tree]. lazy zeta.
    set (c0 := 1 + fork_charge n + leaf_charge n vsz).
    assert (Hk : forall x, wt hm_k H x = wt Uv H x + wt Ue H x + wt c0 H x).
    { intros x. unfold hm_k. fold c0. rewrite !wt_add. reflexivity. }
    pose proof (wt_ge c0 H (XT k b refs) HH) as Hc0.
    eapply ypost_weaken with (b := (wt hm_k H (XT k b refs) - 1) + 1)
                             (P := fun s' => ysub s' (slice_of (XT k b refs)));
      [apply ypost_tick | rewrite Hk; unfold c0 in *; lia | auto].
    apply ypost_if; [apply ypost_ret; apply ysub_refl|].
    eapply ypost_weaken.
    - eapply ypost_bind with (b1 := 0) (b2 := wt hm_k H (XT k b refs) - 1)
        (P := fun lr => (length (snd lr) <= length b)%nat)
        (Q := fun s' => ysub s' (slice_of (XT k b refs))).
      + apply ypost_lift; [apply good_load_label|]. intros [lbl rest] El. cbn [snd].
        apply (load_label_len _ _ _ _ _ El).
      + intros [lbl rest] st1 Hrest. cbn [snd] in Hrest.
        apply ypost_if.
        * (* fork *)
          destruct refs as [ | l refs']; [apply ypost_err; discriminate|].
          inversion IH as [ | ? ? Hl Hr0]; subst.
          destruct refs' as [ | r refs''].
          { eapply ypost_weaken.
            - eapply ypost_bind with (b2 := 0) (Q := fun s' => ysub s' (slice_of (XT k b [l]))).
              + apply ypost_chg. apply Hl. rewrite thg_cons in Hc. lia.
              + intros _ st2 _. apply ypost_err. discriminate.
            - rewrite (wt_cons hm_k H k b l []). rewrite (Hk (XT k b [])).
              pose proof (wt_ge c0 H (XT k b []) HH). unfold c0 in *. lia.
            - auto. }
          inversion Hr0 as [ | ? ? Hr _]; subst.
          assert (Hcl : thg l <= H) by (rewrite thg_cons in Hc; lia).
          assert (Hcr : thg r <= H) by (rewrite !thg_cons in Hc; lia).
          assert (Hcv : thg (XT k rest refs'') <= H).
          { rewrite (thg_kb k rest k b). rewrite !thg_cons in Hc. lia. }
          eapply ypost_weaken.
          -- eapply ypost_bind with (b2 := wt hm_k H r + wt Ue H (XT k rest refs''))
                 (Q := fun s' => ysub s' (mkys k rest refs'')).
             ++ apply ypost_chg. apply (Hl _ _ _ Hcl).
             ++ intros _ st2 _.
                eapply ypost_bind with (Q := fun s' => ysub s' (mkys k rest refs'')).
                ** apply (Hr _ _ st2 Hcr).
                ** intros _ st3 _. apply (with_extra_cost (mkys k rest refs'') st3 Hcv).
          -- rewrite (wt_cons hm_k H k b l (r :: refs'')), (wt_cons hm_k H k b r refs'').
             rewrite (Hk (XT k b refs'')).
             pose proof (wt_ge c0 H (XT k b refs'') HH).
             assert (wt Ue H (XT k rest refs'') <= wt Ue H (XT k b refs'')).
             { apply wt_mono. apply tsz_bits. exact Hrest. }
             unfold c0 in *. lia.
          -- intros s' Hs'. eapply ysub_trans; [exact Hs'|].
             split; cbn; [exact Hrest | exists [l; r]; reflexivity].
        * (* leaf *)
          assert (Hcv : thg (cell_of (mkys k rest refs)) <= H).
          { unfold cell_of; cbn [yk yb yr]. rewrite (thg_kb k rest k b). exact Hc. }
          assert (Hw0 : forall K, wt K H (XT k rest refs) <= wt K H (XT k b refs)).
          { intros K. apply wt_mono. apply tsz_bits. exact Hrest. }
          eapply ypost_weaken.
          -- eapply ypost_bind with (b2 := wt Uv H (XT k rest refs) + leaf_charge n vsz)
                 (Q := fun s' => ysub s' (mkys k rest refs)).
             ++ apply (with_extra_cost (mkys k rest refs) st1 Hcv).
             ++ intros s1 st2 Hs1.
                eapply ypost_bind with (Q := fun s' => ysub s' (mkys k rest refs)).
                ** eapply ypost_weaken.
                   --- apply (HV s1 st2). etransitivity; [apply ysub_thg; exact Hs1 | exact Hcv].
                   --- apply (wt_sub Uv H s1 (mkys k rest refs) Hs1).
                   --- intros s2 Hs2. eapply ysub_trans; [exact Hs2 | exact Hs1].
                ** intros s2 st3 Hs2. apply ypost_ret_chg; [exact Hs2 | lia].
          -- unfold cell_of; cbn [yk yb yr]. rewrite (Hk (XT k b refs)).
             pose proof (Hw0 Uv). pose proof (Hw0 Ue). unfold c0 in *. lia.
          -- intros s' Hs'. eapply ysub_trans; [exact Hs'|].
             split; cbn; [exact Hrest | exists []; reflexivity].
    - lia.
    - auto.
  Qed.
End DictCost.
