(** Cost of decodeRecursiveBinTree and of decoding its leaves (Model/TlbHand.v). *)
From Coq Require Import List NArith ZArith Arith Lia Bool.
From Tongo Require Import Lib.Bits Lib.Res Spec.Dict Model.Hashmap Model.TlbCore Model.TlbTotal
     Proofs.TlbTotalP Model.TlbHand Proofs.TlbHandP Proofs.TlbHandR Proofs.TlbHandR2 Proofs.TlbHandR3.
Import ListNotations.
Local Open Scope N_scope.

Definition lsz (l : list ys) : N := fold_right (fun x a => tsz (cell_of x) + a) 0 l.
Lemma lsz_app a b : lsz (a ++ b) = lsz a + lsz b.
Proof. unfold lsz. induction a as [ | x a IH]; cbn [app fold_right]; [reflexivity | rewrite IH; lia]. Qed.

Lemma quad_step2 (A tl tr t hl hr h : N) :
  tl + tr + 1 <= t -> hl + 1 <= h -> hr + 1 <= h ->
  A * tl * hl + A * tr * hr + A * (tl + tr) + A <= A * t * h.
Proof.
  intros Ht Hl Hr.
  assert (Hh : exists h', h = h' + 1) by (exists (h - 1); lia). destruct Hh as [h' ->].
  assert (H1 : A * tl * hl <= A * tl * h') by (apply N.mul_le_mono_l; lia).
  assert (H2 : A * tr * hr <= A * tr * h') by (apply N.mul_le_mono_l; lia).
  assert (H3 : A * (tl + tr + 1) * (h' + 1) <= A * t * (h' + 1)).
  { apply N.mul_le_mono_r. apply N.mul_le_mono_l. exact Ht. }
  rewrite !N.mul_add_distr_l, !N.mul_add_distr_r, !N.mul_1_r in H3. lia.
Qed.

Definition bt_ok (c : xtree) (L : list ys) : Prop :=
  Forall (fun x => thg (cell_of x) <= thg c) L /\ lsz L <= tsz c /\ N.of_nat (length L) <= tsz c.

Lemma bt_tree_cost : forall c st, ypost (bt_ok c) (9 * tsz c * thg c) st (bt_tree c st).
Proof.
  induction c as [k b refs IH] using xtree_ind'. intros st. cbn [bt_tree]. lazy zeta.
  set (t := tsz (XT k b refs)). set (h := thg (XT k b refs)).
  assert (Hh : 1 <= h) by apply thg_pos. assert (Ht : 1 <= t) by apply tsz_pos.
  assert (Hth : 9 <= 9 * t * h).
  { assert (9 * 1 * 1 <= 9 * t * h) by (apply N.mul_le_mono; [apply N.mul_le_mono_l|]; assumption). lia. }
  eapply ypost_weaken with (b := (9 * t * h - 1) + 1) (P := bt_ok (XT k b refs));
    [apply ypost_tick | lia | auto].
  destruct b as [ | [ | ] b'].
  - apply ypost_err. discriminate.
  - (* fork *)
    destruct refs as [ | l refs']; [apply ypost_err; discriminate|].
    inversion IH as [ | ? ? Hl Hr0]; subst.
    destruct refs' as [ | r refs''].
    { eapply ypost_weaken.
      - eapply ypost_bind with (b2 := 0) (Q := bt_ok (XT k (true :: b') [l])).
        + apply Hl.
        + intros _ st2 _. apply ypost_err. discriminate.
      - subst t h. rewrite tsz_cons, thg_cons.
        pose proof (tsz_pos (XT k (true :: b') [])). pose proof (thg_pos l).
        pose proof (quad_step 9 (tsz l) (tsz l + tsz (XT k (true :: b') [])) (thg l) (N.max (thg l + 1) (thg (XT k (true :: b') [])))).
        lia.
      - auto. }
    inversion Hr0 as [ | ? ? Hr _]; subst.
    subst t h. set (t := tsz (XT k (true :: b') (l :: r :: refs''))) in *.
    set (h := thg (XT k (true :: b') (l :: r :: refs''))) in *.
    set (tl := tsz l) in *. set (tr := tsz r) in *. set (hl := thg l) in *. set (hr := thg r) in *.
    assert (Htt : tl + tr + 1 <= t).
    { unfold t. rewrite !tsz_cons. pose proof (tsz_pos (XT k (true :: b') refs'')). fold tl tr. lia. }
    assert (Hhl : hl + 1 <= h) by (unfold h; rewrite thg_cons; fold hl; lia).
    assert (Hhr : hr + 1 <= h) by (unfold h; rewrite !thg_cons; fold hr; lia).
    pose proof (quad_step2 9 tl tr t hl hr h Htt Hhl Hhr) as Hq.
    eapply ypost_weaken.
    + eapply ypost_bind with (P := bt_ok l) (b2 := 8 * tl + 9 * tr * hr + 8 * tr)
                             (Q := bt_ok (XT k (true :: b') (l :: r :: refs''))).
      * apply Hl.
      * intros ll st1 [Hfl [Hsl Hnl]]. fold tl in Hsl, Hnl.
        eapply ypost_weaken with (b := (9 * tr * hr + 8 * tr) + 8 * N.of_nat (length ll))
                                 (P := bt_ok (XT k (true :: b') (l :: r :: refs''))).
        -- apply ypost_chg.
           eapply ypost_bind with (P := bt_ok r) (b2 := 8 * tr).
           ++ apply Hr.
           ++ intros lr st2 [Hfr [Hsr Hnr]]. fold tr in Hsr, Hnr.
              apply ypost_ret_chg; [|lia].
              split; [|split].
              ** apply Forall_app. split.
                 --- eapply Forall_impl; [|exact Hfl]. intros x Hx. cbv beta in Hx. fold hl in Hx. unfold h in Hhl. lia.
                 --- eapply Forall_impl; [|exact Hfr]. intros x Hx. cbv beta in Hx. fold hr in Hx. unfold h in Hhr. lia.
              ** rewrite lsz_app. unfold t in Htt. lia.
              ** rewrite app_length, Nat2N.inj_add. unfold t in Htt. lia.
        -- lia.
        -- auto.
    + lia.
    + auto.
  - (* leaf *)
    apply ypost_ret. split; [|split].
    + constructor; [|constructor]. unfold cell_of; cbn [yk yb yr].
      rewrite (thg_kb k b' k (false :: b')). fold h. lia.
    + unfold lsz; cbn [fold_right]. unfold cell_of; cbn [yk yb yr].
      pose proof (tsz_bits k (false :: b') k b' refs). fold t in H. cbn [length] in H. lia.
    + cbn [length]. lia.
Qed.

Section Leaves.
  Variable V : ys -> ct -> yres ys.
  Variables (H Uv : N).
  Hypothesis HV : forall s st, thg (cell_of s) <= H ->
    ypost (fun s' => ysub s' s) (wt Uv H (cell_of s)) st (V s st).

  (* the result is [last] or what is left of one of the leaves *)
  Lemma bt_leaves_cost : forall ls last st, Forall (fun x => thg (cell_of x) <= H) ls ->
    ypost (fun s' => s' = last \/ exists x, In x ls /\ ysub s' x) (Uv * lsz ls * H) st (bt_leaves V ls last st).
  Proof.
    induction ls as [ | x t IH]; intros last st HF; cbn [bt_leaves].
    - apply ypost_ret. left. reflexivity.
    - inversion HF as [ | ? ? Hx Ht]; subst.
      eapply ypost_weaken.
      + eapply ypost_bind with (b2 := Uv * lsz t * H)
            (Q := fun s' => s' = last \/ exists y, In y (x :: t) /\ ysub s' y).
        * apply (HV x st Hx).
        * intros s1 st1 Hs1. eapply ypost_weaken; [apply (IH s1 st1 Ht) | lia|].
          intros a [-> | [y [Hy Hs]]]; right; [exists x | exists y]; split; auto; [now left | now right].
      + unfold wt. unfold lsz at 2. cbn [fold_right]. fold (lsz t).
        rewrite N.mul_add_distr_l, N.mul_add_distr_r. lia.
      + auto.
  Qed.
End Leaves.
