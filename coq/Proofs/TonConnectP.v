(** C19 — proofs about the model of tonconnect.CheckProof (Model/TonConnect.v). *)
From Coq Require Import String Ascii List NArith ZArith Bool Lia.
From Tongo Require Import Lib.Bits Lib.Res Model.TonConnect.
Import ListNotations.
Local Open Scope Z_scope.

(** * Byte strings *)

Lemma beqb_eq a : forall b, beqb a b = true -> a = b.
Proof.
  induction a as [|x a IH]; intros [|y b] Hb; cbn in Hb; try discriminate; auto.
  apply andb_true_iff in Hb as [Hx Hr]. apply N.eqb_eq in Hx. f_equal; auto.
Qed.

Lemma beqb_refl a : beqb a a = true.
Proof. induction a as [|x a IH]; cbn; auto. rewrite N.eqb_refl, IH. reflexivity. Qed.

Lemma beqb_neq a b : a <> b -> beqb a b = false.
Proof. intros Hn. destruct (beqb a b) eqn:E; auto. apply beqb_eq in E. contradiction. Qed.

Lemma app_inv_len {A} (l1 l2 r1 r2 : list A) :
  l1 ++ r1 = l2 ++ r2 -> length l1 = length l2 -> l1 = l2 /\ r1 = r2.
Proof.
  revert l2. induction l1 as [|x l1 IH]; intros [|y l2] He Hl; cbn in *; try discriminate; auto.
  injection He as -> He. injection Hl as Hl. destruct (IH _ He Hl) as [-> ->]. auto.
Qed.

(** * Fixed-width integers *)

Lemma byte_at_lt u k : (byte_at u k < 256)%N.
Proof.
  unfold byte_at. assert (0 <= (u / 2 ^ (8 * k)) mod 256 < 256) by (apply Z.mod_pos_bound; lia). lia.
Qed.

Lemma be32_length z : length (be32 z) = 4%nat. Proof. reflexivity. Qed.
Lemma le32_length z : length (le32 z) = 4%nat. Proof. reflexivity. Qed.
Lemma le64_length z : length (le64 z) = 8%nat. Proof. reflexivity. Qed.

Lemma byte_at_inj u v k :
  byte_at u k = byte_at v k -> (u / 2 ^ (8 * k)) mod 256 = (v / 2 ^ (8 * k)) mod 256.
Proof.
  unfold byte_at. intros He.
  assert (Hu : 0 <= (u / 2 ^ (8 * k)) mod 256 < 256) by (apply Z.mod_pos_bound; lia).
  assert (Hv : 0 <= (v / 2 ^ (8 * k)) mod 256 < 256) by (apply Z.mod_pos_bound; lia).
  apply (f_equal Z.of_N) in He. rewrite !Z2N.id in He; lia.
Qed.

Lemma u32_bytes u v :
  0 <= u < 2 ^ 32 -> 0 <= v < 2 ^ 32 ->
  (u / 2 ^ (8 * 0)) mod 256 = (v / 2 ^ (8 * 0)) mod 256 ->
  (u / 2 ^ (8 * 1)) mod 256 = (v / 2 ^ (8 * 1)) mod 256 ->
  (u / 2 ^ (8 * 2)) mod 256 = (v / 2 ^ (8 * 2)) mod 256 ->
  (u / 2 ^ (8 * 3)) mod 256 = (v / 2 ^ (8 * 3)) mod 256 -> u = v.
Proof.
  intros Hu Hv. change (2 ^ (8 * 0)) with 1. change (2 ^ (8 * 1)) with 256.
  change (2 ^ (8 * 2)) with 65536. change (2 ^ (8 * 3)) with 16777216.
  change (2 ^ 32) with 4294967296 in *.
  intros H0 H1 H2 H3. Z.div_mod_to_equations. lia.
Qed.

Lemma be32_inj a b : - 2 ^ 31 <= a < 2 ^ 31 -> - 2 ^ 31 <= b < 2 ^ 31 -> be32 a = be32 b -> a = b.
Proof.
  intros Ha Hb He. unfold be32 in He. injection He as H3 H2 H1 H0.
  apply byte_at_inj in H0, H1, H2, H3.
  assert (Hm : a mod 2 ^ 32 = b mod 2 ^ 32).
  { apply u32_bytes; auto; apply Z.mod_pos_bound; lia. }
  change (2 ^ 32) with 4294967296 in Hm. change (2 ^ 31) with 2147483648 in *.
  Z.div_mod_to_equations. lia.
Qed.

Lemma le32_inj a b : 0 <= a < 2 ^ 32 -> 0 <= b < 2 ^ 32 -> le32 a = le32 b -> a = b.
Proof.
  intros Ha Hb He. unfold le32 in He. injection He as H0 H1 H2 H3.
  apply byte_at_inj in H0, H1, H2, H3. change (Z.pow_pos 2 32) with (2 ^ 32) in *.
  rewrite (Z.mod_small a), (Z.mod_small b) in H0, H1, H2, H3 by lia. apply u32_bytes; auto.
Qed.

Lemma u64_split u : 0 <= u < 2 ^ 64 -> u = (u mod 2 ^ 32) + 2 ^ 32 * (u / 2 ^ 32) /\ 0 <= u / 2 ^ 32 < 2 ^ 32.
Proof.
  intros Hu. change (2 ^ 64) with 18446744073709551616 in Hu. change (2 ^ 32) with 4294967296.
  Z.div_mod_to_equations. lia.
Qed.

Lemma div_div_pow u a b : 0 <= a -> 0 <= b -> u / 2 ^ a / 2 ^ b = u / 2 ^ (a + b).
Proof. intros Ha Hb. rewrite Z.div_div by lia. rewrite <- Z.pow_add_r by lia. reflexivity. Qed.

Lemma byte_lo0 u : ((u mod 4294967296) / 1) mod 256 = (u / 1) mod 256.
Proof. Z.div_mod_to_equations. lia. Qed.
Lemma byte_lo1 u : ((u mod 4294967296) / 256) mod 256 = (u / 256) mod 256.
Proof. Z.div_mod_to_equations. lia. Qed.
Lemma byte_lo2 u : ((u mod 4294967296) / 65536) mod 256 = (u / 65536) mod 256.
Proof. Z.div_mod_to_equations. lia. Qed.
Lemma byte_lo3 u : ((u mod 4294967296) / 16777216) mod 256 = (u / 16777216) mod 256.
Proof. Z.div_mod_to_equations. lia. Qed.

Lemma le64_inj a b : - 2 ^ 63 <= a < 2 ^ 63 -> - 2 ^ 63 <= b < 2 ^ 63 -> le64 a = le64 b -> a = b.
Proof.
  intros Ha Hb He. unfold le64 in He. injection He as H0 H1 H2 H3 H4 H5 H6 H7.
  apply byte_at_inj in H0, H1, H2, H3, H4, H5, H6, H7. change (Z.pow_pos 2 64) with (2 ^ 64) in *.
  set (u := a mod 2 ^ 64) in *. set (v := b mod 2 ^ 64) in *.
  assert (Hu : 0 <= u < 2 ^ 64) by (apply Z.mod_pos_bound; lia).
  assert (Hv : 0 <= v < 2 ^ 64) by (apply Z.mod_pos_bound; lia).
  destruct (u64_split u Hu) as [Eu Bu]. destruct (u64_split v Hv) as [Ev Bv].
  assert (Hlo : u mod 2 ^ 32 = v mod 2 ^ 32).
  { apply u32_bytes; try (apply Z.mod_pos_bound; lia).
    - change (2 ^ (8 * 0)) with 1 in *. change (2 ^ 32) with 4294967296. rewrite !byte_lo0. exact H0.
    - change (2 ^ (8 * 1)) with 256 in *. change (2 ^ 32) with 4294967296. rewrite !byte_lo1. exact H1.
    - change (2 ^ (8 * 2)) with 65536 in *. change (2 ^ 32) with 4294967296. rewrite !byte_lo2. exact H2.
    - change (2 ^ (8 * 3)) with 16777216 in *. change (2 ^ 32) with 4294967296. rewrite !byte_lo3. exact H3. }
  assert (Hhi : u / 2 ^ 32 = v / 2 ^ 32).
  { apply u32_bytes; auto.
    all: rewrite !div_div_pow by lia; assumption. }
  assert (Huv : u = v) by lia.
  subst u v. change (2 ^ 64) with 18446744073709551616 in Huv. change (2 ^ 63) with 9223372036854775808 in *.
  clear - Ha Hb Huv. Z.div_mod_to_equations. lia.
Qed.

(** * The signed byte string determines the fields (for addresses of equal length) *)

Definition fields_in_range (p : parsed) : Prop :=
  - 2 ^ 31 <= m_wc p < 2 ^ 31 /\ blen (m_domain p) < 2 ^ 32 /\ - 2 ^ 63 <= m_ts p < 2 ^ 63.

Definition same_fields (p1 p2 : parsed) : Prop :=
  m_wc p1 = m_wc p2 /\ m_addr p1 = m_addr p2 /\ m_domain p1 = m_domain p2 /\
  m_ts p1 = m_ts p2 /\ m_payload p1 = m_payload p2.

Lemma message_layout_injective p1 p2 :
  fields_in_range p1 -> fields_in_range p2 ->
  length (m_addr p1) = length (m_addr p2) ->
  message_layout p1 = message_layout p2 -> same_fields p1 p2.
Proof.
  intros (Hw1 & Hd1 & Ht1) (Hw2 & Hd2 & Ht2) Hlen He.
  unfold message_layout in He. apply app_inv_head in He.
  apply app_inv_len in He as [Hwc He]; [|reflexivity].
  apply app_inv_len in He as [Haddr He]; [|exact Hlen].
  apply app_inv_len in He as [Hdl He]; [|reflexivity].
  assert (Hbl : blen (m_domain p1) = blen (m_domain p2)).
  { apply le32_inj; auto; unfold blen in *; lia. }
  apply app_inv_len in He as [Hdom He]; [|unfold blen in Hbl; lia].
  apply app_inv_len in He as [Hts He]; [|reflexivity].
  repeat split; auto.
  - apply be32_inj; auto.
  - apply le64_inj; auto.
Qed.

(* without the premise on the address lengths the layout is ambiguous *)
Definition amb1 : parsed := mkParsed 0 (repeat 0%N 32) 578437695752307201 [] [] [112%N].
Definition amb2 : parsed := mkParsed 0 (repeat 0%N 28) 289077004400066560 [] [] [5; 6; 7; 8; 112]%N.

Lemma message_layout_ambiguous :
  message_layout amb1 = message_layout amb2 /\ fields_in_range amb1 /\ fields_in_range amb2 /\
  m_addr amb1 <> m_addr amb2 /\ m_ts amb1 <> m_ts amb2 /\ m_payload amb1 <> m_payload amb2.
Proof.
  split; [vm_compute; reflexivity|].
  repeat split; try (vm_compute; congruence); try discriminate.
Qed.

Definition collision (H : bytes -> bytes) : Prop := exists x y, x <> y /\ H x = H y.

Lemma create_message_binding H p1 p2 :
  create_message H p1 = create_message H p2 -> message_layout p1 = message_layout p2 \/ collision H.
Proof.
  intros He. unfold create_message in He.
  destruct (list_eq_dec N.eq_dec (message_layout p1) (message_layout p2)) as [E|N]; auto.
  right.
  destruct (list_eq_dec N.eq_dec (H (message_layout p1)) (H (message_layout p2))) as [E2|N2].
  - exists (message_layout p1), (message_layout p2). auto.
  - eexists _, _. split; [|exact He]. intros E3.
    apply app_inv_head in E3. apply app_inv_head in E3. contradiction.
Qed.

(** * Lengths of the keys that reach ed25519.Verify *)

Lemma key_of_int_length z k : key_of_int z = Some k -> length k = 32%nat.
Proof.
  unfold key_of_int. cbv zeta. set (b := be_min (Z.abs_N z)).
  destruct ((length b <? 24)%nat || (32 <? length b)%nat) eqn:E; [discriminate|].
  apply orb_false_iff in E as [_ E]. apply Nat.ltb_ge in E.
  set (n := (32 - length b)%nat). assert (Hn : (n + length b = 32)%nat) by (subst n; lia). clearbody n.
  intros [= <-]. rewrite app_length, repeat_length. exact Hn.
Qed.

Lemma get_wallet_pubkey_length r k : get_wallet_pubkey r = Some k -> length k = 32%nat.
Proof.
  destruct r as [|code st]; cbn; [discriminate|].
  destruct (negb _); [discriminate|].
  destruct st as [|[z|z|] [|? ?]]; try discriminate; apply key_of_int_length.
Qed.

Lemma Ok_inj {A} (a b : A) : @Ok A a = Ok b -> a = b.
Proof. intros H; injection H; auto. Qed.

Lemma bytes_of_bits_length n l : length (bytes_of_bits n l) = n.
Proof. revert l. induction n as [|n IH]; intros l; cbn; auto. Qed.

Lemma data_key_length ext_ok l d k : data_key ext_ok l d = Ok k -> length k = 32%nat.
Proof.
  unfold data_key. destruct (N.eqb _ _); [discriminate|].
  destruct (_ <? _)%nat; [discriminate|].
  destruct (l_dict l).
  - destruct (skipn (l_off l + 256) _) as [|[|] ?]; try discriminate.
    + destruct (c_refs d); [discriminate|]. destruct (ext_ok d); [|discriminate].
      intros Hk. apply Ok_inj in Hk. subst k. apply bytes_of_bits_length.
    + intros Hk. apply Ok_inj in Hk. subst k. apply bytes_of_bits_length.
  - intros Hk. apply Ok_inj in Hk. subst k. apply bytes_of_bits_length.
Qed.

Ltac break_matches :=
  repeat (match goal with
          | |- context [match ?x with _ => _ end] => destruct x
          | |- context [if ?x then _ else _] => destruct x
          end; cbn [bind fst snd is_panic]; try reflexivity; try discriminate).

Lemma parse_state_init_no_panic lib_ok r : is_panic (parse_state_init lib_ok r) = false.
Proof. unfold parse_state_init, rd_maybe_ref, rd_bit, rd_skip, rd_ref. break_matches. Qed.

Lemma data_key_no_panic ext_ok l d : is_panic (data_key ext_ok l d) = false.
Proof. unfold data_key. break_matches. Qed.

Lemma parse_account_id_no_panic s : is_panic (parse_account_id s) = false.
Proof. unfold parse_account_id. break_matches. Qed.

Lemma convert_no_panic b64 tp : is_panic (convert b64 tp) = false.
Proof. unfold convert. break_matches. Qed.

(** * The state-init fallback *)

Section Main.
  Variable H : bytes -> bytes.
  Variable verify : bytes -> bytes -> bytes -> bool.
  Variable b64 : bytes -> option bytes.
  Variable boc : bytes -> res (list cell).
  Variable lib_ok ext_ok : cell -> bool.
  Variable known : known_table.
  Variable exec : Z * bytes -> exec_result.
  Variable cp cd : bytes -> res bool.
  Variable lifetime now : Z.

  (* the state-init text [si] is a single cell that hashes to [addr], its code is a
     wallet with a known hash and a data layout, and [pk] is the key in its data *)
  Definition state_init_yields (addr si pk : bytes) : Prop :=
    exists root code data h l,
      boc si = Ok [root] /\ c_hash root = Some addr /\
      parse_state_init lib_ok root = Ok (Some code, Some data) /\
      c_hash code = Some h /\ lookup h known = Some (Some l) /\
      data_key ext_ok l data = Ok pk.

  Lemma parse_state_init_key_inv si k :
    parse_state_init_key boc lib_ok ext_ok known si = Ok k ->
    exists root code data h l,
      boc si = Ok [root] /\ parse_state_init lib_ok root = Ok (Some code, Some data) /\
      c_hash code = Some h /\ lookup h known = Some (Some l) /\ data_key ext_ok l data = Ok k.
  Proof.
    unfold parse_state_init_key. destruct (boc si) as [cells| |]; cbn [bind]; try discriminate.
    destruct cells as [|root [|? ?]]; try discriminate.
    destruct (parse_state_init lib_ok root) as [[code data]| |] eqn:Ep; cbn [bind]; try discriminate.
    destruct code as [c|]; [|destruct data; discriminate]. destruct data as [d|]; [|discriminate].
    destruct (c_hash c) as [h|] eqn:Eh; [|discriminate].
    destruct (lookup h known) as [[l|]|] eqn:El; try discriminate.
    intros Hk. exists root, c, d, h, l. repeat split; auto.
  Qed.

  Lemma compare_state_init_inv addr si :
    compare_state_init boc addr si = Ok true -> exists root, boc si = Ok [root] /\ c_hash root = Some addr.
  Proof.
    unfold compare_state_init. destruct (boc si) as [cells| |]; cbn [bind]; try discriminate.
    destruct cells as [|root [|? ?]]; try discriminate.
    destruct (c_hash root) as [h|] eqn:Eh; [|discriminate].
    intros Hb. apply Ok_inj in Hb. apply beqb_eq in Hb. subst. eauto.
  Qed.

  Definition key_from (acc : Z * bytes) (si pk : bytes) (src : key_source) : Prop :=
    match src with
    | FromGetMethod => get_wallet_pubkey (exec acc) = Some pk
    | FromStateInit =>
        get_wallet_pubkey (exec acc) = None /\ si <> [] /\ state_init_yields (snd acc) si pk
    end.

  Lemma wallet_key_inv acc si pk src :
    wallet_key boc lib_ok ext_ok known exec acc si = Ok (pk, src) -> key_from acc si pk src.
  Proof.
    unfold wallet_key, key_from. destruct (get_wallet_pubkey (exec acc)) as [k|] eqn:Eg.
    - intros Hk. apply Ok_inj in Hk. injection Hk as <- <-. reflexivity.
    - destruct si as [|s0 si']; [discriminate|]. set (si := s0 :: si') in *.
      destruct (compare_state_init boc (snd acc) si) as [ok| |] eqn:Ec; cbn [bind]; try discriminate.
      destruct ok; cbn [negb]; [|discriminate].
      destruct (parse_state_init_key boc lib_ok ext_ok known si) as [k| |] eqn:Ek; try discriminate.
      intros Hk. apply Ok_inj in Hk. injection Hk as <- <-.
      split; [reflexivity|]. split; [subst si; discriminate|].
      destruct (compare_state_init_inv _ _ Ec) as (root & Hb & Hh).
      destruct (parse_state_init_key_inv _ _ Ek) as (root' & c & d & h & l & Hb' & Hp & Hc & Hl & Hd).
      rewrite Hb in Hb'. injection Hb' as <-.
      exists root, c, d, h, l. repeat split; assumption.
  Qed.

  Lemma wallet_key_length acc si pk src :
    wallet_key boc lib_ok ext_ok known exec acc si = Ok (pk, src) -> length pk = 32%nat.
  Proof.
    intros Hw. apply wallet_key_inv in Hw. destruct src; cbn in Hw.
    - eapply get_wallet_pubkey_length; eauto.
    - destruct Hw as (_ & _ & root & c & d & h & l & _ & _ & _ & _ & _ & Hd).
      eapply data_key_length; eauto.
  Qed.

  Notation check_src := (check_proof_src H verify b64 boc lib_ok ext_ok known exec cp cd lifetime now).
  Notation check := (check_proof H verify b64 boc lib_ok ext_ok known exec cp cd lifetime now).

  (** ** accepted_implies *)
  Definition accepted_facts (tp : proof) (pk : bytes) (src : key_source) : Prop :=
    cp (p_payload tp) = Ok true /\
    exists pm acc,
      convert b64 tp = Ok pm /\
      expired now (m_ts pm) lifetime = false /\
      cd (m_domain pm) = Ok true /\
      parse_account_id (p_address tp) = Ok acc /\
      key_from acc (p_state_init tp) pk src /\
      length pk = 32%nat /\
      verify pk (create_message H pm) (m_sig pm) = true.

  Theorem accepted_implies_src tp pk src : check_src tp = Ok (pk, src) -> accepted_facts tp pk src.
  Proof.
    unfold check_proof_src, accepted_facts.
    destruct (cp (p_payload tp)) as [v| |] eqn:Ecp; cbn [bind]; try discriminate.
    destruct v; cbn [negb]; [|discriminate].
    destruct (convert b64 tp) as [pm| |] eqn:Ecv; cbn [bind]; try discriminate.
    destruct (expired now (m_ts pm) lifetime) eqn:Eex; [discriminate|].
    destruct (cd (m_domain pm)) as [ok| |] eqn:Ecd; cbn [bind]; try discriminate.
    destruct ok; cbn [negb]; [|discriminate].
    destruct (parse_account_id (p_address tp)) as [acc| |] eqn:Eacc; cbn [bind]; try discriminate.
    destruct (wallet_key boc lib_ok ext_ok known exec acc (p_state_init tp)) as [[k s]| |] eqn:Ewk;
      cbn [bind fst]; try discriminate.
    unfold ed_verify. pose proof (wallet_key_length _ _ _ _ Ewk) as Hlen. rewrite Hlen. cbn [Nat.eqb bind].
    change (Nat.eqb 32 32) with true. cbn [bind].
    destruct (verify k (create_message H pm) (m_sig pm)) eqn:Ev; [|discriminate].
    intros Hk. apply Ok_inj in Hk. injection Hk as <- <-.
    split; [reflexivity|]. exists pm, acc. repeat split; auto.
    apply wallet_key_inv; auto.
  Qed.

  Theorem accepted_implies tp pk : check tp = Ok pk -> exists src, accepted_facts tp pk src.
  Proof.
    unfold check_proof. destruct (check_src tp) as [[k s]| |] eqn:E; cbn; try discriminate.
    intros [= <-]. exists s. apply accepted_implies_src; auto.
  Qed.

  (** ** check_proof_total: no input makes CheckProof panic *)
  Theorem check_proof_total tp :
    (forall s, is_panic (cp s) = false) -> (forall s, is_panic (cd s) = false) ->
    (forall s, is_panic (boc s) = false) ->
    is_panic (check tp) = false.
  Proof.
    intros Hcp Hcd Hboc. unfold check_proof, check_proof_src.
    specialize (Hcp (p_payload tp)). destruct (cp (p_payload tp)) as [v| |]; cbn [bind res_map is_panic] in *; try discriminate; auto.
    destruct v; cbn [negb]; [|reflexivity].
    destruct (convert b64 tp) as [pm| |] eqn:Ecv; cbn [bind res_map is_panic]; auto.
    { destruct (expired now (m_ts pm) lifetime); [reflexivity|].
      specialize (Hcd (m_domain pm)). destruct (cd (m_domain pm)) as [ok| |]; cbn [bind res_map is_panic] in *; try discriminate; auto.
      destruct ok; cbn [negb]; [|reflexivity].
      destruct (parse_account_id (p_address tp)) as [acc| |] eqn:Eacc; cbn [bind res_map is_panic]; auto.
      { destruct (wallet_key boc lib_ok ext_ok known exec acc (p_state_init tp)) as [[k s]| |] eqn:Ewk;
          cbn [bind fst res_map is_panic]; auto.
        - unfold ed_verify. rewrite (wallet_key_length _ _ _ _ Ewk). change (Nat.eqb 32 32) with true. cbn [bind].
          destruct (verify _ _ _); reflexivity.
        - exfalso. revert Ewk. unfold wallet_key.
          destruct (get_wallet_pubkey (exec acc)); [discriminate|].
          destruct (p_state_init tp) as [|s0 si']; [discriminate|]. set (si := s0 :: si').
          unfold compare_state_init, parse_state_init_key.
          specialize (Hboc si). destruct (boc si) as [cells| |]; cbn [bind is_panic] in *; try discriminate.
          destruct cells as [|root [|? ?]]; cbn [bind]; try discriminate.
          destruct (c_hash root); cbn [bind]; [|discriminate].
          destruct (negb _); [discriminate|].
          pose proof (parse_state_init_no_panic lib_ok root) as Hps.
          destruct (parse_state_init lib_ok root) as [[[c|] [d|]]| |]; cbn [bind is_panic] in *; try discriminate.
          destruct (c_hash c); [|discriminate].
          destruct (lookup _ known) as [[l|]|]; try discriminate.
          pose proof (data_key_no_panic ext_ok l d) as Hdk.
          destruct (data_key ext_ok l d); cbn [is_panic] in Hdk; discriminate. }
      { pose proof (parse_account_id_no_panic (p_address tp)) as Hp. rewrite Eacc in Hp. discriminate. } }
    { pose proof (convert_no_panic b64 tp) as Hp. rewrite Ecv in Hp. discriminate. }
  Qed.
End Main.
