(** Types the reflection encoder can never encode ("decode-side only by theorem").
    The encoder-view descriptor of a Go type marks every construct that
    tlb/encoder.go rejects for all values (string / slice / map / interface kinds,
    a Magic field without a #/$ tag, a marshaller that only returns "not
    implemented") by the empty union [TSum []].  [never_encodes] is a decidable
    sufficient condition on descriptors; it is sound for every value and builder. *)
From Coq Require Import List NArith ZArith Arith Lia Bool.
From Tongo Require Import Lib.Bits Lib.Res Model.TlbCore.
Import ListNotations.

Fixpoint never_encodes (fuel : nat) (t : ty) : bool :=
  match fuel with
  | O => false
  | S f =>
      match t with
      | TSum alts => forallb (fun a => never_encodes f (snd a)) alts
      | TStruct fs => existsb (never_encodes f) fs
      | TRef t' | TEitherRef t' => never_encodes f t'
      | TEither l r => never_encodes f l && never_encodes f r
      | _ => false
      end
  end.

Definition not_ok {A} (r : res A) : Prop := forall a, r <> Ok a.

Lemma bind_not_ok {A B} (r : res A) (k : A -> res B) :
  (forall a, r = Ok a -> not_ok (k a)) -> not_ok (bind r k).
Proof. intros H b. destruct r as [a| |]; cbn; try discriminate. apply H. reflexivity. Qed.

Theorem never_encodes_sound : forall fuel t,
  never_encodes fuel t = true -> forall env v b, not_ok (enc env fuel t v b).
Proof.
  induction fuel as [|f IH]; intros t Hn env v b; [discriminate|].
  destruct t; cbn [never_encodes] in Hn; try discriminate; cbn [enc].
  - (* TEither *) apply andb_true_iff in Hn. destruct Hn as (Hl & Hr).
    destruct v; try (intros a0 Ha0; cbn in Ha0; discriminate Ha0).
    match goal with r : bool |- _ => destruct r end; apply bind_not_ok; intros; [apply (IH _ Hr)|apply (IH _ Hl)].
  - (* TEitherRef *) destruct v; try (intros a0 Ha0; cbn in Ha0; discriminate Ha0).
    match goal with r : bool |- _ => destruct r end; apply bind_not_ok; intros.
    + apply bind_not_ok. intros c Hc. exfalso. exact (IH _ Hn env v empty_bld c Hc).
    + apply (IH _ Hn).
  - (* TRef *) apply bind_not_ok. intros c Hc. exfalso. exact (IH _ Hn env v empty_bld c Hc).
  - (* TStruct *) destruct v; try (intros a0 Ha0; cbn in Ha0; discriminate Ha0).
    revert vs b. induction fs as [|t1 ft IHf]; intros vs b; [discriminate Hn|].
    destruct vs as [|v1 vt]; [intros a0 Ha0; discriminate Ha0|].
    cbn [existsb] in Hn. apply orb_true_iff in Hn. destruct Hn as [H1|Hrest].
    + intros a Ha. destruct (enc env f t1 v1 b) as [b1| |] eqn:E; cbn [bind] in Ha; try discriminate.
      exact (IH _ H1 env v1 b b1 E).
    + apply bind_not_ok. intros b1 _. apply (IHf Hrest).
  - (* TSum *) destruct v; try (intros a0 Ha0; cbn in Ha0; discriminate Ha0).
    destruct (nth_error alts k) as [[[len val] t']|] eqn:En; [|intros a0 Ha0; discriminate Ha0].
    apply bind_not_ok. intros b1 _.
    rewrite forallb_forall in Hn. apply nth_error_In in En. specialize (Hn _ En). cbn [snd] in Hn.
    apply (IH _ Hn).
Qed.

Corollary never_encodes_encode t :
  never_encodes (fuel_of [] t) t = true -> forall v c, encode [] t v <> Ok c.
Proof.
  intros Hn v c. unfold encode.
  destruct (enc [] (fuel_of [] t) t v empty_bld) as [b| |] eqn:E; try discriminate.
  exfalso. exact (never_encodes_sound _ _ Hn [] v empty_bld b E).
Qed.
