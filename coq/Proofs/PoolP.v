(** Proofs about the selection rule of the connection pool (Model/Pool.v). *)
From Coq Require Import List NArith ZArith Bool Lia Arith.
From Tongo Require Import Model.Pool.
Import ListNotations.

(** ---- the running maximum ---- *)

Lemma max_step_max m c : max_step m c = N.max m (seq32 c).
Proof.
  unfold max_step. destruct (N.ltb_spec m (seq32 c)) as [Hlt|Hge]; lia.
Qed.

Lemma fold_max_step cs : forall a, fold_left max_step cs a = N.max a (newest cs).
Proof.
  induction cs as [|c t IH]; intros a; cbn [fold_left newest map fold_right].
  - lia.
  - rewrite IH, max_step_max. fold (newest t). lia.
Qed.

Lemma max_seqno_newest cs : max_seqno cs = newest cs.
Proof. unfold max_seqno. rewrite fold_max_step. lia. Qed.

Lemma seq32_lt c : (seq32 c < two32)%N.
Proof. unfold seq32, u32. apply N.mod_lt. unfold two32. lia. Qed.

Lemma newest_ge cs c : In c cs -> (seq32 c <= newest cs)%N.
Proof.
  induction cs as [|d t IH]; intros Hin; [destruct Hin|].
  cbn [newest map fold_right]. fold (newest t).
  destruct Hin as [->|Hin]; [lia|]. specialize (IH Hin). lia.
Qed.

Lemma newest_lt cs : (newest cs < two32)%N.
Proof.
  induction cs as [|d t IH]; cbn [newest map fold_right].
  - unfold two32. lia.
  - fold (newest t). pose proof (seq32_lt d). lia.
Qed.

(** ---- the comparison of the code is the property's "at most one block behind" ---- *)

Lemma current_go_spec m c : current_go m c = true <-> (m - seq32 c <= 1)%N.
Proof. unfold current_go. rewrite N.leb_le. lia. Qed.

(** usable (code) = eligible (property), for every connection of every pool *)
Lemma usable_iff_eligible cs c :
  usable_go (max_seqno cs) c = true <-> eligible cs c.
Proof.
  rewrite max_seqno_newest. unfold eligible, usable_go.
  rewrite andb_true_iff, current_go_spec. tauto.
Qed.

(** the 64-bit sum is what the code computes: no wrap below 2^64 *)
Lemma current_go_no_overflow c : (seq32 c + 1 < 2 ^ 64)%N.
Proof. pose proof (seq32_lt c) as H. unfold two32 in H. change (2 ^ 64)%N with 18446744073709551616%N. lia. Qed.

(** monotone in the connection's head: a head that advances between the two passes
    of updateBest keeps the connection current *)
Lemma current_go_mono m c d : (seq32 c <= seq32 d)%N -> current_go m c = true -> current_go m d = true.
Proof. unfold current_go. rewrite !N.leb_le. lia. Qed.

(** ---- findFirstWorkingConnection ---- *)

Lemma ffw_none m cs : forall i,
  find_first_working m cs i = None -> forall c, In c cs -> usable_go m c = false.
Proof.
  induction cs as [|d t IH]; intros i Hf c Hin; [destruct Hin|].
  cbn [find_first_working] in Hf. destruct (usable_go m d) eqn:Hd; [discriminate|].
  destruct Hin as [->|Hin]; [exact Hd|]. exact (IH _ Hf c Hin).
Qed.

Lemma ffw_some m cs : forall i j,
  find_first_working m cs i = Some j ->
  exists k c, j = i + k /\ nth_error cs k = Some c /\ usable_go m c = true /\
    forall k' c', nth_error cs k' = Some c' -> usable_go m c' = true -> k <= k'.
Proof.
  induction cs as [|d t IH]; intros i j Hf; [discriminate|].
  cbn [find_first_working] in Hf. destruct (usable_go m d) eqn:Hd.
  - injection Hf as <-. exists 0, d. repeat apply conj; [lia|reflexivity|exact Hd|]. intros; lia.
  - destruct (IH _ _ Hf) as (k & c & -> & Hn & Hu & Hmin).
    exists (S k), c. repeat apply conj; [lia|exact Hn|exact Hu|].
    intros [|k'] c' Hn' Hu'; cbn [nth_error] in Hn'.
    + injection Hn' as <-. congruence.
    + specialize (Hmin _ _ Hn' Hu'). lia.
Qed.

(** ---- findBestPingConnection ---- *)

(** invariant of the loop: the result is either the incoming accumulator (then no
    usable connection of the rest is strictly faster) or a usable connection of
    the rest, strictly faster than the accumulator, of minimal round-trip time
    and first among equals *)
Lemma fbp_spec m cs : forall i acc,
  match find_best_ping m cs i acc with
  | None => acc = None /\ forall c, In c cs -> usable_go m c = false
  | Some (j, r) =>
      (acc = Some (j, r) /\ forall c, In c cs -> usable_go m c = true -> (r <= c_rtt c)%Z) \/
      (exists k c, j = i + k /\ nth_error cs k = Some c /\ usable_go m c = true /\ r = c_rtt c /\
         (forall j0 r0, acc = Some (j0, r0) -> (r < r0)%Z) /\
         forall k' c', nth_error cs k' = Some c' -> usable_go m c' = true ->
           (r <= c_rtt c')%Z /\ (c_rtt c' = r -> k <= k'))
  end.
Proof.
  induction cs as [|d t IH]; intros i acc; cbn [find_best_ping].
  - destruct acc as [[j r]|].
    + left. split; [reflexivity|]. intros c [].
    + split; [reflexivity|]. intros c [].
  - specialize (IH (S i) (if usable_go m d then better i d acc else acc)).
    destruct (find_best_ping m t (S i) (if usable_go m d then better i d acc else acc))
      as [[j r]|] eqn:Hres.
    + destruct (usable_go m d) eqn:Hd.
      * (* d usable: accumulator becomes better i d acc *)
        destruct IH as [[Hacc Hall]|(k & c & -> & Hn & Hu & -> & Hlt & Hmin)].
        -- (* accumulator survived the tail *)
           unfold better in Hacc. destruct acc as [[j0 r0]|].
           ++ destruct (Z.ltb_spec (c_rtt d) r0) as [Hl|Hg].
              ** injection Hacc as <- <-. right. exists 0, d.
                 repeat apply conj; [lia|reflexivity|exact Hd|reflexivity| |].
                 --- intros j1 r1 [= <- <-]. exact Hl.
                 --- intros [|k'] c' Hn' Hu'; cbn [nth_error] in Hn'.
                     +++ injection Hn' as <-. split; [lia|intros; lia].
                     +++ apply nth_error_In in Hn'. specialize (Hall _ Hn' Hu').
                         split; [exact Hall|intros; lia].
              ** injection Hacc as <- <-. left. split; [reflexivity|].
                 intros c [<-|Hin] Hu; [exact Hg|exact (Hall _ Hin Hu)].
           ++ injection Hacc as <- <-. right. exists 0, d.
              repeat apply conj; [lia|reflexivity|exact Hd|reflexivity| |].
              --- intros j1 r1 Heq; discriminate.
              --- intros [|k'] c' Hn' Hu'; cbn [nth_error] in Hn'.
                  +++ injection Hn' as <-. split; [lia|intros; lia].
                  +++ apply nth_error_In in Hn'. specialize (Hall _ Hn' Hu').
                      split; [exact Hall|intros; lia].
        -- (* a connection of the tail won: it is strictly faster than better i d acc *)
           right. exists (S k), c. repeat apply conj; [lia|exact Hn|exact Hu|reflexivity| |].
           ++ intros j0 r0 ->. unfold better in Hlt.
              destruct (Z.ltb_spec (c_rtt d) r0) as [Hl|Hg].
              ** specialize (Hlt _ _ eq_refl). lia.
              ** exact (Hlt _ _ eq_refl).
           ++ assert (Hcd : (c_rtt c < c_rtt d)%Z).
              { unfold better in Hlt. destruct acc as [[j0 r0]|].
                - destruct (Z.ltb_spec (c_rtt d) r0) as [Hl|Hg].
                  + exact (Hlt _ _ eq_refl).
                  + specialize (Hlt _ _ eq_refl). lia.
                - exact (Hlt _ _ eq_refl). }
              intros [|k'] c' Hn' Hu'; cbn [nth_error] in Hn'.
              ** injection Hn' as <-. split; [lia|intros; lia].
              ** destruct (Hmin _ _ Hn' Hu') as [Hle Hfirst]. split; [exact Hle|].
                 intros He. specialize (Hfirst He). lia.
      * (* d not usable: accumulator unchanged *)
        destruct IH as [[Hacc Hall]|(k & c & -> & Hn & Hu & -> & Hlt & Hmin)].
        -- left. split; [exact Hacc|].
           intros c [<-|Hin] Hu; [congruence|exact (Hall _ Hin Hu)].
        -- right. exists (S k), c. repeat apply conj; [lia|exact Hn|exact Hu|reflexivity|exact Hlt|].
           intros [|k'] c' Hn' Hu'; cbn [nth_error] in Hn'.
           ++ injection Hn' as <-. congruence.
           ++ destruct (Hmin _ _ Hn' Hu') as [Hle Hfirst]. split; [exact Hle|].
              intros He. specialize (Hfirst He). lia.
    + destruct IH as [Hacc Hall]. destruct (usable_go m d) eqn:Hd.
      * unfold better in Hacc. destruct acc as [[j0 r0]|]; [|discriminate].
        destruct (c_rtt d <? r0)%Z; discriminate.
      * split; [exact Hacc|]. intros c [<-|Hin]; [exact Hd|exact (Hall _ Hin)].
Qed.

(** ---- updateBest, literal eligibility (no guard needed) ---- *)

(** the code, for whatever the two loops of updateBest read *)
Theorem update_best2_literal st cs1 cs2 prev :
  is_choice st (fun c => usable_go (max_seqno cs1) c = true) cs2 prev (update_best2 st cs1 cs2 prev).
Proof.
  unfold is_choice, update_best2. destruct st.
  - (* best ping *)
    destruct cs2 as [|c0 t]; [left; split; [intros c []|reflexivity]|].
    set (cs := c0 :: t). set (m := max_seqno cs1).
    pose proof (fbp_spec m cs 0 None) as Hs.
    destruct (find_best_ping m cs 0 None) as [[j r]|].
    + destruct Hs as [[Hacc _]|(k & c & -> & Hn & Hu & -> & _ & Hmin)]; [discriminate|].
      right. exists k, c. cbn [Nat.add]. repeat apply conj; [reflexivity|exact Hn|exact Hu|].
      intros j d Hj Hd. destruct (Hmin _ _ Hj Hd) as [Hle Hfirst]. split; [exact Hle|exact Hfirst].
    + destruct Hs as [_ Hall]. left. split; [|reflexivity].
      intros c Hin Hu. rewrite (Hall _ Hin) in Hu. discriminate.
  - (* first working *)
    destruct cs2 as [|c0 t]; [left; split; [intros c []|reflexivity]|].
    set (cs := c0 :: t). set (m := max_seqno cs1).
    destruct (find_first_working m cs 0) as [j|] eqn:Hf.
    + destruct (ffw_some _ _ _ _ Hf) as (k & c & -> & Hn & Hu & Hmin).
      right. exists k, c. cbn [Nat.add]. repeat apply conj; [reflexivity|exact Hn|exact Hu|exact Hmin].
    + left. split; [|reflexivity]. intros c Hin Hu.
      rewrite (ffw_none _ _ _ Hf c Hin) in Hu. discriminate.
  - destruct cs2; reflexivity.
Qed.

Theorem update_best_literal st cs prev :
  is_choice st (fun c => usable_go (max_seqno cs) c = true) cs prev (update_best st cs prev).
Proof. exact (update_best2_literal st cs cs prev). Qed.

Lemma is_choice_ext st (P Q : conn -> Prop) cs prev res :
  (forall c, In c cs -> (P c <-> Q c)) ->
  is_choice st P cs prev res -> is_choice st Q cs prev res.
Proof.
  intros Hext. unfold is_choice. destruct st; [| |auto].
  all: intros [[Hnone Hres]|(i & c & Hres & Hn & Hp & Hmin)].
  all: try (left; split; [|exact Hres]; intros c Hin Hq; apply (Hnone c Hin);
            apply (Hext c Hin); exact Hq).
  all: right; exists i, c; repeat apply conj;
    [exact Hres|exact Hn|apply (Hext c (nth_error_In _ _ Hn)); exact Hp|].
  all: intros j d Hj Hd; apply (Hmin j d Hj); apply (Hext d (nth_error_In _ _ Hj)); exact Hd.
Qed.

(** the property's selection clause, for every pool *)
Theorem update_best_spec st cs prev :
  is_choice st (eligible cs) cs prev (update_best st cs prev).
Proof.
  apply (is_choice_ext st (fun c => usable_go (max_seqno cs) c = true)).
  - intros c _. apply usable_iff_eligible.
  - apply update_best_literal.
Qed.

(** heads that rise while updateBest runs: the chosen connection is alive and at most one
    block behind the newest head the first loop saw — in particular a connection whose head
    has just risen ABOVE that maximum stays a candidate — with the property's tie-breaking *)
Theorem update_best2_spec st cs1 cs2 prev :
  is_choice st (fun c => c_alive c = true /\ (newest cs1 - seq32 c <= 1)%N) cs2 prev
            (update_best2 st cs1 cs2 prev).
Proof.
  apply (is_choice_ext st (fun c => usable_go (max_seqno cs1) c = true)).
  - intros c _. rewrite max_seqno_newest. unfold usable_go. rewrite andb_true_iff, current_go_spec. tauto.
  - apply update_best2_literal.
Qed.

(** a connection that was a candidate for the heads of the first loop is still one after
    its head has risen (the uint32 difference maxSeqno - seqno would wrap here) *)
Lemma risen_head_stays_current cs1 c1 c2 :
  (newest cs1 - seq32 c1 <= 1)%N -> (seq32 c1 <= seq32 c2)%N -> (newest cs1 - seq32 c2 <= 1)%N.
Proof. lia. Qed.

(** so whenever some connection is alive at the second read and was current at the first,
    the refresh does not keep the previous choice: it picks such a connection *)
Corollary update_best2_picks_current st cs1 cs2 prev i c1 c2 :
  st <> OtherStrategy -> heads_rose cs1 cs2 ->
  nth_error cs1 i = Some c1 -> nth_error cs2 i = Some c2 ->
  (newest cs1 - seq32 c1 <= 1)%N -> c_alive c2 = true ->
  exists j d, update_best2 st cs1 cs2 prev = Some j /\ nth_error cs2 j = Some d /\
              c_alive d = true /\ (newest cs1 - seq32 d <= 1)%N.
Proof.
  intros Hst Hrose H1 H2 Hcur Hal.
  assert (Hle : (seq32 c1 <= seq32 c2)%N).
  { clear - Hrose H1 H2. revert i H1 H2. induction Hrose as [|x y l1 l2 Hxy _ IH]; intros [|i] H1 H2; cbn in *; try discriminate.
    - injection H1 as <-. injection H2 as <-. exact Hxy.
    - eapply IH; eassumption. }
  pose proof (update_best2_spec st cs1 cs2 prev) as Hc. unfold is_choice in Hc.
  destruct st; [| |contradiction].
  all: destruct Hc as [[Hnone _]|(j & d & Hres & Hn & [Hd1 Hd2] & _)];
    [exfalso; apply (Hnone c2 (nth_error_In _ _ H2)); split; [exact Hal|lia]|exists j, d; auto].
Qed.

(** read out: "whenever at least one connection is eligible, the chosen one is eligible" *)
Corollary update_best_picks_eligible st cs prev c :
  st <> OtherStrategy -> In c cs -> eligible cs c ->
  exists i d, update_best st cs prev = Some i /\ nth_error cs i = Some d /\ eligible cs d.
Proof.
  intros Hst Hin He. pose proof (update_best_spec st cs prev) as Hc. unfold is_choice in Hc.
  destruct st; [| |contradiction].
  all: destruct Hc as [[Hnone _]|(i & d & Hres & Hn & Hd & _)];
    [exfalso; exact (Hnone c Hin He)|exists i, d; auto].
Qed.

Corollary update_best_keeps_prev st cs prev :
  (forall c, In c cs -> ~ eligible cs c) -> update_best st cs prev = prev.
Proof.
  intros Hnone. pose proof (update_best_spec st cs prev) as Hc. unfold is_choice in Hc.
  destruct st; [| |exact Hc].
  all: destruct Hc as [[_ Hres]|(i & d & _ & Hn & Hd & _)];
    [exact Hres|exfalso; exact (Hnone d (nth_error_In _ _ Hn) Hd)].
Qed.

(** a second-order consequence used by the harness oracle: the result is always
    the previous choice or a valid index *)
Lemma update_best_range st cs prev i :
  update_best st cs prev = Some i -> prev = Some i \/ i < length cs.
Proof.
  intros Hu. pose proof (update_best_literal st cs prev) as Hc. rewrite Hu in Hc.
  unfold is_choice in Hc. destruct st; [| |left; congruence].
  all: destruct Hc as [[_ Hp]|(j & c & Hj & Hn & _)]; [left; congruence|right].
  all: injection Hj as <-; apply nth_error_Some; congruence.
Qed.

Lemma update_best2_range st cs1 cs2 prev i :
  update_best2 st cs1 cs2 prev = Some i -> prev = Some i \/ i < length cs2.
Proof.
  intros Hu. pose proof (update_best2_literal st cs1 cs2 prev) as Hc. rewrite Hu in Hc.
  unfold is_choice in Hc. destruct st; [| |left; congruence].
  all: destruct Hc as [[_ Hp]|(j & c & Hj & Hn & _)]; [left; congruence|right].
  all: injection Hj as <-; apply nth_error_Some; congruence.
Qed.
