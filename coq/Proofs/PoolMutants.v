(** Why the model of p.mu has Go's writer preference and explicit lock requests: a
    variant of notifySubscribers that reads bestConn through the locking accessor
    bestConnection() — i.e. takes p.mu.RLock() again while holding it — is
    behaviour-preserving under a plain readers/writer lock, but deadlocks for good under
    sync.RWMutex as soon as a writer (any subscribe / unsubscribe / updateBest) announces
    itself between the two RLock() calls.  This file proves that deadlock for the
    variant ([reent = true] in Model/PoolWait.v); Proofs/PoolWaitP.v [no_reacquire]
    proves that the real code ([reent = false]) never asks for p.mu while holding it,
    and Properties/C13_gen.v re-checks that syntactically on the Go source. *)
From Coq Require Import List NArith ZArith Bool Arith Lia.
From Tongo Require Import Model.Pool Model.PoolWait Proofs.PoolP Proofs.PoolWaitP.
Import ListNotations.

Section Reent.
  Variable strat : strategy.
  Variable nconns : nat.
  Variable tgt : nat -> N.
  Notation step := (step strat true false nconns tgt).
  Notation reachable := (reachable strat true false nconns tgt).

  (** Run holds the outer RLock and calls the inner one; waiter w has announced Lock() *)
  Definition reent_dead (u : msg) (w : nat) (s : state) : Prop :=
    rpc s = RInner u /\ readers s = 1 /\ writer s = None /\ wreq s = Some (AW w) /\ wpc s w = WSubW.

  Lemma reent_dead_stable u w s l s' :
    reent_dead u w s -> step s l = Some s' -> reent_dead u w s'.
  Proof.
    intros (Hp & Hrd & Hwr & Hq & Hpc) Hs. unfold reent_dead.
    step_inv Hs; guards; sred; try congruence; try lia.
    all: repeat apply conj; fu; sred; try congruence; try lia.
  Qed.

  Lemma reent_dead_forever u w s s' : reent_dead u w s -> reachable s s' -> reent_dead u w s'.
  Proof. intros Hd Hr. induction Hr; [exact Hd|eapply reent_dead_stable; eassumption]. Qed.

  (** the holder of the lock (Run, as a reader) has no enabled step *)
  Lemma reent_dead_stuck u w s : reent_dead u w s -> ~ holder_can_step strat true false nconns tgt s.
  Proof.
    intros (Hp & Hrd & Hwr & Hq & Hpc). unfold holder_can_step. rewrite Hwr.
    unfold PoolWait.step. rewrite Hp. unfold no_writer. rewrite Hwr, Hq. cbn [andb].
    intros [H|[H|[H|[o H]]]]; congruence || lia.
  Qed.

  (** and nothing any goroutine does involves the pool lock any more: no caller gets
      in or out (not even by timeout: they wait in Lock(), before their select), Run
      takes no update and does not refresh the best connection *)
  Lemma reent_dead_freezes u w s :
    reent_dead u w s ->
    (forall w', step s (LSubWant w') = None) /\ (forall w', step s (LSubLock w') = None) /\
    (forall w', step s (LUnsubWant w') = None) /\ (forall w', step s (LUnsub w') = None) /\
    step s LTake = None /\ step s LTick = None /\ (forall o, step s (LRInner o) = None) /\
    (forall r, step s (LLeave w r) = None).
  Proof.
    intros (Hp & Hrd & Hwr & Hq & Hpc).
    assert (Hnw : no_writer s = false) by (unfold no_writer; rewrite Hwr, Hq; reflexivity).
    assert (Hlf : lock_free s = false) by (unfold lock_free; rewrite Hrd; reflexivity).
    unfold PoolWait.step. rewrite Hp, Hnw, Hlf, Hpc. repeat apply conj; try reflexivity.
    all: try (intros w'; destruct (wpc s w'); try reflexivity; rewrite ?andb_false_r; reflexivity).
    all: try (intros r; destruct r; reflexivity).
  Qed.
End Reent.

(** the witness: one head update is being notified (outer RLock taken) when a caller
    arrives (Lock() announced) *)
Definition reent_trace : list label :=
  [ LSetHead 0 1; LPublish 0; LTake;   (* block 1 arrives, Run takes the update *)
    LRLock [];                         (* notifySubscribers: p.mu.RLock() *)
    LSubWant 0 ].                      (* WaitMasterchainSeqno -> subscribe -> p.mu.Lock() announced *)

Lemma reent_trace_runs :
  exists s, run BestPing true false 1 (fun _ => 5%N) (init_state (fun _ => 0%N) (Some 0)) reent_trace = Some s /\
            reent_dead (0, 1%N) 0 s.
Proof. eexists. split; [vm_compute; reflexivity|]. unfold reent_dead. sred. repeat apply conj; reflexivity. Qed.

(** the same schedule on the real code completes (the caller subscribes after Run has
    finished the notification) *)
Lemma reent_trace_real_code_completes :
  exists s, run BestPing false false 1 (fun _ => 5%N) (init_state (fun _ => 0%N) (Some 0))
              (reent_trace ++ [LRUnlock; LSubLock 0; LSubBody 0]) = Some s /\
            wpc s 0 = WWait /\ rpc s = RIdle /\ readers s = 0 /\ writer s = None /\ wreq s = None.
Proof. eexists. split; [vm_compute; reflexivity|]. repeat apply conj; reflexivity. Qed.

Lemma run_reachable_m strat nconns tgt ls : forall s0 s s',
  reachable strat true false nconns tgt s0 s -> run strat true false nconns tgt s ls = Some s' ->
  reachable strat true false nconns tgt s0 s'.
Proof.
  induction ls as [|l t IH]; intros s0 s s' Hr Hrun; cbn [run] in Hrun.
  - injection Hrun as <-. exact Hr.
  - destruct (step strat true false nconns tgt s l) as [s1|] eqn:Hs; [|discriminate].
    eapply IH; [|exact Hrun]. eapply reach_step; eassumption.
Qed.

(** REFUTED for the re-entrant variant: a reachable state from which, whatever any
    goroutine does, the holder of the pool lock never has an enabled step, Run stays
    parked in the inner RLock and the caller stays in Lock() *)
Theorem pool_never_blocks_refuted_reentrant_rlock :
  exists strat nconns tgt heads b s,
    reachable strat true false nconns tgt (init_state heads b) s /\
    forall s', reachable strat true false nconns tgt s s' ->
      ~ holder_can_step strat true false nconns tgt s' /\ rpc s' = RInner (0, 1%N) /\ wpc s' 0 = WSubW.
Proof.
  exists BestPing, 1, (fun _ => 5%N), (fun _ => 0%N), (Some 0).
  destruct reent_trace_runs as (s & Hrun & Hd). exists s.
  split; [eapply run_reachable_m; [apply reach_init|exact Hrun]|]. intros s' Hr'.
  pose proof (reent_dead_forever _ _ _ _ _ _ _ Hd Hr') as Hd'.
  split; [eapply reent_dead_stuck; exact Hd'|].
  destruct Hd' as (H1 & _ & _ & _ & H5). auto.
Qed.

(** ---- Run merging the queued head updates ([coal = true]) ----
    "Lite servers report the same block within milliseconds: take what is already queued
    and wake the waiters once, with the newest head."  An update is per connection, so
    when the surviving update belongs to a connection that is not the best one, the best
    connection's update that was merged into it is lost: notifySubscribers drops the
    survivor.  The real Run handles the queued updates one by one, oldest first
    (Proofs/PoolWaitFifoP.v). *)
Definition coal_trace : list label :=
  [ LSubWant 0; LSubLock 0; LSubBody 0;   (* WaitMasterchainSeqno(7), best connection 0 at head 5: registered *)
    LSetHead 0 7; LPublish 0;             (* the best connection reports head 7 ...                          *)
    LSetHead 1 7; LPublish 0;             (* ... and so does connection 1, before Run is scheduled           *)
    LTake;                                (* Run: one receive + drain -> the survivor is (1, 7)             *)
    LRLock [0]; LRUnlock ].               (* notifySubscribers: not bestConn's update -> nobody is notified *)

Lemma run_reachable_g strat re co nconns tgt ls : forall s0 s s',
  reachable strat re co nconns tgt s0 s -> run strat re co nconns tgt s ls = Some s' ->
  reachable strat re co nconns tgt s0 s'.
Proof.
  induction ls as [|l t IH]; intros s0 s s' Hr Hrun; cbn [run] in Hrun.
  - injection Hrun as <-. exact Hr.
  - destruct (step strat re co nconns tgt s l) as [s1|] eqn:Hs; [|discriminate].
    eapply IH; [|exact Hrun]. eapply reach_step; eassumption.
Qed.

(** REFUTED for the merging design ("success if the best connection reports a head at or
    beyond the seqno in time"): the waiter is registered and in its loop, the best
    connection is at its target, that head was published and consumed by Run, nothing is
    queued or in flight, Run is back in its select — and the waiter has been sent nothing *)
Theorem wait_success_refuted_coalescing_run :
  exists strat nconns tgt heads b s,
    reachable strat false true nconns tgt (init_state heads b) s /\
    wpc s 0 = WWait /\ In (wid s 0, 0) (wl s) /\ best s = Some 0 /\ (tgt 0%nat <= head s 0%nat)%N /\
    updq s = [] /\ pend s = [] /\ rpc s = RIdle /\ wch s 0 = None /\ woff s 0 = [].
Proof.
  exists BestPing, 2, (fun _ => 7%N), (fun _ => 5%N), (Some 0).
  destruct (run BestPing false true 2 (fun _ => 7%N) (init_state (fun _ => 5%N) (Some 0)) coal_trace)
    as [s|] eqn:Hrun; [|vm_compute in Hrun; discriminate].
  exists s. split; [eapply run_reachable_g; [apply reach_init|exact Hrun]|].
  vm_compute in Hrun. injection Hrun as <-. sred.
  repeat apply conj; try reflexivity; try (left; reflexivity); try (vm_compute; discriminate).
Qed.

(** the same arrivals on the real code: two iterations of Run, the first one notifies *)
Lemma coal_schedule_real_code_delivers :
  exists s, run BestPing false false 2 (fun _ => 7%N) (init_state (fun _ => 5%N) (Some 0))
              [LSubWant 0; LSubLock 0; LSubBody 0; LSetHead 0 7; LPublish 0; LSetHead 1 7; LPublish 0;
               LTake; LRLock [0]; LSend; LRUnlock; LTake; LRLock [0]; LRUnlock; LRecv 0] = Some s /\
            wgot s 0 = Some (0, 7%N) /\ wpc s 0 = WUnsub ROk /\ updq s = [].
Proof. eexists. split; [vm_compute; reflexivity|]. repeat apply conj; reflexivity. Qed.


(** ---- the currency test as a uint32 difference ([maxSeqno - seqno <= 1]) ----
    "maxSeqno is the maximum over all heads, so the difference cannot wrap."  For every
    fixed assignment of heads this is the 64-bit test of the code; but updateBest reads
    every head twice holding only the pool lock, a head can rise in between, and then
    maxSeqno - seqno wraps to 2^32-1: the connection that has just delivered the newest
    block of the pool is taken for hopelessly behind. *)
Definition current_sub32 (maxs : N) (c : conn) : bool := (u32 (maxs + two32 - seq32 c) <=? 1)%N.
Definition usable_sub32 (maxs : N) (c : conn) : bool := c_alive c && current_sub32 maxs c.

Fixpoint find_first_working_sub32 (maxs : N) (cs : list conn) (i : nat) : option nat :=
  match cs with
  | [] => None
  | c :: t => if usable_sub32 maxs c then Some i else find_first_working_sub32 maxs t (S i)
  end.
Fixpoint find_best_ping_sub32 (maxs : N) (cs : list conn) (i : nat) (best : option (nat * Z)) : option (nat * Z) :=
  match cs with
  | [] => best
  | c :: t => find_best_ping_sub32 maxs t (S i) (if usable_sub32 maxs c then better i c best else best)
  end.
Definition update_best2_sub32 (st : strategy) (cs1 cs2 : list conn) (prev : option nat) : option nat :=
  match cs2 with
  | [] => prev
  | _ =>
      let m := max_seqno cs1 in
      match st with
      | BestPing => match find_best_ping_sub32 m cs2 0 None with Some (i, _) => Some i | None => prev end
      | FirstWorking => match find_first_working_sub32 m cs2 0 with Some i => Some i | None => prev end
      | OtherStrategy => prev
      end
  end.

(** on a snapshot (the head is not above the maximum) the two tests agree — which is why no
    grid of fixed configurations can tell them apart *)
Lemma sub32_agrees_on_snapshots m c :
  (seq32 c <= m)%N -> (m < two32)%N -> current_sub32 m c = current_go m c.
Proof.
  intros Hle Hm. unfold current_sub32, current_go, u32. pose proof (seq32_lt c) as Hc. unfold two32 in *.
  replace (m + 4294967296 - seq32 c)%N with ((m - seq32 c) + 1 * 4294967296)%N by lia.
  rewrite N.mod_add by lia. rewrite N.mod_small by lia.
  destruct (N.leb_spec (m - seq32 c) 1), (N.leb_spec m (seq32 c + 1)); try reflexivity; lia.
Qed.

(** REFUTED for the uint32-difference design: connection 0 (the previous choice) is dead,
    connection 1 is alive; both were at head 100 when the maximum was taken, block 101 reaches
    connection 1 before the second read.  The refresh keeps the dead connection, under both
    strategies; the code (64-bit sum) chooses connection 1. *)
Definition race_cs1 : list conn := [mkConn false 100 1; mkConn true 100 2].
Definition race_cs2 : list conn := [mkConn false 100 1; mkConn true 101 2].

Theorem update_best_racing_head_refuted_sub32 :
  heads_rose race_cs1 race_cs2 /\
  update_best2_sub32 BestPing race_cs1 race_cs2 (Some 0) = Some 0 /\
  update_best2_sub32 FirstWorking race_cs1 race_cs2 (Some 0) = Some 0 /\
  ~ is_choice BestPing (fun c => c_alive c = true /\ (newest race_cs1 - seq32 c <= 1)%N) race_cs2 (Some 0)
      (update_best2_sub32 BestPing race_cs1 race_cs2 (Some 0)) /\
  update_best2 BestPing race_cs1 race_cs2 (Some 0) = Some 1 /\
  update_best2 FirstWorking race_cs1 race_cs2 (Some 0) = Some 1.
Proof.
  split; [repeat constructor; vm_compute; discriminate|].
  split; [vm_compute; reflexivity|]. split; [vm_compute; reflexivity|]. split; [|split; vm_compute; reflexivity].
  replace (update_best2_sub32 BestPing race_cs1 race_cs2 (Some 0)) with (Some 0) by (vm_compute; reflexivity).
  intros [[Hnone _]|(i & c & [= <-] & Hn & [Ha _] & _)].
  - apply (Hnone (mkConn true 101 2)); [right; left; reflexivity|]. split; [reflexivity|vm_compute; discriminate].
  - cbn in Hn. injection Hn as <-. discriminate Ha.
Qed.

(** ---- BestMasterchainClient handing out the captured connection's head instead of the
    head it received ----
    BestMasterchainClient captures the best connection, and if that one has no head yet waits
    (subscribe(1)) and returns the head it RECEIVES.  Returning the captured connection's
    current head instead looks equivalent — but while the call waits a refresh may switch the
    best connection; the head that wakes the caller is then the new best connection's, and the
    captured connection's own head is still the all-zero one: success with a head (seqno 0)
    that no connection ever reported. *)
Definition stale_head_trace : list label :=
  [ LSubWant 0; LSubLock 0; LSubBody 0;                          (* the choice (connection 0) has no head: wait for the first one *)
    LSetHead 1 7; LPublish 0; LTake; LRLock [0]; LRUnlock;       (* connection 1 reports 7: not the best one, nobody notified *)
    LTick; LUpdLock; LUpdDone [(false, 1%Z); (true, 1%Z)] [];    (* connection 0 died: the refresh switches to connection 1 *)
    LSetHead 1 8; LPublish 0; LTake; LRLock [0]; LSend; LRUnlock; (* the new best connection reports 8: the waiter is notified *)
    LRecv 0 ].

Theorem reread_captured_head_refuted :
  exists s, reachable BestPing false false 2 (fun _ => 1%N) (init_state (fun _ => 0%N) (Some 0)) s /\
    wpc s 0 = WUnsub ROk /\                 (* the call returns success ... *)
    wgot s 0 = Some (1, 8%N) /\            (* ... it received head 8 of the best connection ... *)
    best s = Some 1 /\
    head s 0 = 0%N /\                      (* ... while the connection captured at call time is still at the all-zero head, *)
    ~ (1 <= head s 0)%N.                   (* which is not "at or beyond the awaited seqno" *)
Proof.
  destruct (run BestPing false false 2 (fun _ => 1%N) (init_state (fun _ => 0%N) (Some 0)) stale_head_trace)
    as [s|] eqn:Hrun; [|vm_compute in Hrun; discriminate].
  exists s. split; [eapply run_reachable_g; [apply reach_init|exact Hrun]|].
  vm_compute in Hrun. injection Hrun as <-. sred.
  repeat apply conj; try reflexivity. vm_compute. intros H. apply H. reflexivity.
Qed.
