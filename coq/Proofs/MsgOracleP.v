(** Proofs for C16: the library resolver at the root position. *)
From Coq Require Import List NArith Bool.
From Tongo Require Import Lib.Bits Lib.Res Model.BocParse Model.CellHash Spec.ReprHash Proofs.CellHashP
  Model.MsgHash Proofs.MsgHashP Model.MsgOracle.
Import ListNotations.

Theorem resolving_without_library H resolve o c :
  is_library_cell c = false -> decode_message_resolving H resolve o c = decode_message H o c.
Proof. intros E. unfold decode_message_resolving. rewrite E. reflexivity. Qed.

(* a library root: the message is decoded from the cell the resolver returned
   for the library cell's hash, and reports THAT cell's representation hash *)
Theorem resolving_library_root H resolve o c m :
  is_library_cell c = true -> decode_message_resolving H resolve o c = Ok m ->
  exists h c', hash_cell H c = Ok h /\ resolve h = Ok c' /\
               decode_message_body o (hash_cell H c') c' = Ok m /\
               hash_cell H c' = Ok (m_hash m) /\
               (masks_ok c' -> repr_hash H c' = Ok (m_hash m)).
Proof.
  intros El E. unfold decode_message_resolving in E. rewrite El in E.
  destruct (hash_cell H c) as [h|e|p]; cbn [bind] in E; try discriminate.
  destruct (resolve h) as [c'|e|p] eqn:Er; cbn [bind] in E; try discriminate.
  exists h, c'. split; [reflexivity|]. split; [exact Er|]. split; [exact E|].
  assert (Hh : hash_cell H c' = Ok (m_hash m)).
  { unfold decode_message_body in E. destruct (hash_cell H c') as [h'|e|p]; cbn [bind] in E; try discriminate.
    destruct (parse_message o (open c')) as [[[[i ini] r] b]|e|p]; cbn [bind] in E; try discriminate.
    injection E as <-. reflexivity. }
  split; [exact Hh|]. intros Hm. apply hash_cell_repr; assumption.
Qed.
