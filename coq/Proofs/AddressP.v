(** User-friendly address form: parse inverts print; every single-digit
    substitution is rejected (finite check on difference patterns, lifted to
    every address by CRC linearity). *)
From Coq Require Import List NArith ZArith Arith Lia Bool.
From Tongo Require Import Lib.Bits Lib.Res Model.Address Proofs.Crc16P Proofs.Base64P.
Import ListNotations.
Local Open Scope N_scope.

(** ** shape of the 36 bytes *)
Lemma human_flag_lt b t : human_flag b t < 256.
Proof. destruct b, t; vm_compute; reflexivity. Qed.

Lemma wc_byte_lt wc : wc_byte wc < 256.
Proof.
  unfold wc_byte. pose proof (Z.mod_pos_bound wc 256 eq_refl). lia.
Qed.

Lemma int8_wc_byte wc : (-128 <= wc < 128)%Z -> int8_of_byte (wc_byte wc) = wc.
Proof.
  intros H. unfold int8_of_byte, wc_byte.
  destruct (Z.ltb_spec wc 0) as [Neg|Pos].
  - assert (E : (wc mod 256 = wc + 256)%Z).
    { rewrite <- (Z.mod_add wc 1 256) by lia. apply Z.mod_small. lia. }
    rewrite E. destruct (N.ltb_spec (Z.to_N (wc + 256)) 128); lia.
  - rewrite Z.mod_small by lia. destruct (N.ltb_spec (Z.to_N wc) 128); lia.
Qed.

Lemma human_body_length b t wc addr : length addr = 32%nat ->
  length (human_body b t wc addr) = 34%nat.
Proof. intros H. unfold human_body. cbn [length]. lia. Qed.

Lemma human_body_ok b t wc addr : bytes_ok addr -> bytes_ok (human_body b t wc addr).
Proof.
  intros H. unfold human_body. repeat apply Forall_cons; auto using human_flag_lt, wc_byte_lt.
Qed.

Lemma be16_bytes_ok v : v < 65536 -> bytes_ok (be16_bytes v).
Proof.
  intros H. unfold be16_bytes. repeat apply Forall_cons; try apply Forall_nil.
  - rewrite N.shiftr_div_pow2. change (2 ^ 8) with 256. apply N.div_lt_upper_bound; lia.
  - change 0xFF with (N.ones 8). rewrite N.land_ones. apply N.mod_lt. discriminate.
Qed.

Lemma be16_of_bytes v : be16 (N.shiftr v 8) (N.land v 0xFF) = v.
Proof. unfold be16. change 0xFF with (N.ones 8). symmetry. apply split_hi_lo. Qed.

Lemma human_bytes_eq tab b t wc addr : tab = crc16_table_ref -> bytes_ok addr ->
  human_bytes tab b t wc addr
  = human_body b t wc addr ++ be16_bytes (crc16 (human_body b t wc addr)).
Proof.
  intros Ht Ha. unfold human_bytes. cbv zeta.
  rewrite (crc16_tab_ok tab _ Ht) by (apply human_body_ok; exact Ha). reflexivity.
Qed.

Lemma human_bytes_length tab b t wc addr : length addr = 32%nat ->
  length (human_bytes tab b t wc addr) = 36%nat.
Proof.
  intros H. unfold human_bytes. cbv zeta. rewrite app_length, human_body_length by exact H.
  reflexivity.
Qed.

Lemma human_bytes_ok tab b t wc addr : tab = crc16_table_ref -> bytes_ok addr ->
  bytes_ok (human_bytes tab b t wc addr).
Proof.
  intros Ht Ha. rewrite human_bytes_eq by assumption. apply Forall_app. split.
  - apply human_body_ok; exact Ha.
  - apply be16_bytes_ok, crc16_lt.
Qed.

(** ** the checksum stage *)
Lemma parse_human_bytes_valid body v flag wcb addr :
  body = flag :: wcb :: addr -> length addr = 32%nat -> v = crc16 body ->
  parse_human_bytes (body ++ be16_bytes v) = Ok (flag, int8_of_byte wcb, addr).
Proof.
  intros Hb Ha Hv.
  assert (HL : length body = 34%nat) by (subst body; cbn [length]; lia).
  unfold parse_human_bytes.
  assert (H36 : len_is 36 (body ++ be16_bytes v) = true).
  { apply len_is_spec. rewrite app_length, HL. reflexivity. }
  rewrite H36.
  replace 34%nat with (length body) by exact HL.
  rewrite skipn_app_exact, firstn_app_exact.
  unfold be16_bytes. rewrite be16_of_bytes, Hv, N.eqb_refl.
  subst body. cbn [app nth skipn].
  replace 32%nat with (length addr) by exact Ha.
  rewrite firstn_app_exact. reflexivity.
Qed.

(** ** parse (print a) = a *)
Lemma human_roundtrip_digits tab b t wc addr :
  tab = crc16_table_ref -> length addr = 32%nat -> bytes_ok addr ->
  parse_human_digits (human_digits tab b t wc addr)
  = Ok (human_flag b t, int8_of_byte (wc_byte wc), addr).
Proof.
  intros Ht HL Ha. unfold parse_human_digits, human_digits.
  pose proof (human_bytes_length tab b t wc addr HL) as H36.
  assert (HM : len_mod4 (b64_enc (human_bytes tab b t wc addr)) = true).
  { apply len_mod4_spec. exists 12%nat. apply b64_enc_length. rewrite H36. reflexivity. }
  rewrite HM.
  rewrite (b64_dec_enc _ 12) by (try rewrite H36; auto using human_bytes_ok).
  rewrite human_bytes_eq by assumption.
  apply parse_human_bytes_valid; [reflexivity|exact HL|reflexivity].
Qed.

Lemma human_roundtrip tab url b t wc addr :
  tab = crc16_table_ref -> length addr = 32%nat -> bytes_ok addr ->
  (-128 <= wc < 128)%Z ->
  parse_human (print_human tab url b t wc addr) = Ok (human_flag b t, wc, addr).
Proof.
  intros Ht HL Ha Hwc. unfold parse_human, print_human, b64url_decode_string.
  assert (HD : digits_ok (human_digits tab b t wc addr)).
  { apply b64_enc_digits_ok, human_bytes_ok; assumption. }
  rewrite (decode_string_print url _ HD).
  pose proof (human_roundtrip_digits tab b t wc addr Ht HL Ha) as HR.
  unfold parse_human_digits in HR.
  destruct (len_mod4 (human_digits tab b t wc addr)); [|discriminate].
  rewrite HR, int8_wc_byte by exact Hwc. reflexivity.
Qed.

Lemma flag_roundtrip b t :
  flag_bounce (human_flag b t) = b /\ flag_testnet (human_flag b t) = t.
Proof. destruct b, t; vm_compute; split; reflexivity. Qed.

(* what account.go ParseAddress derives from the flag byte: always bounceable *)
Lemma go_parse_address_bounce_always b t : go_parse_address_bounce (human_flag b t) = true.
Proof. destruct b, t; vm_compute; reflexivity. Qed.

(** ** syndrome: zero exactly for a matching checksum; xor-linear *)
Definition syndrome (bs : list N) : N :=
  N.lxor (crc16 (firstn 34 bs)) (be16 (nth 34 bs 0) (nth 35 bs 0)).

Lemma skipn_two {A} (d : A) n : forall l, length l = S (S n) ->
  skipn n l = [nth n l d; nth (S n) l d].
Proof.
  induction n as [|n IH]; intros l H.
  - destruct l as [|a [|b [|c l]]]; cbn [length] in H; try lia. reflexivity.
  - destruct l as [|a l]; cbn [length] in H; [lia|]. cbn [skipn nth]. apply IH. lia.
Qed.

Lemma syndrome_nonzero_rejected bs : syndrome bs <> 0 -> parse_human_bytes bs = Err EOther.
Proof.
  intros HS. unfold parse_human_bytes.
  destruct (len_is 36 bs) eqn:HL; [|reflexivity].
  apply len_is_spec in HL. rewrite (skipn_two 0 34 bs HL).
  destruct (N.eqb_spec (be16 (nth 34 bs 0) (nth 35 bs 0)) (crc16 (firstn 34 bs))) as [E|NE];
    [|reflexivity].
  exfalso. apply HS. unfold syndrome. rewrite E. apply N.lxor_nilpotent.
Qed.

Lemma syndrome_valid body :
  length body = 34%nat -> syndrome (body ++ be16_bytes (crc16 body)) = 0.
Proof.
  intros HL. unfold syndrome.
  replace 34%nat with (length body) at 1 by exact HL. rewrite firstn_app_exact.
  rewrite !app_nth2 by lia. rewrite HL. cbn [Nat.sub nth be16_bytes].
  rewrite be16_of_bytes. apply N.lxor_nilpotent.
Qed.

Lemma xor_list_nth l1 : forall l2 i, length l1 = length l2 ->
  nth i (xor_list l1 l2) 0 = N.lxor (nth i l1 0) (nth i l2 0).
Proof.
  unfold xor_list.
  induction l1 as [|x l1 IH]; intros [|y l2] i H; cbn [length] in H; try discriminate.
  - destruct i; reflexivity.
  - destruct i as [|i]; cbn [combine map nth fst snd]; [reflexivity|]. apply IH. lia.
Qed.

Lemma xor_list_firstn n l1 l2 :
  firstn n (xor_list l1 l2) = xor_list (firstn n l1) (firstn n l2).
Proof. unfold xor_list. rewrite firstn_map, combine_firstn. reflexivity. Qed.

Lemma be16_lin h1 l1 h2 l2 :
  be16 (N.lxor h1 h2) (N.lxor l1 l2) = N.lxor (be16 h1 l1) (be16 h2 l2).
Proof. unfold be16. rewrite N.shiftl_lxor. lxor_ac. Qed.

Lemma syndrome_lin x y : length x = length y ->
  syndrome (xor_list x y) = N.lxor (syndrome x) (syndrome y).
Proof.
  intros H. unfold syndrome.
  rewrite xor_list_firstn, crc16_linear by (rewrite !firstn_length; lia).
  rewrite !xor_list_nth by exact H. rewrite be16_lin. lxor_ac.
Qed.

(** ** a substitution is an xor with a one-digit pattern *)
Definition unit_at (n i : nat) (d : N) : list N := set_nth i d (repeat 0 n).

Lemma unit_at_length n i d : length (unit_at n i d) = n.
Proof. unfold unit_at. rewrite set_nth_length. apply repeat_length. Qed.

Lemma xor_list_zeros l : xor_list l (repeat 0 (length l)) = l.
Proof.
  unfold xor_list. induction l as [|x l IH]; [reflexivity|].
  cbn [length repeat combine map fst snd]. rewrite N.lxor_0_r, IH. reflexivity.
Qed.

Lemma set_nth_as_xor l : forall i d', (i < length l)%nat ->
  set_nth i d' l = xor_list l (unit_at (length l) i (N.lxor (nth i l 0) d')).
Proof.
  unfold unit_at.
  induction l as [|x l IH]; intros i d' H; cbn [length] in H; [lia|].
  destruct i as [|i]; cbn [length repeat set_nth nth].
  - unfold xor_list. cbn [combine map fst snd]. fold (xor_list l (repeat 0 (length l))).
    rewrite xor_list_zeros. f_equal.
    rewrite <- N.lxor_assoc, N.lxor_nilpotent, N.lxor_0_l. reflexivity.
  - unfold xor_list at 1. cbn [combine map fst snd]. rewrite N.lxor_0_r. f_equal.
    apply IH. lia.
Qed.

(** ** the finite check: no one-digit difference pattern has syndrome zero *)
Definition pattern_check (i : nat) (d : N) : bool :=
  (d =? 0) || negb (syndrome (b64_dec (unit_at 48 i d)) =? 0).

Lemma pattern_check_all :
  forallb (fun i => forallb (pattern_check i) (Nrange 64)) (seq 0 48) = true.
Proof. vm_compute. reflexivity. Qed.

Lemma pattern_nonzero i d : (i < 48)%nat -> d < 64 -> d <> 0 ->
  syndrome (b64_dec (unit_at 48 i d)) <> 0.
Proof.
  intros Hi Hd Hnz.
  pose proof pattern_check_all as H. rewrite forallb_forall in H.
  assert (Hin : In i (seq 0 48)) by (apply in_seq; lia).
  pose proof (forallb_Nrange _ 64 (H i Hin) d Hd) as Hc.
  unfold pattern_check in Hc. apply orb_prop in Hc. destruct Hc as [Hc|Hc].
  - apply N.eqb_eq in Hc. contradiction.
  - apply negb_true_iff, N.eqb_neq in Hc. exact Hc.
Qed.

(** ** every single-digit substitution is rejected *)
Lemma single_digit_rejected tab b t wc addr i d' :
  tab = crc16_table_ref -> length addr = 32%nat -> bytes_ok addr ->
  (i < 48)%nat -> d' < 64 -> d' <> nth i (human_digits tab b t wc addr) 0 ->
  parse_human_digits (set_nth i d' (human_digits tab b t wc addr)) = Err EOther.
Proof.
  intros Ht HL Ha Hi Hd Hne.
  set (ds := human_digits tab b t wc addr) in *.
  pose proof (human_bytes_length tab b t wc addr HL) as H36.
  assert (Hlen : length ds = 48%nat).
  { unfold ds, human_digits. rewrite (b64_enc_length _ 12) by (rewrite H36; reflexivity). reflexivity. }
  assert (HD : digits_ok ds).
  { apply b64_enc_digits_ok, human_bytes_ok; assumption. }
  assert (Hdi : nth i ds 0 < 64).
  { unfold digits_ok in HD. rewrite Forall_forall in HD. apply HD, nth_In. lia. }
  set (dl := N.lxor (nth i ds 0) d').
  assert (Hdl : dl < 64) by (change 64 with (2 ^ 6); apply lxor_lt_pow2; assumption).
  assert (Hnz : dl <> 0).
  { unfold dl. intros E. apply N.lxor_eq in E. congruence. }
  unfold parse_human_digits. destruct (len_mod4 _); [|reflexivity].
  apply syndrome_nonzero_rejected.
  rewrite set_nth_as_xor by lia. fold dl. rewrite Hlen.
  rewrite b64_dec_lin by (rewrite unit_at_length; exact Hlen).
  assert (Hdec : b64_dec ds = human_bytes tab b t wc addr).
  { unfold ds, human_digits. apply (b64_dec_enc _ 12); [rewrite H36; reflexivity|].
    apply human_bytes_ok; assumption. }
  rewrite Hdec.
  assert (Hlen2 : length (b64_dec (unit_at 48 i dl)) = 36%nat).
  { clear. unfold unit_at.
    assert (G : forall l : list N, length l = 48%nat -> length (b64_dec l) = 36%nat).
    { intros l Hl.
      do 48 (destruct l as [|? l]; [cbn [length] in Hl; lia|]).
      destruct l; [reflexivity|cbn [length] in Hl; lia]. }
    apply G. rewrite set_nth_length. apply repeat_length. }
  rewrite syndrome_lin by (rewrite H36, Hlen2; reflexivity).
  rewrite human_bytes_eq by assumption.
  rewrite syndrome_valid by (apply human_body_length; exact HL).
  rewrite N.lxor_0_l. apply pattern_nonzero; assumption.
Qed.

(** ** character level: any replacement character that does not denote the
    same digit — other digit, other alphabet's different digit, non-alphabet
    character, CR/LF — is rejected *)
Definition keep (c : N) : bool := negb (is_crlf c).

Lemma parse_human_some cs ds :
  b64_digits true (filter keep (map plus_slash cs)) = Some ds ->
  parse_human cs = parse_human_digits ds.
Proof.
  intros H. unfold parse_human, b64url_decode_string, parse_human_digits.
  change (fun c => negb (is_crlf c)) with keep. rewrite H.
  destruct (len_mod4 ds); reflexivity.
Qed.

Lemma parse_human_none cs :
  b64_digits true (filter keep (map plus_slash cs)) = None -> parse_human cs = Err EOther.
Proof.
  intros H. unfold parse_human, b64url_decode_string.
  change (fun c => negb (is_crlf c)) with keep. rewrite H. reflexivity.
Qed.

Lemma b64_digits_app url a : forall b,
  b64_digits url (a ++ b)
  = match b64_digits url a, b64_digits url b with
    | Some x, Some y => Some (x ++ y)
    | _, _ => None
    end.
Proof.
  induction a as [|c a IH]; intros b; cbn [app b64_digits].
  - destruct (b64_digits url b); reflexivity.
  - rewrite IH. destruct (b64_digit url c); [|reflexivity].
    destruct (b64_digits url a); [|reflexivity].
    destruct (b64_digits url b); reflexivity.
Qed.

Lemma b64_digit_lt url c d : b64_digit url c = Some d -> d < 64.
Proof.
  unfold b64_digit. intros H.
  destruct ((65 <=? c) && (c <=? 90)) eqn:E1.
  { apply andb_prop in E1. destruct E1 as [A B]. apply N.leb_le in A, B. injection H as <-. lia. }
  destruct ((97 <=? c) && (c <=? 122)) eqn:E2.
  { apply andb_prop in E2. destruct E2 as [A B]. apply N.leb_le in A, B. injection H as <-. lia. }
  destruct ((48 <=? c) && (c <=? 57)) eqn:E3.
  { apply andb_prop in E3. destruct E3 as [A B]. apply N.leb_le in A, B. injection H as <-. lia. }
  destruct (c =? (if url then 45 else 43)); [injection H as <-; lia|].
  destruct (c =? (if url then 95 else 47)); [injection H as <-; lia|discriminate].
Qed.

Lemma set_nth_split {A} (x : A) l : forall i, (i < length l)%nat ->
  set_nth i x l = firstn i l ++ x :: skipn (S i) l.
Proof.
  induction l as [|h t IH]; intros i H; cbn [length] in H; [lia|].
  destruct i as [|i]; cbn [set_nth firstn skipn app]; [reflexivity|].
  f_equal. apply IH. lia.
Qed.

Lemma printed_digits url ds : digits_ok ds ->
  b64_digits true (filter keep (map plus_slash (map (b64_char url) ds))) = Some ds.
Proof. apply decode_string_print. Qed.

Lemma single_char_rejected tab url b t wc addr i c' :
  tab = crc16_table_ref -> length addr = 32%nat -> bytes_ok addr -> (i < 48)%nat ->
  b64_digit true (plus_slash c') <> Some (nth i (human_digits tab b t wc addr) 0) ->
  parse_human (set_nth i c' (print_human tab url b t wc addr)) = Err EOther.
Proof.
  intros Ht HL Ha Hi Hne. unfold print_human.
  set (ds := human_digits tab b t wc addr) in *.
  pose proof (human_bytes_length tab b t wc addr HL) as H36.
  assert (Hlen : length ds = 48%nat).
  { unfold ds, human_digits. rewrite (b64_enc_length _ 12) by (rewrite H36; reflexivity). reflexivity. }
  assert (HD : digits_ok ds) by (apply b64_enc_digits_ok, human_bytes_ok; assumption).
  assert (HD1 : digits_ok (firstn i ds)).
  { unfold digits_ok in *. rewrite Forall_forall in *. intros x Hx. apply HD.
    rewrite <- (firstn_skipn i ds). apply in_or_app. left. exact Hx. }
  assert (HD2 : digits_ok (skipn (S i) ds)).
  { unfold digits_ok in *. rewrite Forall_forall in *. intros x Hx. apply HD.
    rewrite <- (firstn_skipn (S i) ds). apply in_or_app. right. exact Hx. }
  rewrite set_nth_split by (rewrite map_length; lia).
  rewrite firstn_map, skipn_map.
  set (digs := b64_digits true (filter keep (map plus_slash
     (map (b64_char url) (firstn i ds) ++ c' :: map (b64_char url) (skipn (S i) ds))))).
  assert (Hdigs : digs =
    match (if keep (plus_slash c') then
             match b64_digit true (plus_slash c') with Some d => Some [d] | None => None end
           else Some []) with
    | Some m => Some (firstn i ds ++ m ++ skipn (S i) ds)
    | None => None
    end).
  { unfold digs. rewrite map_app, filter_app. cbn [map filter].
    rewrite b64_digits_app, printed_digits by exact HD1.
    destruct (keep (plus_slash c')).
    - cbn [b64_digits]. rewrite printed_digits by exact HD2.
      destruct (b64_digit true (plus_slash c')); reflexivity.
    - rewrite printed_digits by exact HD2. reflexivity. }
  destruct (keep (plus_slash c')).
  - destruct (b64_digit true (plus_slash c')) as [d'|] eqn:Ed.
    + rewrite (parse_human_some _ _ Hdigs). cbn [app].
      rewrite <- set_nth_split by lia.
      apply single_digit_rejected; try assumption.
      * eapply b64_digit_lt; exact Ed.
      * fold ds. congruence.
    + apply parse_human_none. exact Hdigs.
  - rewrite (parse_human_some _ _ Hdigs). cbn [app].
    unfold parse_human_digits.
    destruct (len_mod4 (firstn i ds ++ skipn (S i) ds)) eqn:E; [|reflexivity].
    apply len_mod4_spec in E. destruct E as [k Hk].
    rewrite app_length, firstn_length, skipn_length, Hlen in Hk. lia.
Qed.
