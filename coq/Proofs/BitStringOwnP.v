(** C06, ownership: a Copy is independent of its source and of its siblings —
    whatever is done through one handle leaves the bit string denoted by every
    handle with another buffer exactly as it was; Copy always yields such a
    handle.  The buffer-sharing variant is refuted. *)
From Coq Require Import List NArith Arith Lia Bool.
From Tongo Require Import Lib.Bits Lib.Res Model.BitString Model.BitStringD Model.BitStringOwn
  Proofs.BitStringW Proofs.BitStringD.
Import ListNotations.

Lemma nth_set_nth_other {A} i j (x d : A) l : i <> j -> nth i (set_nth j x l) d = nth i l d.
Proof. revert i j; induction l as [|h t IH]; intros [|i] [|j] H; cbn; auto; congruence. Qed.

Lemma nth_set_nth_same {A} i (x d : A) l : (i < length l)%nat -> nth i (set_nth i x l) d = x.
Proof. revert i; induction l as [|h t IH]; intros [|i] H; cbn in *; try lia; auto. apply IH. lia. Qed.

(** frame: an operation through handle b changes no bit string behind another buffer *)
Theorem h_apply_frame {A} (f : bs -> bs * A) st b st' b' r other :
  h_apply f st b = (st', b', r) -> bid other <> bid b ->
  view st' other = view st other.
Proof.
  unfold h_apply, commit. destruct (f (view st b)) as [s' a]. intros E Hne.
  injection E as <- _ _. unfold view. rewrite nth_set_nth_other by exact Hne. reflexivity.
Qed.

(** the handle itself denotes the result of the value-level operation *)
Theorem h_apply_view {A} (f : bs -> bs * A) st b :
  (bid b < length st)%nat ->
  let '(st', b', r) := h_apply f st b in
  (view st' b', r) = f (view st b) /\ bid b' = bid b /\ length st' = length st.
Proof.
  intros Hb. unfold h_apply, commit. destruct (f (view st b)) as [s' a].
  unfold view. cbn [bid hcap hlen hrcur]. rewrite nth_set_nth_same by exact Hb.
  rewrite set_nth_length. destruct s'; auto.
Qed.

(** Copy: a NEW buffer, same bits, cursor 0, store otherwise unchanged *)
Theorem h_copy_spec st b :
  (bid b < length st)%nat ->
  let '(st', c) := h_copy st b in
  bid c = length st /\ bid c <> bid b /\
  view st' c = copy_bs (view st b) /\
  (forall o, (bid o < length st)%nat -> view st' o = view st o).
Proof.
  intros Hb. unfold h_copy. cbn [bid]. split; [reflexivity|]. split; [lia|]. split.
  - unfold view, copy_bs. cbn [bid hcap hlen hrcur buf cap len]. rewrite app_nth2, Nat.sub_diag by lia. reflexivity.
  - intros o Ho. unfold view. rewrite app_nth1 by exact Ho. reflexivity.
Qed.

(** source and copy (and two sibling copies) are independent: any operation on
    one of them leaves the other's bit string unchanged, in either order *)
Corollary copy_independent {A} (f : bs -> bs * A) st b :
  (bid b < length st)%nat ->
  let '(st1, c) := h_copy st b in
  (* write the copy: the source is unchanged *)
  (let '(st2, _, _) := h_apply f st1 c in view st2 b = view st b) /\
  (* write the source: the copy is unchanged *)
  (let '(st2, _, _) := h_apply f st1 b in view st2 c = copy_bs (view st b)) /\
  (* a sibling copy taken next, then written: the first copy is unchanged *)
  (let '(st2, c2) := h_copy st1 b in
   let '(st3, _, _) := h_apply f st2 c2 in view st3 c = copy_bs (view st b)).
Proof.
  intros Hb. pose proof (h_copy_spec st b Hb) as S. unfold h_copy in *. cbn [bid] in S.
  destruct S as (_ & _ & Vc & Fr). split; [|split].
  - destruct (h_apply f _ _) as [[st2 b2] r] eqn:E.
    rewrite (h_apply_frame _ _ _ _ _ _ b E) by (cbn [bid]; lia). apply Fr. exact Hb.
  - destruct (h_apply f _ b) as [[st2 b2] r] eqn:E.
    rewrite (h_apply_frame _ _ _ _ _ _ (mkh (length st) (hcap b) (hlen b) 0) E) by (cbn [bid]; lia).
    exact Vc.
  - destruct (h_apply f _ _) as [[st3 b3] r] eqn:E.
    rewrite (h_apply_frame _ _ _ _ _ _ (mkh (length st) (hcap b) (hlen b) 0) E)
      by (cbn [bid]; rewrite app_length; cbn [length]; lia).
    unfold view in *. cbn [bid hcap hlen hrcur] in *.
    rewrite app_nth1 by (rewrite app_length; cbn [length]; lia). exact Vc.
Qed.

(** the sharing variant: copy of an EMPTY 16-bit string, 0xAAAA written into
    the first copy, 0x1234 into a sibling: the first copy reads 0x1234, and the
    source's buffer holds bits although nothing was written to it *)
Theorem h_copy_shared_refuted :
  let '(st0, s) := h_new 16 [] in
  let '(st1, a) := h_copy_shared st0 s in
  let '(st2, b) := h_copy_shared st1 s in
  let '(st3, a', _) := h_write_bits (bits_of 16 43690) st2 a in
  let '(st4, b', _) := h_write_bits (bits_of 16 4660) st3 b in
  abs (view st3 a') = bits_of 16 43690 /\
  abs (view st4 a') = bits_of 16 4660 /\                 (* overwritten by the sibling *)
  buf (view st4 s) <> buf (view st0 s) /\ hlen s = 0%nat /\   (* junk behind the empty source *)
  (* the real Copy, same history *)
  (let '(st1, a) := h_copy st0 s in
   let '(st2, b) := h_copy st1 s in
   let '(st3, a', _) := h_write_bits (bits_of 16 43690) st2 a in
   let '(st4, b', _) := h_write_bits (bits_of 16 4660) st3 b in
   abs (view st4 a') = bits_of 16 43690 /\ abs (view st4 b') = bits_of 16 4660 /\
   buf (view st4 s) = buf (view st0 s)).
Proof. vm_compute. repeat split; discriminate. Qed.
