(** Proofs for C16: identity hashes of decoded messages / transactions, the
    caching hasher, SourceBoc, and the canonical cell of Hash(true). *)
From Coq Require Import List NArith ZArith Arith Lia Bool.
From Tongo Require Import Lib.Bits Lib.Res Model.BocParse Model.CellHash Spec.ReprHash Spec.BocLayout
  Proofs.CellHashP Proofs.BocParseP Proofs.DagP Proofs.BocLayoutP Model.MsgHash.
Import ListNotations.

(** invert a chain of binds / conditionals that ended in [Ok] *)
Ltac inv_ok H :=
  repeat (match type of H with
          | bind ?x _ = Ok _ =>
              let E := fresh "E" in destruct x eqn:E; cbn [bind] in H; [|discriminate H|discriminate H]
          | (if ?b then _ else _) = Ok _ =>
              let E := fresh "E" in destruct b eqn:E; try discriminate H
          | (let '(_, _) := ?p in _) = Ok _ => destruct p
          end).

(** *** readers *)
Lemma rd_spec n s b s' : rd n s = Ok (b, s') -> sb s = b ++ sb s' /\ length b = n /\ sr s' = sr s.
Proof.
  unfold rd. rewrite short_spec. destruct (Nat.ltb_spec (length (sb s)) n) as [Hl|Hl]; [discriminate|].
  intros E. injection E as <- <-. cbn [sb sr]. rewrite firstn_skipn, firstn_length. repeat split; lia.
Qed.

Lemma rd_bit_spec s b s' : rd_bit s = Ok (b, s') -> sb s = b :: sb s' /\ sr s' = sr s.
Proof.
  unfold rd_bit. destruct (sb s) as [|x t]; [discriminate|]. intros E. injection E as <- <-. auto.
Qed.

Lemma rd_uint_spec n s v s' :
  rd_uint n s = Ok (v, s') ->
  exists b, sb s = b ++ sb s' /\ length b = n /\ v = N_of_bits b /\ sr s' = sr s.
Proof.
  unfold rd_uint. intros E. inv_ok E. destruct a as [b s1]. injection E as <- <-.
  destruct (rd_spec _ _ _ _ E0) as (A & B & C). exists b. cbn [fst snd]. auto.
Qed.

Lemma next_ref_spec s c s' : next_ref s = Ok (c, s') -> sr s = c :: sr s' /\ sb s' = sb s.
Proof.
  unfold next_ref. destruct (sr s) as [|x t]; [discriminate|]. intros E. injection E as <- <-. auto.
Qed.

(** *** the hash is taken first, from the cell that is decoded *)
Lemma decode_message_gen_hash o hr c m :
  decode_message_gen o hr c = Ok m -> hr = Ok (m_hash m) /\ is_library_cell c = false.
Proof.
  unfold decode_message_gen, decode_message_body. intros E. inv_ok E.
  repeat match goal with p : (_ * _)%type |- _ => destruct p end.
  injection E as <-. auto.
Qed.

Lemma decode_tx_gen_hash o hr hf c t :
  decode_tx_gen o hr hf c = Ok t -> hr = Ok (tx_hash t) /\ tx_src t = c.
Proof.
  unfold decode_tx_gen. intros E. inv_ok E. injection E as <-. auto.
Qed.

Section P.
Variable H : bytes -> bytes.

(** Cell.Hash() of a tree is the representation hash (C02) *)
Lemma hash_cell_repr c h : masks_ok c -> hash_cell H c = Ok h -> repr_hash H c = Ok h.
Proof.
  unfold hash_cell. intros Hm E. inv_ok E.
  destruct (cell_hash_is_repr_hash H c a Hm E0) as (A & _).
  unfold repr_hash. rewrite A. exact E.
Qed.

Theorem decoded_hash_is_source o c m :
  masks_ok c -> decode_message H o c = Ok m ->
  repr_hash H c = Ok (m_hash m) /\ msg_hash H false m = Ok (m_hash m).
Proof.
  intros Hm E. destruct (decode_message_gen_hash _ _ _ _ E) as (Hh & _).
  split; [apply hash_cell_repr; assumption|reflexivity].
Qed.

Theorem decoded_tx_hash_is_source o c t :
  masks_ok c -> decode_tx H o c = Ok t -> repr_hash H c = Ok (tx_hash t) /\ tx_src t = c.
Proof.
  intros Hm E. destruct (decode_tx_gen_hash _ _ _ _ _ E) as (Hh & Hs).
  split; [apply hash_cell_repr; assumption|exact Hs].
Qed.

(** the caching hasher: the cell sits anywhere in an array hashed with sharing *)
Lemma cached_hash_is_hash_cell cells k c :
  nth_error (trees_of 0 cells) k = Some (Ok c) -> cached_hash H cells k = hash_cell H c.
Proof.
  intros Ht. unfold cached_hash, cached_hash_of. rewrite (eval_dag_is_tree H cells 0 k c Ht). reflexivity.
Qed.

Theorem cached_decode_same o cells k c :
  nth_error (trees_of 0 cells) k = Some (Ok c) ->
  decode_message_gen o (cached_hash H cells k) c = decode_message H o c /\
  decode_tx_gen o (cached_hash H cells k) (hash_cell H) c = decode_tx H o c.
Proof.
  intros Ht. rewrite (cached_hash_is_hash_cell _ _ _ Ht). split; reflexivity.
Qed.

(** the in_msg of a transaction: first reference of the first reference *)
Lemma parse_in_msg_some o hf s m s' :
  parse_in_msg o hf s = Ok (Some m, s') ->
  exists r rest, sr s = r :: rest /\ decode_message_gen o (hf r) r = Ok m.
Proof.
  unfold parse_in_msg. intros E. inv_ok E; try discriminate.
  destruct a as [b s1]. destruct a0 as [r s2]. cbn [fst snd] in *.
  destruct (rd_bit_spec _ _ _ E0) as (_ & R1). destruct (next_ref_spec _ _ _ E2) as (R2 & _).
  injection E as <- _. exists r, (sr s2). rewrite <- R1. auto.
Qed.

Theorem tx_in_msg_hash_is_source o c t m :
  decode_tx H o c = Ok t -> tx_in_msg t = Some m ->
  exists c1 r, nth_error (cell_refs c) 0 = Some c1 /\ nth_error (cell_refs c1) 0 = Some r /\
               decode_message H o r = Ok m.
Proof.
  unfold decode_tx, decode_tx_gen. intros E Hin. inv_ok E. injection E as <-. cbn [tx_in_msg] in Hin.
  repeat match goal with
         | p : (_ * _)%type |- _ => destruct p
         end.
  cbn [fst snd] in *. subst.
  repeat match goal with
         | X : rd_uint _ _ = Ok _ |- _ => apply rd_uint_spec in X; destruct X as (? & _ & _ & _ & ?)
         | X : rd _ _ = Ok _ |- _ => apply rd_spec in X; destruct X as (_ & _ & ?)
         end.
  match goal with X : next_ref _ = Ok (?c1, _), Y : parse_in_msg _ _ (open ?c1) = Ok _ |- _ =>
    let R := fresh "R" in let Y1 := fresh "Y1" in let Y2 := fresh "Y2" in
    let r := fresh "r" in let rest := fresh "rest" in
    pose proof (proj1 (next_ref_spec _ _ _ X)) as R;
    destruct (parse_in_msg_some _ _ _ _ _ Y) as (r & rest & Y1 & Y2); exists c1, r;
    split; [|split; [|exact Y2]];
    [ rewrite <- (f_equal (fun l => nth_error l 0) R : _ = Some c1);
      repeat match goal with Z : sr _ = sr _ |- _ => rewrite Z; clear Z end; reflexivity
    | cbn [open sr] in Y1; rewrite Y1; reflexivity ]
  end.
Qed.

(** SourceBoc: any conforming serialisation of the captured cell parses back
    to one root whose hash is the reported one (C01 + C02) *)
Theorem source_boc_parses_back o c t v cells k :
  decode_tx H o c = Ok t ->
  nth_error (trees_of 0 cells) k = Some (Ok (tx_src t)) ->
  layout_ok v cells [k] ->
  exists p, parse_boc (layout v cells [k]) = Ok p /\ p_roots p = [k] /\
            cached_hash H (p_cells p) k = Ok (tx_hash t).
Proof.
  intros E Ht Hl. destruct (decode_tx_gen_hash _ _ _ _ _ E) as (Hh & Hs).
  destruct (parse_layout v cells [k] Hl) as (p & Hp & Hc & Hr); [cbn; lia|].
  exists p. split; [exact Hp|split; [exact Hr|]].
  rewrite Hc, (cached_hash_is_hash_cell _ _ _ Ht), Hs. exact Hh.
Qed.

(** *** Hash(true) *)
Theorem normalized_non_ext_in m :
  (forall s d f, m_info m <> IExtIn s d f) ->
  msg_hash H true m = Ok (m_hash m) /\ msg_hash H true m = msg_hash H false m.
Proof.
  intros Hn. unfold msg_hash. cbn [negb].
  destruct (m_info m) eqn:Ei; try (split; reflexivity).
  exfalso. eapply Hn. reflexivity.
Qed.

Theorem normalized_depends_only_on m1 m2 s1 d1 f1 s2 d2 f2 :
  m_info m1 = IExtIn s1 d1 f1 -> m_info m2 = IExtIn s2 d2 f2 ->
  clear_std_anycast d1 = clear_std_anycast d2 ->
  m_body m1 = m_body m2 ->
  msg_hash H true m1 = msg_hash H true m2.
Proof.
  intros E1 E2 Hd Hb. unfold msg_hash. cbn [negb]. rewrite E1, E2.
  unfold norm_cell, norm_info_bits. rewrite Hd, Hb. reflexivity.
Qed.

End P.
