(** Cost of the tree walkers (continued): VmStackValue / tuples are linear in
    the size of the tree; a VmStack list costs 2 x size + 912 x height^2 (the
    per-level copy of the tail: the quadratic term, stated on its own);
    snake data 66 x size x height; none depends on an announced length. *)
From Coq Require Import List NArith ZArith Arith Lia Bool.
From Tongo Require Import Lib.Bits Lib.Res Spec.Dict Model.Hashmap Model.TlbCore Model.TlbTotal
     Proofs.TlbTotalP Model.TlbHand Proofs.TlbHandP Proofs.TlbHandR.
Import ListNotations.
Local Open Scope N_scope.

Definition ypost {A} (P : A -> Prop) (b : N) (st : ct) (r : yres A) : Prop :=
  cost (snd r) <= cost st + b /\
  match fst r with Ok a => P a | Err e => e <> EFuel | Panic _ => False end.

Lemma ypost_ret {A} (P : A -> Prop) a st b : P a -> ypost P b st (yret a st).
Proof. intros H. split; cbn; [lia | exact H]. Qed.
Lemma ypost_err {A} (P : A -> Prop) e st b : e <> EFuel -> ypost P b st (@yerr A e st).
Proof. intros H. split; cbn; [lia | exact H]. Qed.
Lemma ypost_weaken {A} (P P' : A -> Prop) b b' st r :
  ypost P b st r -> b <= b' -> (forall a, P a -> P' a) -> ypost P' b' st r.
Proof.
  intros [H1 H2] Hb HP. split; [lia|]. destruct (fst r); auto.
Qed.
Lemma ypost_bind {A B} (P : A -> Prop) (Q : B -> Prop) b1 b2 st (r : yres A) (k : A -> ct -> yres B) :
  ypost P b1 st r -> (forall a st', P a -> ypost Q b2 st' (k a st')) ->
  ypost Q (b1 + b2) st (ybind r k).
Proof.
  intros [H1 H2] Hk. destruct r as [[a | e | p] st1]; cbn [fst snd ybind] in *.
  - destruct (Hk a st1 H2) as [H3 H4]. split; cbn [fst snd ybind]; [lia | exact H4].
  - split; cbn [fst snd ybind]; [lia | exact H2].
  - contradiction.
Qed.
Lemma ypost_lift {A} (P : A -> Prop) (r : res A) st b :
  good r -> (forall a, r = Ok a -> P a) -> ypost P b st (ylift r st).
Proof.
  intros Hg HP. destruct r as [a | e | p]; cbn [ylift]; split; cbn [fst snd]; try lia.
  - apply HP; reflexivity.
  - exact Hg.
  - exact Hg.
Qed.
Lemma ypost_if {A} (P : A -> Prop) b st (c : bool) (x y : yres A) :
  ypost P b st x -> ypost P b st y -> ypost P b st (if c then x else y).
Proof. destruct c; auto. Qed.
Lemma ypost_tick {A} (P : A -> Prop) b st (r : yres A) :
  ypost P b (tickc st) r -> ypost P (b + 1) st r.
Proof. intros [H1 H2]. rewrite cost_tickc in H1. split; [lia | exact H2]. Qed.
Lemma ypost_chg {A} (P : A -> Prop) b n st (r : yres A) :
  ypost P b (chg n st) r -> ypost P (b + n) st r.
Proof. intros [H1 H2]. rewrite cost_chg in H1. split; [lia | exact H2]. Qed.

Definition rsz (l : list xtree) : N := fold_right (fun x a => tsz x + a) 0 l.
Lemma tsz_rsz k b r : tsz (XT k b r) = cell_w b + rsz r.
Proof. reflexivity. Qed.
Lemma rsz_cons c r : rsz (c :: r) = tsz c + rsz r.
Proof. reflexivity. Qed.

Lemma ysub_vm_cellslice s s' : vm_cellslice s = Ok s' -> ysub s' s.
Proof.
  unfold vm_cellslice.
  destruct (ytake_ref s) as [[cell s1] | | ] eqn:E0; cbn [bind]; try discriminate.
  destruct (ytake_bits 10 s1) as [a | | ] eqn:E1; cbn [bind]; try discriminate.
  destruct (ytake_bits 10 (snd a)) as [b | | ] eqn:E2; cbn [bind]; try discriminate.
  destruct (_ <? _); [discriminate|].
  destruct (ytake_bits 3 (snd b)) as [c | | ] eqn:E3; cbn [bind]; try discriminate.
  destruct (ytake_bits 3 (snd c)) as [d | | ] eqn:E4; cbn [bind]; try discriminate.
  destruct (_ <? _); [discriminate|].
  destruct cell as [k cb crefs]. destruct (_ <? _); [discriminate|]. destruct (_ <? _); [discriminate|].
  intros E; inversion E; subst.
  pose proof (ysub_take_ref _ _ E0) as [H0 _]. cbn in H0.
  pose proof (ysub_take_bits _ _ _ E1). pose proof (ysub_take_bits _ _ _ E2).
  pose proof (ysub_take_bits _ _ _ E3). pose proof (ysub_take_bits _ _ _ E4).
  eauto using ysub_trans.
Qed.

(** * VmStackValue and tuples: one step per visited cell *)
Definition vsub (k : N) (b : bits) (refs : list xtree) (s' : ys) : Prop :=
  (length (yb s') <= length b)%nat /\ exists pre, refs = pre ++ yr s'.

Lemma vmw_cost : forall c mode st,
  ypost (fun s' => ysub s' (slice_of c)) (tsz c) st (vmw mode c st).
Proof.
  induction c as [k b refs IH] using xtree_ind'. intros mode st.
  cbn [vmw]. lazy zeta.
  assert (Hafter : forall refs1 b1 stx,
            Forall (fun c => forall mode st, ypost (fun s' => ysub s' (slice_of c)) (tsz c) st (vmw mode c st)) refs1 ->
            ypost (fun s' => yb s' = b1 /\ exists pre, refs1 = pre ++ yr s') (rsz refs1) stx
                 (match refs1 with
                  | [] => yerr ENotEnoughRefs stx
                  | c2 :: r3 => doy (_, st2) <- vmw None c2 stx; yret (mkys k b1 r3) st2
                  end)).
  { intros refs1 b1 stx HF. destruct refs1 as [ | c2 r3]; [apply ypost_err; discriminate|].
    inversion HF as [ | ? ? H2 H3]; subst. rewrite rsz_cons.
    eapply ypost_weaken.
    - eapply ypost_bind; [apply H2|]. intros a st' _.
      apply (ypost_ret (fun s' => yb s' = b1 /\ exists pre, c2 :: r3 = pre ++ yr s') _ st' 0).
      split; [reflexivity | exists [c2]; reflexivity].
    - lia.
    - auto. }
  assert (Htuple : forall n b1 stx,
            ypost (fun s' => yb s' = b1 /\ exists pre, refs = pre ++ yr s') (rsz refs) stx
                 (if N.eqb n 0 then yret (mkys k b1 refs) stx else
                  if N.eqb (N.pred n) 0 then
                    match refs with
                    | [] => yerr ENotEnoughRefs stx
                    | c2 :: r3 => doy (_, st2) <- vmw None c2 stx; yret (mkys k b1 r3) st2
                    end
                  else match refs with
                       | [] => yerr ENotEnoughRefs stx
                       | c1 :: r1 =>
                           if N.eqb (N.pred n) 1 then
                             doy (_, st1) <- vmw None c1 stx;
                             match r1 with
                             | [] => yerr ENotEnoughRefs st1
                             | c2 :: r3 => doy (_, st2) <- vmw None c2 st1; yret (mkys k b1 r3) st2
                             end
                           else doy (_, st1) <- vmw (Some (N.pred n)) c1 stx;
                                match r1 with
                                | [] => yerr ENotEnoughRefs st1
                                | c2 :: r3 => doy (_, st2) <- vmw None c2 st1; yret (mkys k b1 r3) st2
                                end
                       end)).
  { intros n b1 stx.
    apply ypost_if; [apply ypost_ret; split; [reflexivity | exists []; reflexivity]|].
    apply ypost_if; [apply Hafter; exact IH|].
    destruct refs as [ | c1 r1]; [apply ypost_err; discriminate|].
    inversion IH as [ | ? ? Hc1 Hr1]; subst. rewrite rsz_cons.
    assert (Hcons : forall s', (yb s' = b1 /\ exists pre, r1 = pre ++ yr s') ->
                     (yb s' = b1 /\ exists pre, c1 :: r1 = pre ++ yr s')).
    { intros s' [H1 [pre H2]]. split; [exact H1|]. exists (c1 :: pre). rewrite H2. reflexivity. }
    apply ypost_if.
    - eapply ypost_weaken.
      + eapply ypost_bind; [apply (Hc1 None stx)|]. intros a st' _. apply (Hafter r1 b1 st' Hr1).
      + lia.
      + exact Hcons.
    - eapply ypost_weaken.
      + eapply ypost_bind; [apply (Hc1 (Some (N.pred n)) stx)|]. intros a st' _. apply (Hafter r1 b1 st' Hr1).
      + lia.
      + exact Hcons. }
  assert (Hconv : forall b1 s', (length b1 <= length b)%nat ->
            (yb s' = b1 /\ exists pre, refs = pre ++ yr s') -> ysub s' (slice_of (XT k b refs))).
  { intros b1 s' Hl [H1 H2]. split; cbn; [rewrite H1; exact Hl | exact H2]. }
  rewrite tsz_rsz. pose proof (cell_w_pos b) as Hw.
  destruct mode as [n | ].
  - eapply ypost_weaken; [apply ypost_tick; apply (Htuple n b (tickc st)) | lia | intros a Ha; apply (Hconv b a); [lia | exact Ha]].
  - eapply ypost_weaken with (b := (cell_w b + rsz refs - 1) + 1) (P := fun s' => ysub s' (slice_of (XT k b refs)));
      [apply ypost_tick | lia | auto].
    assert (Hs1 : forall j, ysub (mkys k (skipn j b) refs) (slice_of (XT k b refs))).
    { intros j. split; cbn; [rewrite skipn_length; lia | exists []; reflexivity]. }
    assert (Hb : forall w j stx,
              ypost (fun s' => ysub s' (slice_of (XT k b refs))) (cell_w b + rsz refs - 1) stx
                    (doy (x, st0) <- ylift (ytake_bits w (mkys k (skipn j b) refs)) stx; yret (snd x) st0)).
    { intros w j stx. eapply ypost_weaken.
      - eapply ypost_bind with (P := fun x => ysub (snd x) (mkys k (skipn j b) refs))
                                (Q := fun s' => ysub s' (mkys k (skipn j b) refs)) (b1 := 0) (b2 := 0).
        + apply ypost_lift; [apply good_ytake_bits | intros a E; apply (ysub_take_bits _ _ _ E)].
        + intros a st' Ha. apply (ypost_ret (fun s' => ysub s' (mkys k (skipn j b) refs))). exact Ha.
      - lia.
      - intros a Ha. eapply ysub_trans; [exact Ha | apply Hs1]. }
    apply ypost_if; [apply ypost_err; discriminate|].
    apply ypost_if; [apply ypost_err; discriminate|].
    apply ypost_if; [apply ypost_ret; apply Hs1|].
    apply ypost_if; [apply Hb|].
    apply ypost_if.
    { apply ypost_if; [apply ypost_err; discriminate|]. apply ypost_if; [apply Hb|].
      apply ypost_if; [apply ypost_err; discriminate|].
      apply ypost_if; [apply ypost_ret; apply Hs1 | apply ypost_err; discriminate]. }
    apply ypost_if.
    { eapply ypost_weaken.
      - eapply ypost_bind with (P := fun x => ysub (snd x) (mkys k (skipn 8 b) refs))
                                (Q := fun s' => ysub s' (mkys k (skipn 8 b) refs)) (b1 := 0) (b2 := 0).
        + apply ypost_lift; [apply good_ytake_ref | intros a E; apply (ysub_take_ref _ _ E)].
        + intros a st' Ha. apply (ypost_ret (fun s' => ysub s' (mkys k (skipn 8 b) refs))). exact Ha.
      - lia.
      - intros a Ha. eapply ysub_trans; [exact Ha | apply Hs1]. }
    apply ypost_if.
    { apply ypost_lift; [apply good_vm_cellslice|]. intros a E.
      eapply ysub_trans; [apply (ysub_vm_cellslice _ _ E) | apply Hs1]. }
    apply ypost_if; [apply ypost_err; discriminate|].
    apply ypost_if; [|apply ypost_err; discriminate].
    apply ypost_if; [apply ypost_err; discriminate|].
    eapply ypost_weaken; [apply (Htuple _ (skipn 24 b) (tickc st)) | lia | intros a Ha; apply (Hconv (skipn 24 b) a); [rewrite skipn_length; lia | exact Ha]].
Qed.
