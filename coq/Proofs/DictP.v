(** Facts about the specification side of C05 (Spec/Dict.v): the bit order is a
    strict total order, and every strictly sorted non-empty list of n-bit keys
    is the key/value list of a well-formed Patricia tree. *)
From Coq Require Import List NArith Arith Lia Bool Sorted.
From Tongo Require Import Lib.Bits Lib.Res Spec.Dict.
Import ListNotations.

(** ** bits_cmp *)
Lemma bits_cmp_refl a : bits_cmp a a = Eq.
Proof. induction a as [|[] a IH]; cbn [bits_cmp]; auto. Qed.

Lemma bits_cmp_eq a b : bits_cmp a b = Eq -> a = b.
Proof.
  revert b; induction a as [|x a IH]; intros [|y b] H; cbn [bits_cmp] in H;
    try discriminate; auto.
  destruct x, y; try discriminate; f_equal; auto.
Qed.

Lemma bits_cmp_antisym a b : bits_cmp b a = CompOpp (bits_cmp a b).
Proof.
  revert b; induction a as [|x a IH]; intros [|y b]; cbn [bits_cmp CompOpp]; auto.
  destruct x, y; cbn [CompOpp]; auto.
Qed.

Lemma bits_lt_trans a b c : bits_lt a b -> bits_lt b c -> bits_lt a c.
Proof.
  unfold bits_lt. revert b c; induction a as [|x a IH]; intros [|y b] [|z c] H1 H2;
    cbn [bits_cmp] in *; try discriminate; auto.
  destruct x, y, z; try discriminate; eauto.
Qed.

Lemma bits_lt_irrefl a : ~ bits_lt a a.
Proof. unfold bits_lt. rewrite bits_cmp_refl. discriminate. Qed.

Lemma bits_lt_asym a b : bits_lt a b -> ~ bits_lt b a.
Proof. intros H1 H2. apply (bits_lt_irrefl a). eapply bits_lt_trans; eauto. Qed.

Lemma bits_cmp_app p a b : bits_cmp (p ++ a) (p ++ b) = bits_cmp a b.
Proof. induction p as [|[] p IH]; cbn [app bits_cmp]; auto. Qed.

Lemma bits_lt_total a b : bits_lt a b \/ a = b \/ bits_lt b a.
Proof.
  unfold bits_lt. rewrite (bits_cmp_antisym a b).
  destruct (bits_cmp a b) eqn:E; cbn [CompOpp]; auto.
  right; left. apply bits_cmp_eq; exact E.
Qed.

Lemma bits_eqb_eq a b : bits_eqb a b = true <-> a = b.
Proof.
  unfold bits_eqb. split.
  - destruct (bits_cmp a b) eqn:E; try discriminate. intros _. apply bits_cmp_eq; exact E.
  - intros ->. rewrite bits_cmp_refl. reflexivity.
Qed.

Lemma bits_ltb_lt a b : bits_ltb a b = true <-> bits_lt a b.
Proof.
  unfold bits_ltb, bits_lt. destruct (bits_cmp a b); split; intros H; try discriminate; auto.
Qed.

Section DictP.
Variable V : Type.
Notation amap := (list (bits * V)).

(** ** addp *)
Lemma addp_nil_prefix (m : amap) : addp [] m = m.
Proof.
  unfold addp. induction m as [|[k v] m IH]; cbn [map]; [reflexivity|].
  rewrite IH. reflexivity.
Qed.

Lemma addp_addp p q (m : amap) : addp p (addp q m) = addp (p ++ q) m.
Proof.
  unfold addp. rewrite map_map. apply map_ext. intros [k v]. cbn [fst snd].
  rewrite app_assoc. reflexivity.
Qed.

Lemma addp_app p (m1 m2 : amap) : addp p (m1 ++ m2) = addp p m1 ++ addp p m2.
Proof. unfold addp. apply map_app. Qed.

Lemma addp_length p (m : amap) : length (addp p m) = length m.
Proof. unfold addp. apply map_length. Qed.

(** ** tree_to_list *)
Lemma ttl_prefix (t : pt V) p : tree_to_list p t = addp p (tree_to_list [] t).
Proof.
  revert p; induction t as [lbl v|lbl l IHl r IHr]; intros p.
  - cbn [tree_to_list addp map fst snd app]. reflexivity.
  - cbn [tree_to_list app]. rewrite (IHl (p ++ lbl ++ [false])), (IHr (p ++ lbl ++ [true])).
    rewrite (IHl (lbl ++ [false])), (IHr (lbl ++ [true])).
    rewrite addp_app, !addp_addp. reflexivity.
Qed.

Lemma ttl_nonempty (t : pt V) p : tree_to_list p t <> [].
Proof.
  revert p; induction t as [lbl v|lbl l IHl r IHr]; intros p; cbn [tree_to_list].
  - discriminate.
  - intros H. apply app_eq_nil in H. destruct H as [H _]. exact (IHl _ H).
Qed.

(** prepend one bit to the root label *)
Definition plabel (b : bool) (t : pt V) : pt V :=
  match t with
  | Leaf lbl v => Leaf (b :: lbl) v
  | Fork lbl l r => Fork (b :: lbl) l r
  end.

Lemma ttl_plabel b t p : tree_to_list p (plabel b t) = tree_to_list (p ++ [b]) t.
Proof.
  destruct t as [lbl v|lbl l r]; cbn [plabel tree_to_list].
  - rewrite <- app_assoc. reflexivity.
  - rewrite <- !app_assoc. reflexivity.
Qed.

Lemma wf_plabel b t n : wf_pt n t -> wf_pt (S n) (plabel b t).
Proof.
  destruct t as [lbl v|lbl l r]; cbn [plabel wf_pt length].
  - intros ->. reflexivity.
  - intros (H1 & H2 & H3). repeat split; [lia|exact H2|exact H3].
Qed.

(** ** a sorted list of (S n)-bit keys splits on the first bit *)
Lemma sorted_split_first n (m : amap) :
  sorted m -> keys_len (S n) m ->
  exists L R, m = addp [false] L ++ addp [true] R /\
    sorted L /\ sorted R /\ keys_len n L /\ keys_len n R.
Proof.
  unfold sorted, keys_len.
  induction m as [|[k v] t IH]; intros Hs Hl.
  - exists [], []. repeat split; constructor.
  - apply StronglySorted_inv in Hs. destruct Hs as [Hst Hall].
    apply Forall_cons_iff in Hl. destruct Hl as [Hk Hlt]. cbn [fst] in Hk.
    destruct (IH Hst Hlt) as (L & R & Et & HsL & HsR & HlL & HlR).
    destruct k as [|b k']; [discriminate|]. cbn [length] in Hk.
    assert (Hk' : length k' = n) by lia.
    destruct b.
    + (* the head starts with 1: nothing after it starts with 0 *)
      destruct L as [|[x w] L0].
      * exists [], ((k', v) :: R). cbn [addp map app fst snd] in *.
        repeat split; auto; try constructor; auto.
        -- f_equal. exact Et.
        -- rewrite Et in Hall. rewrite Forall_forall in *. intros [y u] Hin.
           specialize (Hall (true :: y, u)). unfold key_lt, bits_lt in *. cbn [fst] in *.
           apply Hall. apply in_map_iff. exists (y, u). split; auto.
      * exfalso. rewrite Et in Hall. apply Forall_inv in Hall.
        unfold key_lt, bits_lt in Hall. cbn in Hall. discriminate.
    + exists ((k', v) :: L), R. cbn [addp map app fst snd] in *.
      repeat split; auto; try constructor; auto.
      * f_equal. exact Et.
      * rewrite Et in Hall. rewrite Forall_forall in *. intros [y u] Hin.
        specialize (Hall (false :: y, u)). unfold key_lt, bits_lt in *. cbn [fst] in *.
        apply Hall. apply in_or_app. left. apply in_map_iff. exists (y, u). split; auto.
Qed.

(** ** representation theorem *)
Theorem sorted_tree_exists n (m : amap) :
  sorted m -> keys_len n m -> m <> [] ->
  exists t, wf_pt n t /\ tree_to_list [] t = m.
Proof.
  revert m; induction n as [|n IH]; intros m Hs Hl Hne.
  - destruct m as [|[k v] t]; [exfalso; apply Hne; reflexivity|].
    unfold sorted, keys_len in *.
    apply StronglySorted_inv in Hs. destruct Hs as [_ Hall].
    apply Forall_cons_iff in Hl. destruct Hl as [Hk Hlt]. cbn [fst] in Hk.
    apply length_zero_iff_nil in Hk. subst k.
    destruct t as [|[k2 v2] t2].
    + exists (Leaf [] v). split; reflexivity.
    + exfalso. apply Forall_inv in Hall. apply Forall_inv in Hlt. cbn [fst] in Hlt.
      apply length_zero_iff_nil in Hlt. subst k2.
      unfold key_lt, bits_lt in Hall. cbn in Hall. discriminate.
  - destruct (sorted_split_first n m Hs Hl) as (L & R & Em & HsL & HsR & HlL & HlR).
    destruct L as [|l0 L0], R as [|r0 R0].
    + exfalso. apply Hne. exact Em.
    + destruct (IH (r0 :: R0) HsR HlR ltac:(discriminate)) as (tR & HwR & EtR).
      exists (plabel true tR). split; [apply wf_plabel; exact HwR|].
      rewrite ttl_plabel. cbn [app]. rewrite ttl_prefix, EtR, Em. reflexivity.
    + destruct (IH (l0 :: L0) HsL HlL ltac:(discriminate)) as (tL & HwL & EtL).
      exists (plabel false tL). split; [apply wf_plabel; exact HwL|].
      rewrite ttl_plabel. cbn [app]. rewrite ttl_prefix, EtL, Em.
      cbn [addp map]. rewrite app_nil_r. reflexivity.
    + destruct (IH (l0 :: L0) HsL HlL ltac:(discriminate)) as (tL & HwL & EtL).
      destruct (IH (r0 :: R0) HsR HlR ltac:(discriminate)) as (tR & HwR & EtR).
      exists (Fork [] tL tR). split.
      * cbn [wf_pt length]. rewrite Nat.sub_0_r. cbn [Nat.sub]. rewrite Nat.sub_0_r.
        repeat split; [lia|exact HwL|exact HwR].
      * cbn [tree_to_list app]. rewrite (ttl_prefix tL), (ttl_prefix tR), EtL, EtR, Em.
        reflexivity.
Qed.

(** conversely the list of a well-formed tree is sorted with n-bit keys, so
    [wf_pt] trees and sorted key lists are the same thing *)
Lemma addp_keys_len p n (m : amap) :
  keys_len n m -> keys_len (length p + n) (addp p m).
Proof.
  unfold keys_len, addp. intros H. apply Forall_map.
  eapply Forall_impl; [|exact H]. intros [k v] Hk. cbn [fst] in *.
  rewrite app_length. lia.
Qed.

Lemma ttl_keys_len (t : pt V) n : wf_pt n t -> keys_len n (tree_to_list [] t).
Proof.
  revert n; induction t as [lbl v|lbl l IHl r IHr]; intros n; cbn [wf_pt tree_to_list app].
  - intros H. constructor; [exact H|constructor].
  - intros (H1 & H2 & H3). unfold keys_len. apply Forall_app. split.
    + rewrite ttl_prefix.
      replace n with (length (lbl ++ [false]) + (n - length lbl - 1))%nat
        by (rewrite app_length; cbn [length]; lia).
      apply addp_keys_len. apply IHl. exact H2.
    + rewrite ttl_prefix.
      replace n with (length (lbl ++ [true]) + (n - length lbl - 1))%nat
        by (rewrite app_length; cbn [length]; lia).
      apply addp_keys_len. apply IHr. exact H3.
Qed.

Lemma addp_sorted p (m : amap) : sorted m -> sorted (addp p m).
Proof.
  unfold sorted, addp. induction 1 as [|[k v] t Hs IH Hall]; cbn [map]; constructor; auto.
  apply Forall_map. eapply Forall_impl; [|exact Hall].
  intros [k2 v2]. unfold key_lt, bits_lt. cbn [fst]. rewrite bits_cmp_app. auto.
Qed.

Lemma ttl_sorted (t : pt V) : sorted (tree_to_list [] t).
Proof.
  induction t as [lbl v|lbl l IHl r IHr]; cbn [tree_to_list app].
  - constructor; constructor.
  - rewrite (ttl_prefix l), (ttl_prefix r). unfold sorted.
    assert (Hcross : forall a b, In a (addp (lbl ++ [false]) (tree_to_list [] l)) ->
                            In b (addp (lbl ++ [true]) (tree_to_list [] r)) -> key_lt a b).
    { intros a b Ha Hb. unfold addp in *. apply in_map_iff in Ha, Hb.
      destruct Ha as ([ka va] & <- & _), Hb as ([kb vb] & <- & _).
      unfold key_lt, bits_lt. cbn [fst snd]. rewrite <- !app_assoc, bits_cmp_app.
      cbn [app bits_cmp]. reflexivity. }
    pose proof (addp_sorted (lbl ++ [false]) _ IHl) as Sl.
    pose proof (addp_sorted (lbl ++ [true]) _ IHr) as Sr.
    unfold sorted in Sl, Sr.
    induction Sl as [|a ta Hsa IHa Halla]; cbn [app]; [exact Sr|].
    constructor.
    + apply IHa. intros x y Hx Hy. apply Hcross; [right; exact Hx|exact Hy].
    + apply Forall_app. split; [exact Halla|].
      apply Forall_forall. intros y Hy. apply Hcross; [left; reflexivity|exact Hy].
Qed.

End DictP.

Arguments plabel {V}.
