(** C02, histories on one caching hasher: why "every answer equals the answer
    on a fresh map" is a real requirement on WHEN the cache is written.
    [new_imm_gen _ true] registers a cell in the cache before it is built (to
    build a shared cell only once) and completes the entry in place at the end.
    On success nothing changes (a DAG has no cycle through which the half-built
    entry could be read).  On the depth-limit error the half-built entries of
    the failing cell and of its ancestors stay: the first request answers the
    error, the NEXT request for the same cell finds the entry and indexes its
    empty hash list (Go: index out of range).  Seeded mutation C02-r2m1 is this
    design.  The witness needs no long chain: a pruned branch that stores depth
    1024 makes its parent exceed the limit. *)
From Coq Require Import List NArith Arith Bool.
From Tongo Require Import Lib.Bits Lib.Res Spec.Sha256 Model.BocParse Model.CellHash Model.HasherCache
  Proofs.HasherCacheP.
Import ListNotations.

(* 01 | mask 1 | 32 zero bytes | depth 1024 *)
Definition wit_deep_pruned : node :=
  mknode true T_PRUNED 1 (bits_of 8 1 ++ bits_of 8 1 ++ zeros 256 ++ bits_of 16 1024) [].
Definition wit_parent : node := mknode false 0 1 [true; false; true] [1%nat].
Definition wit_cells : list node := [wit_parent; wit_deep_pruned].
Definition wit_history : list hop := [OpHash 0; OpHash 0; OpHashString 0; OpHash 1].

Lemma wit_refs_forward : refs_forward wit_cells.
Proof.
  intros i nd Hi. destruct i as [|[|i]]; cbn [wit_cells nth_error] in Hi.
  - injection Hi as <-. cbn [wit_parent n_refs wit_cells length]. constructor; [auto|constructor].
  - injection Hi as <-. constructor.
  - destruct i; discriminate Hi.
Qed.

(** the code (register at the end): error every time, the child still hashes *)
Lemma wit_real_history :
  map is_ok (hasher_run sha256 false wit_cells new_hasher wit_history) = [false; false; false; true] /\
  map is_panic (hasher_run sha256 false wit_cells new_hasher wit_history) = [false; false; false; false].
Proof. split; vm_compute; reflexivity. Qed.

(** register-before-build: the first answer is still the error; the second and
    third requests crash; the answers differ from the fresh ones. *)
Theorem register_before_build_refuted :
  nth_error (hasher_run sha256 true wit_cells new_hasher wit_history) 0 = Some (Err EDepth) /\
  nth_error (hasher_run sha256 true wit_cells new_hasher wit_history) 1 = Some (Panic PIndex) /\
  nth_error (hasher_run sha256 true wit_cells new_hasher wit_history) 2 = Some (Panic PIndex) /\
  hasher_run sha256 true wit_cells new_hasher wit_history <> map (fresh_op sha256 wit_cells) wit_history /\
  hasher_run sha256 false wit_cells new_hasher wit_history = map (fresh_op sha256 wit_cells) wit_history.
Proof.
  assert (A : nth_error (hasher_run sha256 true wit_cells new_hasher wit_history) 1 = Some (Panic PIndex))
    by (vm_compute; reflexivity).
  split; [vm_compute; reflexivity|]. split; [exact A|]. split; [vm_compute; reflexivity|].
  split.
  - intros E. rewrite E in A.
    rewrite <- (hasher_history_fresh sha256 wit_cells wit_refs_forward wit_history new_hasher
                  (new_hasher_ok sha256 wit_cells)) in A.
    assert (B : nth_error (hasher_run sha256 false wit_cells new_hasher wit_history) 1 = Some (Err EDepth))
      by (vm_compute; reflexivity).
    rewrite B in A. discriminate A.
  - apply hasher_history_fresh; [exact wit_refs_forward|apply new_hasher_ok].
Qed.

(** a single request cannot tell the two designs apart: the defect needs a
    history (same answer on an empty hasher, for every cell of the witness) *)
Lemma first_request_same i :
  snd (hasher_hash sha256 true wit_cells new_hasher i) = snd (hasher_hash sha256 false wit_cells new_hasher i).
Proof.
  destruct i as [|[|i]]; [vm_compute; reflexivity|vm_compute; reflexivity|].
  unfold hasher_hash. cbn [new_imm_gen new_hasher h_cache cache_get wit_cells nth_error length].
  destruct i; reflexivity.
Qed.

(** *** results are values
    The answers of the model are values: what a caller holds after a history is
    what was answered.  A hasher that returns a view of ONE scratch buffer it
    owns (seeded mutation C02-r6m1) answers every request correctly at the
    moment of the call, but every successful answer the caller still holds
    shows the LAST successful answer. *)
Definition end_view_scratch (rs : list (res bytes)) : list (res bytes) :=
  let last := fold_left (fun acc r => match r with Ok h => Some h | _ => acc end) rs None in
  map (fun r => match r, last with Ok _, Some h => Ok h | _, _ => r end) rs.

Definition wit_two_cells : list node := [mknode false 0 0 [true] [1%nat]; mknode false 0 0 [false] []].

Theorem scratch_buffer_refuted :
  let answers := hasher_run sha256 false wit_two_cells new_hasher [OpHash 0; OpHash 1] in
  answers = map (fresh_op sha256 wit_two_cells) [OpHash 0; OpHash 1] /\
  nth_error (end_view_scratch answers) 0 = nth_error answers 1 /\
  end_view_scratch answers <> answers.
Proof.
  cbn zeta.
  assert (A : nth_error (end_view_scratch (hasher_run sha256 false wit_two_cells new_hasher [OpHash 0; OpHash 1])) 0 =
              nth_error (hasher_run sha256 false wit_two_cells new_hasher [OpHash 0; OpHash 1]) 1)
    by (vm_compute; reflexivity).
  split; [vm_compute; reflexivity|]. split; [exact A|].
  intros E. rewrite E in A. vm_compute in A. discriminate A.
Qed.
