(** C02, histories on one caching hasher: why "every answer equals the answer
    on a fresh map" is a real requirement on WHEN the cache is written.
    [new_imm_gen _ true] registers a cell in the cache before it is built (to
    build a shared cell only once) and completes the entry in place at the end.
    On success nothing changes (a DAG has no cycle through which the half-built
    entry could be read).  On the depth-limit error the half-built entries of
    the failing cell and of its ancestors stay: the first request answers the
    error, the NEXT request for the same cell finds the entry and indexes its
    empty hash list (Go: index out of range).  Seeded mutation C02-r2m1 is this
    design.  The witness needs no long chain: a pruned branch that stores depth
    1024 makes its parent exceed the limit. *)
From Coq Require Import List NArith Arith Bool.
From Tongo Require Import Lib.Bits Lib.Res Spec.Sha256 Model.BocParse Model.CellHash Model.HasherCache
  Proofs.HasherCacheP.
Import ListNotations.

(* 01 | mask 1 | 32 zero bytes | depth 1024 *)
Definition wit_deep_pruned : node :=
  mknode true T_PRUNED 1 (bits_of 8 1 ++ bits_of 8 1 ++ zeros 256 ++ bits_of 16 1024) [].
Definition wit_parent : node := mknode false 0 1 [true; false; true] [1%nat].
Definition wit_cells : list node := [wit_parent; wit_deep_pruned].
Definition wit_history : list hop := [OpHash 0; OpHash 0; OpHashString 0; OpHash 1].

Lemma wit_refs_forward : refs_forward wit_cells.
Proof.
  intros i nd Hi. destruct i as [|[|i]]; cbn [wit_cells nth_error] in Hi.
  - injection Hi as <-. cbn [wit_parent n_refs wit_cells length]. constructor; [auto|constructor].
  - injection Hi as <-. constructor.
  - destruct i; discriminate Hi.
Qed.

(** the code (register at the end): error every time, the child still hashes *)
Lemma wit_real_history :
  map is_ok (hasher_run sha256 false wit_cells new_hasher wit_history) = [false; false; false; true] /\
  map is_panic (hasher_run sha256 false wit_cells new_hasher wit_history) = [false; false; false; false].
Proof. split; vm_compute; reflexivity. Qed.

(** register-before-build: the first answer is still the error; the second and
    third requests crash; the answers differ from the fresh ones. *)
Theorem register_before_build_refuted :
  nth_error (hasher_run sha256 true wit_cells new_hasher wit_history) 0 = Some (Err EDepth) /\
  nth_error (hasher_run sha256 true wit_cells new_hasher wit_history) 1 = Some (Panic PIndex) /\
  nth_error (hasher_run sha256 true wit_cells new_hasher wit_history) 2 = Some (Panic PIndex) /\
  hasher_run sha256 true wit_cells new_hasher wit_history <> map (fresh_op sha256 wit_cells) wit_history /\
  hasher_run sha256 false wit_cells new_hasher wit_history = map (fresh_op sha256 wit_cells) wit_history.
Proof.
  assert (A : nth_error (hasher_run sha256 true wit_cells new_hasher wit_history) 1 = Some (Panic PIndex))
    by (vm_compute; reflexivity).
  split; [vm_compute; reflexivity|]. split; [exact A|]. split; [vm_compute; reflexivity|].
  split.
  - intros E. rewrite E in A.
    rewrite <- (hasher_history_fresh sha256 wit_cells wit_refs_forward wit_history new_hasher
                  (new_hasher_ok sha256 wit_cells)) in A.
    assert (B : nth_error (hasher_run sha256 false wit_cells new_hasher wit_history) 1 = Some (Err EDepth))
      by (vm_compute; reflexivity).
    rewrite B in A. discriminate A.
  - apply hasher_history_fresh; [exact wit_refs_forward|apply new_hasher_ok].
Qed.

(** a single request cannot tell the two designs apart: the defect needs a
    history (same answer on an empty hasher, for every cell of the witness) *)
Lemma first_request_same i :
  snd (hasher_hash sha256 true wit_cells new_hasher i) = snd (hasher_hash sha256 false wit_cells new_hasher i).
Proof.
  destruct i as [|[|i]]; [vm_compute; reflexivity|vm_compute; reflexivity|].
  unfold hasher_hash. cbn [new_imm_gen new_hasher h_cache cache_get wit_cells nth_error length].
  destruct i; reflexivity.
Qed.

(** *** results are values
    The answers of the model are values: what a caller holds after a history is
    what was answered.  A hasher that returns a view of ONE scratch buffer it
    owns (seeded mutation C02-r6m1) answers every request correctly at the
    moment of the call, but every successful answer the caller still holds
    shows the LAST successful answer. *)
Definition end_view_scratch (rs : list (res bytes)) : list (res bytes) :=
  let last := fold_left (fun acc r => match r with Ok h => Some h | _ => acc end) rs None in
  map (fun r => match r, last with Ok _, Some h => Ok h | _, _ => r end) rs.

Definition wit_two_cells : list node := [mknode false 0 0 [true] [1%nat]; mknode false 0 0 [false] []].

Theorem scratch_buffer_refuted :
  let answers := hasher_run sha256 false wit_two_cells new_hasher [OpHash 0; OpHash 1] in
  answers = map (fresh_op sha256 wit_two_cells) [OpHash 0; OpHash 1] /\
  nth_error (end_view_scratch answers) 0 = nth_error answers 1 /\
  end_view_scratch answers <> answers.
Proof.
  cbn zeta.
  assert (A : nth_error (end_view_scratch (hasher_run sha256 false wit_two_cells new_hasher [OpHash 0; OpHash 1])) 0 =
              nth_error (hasher_run sha256 false wit_two_cells new_hasher [OpHash 0; OpHash 1]) 1)
    by (vm_compute; reflexivity).
  split; [vm_compute; reflexivity|]. split; [exact A|].
  intros E. rewrite E in A. vm_compute in A. discriminate A.
Qed.

From Coq Require Import Lia.

(** *** the one-shot entry points (Cell.Hash / Hash256 / HashString)
    They own no state: each call hashes with a map of its own.  Between two
    calls the application may WRITE into its cells, so a history is a list of
    (the cell array as it is now, the cell asked for).  [scratch_run keep]
    models one package-level scratch map shared by all calls: emptied after
    every call ([keep = false]) or only after a successful one ([keep = true],
    seeded mutation C02-r8m1: what the sub-trees built before a depth-limit
    error recorded survives the error and, after a write, is stale). *)
Section OneShot.
Variable H : bytes -> bytes.

Definition one_shot (cells : list node) (i : nat) : res bytes :=
  do im <- snd (new_imm_gen H false cells (S (length cells)) [] i); cell_hash im.

Definition one_shot_run (steps : list (list node * nat)) : list (res bytes) :=
  map (fun s => one_shot (fst s) (snd s)) steps.

Definition scratch_step (keep : bool) (ch : cache) (cells : list node) (i : nat) : cache * res bytes :=
  let '(ch1, r) := new_imm_gen H false cells (S (length cells)) ch i in
  match r with
  | Ok im => ([], cell_hash im)
  | Err e => (if keep then ch1 else [], Err e)
  | Panic p => (if keep then ch1 else [], Panic p)
  end.

Fixpoint scratch_run (keep : bool) (ch : cache) (steps : list (list node * nat)) : list (res bytes) :=
  match steps with
  | [] => []
  | (cells, i) :: t => let '(ch1, r) := scratch_step keep ch cells i in r :: scratch_run keep ch1 t
  end.

Lemma one_shot_fresh cells i : refs_forward cells -> one_shot cells i = fresh_hash H cells i.
Proof.
  intros Hfw. unfold one_shot, fresh_hash.
  destruct (hash_cache_independent H cells Hfw (S (length cells)) [] i (cache_ok_nil H cells) ltac:(lia)) as (_ & B).
  rewrite B. reflexivity.
Qed.

(** every answer of every history of one-shot requests with arbitrary writes
    in between (failing requests included) is the fresh answer on the cells as
    they are at the moment of the call *)
Theorem one_shot_history_fresh steps :
  Forall (fun s => refs_forward (fst s)) steps ->
  one_shot_run steps = map (fun s => fresh_hash H (fst s) (snd s)) steps.
Proof.
  induction 1 as [|s t Hs Ht IH]; [reflexivity|].
  cbn [one_shot_run map]. rewrite (one_shot_fresh _ _ Hs). f_equal. exact IH.
Qed.

(** a shared scratch map emptied after EVERY call is unobservable *)
Theorem scratch_cleared_is_one_shot steps : scratch_run false [] steps = one_shot_run steps.
Proof.
  induction steps as [|[cells i] t IH]; [reflexivity|].
  cbn [scratch_run one_shot_run map fst snd]. unfold scratch_step, one_shot.
  destruct (new_imm_gen H false cells (S (length cells)) [] i) as [ch1 r]. cbn [snd].
  destruct r as [im|e|p]; cbn [bind]; (f_equal; exact IH).
Qed.
End OneShot.


(** Not vacuous (C02-r8m1): top -> mid -> pruned branch storing depth 1023.
    Hash(top) fails (depth 1025) after mid (depth 1024) was built; the
    application appends a byte to mid; Hash(mid) then answers the hash of the
    OLD mid when the scratch map survives the error.  ([H] is a parameter of
    the model; the witness uses the identity, which keeps the terms small.) *)
Definition os_pruned : node :=
  mknode true T_PRUNED 1 (bits_of 8 1 ++ bits_of 8 1 ++ zeros 256 ++ bits_of 16 1023) [].
Definition os_cells (b : bits) : list node :=
  [mknode false 0 1 [true] [1%nat]; mknode false 0 1 b [2%nat]; os_pruned].
Definition os_steps : list (list node * nat) := [(os_cells [true], 0%nat); (os_cells (repeat true 9), 1%nat)].
Definition os_id (b : bytes) : bytes := b.
Definition os_is_err (r : option (res bytes)) : bool := match r with Some (Err EDepth) => true | _ => false end.
Definition os_len (r : option (res bytes)) : nat := match r with Some (Ok h) => length h | _ => 0%nat end.

Theorem shared_scratch_kept_on_error_refuted :
  os_is_err (nth_error (scratch_run os_id true [] os_steps) 0) = true /\
  nth_error (scratch_run os_id true [] os_steps) 1 = Some (one_shot os_id (os_cells [true]) 1) /\
  os_len (nth_error (scratch_run os_id true [] os_steps) 1) <> os_len (nth_error (one_shot_run os_id os_steps) 1) /\
  scratch_run os_id false [] os_steps = one_shot_run os_id os_steps.
Proof.
  split; [vm_compute; reflexivity|]. split; [vm_compute; reflexivity|].
  split; [vm_compute; intros E; discriminate E|apply scratch_cleared_is_one_shot].
Qed.
