(** v5r1 messages with extended actions (add / remove extension, set signature
    auth): layout, what the signature covers, verification, round trip. *)
From Coq Require Import List NArith ZArith Arith Bool Lia.
From Tongo Require Import Lib.Bits Lib.Res Model.BocParse Model.CellHash Spec.ReprHash Model.Wallet
  Proofs.WalletP Proofs.WalletSigP Proofs.WalletRtP.
From Tongo Require Model.TlbCore.
Import ListNotations.

Section X.
Variable SK : Type.
Variable chash : cell -> res bytes.
Variable sign : SK -> bytes -> bits.
Variable verify : bits -> bytes -> bits -> bool.
Variable pub : SK -> bits.
Hypothesis sig_len : forall sk m, length (sign sk m) = 512%nat.

(* without extended actions it is createSignedMsgBodyCell of v5r1 *)
Lemma v5r1x_none w sk ms seqno valid mt rnd :
  w_ver w = V5R1 ->
  create_body_v5r1x SK chash sign w sk ms None seqno valid mt =
  create_body SK chash sign w sk ms seqno valid mt rnd.
Proof.
  intros E. unfold create_body_v5r1x, create_body, unsigned_v5r1x, unsigned_body. rewrite E.
  cbn [sig_appended v5r1x_parts bind fst snd]. unfold v5r1_bits. reflexivity.
Qed.

(* layout: the fixed fields, the actions bit, then "0" or "1" and the FIRST
   extended action in the body cell itself; references: the action list, then
   the cell of the second extended action, which refers to the third, ... *)
Theorem v5r1x_layout w sk ms xs seqno valid mt body :
  create_body_v5r1x SK chash sign w sk ms xs seqno valid mt = Ok body ->
  exists a p u hu,
    actions_cell ms = Ok a /\ v5r1x_parts xs = Ok p /\
    u = ocell (u32 mt ++ u32 (w_wid w) ++ u32 (unix32 valid) ++ u32 seqno ++ [true] ++ fst p) (a :: snd p) /\
    chash u = Ok hu /\
    body = ocell (cdata u ++ sign sk hu) (crefs u).
Proof.
  unfold create_body_v5r1x, unsigned_v5r1x. intros H.
  apply bind_ok in H. destruct H as (u & Hu & H).
  apply bind_ok in Hu. destruct Hu as (a & Ha & Hu). apply bind_ok in Hu. destruct Hu as (p & Hp & Hu).
  apply mk_ok in Hu. destruct Hu as (-> & _).
  unfold sign_append in H. apply bind_ok in H. destruct H as (c & Hc & H).
  apply mk_ok in Hc. destruct Hc as (-> & _). apply bind_ok in H. destruct H as (h & Hh & H).
  apply mk_ok in H. destruct H as (-> & _).
  exists a, p, (ocell (u32 mt ++ u32 (w_wid w) ++ u32 (unix32 valid) ++ u32 seqno ++ [true] ++ fst p) (a :: snd p)), h.
  repeat split; auto.
Qed.

(* the signature is over the hash of everything else: all bits (extended
   actions included) and all references (action list and extension chain) *)
Theorem v5r1x_signed_part w sk ms xs seqno valid mt body :
  create_body_v5r1x SK chash sign w sk ms xs seqno valid mt = Ok body ->
  exists u hu, unsigned_v5r1x w ms xs seqno valid mt = Ok u /\ chash u = Ok hu /\
    v5_split body = Ok (sign sk hu, u) /\ signed_hash chash true body = Ok (sign sk hu, hu).
Proof.
  unfold create_body_v5r1x. intros H. apply bind_ok in H. destruct H as (u & Hu & H).
  assert (Eu : u = ocell (cdata u) (crefs u)).
  { unfold unsigned_v5r1x in Hu. apply bind_ok in Hu. destruct Hu as (a & _ & Hu).
    apply bind_ok in Hu. destruct Hu as (p & _ & Hu). apply mk_ok in Hu. destruct Hu as (-> & _). reflexivity. }
  unfold sign_append in H. apply bind_ok in H. destruct H as (c & Hc & H).
  apply mk_ok in Hc. destruct Hc as (-> & L1 & L2). rewrite <- Eu in H.
  apply bind_ok in H. destruct H as (h & Hh & H). apply mk_ok in H. destruct H as (-> & _).
  exists u, h. split; [exact Hu|]. split; [exact Hh|].
  assert (S : v5_split (ocell (cdata u ++ sign sk h) (crefs u)) = Ok (sign sk h, u)).
  { unfold v5_split. cbn [cdata crefs ocell]. rewrite app_length, sig_len.
    replace (length (cdata u) + 512 <? 512)%nat with false by (symmetry; apply Nat.ltb_ge; lia).
    replace (length (cdata u) + 512 - 512)%nat with (length (cdata u)) by lia.
    rewrite firstn_app_exact, skipn_app_exact, mk_fits by assumption. cbn [bind]. rewrite <- Eu. reflexivity. }
  split; [exact S|]. unfold signed_hash. rewrite S. cbn [bind fst snd]. rewrite Hh. reflexivity.
Qed.

Theorem v5r1x_verifies w sk ms xs seqno valid mt body wc addr init e h :
  (forall m, verify (pub sk) m (sign sk m) = true) -> length (pub sk) = 256%nat ->
  create_body_v5r1x SK chash sign w sk ms xs seqno valid mt = Ok body ->
  v5_verify chash verify (pub sk) body = Ok tt /\
  (length addr = 256%nat -> init_ok chash init -> ext_msg wc addr init body = Ok e -> chash e = Ok h ->
   verify_signature chash verify V5R1 e (pub sk) = Ok tt).
Proof.
  intros Hv Hpk H. destruct (v5r1x_signed_part _ _ _ _ _ _ _ _ H) as (u & hu & _ & _ & _ & Hsh).
  split.
  - unfold v5_verify. rewrite Hsh. cbn [bind fst snd]. unfold verify_prim. rewrite Hpk, Hv. reflexivity.
  - intros Ha Hi He Hh. unfold verify_signature. cbn [verify_layout].
    rewrite (parse_ext_msg chash wc addr init body e h Ha Hi He Hh). cbn [bind e_body].
    destruct (v5r1x_layout _ _ _ _ _ _ _ _ H) as (a & p & u' & hu' & _ & _ & _ & _ & ->).
    cbn [cdata crefs ocell]. fold (ocell (cdata u' ++ sign sk hu') (crefs u')) in *.
    rewrite Hsh. cbn [bind fst snd]. unfold verify_prim. rewrite Hpk, Hv. reflexivity.
Qed.

(* decoding gives back wallet id, expiry, seqno, the messages AND the extended
   actions in order (a non-nil empty action list cannot be decoded by the library) *)
Theorem v5r1x_roundtrip w sk ms xs seqno valid body :
  modes_ok ms -> (seqno < 4294967296)%N -> xs <> Some [] ->
  create_body_v5r1x SK chash sign w sk ms xs seqno valid op_signed_external = Ok body ->
  decode_v5r1x body = Ok (mkdec (w_wid w mod 4294967296) (unix32 valid) seqno 0 ms, xs).
Proof.
  intros Hm Hq Hne H.
  destruct (v5r1x_layout _ _ _ _ _ _ _ _ H) as (a & p & u & hu & Ha & Hp & -> & _ & ->).
  cbn [cdata crefs ocell]. rewrite <- !app_assoc.
  exact (decode_v5r1x_built (w_wid w) valid seqno ms xs (sign sk hu) a p Hm (sig_len _ _) Hq Ha Hp Hne).
Qed.

End X.

(* any message that carries a given signature over a different signed part is
   rejected under the signer's key (the statement that covers extended actions
   as well: changing, adding or dropping one changes the signed cell) *)
Theorem foreign_part_rejected (SK : Type) (chash : cell -> res bytes) (sign : SK -> bytes -> bits)
        (verify : bits -> bytes -> bits -> bool) (pub : SK -> bits) sk u hu v appended m' e' part' :
  ideal_signature SK sign verify pub -> chash u = Ok hu -> no_second_preimage chash u ->
  verify_layout v = Some appended -> parse_ext chash m' = Ok e' ->
  (if appended then v5_split (e_body e') else split_signed (e_body e')) = Ok (sign sk hu, part') ->
  part' <> u ->
  verify_signature chash verify v m' (pub sk) <> Ok tt.
Proof.
  intros Hid Hh Hinj Hl Hp Hsp Hne Hok.
  unfold verify_signature in Hok. rewrite Hl, Hp in Hok. cbn [bind] in Hok.
  unfold signed_hash in Hok. rewrite Hsp in Hok. cbn [bind fst snd] in Hok.
  destruct (chash part') as [h'|?|?] eqn:Eh; cbn [bind fst snd] in Hok; try discriminate.
  unfold verify_prim in Hok. destruct (negb (length (pub sk) =? 256)%nat); [discriminate|].
  destruct (verify (pub sk) h' (sign sk hu)) eqn:Ev; [|discriminate].
  destruct (Hid _ _ _ _ Ev) as (_ & ->). apply Hne. eapply Hinj; eassumption.
Qed.
