(** Signature theorems of the wallet message model (C14): what is signed, that
    built messages verify, that other keys and changed signed parts are
    rejected (under explicit idealisations), count limits. *)
From Coq Require Import List NArith ZArith Arith Bool Lia.
From Tongo Require Import Lib.Bits Lib.Res Model.BocParse Model.CellHash Spec.ReprHash Model.Wallet
  Proofs.WalletP.
Import ListNotations.

(** versions RawSendV2 can build a message for *)
Definition sendable (v : version) : Prop :=
  v = V3R1 \/ v = V3R2 \/ v = V4R1 \/ v = V4R2 \/ v = V5Beta \/ v = V5R1 \/ v = HLV2R2.

(** flipping bit i *)
Definition flip_nth (i : nat) (l : bits) : bits :=
  firstn i l ++ negb (nth i l false) :: skipn (S i) l.

Lemma flip_nth_neq i l : (i < length l)%nat -> flip_nth i l <> l.
Proof.
  revert l. induction i as [|i IH]; intros [|x l] Hl; cbn [length] in Hl; try lia.
  - unfold flip_nth. cbn. intros [= E]. destruct x; discriminate.
  - unfold flip_nth. cbn [firstn nth skipn app]. intros [= E]. apply (IH l); [lia|exact E].
Qed.

Lemma flip_nth_app_r a b i : flip_nth (length a + i) (a ++ b) = a ++ flip_nth i b.
Proof.
  unfold flip_nth. rewrite firstn_app, firstn_all2 by lia.
  replace (length a + i - length a)%nat with i by lia.
  rewrite app_nth2 by lia. replace (length a + i - length a)%nat with i by lia.
  replace (S (length a + i)) with (length a + S i)%nat by lia.
  rewrite skipn_app, skipn_all2 by lia. replace (length a + S i - length a)%nat with (S i) by lia.
  cbn [app]. rewrite <- app_assoc. reflexivity.
Qed.

Lemma flip_nth_app_l a b i : (i < length a)%nat -> flip_nth i (a ++ b) = flip_nth i a ++ b.
Proof.
  intros Hi. unfold flip_nth. rewrite firstn_app. replace (i - length a)%nat with 0%nat by lia.
  cbn [firstn]. rewrite app_nil_r, app_nth1 by lia.
  rewrite skipn_app. replace (S i - length a)%nat with 0%nat by lia. cbn [skipn].
  rewrite <- app_assoc. reflexivity.
Qed.

Lemma flip_nth_len i l : (i < length l)%nat -> length (flip_nth i l) = length l.
Proof.
  intros Hi. unfold flip_nth. rewrite app_length. cbn [length]. rewrite firstn_length, skipn_length. lia.
Qed.

Section Sig.
Variable SK : Type.
Variable chash : cell -> res bytes.
Variable sign : SK -> bytes -> bits.
Variable verify : bits -> bytes -> bits -> bool.
Variable pub : SK -> bits.

Notation unsigned_body := (unsigned_body).
Notation create_body := (create_body SK chash sign).
Notation raw_send_msg := (raw_send_msg SK chash sign).
Notation verify_signature := (verify_signature chash verify).
Notation signed_hash := (signed_hash chash).

(** *** what VerifySignature checks *)
Lemma check_iff (X : res (bits * cell)) pk :
  length pk = 256%nat ->
  ((do x <- (do x <- X; do h <- chash (snd x); Ok (fst x, h)); verify_prim verify pk (snd x) (fst x)) = Ok tt
   <-> exists sg part h, X = Ok (sg, part) /\ chash part = Ok h /\ verify pk h sg = true).
Proof.
  intros Hpk. unfold verify_prim. rewrite Hpk. cbn [Nat.eqb negb].
  destruct X as [[sg part]|er|p]; cbn [bind fst snd].
  - destruct (chash part) as [h|er|p] eqn:Eh; cbn [bind fst snd].
    + destruct (verify pk h sg) eqn:Ev; split.
      * intros _. exists sg, part, h. repeat split; assumption.
      * reflexivity.
      * discriminate.
      * intros (sg' & part' & h' & E1 & E2 & E3). injection E1 as <- <-.
        rewrite Eh in E2. injection E2 as <-. congruence.
    + split; [discriminate|]. intros (sg' & part' & h' & E1 & E2 & _). injection E1 as <- <-. congruence.
    + split; [discriminate|]. intros (sg' & part' & h' & E1 & E2 & _). injection E1 as <- <-. congruence.
  - split; [discriminate|]. intros (sg' & part' & h' & E1 & _). discriminate.
  - split; [discriminate|]. intros (sg' & part' & h' & E1 & _). discriminate.
Qed.

Theorem verify_iff_primitive v appended m pk e :
  verify_layout v = Some appended -> length pk = 256%nat -> parse_ext chash m = Ok e ->
  (verify_signature v m pk = Ok tt <->
   exists sg part h,
     (if appended then v5_split (e_body e) else split_signed (e_body e)) = Ok (sg, part) /\
     chash part = Ok h /\ verify pk h sg = true).
Proof.
  intros Hv Hpk He. unfold Wallet.verify_signature. rewrite Hv, He. cbn [bind].
  unfold Wallet.signed_hash. apply check_iff, Hpk.
Qed.

(* the same for the body-level entry points SignedMsgBody.Verify and
   MessageV5VerifySignature *)
Theorem body_verify_iff_primitive (appended : bool) body pk :
  length pk = 256%nat ->
  ((if appended then v5_verify chash verify pk body else signed_verify chash verify pk body) = Ok tt <->
   exists sg part h,
     (if appended then v5_split body else split_signed body) = Ok (sg, part) /\
     chash part = Ok h /\ verify pk h sg = true).
Proof.
  intros Hpk.
  assert (E : (if appended then v5_verify chash verify pk body else signed_verify chash verify pk body)
              = (do x <- signed_hash appended body; verify_prim verify pk (snd x) (fst x))).
  { destruct appended; reflexivity. }
  rewrite E. unfold Wallet.signed_hash. apply check_iff, Hpk.
Qed.

(* a key of another length makes ed25519.Verify panic (after the body was cut) *)
Theorem wrong_key_length_panics v appended m pk e x :
  verify_layout v = Some appended -> length pk <> 256%nat -> parse_ext chash m = Ok e ->
  signed_hash appended (e_body e) = Ok x ->
  verify_signature v m pk = Panic PExplicit.
Proof.
  intros Hv Hpk He Hx. unfold Wallet.verify_signature. rewrite Hv, He. cbn [bind]. rewrite Hx. cbn [bind].
  unfold verify_prim. apply Nat.eqb_neq in Hpk. rewrite Hpk. reflexivity.
Qed.

(** *** the shape of a built body *)
Lemma unsigned_ocell w ms seqno valid mt rnd u :
  unsigned_body w ms seqno valid mt rnd = Ok u -> u = ocell (cdata u) (crefs u).
Proof.
  unfold Wallet.unsigned_body, body_v3, body_v4, body_hl.
  destruct (w_ver w); try discriminate; intros H.
  1-4: apply payload_v1v4_ok in H; destruct H as (-> & _); reflexivity.
  1-2: apply bind_ok in H; destruct H as (a & _ & H); apply mk_ok in H; destruct H as (-> & _); reflexivity.
  destruct (254 <? length ms)%nat; [discriminate|].
  destruct (hl_entries 0 ms) as [[|kv kvs]|]; try discriminate.
  - apply mk_ok in H. destruct H as (-> & _). reflexivity.
  - apply bind_ok in H. destruct H as (a & _ & H). apply mk_ok in H. destruct H as (-> & _). reflexivity.
Qed.

(* the body = the unsigned cell u with the signature of hash(u) before its bits
   (v3, v4, highload) or after them (v5) *)
Lemma create_body_shape w sk ms seqno valid mt rnd body :
  create_body w sk ms seqno valid mt rnd = Ok body ->
  exists u hu,
    unsigned_body w ms seqno valid mt rnd = Ok u /\ u = ocell (cdata u) (crefs u) /\
    chash u = Ok hu /\
    body = (if sig_appended (w_ver w) then ocell (cdata u ++ sign sk hu) (crefs u)
            else ocell (fit 512 (sign sk hu) ++ cdata u) (crefs u)) /\
    (length (cdata u) <= 1023)%nat /\ (length (crefs u) <= 4)%nat.
Proof.
  unfold Wallet.create_body. intros H. apply bind_ok in H. destruct H as (u & Hu & H).
  pose proof (unsigned_ocell _ _ _ _ _ _ _ Hu) as Eu.
  destruct (sig_appended (w_ver w)).
  - unfold sign_append in H. apply bind_ok in H. destruct H as (c & Hc & H).
    apply mk_ok in Hc. destruct Hc as (-> & L1 & L2).
    apply bind_ok in H. destruct H as (h & Hh & H). apply mk_ok in H. destruct H as (-> & _).
    rewrite <- Eu in Hh. exists u, h. auto 10.
  - unfold sign_body in H. apply bind_ok in H. destruct H as (h & Hh & H).
    apply mk_ok in H. destruct H as (-> & L1 & L2). exists u, h.
    rewrite app_length, fit_len in L1. repeat split; auto. lia.
Qed.

Hypothesis sig_len : forall sk m, length (sign sk m) = 512%nat.

(* cutting a built body gives back exactly (signature, hash of the unsigned cell) *)
Lemma built_signed_hash w sk ms seqno valid mt rnd body :
  create_body w sk ms seqno valid mt rnd = Ok body ->
  exists u hu, unsigned_body w ms seqno valid mt rnd = Ok u /\ chash u = Ok hu /\
    (if sig_appended (w_ver w) then v5_split body else split_signed body) = Ok (sign sk hu, u) /\
    signed_hash (sig_appended (w_ver w)) body = Ok (sign sk hu, hu).
Proof.
  intros H. destruct (create_body_shape _ _ _ _ _ _ _ _ H) as (u & hu & Hu & Eu & Hh & -> & L1 & L2).
  exists u, hu. split; [exact Hu|]. split; [exact Hh|].
  assert (S : (if sig_appended (w_ver w)
               then v5_split (ocell (cdata u ++ sign sk hu) (crefs u))
               else split_signed (ocell (fit 512 (sign sk hu) ++ cdata u) (crefs u))) = Ok (sign sk hu, u)).
  { destruct (sig_appended (w_ver w)).
    - unfold v5_split. cbn [cdata crefs ocell]. rewrite app_length, sig_len.
      replace (length (cdata u) + 512 <? 512)%nat with false by (symmetry; apply Nat.ltb_ge; lia).
      replace (length (cdata u) + 512 - 512)%nat with (length (cdata u)) by lia.
      rewrite firstn_app_exact, skipn_app_exact, mk_fits by assumption. cbn [bind]. rewrite <- Eu. reflexivity.
    - unfold split_signed. cbn [cdata crefs ocell]. rewrite fit_id by apply sig_len.
      rewrite short_spec, app_length, sig_len.
      replace (512 + length (cdata u) <? 512)%nat with false by (symmetry; apply Nat.ltb_ge; lia).
      rewrite firstn_len_app, skipn_len_app, <- Eu by apply sig_len. reflexivity. }
  split.
  - destruct (sig_appended (w_ver w)); exact S.
  - unfold Wallet.signed_hash.
    destruct (sig_appended (w_ver w)); rewrite S; cbn [bind fst snd]; rewrite Hh; reflexivity.
Qed.

(* the external message of RawSendV2 parses back to the built body *)
Lemma raw_send_parse w sk wc addr seqno valid ms init rnd h e :
  length addr = 256%nat -> init_ok chash init ->
  raw_send_msg w sk wc addr seqno valid ms init rnd = Ok (h, e) ->
  exists body, create_body w sk ms seqno valid op_signed_external rnd = Ok body /\
    (length ms <= max_messages (w_ver w))%nat /\ chash e = Ok h /\
    ext_msg wc addr init body = Ok e /\
    parse_ext chash e = Ok (mkext (ext_in_std wc addr) init body).
Proof.
  intros Ha Hi H. unfold Wallet.raw_send_msg in H.
  destruct (max_messages (w_ver w) <? length ms)%nat eqn:Em; [discriminate|]. apply Nat.ltb_ge in Em.
  apply bind_ok in H. destruct H as (body & Hb & H).
  apply bind_ok in H. destruct H as (e' & He & H).
  apply bind_ok in H. destruct H as (h' & Hh & H). injection H as <- <-.
  exists body. repeat split; auto.
  rewrite (parse_ext_msg chash wc addr init body e' h' Ha Hi He Hh).
  destruct (create_body_shape _ _ _ _ _ _ _ _ Hb) as (u & hu & _ & _ & _ & -> & _).
  destruct (sig_appended (w_ver w)); reflexivity.
Qed.

Lemma layout_sendable v appended : verify_layout v = Some appended -> sendable v -> sig_appended v = appended.
Proof.
  intros H S. destruct S as [->|[->|[->|[->|[->|[->| ->]]]]]]; cbn in *; congruence.
Qed.

(** *** built messages verify *)
Theorem built_message_verifies w sk wc addr seqno valid ms init rnd h e :
  (forall m, verify (pub sk) m (sign sk m) = true) -> length (pub sk) = 256%nat ->
  length addr = 256%nat -> init_ok chash init -> sendable (w_ver w) ->
  raw_send_msg w sk wc addr seqno valid ms init rnd = Ok (h, e) ->
  exists body,
    parse_ext chash e = Ok (mkext (ext_in_std wc addr) init body) /\
    (forall appended, verify_layout (w_ver w) = Some appended ->
                      verify_signature (w_ver w) e (pub sk) = Ok tt) /\
    (if sig_appended (w_ver w) then v5_verify chash verify (pub sk) body
     else signed_verify chash verify (pub sk) body) = Ok tt.
Proof.
  intros Hv Hpk Ha Hi Hs H.
  destruct (raw_send_parse _ _ _ _ _ _ _ _ _ _ _ Ha Hi H) as (body & Hb & _ & _ & _ & Hp).
  destruct (built_signed_hash _ _ _ _ _ _ _ _ Hb) as (u & hu & _ & _ & _ & Hsh).
  exists body. split; [exact Hp|]. split.
  - intros appended Hl. unfold Wallet.verify_signature. rewrite Hl, Hp. cbn [bind e_body].
    rewrite <- (layout_sendable _ _ Hl Hs), Hsh. cbn [bind fst snd].
    unfold verify_prim. rewrite Hpk, Hv. reflexivity.
  - assert (E : (if sig_appended (w_ver w) then v5_verify chash verify (pub sk) body
                 else signed_verify chash verify (pub sk) body)
                = (do x <- signed_hash (sig_appended (w_ver w)) body; verify_prim verify (pub sk) (snd x) (fst x))).
    { destruct (sig_appended (w_ver w)); reflexivity. }
    rewrite E, Hsh. cbn [bind fst snd]. unfold verify_prim. rewrite Hpk, Hv. reflexivity.
Qed.

(** *** no other key, no changed signed part *)
Definition ideal_signature : Prop :=
  forall pk sk m m', verify pk m (sign sk m') = true -> pk = pub sk /\ m = m'.
(* the hash separates the built unsigned cell from every other cell *)
Definition no_second_preimage (u : cell) : Prop :=
  forall c h, chash u = Ok h -> chash c = Ok h -> c = u.

Theorem other_key_rejected w sk wc addr seqno valid ms init rnd h e pk appended :
  ideal_signature -> length addr = 256%nat -> init_ok chash init -> sendable (w_ver w) ->
  raw_send_msg w sk wc addr seqno valid ms init rnd = Ok (h, e) ->
  verify_layout (w_ver w) = Some appended -> pk <> pub sk -> length pk = 256%nat ->
  verify_signature (w_ver w) e pk = Err EBadSig.
Proof.
  intros Hid Ha Hi Hs H Hl Hne Hpk.
  destruct (raw_send_parse _ _ _ _ _ _ _ _ _ _ _ Ha Hi H) as (body & Hb & _ & _ & _ & Hp).
  destruct (built_signed_hash _ _ _ _ _ _ _ _ Hb) as (u & hu & _ & _ & _ & Hsh).
  unfold Wallet.verify_signature. rewrite Hl, Hp. cbn [bind e_body].
  rewrite <- (layout_sendable _ _ Hl Hs), Hsh. cbn [bind fst snd].
  unfold verify_prim. rewrite Hpk. cbn [Nat.eqb negb].
  destruct (verify pk hu (sign sk hu)) eqn:Ev; [|reflexivity].
  destruct (Hid _ _ _ _ Ev) as (E & _). contradiction.
Qed.

(* any message carrying the built signature over a different signed part is
   rejected under the wallet's own key: changed bits, changed references *)
Theorem changed_signed_part_rejected w sk ms seqno valid mt rnd body u hu v appended m' e' part' :
  ideal_signature ->
  create_body w sk ms seqno valid mt rnd = Ok body ->
  unsigned_body w ms seqno valid mt rnd = Ok u -> chash u = Ok hu -> no_second_preimage u ->
  verify_layout v = Some appended -> parse_ext chash m' = Ok e' ->
  (if appended then v5_split (e_body e') else split_signed (e_body e')) = Ok (sign sk hu, part') ->
  part' <> u ->
  verify_signature v m' (pub sk) <> Ok tt.
Proof.
  intros Hid Hb Hu Hh Hinj Hl Hp Hsp Hne Hok.
  unfold Wallet.verify_signature in Hok. rewrite Hl, Hp in Hok. cbn [bind] in Hok.
  unfold Wallet.signed_hash in Hok. rewrite Hsp in Hok. cbn [bind fst snd] in Hok.
  destruct (chash part') as [h'|?|?] eqn:Eh; cbn [bind fst snd] in Hok; try discriminate.
  unfold verify_prim in Hok. destruct (negb (length (pub sk) =? 256)%nat); [discriminate|].
  destruct (verify (pub sk) h' (sign sk hu)) eqn:Ev; [|discriminate].
  destruct (Hid _ _ _ _ Ev) as (_ & ->). apply Hne. eapply Hinj; eassumption.
Qed.

(* in particular every single flipped bit of the signed bits *)
Theorem flipped_signed_bit_rejected w sk wc addr seqno valid ms init rnd h e body u hu appended i m' e' :
  ideal_signature -> length addr = 256%nat -> init_ok chash init -> sendable (w_ver w) ->
  raw_send_msg w sk wc addr seqno valid ms init rnd = Ok (h, e) ->
  create_body w sk ms seqno valid op_signed_external rnd = Ok body ->
  unsigned_body w ms seqno valid op_signed_external rnd = Ok u -> chash u = Ok hu ->
  no_second_preimage u ->
  verify_layout (w_ver w) = Some appended ->
  (i < length (cdata u))%nat ->
  parse_ext chash m' = Ok e' ->
  e_body e' = ocell (flip_nth ((if appended then 0 else 512) + i) (cdata body)) (crefs body) ->
  verify_signature (w_ver w) m' (pub sk) <> Ok tt.
Proof.
  intros Hid Ha Hi Hs H Hb Hu Hh Hinj Hl Hi' Hp Hbody.
  destruct (create_body_shape _ _ _ _ _ _ _ _ Hb) as (u0 & hu0 & Hu0 & Eu & Hh0 & Eb & L1 & L2).
  rewrite Hu in Hu0. injection Hu0 as <-. rewrite Hh in Hh0. injection Hh0 as <-.
  rewrite (layout_sendable _ _ Hl Hs) in Eb.
  eapply (changed_signed_part_rejected w sk ms seqno valid op_signed_external rnd body u hu (w_ver w) appended m' e'
            (ocell (flip_nth i (cdata u)) (crefs u))); try eassumption.
  - rewrite Hbody, Eb. destruct appended; cbn [cdata crefs ocell].
    + cbn [Nat.add]. rewrite flip_nth_app_l by exact Hi'.
      unfold v5_split. cbn [cdata crefs ocell]. rewrite app_length, sig_len, flip_nth_len by exact Hi'.
      replace (length (cdata u) + 512 <? 512)%nat with false by (symmetry; apply Nat.ltb_ge; lia).
      replace (length (cdata u) + 512 - 512)%nat with (length (flip_nth i (cdata u)))
        by (rewrite flip_nth_len by exact Hi'; lia).
      rewrite firstn_app_exact, skipn_app_exact, mk_fits; [reflexivity| |exact L2].
      rewrite flip_nth_len by exact Hi'. exact L1.
    + rewrite fit_id by apply sig_len. rewrite <- (sig_len sk hu) at 1. rewrite flip_nth_app_r.
      unfold split_signed. cbn [cdata crefs ocell].
      rewrite short_spec, app_length, sig_len.
      replace (512 + length (flip_nth i (cdata u)) <? 512)%nat with false by (symmetry; apply Nat.ltb_ge; lia).
      rewrite firstn_len_app, skipn_len_app by apply sig_len. reflexivity.
  - intros E. apply (f_equal cdata) in E. cbn [cdata ocell] in E. exact (flip_nth_neq _ _ Hi' E).
Qed.

(** *** count limits *)
Theorem too_many_refused w sk wc addr seqno valid ms init rnd :
  (max_messages (w_ver w) < length ms)%nat ->
  raw_send_msg w sk wc addr seqno valid ms init rnd = Err EWallet.
Proof.
  intros H. unfold Wallet.raw_send_msg. apply Nat.ltb_lt in H. rewrite H. reflexivity.
Qed.

(* the payload codecs of v3, v4 and highload refuse on their own as well;
   CreateMessageBody for v5 does not check the count (only RawSendV2 does) *)
Theorem marshal_refuses w sk ms seqno valid mt rnd :
  (w_ver w = V3R1 \/ w_ver w = V3R2 \/ w_ver w = V4R1 \/ w_ver w = V4R2) /\ (4 < length ms)%nat \/
  w_ver w = HLV2R2 /\ (254 < length ms)%nat ->
  create_body w sk ms seqno valid mt rnd = Err EWallet.
Proof.
  intros [([E|[E|[E|E]]] & H)|(E & H)]; unfold Wallet.create_body, Wallet.unsigned_body; rewrite E;
    unfold body_v3, body_v4, body_hl, payload_v1v4; apply Nat.ltb_lt in H; rewrite H; reflexivity.
Qed.

End Sig.
