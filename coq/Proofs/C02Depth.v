(** C02, depth limit: the limit is enforced at EVERY significant level of the
    hashing loop, so a cell that gets a hash has depth <= 1024 at every level
    (TON's DataCell::create checks inside the loop over the levels).
    [level0_check_insufficient_refuted]: the level-0 depth does NOT bound the
    depths of the higher levels — a pruned branch stores one depth per level and
    nothing ties them together — so checking the limit only while computing the
    level-0 hash (seeded mutation C02-r4m1) lets a cell of level > 0 through. *)
From Coq Require Import List NArith Arith Lia Bool.
From Tongo Require Import Lib.Bits Lib.Res Spec.Sha256 Model.BocParse Model.CellHash Spec.ReprHash
  Proofs.CellHashP.
Import ListNotations.

Section D.
Variable H : bytes -> bytes.

Lemma build_loop_depths_le special ty mask l refs : forall levels seen hashes depths hs ds,
  Forall (fun d => d <= 1024)%N depths ->
  build_loop H special ty mask l refs levels seen hashes depths = Ok (hs, ds) ->
  Forall (fun d => d <= 1024)%N ds.
Proof.
  induction levels as [|i rest IH]; intros seen hashes depths hs ds Hd Hb.
  - cbn [build_loop] in Hb. injection Hb as <- <-. exact Hd.
  - cbn [build_loop] in Hb.
    destruct (negb (mask_significant mask i)); [eapply IH; eassumption|].
    destruct (seen <? (if is_pruned special ty then mask_popcount mask else 0))%nat; [eapply IH; eassumption|].
    match type of Hb with bind ?X _ = _ => destruct X as [head|?|?] end; cbn [bind] in Hb; try discriminate.
    match type of Hb with bind ?X _ = _ => destruct X as [cdepths|?|?] end; cbn [bind] in Hb; try discriminate.
    destruct (negb (length refs =? 0)%nat && (1024 <=? fold_left N.max cdepths 0)%N) eqn:E; [discriminate|].
    match type of Hb with bind ?X _ = _ => destruct X as [chashes|?|?] end; cbn [bind] in Hb; try discriminate.
    eapply IH; [|exact Hb].
    apply Forall_app. split; [exact Hd|]. constructor; [|constructor].
    destruct (length refs =? 0)%nat; [lia|]. cbn [negb andb] in E. apply N.leb_gt in E. lia.
Qed.

(** every depth the loop records for a cell that gets hashes is <= 1024 *)
Theorem build_imm_depths_le special ty mask l refs im :
  build_imm H special ty mask l refs = Ok im -> Forall (fun d => d <= 1024)%N (im_depths im).
Proof.
  unfold build_imm. intros Hb.
  match type of Hb with bind ?X _ = _ => destruct X as [[hs ds]|?|?] eqn:El end; cbn [bind] in Hb; try discriminate.
  injection Hb as <-. cbn [im_depths].
  eapply build_loop_depths_le; [|exact El]. constructor.
Qed.

(** so Depth(l) of every non-pruned cell that was built is <= 1024 at every level l *)
Corollary depth_limit_every_level special ty mask l refs im lev d :
  is_pruned special ty = false ->
  build_imm H special ty mask l refs = Ok im -> imm_depth im lev = Ok d -> (d <= 1024)%N.
Proof.
  intros Hp Hb Hd. pose proof (build_imm_depths_le _ _ _ _ _ _ Hb) as Hall.
  unfold build_imm in Hb.
  match type of Hb with bind ?X _ = _ => destruct X as [[hs ds]|?|?] end; cbn [bind] in Hb; try discriminate.
  injection Hb as <-. unfold imm_depth in Hd. cbn [im_special im_type im_mask im_depths] in *.
  rewrite Hp in Hd.
  destruct (nth_error ds (mask_popcount (mask_apply mask lev))) as [x|] eqn:En; [|discriminate].
  injection Hd as <-. rewrite Forall_forall in Hall. apply Hall. eapply nth_error_In. exact En.
Qed.
End D.

(** *** the level-0 depth does not bound the higher levels *)
(* pruned branch of mask 3: 01 03 | two stored hashes | depth_0 = 5, depth_1 = 1024 *)
Definition wit_pruned2 : cell :=
  Cell true T_PRUNED 3 (bits_of 8 1 ++ bits_of 8 3 ++ zeros 512 ++ bits_of 16 5 ++ bits_of 16 1024) [].
Definition wit_level2_parent : cell := Cell false 0 3 [true; true; false] [wit_pruned2].

Theorem level0_check_insufficient_refuted :
  (* at level 0 everything is within the limit: the parent's level-0 depth is 6 *)
  res_map snd (hd_at sha256 wit_level2_parent 0) = Ok 6%N /\
  (* the child's level-1 depth is 1024, so the TON definition gives no hash at level 1 ... *)
  res_map snd (hd_at sha256 wit_pruned2 1) = Ok 1024%N /\
  hd_at sha256 wit_level2_parent 1 = Err EDepth /\
  (* ... and the implementation (limit inside the loop over the levels) refuses the cell *)
  imm_of sha256 wit_level2_parent = Err EDepth /\
  masks_ok wit_level2_parent.
Proof.
  split; [vm_compute; reflexivity|]. split; [vm_compute; reflexivity|].
  split; [vm_compute; reflexivity|]. split; [vm_compute; reflexivity|].
  cbn. repeat split; reflexivity.
Qed.
