(** C07: Cell.ToString's budgeted traversal is bounded for every cell array
    (shared sub-cells included) and does not depend on the fuel for the arrays
    the parser returns. *)
From Coq Require Import List NArith ZArith Arith Lia Bool.
From Tongo Require Import Lib.Bits Lib.Res Model.BocParse Proofs.BocParseP Model.CellPrint.
Import ListNotations.
Local Open Scope Z_scope.

(** the invariant of one call: the budget stays in [0, b] and every line
    beyond the first one is paid for by a quarter of a budget unit *)
Definition call_ok (b : Z) (r : N * Z) : Prop :=
  0 <= snd r <= b /\ Z.of_N (fst r) <= 1 + 4 * (b - snd r).

Lemma fold_print_bound (rec : nat -> Z -> N * Z) :
  (forall r b, 0 <= b -> call_ok b (rec r b)) ->
  forall rs acc b, 0 <= b ->
  let res := fold_left (print_step rec) rs (acc, b) in
  0 <= snd res <= b /\
  Z.of_N (fst res) <= Z.of_N acc + Z.of_nat (length rs) + 4 * (b - snd res).
Proof.
  intros Hrec. induction rs as [|r t IH]; intros acc b Hb; cbv zeta; cbn [fold_left length].
  - cbn [fst snd]. change (Z.of_nat 0) with 0. lia.
  - pose proof (Hrec r b Hb) as (Hb2 & Hl).
    destruct (rec r b) as [l b2] eqn:E. cbn [fst snd] in Hb2, Hl.
    assert (Hs : print_step rec (acc, b) r = ((acc + l)%N, b2))
      by (unfold print_step; cbn [fst snd]; rewrite E; reflexivity).
    rewrite Hs.
    specialize (IH (acc + l)%N b2 ltac:(lia)). cbv zeta in IH.
    destruct IH as (IH1 & IH2). split; [lia|].
    rewrite N2Z.inj_add in IH2. rewrite Nat2Z.inj_succ. lia.
Qed.

Definition refs_le4 (cells : list node) : Prop :=
  Forall (fun c => (length (n_refs c) <= 4)%nat) cells.

Theorem print_at_bound cells (H4 : refs_le4 cells) :
  forall fuel i b, 0 <= b -> call_ok b (print_at fuel cells i b).
Proof.
  induction fuel as [|f IH]; intros i b Hb; cbn [print_at].
  - unfold call_ok; cbn [fst snd]. lia.
  - destruct (nth_error cells i) as [c|] eqn:En; [|unfold call_ok; cbn [fst snd]; lia].
    destruct (b =? 0) eqn:Eb.
    + apply Z.eqb_eq in Eb. unfold call_ok; cbn [fst snd]. lia.
    + apply Z.eqb_neq in Eb.
      pose proof (fold_print_bound (print_at f cells) (fun r b0 Hb0 => IH r b0 Hb0)
                    (n_refs c) 1%N (b - 1) ltac:(lia)) as Hf. cbv zeta in Hf.
      destruct Hf as (Hf1 & Hf2).
      assert (Hlen : (length (n_refs c) <= 4)%nat).
      { unfold refs_le4 in H4. rewrite Forall_forall in H4. apply H4.
        eapply nth_error_In; eassumption. }
      unfold call_ok. split; [lia|].
      change (Z.of_N 1) with 1 in Hf2. lia.
Qed.

(** ToString prints at most 1 + 4 * BOCSizeLimit lines, whatever the sharing *)
Theorem to_string_lines_bound cells root :
  refs_le4 cells -> (to_string_lines cells root <= 262145)%N.
Proof.
  intros H4. unfold to_string_lines.
  pose proof (print_at_bound cells H4 (length cells - root) root boc_size_limit ltac:(unfold boc_size_limit; lia))
    as (Hb & Hl).
  unfold boc_size_limit in *. lia.
Qed.

(** the budget never steps over zero (it stops the traversal for good) *)
Theorem print_budget_nonneg cells root :
  refs_le4 cells -> 0 <= snd (print_at (length cells - root) cells root boc_size_limit) <= boc_size_limit.
Proof.
  intros H4.
  apply (print_at_bound cells H4 (length cells - root) root boc_size_limit).
  unfold boc_size_limit; lia.
Qed.

Lemma dag_wf_from_refs4 n : forall cells i, dag_wf_from n i cells -> refs_le4 cells.
Proof.
  induction cells as [|c t IH]; intros i Hwf; [constructor|].
  destruct Hwf as ((_ & H4 & _) & Ht). constructor; [exact H4|exact (IH _ Ht)].
Qed.

Lemma dag_wf_refs4 cells : dag_wf cells -> refs_le4 cells.
Proof. apply dag_wf_from_refs4. Qed.

(** fuel: on a well-formed (strictly forward) array any fuel >= n - i gives
    the same answer, i.e. the traversal of the Go code (no fuel) is this one *)
Lemma fold_left_ext_in {A B} (f g : A -> B -> A) : forall (l : list B) a,
  (forall a b, In b l -> f a b = g a b) -> fold_left f l a = fold_left g l a.
Proof.
  induction l as [|x t IH]; intros a H; [reflexivity|].
  cbn [fold_left]. rewrite (H a x (or_introl eq_refl)).
  apply IH. intros a' b Hb. apply H. right; exact Hb.
Qed.

Theorem print_at_fuel cells :
  dag_wf cells -> forall f1 f2 i b,
  (length cells - i <= f1)%nat -> (length cells - i <= f2)%nat ->
  print_at f1 cells i b = print_at f2 cells i b.
Proof.
  intros Hwf. induction f1 as [|f1 IH]; intros f2 i b H1 H2.
  - assert (Hn : nth_error cells i = None) by (apply nth_error_None; lia).
    destruct f2; cbn [print_at]; [reflexivity|]. rewrite Hn. reflexivity.
  - destruct f2 as [|f2].
    + assert (Hn : nth_error cells i = None) by (apply nth_error_None; lia).
      cbn [print_at]. rewrite Hn. reflexivity.
    + cbn [print_at].
      destruct (nth_error cells i) as [c|] eqn:En; [|reflexivity].
      destruct (b =? 0); [reflexivity|].
      pose proof (dag_wf_nth _ _ 0%nat i c Hwf En) as (_ & _ & Hrefs). cbn [Nat.add] in Hrefs.
      rewrite Forall_forall in Hrefs.
      apply fold_left_ext_in. intros st r Hin. specialize (Hrefs r Hin).
      unfold print_step. rewrite (IH f2 r (snd st)) by lia. reflexivity.
Qed.
