(** C01 — the bytes emitted by the serialiser model are the BOC layout, part 1:
    byte-level facts.  [be_n] (the model's big-endian writer) is the
    specification's [be]; [byte_len] is the minimal byte width; the model's cell
    representation [repr_no_refs ++ refs] is the specification's [enc_cell];
    the offset accumulation; and the decomposition of [serialize] into
    import + named output parts. *)
From Coq Require Import List NArith ZArith Arith Bool Lia.
From Tongo Require Import Lib.Bits Lib.Res Spec.Crc32c Model.BitString Model.BocParse Model.CellHash
  Model.BocSer Spec.BocLayout Proofs.BocParseP Proofs.BocLayoutP.
Import ListNotations.

(** *** [be_n] is [be] *)
Lemma be_n_S n v : be_n (S n) v = be_n n (v / 256) ++ [(v mod 256)%N].
Proof.
  unfold be_n. cbn [seq map rev]. f_equal.
  - f_equal. rewrite <- seq_shift, map_map. apply map_ext. intros i.
    rewrite Nat2N.inj_succ.
    replace (8 * N.succ (N.of_nat i))%N with (8 + 8 * N.of_nat i)%N by lia.
    rewrite <- N.shiftr_shiftr. rewrite (N.shiftr_div_pow2 v 8). reflexivity.
  - change (8 * N.of_nat 0)%N with 0%N. rewrite N.shiftr_0_r.
    change 255%N with (N.ones 8). rewrite N.land_ones. reflexivity.
Qed.

Lemma be_n_be n : forall v, be_n n v = be n v.
Proof.
  induction n as [|n IH]; intros v; [reflexivity|].
  rewrite be_n_S, IH. reflexivity.
Qed.

(** *** [byte_len]: the minimal number of bytes *)
Lemma pow256 k : (256 ^ N.of_nat k = 2 ^ (8 * N.of_nat k))%N.
Proof. change 256%N with (2 ^ 8)%N. rewrite <- N.pow_mul_r. reflexivity. Qed.

Lemma byte_len_pos v : 1 <= byte_len v.
Proof. unfold byte_len. lia. Qed.

Lemma byte_len_fits v : (v < 256 ^ N.of_nat (byte_len v))%N.
Proof.
  rewrite pow256. eapply N.lt_le_trans; [apply N.size_gt|].
  apply N.pow_le_mono_r; [lia|].
  unfold byte_len. set (s := N.to_nat (N.size v)).
  assert (Hs : N.size v = N.of_nat s) by (unfold s; rewrite N2Nat.id; reflexivity).
  rewrite Hs.
  assert (s <= 8 * ((s + 7) / 8)).
  { pose proof (Nat.div_mod (s + 7) 8 ltac:(lia)) as D.
    pose proof (Nat.mod_upper_bound (s + 7) 8 ltac:(lia)). lia. }
  lia.
Qed.

Lemma byte_len_le v k : 1 <= k -> (v < 256 ^ N.of_nat k)%N -> byte_len v <= k.
Proof.
  intros Hk Hv. rewrite pow256 in Hv.
  assert (Hsz : (N.size v <= 8 * N.of_nat k)%N).
  { destruct (N.le_gt_cases (N.size v) (8 * N.of_nat k)) as [H|H]; [exact H|exfalso].
    pose proof (N.size_le v) as Hle. rewrite N.succ_double_spec in Hle.
    assert (Hp : (2 ^ (N.succ (8 * N.of_nat k)) <= 2 ^ N.size v)%N) by (apply N.pow_le_mono_r; lia).
    rewrite N.pow_succ_r' in Hp.
    set (X := (2 ^ (8 * N.of_nat k))%N) in *. set (Y := (2 ^ N.size v)%N) in *. clearbody X Y. lia. }
  unfold byte_len. set (s := N.to_nat (N.size v)).
  assert (Hs : s <= 8 * k) by (unfold s; lia).
  assert ((s + 7) / 8 < S k).
  { apply Nat.div_lt_upper_bound; lia. }
  lia.
Qed.

(** *** the data bytes: [data_with_tag] is [enc_data] *)
Lemma firstn_zeros a b : firstn a (zeros b) = zeros (Nat.min a b).
Proof.
  unfold zeros. revert b. induction a as [|a IH]; intros [|b]; cbn [firstn repeat Nat.min]; try reflexivity.
  rewrite IH. reflexivity.
Qed.

Lemma skipn_zeros a : forall b, skipn a (zeros b) = zeros (b - a).
Proof.
  unfold zeros. induction a as [|a IH]; intros [|b]; cbn [skipn repeat Nat.sub]; try reflexivity.
  apply IH.
Qed.

Lemma zeros_app a b : zeros a ++ zeros b = zeros (a + b).
Proof. unfold zeros. symmetry. apply repeat_app. Qed.

Lemma bits_bytes_pad k : forall l,
  length l <= 8 * k -> bits_bytes k l = bytes_of_bits k (l ++ zeros (8 * k - length l)).
Proof.
  induction k as [|k IH]; intros l Hl; [reflexivity|].
  cbn [bits_bytes bytes_of_bits]. f_equal.
  - f_equal. rewrite !firstn_app, !firstn_zeros. f_equal. f_equal. lia.
  - destruct (Nat.le_gt_cases 8 (length l)) as [H8|H8].
    + rewrite IH by (rewrite skipn_length; lia).
      rewrite skipn_app, skipn_length.
      replace (8 - length l) with 0 by lia. cbn [skipn].
      f_equal. f_equal. f_equal. lia.
    + rewrite (skipn_all2 l) by lia.
      rewrite IH by (cbn [length]; lia). cbn [length app].
      rewrite skipn_app, (skipn_all2 l) by lia. cbn [app].
      f_equal. rewrite skipn_zeros. f_equal. lia.
Qed.

Lemma data_with_tag_enc b : data_with_tag b = enc_data b.
Proof.
  unfold data_with_tag, enc_data. cbv zeta. rewrite padded_div. unfold padded.
  pose proof (Nat.div_mod (length b) 8 ltac:(lia)) as D.
  pose proof (Nat.mod_upper_bound (length b) 8 ltac:(lia)) as U.
  destruct (Nat.eqb_spec (length b mod 8) 0) as [E|E].
  - assert (E8 : (length b + 7) / 8 = length b / 8).
    { symmetry. apply Nat.div_unique with (r := 7); lia. }
    rewrite E8. rewrite bits_bytes_pad by lia.
    replace (8 * (length b / 8) - length b) with 0 by lia.
    cbn [zeros repeat]. rewrite app_nil_r. reflexivity.
  - assert (E8 : (length b + 7) / 8 = S (length b / 8)).
    { symmetry. apply Nat.div_unique with (r := length b mod 8 - 1); lia. }
    rewrite E8. rewrite bits_bytes_pad by (rewrite app_length; cbn [length]; lia).
    rewrite <- app_assoc. cbn [app]. f_equal. f_equal. f_equal. f_equal.
    rewrite app_length. cbn [length]. lia.
Qed.

(** *** one cell: the model's representation is [enc_cell] without stored hashes *)
Lemma flat_map_map {A B C} (f : B -> list C) (g : A -> B) l :
  flat_map f (map g l) = flat_map (fun x => f (g x)) l.
Proof. induction l as [|a t IH]; [reflexivity|]. cbn [map flat_map]. rewrite IH. reflexivity. Qed.

Lemma flat_map_ext' {A B} (f g : A -> list B) l :
  (forall x, In x l -> f x = g x) -> flat_map f l = flat_map g l.
Proof.
  induction l as [|a t IH]; intros H; [reflexivity|]. cbn [flat_map].
  rewrite H by (left; reflexivity). rewrite IH; [reflexivity|].
  intros x Hx. apply H. right. exact Hx.
Qed.

Lemma repr_is_enc_cell size n (nd : node) (refs : list nat) :
  (length refs <= 4) -> (n_mask nd < 8)%N ->
  repr_no_refs (length refs) (n_special nd) (n_mask nd) (n_bits nd)
    ++ flat_map (fun r => be_n size (N.of_nat (n - 1 - r))) refs
  = enc_cell size (mknode (n_special nd) (n_type nd) (n_mask nd) (n_bits nd)
                          (map (fun r => n - 1 - r) refs)) [].
Proof.
  intros Hr Hm. unfold enc_cell, repr_no_refs. cbv zeta.
  cbn [n_refs n_special n_mask n_bits length Nat.eqb app]. rewrite map_length.
  f_equal; [|f_equal].
  - unfold d1_byte. rewrite N.add_0_r. apply N.mod_small.
    destruct (n_special nd); lia.
  - unfold d2_byte, d2_of. f_equal. lia.
  - rewrite data_with_tag_enc. f_equal.
    rewrite flat_map_map. apply flat_map_ext'. intros r _. apply be_n_be.
Qed.

(** *** the offsets loop *)
Definition s_step (cacheBits : bool) (acc : N * list N) (p : cinfo * bytes) : N * list N :=
  let '(off, offs) := acc in
  let '(ci, rep) := p in
  let off' := (off + N.of_nat (length rep))%N in
  let fixed := if cacheBits then (2 * off' + (if ci_cache ci then 1 else 0))%N else off' in
  (off', fixed :: offs).

Lemma s_step_fold cacheBits : forall l off offs,
  fst (fold_left (s_step cacheBits) l (off, offs))
    = (off + N.of_nat (length (concat (map snd l))))%N /\
  length (snd (fold_left (s_step cacheBits) l (off, offs))) = length l + length offs.
Proof.
  induction l as [|[ci rep] t IH]; intros off offs.
  - cbn [fold_left map concat length fst snd]. split; [lia|reflexivity].
  - cbn [fold_left s_step]. destruct (IH (off + N.of_nat (length rep))%N
      ((if cacheBits then (2 * (off + N.of_nat (length rep)) + (if ci_cache ci then 1 else 0))%N
        else (off + N.of_nat (length rep))%N) :: offs)) as [A B].
    rewrite A, B. cbn [map concat snd length]. rewrite app_length. split; lia.
Qed.

Lemma concat_rev_length {A} (l : list (list A)) : length (concat (rev l)) = length (concat l).
Proof.
  induction l as [|a t IH]; [reflexivity|].
  cbn [rev concat]. rewrite concat_app, !app_length, IH. cbn [concat]. rewrite app_nil_r. lia.
Qed.

Lemma map_snd_combine {A B} (a : list A) (b : list B) :
  length a = length b -> map snd (combine a b) = b.
Proof.
  revert b. induction a as [|x a IH]; intros [|y b] H; cbn in *; try reflexivity; try lia.
  f_equal. apply IH. lia.
Qed.

(** *** decomposition of [serialize] *)
Section Out.
Variable dag : list node.

Definition s_repr (refSize cellCount : nat) (ci : cinfo) : bytes :=
  match nth_error dag (ci_node ci) with
  | Some nd =>
      repr_no_refs (length (ci_refs ci)) (n_special nd) (n_mask nd) (n_bits nd)
      ++ flat_map (fun r => be_n refSize (N.of_nat (cellCount - 1 - r))) (ci_refs ci)
  | None => []
  end.

Definition s_flags (idx hasCrc cacheBits : bool) : N :=
  ((if idx then 128 else 0) + (if hasCrc then 64 else 0) + (if cacheBits then 32 else 0))%N.

Definition s_header (idx hasCrc cacheBits : bool) (refSize offSize cellCount : nat) (total : N)
  (rootidx : list nat) : bytes :=
  magic_reach ++ [(s_flags idx hasCrc cacheBits + N.of_nat (refSize mod 4))%N]
  ++ [N.of_nat (offSize mod 256)]
  ++ be_n refSize (N.of_nat cellCount) ++ be_n refSize (N.of_nat (length rootidx))
  ++ be_n refSize 0 ++ be_n offSize total
  ++ flat_map (fun r => be_n refSize (N.of_nat (cellCount - 1 - r))) rootidx.

Definition s_index (idx : bool) (offSize : nat) (offsets : list N) : bytes :=
  if idx then flat_map (be_n offSize) (rev offsets) else [].

Definition s_capacity (cellCount : nat) : N := N.of_nat ((1023 + 32 * 4 + 32 * 3) * cellCount).

(* everything after importRoots *)
Definition ser_out (st : list cinfo) (nl rootidx : list nat) (idx hasCrc cacheBits : bool) : res bytes :=
  let infos := map (get_ci st) nl in
  let cellCount := length infos in
  let refSize := byte_len (N.of_nat cellCount) in
  let reps := map (s_repr refSize cellCount) infos in
  let tot_offs := fold_left (s_step cacheBits) (rev (combine infos reps)) (0%N, []) in
  let total := fst tot_offs in
  let offsets := snd tot_offs in
  let offSize := byte_len total in
  let body := s_header idx hasCrc cacheBits refSize offSize cellCount total rootidx
              ++ s_index idx offSize offsets ++ concat (rev reps) in
  if (s_capacity cellCount <? 8 * N.of_nat (length body))%N then Err ESer else
  Ok (if hasCrc then body ++ rev (be_n 4 (crc32c body)) else body).

Lemma serialize_eq hashes roots idx hasCrc cacheBits :
  serialize dag hashes roots idx hasCrc cacheBits =
  do ir <- import_roots dag hashes roots;
  let '(st, nl, rootidx) := ir in ser_out st nl rootidx idx hasCrc cacheBits.
Proof.
  unfold serialize, ser_out.
  destruct (import_roots dag hashes roots) as [[[st nl] rootidx]|e|p]; cbn [bind]; [|reflexivity|reflexivity].
  cbv zeta. fold (s_step cacheBits).
  destruct (fold_left (s_step cacheBits) _ _) as [total offsets]. cbn [fst snd].
  reflexivity.
Qed.

End Out.
