(** C01 — outcomes of the serialiser model, part 8: on a well-formed array whose
    cells all have an entry in the hash list, with roots inside the array,
    [serialize] never panics, and its only errors are the depth limit of
    [importCell] ([EDepth]), the capacity of the output bit string ([ESer]) and
    an error of the hasher on some cell. *)
From Coq Require Import List NArith ZArith Arith Bool Lia Permutation.
From Tongo Require Import Lib.Bits Lib.Res Spec.Crc32c Model.BocParse Model.CellHash
  Model.BocSer Proofs.BocParseP
  Proofs.BocReorderP1 Proofs.BocReorderP2 Proofs.BocReorderP3 Proofs.BocReorderP4
  Proofs.BocSerLayoutP1.
Import ListNotations.

Section Out.
Variable dag : list node.
Variable hashes : list (res bytes).
Hypothesis Hwf : dag_wf dag.
Hypothesis Hlen : length dag <= length hashes.

Definition imp_err (e : N) : Prop :=
  e = EDepth \/ e = EFuel \/ exists c, nth_error hashes c = Some (Err e).

Definition imp_out {A} (r : res A) : Prop :=
  match r with
  | Ok _ => True
  | Err e => imp_err e
  | Panic p => exists c, nth_error hashes c = Some (Panic p)
  end.

Lemma iloop_out (ic : icT) : forall rs st m acc sum,
  (forall r, In r rs -> forall st m, imp_out (ic st m r)) ->
  imp_out (iloop ic rs st m acc sum).
Proof.
  induction rs as [|r t IH]; intros st m acc sum H; cbn [iloop]; [exact I|].
  pose proof (H r (or_introl eq_refl) st m) as Hr.
  destruct (ic st m r) as [[[st1 m1] pos]|e|p]; cbn [bind]; [|exact Hr|exact Hr].
  apply IH. intros r' Hr'. apply H. right. exact Hr'.
Qed.

Lemma import_out : forall fuel st m cell depth,
  cell < length dag -> imp_out (import_cell dag hashes fuel st m cell depth).
Proof.
  induction fuel as [|f IH]; intros st m cell depth Hc; [right; left; reflexivity|].
  rewrite import_cell_S.
  destruct (1024 <? depth); [left; reflexivity|].
  destruct (nth_error hashes cell) as [rh|] eqn:Eh; [|apply nth_error_None in Eh; lia].
  destruct (nth_error dag cell) as [nd|] eqn:End; [|apply nth_error_None in End; lia].
  destruct rh as [h|e|p]; cbn [bind].
  - destruct (find_hash h m); [exact I|].
    pose proof (iloop_out (fun st m r => import_cell dag hashes f st m r (S depth)) (n_refs nd) st m [] 1) as HL.
    destruct (iloop _ (n_refs nd) st m [] 1) as [[[[st1 m1] refs] sum]|e|p]; cbn [bind].
    + exact I.
    + apply HL. intros r Hr st' m'. apply IH.
      pose proof (dag_wf_nth _ _ 0 cell nd Hwf End) as (_ & _ & Hf). rewrite Forall_forall in Hf.
      specialize (Hf r Hr). cbv beta in Hf. lia.
    + apply HL. intros r Hr st' m'. apply IH.
      pose proof (dag_wf_nth _ _ 0 cell nd Hwf End) as (_ & _ & Hf). rewrite Forall_forall in Hf.
      specialize (Hf r Hr). cbv beta in Hf. lia.
  - right. right. exists cell. exact Eh.
  - exists cell. exact Eh.
Qed.

Lemma iroots_out : forall roots s,
  Forall (fun r => r < length dag) roots ->
  imp_out (for_roots (iroots_step dag hashes) s roots).
Proof.
  induction roots as [|r t IH]; intros [[st m] acc] Hin; cbn [for_roots]; [exact I|].
  inversion Hin as [|? ? Hr Ht]; subst. unfold iroots_step at 1.
  pose proof (import_out (S (length dag)) st m r 0 Hr) as Ho.
  destruct (import_cell dag hashes (S (length dag)) st m r 0) as [[[st1 m1] pos]|e|p];
    cbn [bind]; [|exact Ho|exact Ho].
  apply IH. exact Ht.
Qed.

Hypothesis Hreal : hashes_real hashes.

(** no panic of its own, no fuel exhaustion; errors: depth limit, output
    capacity, or an error of the hasher *)
Theorem serialize_outcomes roots idx hasCrc cacheBits :
  Forall (fun r => r < length dag) roots ->
  match serialize dag hashes roots idx hasCrc cacheBits with
  | Ok _ => True
  | Err e => e = EDepth \/ e = ESer \/ exists c, nth_error hashes c = Some (Err e)
  | Panic p => exists c, nth_error hashes c = Some (Panic p)
  end.
Proof.
  intros Hin.
  pose proof (serialize_no_fuel dag hashes roots idx hasCrc cacheBits (dag_wf_fwd dag Hwf) Hreal) as Hnf.
  rewrite serialize_eq in Hnf |- *. rewrite import_roots_eq in Hnf |- *.
  pose proof (iroots_out roots ([], [], []) Hin) as Ho.
  pose proof (import_phase_valid dag hashes (dag_wf_fwd dag Hwf) Hreal roots) as HV.
  unfold import_phase in HV.
  destruct (for_roots (iroots_step dag hashes) ([], [], []) roots) as [[[st0 m] rootpos]|e|p];
    cbn [bind] in Hnf |- *.
  - destruct HV as (Hpre & Hacc & _).
    destruct (reorder_valid st0 rootpos Hpre Hacc) as (stf & nl & ER & _).
    rewrite ER in Hnf |- *. cbn [bind] in Hnf |- *. unfold ser_out. cbv zeta.
    destruct (_ <? _)%N; [right; left; reflexivity|exact I].
  - destruct Ho as [->|[->|Hc]]; [left; reflexivity|contradiction|right; right; exact Hc].
  - exact Ho.
Qed.

End Out.
