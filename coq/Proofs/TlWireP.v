(** Laws of the TL wire format (Spec/TlWire.v): primitive layouts, composable
    prefix laws (decode (encode v ++ rest) = (v, rest)) for lists and field
    sequences given the element law, and the round trip for every schema. *)
From Coq Require Import String List NArith PArith Arith Lia Bool.
From Tongo Require Import Lib.Bits Spec.TlWire.
Import ListNotations.
Local Open Scope N_scope.

(** * little-endian integers *)
Lemma le_bytes_length k n : length (le_bytes k n) = k.
Proof. revert n; induction k as [|k IH]; intros n; cbn [le_bytes length]; auto. Qed.

Lemma le_num_le_bytes k n : le_num (le_bytes k n) = n mod 256 ^ N.of_nat k.
Proof.
  revert n; induction k as [|k IH]; intros n.
  - cbn [le_bytes le_num N.of_nat]. rewrite N.pow_0_r, N.mod_1_r. reflexivity.
  - cbn [le_bytes le_num]. rewrite IH, Nat2N.inj_succ, N.pow_succ_r'.
    rewrite N.mod_mul_r; [reflexivity | lia | apply N.pow_nonzero; lia].
Qed.

Lemma le_num_le_bytes_small k n : n < 256 ^ N.of_nat k -> le_num (le_bytes k n) = n.
Proof. intros H. rewrite le_num_le_bytes. apply N.mod_small; exact H. Qed.

Lemma le_bytes_are_bytes k n : all_bytes (le_bytes k n) = true.
Proof.
  revert n; induction k as [|k IH]; intros n; cbn [le_bytes all_bytes forallb]; auto.
  apply andb_true_iff; split; [|apply IH].
  unfold is_byte. apply N.ltb_lt. apply N.mod_upper_bound. lia.
Qed.

Lemma pow256_4 : 256 ^ N.of_nat 4 = two32. Proof. reflexivity. Qed.
Lemma pow256_8 : 256 ^ N.of_nat 8 = two64. Proof. reflexivity. Qed.
Lemma pow256_3 : 256 ^ N.of_nat 3 = two24. Proof. reflexivity. Qed.

(** * splitting *)
Lemma split_at_app (a r : bytes) : split_at (length a) (a ++ r) = Some (a, r).
Proof.
  unfold split_at. rewrite short_spec, app_length.
  destruct (Nat.ltb_spec (length a + length r) (length a)) as [H|H]; [lia|].
  now rewrite firstn_app_exact, skipn_app_exact.
Qed.

Lemma split_at_len k (a r : bytes) : length a = k -> split_at k (a ++ r) = Some (a, r).
Proof. intros <-. apply split_at_app. Qed.

Lemma shortN_spec {A} n (l : list A) : shortN n l = (N.of_nat (length l) <? n).
Proof.
  revert n; induction l as [|a l IH]; intros n.
  - destruct n; cbn [shortN length N.of_nat]; [reflexivity|]. symmetry. apply N.ltb_lt. lia.
  - destruct n as [|p]; [cbn [shortN]; symmetry; apply N.ltb_ge; lia|].
    cbn [shortN]. rewrite IH. cbn [length]. rewrite Nat2N.inj_succ.
    destruct (N.ltb_spec (N.of_nat (length l)) (N.pred (N.pos p)));
      destruct (N.ltb_spec (N.succ (N.of_nat (length l))) (N.pos p)); try reflexivity; lia.
Qed.

Lemma frev_eq {A} (l : list A) : frev l = rev l.
Proof. unfold frev. symmetry. apply rev_alt. Qed.

Lemma split_atN_app (a r : bytes) : split_atN (N.of_nat (length a)) (a ++ r) = Some (a, r).
Proof.
  unfold split_atN. rewrite shortN_spec, app_length, Nat2N.inj_add.
  destruct (N.ltb_spec (N.of_nat (length a) + N.of_nat (length r)) (N.of_nat (length a))) as [H|H]; [lia|].
  rewrite Nat2N.id. apply split_at_app.
Qed.

Lemma split_le k n r : split_at k (le_bytes k n ++ r) = Some (le_bytes k n, r).
Proof. apply split_at_len, le_bytes_length. Qed.

Lemma split_at_length n l a r : split_at n l = Some (a, r) -> l = a ++ r /\ length a = n.
Proof.
  unfold split_at. rewrite short_spec.
  destruct (Nat.ltb_spec (length l) n) as [H|H]; [discriminate|].
  intros E; inversion E; subst. split; [symmetry; apply firstn_skipn|].
  apply firstn_length_le; exact H.
Qed.

(** * byte strings *)
Lemma all_zero_repeat k : all_zero (repeat 0 k) = true.
Proof. induction k as [|k IH]; cbn [repeat all_zero forallb]; auto. Qed.

Lemma split_pad k r : split_at k (repeat 0 k ++ r) = Some (repeat 0 k, r).
Proof. apply split_at_len, repeat_length. Qed.

Lemma dec_enc_bytes b rest :
  N.of_nat (length b) < two24 -> dec_bytes (enc_bytes b ++ rest) = Some (b, rest).
Proof.
  intros Hlen. unfold enc_bytes, bytes_header.
  destruct (N.ltb_spec (N.of_nat (length b)) 254) as [Hs|Hl].
  - cbn [app length]. rewrite <- app_assoc. unfold dec_bytes.
    apply N.ltb_lt in Hs. rewrite Hs.
    rewrite split_atN_app.
    change (N.of_nat 1) with 1. rewrite split_pad, all_zero_repeat. reflexivity.
  - cbn [app length]. rewrite le_bytes_length.
    rewrite <- !app_assoc. unfold dec_bytes.
    change (254 <? 254) with false. change (254 =? 254) with true. cbv iota.
    rewrite split_le.
    rewrite le_num_le_bytes_small by (rewrite pow256_3; exact Hlen).
    destruct (N.ltb_spec (N.of_nat (length b)) 254) as [H|_]; [lia|].
    rewrite split_atN_app.
    change (N.of_nat 4) with 4. rewrite split_pad, all_zero_repeat. reflexivity.
Qed.

Lemma pad_total x : (x + N.of_nat (pad_of x)) mod 4 = 0.
Proof.
  unfold pad_of. rewrite N2Nat.id.
  assert (Hr : x mod 4 < 4) by (apply N.mod_upper_bound; lia).
  assert (Hd : x = 4 * (x / 4) + x mod 4) by (apply N.div_mod; lia).
  remember (x mod 4) as r eqn:Er. remember (x / 4) as q eqn:Eq.
  destruct (N.eq_dec r 0) as [E|E].
  - rewrite E. change ((4 - 0) mod 4) with 0. rewrite N.add_0_r, <- Er. exact E.
  - rewrite (N.mod_small (4 - r) 4) by lia.
    replace (x + (4 - r)) with ((q + 1) * 4) by lia.
    apply N.mod_mul. lia.
Qed.

Lemma pad_of_lt4 x : (pad_of x < 4)%nat.
Proof.
  unfold pad_of. assert ((4 - x mod 4) mod 4 < 4) by (apply N.mod_upper_bound; lia). lia.
Qed.

(** every encoded byte string occupies a multiple of four bytes *)
Lemma enc_bytes_aligned b : N.of_nat (length (enc_bytes b)) mod 4 = 0.
Proof.
  unfold enc_bytes. rewrite !app_length, repeat_length, !Nat2N.inj_add, N.add_assoc.
  apply pad_total.
Qed.

(** total length: header (1 or 4), data, at most 3 bytes of padding *)
Lemma enc_bytes_length b :
  let n := length b in
  let h := if N.of_nat n <? 254 then 1%nat else 4%nat in
  (h + n <= length (enc_bytes b) <= h + n + 3)%nat.
Proof.
  cbv zeta. unfold enc_bytes, bytes_header.
  destruct (N.of_nat (length b) <? 254);
    rewrite !app_length, repeat_length; cbn [length]; rewrite ?le_bytes_length;
    match goal with |- context [pad_of ?x] => pose proof (pad_of_lt4 x) end; lia.
Qed.

(** the 0xfe escape is used exactly from 254 bytes on *)
Lemma enc_bytes_escape b :
  N.of_nat (length b) < two24 ->
  (hd 0 (enc_bytes b) = 254 <-> 254 <= N.of_nat (length b)) /\
  (N.of_nat (length b) < 254 -> hd 0 (enc_bytes b) = N.of_nat (length b)) /\
  (254 <= N.of_nat (length b) ->
   firstn 4 (enc_bytes b) = 254 :: le_bytes 3 (N.of_nat (length b))).
Proof.
  intros Hlen. unfold enc_bytes, bytes_header.
  destruct (N.ltb_spec (N.of_nat (length b)) 254) as [H|H]; cbn [app hd].
  - split; [split; intros; lia|]. split; intros; [reflexivity|lia].
  - split; [split; intros; [exact H|reflexivity]|]. split; intros; [lia|].
    cbn [le_bytes app firstn]. reflexivity.
Qed.

Lemma enc_bytes_are_bytes b :
  all_bytes b = true -> N.of_nat (length b) < two24 -> all_bytes (enc_bytes b) = true.
Proof.
  intros Hb Hlen. unfold enc_bytes, all_bytes. rewrite !forallb_app.
  apply andb_true_iff; split; [|apply andb_true_iff; split; [exact Hb|]].
  - unfold bytes_header. destruct (N.ltb_spec (N.of_nat (length b)) 254) as [H|H].
    + cbn [forallb]. unfold is_byte. rewrite andb_true_r. apply N.ltb_lt. lia.
    + cbn [forallb]. apply andb_true_iff; split; [reflexivity|]. apply le_bytes_are_bytes.
  - match goal with |- forallb _ (repeat _ ?k) = true => generalize k end.
    intros m; induction m as [|m IH]; cbn [repeat forallb]; auto.
Qed.

(** * vectors: the binary-counted loop is the unary loop *)
Fixpoint dec_nat (D : bytes -> option (value * bytes)) (n : nat) (acc : list value) (bs : bytes)
  : option (list value * bytes) :=
  match n with
  | O => Some (acc, bs)
  | S n' => opt (v, r) <- D bs; dec_nat D n' (v :: acc) r
  end.

Lemma dec_nat_add D a b acc bs :
  dec_nat D (a + b) acc bs = opt (acc', r) <- dec_nat D a acc bs; dec_nat D b acc' r.
Proof.
  revert acc bs; induction a as [|a IH]; intros acc bs; cbn [dec_nat plus]; auto.
  destruct (D bs) as [[v r]|]; auto.
Qed.

Lemma dec_pos_nat D p acc bs : dec_pos D p acc bs = dec_nat D (Pos.to_nat p) acc bs.
Proof.
  revert acc bs; induction p as [p IH|p IH|]; intros acc bs; cbn [dec_pos].
  - rewrite Pos2Nat.inj_xI.
    replace (2 * Pos.to_nat p)%nat with (Pos.to_nat p + Pos.to_nat p)%nat by lia.
    cbn [dec_nat]. destruct (D bs) as [[v r]|]; [|reflexivity].
    rewrite dec_nat_add, IH.
    destruct (dec_nat D (Pos.to_nat p) (v :: acc) r) as [[acc' r']|]; [apply IH|reflexivity].
  - rewrite Pos2Nat.inj_xO.
    replace (2 * Pos.to_nat p)%nat with (Pos.to_nat p + Pos.to_nat p)%nat by lia.
    rewrite dec_nat_add, IH.
    destruct (dec_nat D (Pos.to_nat p) acc bs) as [[acc' r']|]; [apply IH|reflexivity].
  - rewrite Pos2Nat.inj_1. cbn [dec_nat]. destruct (D bs) as [[v r]|]; reflexivity.
Qed.

Definition elem_law (E : value -> option bytes) (D : bytes -> option (value * bytes)) : Prop :=
  forall v e rest, E v = Some e -> D (e ++ rest) = Some (v, rest).

Lemma list_law_nat E D : elem_law E D ->
  forall vs e rest acc, enc_list E vs = Some e ->
  dec_nat D (length vs) acc (e ++ rest) = Some (rev vs ++ acc, rest).
Proof.
  intros HL vs; induction vs as [|v t IH]; intros e rest acc H; cbn [enc_list] in H.
  - inversion H; subst. reflexivity.
  - destruct (E v) as [a|] eqn:Ea; [|discriminate].
    destruct (enc_list E t) as [b|] eqn:Eb; [|discriminate].
    inversion H; subst. rewrite <- app_assoc. cbn [length dec_nat].
    rewrite (HL _ _ _ Ea). rewrite (IH _ _ _ eq_refl).
    cbn [rev]. rewrite <- app_assoc. reflexivity.
Qed.

(** vector law: given the element law, the counted list round-trips *)
Lemma list_law E D : elem_law E D ->
  forall vs e rest, enc_list E vs = Some e ->
  dec_count D (N.of_nat (length vs)) (e ++ rest) = Some (vs, rest).
Proof.
  intros HL vs e rest H. destruct vs as [|v t].
  - cbn in H. inversion H; subst. reflexivity.
  - cbn [length N.of_nat]. unfold dec_count. rewrite dec_pos_nat, SuccNat2Pos.id_succ.
    change (S (length t)) with (length (v :: t)).
    rewrite (list_law_nat E D HL _ _ _ _ H). rewrite frev_eq, app_nil_r, rev_involutive. reflexivity.
Qed.

(** * field sequences incl. mode-conditional fields *)
Definition ty_law (E : ty -> value -> option bytes) (D : ty -> bytes -> option (value * bytes)) : Prop :=
  forall t v e rest, E t v = Some e -> D t (e ++ rest) = Some (v, rest).

Lemma fields_law nm E D : ty_law E D ->
  forall fields fs env e rest, enc_fields nm E fields fs env = Some e ->
  dec_fields nm D fields env (e ++ rest) = Some (fs, rest).
Proof.
  intros HL fields; induction fields as [|f fields IH]; intros fs env e rest H;
    cbn [enc_fields dec_fields] in *.
  - destruct fs; [|discriminate]. inversion H; subst. reflexivity.
  - destruct (present env f) as [p|]; [|discriminate].
    destruct (negb p || is_true_ty (fty f)); [apply IH; exact H|].
    destruct fs as [|[l v] fs']; [discriminate|].
    destruct (String.eqb_spec l (lbl nm (fname f))) as [->|]; [|discriminate].
    destruct (E (fty f) v) as [a|] eqn:Ea; [|discriminate].
    destruct (enc_fields nm E fields fs' (env_add f v env)) as [b|] eqn:Eb; [|discriminate].
    inversion H; subst. rewrite <- app_assoc.
    rewrite (HL _ _ _ _ Ea). rewrite (IH _ _ _ _ Eb). reflexivity.
Qed.

(** * constructor selection by id *)
Lemma existsb_eqb_in a l : In a l -> existsb (N.eqb a) l = true.
Proof. intros H. apply existsb_exists. exists a; split; [exact H|apply N.eqb_refl]. Qed.

Lemma find_by_id l d :
  nodup_N (map did l) = true -> In d l -> find (fun d' => did d' =? did d) l = Some d.
Proof.
  induction l as [|a l IH]; intros Hn Hin; [destruct Hin|].
  cbn [map nodup_N] in Hn. apply andb_true_iff in Hn as [Ha Hn].
  cbn [find]. destruct (N.eqb_spec (did a) (did d)) as [E|E].
  - destruct Hin as [->|Hin]; [reflexivity|].
    apply negb_true_iff in Ha. rewrite E in Ha.
    rewrite existsb_eqb_in in Ha; [discriminate|]. apply in_map; exact Hin.
  - destruct Hin as [->|Hin]; [congruence|]. apply IH; assumption.
Qed.

Lemma ids_distinct_ctors sch T d :
  ids_distinct sch = true -> In d (ctors_of sch T) -> nodup_N (map did (ctors_of sch T)) = true.
Proof.
  intros Hd Hin. unfold ctors_of in Hin. apply filter_In in Hin as [Hin HT].
  apply String.eqb_eq in HT. subst T.
  unfold ids_distinct in Hd. rewrite forallb_forall in Hd. apply Hd; exact Hin.
Qed.

(** * Round trip / prefix property for every schema *)
Lemma Some_inj {A} (a b : A) : Some a = Some b -> a = b.
Proof. intros H; inversion H; reflexivity. Qed.

Theorem roundtrip nm sch : ids_distinct sch = true ->
  forall fuel, ty_law (enc nm sch fuel) (dec nm sch fuel).
Proof.
  intros Hids fuel; induction fuel as [|k IH]; intros t v e rest H; [discriminate|].
  destruct t; destruct v; cbn [enc] in H; try discriminate; cbn [dec].
  - (* int *)
    destruct (N.ltb_spec n two32) as [Hn|]; [|discriminate]. apply Some_inj in H; subst e.
    rewrite split_le, le_num_le_bytes_small by (rewrite pow256_4; exact Hn). reflexivity.
  - (* # *)
    destruct (N.ltb_spec n two32) as [Hn|]; [|discriminate]. apply Some_inj in H; subst e.
    rewrite split_le, le_num_le_bytes_small by (rewrite pow256_4; exact Hn). reflexivity.
  - (* long *)
    destruct (N.ltb_spec n two64) as [Hn|]; [|discriminate]. apply Some_inj in H; subst e.
    rewrite split_le, le_num_le_bytes_small by (rewrite pow256_8; exact Hn). reflexivity.
  - (* int256 *)
    destruct (Nat.eqb_spec (length b) 32) as [Hl|]; [|discriminate].
    destruct (all_bytes b); [|discriminate]. apply Some_inj in H; subst e.
    rewrite (split_at_len 32 b rest Hl). reflexivity.
  - (* bytes *)
    destruct (all_bytes b); [|discriminate].
    destruct (N.ltb_spec (N.of_nat (length b)) two24) as [Hn|]; [|discriminate].
    apply Some_inj in H; subst e. rewrite dec_enc_bytes by exact Hn. reflexivity.
  - (* string *)
    destruct (all_bytes b); [|discriminate].
    destruct (N.ltb_spec (N.of_nat (length b)) two24) as [Hn|]; [|discriminate].
    apply Some_inj in H; subst e. rewrite dec_enc_bytes by exact Hn. reflexivity.
  - (* Bool *)
    apply Some_inj in H; subst e. unfold enc_bool. rewrite split_le. destruct b.
    + replace (le_num (le_bytes 4 bool_true_id)) with bool_true_id by (vm_compute; reflexivity).
      rewrite N.eqb_refl. reflexivity.
    + replace (le_num (le_bytes 4 bool_false_id)) with bool_false_id by (vm_compute; reflexivity).
      change (bool_false_id =? bool_true_id) with false. rewrite N.eqb_refl. reflexivity.
  - (* vector *)
    destruct (N.ltb_spec (N.of_nat (length l)) two32) as [Hn|]; [|discriminate].
    destruct (enc_list (enc nm sch k t) l) as [b|] eqn:Eb; [|discriminate].
    apply Some_inj in H; subst e. rewrite <- app_assoc.
    rewrite split_le, le_num_le_bytes_small by (rewrite pow256_4; exact Hn).
    rewrite (list_law _ _ (IH t) _ _ _ Eb). reflexivity.
  - (* bare *)
    destruct (find_ctor sch c) as [d|]; [|discriminate].
    destruct (String.eqb_spec c0 (blbl nm d)) as [->|]; [|discriminate].
    rewrite (fields_law nm _ _ IH _ _ _ _ _ H). reflexivity.
  - (* boxed *)
    destruct (find (fun d => String.eqb c (xlbl nm d)) (ctors_of sch T)) as [d|] eqn:Hf; [|discriminate].
    destruct (N.ltb_spec (did d) two32) as [Hn|]; [|discriminate].
    destruct (enc_fields nm (enc nm sch k) (dfields d) fs []) as [b|] eqn:Eb; [|discriminate].
    apply Some_inj in H; subst e. rewrite <- app_assoc.
    rewrite split_le, le_num_le_bytes_small by (rewrite pow256_4; exact Hn).
    apply find_some in Hf as [Hin Hl]. apply String.eqb_eq in Hl. subst c.
    rewrite (find_by_id _ _ (ids_distinct_ctors _ _ _ Hids Hin) Hin).
    rewrite (fields_law nm _ _ IH _ _ _ _ _ Eb). reflexivity.
Qed.

(** requests: id of the function line, then the arguments *)
Theorem args_roundtrip nm sch : ids_distinct sch = true ->
  forall fuel f v e rest, enc_args nm sch fuel f v = Some e ->
  dec_args nm sch fuel f (e ++ rest) = Some (v, rest).
Proof.
  intros Hids fuel f v e rest H. unfold enc_args in H. unfold dec_args.
  destruct v as [| | | |c fs]; try discriminate.
  destruct (String.eqb_spec c (blbl nm f)) as [->|]; [|discriminate].
  rewrite (fields_law nm _ _ (roundtrip nm sch Hids fuel) _ _ _ _ _ H). reflexivity.
Qed.

Theorem request_roundtrip nm sch : ids_distinct sch = true ->
  forall f v e rest, tl_request nm sch f v = Some e ->
  tl_request_decode nm sch f (e ++ rest) = Some (v, rest).
Proof.
  intros Hids f v e rest H. unfold tl_request in H. unfold tl_request_decode.
  destruct (N.ltb_spec (did f) two32) as [Hn|]; [|discriminate].
  destruct (enc_args nm sch tl_fuel f v) as [a|] eqn:Ea; [|discriminate].
  apply Some_inj in H; subst e. rewrite <- app_assoc.
  rewrite split_le, le_num_le_bytes_small by (rewrite pow256_4; exact Hn).
  rewrite N.eqb_refl. apply (args_roundtrip nm sch Hids _ _ _ _ _ Ea).
Qed.

(** * Results do not depend on the fuel *)
Lemma enc_list_mono (E E' : value -> option bytes) :
  (forall v e, E v = Some e -> E' v = Some e) ->
  forall vs e, enc_list E vs = Some e -> enc_list E' vs = Some e.
Proof.
  intros HE vs; induction vs as [|v t IH]; intros e H; cbn [enc_list] in *; auto.
  destruct (E v) as [a|] eqn:Ea; [|discriminate]. rewrite (HE _ _ Ea).
  destruct (enc_list E t) as [b|] eqn:Eb; [|discriminate]. rewrite (IH _ eq_refl). exact H.
Qed.

Lemma enc_fields_mono nm (E E' : ty -> value -> option bytes) :
  (forall t v e, E t v = Some e -> E' t v = Some e) ->
  forall fields fs env e, enc_fields nm E fields fs env = Some e ->
  enc_fields nm E' fields fs env = Some e.
Proof.
  intros HE fields; induction fields as [|f fields IH]; intros fs env e H;
    cbn [enc_fields] in *; auto.
  destruct (present env f) as [p|]; [|discriminate].
  destruct (negb p || is_true_ty (fty f)); [apply IH; exact H|].
  destruct fs as [|[l v] fs']; [discriminate|].
  destruct (String.eqb l (lbl nm (fname f))); [|discriminate].
  destruct (E (fty f) v) as [a|] eqn:Ea; [|discriminate]. rewrite (HE _ _ _ Ea).
  destruct (enc_fields nm E fields fs' (env_add f v env)) as [b|] eqn:Eb; [|discriminate].
  rewrite (IH _ _ _ Eb). exact H.
Qed.

Lemma enc_fuel_S nm sch k : forall t v e,
  enc nm sch k t v = Some e -> enc nm sch (S k) t v = Some e.
Proof.
  induction k as [|k IH]; intros t v e H; [discriminate|].
  destruct t; destruct v; cbn [enc] in H; try discriminate;
    cbn [enc]; cbn [enc] in IH; try exact H.
  - destruct (N.of_nat (length l) <? two32); [|discriminate].
    destruct (enc_list (enc nm sch k t) l) as [b|] eqn:Eb; [|discriminate].
    rewrite (enc_list_mono _ _ (IH t) _ _ Eb). exact H.
  - destruct (find_ctor sch c) as [d|]; [|discriminate].
    destruct (String.eqb c0 (blbl nm d)); [|discriminate].
    apply (enc_fields_mono nm _ _ IH _ _ _ _ H).
  - destruct (find (fun d => String.eqb c (xlbl nm d)) (ctors_of sch T)) as [d|]; [|discriminate].
    destruct (did d <? two32); [|discriminate].
    destruct (enc_fields nm (enc nm sch k) (dfields d) fs []) as [b|] eqn:Eb; [|discriminate].
    rewrite (enc_fields_mono nm _ _ IH _ _ _ _ Eb). exact H.
Qed.

Lemma enc_fuel_mono nm sch k k' t v e : (k <= k')%nat ->
  enc nm sch k t v = Some e -> enc nm sch k' t v = Some e.
Proof.
  intros Hle; induction Hle as [|m Hle IH]; auto. intros H. apply enc_fuel_S, IH, H.
Qed.

(** unfolding equations (the kernel must not be asked to convert [tl_encode]
    into [enc ... tl_fuel] by itself: it would unfold all 64 levels) *)
Lemma tl_encode_eq nm sch t v : tl_encode nm sch t v = enc nm sch tl_fuel t v.
Proof. unfold tl_encode. reflexivity. Qed.
Lemma tl_decode_eq nm sch t bs : tl_decode nm sch t bs = dec nm sch tl_fuel t bs.
Proof. unfold tl_decode. reflexivity. Qed.

(** * Prefix-freeness: no encoding is a proper prefix of another one of the
    same type, and an encoding followed by anything parses in one way only *)
Theorem prefix_free nm sch : ids_distinct sch = true ->
  forall fuel t v1 v2 e1 e2 r1 r2,
  enc nm sch fuel t v1 = Some e1 -> enc nm sch fuel t v2 = Some e2 ->
  e1 ++ r1 = e2 ++ r2 -> v1 = v2 /\ e1 = e2 /\ r1 = r2.
Proof.
  intros Hids fuel t v1 v2 e1 e2 r1 r2 H1 H2 E.
  pose proof (roundtrip nm sch Hids fuel t v1 e1 r1 H1) as D1.
  pose proof (roundtrip nm sch Hids fuel t v2 e2 r2 H2) as D2.
  rewrite E, D2 in D1. inversion D1; subst. split; [reflexivity|]. split; [|reflexivity].
  apply app_inv_tail in E. exact E.
Qed.

(** a request starts with the id of its function line *)
Lemma request_starts_with_id nm sch f v e :
  tl_request nm sch f v = Some e -> firstn 4 e = le_bytes 4 (did f) /\ did f < two32.
Proof.
  unfold tl_request. destruct (N.ltb_spec (did f) two32) as [H|]; [|discriminate].
  destruct (enc_args nm sch tl_fuel f v) as [a|]; [|discriminate].
  intros E; inversion E; subst. split; [reflexivity|exact H].
Qed.

(** a boxed value starts with the id of the constructor its record names *)
Lemma boxed_starts_with_id nm sch fuel T c fs e :
  enc nm sch fuel (TBoxed T) (VRec c fs) = Some e ->
  exists d, In d (ctors_of sch T) /\ xlbl nm d = c /\ firstn 4 e = le_bytes 4 (did d).
Proof.
  destruct fuel as [|k]; [discriminate|]. cbn [enc].
  destruct (find (fun d => String.eqb c (xlbl nm d)) (ctors_of sch T)) as [d|] eqn:Hf; [|discriminate].
  destruct (did d <? two32); [|discriminate].
  destruct (enc_fields nm (enc nm sch k) (dfields d) fs []) as [x|]; [|discriminate].
  intros E; inversion E; subst. apply find_some in Hf as [Hin Hc]. apply String.eqb_eq in Hc.
  exists d. repeat split; auto.
Qed.

(** an optional field occupies bytes exactly when its mode bit is set *)
Lemma optional_field_present nm E f fields fs m n mv env :
  fcond f = Some (m, n) -> assoc m env = Some mv -> is_true_ty (fty f) = false ->
  enc_fields nm E (f :: fields) fs env =
    if N.testbit mv n then
      match fs with
      | (l, v) :: fs' =>
          if String.eqb l (lbl nm (fname f)) then
            opt a <- E (fty f) v; opt b <- enc_fields nm E fields fs' (env_add f v env); Some (a ++ b)
          else None
      | [] => None
      end
    else enc_fields nm E fields fs env.
Proof.
  intros Hc Hm Ht. cbn [enc_fields]. unfold present. rewrite Hc, Hm, Ht, orb_false_r.
  destruct (N.testbit mv n); reflexivity.
Qed.
