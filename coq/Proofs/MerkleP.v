(** C18: pruning preserves the level-0 hash and depth, pruned branches store the
    hash/depth of what they replace, the proof root commits to the original
    root, unpruned paths keep their data.  The source tree may contain pruned
    branches of any level mask and library cells ([prunable_tree]): the level-0
    hash of a pruned branch is the hash it stores. *)
From Coq Require Import List NArith Arith Lia Bool.
From Tongo Require Import Lib.Bits Lib.Res Model.BocParse Model.CellHash Spec.ReprHash Model.Merkle.
Import ListNotations.

Definition byte_list (l : bytes) : Prop := Forall (fun b => b < 256)%N l.

Section P.
Variable H : bytes -> bytes.
Hypothesis H_len : forall x, length (H x) = 32%nat.
Hypothesis H_bytes : forall x, byte_list (H x).

(** reading bytes back from byte-aligned bit strings *)
Lemma bits_bytes_cons n b l :
  (b < 256)%N -> bits_bytes (S n) (bits_of 8 b ++ l) = b :: bits_bytes n l.
Proof.
  intros Hb. cbn [bits_bytes].
  assert (L8 : length (bits_of 8 b) = 8%nat) by apply bits_of_length.
  rewrite <- app_assoc.
  rewrite <- L8 at 1. rewrite firstn_app_exact.
  rewrite <- L8 at 2. rewrite skipn_app_exact.
  rewrite N_of_bits_bits_of_small by exact Hb. reflexivity.
Qed.

Lemma bits_bytes_bytes n h l :
  byte_list h -> bits_bytes (length h + n) (bytes_to_bits h ++ l) = h ++ bits_bytes n l.
Proof.
  intros Hh. induction Hh as [|b t Hb Ht IH]; [reflexivity|].
  cbn [bytes_to_bits length Nat.add app]. rewrite <- app_assoc.
  rewrite bits_bytes_cons by exact Hb. rewrite IH. reflexivity.
Qed.

Lemma bits_of_16 d : (d < 65536)%N -> bits_of 16 d = bits_of 8 (d / 256) ++ bits_of 8 (d mod 256).
Proof.
  intros Hd. change 16%nat with (8 + 8)%nat. rewrite bits_of_app.
  change (2 ^ N.of_nat 8)%N with 256%N. f_equal.
  apply N_of_bits_inj; [rewrite !bits_of_length; reflexivity|].
  rewrite !N_of_bits_bits_of. change (2 ^ N.of_nat 8)%N with 256%N.
  rewrite N.mod_mod by lia. reflexivity.
Qed.

(* the buffer of a pruned branch cell built by pruneCells *)
Lemma pruned_buf h d :
  length h = 32%nat -> byte_list h -> (d < 65536)%N ->
  exists tail, buf_bytes (bits_of 8 1 ++ bits_of 8 1 ++ bytes_to_bits h ++ bits_of 16 d)
               = 1%N :: 1%N :: h ++ (d / 256)%N :: (d mod 256)%N :: tail.
Proof.
  intros Hl Hb Hd. unfold buf_bytes.
  change 128%nat with (S (S (32 + 94))).
  rewrite bits_bytes_cons by lia. rewrite bits_bytes_cons by lia.
  rewrite <- Hl. rewrite bits_bytes_bytes by exact Hb.
  rewrite bits_of_16 by exact Hd.
  change 94%nat with (S (S 92)).
  assert (d / 256 < 256)%N by (apply N.div_lt_upper_bound; lia).
  assert (d mod 256 < 256)%N by (apply N.mod_lt; lia).
  rewrite bits_bytes_cons by assumption.
  rewrite <- (app_nil_r (bits_of 8 (d mod 256))).
  rewrite bits_bytes_cons by assumption.
  eexists. reflexivity.
Qed.

(** the level-0 answer of a pruned branch cell is what it stores *)
Lemma pruned_cell_level0 h d :
  length h = 32%nat -> byte_list h -> (d < 65536)%N ->
  hd_at H (pruned_cell h d) 0 = Ok (h, d).
Proof.
  intros Hl Hb Hd. unfold pruned_cell. cbn [hd_at].
  change (is_pruned true T_PRUNED) with true. cbv iota.
  change (0 <? mask_level 1)%nat with true. cbv iota.
  change (mask_popcount (mask_apply 1 0)) with 0%nat.
  unfold stored_depth, stored_hash.
  change (mask_popcount 1) with 1%nat.
  destruct (pruned_buf h d Hl Hb Hd) as (tail & ->).
  change (2 + 32 * 0)%nat with 2%nat. change (2 + 32 * 1 + 2 * 0)%nat with (S (S 32)).
  set (R := (d / 256)%N :: (d mod 256)%N :: tail).
  change (skipn (S (S 32)) (1%N :: 1%N :: h ++ R)) with (skipn 32 (h ++ R)).
  change (skipn 2 (1%N :: 1%N :: h ++ R)) with (h ++ R).
  rewrite <- Hl.
  rewrite skipn_app_exact. rewrite firstn_app_exact. unfold R. cbn [bind].
  f_equal. f_equal.
  rewrite N.mul_comm. symmetry. apply N.div_mod. lia.
Qed.

(** the 128-byte buffer of a cell *)
Lemma bits_bytes_length n : forall l, length (bits_bytes n l) = n.
Proof. induction n as [|n IHn]; intros l; [reflexivity|]. cbn [bits_bytes length]. rewrite IHn. reflexivity. Qed.

Lemma bits_bytes_byte_list n : forall l, byte_list (bits_bytes n l).
Proof.
  induction n as [|n IHn]; intros l; [constructor|]. cbn [bits_bytes]. constructor; [|apply IHn].
  eapply N.lt_le_trans; [apply N_of_bits_bound|].
  change 256%N with (2 ^ N.of_nat 8)%N. apply N.pow_le_mono_r; [lia|].
  pose proof (firstn_le_length 8 (l ++ zeros 8)). lia.
Qed.

Lemma byte_list_skipn k (l : bytes) : byte_list l -> byte_list (skipn k l).
Proof.
  unfold byte_list. intros Hl. rewrite <- (firstn_skipn k l) in Hl. apply Forall_app in Hl. apply Hl.
Qed.

Lemma byte_list_firstn k (l : bytes) : byte_list l -> byte_list (firstn k l).
Proof.
  unfold byte_list. intros Hl. rewrite <- (firstn_skipn k l) in Hl. apply Forall_app in Hl. apply Hl.
Qed.

(** shape of level-0 answers: a 32-byte hash and a 16-bit depth *)
Definition plain (special : bool) (ty : N) : Prop :=
  is_pruned special ty = false /\ is_merkle special ty = false.

Fixpoint plain_tree (c : cell) : Prop :=
  match c with
  | Cell special ty _ _ refs =>
      plain special ty /\
      (fix all (rs : list cell) : Prop := match rs with [] => True | x :: t => plain_tree x /\ all t end) refs
  end.

Lemma level_repr_shape special m data nrefs j prev ks h d :
  level_repr H special m data nrefs j prev ks = Ok (h, d) ->
  length h = 32%nat /\ byte_list h /\ (d <= 1024)%N.
Proof.
  unfold level_repr.
  destruct (negb (nrefs =? 0) && (1024 <=? fold_left N.max (map snd ks) 0)%N) eqn:E; [discriminate|].
  intros Heq. injection Heq as <- <-. split; [apply H_len|split; [apply H_bytes|]].
  destruct (Nat.eqb nrefs 0); [lia|]. cbn [negb andb] in E. apply N.leb_gt in E. lia.
Qed.

(* the trees pruneCells handles: no Merkle cell anywhere, pruned branches are
   leaves; ordinary cells, library cells and pruned branches of any level mask *)
Fixpoint prunable_tree (c : cell) : Prop :=
  match c with
  | Cell special ty _ _ refs =>
      is_merkle special ty = false /\
      (is_pruned special ty = true -> refs = []) /\
      (fix all (rs : list cell) : Prop := match rs with [] => True | x :: t => prunable_tree x /\ all t end) refs
  end.

Lemma plain_prunable : forall c, plain_tree c -> prunable_tree c.
Proof.
  fix IH 1. intros [special ty m data refs] Hpl. cbn [plain_tree] in Hpl. destruct Hpl as ((Hp & Hm) & Hall).
  cbn [prunable_tree]. split; [exact Hm|]. split; [intros E; rewrite E in Hp; discriminate|].
  induction refs as [|x t IHt]; [exact I|]. destruct Hall as (Hx & Ht). split; [apply IH; exact Hx|apply IHt; exact Ht].
Qed.

(* the level-0 answer of ANY cell is a 32-byte hash and a 16-bit depth: for a
   pruned branch of level > 0 it is read from the 128-byte buffer *)
Lemma hd_at0_shape c h d :
  hd_at H c 0 = Ok (h, d) -> length h = 32%nat /\ byte_list h /\ (d < 65536)%N.
Proof.
  destruct c as [special ty m data refs]. cbn [hd_at]. intros Ehd.
  destruct (is_pruned special ty).
  - destruct (0 <? mask_level m)%nat.
    + assert (E0 : mask_popcount (mask_apply m 0) = 0%nat).
      { unfold mask_apply. change (2 ^ N.of_nat 0 - 1)%N with 0%N. rewrite N.land_0_r. reflexivity. }
      rewrite E0 in Ehd. unfold stored_depth, stored_hash in Ehd.
      pose proof (bits_bytes_byte_list 128 data) as Hb. fold (buf_bytes data) in Hb.
      pose proof (bits_bytes_length 128 data) as Hl. fold (buf_bytes data) in Hl.
      set (sk := skipn (2 + 32 * mask_popcount m + 2 * 0) (buf_bytes data)) in Ehd.
      assert (Hsk : byte_list sk) by (apply byte_list_skipn; exact Hb).
      set (hh := firstn 32 (skipn (2 + 32 * 0) (buf_bytes data))) in Ehd.
      assert (Hhl : length hh = 32%nat) by (unfold hh; rewrite firstn_length, skipn_length, Hl; reflexivity).
      assert (Hhb : byte_list hh) by (apply byte_list_firstn, byte_list_skipn; exact Hb).
      clearbody sk hh.
      destruct sk as [|a [|b tl]]; cbn [bind] in Ehd; try discriminate.
      injection Ehd as <- <-.
      split; [exact Hhl|split; [exact Hhb|]].
      inversion Hsk as [|? ? Ha Hrest]; subst. inversion Hrest as [|? ? Hb' _]; subst. lia.
    + match type of Ehd with bind ?X _ = _ => destruct X as [ks|?|?] end; cbn [bind] in Ehd; try discriminate.
      destruct (level_repr_shape _ _ _ _ _ _ _ _ _ Ehd) as (L & B & D). split; [exact L|split; [exact B|lia]].
  - cbn [own_levels] in Ehd.
    match type of Ehd with bind ?X _ = _ => destruct X as [ks|?|?] end; cbn [bind] in Ehd; try discriminate.
    destruct (level_repr_shape _ _ _ _ _ _ _ _ _ Ehd) as (L & B & D). split; [exact L|split; [exact B|lia]].
Qed.

Lemma plain_level0 special ty m data refs :
  plain special ty ->
  hd_at H (Cell special ty m data refs) 0 =
  do ks <- (fix go (rs : list cell) : res (list (bytes * N)) :=
              match rs with
              | [] => Ok []
              | ch :: t =>
                  match hd_at H ch 0 with
                  | Ok x => match go t with Ok xs => Ok (x :: xs) | Err e => Err e | Panic p => Panic p end
                  | Err e => Err e
                  | Panic p => Panic p
                  end
              end) refs;
  level_repr H special m data (length refs) 0 None ks.
Proof.
  intros (Hp & Hm). cbn [hd_at]. rewrite Hp, Hm. reflexivity.
Qed.

Lemma level_repr_mask0 special m m' data nrefs ks :
  level_repr H special m data nrefs 0 None ks = level_repr H special m' data nrefs 0 None ks.
Proof.
  unfold level_repr. unfold mask_apply. change (2 ^ N.of_nat 0 - 1)%N with 0%N.
  rewrite !N.land_0_r. reflexivity.
Qed.

(** *** pruning preserves the level-0 hash and depth *)
Theorem prune_level0 : forall c pruned path c',
  prunable_tree c -> prune H pruned path c = Ok c' -> hd_at H c' 0 = hd_at H c 0.
Proof.
  fix IH 1. intros c pruned path c' Hpl Hpr.
  destruct c as [special ty m data refs]. cbn [prunable_tree] in Hpl. destruct Hpl as (Hm & Hpb & Hall).
  cbn [prune] in Hpr. rewrite Hm in Hpr.
  destruct (pruned path).
  - (* replaced by a pruned branch that stores the level-0 answer *)
    destruct (hd_at H (Cell special ty m data refs) 0) as [[h d]|e|p] eqn:Ehd; cbn [bind] in Hpr; try discriminate.
    injection Hpr as <-. cbn [fst snd].
    destruct (hd_at0_shape _ _ _ Ehd) as (L & B & D).
    apply pruned_cell_level0; [exact L|exact B|exact D].
  - destruct (is_pruned special ty) eqn:Hp.
    { (* a pruned branch of the source that is kept: a leaf, copied *)
      specialize (Hpb eq_refl). subst refs. cbn [bind fold_left] in Hpr. injection Hpr as <-. reflexivity. }
    clear Hpb.
    (* kept: children pruned recursively *)
    match type of Hpr with bind ?X _ = _ => destruct X as [refs'|?|?] eqn:Ego end; cbn [bind] in Hpr; try discriminate.
    injection Hpr as <-.
    rewrite !(plain_level0 _ _ _ _ _ (conj Hp Hm)).
    (* the children's level-0 answers coincide, and there are equally many *)
    assert (Hk : forall i refs' ,
      (fix go (i : nat) (rs : list cell) {struct rs} : res (list cell) :=
         match rs with
         | [] => Ok []
         | ch :: t => do x <- prune H pruned (path ++ [i]) ch; do xs <- go (S i) t; Ok (x :: xs)
         end) i refs = Ok refs' ->
      length refs' = length refs /\
      (fix go (rs : list cell) : res (list (bytes * N)) :=
         match rs with
         | [] => Ok []
         | ch :: t =>
             match hd_at H ch 0 with
             | Ok x => match go t with Ok xs => Ok (x :: xs) | Err e => Err e | Panic p => Panic p end
             | Err e => Err e | Panic p => Panic p
             end
         end) refs' =
      (fix go (rs : list cell) : res (list (bytes * N)) :=
         match rs with
         | [] => Ok []
         | ch :: t =>
             match hd_at H ch 0 with
             | Ok x => match go t with Ok xs => Ok (x :: xs) | Err e => Err e | Panic p => Panic p end
             | Err e => Err e | Panic p => Panic p
             end
         end) refs).
    { clear Ego. induction refs as [|ch t IHt]; intros i rs Hgo.
      - injection Hgo as <-. split; reflexivity.
      - destruct Hall as (Hch & Ht).
        destruct (prune H pruned (path ++ [i]) ch) as [x|?|?] eqn:Ex; cbn [bind] in Hgo; try discriminate.
        match type of Hgo with bind ?X _ = _ => destruct X as [xs|?|?] eqn:Exs end; cbn [bind] in Hgo; try discriminate.
        injection Hgo as <-.
        destruct (IHt Ht (S i) xs Exs) as (Hl & He).
        split; [cbn [length]; lia|].
        rewrite (IH ch pruned (path ++ [i]) x Hch Ex), He. reflexivity. }
    destruct (Hk 0%nat refs' Ego) as (Hl & He).
    rewrite He, Hl.
    match goal with |- bind ?X _ = bind ?X _ => destruct X as [ks|?|?]; cbn [bind]; try reflexivity end.
    apply level_repr_mask0.
Qed.

(** every pruned branch cell stores the level-0 hash and depth of the subtree
    it replaces *)
Theorem pruned_branch_stores special ty m data refs pruned path c' :
  is_merkle special ty = false -> pruned path = true ->
  prune H pruned path (Cell special ty m data refs) = Ok c' ->
  exists h d, hd_at H (Cell special ty m data refs) 0 = Ok (h, d) /\ c' = pruned_cell h d.
Proof.
  intros Hm Hp Hpr. cbn [prune] in Hpr. rewrite Hm, Hp in Hpr.
  destruct (hd_at H (Cell special ty m data refs) 0) as [[h d]|?|?]; cbn [bind] in Hpr; try discriminate.
  injection Hpr as <-. eauto.
Qed.

(** the proof root is a Merkle-proof cell carrying the hash and depth of the
    original root; the pruned tree under it has exactly that level-0 hash and depth *)
Theorem proof_commits root pruned p :
  prunable_tree root -> create_proof H pruned root = Ok p ->
  exists h d body,
    hd_at H root 0 = Ok (h, d) /\
    p = Cell true T_MPROOF 0 (bits_of 8 3 ++ bytes_to_bits h ++ bits_of 16 d) [body] /\
    hd_at H body 0 = Ok (h, d).
Proof.
  intros Hpl Hcp. unfold create_proof in Hcp.
  destruct (prune H pruned [] root) as [body|?|?] eqn:Ep; cbn [bind] in Hcp; try discriminate.
  destruct (hd_at H root 0) as [[h d]|?|?] eqn:Eh; cbn [bind] in Hcp; try discriminate.
  injection Hcp as <-. exists h, d, body. split; [reflexivity|split; [reflexivity|]].
  rewrite (prune_level0 root pruned [] body Hpl Ep). exact Eh.
Qed.

End P.

(** *** unpruned paths keep their data: the value can be read from the proof *)
Fixpoint subcell (c : cell) (path : list nat) : option cell :=
  match path with
  | [] => Some c
  | i :: t => match nth_error (cell_refs c) i with Some ch => subcell ch t | None => None end
  end.

Section Q.
Variable H : bytes -> bytes.

Lemma prune_refs_nth pruned path refs : forall i refs' k ch,
  (fix go (i : nat) (rs : list cell) {struct rs} : res (list cell) :=
     match rs with
     | [] => Ok []
     | ch :: t => do x <- prune H pruned (path ++ [i]) ch; do xs <- go (S i) t; Ok (x :: xs)
     end) i refs = Ok refs' ->
  nth_error refs k = Some ch ->
  exists ch', nth_error refs' k = Some ch' /\ prune H pruned (path ++ [i + k]) ch = Ok ch'.
Proof.
  induction refs as [|x t IHt]; intros i refs' k ch Hgo Hk; [destruct k; discriminate|].
  destruct (prune H pruned (path ++ [i]) x) as [x'|?|?] eqn:Ex; cbn [bind] in Hgo; try discriminate.
  match type of Hgo with bind ?X _ = _ => destruct X as [xs|?|?] eqn:Exs end; cbn [bind] in Hgo; try discriminate.
  injection Hgo as <-. destruct k as [|k].
  - injection Hk as <-. exists x'. rewrite Nat.add_0_r. auto.
  - cbn [nth_error] in *. destruct (IHt (S i) xs k ch Exs Hk) as (ch' & E1 & E2).
    exists ch'. split; [exact E1|]. replace (i + S k)%nat with (S i + k)%nat by lia. exact E2.
Qed.

(* if no prefix of the path (the path itself included) is pruned, the cell at
   that path in the pruned tree has the same data bits *)
Theorem unpruned_path_keeps_data : forall sub c pruned path c' x,
  prune H pruned path c = Ok c' ->
  (forall k, (k <= length sub)%nat -> pruned (path ++ firstn k sub) = false) ->
  subcell c sub = Some x ->
  exists x', subcell c' sub = Some x' /\ cell_bits x' = cell_bits x /\
             length (cell_refs x') = length (cell_refs x).
Proof.
  induction sub as [|i t IHs]; intros c pruned path c' x Hpr Hnp Hsub.
  - cbn [subcell] in *. injection Hsub as <-.
    specialize (Hnp 0%nat ltac:(lia)). cbn [firstn] in Hnp. rewrite app_nil_r in Hnp.
    destruct c as [special ty m data refs]. cbn [prune] in Hpr.
    destruct (is_merkle special ty); [discriminate|]. rewrite Hnp in Hpr.
    match type of Hpr with bind ?X _ = _ => destruct X as [refs'|?|?] eqn:Ego end; cbn [bind] in Hpr; try discriminate.
    injection Hpr as <-. eexists. split; [reflexivity|]. cbn [cell_bits cell_refs]. split; [reflexivity|].
    clear - Ego. revert refs' Ego. generalize 0%nat.
    induction refs as [|r rs IHr]; intros n refs' Ego.
    + injection Ego as <-. reflexivity.
    + destruct (prune H pruned (path ++ [n]) r); cbn [bind] in Ego; try discriminate.
      match type of Ego with bind ?X _ = _ => destruct X as [xs|?|?] eqn:Exs end; cbn [bind] in Ego; try discriminate.
      injection Ego as <-. cbn [length]. f_equal. eapply IHr. exact Exs.
  - cbn [subcell] in Hsub.
    destruct (nth_error (cell_refs c) i) as [ch|] eqn:En; [|discriminate].
    pose proof (Hnp 0%nat ltac:(lia)) as Hnp0. cbn [firstn] in Hnp0. rewrite app_nil_r in Hnp0.
    destruct c as [special ty m data refs]. cbn [prune cell_refs] in *.
    destruct (is_merkle special ty); [discriminate|]. rewrite Hnp0 in Hpr.
    match type of Hpr with bind ?X _ = _ => destruct X as [refs'|?|?] eqn:Ego end; cbn [bind] in Hpr; try discriminate.
    injection Hpr as <-.
    destruct (prune_refs_nth pruned path refs 0%nat refs' i ch Ego En) as (ch' & E1 & E2).
    cbn [Nat.add] in E2.
    destruct (IHs ch pruned (path ++ [i]) ch' x E2) as (x' & S1 & S2).
    + intros k Hk. specialize (Hnp (S k) ltac:(cbn [length]; lia)).
      cbn [firstn] in Hnp. rewrite <- app_assoc. exact Hnp.
    + exact Hsub.
    + exists x'. cbn [subcell cell_refs]. rewrite E1. auto.
Qed.

End Q.

(** *** histories over one prover
    The Go prover keeps the root only and every [Cursor()] starts with an empty
    pruned set, so in the model an operation is a function of (root,
    operation) and these two facts are immediate; their content is the
    correspondence run, which uses ONE Go prover for the whole history and
    compares every result with [run_op] of that operation alone. *)
Section Hist.
Variable H : bytes -> bytes.
Variable same : list nat -> list nat -> bool.

Lemma prover_run_map root ops : prover_run H same root ops = map (run_op H same root) ops.
Proof. induction ops as [|o t IHt]; [reflexivity|]. cbn [prover_run prover_step map]. rewrite IHt. reflexivity. Qed.

Theorem history_independent root before o after :
  nth_error (prover_run H same root (before ++ o :: after)) (length before) =
  Some (run_op H same root o) /\
  prover_run H same root [o] = [run_op H same root o].
Proof.
  split; [|reflexivity]. rewrite prover_run_map, map_app. cbn [map].
  rewrite nth_error_app2 by (rewrite map_length; lia).
  rewrite map_length, Nat.sub_diag. reflexivity.
Qed.
End Hist.

(** *** the proof for a key keeps the path to its value
    Every position the walk of ProveKeyInHashmap prunes is the sibling at a
    fork of the path it follows, so no prefix of the path to the leaf is
    pruned: the leaf, with its label and value bits, is in the proof. *)
Lemma path_eqb_eq : forall a b, path_eqb a b = true -> a = b.
Proof.
  unfold path_eqb. induction a as [|x a IHa]; intros [|y b] E; try reflexivity; try discriminate.
  cbn [length combine forallb fst snd] in E. apply andb_prop in E. destruct E as (El & Ef).
  apply andb_prop in Ef. destruct Ef as (Exy & Ef). apply Nat.eqb_eq in Exy. subst y.
  f_equal. apply IHa. cbn [Nat.eqb] in El. rewrite El, Ef. reflexivity.
Qed.

Definition forks_off (path tail q : list nat) : Prop :=
  exists pre b b' rest, q = path ++ pre ++ [b] /\ tail = pre ++ b' :: rest /\ b <> b'.

Lemma prove_walk_inv : forall fuel c key remaining keysize prefix path acc pruned leaf rest prefix',
  prove_walk fuel c key remaining keysize prefix path acc = Ok (pruned, leaf, rest, prefix') ->
  exists tail x m lab,
    leaf = path ++ tail /\ subcell c tail = Some x /\ cell_special x = false /\
    load_label m (cell_bits x) = Some (lab, rest) /\
    (forall q, In q pruned -> In q acc \/ forks_off path tail q).
Proof.
  induction fuel as [|f IHf]; intros c key remaining keysize prefix path acc pruned leaf rest prefix' Hw;
    [discriminate|].
  cbn [prove_walk] in Hw.
  destruct (cell_special c) eqn:Esp; [discriminate|].
  destruct (load_label remaining (cell_bits c)) as [[lab rst]|] eqn:El; [|discriminate].
  destruct (keysize <? length (prefix ++ lab))%nat; [discriminate|].
  destruct (remaining <=? length lab)%nat.
  - injection Hw as <- <- <- <-. exists [], c, remaining, lab.
    rewrite app_nil_r. repeat split; auto.
  - destruct (short (S (length lab)) key); [discriminate|].
    destruct (keysize <? S (length (prefix ++ lab)))%nat; [discriminate|].
    destruct (cell_refs c) as [|l [|r rs]] eqn:Er; [discriminate|destruct (nth (length lab) key false); discriminate|].
    destruct (nth (length lab) key false).
    + destruct (IHf _ _ _ _ _ _ _ _ _ _ _ Hw) as (tail & x & m & lab' & E1 & E2 & E3 & E4 & E5).
      exists (1%nat :: tail), x, m, lab'. rewrite <- app_assoc in E1. split; [exact E1|].
      split; [cbn [subcell]; rewrite Er; exact E2|]. split; [exact E3|]. split; [exact E4|].
      intros q Hq. destruct (E5 q Hq) as [Hin|(pre & b & b' & rest' & Q1 & Q2 & Q3)].
      * apply in_app_or in Hin. destruct Hin as [Hin|[<-|[]]]; [left; exact Hin|].
        right. exists [], 0%nat, 1%nat, tail. repeat split; auto.
      * right. exists (1%nat :: pre), b, b', rest'. subst q tail. rewrite <- app_assoc. repeat split; auto.
    + destruct (IHf _ _ _ _ _ _ _ _ _ _ _ Hw) as (tail & x & m & lab' & E1 & E2 & E3 & E4 & E5).
      exists (0%nat :: tail), x, m, lab'. rewrite <- app_assoc in E1. split; [exact E1|].
      split; [cbn [subcell]; rewrite Er; exact E2|]. split; [exact E3|]. split; [exact E4|].
      intros q Hq. destruct (E5 q Hq) as [Hin|(pre & b & b' & rest' & Q1 & Q2 & Q3)].
      * apply in_app_or in Hin. destruct Hin as [Hin|[<-|[]]]; [left; exact Hin|].
        right. exists [], 1%nat, 0%nat, tail. repeat split; auto.
      * right. exists (0%nat :: pre), b, b', rest'. subst q tail. rewrite <- app_assoc. repeat split; auto.
Qed.

Lemma forks_off_not_prefix tail q k : forks_off [] tail q -> firstn k tail <> q.
Proof.
  intros (pre & b & b' & rest & Q1 & Q2 & Q3) E. cbn [app] in Q1. subst q.
  pose proof (firstn_skipn k tail) as Hs. rewrite E, Q2, <- app_assoc in Hs.
  apply app_inv_head in Hs. cbn [app] in Hs. injection Hs as Hb _. exact (Q3 Hb).
Qed.

Section KeyReveals.
Variable H : bytes -> bytes.

Theorem key_proof_reveals root key vbits p :
  prove_key H root key vbits = Ok p ->
  exists data body leaf x x' m lab rest,
    p = Cell true T_MPROOF 0 data [body] /\
    subcell root leaf = Some x /\ cell_special x = false /\
    load_label m (cell_bits x) = Some (lab, rest) /\ short vbits rest = false /\
    subcell body leaf = Some x' /\ cell_bits x' = cell_bits x.
Proof.
  intros Hp. unfold prove_key in Hp.
  destruct (prove_walk _ _ _ _ _ _ _ _) as [[[[pruned leaf] rest] prefix]|?|?] eqn:Ew; cbn [bind] in Hp; try discriminate.
  destruct (short vbits rest) eqn:Ev; [discriminate|].
  destruct (short (length key) prefix); [discriminate|].
  destruct (negb _); [discriminate|].
  unfold create_proof in Hp.
  destruct (prune H (in_paths pruned) [] root) as [body|?|?] eqn:Ep; cbn [bind] in Hp; try discriminate.
  destruct (hd_at H root 0) as [hd|?|?]; cbn [bind] in Hp; try discriminate.
  injection Hp as <-.
  destruct (prove_walk_inv _ _ _ _ _ _ _ _ _ _ _ _ Ew) as (tail & x & m & lab & E1 & E2 & E3 & E4 & E5).
  cbn [app] in E1. subst tail.
  destruct (unpruned_path_keeps_data H leaf root (in_paths pruned) [] body x Ep) as (x' & S1 & S2 & _).
  - intros k _. cbn [app]. unfold in_paths.
    destruct (existsb (path_eqb (firstn k leaf)) pruned) eqn:Ex; [|reflexivity].
    apply existsb_exists in Ex. destruct Ex as (q & Hq & Heq). apply path_eqb_eq in Heq.
    destruct (E5 q Hq) as [[]|Hf]. exfalso. exact (forks_off_not_prefix leaf q k Hf Heq).
  - exact E2.
  - exists (bits_of 8 3 ++ bytes_to_bits (fst hd) ++ bits_of 16 (snd hd)), body, leaf, x, x', m, lab, rest.
    split; [reflexivity|]. split; [exact E2|]. split; [exact E3|]. split; [exact E4|].
    split; [exact Ev|]. split; [exact S1|exact S2].
Qed.
End KeyReveals.
