(** C18: pruning preserves the level-0 hash and depth, pruned branches store the
    hash/depth of what they replace, the proof root commits to the original
    root, unpruned paths keep their data. *)
From Coq Require Import List NArith Arith Lia Bool.
From Tongo Require Import Lib.Bits Lib.Res Model.BocParse Model.CellHash Spec.ReprHash Model.Merkle.
Import ListNotations.

Definition byte_list (l : bytes) : Prop := Forall (fun b => b < 256)%N l.

Section P.
Variable H : bytes -> bytes.
Hypothesis H_len : forall x, length (H x) = 32%nat.
Hypothesis H_bytes : forall x, byte_list (H x).

(** reading bytes back from byte-aligned bit strings *)
Lemma bits_bytes_cons n b l :
  (b < 256)%N -> bits_bytes (S n) (bits_of 8 b ++ l) = b :: bits_bytes n l.
Proof.
  intros Hb. cbn [bits_bytes].
  assert (L8 : length (bits_of 8 b) = 8%nat) by apply bits_of_length.
  rewrite <- app_assoc.
  rewrite <- L8 at 1. rewrite firstn_app_exact.
  rewrite <- L8 at 2. rewrite skipn_app_exact.
  rewrite N_of_bits_bits_of_small by exact Hb. reflexivity.
Qed.

Lemma bits_bytes_bytes n h l :
  byte_list h -> bits_bytes (length h + n) (bytes_to_bits h ++ l) = h ++ bits_bytes n l.
Proof.
  intros Hh. induction Hh as [|b t Hb Ht IH]; [reflexivity|].
  cbn [bytes_to_bits length Nat.add app]. rewrite <- app_assoc.
  rewrite bits_bytes_cons by exact Hb. rewrite IH. reflexivity.
Qed.

Lemma bits_of_16 d : (d < 65536)%N -> bits_of 16 d = bits_of 8 (d / 256) ++ bits_of 8 (d mod 256).
Proof.
  intros Hd. change 16%nat with (8 + 8)%nat. rewrite bits_of_app.
  change (2 ^ N.of_nat 8)%N with 256%N. f_equal.
  apply N_of_bits_inj; [rewrite !bits_of_length; reflexivity|].
  rewrite !N_of_bits_bits_of. change (2 ^ N.of_nat 8)%N with 256%N.
  rewrite N.mod_mod by lia. reflexivity.
Qed.

(* the buffer of a pruned branch cell built by pruneCells *)
Lemma pruned_buf h d :
  length h = 32%nat -> byte_list h -> (d < 65536)%N ->
  exists tail, buf_bytes (bits_of 8 1 ++ bits_of 8 1 ++ bytes_to_bits h ++ bits_of 16 d)
               = 1%N :: 1%N :: h ++ (d / 256)%N :: (d mod 256)%N :: tail.
Proof.
  intros Hl Hb Hd. unfold buf_bytes.
  change 128%nat with (S (S (32 + 94))).
  rewrite bits_bytes_cons by lia. rewrite bits_bytes_cons by lia.
  rewrite <- Hl. rewrite bits_bytes_bytes by exact Hb.
  rewrite bits_of_16 by exact Hd.
  change 94%nat with (S (S 92)).
  assert (d / 256 < 256)%N by (apply N.div_lt_upper_bound; lia).
  assert (d mod 256 < 256)%N by (apply N.mod_lt; lia).
  rewrite bits_bytes_cons by assumption.
  rewrite <- (app_nil_r (bits_of 8 (d mod 256))).
  rewrite bits_bytes_cons by assumption.
  eexists. reflexivity.
Qed.

(** the level-0 answer of a pruned branch cell is what it stores *)
Lemma pruned_cell_level0 h d :
  length h = 32%nat -> byte_list h -> (d < 65536)%N ->
  hd_at H (pruned_cell h d) 0 = Ok (h, d).
Proof.
  intros Hl Hb Hd. unfold pruned_cell. cbn [hd_at].
  change (is_pruned true T_PRUNED) with true. cbv iota.
  change (0 <? mask_level 1)%nat with true. cbv iota.
  change (mask_popcount (mask_apply 1 0)) with 0%nat.
  unfold stored_depth, stored_hash.
  change (mask_popcount 1) with 1%nat.
  destruct (pruned_buf h d Hl Hb Hd) as (tail & ->).
  change (2 + 32 * 0)%nat with 2%nat. change (2 + 32 * 1 + 2 * 0)%nat with (S (S 32)).
  set (R := (d / 256)%N :: (d mod 256)%N :: tail).
  change (skipn (S (S 32)) (1%N :: 1%N :: h ++ R)) with (skipn 32 (h ++ R)).
  change (skipn 2 (1%N :: 1%N :: h ++ R)) with (h ++ R).
  rewrite <- Hl.
  rewrite skipn_app_exact. rewrite firstn_app_exact. unfold R. cbn [bind].
  f_equal. f_equal.
  rewrite N.mul_comm. symmetry. apply N.div_mod. lia.
Qed.

(** shape of level-0 answers: a 32-byte hash and a 16-bit depth *)
Definition plain (special : bool) (ty : N) : Prop :=
  is_pruned special ty = false /\ is_merkle special ty = false.

Fixpoint plain_tree (c : cell) : Prop :=
  match c with
  | Cell special ty _ _ refs =>
      plain special ty /\
      (fix all (rs : list cell) : Prop := match rs with [] => True | x :: t => plain_tree x /\ all t end) refs
  end.

Lemma level_repr_shape special m data nrefs j prev ks h d :
  level_repr H special m data nrefs j prev ks = Ok (h, d) ->
  length h = 32%nat /\ byte_list h /\ (d <= 1024)%N.
Proof.
  unfold level_repr.
  destruct (negb (nrefs =? 0) && (1024 <=? fold_left N.max (map snd ks) 0)%N) eqn:E; [discriminate|].
  intros Heq. injection Heq as <- <-. split; [apply H_len|split; [apply H_bytes|]].
  destruct (Nat.eqb nrefs 0); [lia|]. cbn [negb andb] in E. apply N.leb_gt in E. lia.
Qed.

Lemma plain_level0 special ty m data refs :
  plain special ty ->
  hd_at H (Cell special ty m data refs) 0 =
  do ks <- (fix go (rs : list cell) : res (list (bytes * N)) :=
              match rs with
              | [] => Ok []
              | ch :: t =>
                  match hd_at H ch 0 with
                  | Ok x => match go t with Ok xs => Ok (x :: xs) | Err e => Err e | Panic p => Panic p end
                  | Err e => Err e
                  | Panic p => Panic p
                  end
              end) refs;
  level_repr H special m data (length refs) 0 None ks.
Proof.
  intros (Hp & Hm). cbn [hd_at]. rewrite Hp, Hm. reflexivity.
Qed.

Lemma level_repr_mask0 special m m' data nrefs ks :
  level_repr H special m data nrefs 0 None ks = level_repr H special m' data nrefs 0 None ks.
Proof.
  unfold level_repr. unfold mask_apply. change (2 ^ N.of_nat 0 - 1)%N with 0%N.
  rewrite !N.land_0_r. reflexivity.
Qed.

(** *** pruning preserves the level-0 hash and depth *)
Theorem prune_level0 : forall c pruned path c',
  plain_tree c -> prune H pruned path c = Ok c' -> hd_at H c' 0 = hd_at H c 0.
Proof.
  fix IH 1. intros c pruned path c' Hpl Hpr.
  destruct c as [special ty m data refs]. cbn [plain_tree] in Hpl. destruct Hpl as (Hplain & Hall).
  cbn [prune] in Hpr. destruct Hplain as (Hp & Hm). rewrite Hm in Hpr.
  destruct (pruned path).
  - (* replaced by a pruned branch *)
    destruct (hd_at H (Cell special ty m data refs) 0) as [[h d]|e|p] eqn:Ehd; cbn [bind] in Hpr; try discriminate.
    injection Hpr as <-. cbn [fst snd].
    rewrite (plain_level0 _ _ _ _ _ (conj Hp Hm)) in Ehd.
    match type of Ehd with bind ?X _ = _ => destruct X as [ks|?|?] end; cbn [bind] in Ehd; try discriminate.
    destruct (level_repr_shape _ _ _ _ _ _ _ _ _ Ehd) as (L & B & D).
    apply pruned_cell_level0; [exact L|exact B|lia].
  - (* kept: children pruned recursively *)
    match type of Hpr with bind ?X _ = _ => destruct X as [refs'|?|?] eqn:Ego end; cbn [bind] in Hpr; try discriminate.
    injection Hpr as <-.
    rewrite !(plain_level0 _ _ _ _ _ (conj Hp Hm)).
    (* the children's level-0 answers coincide, and there are equally many *)
    assert (Hk : forall i refs' ,
      (fix go (i : nat) (rs : list cell) {struct rs} : res (list cell) :=
         match rs with
         | [] => Ok []
         | ch :: t => do x <- prune H pruned (path ++ [i]) ch; do xs <- go (S i) t; Ok (x :: xs)
         end) i refs = Ok refs' ->
      length refs' = length refs /\
      (fix go (rs : list cell) : res (list (bytes * N)) :=
         match rs with
         | [] => Ok []
         | ch :: t =>
             match hd_at H ch 0 with
             | Ok x => match go t with Ok xs => Ok (x :: xs) | Err e => Err e | Panic p => Panic p end
             | Err e => Err e | Panic p => Panic p
             end
         end) refs' =
      (fix go (rs : list cell) : res (list (bytes * N)) :=
         match rs with
         | [] => Ok []
         | ch :: t =>
             match hd_at H ch 0 with
             | Ok x => match go t with Ok xs => Ok (x :: xs) | Err e => Err e | Panic p => Panic p end
             | Err e => Err e | Panic p => Panic p
             end
         end) refs).
    { clear Ego. induction refs as [|ch t IHt]; intros i rs Hgo.
      - injection Hgo as <-. split; reflexivity.
      - destruct Hall as (Hch & Ht).
        destruct (prune H pruned (path ++ [i]) ch) as [x|?|?] eqn:Ex; cbn [bind] in Hgo; try discriminate.
        match type of Hgo with bind ?X _ = _ => destruct X as [xs|?|?] eqn:Exs end; cbn [bind] in Hgo; try discriminate.
        injection Hgo as <-.
        destruct (IHt Ht (S i) xs Exs) as (Hl & He).
        split; [cbn [length]; lia|].
        rewrite (IH ch pruned (path ++ [i]) x Hch Ex), He. reflexivity. }
    destruct (Hk 0%nat refs' Ego) as (Hl & He).
    rewrite He, Hl.
    match goal with |- bind ?X _ = bind ?X _ => destruct X as [ks|?|?]; cbn [bind]; try reflexivity end.
    apply level_repr_mask0.
Qed.

(** every pruned branch cell stores the level-0 hash and depth of the subtree
    it replaces *)
Theorem pruned_branch_stores special ty m data refs pruned path c' :
  is_merkle special ty = false -> pruned path = true ->
  prune H pruned path (Cell special ty m data refs) = Ok c' ->
  exists h d, hd_at H (Cell special ty m data refs) 0 = Ok (h, d) /\ c' = pruned_cell h d.
Proof.
  intros Hm Hp Hpr. cbn [prune] in Hpr. rewrite Hm, Hp in Hpr.
  destruct (hd_at H (Cell special ty m data refs) 0) as [[h d]|?|?]; cbn [bind] in Hpr; try discriminate.
  injection Hpr as <-. eauto.
Qed.

(** the proof root is a Merkle-proof cell carrying the hash and depth of the
    original root; the pruned tree under it has exactly that level-0 hash and depth *)
Theorem proof_commits root pruned p :
  plain_tree root -> create_proof H pruned root = Ok p ->
  exists h d body,
    hd_at H root 0 = Ok (h, d) /\
    p = Cell true T_MPROOF 0 (bits_of 8 3 ++ bytes_to_bits h ++ bits_of 16 d) [body] /\
    hd_at H body 0 = Ok (h, d).
Proof.
  intros Hpl Hcp. unfold create_proof in Hcp.
  destruct (prune H pruned [] root) as [body|?|?] eqn:Ep; cbn [bind] in Hcp; try discriminate.
  destruct (hd_at H root 0) as [[h d]|?|?] eqn:Eh; cbn [bind] in Hcp; try discriminate.
  injection Hcp as <-. exists h, d, body. split; [reflexivity|split; [reflexivity|]].
  rewrite (prune_level0 root pruned [] body Hpl Ep). exact Eh.
Qed.

End P.

(** *** unpruned paths keep their data: the value can be read from the proof *)
Fixpoint subcell (c : cell) (path : list nat) : option cell :=
  match path with
  | [] => Some c
  | i :: t => match nth_error (cell_refs c) i with Some ch => subcell ch t | None => None end
  end.

Section Q.
Variable H : bytes -> bytes.

Lemma prune_refs_nth pruned path refs : forall i refs' k ch,
  (fix go (i : nat) (rs : list cell) {struct rs} : res (list cell) :=
     match rs with
     | [] => Ok []
     | ch :: t => do x <- prune H pruned (path ++ [i]) ch; do xs <- go (S i) t; Ok (x :: xs)
     end) i refs = Ok refs' ->
  nth_error refs k = Some ch ->
  exists ch', nth_error refs' k = Some ch' /\ prune H pruned (path ++ [i + k]) ch = Ok ch'.
Proof.
  induction refs as [|x t IHt]; intros i refs' k ch Hgo Hk; [destruct k; discriminate|].
  destruct (prune H pruned (path ++ [i]) x) as [x'|?|?] eqn:Ex; cbn [bind] in Hgo; try discriminate.
  match type of Hgo with bind ?X _ = _ => destruct X as [xs|?|?] eqn:Exs end; cbn [bind] in Hgo; try discriminate.
  injection Hgo as <-. destruct k as [|k].
  - injection Hk as <-. exists x'. rewrite Nat.add_0_r. auto.
  - cbn [nth_error] in *. destruct (IHt (S i) xs k ch Exs Hk) as (ch' & E1 & E2).
    exists ch'. split; [exact E1|]. replace (i + S k)%nat with (S i + k)%nat by lia. exact E2.
Qed.

(* if no prefix of the path (the path itself included) is pruned, the cell at
   that path in the pruned tree has the same data bits *)
Theorem unpruned_path_keeps_data : forall sub c pruned path c' x,
  prune H pruned path c = Ok c' ->
  (forall k, (k <= length sub)%nat -> pruned (path ++ firstn k sub) = false) ->
  subcell c sub = Some x ->
  exists x', subcell c' sub = Some x' /\ cell_bits x' = cell_bits x /\
             length (cell_refs x') = length (cell_refs x).
Proof.
  induction sub as [|i t IHs]; intros c pruned path c' x Hpr Hnp Hsub.
  - cbn [subcell] in *. injection Hsub as <-.
    specialize (Hnp 0%nat ltac:(lia)). cbn [firstn] in Hnp. rewrite app_nil_r in Hnp.
    destruct c as [special ty m data refs]. cbn [prune] in Hpr.
    destruct (is_merkle special ty); [discriminate|]. rewrite Hnp in Hpr.
    match type of Hpr with bind ?X _ = _ => destruct X as [refs'|?|?] eqn:Ego end; cbn [bind] in Hpr; try discriminate.
    injection Hpr as <-. eexists. split; [reflexivity|]. cbn [cell_bits cell_refs]. split; [reflexivity|].
    clear - Ego. revert refs' Ego. generalize 0%nat.
    induction refs as [|r rs IHr]; intros n refs' Ego.
    + injection Ego as <-. reflexivity.
    + destruct (prune H pruned (path ++ [n]) r); cbn [bind] in Ego; try discriminate.
      match type of Ego with bind ?X _ = _ => destruct X as [xs|?|?] eqn:Exs end; cbn [bind] in Ego; try discriminate.
      injection Ego as <-. cbn [length]. f_equal. eapply IHr. exact Exs.
  - cbn [subcell] in Hsub.
    destruct (nth_error (cell_refs c) i) as [ch|] eqn:En; [|discriminate].
    pose proof (Hnp 0%nat ltac:(lia)) as Hnp0. cbn [firstn] in Hnp0. rewrite app_nil_r in Hnp0.
    destruct c as [special ty m data refs]. cbn [prune cell_refs] in *.
    destruct (is_merkle special ty); [discriminate|]. rewrite Hnp0 in Hpr.
    match type of Hpr with bind ?X _ = _ => destruct X as [refs'|?|?] eqn:Ego end; cbn [bind] in Hpr; try discriminate.
    injection Hpr as <-.
    destruct (prune_refs_nth pruned path refs 0%nat refs' i ch Ego En) as (ch' & E1 & E2).
    cbn [Nat.add] in E2.
    destruct (IHs ch pruned (path ++ [i]) ch' x E2) as (x' & S1 & S2).
    + intros k Hk. specialize (Hnp (S k) ltac:(cbn [length]; lia)).
      cbn [firstn] in Hnp. rewrite <- app_assoc. exact Hnp.
    + exact Hsub.
    + exists x'. cbn [subcell cell_refs]. rewrite E1. auto.
Qed.

End Q.
