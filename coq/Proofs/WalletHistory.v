(** The behaviour of package wallet BEFORE the two repairs made for C14/C15,
    kept so that the defects re-appearing is understood (the regression inputs
    are in corpus/C14 and corpus/C15).

    F11 (C14): PayloadHighload.MarshalTLB always wrote hme_root$1 and a reference
    to the marshalled Hashmap; for no messages that is a reference to an EMPTY
    cell, which Hashmap.UnmarshalTLB cannot read ("not enough bits").
    F10 (C15): the confirmation loop of RawSendV2 had `if err == nil { continue }`,
    i.e. it looked at the seqno only when GetSeqno FAILED. *)
From Coq Require Import List NArith ZArith Arith Bool Lia.
From Tongo Require Import Lib.Bits Lib.Res Model.BocParse Model.CellHash Spec.ReprHash Model.Wallet
  Model.WalletSend Proofs.WalletP Proofs.WalletRtP.
From Tongo Require Spec.Dict Model.Hashmap Model.WalletTransfer.
Import ListNotations.

(** *** F11 *)
Definition body_hl_empty_before_fix (sub : N) (valid : Z) (rnd : N) : res cell :=
  mk (u32 sub ++ u64 (hl_query valid rnd) ++ [true]) [ocell [] []].

(* the library could not decode its own highload body without messages,
   whatever the signature *)
Lemma highload_empty_before_fix sub valid rnd sg u :
  length sg = 512%nat -> body_hl_empty_before_fix sub valid rnd = Ok u ->
  decode_hl (ocell (sg ++ cdata u) (crefs u)) = Err ENotEnoughBits.
Proof.
  intros Hs Hu. unfold body_hl_empty_before_fix in Hu. apply mk_ok in Hu. destruct Hu as (-> & _).
  unfold decode_hl. cbn [cdata crefs ocell]. rewrite split_signed_app by exact Hs.
  cbn [bind fst snd cdata crefs ocell].
  rewrite (take_app_n 32) by apply u32_len. cbn [bind fst snd].
  rewrite (take_app_n 64) by apply u64_len. cbn [bind fst snd].
  rewrite (take_all 1) by reflexivity. cbn [bind fst snd nth first_ref]. reflexivity.
Qed.

(* the repaired encoder writes hme_empty$0 *)
Lemma highload_empty_after_fix sub valid rnd :
  body_hl sub valid rnd [] = mk (u32 sub ++ u64 (hl_query valid rnd) ++ [false]) [].
Proof. unfold body_hl. cbn [length Nat.ltb Nat.leb hl_entries]. rewrite <- app_assoc. reflexivity. Qed.

(** *** F10: a poll is (elapsed time, answer); on an error the Go value of
    newSeqno is what the interface returned next to the error (0 for every
    implementation in the repository) *)
Fixpoint confirm_before_fix (wait : Z) (sent : N) (h : list poll) : bool :=
  match h with
  | [] => false
  | (t, a) :: rest =>
      if (t <? wait)%Z then
        match a with
        | Some _ => confirm_before_fix wait sent rest          (* err == nil: continue *)
        | None => if (sent <? 0)%N then true else confirm_before_fix wait sent rest
        end
      else false
  end.

(* it never confirmed, although e.g. the very first poll reports an advanced seqno *)
Lemma confirm_before_fix_never wait sent h : confirm_before_fix wait sent h = false.
Proof.
  induction h as [|[t a] rest IH]; [reflexivity|]. cbn [confirm_before_fix].
  destruct (t <? wait)%Z; [|reflexivity]. destruct a; [exact IH|].
  replace (sent <? 0)%N with false by (symmetry; apply N.ltb_ge; lia). exact IH.
Qed.

Example confirm_before_fix_witness :
  confirm 200 0 [(0%Z, Some 1%N)] = true /\ confirm_before_fix 200 0 [(0%Z, Some 1%N)] = false.
Proof. split; reflexivity. Qed.

(** *** round 3: two designs that differ from the library's, refuted.

    (a) CreateMessageBody taking the package constant DefaultMessageLifetime for
    the default expiry instead of the wallet's configured lifetime: the signed
    expiry differs from what Send/SendV2 sign for the same wallet. *)
Lemma constant_lifetime_design_refuted :
  exists life now, unix32 (expiry now default_lifetime_ns) <> unix32 (expiry now (lifetime_of (Some life))).
Proof. exists 30000000000%Z, 0%Z. vm_compute. discriminate. Qed.

(** (b) a wallet that memoises its StateInit and hands the cached value out by
    pointer: the caller's in-place change of a returned value reaches every later
    answer.  State = the cached value (Some = built and aliased by the caller). *)
Section Memo.
Variable code : version -> cell.
Variable chash : cell -> res bytes.

Definition memo_step (w : wallet) (cache : option cell) (op : wop) : option cell * wans :=
  match op with
  | OStateInit =>
      match cache with
      | Some c => (cache, AInit (Ok c))
      | None => match state_init code w with
                | Ok si => (Some si, AInit (Ok si))
                | r => (None, AInit r)
                end
      end
  | OMutate c => (match cache with Some _ => Some c | None => None end, ADone)
  | OAddress => (cache, AAddr (address code chash w))
  | ONext a =>
      match next_params code w a with
      | Ok (s, Some si) => let c := match cache with Some c => c | None => si end in
                           (Some c, ANextP (Ok (s, Some c)))
      | r => (cache, ANextP r)
      end
  | ORekey _ => (cache, ADone)
  end.
Definition memo_design : design := mkdesign (option cell) None memo_step.

(* StateInit(), overwrite the returned value, StateInit() again / send to a
   non-existent account: the later answers are the caller's value, not the
   wallet's state-init *)
Lemma memoising_design_refuted w si c :
  state_init code w = Ok si -> c <> si ->
  w_ver w = V4R2 ->
  run_design memo_design w None [OStateInit; OMutate c; OStateInit; ONext ANone]
  <> map (fresh_answer code chash w) [OStateInit; OMutate c; OStateInit; ONext ANone].
Proof.
  intros Hs Hne Hv H. apply (f_equal (fun l => nth 2 l ADone)) in H.
  cbn [run_design memo_design d_step map fst snd nth fresh_answer] in H.
  unfold memo_step in H. rewrite Hs in H. cbn [fst snd] in H.
  injection H as H. contradiction.
Qed.

End Memo.

(** *** round 4.  (a) ContractDeploy.ToInternal addressing the deployment to
    workchain 0 whatever workchain was requested: the carried message differs
    from the requested transfer as soon as the workchain is not 0. *)
Lemma deploy_drops_workchain_refuted :
  forall chash code data body amount t t0,
  WalletTransfer.deploy_transfer chash (-1) (Some code) (Some data) body amount = Ok t ->
  WalletTransfer.deploy_transfer chash 0 (Some code) (Some data) body amount = Ok t0 ->
  t <> t0.
Proof.
  intros chash code data body amount t t0 H H0. unfold WalletTransfer.deploy_transfer in *.
  destruct (chash _) as [h| |]; try discriminate. cbn [bind] in *. injection H as <-. injection H0 as <-.
  intros E. apply (f_equal WalletTransfer.t_wc) in E. discriminate.
Qed.

(** (b) New keeping a VIEW of the caller's private-key slice as the wallet's public
    key: the key the state-init is built from is read when the call is made, so
    the caller reusing its key buffer changes every later state-init (the address,
    computed once in New, stays). *)
Section Alias.
Variable code : version -> cell.
Variable chash : cell -> res bytes.

Definition with_pk (w : wallet) (pk : bits) : wallet :=
  mkw (w_ver w) pk (w_wc w) (w_sub w) (w_net w) (w_wid w).

(* state = what the aliased buffer holds now *)
Definition alias_step (w : wallet) (pk : bits) (op : wop) : bits * wans :=
  match op with
  | OStateInit => (pk, AInit (state_init code (with_pk w pk)))
  | OMutate _ => (pk, ADone)
  | OAddress => (pk, AAddr (address code chash w))
  | ONext a => (pk, ANextP (next_params code (with_pk w pk) a))
  | ORekey pk' => (pk', ADone)
  end.
Definition alias_design (w : wallet) : design := mkdesign bits (w_pk w) alias_step.

Lemma key_aliasing_design_refuted w pk' :
  state_init code (with_pk w pk') <> state_init code w ->
  run_design (alias_design w) w (w_pk w) [ORekey pk'; OStateInit]
  <> map (fresh_answer code chash w) [ORekey pk'; OStateInit].
Proof.
  intros Hne H. cbn [run_design alias_design d_step alias_step map fst snd fresh_answer] in H.
  injection H as H. contradiction.
Qed.

End Alias.

(** *** round 5.  Account.Status() deciding from the state tag of the Account
    variant alone (outer tag ignored, empty tag = non-existent): after an active
    record, a poll that finds the account deleted still reports the stale active
    record, so the stale seqno is signed without state-init. *)
Definition var_status_inner (v : acct_var) : res acct :=
  match av_inner v with Some st => Ok st | None => Ok ANone end.

Lemma status_from_inner_tag_refuted :
  exists v rec, var_status_inner (decode_into v rec) <> Ok rec.
Proof.
  exists (decode_into fresh_var (AActive (ocell [] []))), ANone. cbn. discriminate.
Qed.

(* on fresh variables the two agree, which is why literals never show it *)
Lemma status_from_inner_tag_fresh rec : var_status_inner (decode_into fresh_var rec) = Ok rec.
Proof. destruct rec; reflexivity. Qed.

(** *** round 6.  Send / SendV2 treating send mode 0 as "not set" and signing
    the default mode 3 instead: the carried mode differs from the requested one
    (RawSend / RawSendV2 / CreateMessageBody keep 0, so the entry points disagree). *)
Definition zero_mode_as_unset (m : N) : N := if N.eqb m 0 then 3%N else m.

Lemma zero_mode_as_unset_refuted :
  exists t : WalletTransfer.transfer,
    zero_mode_as_unset (WalletTransfer.t_mode t) <> WalletTransfer.t_mode t.
Proof. exists (WalletTransfer.mktr 0 0 [] false None None 0). cbn. discriminate. Qed.
