(** Invariants of the wait-list protocol of the repaired code (Model/PoolWait.v):
    lock discipline, the holder of the pool lock can always move and frees the
    lock after finitely many moves of its own, callers that left their loop return,
    the best connection is always a connection of the pool. *)
From Coq Require Import List NArith ZArith Bool Arith Lia.
From Tongo Require Import Model.Pool Model.PoolWait Proofs.PoolP.
Import ListNotations.

Ltac sred :=
  cbn [head pend updq best readers writer wreq wl next_id rpc wpc wid wch wgot woff log
       set_head set_pend set_updq set_best set_readers set_writer set_wreq set_wl set_next_id
       set_rpc set_wpc set_wid set_wch set_wgot set_woff set_log fst snd] in *.

Lemma fupd_same {A} (f : nat -> A) i v : fupd f i v i = v.
Proof. unfold fupd. rewrite Nat.eqb_refl. reflexivity. Qed.

Lemma fupd_other {A} (f : nat -> A) i v j : j <> i -> fupd f i v j = f j.
Proof. unfold fupd. intros Hne. destruct (Nat.eqb_spec j i); [contradiction|reflexivity]. Qed.

(** case split on every [fupd f i v j] in sight *)
Ltac fu :=
  repeat match goal with
  | H : context [fupd _ ?i _ ?j] |- _ =>
      destruct (Nat.eq_dec j i) as [?|?];
      [subst; rewrite ?fupd_same in * | rewrite ?(fupd_other _ i _ j) in * by assumption]
  | |- context [fupd _ ?i _ ?j] =>
      destruct (Nat.eq_dec j i) as [?|?];
      [subst; rewrite ?fupd_same in * | rewrite ?(fupd_other _ i _ j) in * by assumption]
  end.

Lemma lock_free_true s : lock_free s = true -> readers s = 0 /\ writer s = None.
Proof.
  unfold lock_free. intros H. apply andb_true_iff in H as [Hr Hw].
  apply Nat.eqb_eq in Hr. destruct (writer s); [discriminate|auto].
Qed.

Lemma lock_free_intro s : readers s = 0 -> writer s = None -> lock_free s = true.
Proof. unfold lock_free. intros -> ->. reflexivity. Qed.

Lemma no_writer_true s : no_writer s = true -> writer s = None /\ wreq s = None.
Proof. unfold no_writer. destruct (writer s), (wreq s); try discriminate; auto. Qed.

Lemma no_writer_intro s : writer s = None -> wreq s = None -> no_writer s = true.
Proof. unfold no_writer. intros -> ->. reflexivity. Qed.

Lemma is_wreq_run s : is_wreq s ARun = true -> wreq s = Some ARun.
Proof. unfold is_wreq. destruct (wreq s) as [[|w]|]; congruence. Qed.

Lemma is_wreq_w s w : is_wreq s (AW w) = true -> wreq s = Some (AW w).
Proof.
  unfold is_wreq. destruct (wreq s) as [[|w']|]; try congruence.
  intros H. apply Nat.eqb_eq in H. congruence.
Qed.

Lemma is_writer_run s : is_writer s ARun = true -> writer s = Some ARun.
Proof. unfold is_writer. destruct (writer s) as [[|w]|]; congruence. Qed.

Lemma is_writer_w s w : is_writer s (AW w) = true -> writer s = Some (AW w).
Proof.
  unfold is_writer. destruct (writer s) as [[|w']|]; try congruence.
  intros H. apply Nat.eqb_eq in H. congruence.
Qed.

(** inversion of one step: one goal per (label, branch) with the guards as hypotheses *)
Ltac step_inv H :=
  unfold step in H; cbn [andb] in H;
  repeat match type of H with
  | context [match ?x with _ => _ end] => destruct x eqn:?
  end;
  try discriminate H;
  injection H as H; subst.

Ltac guards :=
  repeat match goal with
  | H : lock_free _ = true |- _ => apply lock_free_true in H as [? ?]
  | H : no_writer _ = true |- _ => apply no_writer_true in H as [? ?]
  | H : is_wreq _ ARun = true |- _ => apply is_wreq_run in H
  | H : is_wreq _ (AW _) = true |- _ => apply is_wreq_w in H
  | H : is_writer _ ARun = true |- _ => apply is_writer_run in H
  | H : is_writer _ (AW _) = true |- _ => apply is_writer_w in H
  | H : _ && _ = true |- _ => apply andb_true_iff in H as [? ?]
  | H : Nat.ltb _ _ = true |- _ => apply Nat.ltb_lt in H
  | H : Nat.leb _ _ = true |- _ => apply Nat.leb_le in H
  | H : Nat.ltb _ _ = false |- _ => apply Nat.ltb_ge in H
  end.

Section Inv.
  Variable strat : strategy.
  Variable nconns : nat.
  Variable tgt : nat -> N.
  (* the real code: no critical section takes p.mu again ([reent] = false) *)
  Notation step := (step strat false false nconns tgt).
  Notation run := (run strat false false nconns tgt).
  Notation reachable := (reachable strat false false nconns tgt).

  Lemma run_app ls1 : forall s ls2,
    run s (ls1 ++ ls2) = match run s ls1 with Some s1 => run s1 ls2 | None => None end.
  Proof.
    induction ls1 as [|l t IH]; intros s ls2; cbn [app PoolWait.run]; [reflexivity|].
    destruct (step s l); [apply IH|reflexivity].
  Qed.

  Lemma run_reachable ls : forall s0 s s',
    reachable s0 s -> run s ls = Some s' -> reachable s0 s'.
  Proof.
    induction ls as [|l t IH]; intros s0 s s' Hr Hrun; cbn [PoolWait.run] in Hrun.
    - injection Hrun as <-. exact Hr.
    - destruct (step s l) as [s1|] eqn:Hs; [|discriminate].
      eapply IH; [|exact Hrun]. eapply reach_step; eassumption.
  Qed.

  Lemma reachable_trans s0 s s' : reachable s0 s -> reachable s s' -> reachable s0 s'.
  Proof. intros H0 H1. induction H1; [exact H0|eapply reach_step; eassumption]. Qed.

  (** ---- 1. lock discipline ---- *)

  Definition wants (pc : wait_pc) : bool :=
    match pc with WSubW | WUnsubW _ => true | _ => false end.

  Definition lock_inv (s : state) : Prop :=
    readers s = match rpc s with RNotify _ _ _ => 1 | _ => 0 end /\
    (forall u mt rem, rpc s = RNotify u mt rem -> writer s = None) /\
    (writer s = Some ARun <-> rpc s = RUpd) /\
    (forall w, writer s = Some (AW w) <-> wpc s w = WSubL) /\
    (wreq s = Some ARun <-> rpc s = RWantW) /\
    (forall w, wreq s = Some (AW w) <-> wants (wpc s w) = true) /\
    (writer s <> None -> wreq s = None) /\
    (forall u, rpc s <> RInner u).

  Lemma lock_inv_init heads b : lock_inv (init_state heads b).
  Proof.
    unfold lock_inv, init_state. sred. repeat apply conj; try discriminate; try reflexivity.
    all: try (intros w; split; discriminate).
  Qed.

  Lemma lock_inv_step s l s' : lock_inv s -> step s l = Some s' -> lock_inv s'.
  Proof.
    intros (Hrd & Hmx & [Hrun1 Hrun2] & Hw & [Hq1 Hq2] & Hqw & Hex & Hni) Hs. unfold lock_inv.
    assert (Hw1 := fun w => proj1 (Hw w)). assert (Hw2 := fun w => proj2 (Hw w)). clear Hw.
    assert (Hqw1 := fun w => proj1 (Hqw w)). assert (Hqw2 := fun w => proj2 (Hqw w)). clear Hqw.
    step_inv Hs; guards; sred.
    all: repeat apply conj.
    all: intros; try split; intros; fu; sred; cbn [wants] in *.
    all: try solve [eauto].
    all: try discriminate.
    all: repeat match goal with
         | H : wpc _ ?w = WSubL |- _ => apply Hw2 in H
         | H : rpc _ = RUpd |- _ =>
             lazymatch goal with
             | _ : writer _ = Some ARun |- _ => fail
             | _ => pose proof (Hrun2 H)
             end
         | H : rpc _ = RWantW |- _ =>
             lazymatch goal with
             | _ : wreq _ = Some ARun |- _ => fail
             | _ => pose proof (Hq2 H)
             end
         | H : wants (wpc _ ?w) = true |- _ => apply Hqw2 in H
         end.
    all: try match goal with H : writer _ = Some ARun |- _ => pose proof (Hrun1 H) end.
    all: try match goal with H : wreq _ = Some ARun |- _ => pose proof (Hq1 H) end.
    all: try match goal with H : writer _ = Some (AW ?w) |- _ => pose proof (Hw1 _ H) end.
    all: try match goal with H : wreq _ = Some (AW ?w) |- _ => pose proof (Hqw1 _ H) end.
    all: repeat match goal with
         | H : rpc _ = _ |- _ => rewrite H in *
         | H : writer _ = _ |- _ => rewrite H in *
         | H : wreq _ = _ |- _ => rewrite H in *
         | H : wpc _ _ = _ |- _ => rewrite H in *
         end.
    all: cbn [wants] in *.
    all: try congruence; try lia; eauto.
    all: try solve [exfalso; eapply Hni; eauto].
    all: try solve [apply Hex; congruence].

  Qed.

  Theorem lock_inv_reachable heads b s :
    reachable (init_state heads b) s -> lock_inv s.
  Proof.
    induction 1 as [|s l s' _ IH Hs]; [apply lock_inv_init|exact (lock_inv_step _ _ _ IH Hs)].
  Qed.

  (** mutual exclusion on p.mu *)
  Theorem pool_lock_mutex heads b s :
    reachable (init_state heads b) s ->
    (writer s <> None -> readers s = 0) /\
    (forall w w', wpc s w = WSubL -> wpc s w' = WSubL -> w = w') /\
    (forall w, wpc s w = WSubL -> rpc s <> RUpd).
  Proof.
    intros Hr. destruct (lock_inv_reachable _ _ _ Hr) as (Hrd & Hmx & [Hrun1 Hrun2] & Hw & _).
    repeat apply conj.
    - intros Hwr. rewrite Hrd. destruct (rpc s) eqn:Hp; try reflexivity.
      exfalso. apply Hwr. eapply Hmx. reflexivity.
    - intros w w' H1 H2. apply Hw in H1. apply Hw in H2. congruence.
    - intros w H1 H2. apply Hw in H1. apply Hrun2 in H2. congruence.
  Qed.

  (** no goroutine asks for p.mu while it holds p.mu: the announced writer is not
      inside (neither as writer nor as the reader Run), and Run asks for the read
      lock only from outside *)
  Theorem no_reacquire heads b s :
    reachable (init_state heads b) s ->
    (forall a, wreq s = Some a -> writer s = None /\ (a = ARun -> readers s = 0)) /\
    (forall u, rpc s = RWantR u -> readers s = 0 /\ writer s <> Some ARun) /\
    (forall u, rpc s <> RInner u).
  Proof.
    intros Hr. destruct (lock_inv_reachable _ _ _ Hr) as (Hrd & Hmx & [Hrun1 Hrun2] & Hw & [Hq1 Hq2] & Hqw & Hex & Hni).
    repeat apply conj; [| |exact Hni].
    - intros a Ha. split.
      + destruct (writer s) eqn:Hwr; [|reflexivity]. rewrite Hex in Ha by discriminate. discriminate.
      + intros ->. rewrite Hrd, (Hq1 Ha). reflexivity.
    - intros u Hp. split; [rewrite Hrd, Hp; reflexivity|].
      intros Hwr. apply Hrun1 in Hwr. congruence.
  Qed.

  (** ---- 2. the holder of the pool lock can always move ---- *)

  Lemma holder_can_step_inv s : lock_inv s -> holder_can_step strat false false nconns tgt s.
  Proof.
    intros (Hrd & Hmx & [Hrun1 Hrun2] & Hw & _). unfold holder_can_step.
    destruct (writer s) as [[|w]|] eqn:Hwr.
    - (* Run inside updateBest *)
      intros obs old. unfold PoolWait.step. rewrite (Hrun1 eq_refl). unfold is_writer. rewrite Hwr. discriminate.
    - (* waiter w inside subscribe: MasterHead() of the best connection never blocks *)
      assert (Hpc : wpc s w = WSubL) by (apply Hw; reflexivity).
      unfold PoolWait.step. rewrite Hpc. unfold is_writer. rewrite Hwr, Nat.eqb_refl.
      destruct (best s) as [b|]; [|discriminate].
      destruct (tgt w <=? head s b)%N; discriminate.
    - (* no writer: the only reader is Run inside notifySubscribers; its send never blocks *)
      destruct (rpc s) as [|u|u|u mt [|w rem]| |] eqn:Hp; try (left; exact Hrd).
      + right. right. left. unfold PoolWait.step. rewrite Hp. discriminate.
      + right. left. unfold PoolWait.step. rewrite Hp. discriminate.
  Qed.

  Theorem pool_never_blocks heads b s :
    reachable (init_state heads b) s -> holder_can_step strat false false nconns tgt s.
  Proof. intros Hr. apply holder_can_step_inv. exact (lock_inv_reachable _ _ _ Hr). Qed.

  (** ---- 3. ... the lock is freed and the announced writer served by finitely many
          moves of the pool's own goroutines: no reachable deadlock on p.mu, under
          Go's writer-preference rule ---- *)

  Lemma lock_inv_run ls : forall s s', lock_inv s -> run s ls = Some s' -> lock_inv s'.
  Proof.
    induction ls as [|l t IH]; intros s s' Hinv Hrun; cbn [PoolWait.run] in Hrun.
    - injection Hrun as <-. exact Hinv.
    - destruct (step s l) as [s1|] eqn:Hs; [|discriminate].
      eapply IH; [|exact Hrun]. eapply lock_inv_step; eassumption.
  Qed.

  (** what these moves leave alone *)
  Definition frame (s s' : state) : Prop :=
    head s' = head s /\ pend s' = pend s /\ updq s' = updq s /\
    (forall w r, wpc s w = WUnsub r -> wpc s' w = WUnsub r /\ wid s' w = wid s w) /\
    (rpc s = RIdle -> rpc s' = RIdle) /\
    (forall u, rpc s = RWantR u -> rpc s' = RWantR u) /\
    (rpc s <> RIdle -> (forall u, rpc s <> RWantR u) -> rpc s' = RIdle \/ rpc s' = rpc s) /\
    (rpc s' = RIdle \/ rpc s' = rpc s).

  Lemma frame_refl s : frame s s.
  Proof. unfold frame. repeat apply conj; auto. Qed.

  Lemma frame_trans s1 s2 s3 : frame s1 s2 -> frame s2 s3 -> frame s1 s3.
  Proof.
    intros (A1 & A2 & A3 & A4 & A5 & A6 & A7 & A8) (B1 & B2 & B3 & B4 & B5 & B6 & B7 & B8).
    unfold frame. repeat apply conj; try congruence.
    - intros w r H. destruct (A4 _ _ H) as [H1 H2]. destruct (B4 _ _ H1) as [H3 H4]. split; congruence.
    - auto.
    - intros u H. auto.
    - intros H1 H2. destruct B8 as [B8|B8]; [auto|]. destruct (A7 H1 H2) as [A|A]; [left|right]; congruence.
    - destruct B8 as [B8|B8]; [auto|]. destruct A8 as [A|A]; [left|right]; congruence.
  Qed.

  Lemma run_sends rem : forall s u mt,
    rpc s = RNotify u mt rem ->
    exists s', run s (repeat LSend (length rem)) = Some s' /\ rpc s' = RNotify u mt [] /\
      readers s' = readers s /\ writer s' = writer s /\ wreq s' = wreq s /\ wl s' = wl s /\ wpc s' = wpc s /\
      wid s' = wid s /\ head s' = head s /\ pend s' = pend s /\ updq s' = updq s /\ best s' = best s.
  Proof.
    induction rem as [|w rem IH]; intros s u mt Hp; cbn [length repeat PoolWait.run].
    - exists s. repeat apply conj; auto.
    - unfold PoolWait.step at 1. rewrite Hp.
      match goal with |- context [PoolWait.run _ _ _ _ _ ?s1 _] => set (s1' := s1) end.
      destruct (IH s1' u mt eq_refl) as (s' & Hrun & H1 & H2 & H3 & H4 & H5 & H6 & H7 & H8 & H9 & H10 & H11).
      exists s'. split; [exact Hrun|]. subst s1'. sred. repeat apply conj; assumption.
  Qed.

  (** the holder of the lock finishes its critical section *)
  Lemma release_frees s :
    lock_inv s ->
    exists s', run s (release s) = Some s' /\ lock_free s' = true /\ wreq s' = wreq s /\ frame s s' /\
      (rpc s = RUpd \/ (exists u mt rem, rpc s = RNotify u mt rem) -> rpc s' = RIdle).
  Proof.
    intros (Hrd & Hmx & [Hrun1 Hrun2] & Hw & Hq & Hqw & Hex & Hni). unfold release.
    destruct (writer s) as [[|w]|] eqn:Hwr.
    - (* updateBest *)
      pose proof (Hrun1 eq_refl) as Hp. cbn [PoolWait.run]. unfold PoolWait.step.
      rewrite Hp. unfold is_writer. rewrite Hwr.
      eexists. split; [reflexivity|]. sred. rewrite Hp in Hrd.
      split; [apply lock_free_intro; sred; auto|]. split; [reflexivity|].
      split; [|auto]. unfold frame; sred. rewrite Hp.
      repeat apply conj; auto; try discriminate. all: try (intros ? ?; discriminate).
    - (* subscribe *)
      assert (Hpc : wpc s w = WSubL) by (apply Hw; reflexivity).
      assert (Hr0 : readers s = 0).
      { rewrite Hrd. destruct (rpc s) eqn:Hp; try reflexivity.
        specialize (Hmx _ _ _ eq_refl). congruence. }
      assert (Hnot : rpc s = RUpd \/ (exists u mt rem, rpc s = RNotify u mt rem) -> False).
      { intros [H|(u & mt & rem & H)].
        - apply Hrun2 in H. congruence.
        - apply Hmx in H. congruence. }
      cbn [PoolWait.run]. unfold PoolWait.step. rewrite Hpc. unfold is_writer. rewrite Hwr, Nat.eqb_refl.
      assert (Hfr : forall v, frame s (set_wpc (set_writer s None) (fupd (wpc s) w v))).
      { intros v. unfold frame; sred. repeat apply conj; auto.
        intros w' r H. rewrite fupd_other by congruence. auto. }
      destruct (best s) as [b|].
      + destruct (tgt w <=? head s b)%N.
        all: eexists; split; [reflexivity|]; sred.
        all: split; [apply lock_free_intro; sred; auto|].
        all: split; [reflexivity|].
        all: split; [|intros H; exfalso; exact (Hnot H)].
        all: unfold frame; sred; repeat apply conj; auto.
        all: intros w' r' H'; rewrite !fupd_other by congruence; auto.
      + eexists; split; [reflexivity|]; sred.
        split; [apply lock_free_intro; sred; auto|]. split; [reflexivity|].
        split; [apply Hfr|intros H; exfalso; exact (Hnot H)].
    - destruct (rpc s) as [|u|u|u mt rem| |] eqn:Hp.
      all: try (exists s; cbn [PoolWait.run]; split; [reflexivity|]; split; [apply lock_free_intro; auto|];
                split; [reflexivity|]; split; [apply frame_refl|];
                intros [H|(u' & mt' & rem' & H)]; discriminate).
      + destruct (run_sends rem s u mt Hp) as (s1 & Hrun & H1 & H2 & H3 & H4 & H5 & H6 & H7 & H8 & H9 & H10 & H11).
        rewrite run_app, Hrun. cbn [PoolWait.run]. unfold PoolWait.step. rewrite H1.
        eexists. split; [reflexivity|]. sred.
        split; [apply lock_free_intro; sred; [rewrite H2, Hrd; reflexivity|congruence]|].
        split; [exact H4|]. split; [|auto].
        unfold frame; sred. repeat apply conj; try congruence; auto; try discriminate.
        all: try (intros ? ?; discriminate).
        intros w r H. rewrite H6, H7. auto.
      + specialize (Hrun2 eq_refl). congruence.
  Qed.

  (** with the lock free, the announced writer takes it and finishes *)
  Lemma serve_done s :
    lock_inv s -> lock_free s = true ->
    exists s', run s (serve s) = Some s' /\ lock_free s' = true /\ wreq s' = None /\ frame s s' /\
      (rpc s = RWantW -> rpc s' = RIdle).
  Proof.
    intros (Hrd & Hmx & Hrun & Hw & [Hq1 Hq2] & Hqw & Hex & Hni) Hfree.
    pose proof Hfree as Hfree'. apply lock_free_true in Hfree' as [Hr0 Hw0]. unfold serve.
    destruct (wreq s) as [[|w]|] eqn:Hreq.
    - (* updateBest *)
      pose proof (Hq1 eq_refl) as Hp. cbn [PoolWait.run]. unfold PoolWait.step at 1.
      rewrite Hp. unfold is_wreq. rewrite Hreq, Hfree. cbn [andb].
      unfold PoolWait.step at 1. sred. unfold is_writer. sred.
      eexists. split; [reflexivity|]. sred.
      split; [apply lock_free_intro; sred; auto|]. split; [reflexivity|]. split; [|auto].
      unfold frame; sred. rewrite Hp. repeat apply conj; auto; try discriminate. all: try (intros ? ?; discriminate).
    - assert (Hwant : wants (wpc s w) = true) by (apply Hqw; reflexivity).
      assert (Hnw : rpc s = RWantW -> False).
      { intros H. apply Hq2 in H. congruence. }
      assert (Hfr : forall s1, head s1 = head s -> pend s1 = pend s -> updq s1 = updq s -> rpc s1 = rpc s ->
                 (forall w', w' <> w -> wpc s1 w' = wpc s w' /\ wid s1 w' = wid s w') -> frame s s1).
      { intros s1 E1 E2 E3 E4 E5. unfold frame. rewrite E4. repeat apply conj; auto.
        intros w' r H. assert (Hne : w' <> w) by (intros ->; rewrite H in Hwant; discriminate).
        destruct (E5 w' Hne) as [E6 E7]. split; congruence. }
      destruct (wpc s w) eqn:Hpc; try discriminate Hwant.
      + (* subscribe *)
        cbn [PoolWait.run]. unfold PoolWait.step at 1. rewrite Hpc. unfold is_wreq. rewrite Hreq, Nat.eqb_refl, Hfree.
        cbn [andb]. unfold PoolWait.step at 1. sred. rewrite fupd_same. unfold is_writer. sred. rewrite Nat.eqb_refl.
        destruct (best s) as [b|].
        * destruct (tgt w <=? head s b)%N.
          all: eexists; split; [reflexivity|]; sred.
          all: split; [apply lock_free_intro; sred; auto|].
          all: split; [reflexivity|].
          all: split; [|intros H; exfalso; exact (Hnw H)].
          all: apply Hfr; sred; auto.
          all: intros w' Hne; rewrite !fupd_other by assumption; auto.
        * eexists; split; [reflexivity|]; sred.
          split; [apply lock_free_intro; sred; auto|]. split; [reflexivity|].
          split; [|intros H; exfalso; exact (Hnw H)].
          apply Hfr; sred; auto. intros w' Hne; rewrite !fupd_other by assumption; auto.
      + (* unsubscribe *)
        cbn [PoolWait.run]. unfold PoolWait.step at 1. rewrite Hpc. unfold is_wreq. rewrite Hreq, Nat.eqb_refl, Hfree.
        cbn [andb]. eexists; split; [reflexivity|]; sred.
        split; [apply lock_free_intro; sred; auto|]. split; [reflexivity|].
        split; [|intros H; exfalso; exact (Hnw H)].
        apply Hfr; sred; auto. intros w' Hne; rewrite !fupd_other by assumption; auto.
    - exists s. cbn [PoolWait.run]. split; [reflexivity|]. split; [exact Hfree|]. split; [exact Hreq|].
      split; [apply frame_refl|]. intros H. apply Hq2 in H. congruence.
  Qed.

  Lemma forallb_repeat_send n : forallb internal (repeat LSend n) = true.
  Proof. induction n; [reflexivity|exact IHn]. Qed.

  Lemma release_internal s : forallb internal (release s) = true.
  Proof.
    unfold release. destruct (writer s) as [[|w]|]; try reflexivity.
    destruct (rpc s); try reflexivity.
    rewrite forallb_app, forallb_repeat_send. reflexivity.
  Qed.

  Lemma serve_internal s : forallb internal (serve s) = true.
  Proof.
    unfold serve. destruct (wreq s) as [[|w]|]; try reflexivity. destruct (wpc s w); reflexivity.
  Qed.

  (** from every state satisfying the lock discipline, moves of the pool's own goroutines
      lead to a state where p.mu is free and nobody is announced *)
  Lemma settle s :
    lock_inv s ->
    exists ls s', forallb internal ls = true /\ run s ls = Some s' /\ lock_inv s' /\
      lock_free s' = true /\ wreq s' = None /\ frame s s' /\
      (rpc s <> RIdle -> (forall u, rpc s <> RWantR u) -> rpc s' = RIdle).
  Proof.
    intros Hinv.
    destruct (release_frees s Hinv) as (s1 & Hrun1 & Hfree1 & Hreq1 & Hfr1 & Hidle1).
    assert (Hinv1 : lock_inv s1) by (eapply lock_inv_run; eassumption).
    destruct (serve_done s1 Hinv1 Hfree1) as (s2 & Hrun2 & Hfree2 & Hreq2 & Hfr2 & Hidle2).
    exists (release s ++ serve s1), s2. split.
    { rewrite forallb_app, release_internal, serve_internal. reflexivity. }
    split; [rewrite run_app, Hrun1; exact Hrun2|].
    split; [eapply lock_inv_run; eassumption|].
    split; [exact Hfree2|]. split; [exact Hreq2|]. split; [eapply frame_trans; eassumption|].
    intros Hn1 Hn2. destruct Hinv as (_ & _ & _ & _ & _ & _ & _ & Hni).
    destruct (rpc s) as [|u|u|u mt rem| |] eqn:Hp.
    - exfalso. apply Hn1. reflexivity.
    - exfalso. eapply Hn2. reflexivity.
    - exfalso. eapply Hni. reflexivity.
    - assert (rpc s1 = RIdle) by (apply Hidle1; right; eauto).
      destruct Hfr2 as (_ & _ & _ & _ & H5 & _). auto.
    - destruct Hfr1 as (_ & _ & _ & _ & _ & _ & _ & [H8|H8]).
      + destruct Hfr2 as (_ & _ & _ & _ & H5 & _). auto.
      + apply Hidle2. congruence.
    - assert (rpc s1 = RIdle) by (apply Hidle1; left; reflexivity).
      destruct Hfr2 as (_ & _ & _ & _ & H5 & _). auto.
  Qed.

  (** no reachable deadlock on the pool lock *)
  Theorem lock_released heads b s :
    reachable (init_state heads b) s ->
    exists ls s', forallb internal ls = true /\ run s ls = Some s' /\ lock_free s' = true /\ wreq s' = None.
  Proof.
    intros Hr. destruct (settle s (lock_inv_reachable _ _ _ Hr)) as (ls & s' & H1 & H2 & _ & H4 & H5 & _).
    eauto 8.
  Qed.

  (** a caller that has left its loop (success, timeout or cancellation) returns:
      after moves of the pool's own goroutines its deferred unsubscribe announces
      itself, acquires the lock and deletes exactly its own registration *)
  Theorem wait_returns heads b s w r :
    reachable (init_state heads b) s -> wpc s w = WUnsub r ->
    exists ls s', forallb internal ls = true /\
               run s (ls ++ [LUnsubWant w; LUnsub w]) = Some s' /\ wpc s' w = WDone r /\
               (forall e, In e (wl s') -> fst e <> wid s w).
  Proof.
    intros Hr Hpc.
    destruct (settle s (lock_inv_reachable _ _ _ Hr)) as (ls & s1 & Hint & Hrun & _ & Hfree & Hreq & Hfr & _).
    destruct Hfr as (_ & _ & _ & Hw & _). destruct (Hw _ _ Hpc) as [Hpc1 Hwid1].
    pose proof Hfree as Hfree'. apply lock_free_true in Hfree' as [Hr0 Hw0].
    exists ls. rewrite run_app, Hrun. cbn [PoolWait.run]. unfold PoolWait.step at 1.
    rewrite Hpc1, (no_writer_intro _ Hw0 Hreq).
    unfold PoolWait.step at 1. sred. rewrite fupd_same. unfold is_wreq. sred. rewrite Nat.eqb_refl.
    unfold lock_free. sred. rewrite Hr0, Hw0. cbn [Nat.eqb andb].
    eexists. split; [exact Hint|]. split; [reflexivity|]. sred. split; [apply fupd_same|].
    intros e He. apply filter_In in He as [_ He]. rewrite Hwid1 in He.
    apply negb_true_iff in He. apply N.eqb_neq in He. exact He.
  Qed.

  (** ---- 4. the update buffer is always drained: Run gets back to its select by
          moves of the pool's own goroutines, and a pending SetMasterHead completes ---- *)

  Lemma is_order_self s : is_order (map snd (wl s)) s = true.
  Proof.
    unfold is_order. rewrite Nat.eqb_refl. cbn [andb].
    assert (H : forall l, forallb (fun w => mem w l) l = true).
    { intros l. apply forallb_forall. intros x Hx. unfold mem. apply existsb_exists.
      exists x. split; [exact Hx|apply Nat.eqb_refl]. }
    rewrite H. reflexivity.
  Qed.

  Theorem run_gets_home heads b s :
    reachable (init_state heads b) s ->
    exists ls s', forallb internal ls = true /\ run s ls = Some s' /\ rpc s' = RIdle /\
                  updq s' = updq s /\ pend s' = pend s.
  Proof.
    intros Hr. pose proof (lock_inv_reachable _ _ _ Hr) as Hinv.
    destruct (settle s Hinv) as (ls & s1 & Hint & Hrun & Hinv1 & Hfree & Hreq & Hfr & Hidle).
    destruct Hfr as (_ & Hpend & Hupdq & _ & _ & Hkeep & _).
    destruct (rpc s) as [|u|u|u mt rem| |] eqn:Hp.
    - exists [], s. repeat apply conj; auto.
    - (* RLock (nobody inside or announced), notify everybody, RUnlock *)
      assert (Hp1 : rpc s1 = RWantR u) by (apply Hkeep; reflexivity).
      apply lock_free_true in Hfree as [Hr1 Hw1].
      assert (Hs2 : exists s2, step s1 (LRLock (map snd (wl s1))) = Some s2 /\
                  (exists mt rem, rpc s2 = RNotify u mt rem) /\ updq s2 = updq s1 /\ pend s2 = pend s1).
      { unfold PoolWait.step. rewrite Hp1, (no_writer_intro _ Hw1 Hreq). destruct (same_best s1 (fst u)).
        - rewrite is_order_self. eexists. split; [reflexivity|]. sred. eauto.
        - eexists. split; [reflexivity|]. sred. eauto. }
      destruct Hs2 as (s2 & Hstep & (mt & rem & Hp2) & Hq2 & Hd2).
      destruct (run_sends rem s2 u mt Hp2) as (s3 & Hrun3 & Hp3 & _ & _ & _ & _ & _ & _ & _ & Hd3 & Hq3 & _).
      exists (ls ++ [LRLock (map snd (wl s1))] ++ repeat LSend (length rem) ++ [LRUnlock]).
      eexists. split.
      { rewrite !forallb_app, Hint, forallb_repeat_send. reflexivity. }
      rewrite run_app, Hrun. cbn [app PoolWait.run]. rewrite Hstep.
      rewrite run_app, Hrun3. cbn [PoolWait.run]. unfold PoolWait.step at 1. rewrite Hp3.
      split; [reflexivity|]. sred. repeat apply conj; congruence.
    - exfalso. destruct Hinv as (_ & _ & _ & _ & _ & _ & _ & Hni). exact (Hni _ Hp).
    - exists ls, s1. repeat apply conj; auto. apply Hidle; [congruence|intros u' H; congruence].
    - exists ls, s1. repeat apply conj; auto. apply Hidle; [congruence|intros u' H; congruence].
    - exists ls, s1. repeat apply conj; auto. apply Hidle; [congruence|intros u' H; congruence].
  Qed.

  (** the buffer never holds more than its capacity *)
  Lemma updq_bounded heads b s :
    reachable (init_state heads b) s -> length (updq s) <= upd_cap.
  Proof.
    induction 1 as [|s l s' _ IH Hs].
    - cbn. unfold upd_cap. lia.
    - step_inv Hs; guards; sred; try assumption.
      all: try (rewrite app_length; cbn [length]; lia).
      all: cbn [length] in IH; lia.
  Qed.

  (** SetMasterHead never waits for good: its send completes at once when the buffer
      has room, and otherwise after Run (which is never stuck) has taken one update *)
  Theorem publish_completes heads b s k m :
    reachable (init_state heads b) s -> nth_error (pend s) k = Some m ->
    exists ls s', forallb internal ls = true /\ run s (ls ++ [LPublish k]) = Some s' /\
                  In m (updq s').
  Proof.
    intros Hr Hk.
    destruct (Nat.ltb (length (updq s)) upd_cap) eqn:Hroom.
    - exists []. cbn [app PoolWait.run]. unfold PoolWait.step. rewrite Hk, Hroom.
      eexists. split; [reflexivity|]. split; [reflexivity|]. sred. apply in_or_app. right. left. reflexivity.
    - destruct (run_gets_home _ _ _ Hr) as (ls & s1 & Hint & Hrun & Hp & Hq & Hd).
      apply Nat.ltb_ge in Hroom. unfold upd_cap in Hroom.
      destruct (updq s) as [|u rest] eqn:Hupdq; [cbn in Hroom; lia|].
      assert (Hlen : length rest = length (updq s1) - 1) by (rewrite Hq; cbn [length]; lia).
      assert (Hcap : length (u :: rest) <= upd_cap).
      { rewrite <- Hupdq. eapply updq_bounded. exact Hr. }
      exists (ls ++ [LTake]). eexists. split.
      { rewrite forallb_app, Hint. reflexivity. }
      rewrite <- app_assoc, run_app, Hrun. cbn [app PoolWait.run].
      unfold PoolWait.step at 1. rewrite Hp, Hq.
      unfold PoolWait.step at 1. sred. rewrite Hd, Hk.
      assert (Hlt : Nat.ltb (length rest) upd_cap = true).
      { apply Nat.ltb_lt. cbn [length] in Hcap. lia. }
      rewrite Hlt. split; [reflexivity|]. sred. apply in_or_app. right. left. reflexivity.
  Qed.

  (** the critical section of SetMasterHead is always enabled (c.mu is never held
      across a blocking operation) *)
  Lemma set_head_enabled s c h : step s (LSetHead c h) <> None.
  Proof. unfold PoolWait.step. destruct (head s c <? h)%N; discriminate. Qed.

  (** connection.masterHead is monotone in seqno *)
  Lemma head_monotone s l s' c : step s l = Some s' -> (head s c <= head s' c)%N.
  Proof.
    intros Hs. step_inv Hs; guards; sred; try lia.
    fu; [|lia]. match goal with H : (_ <? _)%N = true |- _ => apply N.ltb_lt in H end. lia.
  Qed.

  Lemma head_monotone_reachable s s' c : reachable s s' -> (head s c <= head s' c)%N.
  Proof.
    induction 1 as [|s1 l s2 _ IH Hs]; [lia|]. pose proof (head_monotone _ _ _ c Hs). lia.
  Qed.

  (** a refresh of the best connection inside the protocol: whatever heads the first loop of
      updateBest read (not above the current ones: heads only rise), the new bestConn is the
      property's choice among the connections that are alive and at most one block behind
      the newest head the first loop saw *)
  Lemma first_read_le heads old i : (first_read heads old i <= heads i)%N.
  Proof. unfold first_read. lia. Qed.

  Theorem refresh_choice s obs old s' :
    step s (LUpdDone obs old) = Some s' ->
    let cs1 := mk_conns nconns (first_read (head s) old) obs in
    let cs2 := mk_conns nconns (head s) obs in
    best s' = update_best2 strat cs1 cs2 (best s) /\
    is_choice strat (fun c => c_alive c = true /\ (newest cs1 - seq32 c <= 1)%N) cs2 (best s) (best s').
  Proof.
    intros Hs cs1 cs2. step_inv Hs; guards; sred. split; [reflexivity|]. apply update_best2_spec.
  Qed.

  (** ---- 5. the best connection is a connection of the pool; subscribe never
          dereferences nil once the pool has a connection ---- *)

  Lemma mk_conns_length heads obs : length (mk_conns nconns heads obs) = nconns.
  Proof. unfold mk_conns. rewrite map_length, seq_length. reflexivity. Qed.

  Lemma update_best_some cs1 cs b : exists i, update_best2 strat cs1 cs (Some b) = Some i.
  Proof.
    unfold update_best2. destruct cs as [|c t]; [eauto|].
    destruct strat; [| |eauto].
    - destruct (find_best_ping _ _ _ _) as [[i r]|]; eauto.
    - destruct (find_first_working _ _ _) as [i|]; eauto.
  Qed.

  Definition best_inv (s : state) : Prop :=
    best s <> None /\ (forall b, best s = Some b -> b < nconns) /\ forall w, wpc s w <> WPanicked.

  Lemma best_inv_step s l s' : best_inv s -> step s l = Some s' -> best_inv s'.
  Proof.
    intros (Hsome & Hlt & Hnp) Hs. unfold best_inv.
    step_inv Hs; guards; sred; try solve [repeat apply conj; auto].
    all: try match goal with H : best _ = Some _ |- _ => rewrite H end.
    all: try solve [repeat apply conj; auto; intros w'; fu; sred; try congruence; auto].
    all: try solve [exfalso; congruence].
    (* updateBest *)
    destruct (best s) as [b|] eqn:Hb; [|congruence].
    destruct (update_best_some (mk_conns nconns (first_read (head s) old) obs) (mk_conns nconns (head s) obs) b) as [i Hi]. rewrite Hi.
    split; [discriminate|]. split; [|exact Hnp].
    intros b' [= <-].
    destruct (update_best2_range _ _ _ _ _ Hi) as [[= <-]|Hr]; [apply Hlt; reflexivity|].
    rewrite mk_conns_length in Hr. exact Hr.
  Qed.

  Theorem subscribe_never_panics heads b s :
    b < nconns -> reachable (init_state heads (Some b)) s ->
    (exists b', best s = Some b' /\ b' < nconns) /\ forall w, wpc s w <> WPanicked.
  Proof.
    intros Hb Hr.
    assert (Hinv : best_inv s).
    { induction Hr as [|s l s' _ IH Hs]; [|exact (best_inv_step _ _ _ IH Hs)].
      unfold best_inv, init_state. sred. repeat apply conj; try discriminate.
      intros b' [= <-]. exact Hb. }
    destruct Hinv as (Hsome & Hlt & Hnp). split; [|exact Hnp].
    destruct (best s) as [b'|]; [|congruence]. exists b'. auto.
  Qed.
End Inv.
