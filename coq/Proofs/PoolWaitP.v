(** Invariants of the wait-list protocol (Model/PoolWait.v): lock discipline,
    classification of every state in which the holder of the pool lock cannot
    move, provenance of the heads a waiter receives. *)
From Coq Require Import List NArith Bool Arith Lia.
From Tongo Require Import Model.PoolWait.
Import ListNotations.

Ltac sred :=
  cbn [head cpc updq best readers writer wl next_id rpc wpc wid wch wgot log
       set_head set_cpc set_updq set_best set_readers set_writer set_wl set_next_id
       set_rpc set_wpc set_wid set_wch set_wgot set_log fst snd] in *.

Lemma fupd_same {A} (f : nat -> A) i v : fupd f i v i = v.
Proof. unfold fupd. rewrite Nat.eqb_refl. reflexivity. Qed.

Lemma fupd_other {A} (f : nat -> A) i v j : j <> i -> fupd f i v j = f j.
Proof. unfold fupd. intros Hne. destruct (Nat.eqb_spec j i); [contradiction|reflexivity]. Qed.

(** case split on every [fupd f i v j] in sight *)
Ltac fu :=
  repeat match goal with
  | H : context [fupd _ ?i _ ?j] |- _ =>
      destruct (Nat.eq_dec j i) as [?|?];
      [subst; rewrite ?fupd_same in * | rewrite ?(fupd_other _ i _ j) in * by assumption]
  | |- context [fupd _ ?i _ ?j] =>
      destruct (Nat.eq_dec j i) as [?|?];
      [subst; rewrite ?fupd_same in * | rewrite ?(fupd_other _ i _ j) in * by assumption]
  end.

Lemma lock_free_true s : lock_free s = true -> readers s = 0 /\ writer s = None.
Proof.
  unfold lock_free. intros H. apply andb_true_iff in H as [Hr Hw].
  apply Nat.eqb_eq in Hr. destruct (writer s); [discriminate|auto].
Qed.

Lemma is_writer_run s : is_writer s ARun = true -> writer s = Some ARun.
Proof. unfold is_writer. destruct (writer s) as [[|w]|]; congruence. Qed.

Lemma is_writer_w s w : is_writer s (AW w) = true -> writer s = Some (AW w).
Proof.
  unfold is_writer. destruct (writer s) as [[|w']|]; try congruence.
  intros H. apply Nat.eqb_eq in H. congruence.
Qed.

(** inversion of one step: one goal per (label, branch) with the guards as hypotheses *)
Ltac step_inv H :=
  unfold step in H;
  repeat match type of H with
  | context [match ?x with _ => _ end] => destruct x eqn:?
  end;
  try discriminate H;
  injection H as H; subst.

Ltac guards :=
  repeat match goal with
  | H : lock_free _ = true |- _ => apply lock_free_true in H as [? ?]
  | H : is_writer _ ARun = true |- _ => apply is_writer_run in H
  | H : is_writer _ (AW _) = true |- _ => apply is_writer_w in H
  | H : _ && _ = true |- _ => apply andb_true_iff in H as [? ?]
  | H : Nat.ltb _ _ = true |- _ => apply Nat.ltb_lt in H
  | H : Nat.leb _ _ = true |- _ => apply Nat.leb_le in H
  | H : Nat.ltb _ _ = false |- _ => apply Nat.ltb_ge in H
  end.

Section Inv.
  Variable nconns : nat.
  Variable tgt : nat -> N.
  Notation step := (step nconns tgt).
  Notation reachable := (reachable nconns tgt).

  (** ---- 1. lock discipline ---- *)

  Definition lock_inv (s : state) : Prop :=
    readers s = match rpc s with RNotify _ _ => 1 | _ => 0 end /\
    (forall u rem, rpc s = RNotify u rem -> writer s = None) /\
    (writer s = Some ARun <-> exists k, rpc s = RUpd k) /\
    (forall w, writer s = Some (AW w) <-> wpc s w = WSubL) /\
    (forall k, rpc s = RUpd k -> k <= nconns).

  Lemma lock_inv_init heads b : lock_inv (init_state heads b).
  Proof.
    unfold lock_inv, init_state. sred. repeat apply conj; try discriminate; try reflexivity.
    - intros [k Hk]. discriminate.
    - intros w; split; discriminate.
  Qed.

  Lemma lock_inv_step s l s' : lock_inv s -> step s l = Some s' -> lock_inv s'.
  Proof.
    intros (Hrd & Hmx & [Hrun1 Hrun2] & Hw & Hk) Hs. unfold lock_inv.
    assert (Hw1 := fun w => proj1 (Hw w)). assert (Hw2 := fun w => proj2 (Hw w)). clear Hw.
    step_inv Hs; guards; sred.
    all: repeat apply conj.
    all: intros; try split; intros;
         repeat match goal with H : exists _, _ |- _ => destruct H end; fu; sred.
    all: try solve [eauto].
    all: try (match goal with H : RUpd _ = RUpd _ |- _ => injection H as <- end).
    all: repeat match goal with
         | H : wpc _ ?w = WSubL |- _ => apply Hw2 in H
         | H : rpc _ = RUpd ?k |- _ =>
             lazymatch goal with
             | _ : writer _ = Some ARun |- _ => fail
             | _ => pose proof (Hrun2 (ex_intro _ k H))
             end
         end.
    all: try match goal with H : writer _ = Some ARun |- _ => destruct (Hrun1 H) end.
    all: try match goal with H : writer _ = Some (AW ?w) |- _ => pose proof (Hw1 _ H) end.
    all: repeat match goal with
         | H : rpc _ = _ |- _ => rewrite H in *
         | H : writer _ = _ |- _ => rewrite H in *
         end.
    all: try congruence; try lia; eauto.
  Qed.

  Theorem lock_inv_reachable heads b s :
    reachable (init_state heads b) s -> lock_inv s.
  Proof.
    induction 1 as [|s l s' _ IH Hs]; [apply lock_inv_init|exact (lock_inv_step _ _ _ IH Hs)].
  Qed.

  (** mutual exclusion on p.mu *)
  Theorem pool_lock_mutex heads b s :
    reachable (init_state heads b) s ->
    (writer s <> None -> readers s = 0) /\
    (forall w w', wpc s w = WSubL -> wpc s w' = WSubL -> w = w') /\
    (forall w k, wpc s w = WSubL -> rpc s <> RUpd k).
  Proof.
    intros Hr. destruct (lock_inv_reachable _ _ _ Hr) as (Hrd & Hmx & [Hrun1 Hrun2] & Hw & Hk).
    repeat apply conj.
    - intros Hwr. rewrite Hrd. destruct (rpc s) eqn:Hp; try reflexivity.
      exfalso. apply Hwr. eapply Hmx. reflexivity.
    - intros w w' H1 H2. apply Hw in H1. apply Hw in H2. congruence.
    - intros w k H1 H2. apply Hw in H1. assert (writer s = Some ARun) by eauto. congruence.
  Qed.

  (** ---- 2. every way the holder of the pool lock can be unable to move ---- *)

  Lemma valid_choice_keep s : valid_choice nconns s (best s) = true.
  Proof.
    unfold valid_choice. destruct (best s) as [b|]; [|reflexivity].
    rewrite Nat.eqb_refl. reflexivity.
  Qed.

  Lemma blocks_only_inv s :
    lock_inv s -> holder_can_step nconns tgt s \/ notify_blocked s \/ connlock_blocked s.
  Proof.
    intros (Hrd & Hmx & [Hrun1 Hrun2] & Hw & Hk). unfold holder_can_step.
    destruct (writer s) as [[|w]|] eqn:Hwr.
    - (* Run inside updateBest *)
      destruct (Hrun1 eq_refl) as [k Hp]. specialize (Hk _ Hp).
      destruct (Nat.eq_dec k nconns) as [->|Hne].
      + left. right. exists (best s). unfold step. rewrite Hp.
        unfold is_writer. rewrite Hwr. rewrite Nat.leb_refl, valid_choice_keep. discriminate.
      + destruct (cpc s k) as [|h] eqn:Hc.
        * left. left. unfold step. rewrite Hp. unfold is_writer. rewrite Hwr.
          assert (Hlt : Nat.ltb k nconns = true) by (apply Nat.ltb_lt; lia).
          rewrite Hlt, Hc. discriminate.
        * right. right. exists k, h. split; [exact Hc|]. left. exact Hp.
    - (* waiter w inside subscribe *)
      assert (Hpc : wpc s w = WSubL) by (apply Hw; reflexivity).
      unfold step. rewrite Hpc. unfold is_writer. rewrite Hwr, Nat.eqb_refl.
      destruct (best s) as [b|] eqn:Hb; [|left; discriminate].
      destruct (cpc s b) as [|h] eqn:Hc.
      + left. destruct (tgt w <=? head s b)%N; discriminate.
      + right. right. exists b, h. split; [exact Hc|]. right. exists w. auto.
    - (* no writer: the only reader is Run inside notifySubscribers *)
      destruct (rpc s) as [|u|u [|w rem]|k] eqn:Hp; try (left; left; exact Hrd).
      + left. right. right. unfold step. rewrite Hp. discriminate.
      + destruct (wch s w) as [m|] eqn:Hch.
        * right. left. exists u, w, rem, m. auto.
        * left. right. left. unfold step. rewrite Hp, Hch. discriminate.
  Qed.

  Theorem pool_blocks_only heads b s :
    reachable (init_state heads b) s ->
    holder_can_step nconns tgt s \/ notify_blocked s \/ connlock_blocked s.
  Proof. intros Hr. apply blocks_only_inv. exact (lock_inv_reachable _ _ _ Hr). Qed.

  Theorem pool_never_blocks_partial heads b s :
    reachable (init_state heads b) s ->
    ~ notify_blocked s -> ~ connlock_blocked s -> holder_can_step nconns tgt s.
  Proof.
    intros Hr Hn Hc. destruct (pool_blocks_only _ _ _ Hr) as [H|[H|H]]; [exact H|contradiction..].
  Qed.

  (** transient or permanent?  A blocked notification is resolved by the owner of
      the full channel if (and only if) that waiter is still in its select loop; a
      blocked connection-lock wait is resolved by the publisher if (and only if)
      the update buffer has room. *)
  Lemma notify_blocked_transient s u w rem m :
    rpc s = RNotify u (w :: rem) -> wch s w = Some m -> wpc s w = WWait ->
    step s (LRecv w) <> None.
  Proof. intros _ Hch Hpc. unfold step. rewrite Hpc, Hch. discriminate. Qed.

  Lemma connlock_blocked_transient s c h :
    cpc s c = CPub h -> length (updq s) < upd_cap -> step s (LPublish c) <> None.
  Proof.
    intros Hc Hlen. unfold step. rewrite Hc.
    apply Nat.ltb_lt in Hlen. rewrite Hlen. discriminate.
  Qed.

  (** F14: Run is sending into the full channel of a waiter that has already left
      its loop and wants the write lock for unsubscribe.  Nothing any agent does
      changes this: Run never finishes the notification, the waiter never returns. *)
  Definition f14_dead (u : msg) (w : nat) (rem : list nat) (r : wres) (s : state) : Prop :=
    rpc s = RNotify u (w :: rem) /\ wch s w <> None /\ wpc s w = WUnsub r /\ readers s <> 0.

  Lemma f14_dead_stable u w rem r s l s' :
    f14_dead u w rem r s -> step s l = Some s' -> f14_dead u w rem r s'.
  Proof.
    intros (Hp & Hch & Hpc & Hrd) Hs. unfold f14_dead.
    step_inv Hs; guards; sred; try congruence.
    all: repeat apply conj; fu; sred; try congruence; try lia.
  Qed.

  (** and while it lasts nobody can take the pool lock: no subscribe, no
      unsubscribe, no updateBest, and Run takes no further update *)
  Lemma f14_dead_freezes u w rem r s :
    f14_dead u w rem r s ->
    (forall w', step s (LSubLock w') = None) /\ (forall w', step s (LUnsub w') = None) /\
    step s LTick = None /\ step s LTake = None /\ step s LSend = None /\ step s LRUnlock = None.
  Proof.
    intros (Hp & Hch & Hpc & Hrd).
    assert (Hlf : lock_free s = false).
    { unfold lock_free. destruct (Nat.eqb_spec (readers s) 0); [contradiction|reflexivity]. }
    unfold step. rewrite Hp, Hlf. repeat apply conj; try reflexivity.
    - intros w'. destruct (wpc s w'); reflexivity.
    - intros w'. destruct (wpc s w'); reflexivity.
    - destruct (wch s w); [reflexivity|contradiction].
  Qed.

  (** second class: Run is inside updateBest (write lock held) waiting for the lock
      of connection k, which is blocked publishing into the full update buffer that
      only Run drains. *)
  Definition upd_dead (k : nat) (h : N) (s : state) : Prop :=
    rpc s = RUpd k /\ k < nconns /\ cpc s k = CPub h /\ length (updq s) = upd_cap.

  Lemma upd_dead_stable k h s l s' :
    upd_dead k h s -> step s l = Some s' -> upd_dead k h s'.
  Proof.
    intros (Hp & Hk & Hc & Hlen) Hs. unfold upd_dead.
    step_inv Hs; guards; sred; try congruence; try lia.
    all: repeat apply conj; fu; sred; try congruence; try lia.
    all: match goal with H : RUpd _ = RUpd _ |- _ => injection H as ->; lia end.
  Qed.

  (** third class: a waiter is inside subscribe (write lock held) waiting for the
      lock of the best connection, which is blocked publishing into the full
      buffer, while Run has already taken an update and waits for the read lock. *)
  Definition sub_dead (w c : nat) (h : N) (u : msg) (s : state) : Prop :=
    wpc s w = WSubL /\ writer s = Some (AW w) /\ best s = Some c /\ cpc s c = CPub h /\
    length (updq s) = upd_cap /\ rpc s = RWantR u.

  Lemma sub_dead_stable w c h u s l s' :
    sub_dead w c h u s -> step s l = Some s' -> sub_dead w c h u s'.
  Proof.
    intros (Hpc & Hwr & Hb & Hc & Hlen & Hp) Hs. unfold sub_dead.
    step_inv Hs; guards; sred; try congruence; try lia.
    all: repeat apply conj; fu; sred; try congruence; try lia.
  Qed.
End Inv.
