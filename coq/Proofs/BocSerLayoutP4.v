(** C01 — the bytes emitted by the serialiser model are the BOC layout, part 4:
    [serialize_is_layout].  Import facts (part 3) + re-ordering facts
    (BocReorderP3/P4) establish the premise of the output theorem (part 2). *)
From Coq Require Import List NArith ZArith Arith Bool Lia Permutation.
From Tongo Require Import Lib.Bits Lib.Res Spec.Crc32c Model.BitString Model.BocParse Model.CellHash
  Model.BocSer Spec.BocLayout Proofs.BocParseP Proofs.BocLayoutP
  Proofs.BocReorderP1 Proofs.BocReorderP2 Proofs.BocReorderP3 Proofs.BocReorderP4
  Proofs.BocSerLayoutP1 Proofs.BocSerLayoutP2 Proofs.BocSerLayoutP3.
Import ListNotations.

Lemma Forall2_length {A B} {P : A -> B -> Prop} {l l'} : Forall2 P l l' -> length l = length l'.
Proof. intros H. induction H; cbn [length]; [reflexivity|]. rewrite IHForall2. reflexivity. Qed.

(** cells of the input array reachable from the roots *)
Definition drefs (dag : list node) (c : nat) : list nat :=
  match nth_error dag c with Some nd => n_refs nd | None => [] end.
Definition dreach (dag : list node) (roots : list nat) : nat -> Prop := reach (drefs dag) roots.

Lemma dreach_child dag roots c nd r :
  dreach dag roots c -> nth_error dag c = Some nd -> In r (n_refs nd) -> dreach dag roots r.
Proof. intros H E Hin. eapply reach_child; [exact H|]. unfold drefs. rewrite E. exact Hin. Qed.

Lemma dreach_root dag roots r : In r roots -> dreach dag roots r.
Proof. apply reach_root. Qed.

(** the import invariant without any assumption on hashes: flags [True] (the
    measure is the distance to the end of the array) and [False] *)
Definition IS0 (dag : list node) (hashes : list (res bytes)) (roots : list nat) :=
  IS2 dag hashes (dreach dag roots) True False.

Section Main.
Variable dag : list node.
Variable hashes : list (res bytes).
Hypothesis Hwf : dag_wf dag.
Hypothesis Hreal : hashes_real hashes.

Lemma T1_fwd roots :
  True -> forall c nd r, dreach dag roots c -> nth_error dag c = Some nd -> In r (n_refs nd) ->
  length dag - r < length dag - c.
Proof.
  intros _ c nd r _ E Hin.
  pose proof (dag_wf_nth _ _ 0 c nd Hwf E) as (_ & _ & Hf). rewrite Forall_forall in Hf.
  specialize (Hf r Hin). cbv beta in Hf. lia.
Qed.

(** everything known after a successful [import_roots] *)
Definition imported (roots : list nat) (st0 : list cinfo) (m : list (bytes * nat)) (rootpos : list nat)
  (stf : list cinfo) (nl : list nat) : Prop :=
  import_phase dag hashes roots = Ok (st0, m, rootpos) /\
  import_roots dag hashes roots = Ok (stf, nl, map (newidx stf) rootpos) /\
  reorder_pre st0 /\ reorder_post st0 rootpos stf nl /\
  Permutation nl (seq 0 (length st0)) /\
  IS0 dag hashes roots st0 m /\ Forall2 (link dag hashes st0) rootpos roots.

Lemma import_roots_facts roots :
  match import_roots dag hashes roots with
  | Ok (stf, nl, rootidx) =>
      exists st0 m rootpos, rootidx = map (newidx stf) rootpos /\ imported roots st0 m rootpos stf nl
  | _ => True
  end.
Proof.
  pose proof (import_roots_valid dag hashes (dag_wf_fwd dag Hwf) Hreal roots) as HV.
  destruct (import_roots dag hashes roots) as [[[stf nl] rootidx]|e|p] eqn:EI; [|exact I|exact I].
  destruct HV as (st0 & m & rootpos & EP & Hpre & -> & Hpost & Hperm).
  exists st0, m, rootpos. split; [reflexivity|].
  pose proof (import_phase_links dag hashes (dreach dag roots) (dreach_child dag roots)
                True False (fun c => length dag - c) (T1_fwd roots)
                (fun (f : False) => match f with end) roots (dreach_root dag roots)) as HL.
  rewrite EP in HL. destruct HL as [HIS HF].
  unfold imported. split; [exact EP|]. split; [exact EI|]. split; [exact Hpre|].
  split; [exact Hpost|]. split; [exact Hperm|]. split; [exact HIS|exact HF].
Qed.

(** an input cell is imported at most once: at most [length dag] entries *)
Lemma NoDup_map_seq (f : nat -> nat) n :
  (forall i i', i < n -> i' < n -> f i = f i' -> i = i') -> NoDup (map f (seq 0 n)).
Proof.
  intros Hinj.
  assert (G : forall k b, b + k <= n -> NoDup (map f (seq b k))).
  { induction k as [|k IH]; intros b Hb; cbn [seq map]; constructor.
    - intros Hin. apply in_map_iff in Hin. destruct Hin as (x & Ex & Hx). apply in_seq in Hx.
      assert (x = b) by (apply Hinj; [lia|lia|exact Ex]). lia.
    - apply IH. lia. }
  apply G. lia.
Qed.

Lemma imported_count roots st0 m rootpos stf nl :
  imported roots st0 m rootpos stf nl -> length nl = length st0 /\ length st0 <= length dag.
Proof.
  intros (_ & _ & _ & _ & Hperm & HIS & _). split.
  - rewrite (Permutation_length Hperm), seq_length. reflexivity.
  - destruct HIS as (HLK & _ & _ & _ & HX & _). specialize (HX I).
    assert (G : length (map (nodeix st0) (seq 0 (length st0))) <= length (seq 0 (length dag)));
      [|rewrite map_length, !seq_length in G; exact G].
    apply NoDup_incl_length.
    + apply NoDup_map_seq. intros i i' Hi Hi' E. apply HX; assumption.
    + intros x Hx. apply in_map_iff in Hx. destruct Hx as (i & <- & Hi). apply in_seq in Hi.
      destruct (HLK i ltac:(lia)) as (nd & h & End & _).
      apply in_seq. split; [lia|]. cbn [Nat.add]. apply nth_error_Some. congruence.
Qed.

(** *** the premise of the output theorem *)
Hypothesis Hok : Forall node_ok dag.

Lemma newidx_pos st0 rootpos stf nl k i :
  reorder_post st0 rootpos stf nl -> nth_error nl k = Some i -> newidx stf i = k.
Proof.
  intros (_ & _ & _ & NL & _) E. apply NL in E. unfold newidx. rewrite E. apply Nat2Z.id.
Qed.

Lemma imported_infos_ok roots st0 m rootpos stf nl :
  imported roots st0 m rootpos stf nl -> infos_ok dag (map (get_ci stf) nl).
Proof.
  intros (_ & _ & _ & Hpost & _ & HIS & _). destruct HIS as (HLK & _).
  intros k ci Hk. rewrite nth_error_map in Hk.
  destruct (nth_error nl k) as [i|] eqn:E; [|discriminate]. injection Hk as <-.
  pose proof (newidx_pos _ _ _ _ _ _ Hpost E) as Hnk.
  destruct Hpost as (Hlen & _ & Hlt & _ & _ & Hrefs & _ & Hstat).
  pose proof (nth_error_In _ _ E) as Hin. specialize (Hlt i Hin).
  destruct (HLK i Hlt) as (nd & h & End & _ & HF2).
  destruct (Hstat i) as (Hnode & _). destruct (Hrefs i Hin) as [HL HJ].
  exists nd. split; [rewrite Hnode; exact End|].
  split; [rewrite Forall_forall in Hok; apply Hok; eapply nth_error_In; exact End|].
  pose proof (dag_wf_nth _ _ 0 _ nd Hwf End) as (Hb & Hr & _).
  pose proof (Forall2_length HF2) as HL2.
  split; [exact Hb|]. fold (rf stf i). split; [lia|].
  apply Forall_forall. intros x Hx. destruct (In_nth _ _ 0 Hx) as (j & Hj & <-).
  destruct (HJ j ltac:(lia)) as (_ & -> & Hlt'). lia.
Qed.

(** *** the emitted cells, described from the imported array *)
Definition epos (stf : list cinfo) (nl : list nat) (i : nat) : nat := length nl - 1 - newidx stf i.

(* entry [i] of the import array is written at position [epos i]: payload of
   its input cell, references = positions of the entries imported for the
   children, in order *)
Definition emitted_as (st0 stf : list cinfo) (nl : list nat) (cells : list node) : Prop :=
  forall i, i < length st0 ->
  exists nd, nth_error dag (nodeix st0 i) = Some nd /\
             epos stf nl i < length cells /\
             nth_error cells (epos stf nl i)
             = Some (mknode (n_special nd) (n_type nd) (n_mask nd) (n_bits nd)
                            (map (epos stf nl) (rf st0 i))).

Lemma map_nth_eq (f : nat -> nat) : forall a b,
  length a = length b -> (forall j, j < length b -> nth j a 0 = f (nth j b 0)) -> a = map f b.
Proof.
  induction a as [|x a IH]; intros [|y b] HL H; cbn [length] in HL; try lia; [reflexivity|].
  cbn [map]. f_equal.
  - apply (H 0). cbn [length]. lia.
  - apply IH; [lia|]. intros j Hj. apply (H (S j)). cbn [length]. lia.
Qed.

Lemma imported_emitted roots st0 m rootpos stf nl :
  imported roots st0 m rootpos stf nl -> emitted_as st0 stf nl (out_cells dag stf nl).
Proof.
  intros Himp. pose proof (imported_count _ _ _ _ _ _ Himp) as [Hn _].
  destruct Himp as (_ & _ & _ & Hpost & Hperm & HIS & _). destruct HIS as (HLK & _).
  intros i Hi.
  assert (Hin : In i nl).
  { eapply Permutation_in; [apply Permutation_sym; exact Hperm|]. apply in_seq. lia. }
  destruct (In_nth_error _ _ Hin) as [k Hk].
  pose proof (newidx_pos _ _ _ _ _ _ Hpost Hk) as Hnk.
  assert (Hkl : k < length nl) by (apply nth_error_Some; congruence).
  destruct (HLK i Hi) as (nd & h & End & _ & HF2).
  destruct Hpost as (_ & _ & _ & _ & _ & Hrefs & _ & Hstat).
  destruct (Hstat i) as (Hnode & _). destruct (Hrefs i Hin) as [HL HJ].
  exists nd. split; [exact End|]. unfold epos. rewrite Hnk, out_cells_length. split; [lia|].
  unfold out_cells. rewrite nth_error_map.
  rewrite nth_error_rev by (rewrite map_length; lia).
  rewrite map_length. replace (length nl - 1 - (length nl - 1 - k)) with k by lia.
  rewrite nth_error_map, Hk. cbn [option_map]. f_equal.
  unfold out_node. rewrite Hnode. fold (nodeix st0 i). rewrite End. f_equal.
  fold (rf stf i). rewrite (map_nth_eq (newidx stf) (rf stf i) (rf st0 i) HL).
  - rewrite map_map. reflexivity.
  - intros j Hj. destruct (HJ j Hj) as (_ & E & _). exact E.
Qed.

(** *** [serialize_is_layout] *)
Theorem serialize_is_layout_gen roots idx hasCrc cacheBits bs :
  length roots < 256 ->
  serialize dag hashes roots idx hasCrc cacheBits = Ok bs ->
  exists st0 m rootpos stf nl,
    imported roots st0 m rootpos stf nl /\
    ((N.of_nat (length nl) < 2 ^ 24)%N ->
     let v := out_variant dag stf nl idx hasCrc cacheBits in
     let cells := out_cells dag stf nl in
     let ri := out_roots (length nl) (map (newidx stf) rootpos) in
     bs = layout v cells ri /\ layout_ok v cells ri /\
     emitted_as st0 stf nl cells /\
     ri = map (epos stf nl) rootpos).
Proof.
  intros Hrc E. rewrite serialize_eq in E.
  pose proof (import_roots_facts roots) as HF.
  destruct (import_roots dag hashes roots) as [[[stf nl] rootidx]|e|p]; cbn [bind] in E; try discriminate.
  destruct HF as (st0 & m & rootpos & -> & Himp).
  exists st0, m, rootpos, stf, nl. split; [exact Himp|]. intros Hn v cells ri.
  pose proof (imported_infos_ok _ _ _ _ _ _ Himp) as Hio.
  rewrite (ser_out_is_layout dag stf nl _ idx hasCrc cacheBits Hio Hn) in E.
  cbv zeta in E. fold v cells ri in E.
  destruct (_ <? _)%N; [discriminate|]. injection E as <-.
  split; [reflexivity|]. split.
  - apply out_layout_ok; [exact Hio|exact Hn| |].
    + rewrite map_length. destruct Himp as (_ & _ & _ & _ & _ & _ & HF2).
      rewrite (Forall2_length HF2). exact Hrc.
    + apply Forall_forall. intros x Hx. apply in_map_iff in Hx. destruct Hx as (r & <- & Hr).
      destruct Himp as (_ & _ & _ & Hpost & _).
      destruct Hpost as (_ & _ & _ & NL & _ & _ & Hroots & _).
      specialize (Hroots r Hr). destruct (In_nth_error _ _ Hroots) as [k Hk].
      assert (Hkl : k < length nl) by (apply nth_error_Some; congruence).
      apply NL in Hk. unfold newidx. rewrite Hk, Nat2Z.id. exact Hkl.
  - split; [eapply imported_emitted; exact Himp|].
    unfold ri, out_roots. rewrite map_map. reflexivity.
Qed.

(** with the bound stated on the input array *)
Theorem serialize_is_layout roots idx hasCrc cacheBits bs :
  (N.of_nat (length dag) < 2 ^ 24)%N -> length roots < 256 ->
  serialize dag hashes roots idx hasCrc cacheBits = Ok bs ->
  exists st0 m rootpos stf nl,
    imported roots st0 m rootpos stf nl /\
    let v := out_variant dag stf nl idx hasCrc cacheBits in
    let cells := out_cells dag stf nl in
    let ri := map (epos stf nl) rootpos in
    bs = layout v cells ri /\ layout_ok v cells ri /\ emitted_as st0 stf nl cells.
Proof.
  intros Hd Hrc E.
  destruct (serialize_is_layout_gen roots idx hasCrc cacheBits bs Hrc E)
    as (st0 & m & rootpos & stf & nl & Himp & HG).
  exists st0, m, rootpos, stf, nl. split; [exact Himp|].
  destruct (imported_count _ _ _ _ _ _ Himp) as [H1 H2].
  specialize (HG ltac:(lia)). cbv zeta in HG. destruct HG as (A & B & C & D).
  cbv zeta. rewrite <- D. split; [exact A|]. split; [exact B|exact C].
Qed.

(** the size limit, exactly: once the import succeeded, the result is [Err ESer]
    iff the layout (without the CRC trailer) is longer than the capacity
    [(1023 + 32*4 + 32*3) * cellCount] bits of the output bit string *)
Theorem serialize_capacity roots idx hasCrc cacheBits stf nl rootidx :
  (N.of_nat (length dag) < 2 ^ 24)%N ->
  import_roots dag hashes roots = Ok (stf, nl, rootidx) ->
  let v := out_variant dag stf nl idx hasCrc cacheBits in
  let cells := out_cells dag stf nl in
  let ri := out_roots (length nl) rootidx in
  serialize dag hashes roots idx hasCrc cacheBits =
  if (s_capacity (length nl) <? 8 * N.of_nat (body_len v cells ri))%N then Err ESer
  else Ok (layout v cells ri).
Proof.
  intros Hd EI. pose proof (import_roots_facts roots) as HF. rewrite EI in HF.
  destruct HF as (st0 & m & rootpos & -> & Himp).
  destruct (imported_count _ _ _ _ _ _ Himp) as [H1 H2].
  rewrite serialize_eq, EI. cbn [bind].
  apply ser_out_is_layout; [eapply imported_infos_ok; exact Himp|lia].
Qed.

End Main.
