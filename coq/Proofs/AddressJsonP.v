(** JSON form of the TL-B address: MsgAddress.UnmarshalJSON inverts
    MsgAddress.MarshalJSON on every addr_std value (all int8 workchains, with or
    without anycast) and on addr_none; hence AccountID -> ToMsgAddress -> JSON
    -> MsgAddress -> AccountIDFromTlb is the identity. *)
From Coq Require Import List NArith ZArith Arith Lia Bool.
From Tongo Require Import Lib.Bits Lib.Res Model.Address Model.Adnl Model.AddressTlb Model.AddressJson
  Proofs.Crc16P Proofs.Base64P Proofs.AddressP Proofs.AddressRawP Proofs.AddressTlbP.
Import ListNotations.
Local Open Scope N_scope.

(** ** strings.Trim of the quotes *)
Lemma drop_quotes_id c t : c <> 34 -> drop_quotes (c :: t) = c :: t.
Proof. intros H. cbn [drop_quotes]. destruct (N.eqb_spec c 34); [contradiction|reflexivity]. Qed.

Lemma trim_quotes_quoted b : b <> [] -> Forall (fun c => c <> 34) b ->
  trim_quotes (34 :: b ++ [34]) = b.
Proof.
  intros Hne HF. unfold trim_quotes. cbn [drop_quotes N.eqb Pos.eqb].
  destruct b as [|c b']; [contradiction|].
  inversion HF as [|? ? Hc HF']; subst.
  cbn [app]. rewrite drop_quotes_id by exact Hc.
  change (c :: b' ++ [34]) with ((c :: b') ++ [34]). rewrite rev_app_distr. cbn [rev app].
  cbn [drop_quotes N.eqb Pos.eqb].
  assert (HR : Forall (fun c => c <> 34) (rev b' ++ [c])).
  { apply Forall_app. split; [apply Forall_rev; exact HF'|constructor; [exact Hc|constructor]]. }
  destruct (rev b' ++ [c]) as [|x l] eqn:E.
  - destruct (rev b'); discriminate.
  - inversion HR; subst. rewrite drop_quotes_id by assumption.
    rewrite <- E. rewrite rev_app_distr, rev_involutive. reflexivity.
Qed.

(** ** strings.Split *)
Lemma split_colons_nonempty cs : split_colons cs <> [].
Proof.
  destruct cs as [|c t]; cbn [split_colons]; [discriminate|].
  destruct (c =? 58); [discriminate|]. destruct (split_colons t); discriminate.
Qed.

Lemma split_colons_single a : Forall (fun c => c <> 58) a -> split_colons a = [a].
Proof.
  induction a as [|c a IH]; intros HF; [reflexivity|].
  inversion HF as [|? ? Hc HF']; subst. cbn [split_colons].
  destruct (N.eqb_spec c 58); [contradiction|]. rewrite IH by exact HF'. reflexivity.
Qed.

Lemma split_colons_app a r : Forall (fun c => c <> 58) a ->
  split_colons (a ++ 58 :: r) = a :: split_colons r.
Proof.
  induction a as [|c a IH]; intros HF; cbn [app split_colons].
  - reflexivity.
  - inversion HF as [|? ? Hc HF']; subst.
    destruct (N.eqb_spec c 58); [contradiction|]. rewrite IH by exact HF'. reflexivity.
Qed.

(** ** scanning a decimal uint32 *)
Lemma span_num_app a r : Forall is_digit a ->
  match r with [] => True | c :: _ => is_numch c = false end ->
  span_num (a ++ r) = (a, r).
Proof.
  induction a as [|c a IH]; intros HF Hr; cbn [app].
  - destruct r as [|c r]; [reflexivity|]. cbn [span_num]. rewrite Hr. reflexivity.
  - inversion HF as [|? ? Hc HF']; subst. cbn [span_num].
    assert (E : is_numch c = true).
    { unfold is_numch, is_digit in *. apply andb_true_intro. split; apply N.leb_le; lia. }
    rewrite E, IH by assumption. reflexivity.
Qed.

Lemma scan_u32_dec n r : n < 2 ^ 32 ->
  match r with [] => True | c :: _ => is_numch c = false end ->
  scan_u32 (dec_N n ++ r) = Some (n, r).
Proof.
  intros Hn Hr. unfold scan_u32. rewrite span_num_app by (try apply dec_N_digits; exact Hr).
  pose proof (dec_N_nonempty n) as Hne.
  destruct (dec_N n) as [|x l] eqn:E; [contradiction|]. rewrite <- E.
  rewrite dec_N_value by (change (2 ^ 32) with 4294967296 in Hn; change (10 ^ 20) with 100000000000000000000; lia).
  destruct (N.ltb_spec n (2 ^ 32)); [reflexivity|lia].
Qed.

Lemma strip_prefix_app pre r : strip_prefix pre (pre ++ r) = Some r.
Proof.
  induction pre as [|p pre IH]; cbn [app strip_prefix]; [destruct r; reflexivity|].
  rewrite N.eqb_refl. exact IH.
Qed.

Definition anycast_text (d p : N) : list N := anycast_open ++ dec_N d ++ 44 :: dec_N p ++ [41].

Lemma parse_anycast_print d p : d < 2 ^ 32 -> p < 2 ^ 32 ->
  parse_anycast (anycast_text d p) = Ok (d, p).
Proof.
  intros Hd Hp. unfold parse_anycast, anycast_text. rewrite strip_prefix_app.
  replace (dec_N d ++ 44 :: dec_N p ++ [41]) with ((dec_N d ++ 44 :: dec_N p) ++ [41])
    by (rewrite <- app_assoc; reflexivity).
  rewrite rev_app_distr. cbn [rev app]. rewrite rev_involutive.
  rewrite scan_u32_dec by (try exact Hd; reflexivity).
  rewrite <- (app_nil_r (dec_N p)). rewrite scan_u32_dec by (try exact Hp; exact I). reflexivity.
Qed.

(** ** characters of the printed form *)
Definition okch (c : N) : Prop := c <> 34 /\ c <> 58 /\ c <> 95.

Lemma digit_okch c : is_digit c -> okch c.
Proof. unfold is_digit, okch. lia. Qed.

Lemma dec_N_okch n : Forall okch (dec_N n).
Proof. eapply Forall_impl; [|apply dec_N_digits]. exact digit_okch. Qed.

Lemma dec_Z_okch z : Forall okch (dec_Z z).
Proof.
  unfold dec_Z. destruct z; try apply dec_N_okch.
  constructor; [unfold okch; lia|apply dec_N_okch].
Qed.

Lemma hex_lower_okch d : d < 16 -> okch (hex_lower d).
Proof. intros H. unfold hex_lower, okch. destruct (N.ltb_spec d 10); lia. Qed.

Lemma hex_print_okch addr : bytes_ok addr -> Forall okch (flat_map hex_byte addr).
Proof.
  induction addr as [|b a IH]; intros Hb; cbn [flat_map]; [constructor|].
  inversion Hb as [|? ? Hb0 Hb']; subst. cbn [hex_byte app].
  constructor; [|constructor; [|apply IH; exact Hb']].
  - apply hex_lower_okch. apply N.div_lt_upper_bound; lia.
  - apply hex_lower_okch. apply N.mod_lt. lia.
Qed.

Lemma anycast_text_okch d p : Forall (fun c => c <> 34 /\ c <> 58) (anycast_text d p).
Proof.
  unfold anycast_text, anycast_open.
  assert (G : forall n, Forall (fun c => c <> 34 /\ c <> 58) (dec_N n)).
  { intros n. eapply Forall_impl; [|apply dec_N_okch]. unfold okch. intros; lia. }
  repeat (apply Forall_app; split); try apply G;
    repeat constructor; try lia; try apply G.
  apply Forall_app. split; [apply G|repeat constructor; lia].
Qed.

Lemma ends_underscore_false h : Forall okch h -> ends_underscore h = false.
Proof.
  intros HF. unfold ends_underscore. apply Forall_rev in HF.
  destruct (rev h) as [|x l]; [reflexivity|]. inversion HF as [|? ? (_ & _ & Hx) _]; subst.
  destruct (N.eqb_spec x 95); [contradiction|reflexivity].
Qed.

(** ** addr_std through MarshalJSON / UnmarshalJSON *)
Definition any_json_ok (a : option (N * N)) : Prop :=
  match a with None => True | Some (d, p) => d < 2 ^ 32 /\ p < 2 ^ 32 end.

Lemma is_int8_true wc : (-128 <= wc < 128)%Z -> is_int8 wc = true.
Proof. intros H. unfold is_int8. apply andb_true_intro. split; apply Z.leb_le; lia. Qed.

Lemma ma_json_std_roundtrip any wc addr :
  any_json_ok any -> (-128 <= wc < 128)%Z -> length addr = 32%nat -> bytes_ok addr ->
  ma_json_parse (ma_json_print (MAStd any wc addr)) = Ok (MAStd any wc addr).
Proof.
  intros Ha Hwc HL Hb. unfold ma_json_print, ma_json_parse, ma_json_parse_with.
  set (w := dec_Z wc). set (h := flat_map hex_byte addr).
  assert (Hw : Forall okch w) by apply dec_Z_okch.
  assert (Hh : Forall okch h) by (apply hex_print_okch; exact Hb).
  assert (Hwne : w <> []).
  { unfold w, dec_Z. destruct wc; try apply dec_N_nonempty. discriminate. }
  assert (Hwc32 : (- 2 ^ 31 <= wc < 2 ^ 31)%Z) by lia.
  assert (Hnq : forall l, Forall okch l -> Forall (fun c => c <> 34) l).
  { intros l H. eapply Forall_impl; [|exact H]. unfold okch. intros; lia. }
  assert (Hnc : forall l, Forall okch l -> Forall (fun c => c <> 58) l).
  { intros l H. eapply Forall_impl; [|exact H]. unfold okch. intros; lia. }
  assert (Hlen : len_is 64 h = true).
  { apply len_is_spec. unfold h. rewrite hex_print_length, HL. reflexivity. }
  cbn [ma_json_body]. fold w h.
  destruct any as [[d p]|]; cbn [anycast_suffix any_json_ok] in *.
  - destruct Ha as [Hd Hp]. fold (anycast_text d p).
    pose proof (anycast_text_okch d p) as Hat.
    assert (Hbody : Forall (fun c => c <> 34) (w ++ 58 :: h ++ 58 :: anycast_text d p)).
    { apply Forall_app. split; [apply Hnq; exact Hw|]. constructor; [lia|].
      apply Forall_app. split; [apply Hnq; exact Hh|]. constructor; [lia|].
      eapply Forall_impl; [|exact Hat]. intros ? HH; cbv beta in HH; lia. }
    rewrite trim_quotes_quoted; [|destruct w; [contradiction|discriminate]|exact Hbody].
    destruct (w ++ 58 :: h ++ 58 :: anycast_text d p) as [|x0 l0] eqn:E0;
      [destruct w; [contradiction|discriminate]|]. rewrite <- E0.
    rewrite split_colons_app by (apply Hnc; exact Hw).
    rewrite split_colons_app by (apply Hnc; exact Hh).
    rewrite split_colons_single by (eapply Forall_impl; [|exact Hat]; intros ? HH; cbv beta in HH; lia).
    rewrite parse_anycast_print by assumption. cbn [bind].
    unfold w. rewrite parse_int_dec_Z by exact Hwc32.
    rewrite is_int8_true by exact Hwc. rewrite Hlen, ends_underscore_false by exact Hh.
    cbn [andb negb]. unfold h. rewrite hex_decode_print by exact Hb. reflexivity.
  - rewrite app_nil_r.
    assert (Hbody : Forall (fun c => c <> 34) (w ++ 58 :: h)).
    { apply Forall_app. split; [apply Hnq; exact Hw|]. constructor; [lia|apply Hnq; exact Hh]. }
    rewrite trim_quotes_quoted; [|destruct w; [contradiction|discriminate]|exact Hbody].
    destruct (w ++ 58 :: h) as [|x0 l0] eqn:E0; [destruct w; [contradiction|discriminate]|]. rewrite <- E0.
    rewrite split_colons_app by (apply Hnc; exact Hw).
    rewrite split_colons_single by (apply Hnc; exact Hh).
    cbn [bind].
    unfold w. rewrite parse_int_dec_Z by exact Hwc32.
    rewrite is_int8_true by exact Hwc. rewrite Hlen, ends_underscore_false by exact Hh.
    cbn [andb negb]. unfold h. rewrite hex_decode_print by exact Hb. reflexivity.
Qed.

Lemma ma_json_none_roundtrip : ma_json_parse (ma_json_print MANone) = Ok MANone.
Proof. reflexivity. Qed.

(* AccountID -> ToMsgAddress -> json.Marshal -> json.Unmarshal -> AccountIDFromTlb *)
Lemma ma_json_account_roundtrip wc addr :
  (-128 <= wc < 128)%Z -> length addr = 32%nat -> bytes_ok addr ->
  ma_json_parse (account_to_ma_json wc addr) = Ok (to_msg_address wc addr) /\
  account_from_ma_json (account_to_ma_json wc addr) = Ok (Some (wc, addr)).
Proof.
  intros Hwc HL Hb. unfold account_from_ma_json, account_to_ma_json, to_msg_address.
  rewrite int8_of_Z_id by exact Hwc.
  rewrite (ma_json_std_roundtrip None wc addr I Hwc HL Hb). split; reflexivity.
Qed.

(* the printed text is the quoted raw form of the account *)
Lemma ma_json_is_raw wc addr : (-128 <= wc < 128)%Z ->
  account_to_ma_json wc addr = json_marshal wc addr.
Proof.
  intros Hwc. unfold account_to_ma_json, to_msg_address, ma_json_print, json_marshal, print_raw.
  rewrite int8_of_Z_id by exact Hwc. cbn [ma_json_body anycast_suffix]. rewrite app_nil_r. reflexivity.
Qed.
