(** Run handles the queued head updates one by one, in FIFO order (Model/PoolWait.v):
    every update a SetMasterHead publishes into masterHeadUpdatedCh is taken by Run
    individually, oldest first, and is the argument of one notifySubscribers call;
    nothing is merged or skipped.  (The design that merges the queued updates into
    "the newest head" is refuted in Proofs/PoolMutants.v.) *)
From Coq Require Import List NArith ZArith Bool Arith Lia.
From Tongo Require Import Model.Pool Model.PoolWait Proofs.PoolWaitP.
Import ListNotations.

Section Fifo.
  Variable strat : strategy.
  Variable nconns : nat.
  Variable tgt : nat -> N.
  Notation step := (step strat false false nconns tgt).
  Notation reachable := (reachable strat false false nconns tgt).

  (** what a step takes out of / appends to the update buffer *)
  Definition taken (s : state) (l : label) : list msg :=
    match l, rpc s, updq s with
    | LTake, RIdle, u :: _ => [u]
    | _, _, _ => []
    end.
  Definition published (s : state) (l : label) : list msg :=
    match l with
    | LPublish k => match nth_error (pend s) k with Some m => [m] | None => [] end
    | _ => []
    end.

  Lemma step_fifo s l s' : step s l = Some s' -> updq s ++ published s l = taken s l ++ updq s'.
  Proof.
    intros Hs. unfold taken, published. step_inv Hs; guards; sred.
    all: repeat match goal with H : _ = _ |- _ => rewrite H end; cbn [app]; rewrite ?app_nil_r; try reflexivity.
    all: try (destruct (rpc _); try reflexivity; destruct (updq _); reflexivity).
  Qed.

  (** a run with its log: the updates taken by Run and the updates published, in order *)
  Fixpoint run_log (s : state) (ls : list label) : option (state * list msg * list msg) :=
    match ls with
    | [] => Some (s, [], [])
    | l :: t =>
        match step s l with
        | Some s1 =>
            match run_log s1 t with
            | Some (s', tk, pb) => Some (s', taken s l ++ tk, published s l ++ pb)
            | None => None
            end
        | None => None
        end
    end.

  (** FIFO, nothing lost, nothing merged: what was queued plus what was published is
      exactly what Run took, in that order, followed by what is still queued *)
  Theorem run_fifo ls : forall s s' tk pb,
    run_log s ls = Some (s', tk, pb) -> updq s ++ pb = tk ++ updq s'.
  Proof.
    induction ls as [|l t IH]; intros s s' tk pb Hrun; cbn [run_log] in Hrun.
    - injection Hrun as <- <- <-. rewrite app_nil_r. reflexivity.
    - destruct (step s l) as [s1|] eqn:Hs; [|discriminate].
      destruct (run_log s1 t) as [[[s2 tk2] pb2]|] eqn:Hr; [|discriminate].
      injection Hrun as <- <- <-. specialize (IH _ _ _ _ Hr). pose proof (step_fifo _ _ _ Hs) as H1.
      rewrite app_assoc, H1, <- !app_assoc, IH. reflexivity.
  Qed.

  (** Run takes one update per iteration, the oldest one, and only from its select *)
  Theorem take_one_oldest s s' :
    step s LTake = Some s' ->
    exists u rest, rpc s = RIdle /\ updq s = u :: rest /\ updq s' = rest /\ rpc s' = RWantR u.
  Proof.
    intros Hs. step_inv Hs; guards; sred. eexists _, _. repeat apply conj; reflexivity.
  Qed.

  (** the update taken is the one notifySubscribers is called with; it is matched
      against the connection that is the best one at that moment *)
  Theorem taken_is_notified s u o s' :
    rpc s = RWantR u -> step s (LRLock o) = Some s' ->
    exists rem, rpc s' = RNotify u (same_best s (fst u)) rem /\ updq s' = updq s /\
                (same_best s (fst u) = false -> rem = []).
  Proof.
    intros Hp Hs. step_inv Hs; guards; sred.
    all: match goal with H : RWantR _ = RWantR _ |- _ => injection H as -> end.
    all: match goal with H : same_best _ _ = _ |- _ => rewrite H end.
    all: eexists; repeat apply conj; try reflexivity; congruence.
  Qed.

  (** and Run does nothing else in between: it stays at that update until the RLock *)
  Theorem taken_update_kept s u l s' :
    rpc s = RWantR u -> step s l = Some s' -> rpc s' = RWantR u \/ exists o, l = LRLock o.
  Proof.
    intros Hp Hs. step_inv Hs; guards; sred; try (left; congruence); try congruence.
    all: right; eexists; reflexivity.
  Qed.
End Fifo.
