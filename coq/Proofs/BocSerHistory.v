(** C01, history: why the serialiser must not keep its hasher between calls.
    The code builds a new bagOfCells with a new Hasher for every ToBoc /
    ToBocCustom / SerializeBoc.  The design refuted here (seeded change
    C01-r2m2) takes the bag from a pool and puts it back with its hasher: the
    hasher's maps are keyed by cell POINTER (a slot of the array, in the
    vocabulary of Model/BocHist.v) and are never cleared, so a cell that was
    serialised and then written to keeps its old hash as de-duplication key.

    [pooled_import] is importCell with the hasher of Model/HasherCache.v threaded
    through it (Hasher.HashString = [hasher_hash_string], same maps, same
    registration points); [pooled_serialize] gives the serialiser model the
    answers the hasher gave.  The witness is the history of the demo: an empty
    body cell is dumped, filled with x{DEADBEEF}, and put into a parent next to
    another empty cell.  The pooled design answers with TWO cells, and its bytes
    parse to the tree  x{00} -> (x{DEADBEEF}, x{DEADBEEF}): two structurally
    different cells merged.  The model of the code (no state between calls)
    answers with three cells that unfold to the current structure. *)
From Coq Require Import List NArith ZArith Arith Bool.
From Tongo Require Import Lib.Bits Lib.Res Spec.Sha256 Model.BocParse Model.CellHash Model.HasherCache
  Model.BocSer Model.BocHist Proofs.BocParseP.
Import ListNotations.

Section Pooled.
Variable H : bytes -> bytes.

(* importCell asking a hasher that outlives the call; log = (cell, answer) *)
Fixpoint pooled_import (fuel : nat) (cells : list node) (hs : hasher) (seen : list bytes)
    (log : list (nat * res bytes)) (cell : nat) : hasher * list bytes * list (nat * res bytes) :=
  match fuel with
  | O => (hs, seen, log)
  | S f =>
      let '(hs1, r) := hasher_hash_string H false cells hs cell in
      let log1 := (cell, r) :: log in
      match r, nth_error cells cell with
      | Ok h, Some nd =>
          if existsb (bytes_eqb h) seen then (hs1, seen, log1)
          else
            let '(hs2, seen2, log2) :=
              fold_left (fun acc ref => let '(a, b, c) := acc in pooled_import f cells a b c ref)
                        (n_refs nd) (hs1, seen, log1) in
            (hs2, h :: seen2, log2)
      | _, _ => (hs1, seen, log1)
      end
  end.

Fixpoint log_get (log : list (nat * res bytes)) (i : nat) : res bytes :=
  match log with
  | [] => Panic PNil
  | (k, r) :: t => if Nat.eqb k i then r else log_get t i
  end.

(* one request on a pooled bag: the answers of the long-lived hasher are what
   the serialiser sees *)
Definition pooled_serialize (cells : list node) (hs : hasher) (k : nat) (idx crc cache : bool)
  : hasher * res bytes :=
  let '(hs', _, log) := pooled_import (S (length cells)) cells hs [] [] k in
  (hs', serialize cells (map (log_get log) (seq 0 (length cells))) [k] idx crc cache).

Fixpoint pooled_run (st : list node) (hs : hasher) (steps : list hstep) : list (res bytes) :=
  match steps with
  | [] => []
  | s :: t =>
      match hist_mutate st s with
      | Some st' =>
          match s with
          | HSer api k idx crc cache _ =>
              let '(hs', r) :=
                if Nat.eqb api 0 then pooled_serialize st hs k false false false
                else pooled_serialize st hs k idx crc cache in
              r :: pooled_run st' hs' t
          | _ => pooled_run st' hs t
          end
      | None => []
      end
  end.

End Pooled.

Definition hashes_sha (cells : list node) : list (res bytes) :=
  map (fun ri => do c <- ri; cell_hash c) (eval_dag sha256 0 cells).

(* slot 0: parent, slot 1: body, slot 2: another (empty) cell *)
Definition deadbeef : bits := bits_of 32 3735928559.
Definition wit_steps : list hstep :=
  [ HSer 1 1 false false false 0;            (* body.ToBocCustom while still empty *)
    HWrite 1 deadbeef;                       (* body.WriteUint(0xDEADBEEF, 32) *)
    HWrite 0 (bits_of 8 0); HRef 0 1; HRef 0 2;
    HSer 2 0 false false false 0 ].          (* boc.SerializeBoc(parent) *)

Definition wit_now : list node :=
  [ mknode false 0 0 (bits_of 8 0) [1; 2]%nat; mknode false 0 0 deadbeef []; empty_cell ].

Lemma wit_state : hist_state (hist_init 3) wit_steps = Some wit_now.
Proof. vm_compute. reflexivity. Qed.

Definition answers_code : list (res bytes) :=
  match hist_run hashes_sha (hist_init 3) wit_steps with
  | Some (_, outs) => map snd outs
  | None => []
  end.
Definition answers_pooled : list (res bytes) := pooled_run sha256 (hist_init 3) new_hasher wit_steps.

Definition parsed_root_tree (r : res bytes) : option tree :=
  match r with
  | Ok bs =>
      match parse_boc bs with
      | Ok p => match p_roots p with [x] => unfold_at (length (p_cells p)) (p_cells p) x | _ => None end
      | _ => None
      end
  | _ => None
  end.
Definition parsed_count (r : res bytes) : option nat :=
  match r with
  | Ok bs => match parse_boc bs with Ok p => Some (length (p_cells p)) | _ => None end
  | _ => None
  end.

Definition T_leaf (b : bits) : tree := T false 0 0 b [].

(** the first request cannot tell the designs apart; the second one can *)
Theorem pooled_hasher_refuted :
  nth_error answers_pooled 0 = nth_error answers_code 0 /\
  (* the code: three cells, the current structure *)
  option_map parsed_count (nth_error answers_code 1) = Some (Some 3%nat) /\
  option_map parsed_root_tree (nth_error answers_code 1) = Some (unfold_at 3 wit_now 0) /\
  unfold_at 3 wit_now 0 = Some (T false 0 0 (bits_of 8 0) [T_leaf deadbeef; T_leaf []]) /\
  (* the pooled bag: two cells; x{} has been replaced by x{DEADBEEF} *)
  option_map parsed_count (nth_error answers_pooled 1) = Some (Some 2%nat) /\
  option_map parsed_root_tree (nth_error answers_pooled 1)
    = Some (Some (T false 0 0 (bits_of 8 0) [T_leaf deadbeef; T_leaf deadbeef])) /\
  nth_error answers_pooled 1 <> nth_error answers_code 1.
Proof.
  assert (A : option_map parsed_count (nth_error answers_code 1) = Some (Some 3%nat)) by (vm_compute; reflexivity).
  assert (B : option_map parsed_count (nth_error answers_pooled 1) = Some (Some 2%nat)) by (vm_compute; reflexivity).
  split; [vm_compute; reflexivity|]. split; [exact A|]. split; [vm_compute; reflexivity|].
  split; [vm_compute; reflexivity|]. split; [exact B|]. split; [vm_compute; reflexivity|].
  intros E. rewrite E in B. rewrite A in B. discriminate B.
Qed.

(** the same bytes as the demo of the seeded change observes on the Go code *)
Example pooled_bytes :
  nth_error answers_pooled 1
    = Some (Ok [181; 238; 156; 114; 1; 1; 2; 1; 0; 11; 0; 2; 2; 0; 1; 1; 0; 8; 222; 173; 190; 239]%N) /\
  nth_error answers_code 1
    = Some (Ok [181; 238; 156; 114; 1; 1; 3; 1; 0; 13; 0; 2; 2; 0; 1; 2; 0; 8; 222; 173; 190; 239; 0; 0]%N).
Proof. split; vm_compute; reflexivity. Qed.
