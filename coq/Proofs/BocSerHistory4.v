(** C01, history (round 4): two designs of the serialiser that a single-cell or
    small-cell test cannot tell from the code, refuted with witnesses.

    1. Output capacity "CellBits per cell plus ONE header" (seeded change
       C01-r4m1).  The code sizes its output bit string as
       (1023 + 32*4 + 32*3) * cellCount; the slack per cell pays for the two
       descriptor bytes, the completion-tag rounding, the reference indices and
       the index entry.  With 1023 * cellCount + 224 bits a DAG of densely
       filled cells does not fit: witness, four full cells each referencing the
       next one four times (and a nine-cell "snake" of 127-byte cells).
       [serialize] (the code's model) returns bytes for them — as
       C01_serialize_succeeds says it must — and they are longer than the tight
       capacity, so the tight design answers BitString overflow.

    2. De-duplication keyed by the FIRST computed hash of a cell instead of its
       representation hash (seeded change C01-r4m2: Hasher.HashString returning
       imc.hashes[0]).  For a cell of level 0 and for a pruned branch the two
       coincide; for an ordinary cell above a pruned branch hashes[0] is the hash
       of the ORIGINAL, unpruned cell, so two differently pruned copies of one
       tree get the same key.  Witness: two Merkle proofs of one three-cell tree
       that reveal different leaves, in one container.  The design stores the
       second view as the first one: the bytes parse to a different tree (the
       leaf revealed by the second proof is gone). *)
From Coq Require Import List NArith ZArith Arith Bool.
From Tongo Require Import Lib.Bits Lib.Res Spec.Sha256 Model.BocParse Model.CellHash Model.BocSer
  Proofs.BocParseP Proofs.BocSerHistory.
Import ListNotations.

(** * 1. tight capacity *)
Definition tight_capacity (cellCount : nat) : N := N.of_nat (1023 * cellCount + 32 * 4 + 32 * 3).

Definition full_cell (refs : list nat) : node := mknode false 0 0 (ones 1023) refs.
Definition wit_ladder : list node :=
  [full_cell [1; 1; 1; 1]; full_cell [2; 2; 2; 2]; full_cell [3; 3; 3; 3]; full_cell []]%nat.
(* the hashes only decide sharing: four different cells *)
Definition wit_ladder_hashes : list (res bytes) := [Ok [0]; Ok [1]; Ok [2]; Ok [3]]%N.

Definition snake_cell (i : N) (refs : list nat) : node := mknode false 0 0 (bits_of 8 i ++ ones 1008) refs.
Definition wit_snake : list node :=
  map (fun i => snake_cell (N.of_nat i) (if Nat.eqb i 8 then [] else [S i])) (seq 0 9).
Definition wit_snake_hashes : list (res bytes) := map (fun i => Ok [N.of_nat i]) (seq 0 9).

Definition out_bits (r : res bytes) : option N :=
  match r with Ok bs => Some (8 * N.of_nat (length bs))%N | _ => None end.

Theorem tight_capacity_refuted :
  (* the code's model serialises the ladder: 544 bytes, and 4352 bits > 4316 *)
  out_bits (serialize wit_ladder wit_ladder_hashes [0%nat] false false false) = Some 4352%N /\
  (4352 > tight_capacity 4)%N /\
  (* the snake of nine 127-byte cells, without and with index *)
  out_bits (serialize wit_snake wit_snake_hashes [0%nat] false false false) = Some 9448%N /\
  (9448 > tight_capacity 9)%N /\
  out_bits (serialize wit_snake wit_snake_hashes [0%nat] true false false) = Some 9592%N /\
  (* while the code's capacity covers them *)
  (4352 <= N.of_nat ((1023 + 32 * 4 + 32 * 3) * 4))%N /\ (9592 <= N.of_nat ((1023 + 32 * 4 + 32 * 3) * 9))%N.
Proof.
  split; [vm_compute; reflexivity|]. split; [vm_compute; reflexivity|].
  split; [vm_compute; reflexivity|]. split; [vm_compute; reflexivity|].
  split; [vm_compute; reflexivity|]. split; vm_compute; discriminate.
Qed.

(** * 2. de-duplication by the first computed hash *)
Definition first_hash_keys (cells : list node) : list (res bytes) :=
  map (fun ri => do c <- ri;
                 match nth_error (im_hashes c) 0 with Some h => Ok h | None => Panic PIndex end)
      (eval_dag sha256 0 cells).

Definition bytes_bits (l : bytes) : bits := flat_map (bits_of 8) l.

(* the tree: t -> (a, b) *)
Definition leaf_a : node := mknode false 0 0 (bits_of 8 170) [].
Definition leaf_b : node := mknode false 0 0 (bits_of 8 187) [].
Definition orig_tree : list node := [mknode false 0 0 (bits_of 8 204) [1; 2]%nat; leaf_a; leaf_b].
Definition orig_hash (i : nat) : bytes :=
  match nth_error (hashes_sha orig_tree) i with Some (Ok h) => h | _ => [] end.

(* pruned branch 01 | mask 1 | hash | depth 0 ;  Merkle proof 03 | hash | depth 1 *)
Definition pruned_of (i : nat) : node :=
  mknode true T_PRUNED 1 (bits_of 8 1 ++ bits_of 8 1 ++ bytes_bits (orig_hash i) ++ bits_of 16 0) [].
Definition proof_of (child : nat) : node :=
  mknode true T_MPROOF 0 (bits_of 8 3 ++ bytes_bits (orig_hash 0) ++ bits_of 16 1) [child].

(* 0 container; 1 proof -> 2 = t(pruned a, b); 3 proof -> 4 = t(a, pruned b) *)
Definition wit_views : list node :=
  [ mknode false 0 0 (bits_of 8 0) [1; 3]%nat;
    proof_of 2; mknode false 0 1 (bits_of 8 204) [5; 6]%nat;
    proof_of 4; mknode false 0 1 (bits_of 8 204) [7; 8]%nat;
    pruned_of 1; leaf_b; leaf_a; pruned_of 2 ].

Definition views_code : res bytes := serialize wit_views (hashes_sha wit_views) [0%nat] false false false.
Definition views_first_hash : res bytes :=
  serialize wit_views (first_hash_keys wit_views) [0%nat] false false false.

Theorem first_hash_key_refuted :
  (* the two views are different cells with the same first hash (= the hash of the original t) *)
  nth_error (first_hash_keys wit_views) 2 = nth_error (first_hash_keys wit_views) 4 /\
  nth_error (first_hash_keys wit_views) 2 = Some (Ok (orig_hash 0)) /\
  nth_error (hashes_sha wit_views) 2 <> nth_error (hashes_sha wit_views) 4 /\
  (* the code: nine cells, the same tree *)
  parsed_count views_code = Some 9%nat /\
  parsed_root_tree views_code = unfold_at 9 wit_views 0 /\
  (* keyed by the first hash: six cells, a different tree *)
  parsed_count views_first_hash = Some 6%nat /\
  parsed_root_tree views_first_hash <> unfold_at 9 wit_views 0 /\
  parsed_root_tree views_first_hash <> None.
Proof.
  assert (A : parsed_root_tree views_code = unfold_at 9 wit_views 0) by (vm_compute; reflexivity).
  assert (B : parsed_count views_code = Some 9%nat) by (vm_compute; reflexivity).
  assert (C : parsed_count views_first_hash = Some 6%nat) by (vm_compute; reflexivity).
  split; [vm_compute; reflexivity|]. split; [vm_compute; reflexivity|].
  split; [vm_compute; discriminate|]. split; [exact B|]. split; [exact A|]. split; [exact C|].
  split; [|vm_compute; discriminate].
  vm_compute. discriminate.
Qed.

(** the hypothesis of the round-trip theorem (C01_boc_roundtrip_model) that the
    representation hash satisfies up to SHA-256 collisions is FALSE for the
    first-hash key on this witness: equal keys, different trees *)
From Coq Require Import Lia.
From Tongo Require Import Proofs.BocReorderP2 Proofs.BocSerLayoutP3 Proofs.BocSerLayoutP4 Proofs.BocSerLayoutP5.

Lemma wit_views_wf : dag_wf wit_views.
Proof.
  unfold dag_wf, wit_views. cbn [dag_wf_from length]. unfold node_wf.
  repeat split; try (apply Nat.leb_le; vm_compute; reflexivity);
    repeat constructor; cbn; lia.
Qed.

Theorem first_hash_key_not_collision_free :
  ~ collision_free wit_views (first_hash_keys wit_views) [0%nat].
Proof.
  intros Hcf.
  assert (R1 : dreach wit_views [0%nat] 1%nat).
  { eapply reach_child; [apply reach_root; left; reflexivity|]. cbn. left. reflexivity. }
  assert (R3 : dreach wit_views [0%nat] 3%nat).
  { eapply reach_child; [apply reach_root; left; reflexivity|]. cbn. right. left. reflexivity. }
  assert (R2 : dreach wit_views [0%nat] 2%nat).
  { eapply reach_child; [exact R1|]. cbn. left. reflexivity. }
  assert (R4 : dreach wit_views [0%nat] 4%nat).
  { eapply reach_child; [exact R3|]. cbn. left. reflexivity. }
  assert (L2 : (2 < length wit_views)%nat) by (cbn; lia).
  assert (L4 : (4 < length wit_views)%nat) by (cbn; lia).
  destruct (unf_total wit_views 2 wit_views_wf L2) as [t Ht].
  assert (K2 : hash_of (first_hash_keys wit_views) 2 (orig_hash 0)) by (vm_compute; reflexivity).
  assert (K4 : hash_of (first_hash_keys wit_views) 4 (orig_hash 0)) by (vm_compute; reflexivity).
  pose proof (Hcf 2%nat 4%nat (orig_hash 0) R2 R4 K2 K4 t Ht) as Ht4.
  apply (unf_full _ _ _ wit_views_wf L2) in Ht. apply (unf_full _ _ _ wit_views_wf L4) in Ht4.
  rewrite <- Ht in Ht4. vm_compute in Ht4. discriminate Ht4.
Qed.
