(** C17 history: designs that were seeded into the code and are refuted here
    on the model level, with the witness the harness replays on the
    implementation.  Nothing in this file is used by Properties/C17.v. *)
From Coq Require Import List NArith ZArith Arith Lia Bool.
From Tongo Require Import Lib.Bits Lib.Res Model.Address Model.Adnl Model.AddressTlb Model.AddressJson
  Proofs.Crc16P.
Import ListNotations.
Local Open Scope N_scope.

(** * 1. MsgAddress.UnmarshalJSON with the int8 test `num > MinInt8`
      (instead of >=): for workchain -128 the JSON form of id.ToMsgAddress() is
      read back as addr_var and AccountIDFromTlb fails — the account is lost *)
Definition is_int8_exclusive (z : Z) : bool := ((-128 <? z) && (z <=? 127))%Z.

Lemma ma_json_exclusive_bound_refuted :
  let addr := map N.of_nat (seq 1 32) in
  exists m,
    ma_json_parse_with is_int8_exclusive (account_to_ma_json (-128) addr) = Ok m /\
    (exists a l w b, m = MAVar a l w b) /\
    account_from_tlb m = Err EOther /\
    ma_json_parse (account_to_ma_json (-128) addr) = Ok (to_msg_address (-128) addr).
Proof.
  cbv zeta. eexists. split; [vm_compute; reflexivity|].
  split; [do 4 eexists; reflexivity|]. split; vm_compute; reflexivity.
Qed.

(** * 2. one CRC register shared by all calls of AccountIDFromBase64Url
      (package-level hasher used as Reset / Update / CRC16): with two calls in
      flight a corrupted string is accepted and a valid one rejected.

      The register is a number; a call is the three steps below; a schedule is
      the order in which the steps of call A (false) and call B (true) run. *)
Inductive step := SReset | SUpdate | SRead.

(* state: shared register, and per call the value it read (if it got there) *)
Definition run_step (bodyA bodyB : list N) (st : N * option N * option N) (who : bool) (s : step)
  : N * option N * option N :=
  let '(reg, ra, rb) := st in
  match s with
  | SReset => (0, ra, rb)
  | SUpdate => (crc16_from reg (if who then bodyB else bodyA), ra, rb)
  | SRead => if who then (reg, ra, Some reg) else (reg, Some reg, rb)
  end.

Definition run_schedule (bodyA bodyB : list N) (sch : list (bool * step)) : option N * option N :=
  let '(_, ra, rb) := fold_left (fun st ws => run_step bodyA bodyB st (fst ws) (snd ws)) sch (0, None, None) in
  (ra, rb).

(* the decision of a call on its 36 bytes, given the checksum it read from the register *)
Definition accepts (bs : list N) (read : option N) : bool :=
  match read, skipn 34 bs with
  | Some c, [h; l] => be16 h l =? c
  | _, _ => false
  end.

(* A parses a valid string, B the same string with one address byte changed
   (checksum bytes untouched).  Sequentially B is rejected; in the schedule
   B.Reset B.Update A.Reset A.Update B.Read A.Read call B reads A's checksum. *)
Lemma shared_crc_register_refuted :
  let addr := map N.of_nat (seq 1 32) in
  let y := human_bytes crc16_table_ref true false 0 addr in
  let y' := set_nth 5 (N.lxor (nth 5 y 0) 1) y in
  let sch := [(true, SReset); (true, SUpdate); (false, SReset); (false, SUpdate); (true, SRead); (false, SRead)] in
  let seqsch := [(false, SReset); (false, SUpdate); (false, SRead); (true, SReset); (true, SUpdate); (true, SRead)] in
  y' <> y /\ skipn 34 y' = skipn 34 y /\
  (* per-call CRC (the code as it is): valid accepted, corrupted rejected *)
  is_ok (parse_human_bytes y) = true /\ is_ok (parse_human_bytes y') = false /\
  (* shared register, calls one after the other: same *)
  (let '(ra, rb) := run_schedule (firstn 34 y) (firstn 34 y') seqsch in
   accepts y ra = true /\ accepts y' rb = false) /\
  (* shared register, calls interleaved: the corrupted string is accepted *)
  (let '(ra, rb) := run_schedule (firstn 34 y) (firstn 34 y') sch in accepts y' rb = true) /\
  (* ... and in the mirrored schedule the valid string is rejected *)
  (let '(ra, rb) := run_schedule (firstn 34 y') (firstn 34 y) sch in accepts y rb = false).
Proof.
  cbv zeta. split; [vm_compute; discriminate|].
  repeat split; vm_compute; reflexivity.
Qed.

(** * 3. ParseAccountID with a fast path by length: "a 48-character string is
      the user-friendly form".  The raw form with short hex admits every total
      length, also 48: the zero-filled raw address  0:<46 hex digits>  is
      accepted by AccountIDFromRaw and by ParseAccountID as it is, and rejected
      by the fast-path design. *)
Definition parse_account_fast48 (cs : list N) : res (Z * list N) :=
  if len_is 48 cs then
    match parse_human cs with
    | Ok (_, wc, a) => Ok (wc, a)
    | Err e => Err e
    | Panic p => Panic p
    end
  else parse_account cs.

Lemma parse_account_fast48_refuted :
  let addr := repeat 0 9 ++ map N.of_nat (seq 1 23) in
  let t := dec_Z 0 ++ 58 :: skipn 18 (flat_map hex_byte addr) in
  length t = 48%nat /\
  parse_raw t = Ok (0%Z, addr) /\ parse_account t = Ok (0%Z, addr) /\
  is_ok (parse_account_fast48 t) = false.
Proof. cbv zeta. repeat split; vm_compute; reflexivity. Qed.
