(** C06: why WriteBit(false) has to clear its bit, and where bits past [len]
    come from.

    A variant of boc/bitString.go in which the [false] branch of WriteBit only
    performs the range check ("the buffer is zero-initialised, nothing to
    clear"; seeded change C06-nm1) is modelled by [write_bit_noclear]; every
    derived operation of Model/BitStringD.v is instantiated with it.  The
    refinement theorems of Proofs/BitStringD.v then FAIL as soon as the buffer
    holds a 1 past len.  Such a buffer is produced by the exported On(n) with
    n >= len ([junk_one_reachable]) and — before the repair "fix: ReadBits clears
    the bits past the requested length when the read cursor is byte-aligned" —
    by the fast path of ReadBits(n), n mod 8 <> 0, which left the source's
    following bits in the last byte of its result
    ([read_bits_before_fix_kept_stale_bits]: source 0xBFFF, ReadBits(1)). *)
From Coq Require Import List NArith Arith Lia Bool.
From Tongo Require Import Lib.Bits Lib.Res Model.BitString Model.BitStringD
  Proofs.BitStringW Proofs.BitStringD.
Import ListNotations.

(* WriteBit with  err := s.checkRange(s.len)  instead of  s.Off(s.len) *)
Definition write_bit_noclear (v : bool) (s : bs) : bs * res unit :=
  if v then write_bit true s
  else if cap s <=? len s then (s, Err EOverflow)
  else (mkbs (buf s) (cap s) (S (len s)) (rcur s), Ok tt).

Definition src_BFFF : bs := fst (write_bits (bits_of 16 49151) (new_bs 16)).
Definition five_zeros : bs := fst (write_bits (zeros 5) (new_bs 5)).

(* the single bit 1 in an 8-bit string whose other 7 buffer bits are 0111111 *)
Definition junk_one : bs := mkbs [true; false; true; true; true; true; true; true] 8 1 0.

Lemma witnesses_wellformed :
  Inv src_BFFF /\ Inv five_zeros /\ abs five_zeros = zeros 5 /\ Inv junk_one /\ abs junk_one = [true].
Proof. unfold Inv. vm_compute. repeat split; lia. Qed.

(* NewBitString(8); WriteBit(true); On(2) .. On(7) *)
Lemma junk_one_reachable :
  let s0 := fst (write_bit true (new_bs 8)) in
  fold_left (fun s n => fst (set_bit n true s)) [2; 3; 4; 5; 6; 7]%nat s0 = junk_one.
Proof. vm_compute. reflexivity. Qed.

(** ReadBits before its repair: the aligned fast path copied whole bytes *)
Definition read_bits_bs_before_fix (n : nat) (s : bs) : bs * res bs :=
  if avail_read s <? n then (s, Err ENotEnoughBits)
  else if (rcur s mod 8 =? 0)%nat then
    if short (8 * (rcur s / 8 + nbytes n)) (buf s) then (s, Panic PSlice)
    else (set_rcur s (rcur s + n),
          Ok (mkbs (firstn (8 * nbytes n) (skipn (8 * (rcur s / 8)) (buf s))) n n 0))
  else read_bits_bs n s.

Theorem read_bits_before_fix_kept_stale_bits :
  exists s' r r', read_bits_bs_before_fix 1 src_BFFF = (s', Ok r) /\
    abs r = [true] /\ buf r = buf junk_one /\
    (* today *)
    read_bits_bs 1 src_BFFF = (s', Ok r') /\
    abs r' = [true] /\ buf r' = [true; false; false; false; false; false; false; false].
Proof. eexists _, _, _. vm_compute. repeat split. Qed.

(* the non-clearing writer is indistinguishable on a clean buffer (which is
   why no unit test notices): same result as the real WriteBit whenever the
   bits past len are zero *)
Lemma noclear_agrees_on_clean_buffer v pre k c r :
  write_bit_noclear v (mkbs (pre ++ zeros (S k)) c (length pre) r)
  = write_bit v (mkbs (pre ++ zeros (S k)) c (length pre) r).
Proof.
  destruct v; [reflexivity|]. unfold write_bit_noclear, write_bit. cbn [cap len buf rcur].
  destruct (c <=? length pre); [reflexivity|].
  rewrite set_nth_opt_spec, app_length. unfold zeros at 2; rewrite repeat_length.
  destruct (Nat.ltb_spec (length pre) (length pre + S k)); [|lia].
  do 3 f_equal. clear. induction pre as [|h t IH]; cbn; [reflexivity|]. f_equal. exact IH.
Qed.

(** Append of zero bits: the ideal list would be 1 00000, the buffer reads 1 01111 *)
Theorem append_noclear_refuted :
  exists r zs, Inv r /\ Inv zs /\
    exists r', append_g write_bit_noclear zs r = (r', Ok tt) /\
      abs r' <> abs r ++ abs zs /\
      abs r' = [true; false; true; true; true; true].
Proof.
  exists junk_one, five_zeros.
  destruct witnesses_wellformed as (_ & I2 & _ & I3 & _).
  split; [exact I3|]. split; [exact I2|].
  eexists. split; [vm_compute; reflexivity|].
  split; [vm_compute; discriminate|vm_compute; reflexivity].
Qed.

(* the same sequence with the real WriteBit obeys the ideal list *)
Example append_real :
  exists r', append_bs five_zeros junk_one = (r', Ok tt) /\
    abs r' = [true; false; false; false; false; false].
Proof. eexists. vm_compute. repeat split. Qed.

(** WriteBit(false) / WriteUint(0,k) directly into a Copy: Copy keeps the junk *)
Theorem write_zeros_into_copy_noclear_refuted :
  let c := copy_bs junk_one in
  Inv c /\
  abs (fst (write_bits_g write_bit_noclear (bits_of 4 0) c)) <> abs c ++ bits_of 4 0 /\
  abs (fst (write_bits (bits_of 4 0) c)) = abs c ++ bits_of 4 0.
Proof.
  cbv zeta.
  split; [unfold Inv; vm_compute; repeat split; lia|].
  split; [vm_compute; discriminate|vm_compute; reflexivity].
Qed.

(** ToFiftHex of the single bit 1: "F_" instead of "C_"; and F_ parses to 111 *)
Theorem to_fift_noclear_refuted :
  Inv junk_one /\ abs junk_one = [true] /\
  to_fift_bs_g write_bit_noclear junk_one = Ok ([15%N], true) /\
  to_fift (abs junk_one) = ([12%N], true) /\
  to_fift_bs junk_one = Ok ([12%N], true) /\
  from_fift [15%N] true = Some [true; true; true].
Proof.
  split; [unfold Inv; vm_compute; repeat split; lia|].
  vm_compute. repeat split.
Qed.

(** GetTopUppedArray (the bytes that are hashed / serialised for a cell): the
    padding after the completion tag is not zero *)
Theorem top_upped_noclear_refuted :
  top_upped_g write_bit_noclear junk_one = Ok [255%N] /\
  top_upped junk_one = Ok [192%N].
Proof. vm_compute. repeat split. Qed.

(** so the general statement is false for the non-clearing writer ... *)
Theorem writers_any_junk_noclear_refuted :
  ~ (forall (pre junk l : bits) (c r : nat),
       (length (pre ++ junk) mod 8 = 0)%nat ->
       (length pre + length l <= c)%nat -> (c <= length (pre ++ junk))%nat ->
       (r <= length pre)%nat ->
       exists s', write_bits_g write_bit_noclear l (mkbs (pre ++ junk) c (length pre) r) = (s', Ok tt) /\
         abs s' = pre ++ l).
Proof.
  intros H.
  destruct (H [true] (ones 7) [false] 8%nat 0%nat) as (s' & E & A); try (vm_compute; lia).
  vm_compute in E. injection E as <-. vm_compute in A. discriminate.
Qed.

(** ... and true for it exactly when the junk is all zeros (fresh buffers,
    parsed cells): the reason ordinary round-trip tests cannot see the change *)
Theorem writers_zero_junk_noclear (pre l : bits) : forall k c r,
  (length l <= k)%nat -> (length pre + length l <= c)%nat ->
  exists s', write_bits_g write_bit_noclear l (mkbs (pre ++ zeros k) c (length pre) r) = (s', Ok tt) /\
    abs s' = pre ++ l.
Proof.
  revert pre. induction l as [|b t IH]; intros pre k c r Hk Hc.
  - eexists. split; [reflexivity|]. unfold abs; cbn [len buf].
    rewrite firstn_app_exact, app_nil_r. reflexivity.
  - cbn [length] in *. destruct k as [|k]; [lia|].
    cbn [write_bits_g]. rewrite noclear_agrees_on_clean_buffer.
    unfold write_bit. cbn [cap len buf rcur].
    destruct (Nat.leb_spec c (length pre)) as [Hf|_]; [lia|].
    rewrite set_nth_opt_spec, app_length. unfold zeros at 1; rewrite repeat_length.
    destruct (Nat.ltb_spec (length pre) (length pre + S k)); [|lia].
    assert (Hs : set_nth (length pre) b (pre ++ zeros (S k)) = (pre ++ [b]) ++ zeros k).
    { clear. induction pre as [|h p IHp]; cbn; [reflexivity|]. f_equal. exact IHp. }
    rewrite Hs.
    replace (S (length pre)) with (length (pre ++ [b])) by (rewrite app_length; cbn; lia).
    destruct (IH (pre ++ [b]) k c r ltac:(lia) ltac:(rewrite app_length; cbn; lia)) as (s' & E & A).
    exists s'. split; [exact E|]. rewrite A, <- app_assoc. reflexivity.
Qed.

(** ** WriteBitString has to write the WHOLE argument

    Variant (seeded change C06-r2m2) without [bs.rCursor = 0], looping from the
    argument's read cursor: only the unread remainder is stored and the write
    cursor advances by len - rCursor.  Witness: inner = 0xBEEF (16 bits) after
    ReadUint(4), outer holds 3 bits: 15 bits instead of 19. *)
Definition write_bitstring_from_cursor (a : bs) (s : bs) : bs * res unit :=
  if short (len a) (buf a) then (s, Panic PIndex)
  else write_bits (firstn (len a - rcur a) (skipn (rcur a) (buf a))) s.

Definition inner_BEEF : bs := fst (write_bits (bits_of 16 48879) (new_bs 16)).
Definition outer_3 : bs := fst (write_bits [true; false; true] (new_bs 40)).

Theorem write_bitstring_from_cursor_refuted :
  exists a a' v s, Inv a /\ Inv s /\ read_uint 4 a = (a', Ok v) /\ Inv a' /\
    (len s + len a' <= cap s)%nat /\
    let s' := fst (write_bitstring_from_cursor a' s) in
    len s' = 15%nat /\ abs s' <> abs s ++ abs a' /\
    (* the real code, same arguments *)
    abs (fst (write_bitstring a' s)) = abs s ++ abs a' /\ len (fst (write_bitstring a' s)) = 19%nat.
Proof.
  exists inner_BEEF. eexists _, _. exists outer_3.
  split; [unfold Inv; vm_compute; repeat split; lia|].
  split; [unfold Inv; vm_compute; repeat split; lia|].
  split; [vm_compute; reflexivity|].
  split; [unfold Inv; vm_compute; repeat split; lia|].
  split; [vm_compute; lia|]. cbv zeta.
  split; [vm_compute; reflexivity|].
  split; [vm_compute; discriminate|].
  split; vm_compute; reflexivity.
Qed.

(* a fully consumed argument: nothing at all is written *)
Theorem write_bitstring_from_cursor_consumed_refuted :
  exists a s, Inv a /\ Inv s /\ rcur a = len a /\ len a = 8%nat /\
    write_bitstring_from_cursor a s = (s, Ok tt) /\
    len (fst (write_bitstring a s)) = (len s + 8)%nat.
Proof.
  exists (set_rcur (fst (write_bits (ones 8) (new_bs 8))) 8), (new_bs 1023).
  split; [unfold Inv; vm_compute; repeat split; lia|].
  split; [apply Inv_new|].
  repeat split; vm_compute; reflexivity.
Qed.

(** ** NextRef has to stop at cursor 4

    Variant (seeded change C06-r4m1) whose guard is [refCursor > 4] ("at most 4
    refs" read as the bound of the cursor instead of the index): on a FULL
    cell, after the 4 references have been read, one more NextRef indexes
    refs[4] of the [4]*Cell array and panics instead of ErrNotEnoughRefs.  On a
    cell with fewer than 4 references the nil-slot test behind the guard still
    answers, so the variant is indistinguishable there. *)
From Tongo Require Import Model.CellRefs.

Definition next_ref_guard4 : heap -> nat -> heap * res nat :=
  next_ref_g (fun rc => (4 <? rc)%nat).

Definition full_heap : heap :=
  [mkcc (new_bs 8) [1; 2; 3; 4]%nat 0; new_cell; new_cell; new_cell; new_cell].

Theorem next_ref_guard4_refuted :
  exists h', next_refs_g next_ref_guard4 4 full_heap 0 [] = (h', Ok [1; 2; 3; 4]%nat) /\
    next_ref_guard4 h' 0 = (h', Panic PIndex) /\
    next_ref h' 0 = (h', Err ENotEnoughRefs).
Proof.
  eexists. split; [vm_compute; reflexivity|].
  split; vm_compute; reflexivity.
Qed.

(* CopyRemaining is built on NextRef but never steps past the last reference *)
Lemma next_ref_guard4_same_below_4 h i :
  (crc (hget h i) <= length (crefs (hget h i)))%nat ->
  (length (crefs (hget h i)) < 4)%nat ->
  next_ref_guard4 h i = next_ref h i.
Proof.
  intros Hrc Hlen. unfold next_ref_guard4, next_ref, next_ref_g.
  destruct (Nat.ltb_spec 4 (crc (hget h i))), (Nat.ltb_spec 3 (crc (hget h i)));
    try reflexivity; lia.
Qed.
