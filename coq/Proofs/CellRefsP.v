(** C06, reference half of a cell: AddRef fails exactly when the 4 slots are
    used and then leaves the cell unchanged; NextRef yields the references in
    insertion order and then ErrNotEnoughRefs — never a panic, for EVERY value
    of the cursor; CopyRemaining returns exactly the unread bits and the unread
    references and puts both cursors back. *)
From Coq Require Import List NArith Arith Lia Bool.
From Tongo Require Import Lib.Bits Lib.Res Model.BitString Model.BitStringD Model.CellRefs
  Proofs.BitStringW Proofs.BitStringR Proofs.BitStringD.
Import ListNotations.

(** *** heap access *)
Lemma nth_set_nth_eq {A} i (x d : A) l : (i < length l)%nat -> nth i (set_nth i x l) d = x.
Proof. revert i; induction l as [|h t IH]; intros [|i] H; cbn in *; try lia; auto. apply IH. lia. Qed.

Lemma nth_set_nth_neq {A} i j (x d : A) l : i <> j -> nth i (set_nth j x l) d = nth i l d.
Proof.
  revert i j; induction l as [|h t IH]; intros [|i] [|j] H; cbn; auto; try congruence.
Qed.

Lemma hget_hset_eq h i c : (i < length h)%nat -> hget (hset h i c) i = c.
Proof. apply nth_set_nth_eq. Qed.

Lemma hget_hset_neq h i j c : i <> j -> hget (hset h j c) i = hget h i.
Proof. apply nth_set_nth_neq. Qed.

Lemma hset_length h i c : length (hset h i c) = length h.
Proof. apply set_nth_length. Qed.

Lemma skipn_nth_error {A} (l : list A) k x :
  nth_error l k = Some x -> skipn k l = x :: skipn (S k) l.
Proof.
  revert k; induction l as [|h t IH]; intros [|k] H; cbn in *; try discriminate.
  - injection H as ->. reflexivity.
  - apply IH. exact H.
Qed.

(** *** AddRef *)
Theorem add_ref_spec j c :
  add_ref j c =
    if (length (crefs c) <? 4)%nat
    then (mkcc (cbits c) (crefs c ++ [j]) (crc c), Ok tt)
    else (c, Err ERefsOverflow).
Proof.
  unfold add_ref.
  destruct (Nat.leb_spec 4 (length (crefs c))), (Nat.ltb_spec (length (crefs c)) 4);
    try reflexivity; lia.
Qed.

Corollary add_ref_fails_iff_full j c :
  (snd (add_ref j c) = Err ERefsOverflow <-> (4 <= length (crefs c))%nat) /\
  ((4 <= length (crefs c))%nat -> fst (add_ref j c) = c).
Proof.
  rewrite add_ref_spec. destruct (Nat.ltb_spec (length (crefs c)) 4); cbn [fst snd]; split.
  - split; [discriminate|lia].
  - lia.
  - split; auto.
  - reflexivity.
Qed.

(** *** NextRef: one step, for every cursor value *)
Theorem next_ref_spec h i :
  (length (crefs (hget h i)) <= 4)%nat ->
  let c := hget h i in
  next_ref h i =
    match nth_error (crefs c) (crc c) with
    | Some r =>
        let h1 := hset h i (mkcc (cbits c) (crefs c) (S (crc c))) in
        (hset h1 r (reset_counters (hget h1 r)), Ok r)
    | None => (h, Err ENotEnoughRefs)
    end.
Proof.
  intros H4. cbv zeta. unfold next_ref, next_ref_g, ref_slot.
  set (c := hget h i) in *.
  destruct (Nat.ltb_spec 3 (crc c)) as [Hhi|Hlo].
  - assert (E : nth_error (crefs c) (crc c) = None) by (apply nth_error_None; lia).
    rewrite E. reflexivity.
  - destruct (Nat.ltb_spec (crc c) 4) as [_|Hx]; [|lia].
    destruct (nth_error (crefs c) (crc c)); reflexivity.
Qed.

Corollary next_ref_never_panics h i p :
  (length (crefs (hget h i)) <= 4)%nat -> snd (next_ref h i) <> Panic p.
Proof.
  intros H4. rewrite next_ref_spec by exact H4. cbv zeta.
  destruct (nth_error _ _); cbn [snd]; discriminate.
Qed.

(* past the last reference — in particular on a FULL cell after its 4th
   reference — the answer is the error and nothing changes *)
Corollary next_ref_past_end h i :
  (length (crefs (hget h i)) <= 4)%nat ->
  (length (crefs (hget h i)) <= crc (hget h i))%nat ->
  next_ref h i = (h, Err ENotEnoughRefs).
Proof.
  intros H4 Hpast. rewrite next_ref_spec by exact H4. cbv zeta.
  rewrite (proj2 (nth_error_None _ _) Hpast). reflexivity.
Qed.

(** *** NextRef repeatedly: insertion order.  [wf h i]: the cell exists, has
    at most 4 references and does not reference itself. *)
Definition wf (h : heap) (i : nat) : Prop :=
  (i < length h)%nat /\ (length (crefs (hget h i)) <= 4)%nat /\ ~ In i (crefs (hget h i)).

Lemma next_ref_step h i r :
  wf h i -> nth_error (crefs (hget h i)) (crc (hget h i)) = Some r ->
  exists h', next_ref h i = (h', Ok r) /\
    hget h' i = mkcc (cbits (hget h i)) (crefs (hget h i)) (S (crc (hget h i))) /\
    length h' = length h /\
    (forall j, j <> i -> j <> r -> hget h' j = hget h j).
Proof.
  intros (Hi & H4 & Hns) E. rewrite next_ref_spec by exact H4. cbv zeta. rewrite E.
  assert (Hri : r <> i).
  { intros ->. apply Hns. eapply nth_error_In. exact E. }
  eexists. split; [reflexivity|]. splits.
  - rewrite hget_hset_neq by congruence. apply hget_hset_eq. exact Hi.
  - rewrite !hset_length. reflexivity.
  - intros j Hji Hjr. rewrite !hget_hset_neq by congruence. reflexivity.
Qed.

Lemma next_refs_spec n : forall h acc i,
  wf h i -> (crc (hget h i) + n <= length (crefs (hget h i)))%nat ->
  let c := hget h i in
  exists h', next_refs_g next_ref n h i acc =
               (h', Ok (rev acc ++ firstn n (skipn (crc c) (crefs c)))) /\
    hget h' i = mkcc (cbits c) (crefs c) (crc c + n) /\
    length h' = length h /\
    (forall j, j <> i -> ~ In j (firstn n (skipn (crc c) (crefs c))) -> hget h' j = hget h j).
Proof.
  induction n as [|n IH]; intros h acc i W Hn c.
  - exists h. cbn [next_refs_g firstn]. rewrite app_nil_r, Nat.add_0_r.
    splits; auto. unfold c. destruct (hget h i); reflexivity.
  - assert (Hlt : (crc c < length (crefs c))%nat) by (unfold c; lia).
    destruct (nth_error (crefs c) (crc c)) as [r|] eqn:E;
      [|apply nth_error_None in E; lia].
    destruct (next_ref_step h i r W E) as (h1 & E1 & G1 & L1 & O1).
    cbn [next_refs_g]. rewrite E1.
    assert (W1 : wf h1 i).
    { destruct W as (Hi & H4 & Hns). unfold wf. rewrite G1, L1. cbn [crefs]. auto. }
    destruct (IH h1 (r :: acc) i W1 ltac:(rewrite G1; cbn [crc crefs]; lia))
      as (h2 & E2 & G2 & L2 & O2).
    rewrite G1 in E2, G2, O2. cbn [crc crefs cbits] in E2, G2, O2. fold c in E2, G2, O2.
    exists h2. rewrite E2. rewrite (skipn_nth_error _ _ _ E). cbn [firstn rev].
    rewrite <- app_assoc. cbn [app].
    splits; auto.
    + rewrite G2. f_equal. lia.
    + congruence.
    + intros j Hji Hnin. cbn [In] in Hnin.
      rewrite O2 by tauto. apply O1; [exact Hji|intros ->; tauto].
Qed.

(* reading all references of a cell from the start returns them in insertion
   order, and every further NextRef is ErrNotEnoughRefs with nothing changed *)
Theorem next_refs_all_in_order h i :
  wf h i -> crc (hget h i) = 0%nat ->
  exists h', next_refs_g next_ref (length (crefs (hget h i))) h i [] = (h', Ok (crefs (hget h i))) /\
    next_ref h' i = (h', Err ENotEnoughRefs) /\
    refs_avail (hget h' i) = 0%nat.
Proof.
  intros W R0.
  destruct (next_refs_spec (length (crefs (hget h i))) h [] i W ltac:(lia))
    as (h' & E & G & L & _).
  rewrite R0 in E, G. cbn [skipn rev app Nat.add] in E, G. rewrite firstn_all in E.
  exists h'. split; [exact E|]. split.
  - apply next_ref_past_end; rewrite G; cbn [crefs crc]; [apply W|lia].
  - rewrite G. unfold refs_avail, refs_size. cbn [crefs crc]. lia.
Qed.

(** *** CopyRemaining *)
Theorem copy_remaining_spec h i :
  wf h i -> Inv (cbits (hget h i)) ->
  (crc (hget h i) <= length (crefs (hget h i)))%nat ->
  let c := hget h i in
  exists h2 rem,
    copy_remaining h i = (h2 ++ [mkcc rem (skipn (crc c) (crefs c)) 0], Ok (length h)) /\
    length h2 = length h /\
    hget h2 i = c /\                                   (* both cursors of the source are back *)
    (forall j, j <> i -> ~ In j (skipn (crc c) (crefs c)) -> hget h2 j = hget h j) /\
    abs rem = skipn (rcur (cbits c)) (abs (cbits c)) /\ Inv rem /\ rcur rem = 0%nat.
Proof.
  intros W HI Hrc c. pose proof W as (Hi & H4 & Hns).
  unfold copy_remaining, copy_remaining_g. fold c.
  destruct (read_remaining_bs_spec (cbits c) HI) as (rem & ER & AR & IR & _ & _ & RR).
  rewrite ER. cbn [snd].
  assert (Hav : (crc c + refs_avail c <= length (crefs c))%nat)
    by (unfold refs_avail, refs_size, c in *; lia).
  destruct (next_refs_spec (refs_avail c) h [] i W Hav) as (h1 & E & G & L & O).
  fold c in E, G, O. rewrite E. cbn [rev app].
  assert (Hall : firstn (refs_avail c) (skipn (crc c) (crefs c)) = skipn (crc c) (crefs c)).
  { apply firstn_all2. rewrite skipn_length. unfold refs_avail, refs_size. lia. }
  rewrite Hall in *.
  destruct (Nat.ltb_spec 4 (length (skipn (crc c) (crefs c)))) as [Hbad|_].
  { rewrite skipn_length in Hbad. unfold c in *. lia. }
  rewrite G. cbn [cbits crefs].
  exists (hset h1 i (mkcc (cbits c) (crefs c) (crc c))), rem.
  rewrite hset_length, L. splits; auto.
  - rewrite hget_hset_eq by lia. destruct c; reflexivity.
  - intros j Hji Hnin. rewrite hget_hset_neq by exact Hji. apply O; assumption.
Qed.

(** non-vacuity: a full cell with 4 children *)
Example full_cell_premises :
  let h := [mkcc (new_bs 1023) [1; 2; 3; 4]%nat 0; new_cell; new_cell; new_cell; new_cell] in
  wf h 0 /\ Inv (cbits (hget h 0)) /\ length (crefs (hget h 0)) = 4%nat.
Proof.
  cbv zeta. unfold wf. cbn [hget nth crefs cbits length In].
  split; [split; [lia|split; [lia|intuition lia]]|split; [apply Inv_new|reflexivity]].
Qed.
