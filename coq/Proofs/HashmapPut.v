(** Put / Get of tlb.Hashmap (Model/Hashmap.v) for any key type whose Compare is
    a strict total order and whose Equal is equality: the key slice stays
    strictly sorted, Get/Put obey the map laws, and the slice obtained by a
    sequence of Puts depends only on the final mapping (hence not on the
    insertion order).  Instances: bit order (UintN, BitsN) and two's complement
    order (IntN). *)
From Coq Require Import List NArith Arith Lia Bool Sorted Permutation.
From Tongo Require Import Lib.Bits Lib.Res Spec.Dict Model.Hashmap Proofs.DictP.
Import ListNotations.

(** what Put/Get need from a key type: Equal is equality, Compare is a strict
    total order *)
Record key_order {K : Type} (keq klt : K -> K -> bool) : Prop := {
  ko_eq : forall a b, keq a b = true <-> a = b;
  ko_irrefl : forall a, klt a a = false;
  ko_trans : forall a b c, klt a b = true -> klt b c = true -> klt a c = true;
  ko_total : forall a b, klt a b = false -> klt b a = false -> a = b
}.

Section PutP.
Variables K V : Type.
Variable keq : K -> K -> bool.
Variable klt : K -> K -> bool.
Hypothesis KO : key_order keq klt.
Let keq_spec := ko_eq keq klt KO.
Let klt_irrefl := ko_irrefl keq klt KO.
Let klt_trans := ko_trans keq klt KO.
Let klt_total := ko_total keq klt KO.

Notation kmap := (list (K * V)).
Notation put := (put keq klt).
Notation get := (get keq).
Notation puts := (puts keq klt).

Definition pair_lt (p q : K * V) : Prop := klt (fst p) (fst q) = true.
Definition ksorted (m : kmap) : Prop := StronglySorted pair_lt m.

Lemma keq_refl a : keq a a = true.
Proof. apply keq_spec. reflexivity. Qed.

Lemma keq_false a b : a <> b -> keq a b = false.
Proof.
  intros H. destruct (keq a b) eqn:E; [|reflexivity]. apply keq_spec in E. contradiction.
Qed.

(** ** Get after Put: the map law, for every slice *)
Lemma get_replace k (v : V) m m' k' :
  replace_val keq k v m = Some m' ->
  get k' m' = if keq k k' then Some v else get k' m.
Proof.
  revert m'; induction m as [|[k0 v0] t IH]; intros m' H; cbn [replace_val] in H; [discriminate|].
  destruct (keq k0 k) eqn:E0.
  - inversion H; subst m'. apply keq_spec in E0. subst k0. cbn [Hashmap.get].
    destruct (keq k k'); reflexivity.
  - destruct (replace_val keq k v t) as [t'|]; [|discriminate].
    inversion H; subst m'. cbn [Hashmap.get]. rewrite (IH t' eq_refl).
    destruct (keq k0 k') eqn:E1; [|reflexivity].
    destruct (keq k k') eqn:E2; [|reflexivity].
    apply keq_spec in E1, E2. subst. rewrite keq_refl in E0. discriminate.
Qed.

Lemma replace_none k (v : V) m : replace_val keq k v m = None -> get k m = None.
Proof.
  induction m as [|[k0 v0] t IH]; cbn [replace_val Hashmap.get]; [reflexivity|].
  destruct (keq k0 k); [discriminate|].
  destruct (replace_val keq k v t); [discriminate|]. auto.
Qed.

Lemma get_none_replace k (v : V) m : get k m = None -> replace_val keq k v m = None.
Proof.
  induction m as [|[k0 v0] t IH]; cbn [replace_val Hashmap.get]; [reflexivity|].
  destruct (keq k0 k); [discriminate|]. intros H. rewrite (IH H). reflexivity.
Qed.

Lemma get_insert k (v : V) m k' :
  get k m = None ->
  get k' (insert_at klt k v m) = if keq k k' then Some v else get k' m.
Proof.
  induction m as [|[k0 v0] t IH]; cbn [insert_at Hashmap.get]; [reflexivity|].
  destruct (keq k0 k) eqn:E0; [discriminate|]. intros Hn.
  destruct (klt k k0); cbn [Hashmap.get]; [reflexivity|].
  rewrite (IH Hn).
  destruct (keq k0 k') eqn:E1; [|reflexivity].
  destruct (keq k k') eqn:E2; [|reflexivity].
  apply keq_spec in E1, E2. subst. rewrite keq_refl in E0. discriminate.
Qed.

Theorem get_put k (v : V) m k' :
  get k' (put k v m) = if keq k k' then Some v else get k' m.
Proof.
  unfold Hashmap.put. destruct (replace_val keq k v m) as [m'|] eqn:E.
  - apply get_replace. exact E.
  - apply get_insert. apply (replace_none k v). exact E.
Qed.

(** ** Put keeps the slice strictly sorted *)
Lemma replace_keys k (v : V) m m' :
  replace_val keq k v m = Some m' -> map fst m' = map fst m.
Proof.
  revert m'; induction m as [|[k0 v0] t IH]; intros m' H; cbn [replace_val] in H; [discriminate|].
  destruct (keq k0 k).
  - inversion H; reflexivity.
  - destruct (replace_val keq k v t) as [t'|]; [|discriminate].
    inversion H. cbn [map fst]. rewrite (IH t' eq_refl). reflexivity.
Qed.

Lemma ksorted_keys (m m' : kmap) : map fst m = map fst m' -> ksorted m -> ksorted m'.
Proof.
  unfold ksorted. revert m'; induction m as [|a t IH]; intros [|a' t'] E Hs;
    try discriminate; [constructor|].
  cbn [map] in E. inversion E as [[Ea Et]].
  apply StronglySorted_inv in Hs. destruct Hs as [Hst Hall].
  constructor; [apply IH; assumption|].
  unfold pair_lt in *. rewrite <- Ea.
  rewrite Forall_forall in *. intros x Hx.
  assert (Hin : In (fst x) (map fst t)) by (rewrite Et; apply in_map; exact Hx).
  apply in_map_iff in Hin. destruct Hin as (y & Ey & Hy). rewrite <- Ey. apply Hall. exact Hy.
Qed.

Lemma insert_keys k (v : V) m x :
  In x (insert_at klt k v m) -> x = (k, v) \/ In x m.
Proof.
  induction m as [|[k0 v0] t IH]; cbn [insert_at].
  - intros [H|[]]; auto.
  - destruct (klt k k0).
    + intros [H|H]; auto.
    + intros [H|H]; [right; left; exact H|].
      destruct (IH H); auto. right; right; assumption.
Qed.

Lemma get_none_in k (m : kmap) x : get k m = None -> In x m -> fst x <> k.
Proof.
  induction m as [|[k0 v0] t IH]; cbn [Hashmap.get]; [intros _ []|].
  destruct (keq k0 k) eqn:E; [discriminate|]. intros Hn [<-|Hin]; auto.
  cbn [fst]. intros ->. rewrite keq_refl in E. discriminate.
Qed.

Lemma insert_sorted k (v : V) m : get k m = None -> ksorted m -> ksorted (insert_at klt k v m).
Proof.
  unfold ksorted. induction m as [|[k0 v0] t IH]; intros Hn Hs; cbn [insert_at].
  - constructor; constructor.
  - pose proof (get_none_in k _ (k0, v0) Hn (or_introl eq_refl)) as Hne. cbn [fst] in Hne.
    cbn [Hashmap.get] in Hn. destruct (keq k0 k) eqn:E0; [discriminate|].
    apply StronglySorted_inv in Hs. destruct Hs as [Hst Hall].
    destruct (klt k k0) eqn:Elt.
    + constructor; [constructor; assumption|].
      constructor; [exact Elt|].
      eapply Forall_impl; [|exact Hall]. intros x Hx. unfold pair_lt in *. cbn [fst] in *.
      eapply klt_trans; eauto.
    + assert (Hgt : klt k0 k = true).
      { destruct (klt k0 k) eqn:E; [reflexivity|]. exfalso. apply Hne. symmetry.
        apply klt_total; assumption. }
      constructor; [apply IH; assumption|].
      apply Forall_forall. intros x Hx. apply insert_keys in Hx. destruct Hx as [->|Hx].
      * exact Hgt.
      * rewrite Forall_forall in Hall. apply Hall. exact Hx.
Qed.

Theorem put_ksorted k (v : V) m : ksorted m -> ksorted (put k v m).
Proof.
  intros Hs. unfold Hashmap.put. destruct (replace_val keq k v m) as [m'|] eqn:E.
  - eapply ksorted_keys; [|exact Hs]. symmetry. eapply replace_keys; eauto.
  - apply insert_sorted; [apply (replace_none k v); exact E|exact Hs].
Qed.

Lemma puts_ksorted (l m : kmap) : ksorted m -> ksorted (puts l m).
Proof.
  revert m; induction l as [|[k v] l IH]; intros m Hs; [exact Hs|].
  cbn [Hashmap.puts fold_left fst snd]. apply IH. apply put_ksorted. exact Hs.
Qed.

(** ** the last value per key wins *)
Lemma get_app k (a b : kmap) :
  get k (a ++ b) = match get k a with Some v => Some v | None => get k b end.
Proof.
  induction a as [|[k0 v0] a IH]; cbn [app Hashmap.get]; [reflexivity|].
  destruct (keq k0 k); auto.
Qed.

Lemma get_puts k (l m : kmap) :
  get k (puts l m) = match get k (rev l) with Some v => Some v | None => get k m end.
Proof.
  revert m; induction l as [|[k0 v0] l IH]; intros m; [reflexivity|].
  cbn [Hashmap.puts fold_left fst snd rev].
  change (fold_left (fun m kv => put (fst kv) (snd kv) m) l (put k0 v0 m))
    with (puts l (put k0 v0 m)).
  rewrite IH, get_app, get_put. cbn [Hashmap.get].
  destruct (get k (rev l)); [reflexivity|]. destruct (keq k0 k); reflexivity.
Qed.

Theorem put_sorted (l : kmap) :
  ksorted (puts l []) /\ forall k, get k (puts l []) = get k (rev l).
Proof.
  split; [apply puts_ksorted; constructor|].
  intros k. rewrite get_puts. destruct (get k (rev l)); reflexivity.
Qed.

(** ** a strictly sorted slice is determined by the mapping it represents *)
Lemma ksorted_head_none k (v : V) t : ksorted ((k, v) :: t) -> get k t = None.
Proof.
  intros Hs. apply StronglySorted_inv in Hs. destruct Hs as [_ Hall].
  induction t as [|[k1 v1] t IH]; [reflexivity|].
  cbn [Hashmap.get]. apply Forall_cons_iff in Hall. destruct Hall as [H1 Ht].
  unfold pair_lt in H1. cbn [fst] in H1.
  destruct (keq k1 k) eqn:E; [|auto].
  apply keq_spec in E. subst k1. rewrite klt_irrefl in H1. discriminate.
Qed.

Lemma get_some_in k (v : V) m : get k m = Some v -> In (k, v) m.
Proof.
  induction m as [|[k0 v0] t IH]; cbn [Hashmap.get]; [discriminate|].
  destruct (keq k0 k) eqn:E.
  - intros H; inversion H; subst. apply keq_spec in E. subst. left; reflexivity.
  - intros H. right. auto.
Qed.

Lemma ksorted_ext (m1 m2 : kmap) :
  ksorted m1 -> ksorted m2 -> (forall k, get k m1 = get k m2) -> m1 = m2.
Proof.
  revert m2; induction m1 as [|[k1 v1] t1 IH]; intros [|[k2 v2] t2] H1 H2 Hext.
  - reflexivity.
  - specialize (Hext k2). cbn [Hashmap.get] in Hext. rewrite keq_refl in Hext. discriminate.
  - specialize (Hext k1). cbn [Hashmap.get] in Hext. rewrite keq_refl in Hext. discriminate.
  - assert (Hk : k1 = k2).
    { destruct (keq k2 k1) eqn:E; [apply keq_spec in E; auto|]. exfalso.
      pose proof (Hext k1) as Ha. cbn [Hashmap.get] in Ha. rewrite keq_refl, E in Ha.
      pose proof (Hext k2) as Hb. cbn [Hashmap.get] in Hb. rewrite keq_refl in Hb.
      assert (E' : keq k1 k2 = false).
      { apply keq_false. intros ->. rewrite keq_refl in E. discriminate. }
      rewrite E' in Hb.
      symmetry in Ha. apply get_some_in in Ha. apply get_some_in in Hb.
      apply StronglySorted_inv in H1, H2. destruct H1 as [_ A1], H2 as [_ A2].
      rewrite Forall_forall in A1, A2.
      specialize (A1 _ Hb). specialize (A2 _ Ha). unfold pair_lt in *. cbn [fst] in *.
      pose proof (klt_trans _ _ _ A1 A2) as C. rewrite klt_irrefl in C. discriminate. }
    subst k2.
    assert (Hv : v1 = v2).
    { specialize (Hext k1). cbn [Hashmap.get] in Hext. rewrite keq_refl in Hext.
      inversion Hext; reflexivity. }
    subst v2. f_equal.
    pose proof (ksorted_head_none _ _ _ H1) as N1.
    pose proof (ksorted_head_none _ _ _ H2) as N2.
    apply StronglySorted_inv in H1, H2. destruct H1 as [S1 _], H2 as [S2 _].
    apply IH; auto. intros k. specialize (Hext k). cbn [Hashmap.get] in Hext.
    destruct (keq k1 k) eqn:E; [|exact Hext].
    apply keq_spec in E. subst k. rewrite N1, N2. reflexivity.
Qed.

(** sequences of Puts that describe the same final mapping give the same slice *)
Theorem puts_ext (l1 l2 : kmap) :
  (forall k, get k (rev l1) = get k (rev l2)) -> puts l1 [] = puts l2 [].
Proof.
  intros H. apply ksorted_ext.
  - apply puts_ksorted; constructor.
  - apply puts_ksorted; constructor.
  - intros k. rewrite (proj2 (put_sorted l1)), (proj2 (put_sorted l2)). apply H.
Qed.

(** ** insertion-order independence for distinct keys *)
Lemma get_in_nodup k (v : V) m : NoDup (map fst m) -> In (k, v) m -> get k m = Some v.
Proof.
  induction m as [|[k0 v0] t IH]; cbn [map fst Hashmap.get]; intros Hnd Hin; [destruct Hin|].
  apply NoDup_cons_iff in Hnd. destruct Hnd as [Hnot Hnd].
  destruct Hin as [E|Hin].
  - inversion E; subst. rewrite keq_refl. reflexivity.
  - rewrite keq_false; [auto|]. intros ->. apply Hnot.
    apply in_map_iff. exists (k, v). split; auto.
Qed.

Lemma get_perm k (m1 m2 : kmap) :
  NoDup (map fst m1) -> Permutation m1 m2 -> get k m1 = get k m2.
Proof.
  intros Hnd Hp.
  assert (Hnd2 : NoDup (map fst m2)).
  { eapply Permutation_NoDup; [|exact Hnd]. apply Permutation_map. exact Hp. }
  destruct (get k m1) as [v|] eqn:E1.
  - symmetry. apply get_in_nodup; auto. eapply Permutation_in; [exact Hp|].
    apply get_some_in. exact E1.
  - destruct (get k m2) as [v|] eqn:E2; [|reflexivity].
    apply get_some_in in E2. apply (Permutation_in _ (Permutation_sym Hp)) in E2.
    apply (get_in_nodup _ _ _ Hnd) in E2. congruence.
Qed.

Theorem put_order_independent (l1 l2 : kmap) :
  NoDup (map fst l1) -> Permutation l1 l2 -> puts l1 [] = puts l2 [].
Proof.
  intros Hnd Hp. apply puts_ext. intros k. apply get_perm.
  - rewrite map_rev. apply NoDup_rev. exact Hnd.
  - eapply Permutation_trans; [apply Permutation_sym, Permutation_rev|].
    eapply Permutation_trans; [exact Hp|apply Permutation_rev].
Qed.

(** with distinct keys nothing is lost: the slice is a permutation of the input *)
Lemma get_puts_in k (v : V) l :
  NoDup (map fst l) -> (In (k, v) (puts l []) <-> In (k, v) l).
Proof.
  intros Hnd.
  assert (Hnd' : NoDup (map fst (rev l))) by (rewrite map_rev; apply NoDup_rev; exact Hnd).
  destruct (put_sorted l) as [Hs Hg]. split; intros H.
  - assert (G : get k (puts l []) = Some v).
    { clear Hg. induction Hs as [|[k0 v0] t Hst IH Hall]; [destruct H|].
      pose proof (ksorted_head_none k0 v0 t (SSorted_cons _ Hst Hall)) as Hn.
      cbn [Hashmap.get]. destruct H as [E|H].
      - inversion E; subst. rewrite keq_refl. reflexivity.
      - rewrite keq_false; [auto|]. intros ->.
        pose proof (get_none_in _ _ _ Hn H) as C. cbn [fst] in C. congruence. }
    rewrite Hg in G. apply get_some_in in G. apply in_rev. exact G.
  - apply get_some_in. rewrite Hg. apply get_in_nodup; auto. apply in_rev in H. exact H.
Qed.

End PutP.

(** ** instance: bit order (UintN, BitsN keys) *)
Lemma bits_ltb_irrefl a : bits_ltb a a = false.
Proof. unfold bits_ltb. rewrite bits_cmp_refl. reflexivity. Qed.

Lemma bits_ltb_trans a b c : bits_ltb a b = true -> bits_ltb b c = true -> bits_ltb a c = true.
Proof. rewrite !bits_ltb_lt. apply bits_lt_trans. Qed.

Lemma bits_ltb_total a b : bits_ltb a b = false -> bits_ltb b a = false -> a = b.
Proof.
  intros H1 H2. destruct (bits_lt_total a b) as [H|[H|H]]; auto;
    apply bits_ltb_lt in H; congruence.
Qed.

Lemma bits_key_order : key_order bits_eqb bits_ltb.
Proof.
  constructor; [exact bits_eqb_eq|exact bits_ltb_irrefl|exact bits_ltb_trans|exact bits_ltb_total].
Qed.

Lemma ksorted_bits_sorted {V} (m : list (bits * V)) :
  ksorted bits V bits_ltb m <-> sorted m.
Proof.
  unfold ksorted, sorted. split; intros H; induction H; constructor; auto;
    (eapply Forall_impl; [|eassumption]); intros x; unfold pair_lt, key_lt;
    rewrite bits_ltb_lt; auto.
Qed.

Section BitOrder.
Variable V : Type.
Notation put := (put (V := V) bits_eqb bits_ltb).
Notation get := (get (V := V) bits_eqb).

(** Put on a sorted slice is the update of the abstract map, Get is lookup *)
Lemma get_lookup k (m : list (bits * V)) : get k m = lookup k m.
Proof. induction m as [|[k0 v0] t IH]; cbn [Hashmap.get lookup]; [reflexivity|]. rewrite IH. reflexivity. Qed.

Lemma put_update k v (m : list (bits * V)) : sorted m -> put k v m = update k v m.
Proof.
  unfold sorted. induction m as [|[k0 v0] t IH]; intros Hs; [reflexivity|].
  apply StronglySorted_inv in Hs. destruct Hs as [Hst Hall].
  cbn [update]. unfold Hashmap.put. cbn [replace_val insert_at].
  unfold bits_eqb at 1. rewrite (bits_cmp_antisym k k0).
  unfold bits_ltb at 1.
  destruct (bits_cmp k k0) eqn:E; cbn [CompOpp].
  - apply bits_cmp_eq in E. subst k0. reflexivity.
  - (* k < k0 < everything in t: no equal key further on *)
    assert (Hn : Hashmap.get bits_eqb k t = None).
    { clear IH Hst. induction t as [|[k1 v1] t IHt]; [reflexivity|].
      apply Forall_cons_iff in Hall. destruct Hall as [H1 Ht]. cbn [Hashmap.get].
      unfold key_lt in H1. cbn [fst] in H1.
      assert (L : bits_lt k k1) by (eapply bits_lt_trans; eauto).
      unfold bits_eqb. rewrite (bits_cmp_antisym k k1). unfold bits_lt in L. rewrite L.
      cbn [CompOpp]. auto. }
    rewrite (get_none_replace bits V bits_eqb k v t Hn). reflexivity.
  - specialize (IH Hst). unfold Hashmap.put in IH.
    destruct (replace_val bits_eqb k v t); rewrite IH; reflexivity.
Qed.
End BitOrder.

(** ** instance: two's complement order (IntN keys) *)
Lemma flip_first_inj a b : flip_first a = flip_first b -> a = b.
Proof.
  destruct a as [|x a], b as [|y b]; cbn [flip_first]; intros H; try discriminate; auto.
  inversion H. destruct x, y; cbn in *; congruence.
Qed.

Lemma signed_ltb_irrefl a : signed_ltb a a = false.
Proof. apply bits_ltb_irrefl. Qed.

Lemma signed_ltb_trans a b c :
  signed_ltb a b = true -> signed_ltb b c = true -> signed_ltb a c = true.
Proof. apply bits_ltb_trans. Qed.

Lemma signed_ltb_total a b : signed_ltb a b = false -> signed_ltb b a = false -> a = b.
Proof. intros H1 H2. apply flip_first_inj. apply bits_ltb_total; assumption. Qed.

Lemma signed_key_order : key_order bits_eqb signed_ltb.
Proof.
  constructor; [exact bits_eqb_eq|exact signed_ltb_irrefl|exact signed_ltb_trans|exact signed_ltb_total].
Qed.
