(** C06, read side: every reader returns the decoding of the next bits of the
    ideal bit list and advances the cursor by the width, or fails with
    NotEnoughBits leaving the state unchanged.  The three paths of ReadUint and
    the 16-bit load of ReadByte are proved equal to the ideal read at every
    alignment from the window lemma. *)
From Coq Require Import List NArith ZArith Arith Lia Bool.
From Tongo Require Import Lib.Bits Lib.Res Model.BitString.
Import ListNotations.

Ltac splits := repeat match goal with |- _ /\ _ => split end.

(** the next [w] unread bits of the ideal list *)
Definition rd (s : bs) (w : nat) : bits := firstn w (skipn (rcur s) (abs s)).
Definition adv (s : bs) (w : nat) : bs := set_rcur s (rcur s + w).

Lemma firstn_skipn_firstn {A} (l : list A) r w n :
  (r + w <= n)%nat -> firstn w (skipn r (firstn n l)) = firstn w (skipn r l).
Proof.
  intros H. rewrite skipn_firstn_comm, firstn_firstn. f_equal. lia.
Qed.

Lemma rd_buf s w :
  (rcur s + w <= len s)%nat -> rd s w = firstn w (skipn (rcur s) (buf s)).
Proof. intros H. unfold rd, abs. apply firstn_skipn_firstn. exact H. Qed.

Lemma rd_length s w :
  Inv s -> (rcur s + w <= len s)%nat -> length (rd s w) = w.
Proof.
  intros (H1 & H2 & H3 & H4) H. rewrite rd_buf by exact H.
  rewrite firstn_length, skipn_length. lia.
Qed.

Lemma Inv_adv s w : Inv s -> (rcur s + w <= len s)%nat -> Inv (adv s w).
Proof. unfold Inv, adv, set_rcur; cbn. intros (H1 & H2 & H3 & H4) H. lia. Qed.

Lemma abs_adv s w : abs (adv s w) = abs s.
Proof. reflexivity. Qed.

Lemma avail_ltb s w :
  Inv s -> (avail_read s <? w) = negb (rcur s + w <=? len s).
Proof.
  intros (H1 & H2 & H3 & H4). unfold avail_read.
  destruct (Nat.ltb_spec (len s - rcur s) w), (Nat.leb_spec (rcur s + w) (len s)); cbn; auto; lia.
Qed.

Lemma short_false {A} n (l : list A) : (n <= length l)%nat -> short n l = false.
Proof. intros H. rewrite short_spec. apply Nat.ltb_ge. exact H. Qed.

Lemma N_of_bits_zeros_app k l : N_of_bits (zeros k ++ l) = N_of_bits l.
Proof. rewrite N_of_bits_app, N_of_bits_zeros. lia. Qed.

Lemma div8_mul s : (s mod 8 = 0)%nat -> (8 * (s / 8) = s)%nat.
Proof. intros H. pose proof (Nat.div_mod s 8 ltac:(lia)). lia. Qed.

(** **** ReadUint: all three paths *)
Theorem read_uint_spec w s :
  Inv s -> (w <= 64)%nat ->
  read_uint w s =
    if (rcur s + w <=? len s)%nat then (adv s w, Ok (N_of_bits (rd s w)))
    else (s, Err ENotEnoughBits).
Proof.
  intros HI Hw. pose proof HI as (H1 & H2 & H3 & H4).
  unfold read_uint.
  destruct (Nat.ltb_spec 64 w) as [?|_]; [lia|].
  rewrite avail_ltb by exact HI.
  destruct (Nat.leb_spec (rcur s + w) (len s)) as [Hfit|Hno]; cbn [negb]; [|reflexivity].
  rewrite rd_buf by exact Hfit.
  destruct (Nat.eqb_spec (rcur s mod 8) 0) as [Hra|Hra];
  destruct (Nat.eqb_spec (w mod 8) 0) as [Hwa|Hwa]; cbn [andb].
  1: { (* aligned copy *)
    rewrite (Nat.mul_add_distr_l 8), !div8_mul by assumption.
    rewrite short_false by lia.
    rewrite N_of_bits_zeros_app. reflexivity. }
  all: destruct (Nat.ltb_spec w 57) as [Hs|Hl].
  all: try (rewrite (short_false (rcur s + w)) by lia; reflexivity).
  all: (* shifted 64-bit load *)
    pose proof (Nat.div_mod (rcur s) 8 ltac:(lia)) as Hdm;
    pose proof (Nat.mod_upper_bound (rcur s) 8 ltac:(lia)) as Hub;
    rewrite short_false by lia;
    unfold adv; f_equal; f_equal;
    unfold load_be;
    set (X := skipn (8 * (rcur s / 8)) (buf s));
    set (off := (rcur s mod 8)%nat) in *;
    set (win := firstn (8 * 8) (X ++ zeros (8 * 8)));
    assert (HX : (off + w <= length X)%nat) by (unfold X; rewrite skipn_length; lia);
    assert (Hwin : length win = 64%nat)
      by (unfold win; rewrite firstn_length, app_length; unfold zeros; rewrite repeat_length; lia);
    replace (64 - w - off)%nat with (length win - w - off)%nat by lia;
    rewrite window by lia;
    f_equal;
    unfold win;
    rewrite firstn_skipn_firstn by lia;
    rewrite skipn_app, firstn_app;
    replace (w - length (skipn off X))%nat with 0%nat by (rewrite skipn_length; lia);
    cbn [firstn]; rewrite app_nil_r;
    unfold X; rewrite skipn_add; f_equal; f_equal; lia.
Qed.

Corollary pick_uint_spec w s :
  Inv s -> (w <= 64)%nat ->
  pick_uint w s =
    if (rcur s + w <=? len s)%nat then (s, Ok (N_of_bits (rd s w)))
    else (s, Err ENotEnoughBits).
Proof.
  intros HI Hw. unfold pick_uint. rewrite read_uint_spec by assumption.
  destruct (rcur s + w <=? len s)%nat; [|reflexivity].
  unfold adv, set_rcur; cbn [rcur buf cap len].
  replace (rcur s + w - w)%nat with (rcur s) by lia.
  destruct s; reflexivity.
Qed.

(** **** single bit, skip *)
Lemma read_bit_spec s :
  Inv s ->
  read_bit s =
    if (rcur s + 1 <=? len s)%nat then (adv s 1, Ok (nth 0 (rd s 1) false))
    else (s, Err ENotEnoughBits).
Proof.
  intros HI. pose proof HI as (H1 & H2 & H3 & H4). unfold read_bit.
  rewrite avail_ltb by exact HI.
  destruct (Nat.leb_spec (rcur s + 1) (len s)) as [Hfit|Hno]; cbn [negb]; [|reflexivity].
  rewrite short_false by lia.
  unfold adv, set_rcur. rewrite Nat.add_1_r. f_equal. f_equal.
  rewrite rd_buf by lia. unfold get_bit.
  rewrite <- (firstn_skipn (rcur s) (buf s)) at 1.
  rewrite app_nth2 by (rewrite firstn_length; lia).
  rewrite firstn_length. replace (rcur s - Nat.min (rcur s) (length (buf s)))%nat with 0%nat by lia.
  destruct (skipn (rcur s) (buf s)); reflexivity.
Qed.

Lemma skip_spec n s :
  Inv s ->
  skip n s = if (rcur s + n <=? len s)%nat then (adv s n, Ok tt) else (s, Err ENotEnoughBits).
Proof.
  intros HI. unfold skip. rewrite avail_ltb by exact HI.
  destruct (rcur s + n <=? len s)%nat; reflexivity.
Qed.

(** **** ReadInt: two's complement *)
Definition dec_int (l : bits) : Z :=
  match l with
  | [] => 0%Z
  | sign :: rest =>
      if sign then (Z.of_N (N_of_bits rest) - 2 ^ Z.of_nat (length rest))%Z
      else Z.of_N (N_of_bits rest)
  end.

Lemma rd_S s w :
  Inv s -> (rcur s + S w <= len s)%nat ->
  rd s (S w) = nth 0 (rd s 1) false :: rd (adv s 1) w.
Proof.
  intros HI H. pose proof HI as (H1 & H2 & H3 & H4).
  rewrite !rd_buf by (cbn [adv set_rcur rcur len]; lia).
  cbn [adv set_rcur rcur buf].
  rewrite Nat.add_1_r.
  destruct (skipn (rcur s) (buf s)) as [|b t] eqn:E.
  - assert (length (skipn (rcur s) (buf s)) = 0%nat) by (rewrite E; reflexivity).
    rewrite skipn_length in *. lia.
  - cbn [firstn nth]. f_equal. f_equal.
    replace (S (rcur s)) with (rcur s + 1)%nat by lia. rewrite <- skipn_add, E. reflexivity.
Qed.

Lemma i64_small n : (n < 2 ^ 63)%N -> i64_of_N n = Z.of_N n.
Proof.
  intros H. unfold i64_of_N.
  assert (Z.of_N n < 2 ^ 63)%Z by (change (2 ^ 63)%Z with (Z.of_N (2 ^ 63)); lia).
  change (Z.of_N two64) with (2 ^ 64)%Z. change two63 with (2 ^ 63)%Z.
  rewrite Z.mod_small by lia.
  destruct (Z.ltb_spec (Z.of_N n) (2 ^ 63)); lia.
Qed.

Theorem read_int_spec w s :
  Inv s -> (1 <= w <= 64)%nat ->
  read_int w s =
    if (rcur s + w <=? len s)%nat then (adv s w, Ok (dec_int (rd s w)))
    else (s, Err ENotEnoughBits).
Proof.
  intros HI Hw. pose proof HI as (H1 & H2 & H3 & H4). unfold read_int.
  destruct (Nat.ltb_spec 64 w) as [?|_]; [lia|].
  destruct (Nat.eqb_spec w 0) as [?|_]; [lia|].
  rewrite avail_ltb by exact HI.
  destruct (Nat.leb_spec (rcur s + w) (len s)) as [Hfit|Hno]; cbn [negb]; [|reflexivity].
  rewrite short_false by lia.
  destruct w as [|k]; [lia|].
  rewrite (rd_S s k HI Hfit).
  assert (Hsign : get_bit (rcur s) s = nth 0 (rd s 1) false).
  { pose proof (read_bit_spec s HI) as Hb. unfold read_bit in Hb.
    rewrite avail_ltb in Hb by exact HI.
    destruct (Nat.leb_spec (rcur s + 1) (len s)); [|lia]. cbn [negb] in Hb.
    rewrite short_false in Hb by lia. congruence. }
  rewrite Hsign. set (sign := nth 0 (rd s 1) false).
  assert (HI1 : Inv (adv s 1)) by (apply Inv_adv; [exact HI|lia]).
  replace (set_rcur s (S (rcur s))) with (adv s 1) by (unfold adv; rewrite Nat.add_1_r; reflexivity).
  assert (Hadv : adv (adv s 1) k = adv s (S k)).
  { unfold adv, set_rcur; cbn. f_equal. lia. }
  assert (Hlenk : length (rd (adv s 1) k) = k).
  { apply rd_length; [exact HI1|]. cbn [adv set_rcur rcur len]. lia. }
  cbn [dec_int]. rewrite Hlenk.
  destruct (Nat.eqb_spec (S k) 1) as [Hk1|Hk1].
  - assert (k = 0%nat) by lia. subst k.
    replace (adv s 1) with (adv s 1) by reflexivity.
    destruct (rd (adv s 1) 0) eqn:E; [|cbn in Hlenk; lia].
    cbn. destruct sign; reflexivity.
  - replace (S k - 1)%nat with k by lia.
    rewrite (read_uint_spec k (adv s 1) HI1) by lia.
    cbn [adv set_rcur rcur len].
    destruct (Nat.leb_spec (rcur s + 1 + k) (len s)); [|lia].
    fold (adv s 1). rewrite Hadv.
    set (base := N_of_bits (rd (adv s 1) k)).
    assert (Hb : (base < 2 ^ N.of_nat k)%N) by (unfold base; rewrite <- Hlenk at 2; apply N_of_bits_bound).
    assert (Hk63 : (2 ^ N.of_nat k <= 2 ^ 63)%N) by (apply N.pow_le_mono_r; lia).
    destruct sign; f_equal; f_equal.
    + (* negative *)
      unfold i64_of_N.
      assert (HP : Z.of_N (2 ^ N.of_nat k) = (2 ^ Z.of_nat k)%Z)
        by (rewrite N2Z.inj_pow, nat_N_Z; reflexivity).
      set (P := (2 ^ N.of_nat k)%N) in *.
      assert (Hpk : (0 < P)%N) by apply pow2_pos.
      change two64 with 18446744073709551616%N. change two63 with 9223372036854775808%Z.
      change (2 ^ 63)%N with 9223372036854775808%N in Hk63.
      rewrite N.mod_small by lia.
      rewrite <- HP.
      change (Z.of_N 18446744073709551616) with 18446744073709551616%Z.
      rewrite Z.mod_small by lia.
      destruct (Z.ltb_spec (Z.of_N (base + 18446744073709551616 - P)) 9223372036854775808); lia.
    + apply i64_small. lia.
Qed.

