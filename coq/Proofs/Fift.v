(** Fift hex text form: parsing the printed form returns the same bits, for
    every bit list (no length bound). *)
From Coq Require Import List NArith Arith Lia Bool.
From Tongo Require Import Lib.Bits Model.BitString.
Import ListNotations.

Lemma nibble_back (l : bits) : length l = 4%nat -> bits_of 4 (nibble l) = l.
Proof. intros H. unfold nibble. rewrite <- H at 1. apply bits_of_N_of_bits. Qed.

Lemma nibbles_app k : forall fuel a b,
  length a = (4 * k)%nat -> (k <= fuel)%nat ->
  nibbles fuel (a ++ b) = nibbles k a ++ nibbles (fuel - k) b.
Proof.
  induction k as [|k IH]; intros fuel a b Ha Hf.
  - destruct a; [|cbn in Ha; lia]. cbn [app nibbles]. f_equal. lia.
  - destruct fuel as [|fuel]; [lia|].
    destruct a as [|a0 [|a1 [|a2 [|a3 a']]]]; cbn [length] in Ha; try lia.
    cbn [Nat.add nibbles app firstn skipn].
    f_equal. replace (S fuel - S k)%nat with (fuel - k)%nat by lia.
    apply IH; [cbn [length] in Ha; lia|lia].
Qed.

Lemma concat_nibbles_app a b :
  concat_nibbles (a ++ b) = concat_nibbles a ++ concat_nibbles b.
Proof. induction a as [|x a IH]; cbn [app concat_nibbles]; [reflexivity|]. rewrite IH, app_assoc. reflexivity. Qed.

Lemma concat_nibbles_nibbles k : forall l fuel,
  length l = (4 * k)%nat -> (k <= fuel)%nat -> concat_nibbles (nibbles fuel l) = l.
Proof.
  induction k as [|k IH]; intros l fuel Hl Hf.
  - destruct l; [|cbn in Hl; lia]. destruct fuel; reflexivity.
  - destruct fuel as [|fuel]; [lia|].
    destruct l as [|a0 [|a1 [|a2 [|a3 l']]]]; cbn [length] in Hl; try lia.
    cbn [nibbles firstn skipn concat_nibbles].
    rewrite nibble_back by reflexivity.
    cbn [app]. do 4 f_equal. apply IH; [lia|lia].
Qed.

Lemma nibbles_exact k : forall l fuel,
  length l = (4 * k)%nat -> (k <= fuel)%nat -> nibbles fuel l = nibbles k l.
Proof.
  induction k as [|k IH]; intros l fuel Hl Hf.
  - destruct l; [|cbn in Hl; lia]. destruct fuel; reflexivity.
  - destruct fuel as [|fuel]; [lia|].
    destruct l as [|a0 [|a1 [|a2 [|a3 l']]]]; cbn [length] in Hl; try lia.
    cbn [nibbles firstn skipn]. f_equal. apply IH; lia.
Qed.

Theorem fift_roundtrip (l : bits) :
  let '(ds, u) := to_fift l in from_fift ds u = Some l.
Proof.
  unfold to_fift.
  pose proof (Nat.div_mod (length l) 4 ltac:(lia)) as Hdm.
  pose proof (Nat.mod_upper_bound (length l) 4 ltac:(lia)) as Hub.
  set (k := (length l / 4)%nat) in *. set (m := (length l mod 4)%nat) in *.
  destruct (Nat.eqb_spec m 0) as [Hm|Hm].
  - cbv beta iota. unfold from_fift. f_equal. apply (concat_nibbles_nibbles k); lia.
  - cbv beta iota. (* split l into the 4k-bit body and the m-bit tail *)
    set (body := firstn (4 * k) l). set (tail := skipn (4 * k) l).
    assert (Hl : l = body ++ tail) by (unfold body, tail; rewrite firstn_skipn; reflexivity).
    assert (Hbody : length body = (4 * k)%nat) by (unfold body; rewrite firstn_length; lia).
    assert (Htail : length tail = m) by (unfold tail; rewrite skipn_length; lia).
    clearbody body tail.
    set (B := tail ++ true :: zeros (4 - m - 1)).
    assert (HB : length B = 4%nat).
    { unfold B. rewrite app_length. cbn [length]. unfold zeros. rewrite repeat_length. lia. }
    assert (Hds : nibbles (S (length l)) (l ++ true :: zeros (4 - m - 1))
                  = nibbles k body ++ [nibble B]).
    { rewrite Hl at 2. rewrite <- app_assoc. fold B.
      rewrite (nibbles_app k) by lia.
      f_equal.
      destruct B as [|b0 [|b1 [|b2 [|b3 [|]]]]]; cbn [length] in HB; try lia.
      replace (S (length l) - k)%nat with (S (length l - k)) by lia.
      cbn [nibbles firstn skipn].
      destruct (length l - k)%nat; reflexivity. }
    rewrite Hds. unfold from_fift.
    rewrite rev_app_distr. cbn [rev app].
    rewrite rev_involutive.
    rewrite (concat_nibbles_nibbles k) by lia.
    unfold strip_tag. rewrite nibble_back by exact HB.
    unfold B.
    destruct tail as [|t0 [|t1 [|t2 [|t3 tl]]]]; cbn [length] in Htail; try lia.
    + replace (4 - m - 1)%nat with 2%nat by lia. cbn. rewrite Hl.
      repeat (match goal with |- context [if ?b then _ else _] => destruct b end); reflexivity.
    + replace (4 - m - 1)%nat with 1%nat by lia. cbn. rewrite Hl.
      repeat (match goal with |- context [if ?b then _ else _] => destruct b end); reflexivity.
    + replace (4 - m - 1)%nat with 0%nat by lia. cbn. rewrite Hl.
      repeat (match goal with |- context [if ?b then _ else _] => destruct b end); reflexivity.
Qed.
