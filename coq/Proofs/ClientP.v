(** Invariants of the lite-client request/response registry (Model/Client.v). *)
From Coq Require Import List NArith Bool Arith Lia.
From Tongo Require Import Model.Client.
Import ListNotations.

Ltac sred :=
  cbn [pc reg ch next status broken rq loops wire emitted delivered since pinger psince
       set_pc set_reg set_ch set_next set_status set_broken set_rq set_loops set_wire
       set_emitted set_delivered set_since set_pinger set_psince fst snd] in *.

Lemma cupd_same {A} (f : nat -> A) i v : cupd f i v i = v.
Proof. unfold cupd. rewrite Nat.eqb_refl. reflexivity. Qed.

Lemma cupd_other {A} (f : nat -> A) i v j : j <> i -> cupd f i v j = f j.
Proof. unfold cupd. intros Hne. destruct (Nat.eqb_spec j i); [contradiction|reflexivity]. Qed.

Ltac cu :=
  repeat match goal with
  | H : context [cupd _ ?i _ ?j] |- _ =>
      destruct (Nat.eq_dec j i) as [?|?];
      [subst; rewrite ?cupd_same in * | rewrite ?(cupd_other _ i _ j) in * by assumption]
  | |- context [cupd _ ?i _ ?j] =>
      destruct (Nat.eq_dec j i) as [?|?];
      [subst; rewrite ?cupd_same in * | rewrite ?(cupd_other _ i _ j) in * by assumption]
  end.

Ltac step_inv H :=
  unfold step in H;
  repeat match type of H with
  | context [match ?x with _ => _ end] => destruct x eqn:?
  end;
  try discriminate H;
  injection H as H; subst.

(** ---- the Go map ---- *)

Lemma lookup_in id r i : lookup id r = Some i -> In (id, i) r.
Proof.
  induction r as [|[k j] t IH]; cbn [lookup]; [discriminate|].
  destruct (N.eqb_spec k id) as [->|Hne].
  - intros [= ->]. left. reflexivity.
  - intros H. right. exact (IH H).
Qed.

Lemma in_remove_id id r e : In e (remove_id id r) <-> In e r /\ fst e <> id.
Proof.
  unfold remove_id. rewrite filter_In. split; intros [Hin Hne]; split; try exact Hin.
  - intros Heq. rewrite Heq, N.eqb_refl in Hne. discriminate.
  - destruct (N.eqb_spec (fst e) id); [contradiction|reflexivity].
Qed.

Lemma remove_id_keys id r : ~ In id (map fst (remove_id id r)).
Proof.
  intros Hin. apply in_map_iff in Hin as (e & He & Hin).
  apply in_remove_id in Hin as [_ Hne]. contradiction.
Qed.

Lemma remove_id_nodup id r : NoDup (map fst r) -> NoDup (map fst (remove_id id r)).
Proof.
  induction r as [|e t IH]; cbn [map remove_id filter]; intros Hnd; [constructor|].
  inversion Hnd as [|x l Hnotin Hnd' Heq]; subst.
  destruct (negb (fst e =? id)%N).
  - cbn [map]. constructor; [|exact (IH Hnd')].
    intros Hin. apply Hnotin. apply in_map_iff in Hin as (e' & He' & Hin').
    apply in_map_iff. exists e'. split; [exact He'|].
    apply (proj1 (in_remove_id id t e')) in Hin'. tauto.
  - exact (IH Hnd').
Qed.

Section Inv.
  Variable nconn : nat.
  Variable ids : nat -> N.
  Notation step := (step nconn ids).
  Notation reachable := (reachable nconn ids).

  (** ---- 1. the registry ---- *)

  Definition reg_inv (s : state) : Prop :=
    (forall id i, In (id, i) (reg s) -> id = ids i /\ in_flight (pc s i) = true /\ ch s i = None) /\
    (forall i, pc s i = CInit -> ch s i = None) /\
    NoDup (map fst (reg s)).

  Lemma reg_inv_init : reg_inv init_state.
  Proof.
    unfold reg_inv, init_state. sred. repeat apply conj; [intros id i []|reflexivity|constructor].
  Qed.

  Lemma reg_inv_step s l s' : reg_inv s -> step s l = Some s' -> reg_inv s'.
  Proof.
    intros (Hreg & Hinit & Hnd) Hs. unfold reg_inv.
    step_inv Hs; sred.
    all: repeat apply conj.
    all: try solve [apply remove_id_nodup; assumption].
    all: try assumption.
    all: intros.
    all: repeat match goal with
         | H : In _ (remove_id _ _) |- _ => apply in_remove_id in H as [H ?]
         | H : In _ (_ :: _) |- _ => destruct H as [H|H]
         | H : (_, _) = (_, _) |- _ => injection H as ? ?; subst
         end.
    all: sred.
    all: try match goal with H : In (_, _) (reg _) |- _ => pose proof (Hreg _ _ H) as (? & ? & ?) end.
    all: cu; sred.
    all: try solve [repeat apply conj; try reflexivity; try assumption; try congruence; auto].
    all: try solve [cbn [map fst]; constructor; [apply remove_id_keys|apply remove_id_nodup; assumption]].
    all: match goal with H : lookup _ _ = Some _ |- _ =>
           pose proof (Hreg _ _ (lookup_in _ _ _ H)) as (? & ? & ?) end.
    all: try (exfalso; congruence).
    all: match goal with H : pc _ _ = CInit, H' : in_flight _ = true |- _ =>
           rewrite H in H'; discriminate H' end.
  Qed.

  Theorem reg_inv_reachable s : reachable init_state s -> reg_inv s.
  Proof.
    induction 1 as [|s l s' _ IH Hs]; [apply reg_inv_init|exact (reg_inv_step _ _ _ IH Hs)].
  Qed.

  (** the reader never blocks: every registered channel is empty, so the send in
      processQueryAnswer always completes; whatever packet is next, the reader
      has an enabled step *)
  Theorem reader_never_blocks s k :
    reachable init_state s -> wire s k <> [] -> step s (LDeliver k) <> None.
  Proof.
    intros Hr Hw. destruct (reg_inv_reachable _ Hr) as (Hreg & _ & _).
    unfold step. destruct (wire s k) as [|p rest]; [contradiction|].
    destruct p as [id d|id| |]; try discriminate.
    destruct (lookup id (reg s)) as [i|] eqn:Hl; [|discriminate].
    destruct (Hreg _ _ (lookup_in _ _ _ Hl)) as (_ & _ & Hch). rewrite Hch. discriminate.
  Qed.

  (** the registry holds entries of calls in flight only, at most one per call and
      per id: it does not grow with completed calls *)
  Theorem registry_bounded s :
    reachable init_state s ->
    (forall id i, In (id, i) (reg s) -> id = ids i /\ in_flight (pc s i) = true) /\
    NoDup (map fst (reg s)).
  Proof.
    intros Hr. destruct (reg_inv_reachable _ Hr) as (Hreg & _ & Hnd). split; [|exact Hnd].
    intros id i Hin. destruct (Hreg _ _ Hin) as (H1 & H2 & _). auto.
  Qed.

  Theorem registry_empty_when_idle s :
    reachable init_state s -> (forall i, in_flight (pc s i) = false) -> reg s = [].
  Proof.
    intros Hr Hidle. destruct (registry_bounded _ Hr) as (Hreg & _).
    destruct (reg s) as [|[id i] t]; [reflexivity|].
    destruct (Hreg id i (or_introl eq_refl)) as (_ & Hf). rewrite Hidle in Hf. discriminate.
  Qed.

  (** ---- 2. what a call can receive ---- *)

  Definition del_inv (s : state) : Prop :=
    (forall k id d, In (PAnswer id d) (wire s k) -> In (id, d) (emitted s)) /\
    (forall i d, In (i, d) (delivered s) -> In (ids i, d) (emitted s)) /\
    (forall i d, ch s i = Some d -> In (i, d) (delivered s)) /\
    (forall i d, (pc s i = CLeaving (ROk d) \/ pc s i = CReturned (ROk d)) -> In (i, d) (delivered s)) /\
    (forall i d, In (i, d) (delivered s) -> pc s i <> CInit /\ forall id, ~ In (id, i) (reg s)) /\
    (forall i d d', In (i, d) (delivered s) -> In (i, d') (delivered s) -> d = d').

  Lemma del_inv_init : del_inv init_state.
  Proof.
    unfold del_inv, init_state. sred.
    repeat apply conj; try (intros; discriminate); try (intros; contradiction).
    intros i d [H|H]; discriminate.
  Qed.

  Lemma del_inv_step s l s' : reg_inv s -> del_inv s -> step s l = Some s' -> del_inv s'.
  Proof.
    intros (Hreg & Hinit & Hnd) (Hw & Hde & Hch & Hres & Hfresh & Huniq) Hs. unfold del_inv.
    step_inv Hs; sred.
    all: repeat apply conj.
    all: try assumption.
    all: intros.
    all: repeat match goal with
         | H : lookup _ _ = Some _ |- _ => apply lookup_in in H; pose proof (Hreg _ _ H) as (? & ? & ?)
         end.
    all: repeat (cu; sred; repeat match goal with
         | H : _ \/ _ |- _ => destruct H as [H|H]
         | H : In _ (remove_id _ _) |- _ => apply in_remove_id in H as [H ?]
         | H : In _ (_ ++ [_]) |- _ => apply in_app_or in H as [H|[H|[]]]
         | H : In _ [] |- _ => destruct H
         | H : (_, _) = (_, _) |- _ => injection H as ? ?; subst
         | H : PAnswer _ _ = PAnswer _ _ |- _ => injection H as ? ?; subst
         | H : Some _ = Some _ |- _ => injection H as ?; subst
         | H : CLeaving _ = CLeaving _ |- _ => injection H as ?; subst
         | H : CReturned _ = CReturned _ |- _ => injection H as ?; subst
         | H : ROk _ = ROk _ |- _ => injection H as ?; subst
         end).
    all: try discriminate.
    all: try solve [eauto].
    all: try solve [apply in_or_app; left; eauto].
    all: try solve [apply in_or_app; right; left; reflexivity].
    all: try solve [match goal with Hq : wire _ _ = _ :: _ |- _ =>
                      eapply Hw; rewrite Hq; first [left; reflexivity | right; eassumption] end].
    all: try solve [apply in_or_app; left; match goal with Hq : wire _ _ = _ :: _ |- _ =>
                      eapply Hw; rewrite Hq; first [left; reflexivity | right; eassumption] end].
    all: try solve [exfalso; match goal with H : In (_, _) (delivered _) |- _ =>
                      destruct (Hfresh _ _ H) as [Hne Hnr]; first [congruence | eapply Hnr; eassumption] end].
    all: try solve [match goal with H : In (_, _) (delivered _) |- _ /\ _ =>
                      destruct (Hfresh _ _ H) as [Hne Hnr]; split; [first [discriminate | assumption | congruence]|];
                      intros ? Hin;
                      repeat match goal with
                      | H' : In _ (remove_id _ _) |- _ => apply in_remove_id in H' as [H' ?]
                      | H' : In _ (_ :: _) |- _ => destruct H' as [H'|H']
                      | H' : (_, _) = (_, _) |- _ => injection H' as ? ?; subst
                      end; first [congruence | eapply Hnr; eassumption] end].
    - split.
      + intros Hc. rewrite Hc in H1. discriminate.
      + intros id Hin. apply in_remove_id in Hin as [Hin Hne]. sred.
        destruct (Hreg _ _ Hin) as (-> & _). congruence.
    - congruence.
  Qed.

  Theorem del_inv_reachable s : reachable init_state s -> del_inv s.
  Proof.
    induction 1 as [|s l s' Hr IH Hs]; [apply del_inv_init|].
    exact (del_inv_step _ _ _ (reg_inv_reachable _ Hr) IH Hs).
  Qed.

  (** a call that returns data returns an answer the server emitted for that
      call's own query id; it is the one delivery ever made to that call *)
  Theorem own_answer s i d :
    reachable init_state s ->
    (pc s i = CLeaving (ROk d) \/ pc s i = CReturned (ROk d)) ->
    In (ids i, d) (emitted s) /\ In (i, d) (delivered s) /\
    forall d', In (i, d') (delivered s) -> d' = d.
  Proof.
    intros Hr Hpc. destruct (del_inv_reachable _ Hr) as (_ & Hde & _ & Hres & _ & Huniq).
    pose proof (Hres _ _ Hpc) as Hd. repeat apply conj; [exact (Hde _ _ Hd)|exact Hd|].
    intros d' Hd'. exact (Huniq _ _ _ Hd' Hd).
  Qed.

  (** conversely the answer gets through: if call i is waiting and still registered
      and the next packet on some connection is an answer for its id, the reader
      delivers it and the call's receive branch is enabled with exactly that data *)
  Theorem answer_gets_through s i k d rest :
    reachable init_state s ->
    pc s i = CSent -> In (ids i, i) (reg s) -> wire s k = PAnswer (ids i) d :: rest ->
    exists s1 s2, step s (LDeliver k) = Some s1 /\ step s1 (LRecv i) = Some s2 /\
                  pc s2 i = CLeaving (ROk d).
  Proof.
    intros Hr Hpc Hin Hw. destruct (reg_inv_reachable _ Hr) as (Hreg & _ & Hnd).
    assert (Hl : lookup (ids i) (reg s) = Some i).
    { clear - Hin Hnd. induction (reg s) as [|[k0 j] t IH]; [destruct Hin|].
      cbn [lookup]. cbn [map fst] in Hnd. inversion Hnd as [|x l Hnotin Hnd' Heq]; subst.
      destruct Hin as [[= -> ->]|Hin].
      - rewrite N.eqb_refl. reflexivity.
      - destruct (N.eqb_spec k0 (ids i)) as [->|Hne]; [|exact (IH Hin Hnd')].
        exfalso. apply Hnotin. apply in_map_iff. exists (ids i, i). auto. }
    destruct (Hreg _ _ Hin) as (_ & _ & Hch).
    unfold step at 1. rewrite Hw, Hl, Hch. eexists. eexists. split; [reflexivity|].
    unfold step. sred. rewrite Hpc, cupd_same. split; [reflexivity|]. sred. apply cupd_same.
  Qed.

  (** ---- 3. no stuck call ---- *)

  (** whatever the other goroutines do, a call that has not returned has an
      enabled step of its own; in the select this is the timeout branch *)
  Theorem timeout_enabled s i : pc s i = CSent -> step s (LTimeout i) <> None.
  Proof. intros Hpc. unfold step. rewrite Hpc. discriminate. Qed.

  Definition own_label (i : nat) (l : label) : Prop :=
    l = LRegister i \/ l = LPick i \/ l = LSendOk i \/ l = LSendFail i \/
    l = LTimeout i \/ l = LUnregister i.

  Theorem no_stuck_call s i :
    (forall r, pc s i <> CReturned r) -> exists l, own_label i l /\ step s l <> None.
  Proof.
    intros Hnr. unfold own_label. destruct (pc s i) as [| |k| |r|r] eqn:Hpc.
    - exists (LRegister i). split; [auto|]. unfold step. rewrite Hpc. discriminate.
    - exists (LPick i). split; [auto 6|]. unfold step. rewrite Hpc. discriminate.
    - destruct (status s k) eqn:Hst.
      + exists (LSendOk i). split; [auto 6|]. unfold step. rewrite Hpc, Hst. discriminate.
      + exists (LSendFail i). split; [auto 6|]. unfold step. rewrite Hpc, Hst. discriminate.
    - exists (LTimeout i). split; [auto 8|]. unfold step. rewrite Hpc. discriminate.
    - exists (LUnregister i). split; [auto 8|]. unfold step. rewrite Hpc. discriminate.
    - exfalso. exact (Hnr r eq_refl).
  Qed.

  (** ---- 4. the reconnect loop ---- *)

  Definition conn_inv (s : state) : Prop :=
    forall k, loops s k = if status s k then 0 else 1.

  Lemma conn_inv_step s l s' : conn_inv s -> step s l = Some s' -> conn_inv s'.
  Proof.
    intros Hc Hs k. specialize (Hc k).
    step_inv Hs; sred; try assumption.
    all: cu; sred; try assumption; try reflexivity.
    all: try (match goal with H : status _ _ = _ |- _ => rewrite H in Hc end); try lia.
    all: destruct (status s k0); lia.
  Qed.

  (** at most one reconnect loop per connection, and exactly while it is Connecting *)
  Theorem single_reconnect s k :
    reachable init_state s -> loops s k <= 1 /\ (loops s k = 1 <-> status s k = false).
  Proof.
    intros Hr. assert (Hc : conn_inv s).
    { induction Hr as [|s l s' _ IH Hs]; [intros k'; reflexivity|exact (conn_inv_step _ _ _ IH Hs)]. }
    specialize (Hc k). destruct (status s k); rewrite Hc; split; try lia; split; intros; try lia; congruence.
  Qed.

  (** ---- 4b. the pinger ---- *)

  Lemma pinger_step s l s' : step s l = Some s' -> pinger s' = pinger s.
  Proof. intros Hs. step_inv Hs; reflexivity. Qed.

  (** the pinger of a connection is never lost: not by failed sends, not by reconnects *)
  Theorem pinger_alive s k : reachable init_state s -> pinger s k = true.
  Proof.
    induction 1 as [|s l s' _ IH Hs]; [reflexivity|]. rewrite (pinger_step _ _ _ Hs). exact IH.
  Qed.

  Definition ping_label (k : nat) (l : label) : Prop :=
    l = LPingOk k \/ l = LPingSkip k \/ l = LPingFail k.

  (** ... and it is always enabled: on a Connected connection it writes its ping *)
  Theorem pinger_enabled s k :
    reachable init_state s ->
    (exists l, ping_label k l /\ step s l <> None) /\
    (status s k = true -> step s (LPingOk k) <> None).
  Proof.
    intros Hr. pose proof (pinger_alive s k Hr) as Hp. unfold ping_label, step. rewrite Hp. cbn [andb].
    destruct (status s k) eqn:Hst; split; try discriminate.
    - exists (LPingOk k). rewrite Hp, Hst. split; [auto|discriminate].
    - exists (LPingSkip k). rewrite Hp, Hst. split; [auto|discriminate].
  Qed.

  (** time does not run past the pinger's deadline without a ping *)
  Theorem psince_bounded s k : reachable init_state s -> psince s k <= ping_ticks.
  Proof.
    induction 1 as [|s l s' Hr IH Hs]; [cbn; lia|].
    pose proof (pinger_alive s k Hr) as Hp.
    step_inv Hs; sred; try assumption.
    all: unfold cupd; destruct (Nat.eqb_spec k k0); subst; try assumption; try lia.
    rewrite Hp in *. cbn [negb orb] in *.
    match goal with H : Nat.ltb _ _ = true |- _ => apply Nat.ltb_lt in H; lia end.
  Qed.

  (** after a drop, the path ping failure -> reconnect -> done is enabled and
      re-establishes the connection (that it is eventually taken is a fairness
      assumption, not a safety theorem) *)
  Theorem reconnect_path_partial s k :
    reachable init_state s -> status s k = true -> broken s k = false ->
    exists s', exec nconn ids s [LDrop k; LPingFail k; LReconnectEnter k; LReconnectDone k] = Some s' /\
               status s' k = true /\ broken s' k = false /\ loops s' k = 0.
  Proof.
    intros Hr Hst Hbr. destruct (single_reconnect s k Hr) as [_ Hl].
    assert (Hl0 : loops s k = 0).
    { destruct (loops s k) as [|[|n]] eqn:E; [reflexivity| |].
      - destruct Hl as [Hl _]. specialize (Hl eq_refl). congruence.
      - destruct (single_reconnect s k Hr) as [Hle _]. lia. }
    pose proof (pinger_alive s k Hr) as Hp.
    cbn [exec]. unfold step at 1. rewrite Hst, Hbr. cbn [andb negb].
    unfold step at 1. sred. rewrite !cupd_same, Hst, Hp. cbn [andb].
    unfold step at 1. sred. rewrite !cupd_same, Hst.
    unfold step at 1. sred. rewrite !cupd_same.
    eexists. split; [reflexivity|]. sred. rewrite !cupd_same. rewrite Hl0. auto.
  Qed.
  (** ---- 5. consequences used by the property file ---- *)

  (** if the server only ever answers query id [ids j] with [payload j] and ids are
      pairwise distinct, a call never returns another call's payload *)
  Theorem no_foreign_answer (payload : nat -> N) s i d :
    reachable init_state s ->
    (forall a b, ids a = ids b -> a = b) ->
    (forall id d', In (id, d') (emitted s) -> exists j, id = ids j /\ d' = payload j) ->
    (pc s i = CLeaving (ROk d) \/ pc s i = CReturned (ROk d)) ->
    d = payload i.
  Proof.
    intros Hr Hinj Hsrv Hpc. destruct (own_answer s i d Hr Hpc) as (Hem & _ & _).
    destruct (Hsrv _ _ Hem) as (j & Hid & ->). rewrite (Hinj _ _ Hid). reflexivity.
  Qed.

  (** Send writes only on a connection whose status is Connected *)
  Theorem send_only_connected s i s' :
    step s (LSendOk i) = Some s' -> exists k, pc s i = CPicked k /\ status s k = true.
  Proof.
    unfold step. destruct (pc s i) as [| |k| |r|r] eqn:Hpc; try discriminate.
    destruct (status s k) eqn:Hst; [|discriminate]. intros _. exists k. auto.
  Qed.

  (** the reconnect loop of a Connecting connection can always finish *)
  Theorem reconnect_can_finish s k :
    reachable init_state s -> status s k = false -> step s (LReconnectDone k) <> None.
  Proof.
    intros Hr Hst. destruct (single_reconnect s k Hr) as [_ [_ Hl]]. specialize (Hl Hst).
    unfold step. rewrite Hl. discriminate.
  Qed.

  (** ... after any number of failed attempts and any waiting time: the attempts of
      the loop are independent (each has a context of its own), so an outage of any
      length does not disable the reconnection *)
  Definition waiting_label (k : nat) (l : label) : Prop := l = LReconnectFail k \/ exists j, l = LTick j.

  Theorem reconnect_done_after_failed_attempts ls : forall s s' k,
    reachable init_state s -> status s k = false ->
    (forall l, In l ls -> waiting_label k l) ->
    exec nconn ids s ls = Some s' ->
    status s' k = false /\ reachable init_state s' /\ step s' (LReconnectDone k) <> None.
  Proof.
    induction ls as [|l t IH]; cbn [exec]; intros s s' k Hr Hst Hall.
    - intros [= <-]. repeat split; auto. exact (reconnect_can_finish _ _ Hr Hst).
    - destruct (step s l) as [s1|] eqn:E; [|discriminate]. intros H.
      assert (Hr1 : reachable init_state s1) by (eapply reach_step; eassumption).
      assert (Hst1 : status s1 k = false).
      { destruct (Hall l (or_introl eq_refl)) as [->|[j ->]]; unfold step in E.
        - destruct (loops s k); [discriminate|]. injection E as <-. exact Hst.
        - destruct (negb (pinger s j) || Nat.ltb (psince s j) ping_ticks); [|discriminate].
          injection E as <-. exact Hst. }
      exact (IH _ _ _ Hr1 Hst1 (fun l' Hl' => Hall l' (or_intror Hl')) H).
  Qed.

  (** failed attempts are always possible while the loop runs (the model does not
      force the server to be reachable) *)
  Theorem reconnect_fail_enabled s k :
    reachable init_state s -> status s k = false -> step s (LReconnectFail k) = Some s.
  Proof.
    intros Hr Hst. destruct (single_reconnect s k Hr) as [_ [_ Hl]]. specialize (Hl Hst).
    unfold step. rewrite Hl. reflexivity.
  Qed.

  (** a new call over an established connection completes with its answer: the
      round-robin choice [next s] is Connected, the server receives the query and
      answers on any healthy connection [kr] whose reader is idle *)
  Theorem call_completes s i kr d :
    reachable init_state s ->
    pc s i = CInit -> status s (next s) = true ->
    status s kr = true -> broken s kr = false -> wire s kr = [] ->
    exists s', exec nconn ids s [LRegister i; LPick i; LSendOk i; LEmit kr (PAnswer (ids i) d);
                                 LDeliver kr; LRecv i; LUnregister i] = Some s' /\
               pc s' i = CReturned (ROk d) /\ ~ In (ids i) (map fst (reg s')).
  Proof.
    intros Hr Hpc Hst Hkr Hbr Hw. destruct (reg_inv_reachable _ Hr) as (_ & Hinit & _).
    pose proof (Hinit _ Hpc) as Hch.
    cbn [exec].
    unfold step at 1. rewrite Hpc.
    unfold step at 1. sred. rewrite cupd_same.
    unfold step at 1. sred. rewrite cupd_same, Hst.
    unfold step at 1. sred. rewrite Hkr, Hbr. cbn [andb negb].
    unfold step at 1. sred. rewrite cupd_same, Hw. cbn [app lookup]. rewrite N.eqb_refl, Hch.
    unfold step at 1. sred. rewrite !cupd_same.
    unfold step at 1. sred. rewrite !cupd_same.
    eexists. split; [reflexivity|]. sred. rewrite cupd_same. split; [reflexivity|].
    apply remove_id_keys.
  Qed.

  (** ---- 6. the silence rule ---- *)

  Lemma since_step s l s' k : step s l = Some s' -> since s' k = tick_upd k l (since s k).
  Proof.
    intros Hs. step_inv Hs; sred; unfold tick_upd; try reflexivity.
    all: unfold cupd;
      repeat match goal with |- context [Nat.eqb ?a ?b] => destruct (Nat.eqb_spec a b) end;
      subst; try reflexivity; congruence.
  Qed.

  Lemma since_exec ls : forall s s' k,
    exec nconn ids s ls = Some s' -> since s' k = ticks_since k ls (since s k).
  Proof.
    induction ls as [|l t IH]; cbn [exec ticks_since]; intros s s' k.
    - intros [= <-]. reflexivity.
    - destruct (step s l) as [s1|] eqn:E; [|discriminate]. intros H.
      rewrite (IH _ _ _ H), (since_step _ _ _ k E). reflexivity.
  Qed.

  Lemma exec_app l1 : forall l2 s,
    exec nconn ids s (l1 ++ l2) =
    match exec nconn ids s l1 with Some s1 => exec nconn ids s1 l2 | None => None end.
  Proof.
    induction l1 as [|l t IH]; cbn [app exec]; intros l2 s; [reflexivity|].
    destruct (step s l); [apply IH|reflexivity].
  Qed.

  (** the silence rule fires only after a full period without any packet: wherever
      a trace contains the reader's silence step for connection k, at least
      [silence_ticks] seconds have passed since that reader last received a packet
      (answer, pong, auth nonce, junk: any) or was started.  So a connection that
      receives any packet at least once per period is never dropped by this rule. *)
  Theorem silence_only_after_quiet_period l1 l2 k s :
    exec nconn ids init_state (l1 ++ LSilence k :: l2) = Some s ->
    silence_ticks <= ticks_since k l1 0.
  Proof.
    rewrite exec_app. destruct (exec nconn ids init_state l1) as [s1|] eqn:E1; [|discriminate].
    cbn [exec]. destruct (step s1 (LSilence k)) as [s2|] eqn:E2; [|discriminate]. intros _.
    pose proof (since_exec _ _ _ k E1) as Hs. cbn [init_state since] in Hs.
    unfold step in E2. destruct (status s1 k); [|discriminate]. cbn [andb] in E2.
    destruct (Nat.leb_spec silence_ticks (since s1 k)) as [Hle|]; [|discriminate].
    rewrite <- Hs. exact Hle.
  Qed.

  (** every packet the reader processes, whatever its kind, restarts the timer *)
  Theorem any_packet_restarts_silence_timer s k s' :
    step s (LDeliver k) = Some s' -> since s' k = 0 /\ step s' (LSilence k) = None.
  Proof.
    intros Hs. pose proof (since_step _ _ _ k Hs) as H. unfold tick_upd in H.
    rewrite Nat.eqb_refl in H. split; [exact H|].
    unfold step. rewrite H. destruct (status s' k); reflexivity.
  Qed.
End Inv.

(** the client timeout bounds every call, whatever deadline the caller's context has *)
Theorem effective_deadline_bounds timeout caller :
  effective_deadline timeout caller <= timeout /\
  (forall c, caller = Some c -> effective_deadline timeout caller <= c) /\
  (effective_deadline timeout caller = timeout \/ caller = Some (effective_deadline timeout caller)).
Proof.
  unfold effective_deadline. destruct caller as [c|].
  - repeat split; [apply Nat.le_min_l|intros c' [= <-]; apply Nat.le_min_r|].
    destruct (Nat.min_spec timeout c) as [[_ ->]|[_ ->]]; auto.
  - repeat split; [apply le_n|discriminate|auto].
Qed.

(** the receiver reads back the length the sender wrote, for every size below 2^24
    (the query of a raw Request of any size reaches the server decodable, and so does
    its answer on the way back) *)
Theorem len_prefix_roundtrip (n : N) (r : list N) :
  (n < 16777216)%N -> dec_len (enc_len n ++ r) = Some (n, r).
Proof.
  intros Hn. unfold enc_len. destruct (N.ltb_spec n 254) as [Hlt|Hge]; cbn [app dec_len].
  - destruct (N.eqb_spec n 255) as [->|_]; [lia|].
    destruct (N.ltb_spec n 254); [reflexivity|lia].
  - change (254 =? 255)%N with false. change (254 <? 254)%N with false. cbn iota. f_equal. f_equal.
    pose proof (N.div_mod n 256 ltac:(lia)) as H1.
    pose proof (N.div_mod (n / 256) 256 ltac:(lia)) as H2.
    assert (H3 : (n / 65536 = n / 256 / 256)%N) by (rewrite N.div_div by lia; reflexivity).
    assert (H4 : (n / 65536 < 256)%N) by (apply N.div_lt_upper_bound; lia).
    rewrite (N.mod_small (n / 65536) 256 H4). lia.
Qed.
