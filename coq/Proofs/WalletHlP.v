(** The highload payload (16-bit-keyed dictionary) decodes to the requested
    messages, through the dictionary theorems of C05; then the round-trip theorem
    for all versions. *)
From Coq Require Import List NArith ZArith Arith Bool Lia Sorted.
From Tongo Require Import Lib.Bits Lib.Res Model.BocParse Model.CellHash Spec.ReprHash Model.Wallet
  Proofs.WalletP Proofs.WalletSigP Proofs.WalletRtP.
From Tongo Require Spec.Dict Model.Hashmap Proofs.DictP Proofs.HashmapSort Proofs.HashmapP Proofs.HashmapP2.
Import ListNotations.

(** *** ordinary cells <-> dictionary cells *)
Fixpoint dcell_ind' (P : Dict.cell -> Prop)
         (H : forall b rs, Forall P rs -> P (Dict.Cell b rs)) (c : Dict.cell) : P c :=
  match c with
  | Dict.Cell b rs =>
      H b rs ((fix go (l : list Dict.cell) : Forall P l :=
                 match l with
                 | [] => Forall_nil P
                 | x :: t => Forall_cons x (dcell_ind' P H x) (go t)
                 end) rs)
  end.

Fixpoint cell_ind' (P : cell -> Prop)
         (H : forall s ty m d rs, Forall P rs -> P (Cell s ty m d rs)) (c : cell) : P c :=
  match c with
  | Cell s ty m d rs =>
      H s ty m d rs ((fix go (l : list cell) : Forall P l :=
                        match l with
                        | [] => Forall_nil P
                        | x :: t => Forall_cons x (cell_ind' P H x) (go t)
                        end) rs)
  end.

Definition to_dict_list : list cell -> option (list Dict.cell) :=
  fix go (l : list cell) : option (list Dict.cell) :=
    match l with
    | [] => Some []
    | x :: t => match to_dict x, go t with
                | Some y, Some ys => Some (y :: ys)
                | _, _ => None
                end
    end.
Definition of_dict_list : list Dict.cell -> list cell :=
  fix go (l : list Dict.cell) : list cell :=
    match l with [] => [] | x :: t => of_dict x :: go t end.

Lemma to_dict_of_dict d : to_dict (of_dict d) = Some d.
Proof.
  induction d as [b rs IH] using dcell_ind'. cbn [of_dict ocell to_dict].
  fold of_dict_list. fold to_dict_list. cbn [orb negb N.eqb].
  assert (E : to_dict_list (of_dict_list rs) = Some rs).
  { induction IH as [|x t Hx _ IHt]; [reflexivity|]. cbn [of_dict_list to_dict_list].
    rewrite Hx, IHt. reflexivity. }
  rewrite E. reflexivity.
Qed.

Lemma of_dict_to_dict c : forall d, to_dict c = Some d -> of_dict d = c.
Proof.
  induction c as [s ty m b rs IH] using cell_ind'. intros d. cbn [to_dict]. fold to_dict_list.
  destruct s; [discriminate|]. cbn [orb].
  destruct (N.eqb ty 0) eqn:Et; [|discriminate]. destruct (N.eqb m 0) eqn:Em; [|discriminate].
  cbn [negb orb]. apply N.eqb_eq in Et. apply N.eqb_eq in Em. subst ty m.
  destruct (to_dict_list rs) as [rs'|] eqn:E; [|discriminate]. intros [= <-].
  cbn [of_dict]. fold of_dict_list. unfold ocell. f_equal.
  revert rs' E. induction IH as [|x t Hx _ IHt]; intros rs' E.
  - cbn in E. injection E as <-. reflexivity.
  - cbn [to_dict_list] in E. destruct (to_dict x) as [y|] eqn:Ex; [|discriminate].
    destruct (to_dict_list t) as [ys|] eqn:Et; [|discriminate]. injection E as <-.
    cbn [of_dict_list]. rewrite (Hx y eq_refl), (IHt ys eq_refl). reflexivity.
Qed.

(** *** the keys 0..n-1 as uint16 ascend in bit order *)
Lemma bits_cmp_N a : forall b, length a = length b ->
  Dict.bits_cmp a b = (N_of_bits a ?= N_of_bits b)%N.
Proof.
  induction a as [|x a IH]; intros [|y b] Hl; cbn [length] in Hl; try discriminate.
  - reflexivity.
  - injection Hl as Hl. cbn [Dict.bits_cmp]. rewrite !N_of_bits_cons, <- Hl.
    pose proof (N_of_bits_bound a) as Ba. pose proof (N_of_bits_bound b) as Bb. rewrite <- Hl in Bb.
    set (P := (2 ^ N.of_nat (length a))%N) in *.
    destruct x, y; cbn [N.b2n].
    + rewrite (IH b Hl).
      destruct (N.compare_spec (N_of_bits a) (N_of_bits b)); symmetry;
        [apply N.compare_eq_iff|apply N.compare_lt_iff|apply N.compare_gt_iff]; lia.
    + symmetry. apply N.compare_gt_iff. lia.
    + symmetry. apply N.compare_lt_iff. lia.
    + rewrite N.mul_0_l, !N.add_0_l. apply IH, Hl.
Qed.

Lemma key16_lt i j : (i < j)%nat -> (N.of_nat j < 65536)%N ->
  Dict.bits_lt (bits_of 16 (N.of_nat i)) (bits_of 16 (N.of_nat j)).
Proof.
  intros Hij Hj. unfold Dict.bits_lt. rewrite bits_cmp_N by (rewrite !bits_of_length; reflexivity).
  rewrite !N_of_bits_bits_of_small by (change (2 ^ N.of_nat 16)%N with 65536%N; lia).
  apply N.compare_lt_iff. lia.
Qed.

(** *** entries built from a message list *)
Lemma hl_entries_spec ms : forall i kvs,
  modes_ok ms -> hl_entries i ms = Some kvs -> (N.of_nat (i + length ms) <= 65536)%N ->
  Dict.sorted kvs /\ Dict.keys_len 16 kvs /\ length kvs = length ms /\
  Forall (fun kv => exists j, (i <= j)%nat /\ (N.of_nat j < 65536)%N /\ fst kv = bits_of 16 (N.of_nat j)) kvs /\
  hl_values kvs = Ok ms.
Proof.
  induction ms as [|m t IH]; intros i kvs Hm H Hb.
  - cbn in H. injection H as <-. repeat split; constructor.
  - inversion Hm as [|? ? Hh Ht]; subst. cbn [hl_entries] in H.
    destruct (to_dict (rm_msg m)) as [d|] eqn:Ed; [|discriminate].
    destruct (hl_entries (S i) t) as [r|] eqn:Er; [|discriminate]. injection H as <-.
    cbn [length] in Hb.
    destruct (IH (S i) r Ht Er ltac:(lia)) as (Hs & Hk & Hlen & Hf & Hv).
    repeat split.
    + constructor; [exact Hs|].
      eapply Forall_impl; [|exact Hf]. intros kv (j & Hj & Hj' & Ej). unfold Dict.key_lt. cbn [fst].
      rewrite Ej. apply key16_lt; lia.
    + constructor; [cbn [fst]; apply bits_of_length|exact Hk].
    + cbn [length]. rewrite Hlen. reflexivity.
    + constructor.
      * exists i. cbn [fst]. split; [lia|]. split; [lia|reflexivity].
      * eapply Forall_impl; [|exact Hf]. intros kv (j & Hj & Hj' & Ej). exists j. split; [lia|]. split; [lia|exact Ej].
    + cbn [hl_values]. rewrite (take_all 8) by apply u8_len. cbn [bind fst snd].
      rewrite Hv. cbn [bind]. rewrite N_u8 by exact Hh. rewrite (of_dict_to_dict _ _ Ed).
      destruct m; reflexivity.
Qed.

Lemma hl_query_split valid rnd :
  (N_of_bits (u64 (hl_query valid rnd)) / 4294967296 = unix32 valid /\
   N_of_bits (u64 (hl_query valid rnd)) mod 4294967296 = rnd mod 4294967296)%N.
Proof.
  pose proof (unix32_bound valid) as Hu.
  assert (Hr : (rnd mod 4294967296 < 4294967296)%N) by (apply N.mod_lt; lia).
  rewrite N_u64 by (unfold hl_query; lia). unfold hl_query. split.
  - rewrite N.div_add_l by lia. rewrite N.div_small by exact Hr. lia.
  - rewrite N.add_comm, N.mod_add by lia. apply N.mod_small, Hr.
Qed.

Lemma decode_hl_built sub valid rnd ms sg u :
  modes_ok ms -> length sg = 512%nat ->
  body_hl sub valid rnd ms = Ok u ->
  decode_hl (ocell (sg ++ cdata u) (crefs u)) =
    Ok (mkdec (sub mod 4294967296) (unix32 valid) 0 (rnd mod 4294967296) ms).
Proof.
  intros Hm Hs Hu. unfold body_hl in Hu.
  destruct (254 <? length ms)%nat eqn:El; [discriminate|]. apply Nat.ltb_ge in El.
  destruct (hl_entries 0 ms) as [kvs|] eqn:Ek; [|discriminate].
  destruct (hl_entries_spec ms 0 kvs Hm Ek ltac:(lia)) as (Hsort & Hkl & Hlen & _ & Hv).
  destruct (hl_query_split valid rnd) as (Hq1 & Hq2).
  unfold decode_hl. destruct kvs as [|kv kvs'].
  - apply mk_ok in Hu. destruct Hu as (-> & _). cbn [cdata crefs ocell].
    rewrite split_signed_app by exact Hs. cbn [bind fst snd cdata crefs ocell]. rewrite <- !app_assoc.
    step 32%nat ltac:(apply u32_len). step 64%nat ltac:(apply u64_len).
    rewrite (take_all 1) by reflexivity. cbn [bind fst snd nth].
    destruct ms; [|discriminate]. rewrite Hq1, Hq2, N_u32_mod. reflexivity.
  - apply bind_ok in Hu. destruct Hu as (root & Hr & Hu). apply mk_ok in Hu. destruct Hu as (-> & _).
    cbn [cdata crefs ocell].
    rewrite split_signed_app by exact Hs. cbn [bind fst snd cdata crefs ocell]. rewrite <- !app_assoc.
    step 32%nat ltac:(apply u32_len). step 64%nat ltac:(apply u64_len).
    rewrite (take_all 1) by reflexivity. cbn [bind fst snd nth first_ref].
    rewrite to_dict_of_dict.
    rewrite (HashmapP.encode_decode_dict Dict.cell Hashmap.venc_any Hashmap.vdec_any HashmapP2.vcodec_any
               16 (kv :: kvs') root (HashmapSort.sorted_nodup _ _ Hsort) Hkl ltac:(discriminate) Hr).
    cbn [bind]. rewrite (HashmapSort.bsort_id _ _ Hsort), Hv. cbn [bind].
    rewrite Hq1, Hq2, N_u32_mod. reflexivity.
Qed.

(** *** round trip for every version *)
Definition expected_id (w : wallet) : N :=
  match w_ver w with
  | V5Beta => v5beta_id (w_net w) (w_wc w) (w_sub w)
  | V5R1 => (w_wid w mod 4294967296)%N
  | _ => (w_sub w mod 4294967296)%N
  end.

Section RT.
Variable SK : Type.
Variable chash : cell -> res bytes.
Variable sign : SK -> bytes -> bits.
Hypothesis sig_len : forall sk m, length (sign sk m) = 512%nat.

(* the body decoder of a version (what Decode<version>Message applies to the
   body found in the envelope) *)
Definition decode_body (v : version) (b : cell) : res decoded :=
  match v with
  | V5Beta => decode_v5beta b | V5R1 => decode_v5r1 b
  | V4R1 | V4R2 => decode_v4 b | V3R1 | V3R2 | V3R2Lockup => decode_v3 b
  | HLV2R2 => decode_hl b | _ => Err EWallet
  end.

Lemma decode_msg_body v m :
  sendable v -> decode_msg chash v m = (do e <- parse_ext chash m; decode_body v (e_body e)).
Proof. intros [E|[E|[E|[E|[E|[E|E]]]]]]; rewrite E; reflexivity. Qed.

(* every built body decodes to what was requested, whatever envelope carries it *)
Theorem built_body_decodes w sk seqno valid ms rnd body :
  modes_ok ms -> sendable (w_ver w) -> (seqno < 4294967296)%N ->
  create_body SK chash sign w sk ms seqno valid op_signed_external rnd = Ok body ->
  exists d,
    decode_body (w_ver w) body = Ok d /\
    d_msgs d = ms /\ d_id d = expected_id w /\ d_valid d = unix32 valid /\
    (w_ver w <> HLV2R2 -> d_seqno d = seqno) /\
    (w_ver w = HLV2R2 -> d_extra d = (rnd mod 4294967296)%N).
Proof.
  intros Hm Hs Hq Hb.
  destruct (create_body_shape SK chash sign _ _ _ _ _ _ _ _ Hb) as (u & hu & Hu & Eu & Hh & Eb & _ & _).
  unfold Wallet.unsigned_body in Hu. unfold expected_id, decode_body.
  destruct Hs as [E|[E|[E|[E|[E|[E|E]]]]]]; rewrite E in *; cbn [sig_appended] in Eb; subst body.
  - rewrite (decode_v3_built _ _ _ _ (fit 512 (sign sk hu)) u Hm (fit_len _ _) Hq Hu).
    eexists. repeat split; try reflexivity; congruence.
  - rewrite (decode_v3_built _ _ _ _ (fit 512 (sign sk hu)) u Hm (fit_len _ _) Hq Hu).
    eexists. repeat split; try reflexivity; congruence.
  - rewrite (decode_v4_built _ _ _ _ (fit 512 (sign sk hu)) u Hm (fit_len _ _) Hq Hu).
    eexists. repeat split; try reflexivity; congruence.
  - rewrite (decode_v4_built _ _ _ _ (fit 512 (sign sk hu)) u Hm (fit_len _ _) Hq Hu).
    eexists. repeat split; try reflexivity; congruence.
  - apply bind_ok in Hu. destruct Hu as (a & Hac & Hu). apply mk_ok in Hu. destruct Hu as (-> & _).
    cbn [cdata crefs ocell] in *.
    rewrite (decode_v5beta_built (w_net w) (w_wc w) (w_sub w) valid seqno ms (sign sk hu) a Hm (sig_len _ _) Hq Hac).
    eexists. repeat split; try reflexivity; congruence.
  - apply bind_ok in Hu. destruct Hu as (a & Hac & Hu). apply mk_ok in Hu. destruct Hu as (-> & _).
    cbn [cdata crefs ocell] in *.
    rewrite (decode_v5r1_built (w_wid w) valid seqno ms (sign sk hu) a Hm (sig_len _ _) Hq Hac).
    eexists. repeat split; try reflexivity; congruence.
  - rewrite (decode_hl_built _ _ _ _ (fit 512 (sign sk hu)) u Hm (fit_len _ _) Hu).
    eexists. repeat split; try reflexivity; congruence.
Qed.

Theorem extract_roundtrip w sk wc addr seqno valid ms init rnd h e :
  modes_ok ms -> length addr = 256%nat -> init_ok chash init -> sendable (w_ver w) ->
  (seqno < 4294967296)%N ->
  raw_send_msg SK chash sign w sk wc addr seqno valid ms init rnd = Ok (h, e) ->
  exists d,
    decode_msg chash (w_ver w) e = Ok d /\ extract_raw chash (w_ver w) e = Ok ms /\
    d_msgs d = ms /\ d_id d = expected_id w /\ d_valid d = unix32 valid /\
    (w_ver w <> HLV2R2 -> d_seqno d = seqno) /\
    (w_ver w = HLV2R2 -> d_extra d = (rnd mod 4294967296)%N) /\
    (length ms <= max_messages (w_ver w))%nat.
Proof.
  intros Hm Ha Hi Hs Hq H.
  destruct (raw_send_parse SK chash sign _ _ _ _ _ _ _ _ _ _ _ Ha Hi H) as (body & Hb & Hmax & _ & _ & Hp).
  destruct (built_body_decodes _ _ _ _ _ _ _ Hm Hs Hq Hb) as (d & Hd & D1 & D2 & D3 & D4 & D5).
  assert (E : decode_msg chash (w_ver w) e = Ok d).
  { rewrite (decode_msg_body _ _ Hs), Hp. exact Hd. }
  exists d. unfold extract_raw. rewrite E. cbn [bind]. rewrite D1. auto 10.
Qed.

End RT.
