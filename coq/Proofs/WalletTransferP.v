(** The message list a wallet carries equals the requested transfers: each
    internal message is the tlb.Message encoding (C03's codec model) of the
    transfer's fields, and decoding the carried cells gives the fields back. *)
From Coq Require Import List NArith ZArith Arith Bool Lia.
From Tongo Require Import Lib.Bits Lib.Res Model.BocParse Model.CellHash Spec.ReprHash Model.TlbCore
  Model.Wallet Model.WalletTransfer Proofs.WalletP Proofs.WalletSigP Proofs.WalletHlP.
From Tongo Require Proofs.TlbCoreP Proofs.TlbCoreC.
Import ListNotations.

Fixpoint ctree_ind' (P : ctree -> Prop) (H : forall b rs, Forall P rs -> P (CT b rs)) (c : ctree) : P c :=
  match c with
  | CT b rs => H b rs ((fix go (l : list ctree) : Forall P l :=
                          match l with
                          | [] => Forall_nil P
                          | x :: t => Forall_cons x (ctree_ind' P H x) (go t)
                          end) rs)
  end.

Definition cts_of_cells : list cell -> option (list ctree) :=
  fix go (l : list cell) : option (list ctree) :=
    match l with
    | [] => Some []
    | x :: t => match ct_of_cell x, go t with Some y, Some ys => Some (y :: ys) | _, _ => None end
    end.
Definition cells_of_cts : list ctree -> list cell :=
  fix go (l : list ctree) : list cell := match l with [] => [] | x :: t => cell_of_ct x :: go t end.

Lemma ct_of_cell_of_ct c : ct_of_cell (cell_of_ct c) = Some c.
Proof.
  induction c as [b rs IH] using ctree_ind'. cbn [cell_of_ct ocell ct_of_cell].
  fold cells_of_cts. fold cts_of_cells. cbn [orb negb N.eqb].
  assert (E : cts_of_cells (cells_of_cts rs) = Some rs).
  { induction IH as [|x t Hx _ IHt]; [reflexivity|]. cbn [cells_of_cts cts_of_cells]. rewrite Hx, IHt. reflexivity. }
  rewrite E. reflexivity.
Qed.

Lemma msg_ty_wf : wf_ty [] msg_ty = true.
Proof. vm_compute. reflexivity. Qed.

(* the fields are in range: Grams fits 15 bytes (uint64 always does), 256-bit
   address, workchain an int8 (what the message can express) *)
Definition transfer_ok (t : transfer) : Prop :=
  (byte_len (t_amount t) <= 15)%nat /\ length (t_addr t) = 256%nat /\ (-128 <= t_wc t < 128)%Z.

Lemma int8_of_id z : (-128 <= z < 128)%Z -> int8_of z = z.
Proof. intros H. unfold int8_of. rewrite Z.mod_small by lia. lia. Qed.

Lemma transfer_in_domain t : transfer_ok t -> in_domain [] msg_ty (transfer_value t) = true.
Proof.
  intros (Ha & Hl & Hw). unfold in_domain.
  let f := eval vm_compute in (fuel_of [] msg_ty) in change (fuel_of [] msg_ty) with f.
  unfold transfer_value, msg_ty, msginfo_ty, currencies_ty, stateinit_ty.
  cbn [has_type nth_error snd].
  rewrite (ext_in_std_ok (t_wc t) (t_addr t) Hl).
  apply Nat.leb_le in Ha. change (16 - 1)%nat with 15%nat. rewrite Ha.
  destruct (t_init t) as [[code data]|]; destruct (t_body t) as [b|]; cbn [has_type andb addr_ok]; reflexivity.
Qed.

Lemma transfer_of_value_id t : transfer_ok t -> transfer_of_value (transfer_value t) (t_mode t) = Ok t.
Proof.
  intros (_ & _ & Hw). unfold transfer_of_value, transfer_value. rewrite (int8_of_id _ Hw).
  destruct t as [am wc ad bo body init mode]. cbn [t_amount t_wc t_addr t_bounce t_body t_init t_mode].
  destruct init as [[code data]|]; destruct body as [[bb br]|]; cbn [bind ct_bits ct_refs]; try reflexivity.
  all: destruct bb; reflexivity.
Qed.

(** one transfer *)
Theorem transfer_roundtrip t m :
  transfer_ok t -> internal_msg t = Ok m -> decode_transfer m = Ok t.
Proof.
  intros Hok H. unfold internal_msg in H. apply bind_ok in H. destruct H as (c & Hc & H). injection H as <-.
  unfold decode_transfer. cbn [rm_msg rm_mode]. rewrite ct_of_cell_of_ct.
  rewrite (TlbCoreC.generic_roundtrip [] msg_ty (transfer_value t) c msg_ty_wf (transfer_in_domain t Hok) Hc).
  cbn [bind fst]. apply transfer_of_value_id, Hok.
Qed.

(** a list *)
Lemma transfers_roundtrip ts : forall ms,
  Forall transfer_ok ts -> internal_msgs ts = Ok ms -> decode_transfers ms = Ok ts.
Proof.
  induction ts as [|t r IH]; intros ms Hok H.
  - cbn in H. injection H as <-. reflexivity.
  - inversion Hok as [|? ? H1 H2]; subst. cbn [internal_msgs] in H.
    apply bind_ok in H. destruct H as (m & Hm & H). apply bind_ok in H. destruct H as (ms' & Hms & H).
    injection H as <-. cbn [decode_transfers]. rewrite (transfer_roundtrip t m H1 Hm). cbn [bind].
    rewrite (IH ms' H2 Hms). reflexivity.
Qed.

Lemma internal_msgs_modes ts : forall ms,
  Forall (fun t => (t_mode t < 256)%N) ts -> internal_msgs ts = Ok ms -> modes_ok ms.
Proof.
  induction ts as [|t r IH]; intros ms Hm H.
  - cbn in H. injection H as <-. constructor.
  - inversion Hm as [|? ? H1 H2]; subst. cbn [internal_msgs] in H.
    apply bind_ok in H. destruct H as (m & Hmm & H). apply bind_ok in H. destruct H as (ms' & Hms & H).
    injection H as <-. constructor; [|exact (IH ms' H2 Hms)].
    unfold internal_msg in Hmm. apply bind_ok in Hmm. destruct Hmm as (c & _ & Hmm). injection Hmm as <-. exact H1.
Qed.

(** the message a wallet sends carries exactly the requested transfers: decoding
    the external message and then each carried cell yields the requested
    (amount, destination, bounce, body, init, mode) list, in order *)
Theorem transfers_carried (SK : Type) (chash : cell -> res bytes) (sign : SK -> bytes -> bits)
        w sk wc addr seqno valid ts ms init rnd h e :
  (forall sk m, length (sign sk m) = 512%nat) ->
  Forall transfer_ok ts -> Forall (fun t => (t_mode t < 256)%N) ts ->
  internal_msgs ts = Ok ms ->
  length addr = 256%nat -> init_ok chash init -> sendable (w_ver w) -> (seqno < 4294967296)%N ->
  raw_send_msg SK chash sign w sk wc addr seqno valid ms init rnd = Ok (h, e) ->
  exists carried, extract_raw chash (w_ver w) e = Ok carried /\ decode_transfers carried = Ok ts.
Proof.
  intros Hsl Hok Hmd Hms Ha Hi Hs Hq H.
  destruct (extract_roundtrip SK chash sign Hsl _ _ _ _ _ _ _ _ _ _ _ (internal_msgs_modes ts ms Hmd Hms) Ha Hi Hs Hq H)
    as (d & _ & He & _).
  exists ms. split; [exact He|]. exact (transfers_roundtrip ts ms Hok Hms).
Qed.

(** a requested deployment into workchain W is carried as a message to
    (W, hash of the StateInit of code and data) with that StateInit attached *)
Theorem deploy_carried chash wc code data body amount t m :
  (forall c h, chash c = Ok h -> length h = 32%nat) ->
  (byte_len amount <= 15)%nat -> (-128 <= wc < 128)%Z ->
  deploy_transfer chash wc (Some code) (Some data) body amount = Ok t -> internal_msg t = Ok m ->
  exists h, chash (cell_of_ct (deploy_stateinit code data)) = Ok h /\
    decode_transfer m = Ok (mktr amount wc (bytes_to_bits h) true body (Some (code, data)) 3).
Proof.
  intros Hlen Ha Hw Ht Hm. unfold deploy_transfer in Ht. apply bind_ok in Ht. destruct Ht as (h & Hh & Ht).
  injection Ht as <-. exists h. split; [exact Hh|]. apply transfer_roundtrip; [|exact Hm].
  repeat split; cbn [t_amount t_addr t_wc]; try assumption; try lia.
  assert (L : forall l : bytes, length (bytes_to_bits l) = (8 * length l)%nat).
  { induction l as [|x r IH]; [reflexivity|]. cbn [bytes_to_bits flat_map length].
    rewrite app_length, bits_of_length. fold (bytes_to_bits r). lia. }
  rewrite L, (Hlen _ _ Hh). reflexivity.
Qed.
