(** VmStack.UnmarshalTL end to end on the models: the TL byte string holds a
    BOC (C07's parser), its first root is unfolded to a cell tree and decoded
    by the VmStack walker of Model/TlbHand.v.  Also: a dictionary label that
    announces more bits than the cell holds is an error. *)
From Coq Require Import List NArith ZArith Arith Lia Bool.
From Tongo Require Import Lib.Bits Lib.Res Spec.TlWire Spec.Dict Model.Hashmap Model.BocParse Proofs.BocParseP
     Model.TlbCore Model.TlbTotal Proofs.TlbTotalP Model.TlbHand Proofs.TlbHandP Model.Tl Model.TlTotal
     Model.Framing Proofs.TlTotalP Proofs.FramingP.
Import ListNotations.

Fixpoint xtree_of_tree (t : BocParseP.tree) : xtree :=
  match t with
  | BocParseP.T special ty _ b refs => XT (if special then ty else 0%N) b (map xtree_of_tree refs)
  end.

Definition class_of (r : yres ys) : res unit :=
  match fst r with Ok _ => Ok tt | Err e => Err e | Panic p => Panic p end.

(* tlb.Unmarshal(cell[0], s) on the parsed cells *)
Definition vmstack_root (cells : list node) (r : nat) : res unit :=
  match unfold_at (length cells) cells r with
  | Some t => class_of (yunmarshal [] (fun _ => true) no_resolver 2 YVmStack (xtree_of_tree t))
  | None => Err EFrame
  end.

Definition vmstack_unmarshal_tl_full (b : bytes) : res unit := vmstack_after_tl vmstack_root b.

Lemma vmstack_root_np cells r : np (vmstack_root cells r).
Proof.
  unfold vmstack_root. destruct (unfold_at _ cells r); [|exact I].
  pose proof (yunmarshal_np [] (fun _ => true) no_resolver 2 YVmStack (xtree_of_tree t)) as H. unfold ynp, class_of in *.
  destruct (fst _); cbn in *; auto.
Qed.

Theorem vmstack_unmarshal_tl_full_total b : bytes_ok b -> np (vmstack_unmarshal_tl_full b).
Proof. intros Hb. apply vmstack_after_tl_total; [apply vmstack_root_np | exact Hb]. Qed.

(** hml_long / hml_same announce a length; the bits must be there *)
Lemma load_label_long_short m room c2 ln rest :
  read_lim m c2 = Ok (ln, rest) -> (length rest < N.to_nat ln)%nat ->
  exists e, load_label m room (true :: false :: c2) = Err e.
Proof.
  intros Hr Hl. unfold load_label. rewrite Hr. cbn [bind].
  destruct (N.of_nat room <? ln)%N; [eexists; reflexivity|].
  rewrite short_spec. destruct (Nat.ltb_spec (length rest) (N.to_nat ln)); [eexists; reflexivity | lia].
Qed.

Lemma load_label_short_short room c1 ln c2 m :
  read_unary c1 = Ok (ln, c2) -> (length c2 < ln)%nat ->
  exists e, load_label m room (false :: c1) = Err e.
Proof.
  intros Hr Hl. unfold load_label. rewrite Hr. cbn [bind].
  rewrite short_spec. destruct (Nat.ltb_spec (length c2) ln); [eexists; reflexivity | lia].
Qed.

(* a label longer than what is left of the key is an error as well *)
Lemma load_label_overflow m room c2 ln rest :
  read_lim m c2 = Ok (ln, rest) -> (N.of_nat room < ln)%N ->
  exists e, load_label m room (true :: false :: c2) = Err e.
Proof.
  intros Hr Hl. unfold load_label. rewrite Hr. cbn [bind].
  destruct (N.ltb_spec (N.of_nat room) ln); [eexists; reflexivity | lia].
Qed.
