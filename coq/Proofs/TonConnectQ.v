(** C19 — honest proofs are accepted, rejection corollaries, lifetimes, payloads. *)
From Coq Require Import String Ascii List NArith ZArith Bool Lia.
From Tongo Require Import Lib.Bits Lib.Res Model.TonConnect Proofs.TonConnectP.
Import ListNotations.
Local Open Scope Z_scope.

Section Server.
  Variable H : bytes -> bytes.
  Variable verify : bytes -> bytes -> bytes -> bool.
  Variable b64 : bytes -> option bytes.
  Variable boc : bytes -> res (list cell).
  Variable lib_ok ext_ok : cell -> bool.
  Variable known : known_table.
  Variable exec : Z * bytes -> exec_result.
  Variable cp cd : bytes -> res bool.
  Variable lifetime now : Z.

  Notation check := (check_proof H verify b64 boc lib_ok ext_ok known exec cp cd lifetime now).
  Notation key_from := (key_from boc lib_ok ext_ok known exec).
  Notation state_init_yields := (state_init_yields boc lib_ok ext_ok known).

  Lemma wallet_key_complete acc si pk src :
    key_from acc si pk src -> wallet_key boc lib_ok ext_ok known exec acc si = Ok (pk, src).
  Proof.
    unfold TonConnectP.key_from, wallet_key. destruct src.
    - intros ->. reflexivity.
    - intros (-> & Hne & root & c & d & h & l & Hb & Hh & Hp & Hc & Hl & Hd).
      destruct si as [|s0 si']; [contradiction|]. set (si := s0 :: si') in *.
      unfold compare_state_init, parse_state_init_key. rewrite Hb. cbn [bind]. rewrite Hh.
      cbn [bind]. rewrite beqb_refl. cbn [negb]. rewrite Hp. cbn [bind]. rewrite Hc, Hl, Hd. reflexivity.
  Qed.

  (** ** honest_proof_accepted *)
  Section Honest.
    Variable sign : bytes -> bytes -> bytes.
    Variable b64enc : bytes -> bytes.
    Variable sk pk : bytes.
    Hypothesis sig_correct : forall m, verify pk m (sign sk m) = true.
    Hypothesis pk_len : length pk = 32%nat.
    Hypothesis b64_roundtrip : forall x, b64 (b64enc x) = Some x.
    Hypothesis b64_empty : b64 [] = Some [].

    Theorem honest_proof_accepted address ts domain payload si tp acc src :
      create_signed_proof H sign b64 b64enc sk address ts domain payload si = Ok tp ->
      cp payload = Ok true ->
      expired now ts lifetime = false ->
      cd domain = Ok true ->
      parse_account_id address = Ok acc ->
      key_from acc si pk src ->
      check tp = Ok pk.
    Proof.
      intros Hc Hcp Hex Hcd Hacc Hkey.
      unfold create_signed_proof in Hc.
      destruct (convert b64 (mkProof address ts domain [] payload si)) as [pm0| |] eqn:Ecv; cbn [bind] in Hc; try discriminate.
      apply Ok_inj in Hc. subst tp.
      unfold check_proof, check_proof_src. cbn [p_payload]. rewrite Hcp. cbn [bind negb].
      unfold convert in *. cbn [p_address p_signature p_ts p_domain p_payload] in *.
      destruct (split_colon [] address) as [|w [|a [|? ?]]]; try discriminate.
      destruct (parse_int32 w) as [wc|]; [|discriminate].
      destruct (hex_decode a) as [addr|]; [|discriminate].
      rewrite b64_empty in Ecv. apply Ok_inj in Ecv. subst pm0.
      rewrite b64_roundtrip. cbn [bind m_ts m_domain m_sig]. rewrite Hex, Hcd. cbn [bind negb].
      cbn [p_address p_state_init]. rewrite Hacc. cbn [bind].
      rewrite (wallet_key_complete _ _ _ _ Hkey). cbn [bind fst].
      unfold ed_verify. rewrite pk_len. change (Nat.eqb 32 32) with true. cbn [bind].
      unfold create_message, message_layout in *. cbn [m_wc m_addr m_domain m_ts m_payload] in *.
      rewrite sig_correct. reflexivity.
    Qed.
  End Honest.

  (** ** Rejection corollaries *)

  Theorem payload_check_failed_rejected tp k : cp (p_payload tp) <> Ok true -> check tp <> Ok k.
  Proof. intros Hn Hc. apply accepted_implies in Hc as (src & Hp & _). contradiction. Qed.

  Theorem expired_rejected tp pm k :
    convert b64 tp = Ok pm -> expired now (m_ts pm) lifetime = true -> check tp <> Ok k.
  Proof.
    intros Hcv Hex Hc. apply accepted_implies in Hc as (src & _ & pm' & acc & Hcv' & Hex' & _).
    rewrite Hcv in Hcv'. injection Hcv' as <-. congruence.
  Qed.

  Theorem domain_not_allowed_rejected tp pm k :
    convert b64 tp = Ok pm -> cd (m_domain pm) <> Ok true -> check tp <> Ok k.
  Proof.
    intros Hcv Hd Hc. apply accepted_implies in Hc as (src & _ & pm' & acc & Hcv' & _ & Hd' & _).
    rewrite Hcv in Hcv'. injection Hcv' as <-. contradiction.
  Qed.

  (* the key has to come from the state-init (get-method failed) and the state-init is not a
     single cell hashing to the address with a known wallet code and a key in its data *)
  Theorem bad_state_init_rejected tp acc k :
    parse_account_id (p_address tp) = Ok acc ->
    get_wallet_pubkey (exec acc) = None ->
    (forall k', ~ state_init_yields (snd acc) (p_state_init tp) k') ->
    check tp <> Ok k.
  Proof.
    intros Hacc Hg Hn Hc. apply accepted_implies in Hc as (src & _ & pm & acc' & _ & _ & _ & Hacc' & Hk & _).
    rewrite Hacc in Hacc'. injection Hacc' as <-. destruct src; cbn in Hk.
    - congruence.
    - destruct Hk as (_ & _ & Hy). exact (Hn _ Hy).
  Qed.

  Theorem state_init_not_hashing_to_address_rejected tp acc k :
    parse_account_id (p_address tp) = Ok acc ->
    get_wallet_pubkey (exec acc) = None ->
    (forall root, boc (p_state_init tp) = Ok [root] -> c_hash root <> Some (snd acc)) ->
    check tp <> Ok k.
  Proof.
    intros Hacc Hg Hn. eapply bad_state_init_rejected; eauto.
    intros k' (root & c & d & h & l & Hb & Hh & _). exact (Hn _ Hb Hh).
  Qed.

  Theorem unknown_wallet_code_rejected tp acc k :
    parse_account_id (p_address tp) = Ok acc ->
    get_wallet_pubkey (exec acc) = None ->
    (forall root code data h, boc (p_state_init tp) = Ok [root] ->
       parse_state_init lib_ok root = Ok (Some code, Some data) -> c_hash code = Some h ->
       forall l, lookup h known <> Some (Some l)) ->
    check tp <> Ok k.
  Proof.
    intros Hacc Hg Hn. eapply bad_state_init_rejected; eauto.
    intros k' (root & c & d & h & l & Hb & _ & Hp & Hc & Hl & _). exact (Hn _ _ _ _ Hb Hp Hc _ Hl).
  Qed.

  (** Ideal signatures: every signature that verifies under a key was made by the holder of
      that key on exactly that message. *)
  Section Ideal.
    Variable Signed : bytes -> bytes -> Prop.
    Hypothesis ideal_signature : forall k m s, verify k m s = true -> Signed k m.

    (* accepted => the key controlling the address signed exactly this message *)
    Theorem accepted_signed_by_account_key tp k :
      check tp = Ok k ->
      exists pm acc src, convert b64 tp = Ok pm /\ parse_account_id (p_address tp) = Ok acc /\
        key_from acc (p_state_init tp) k src /\ Signed k (create_message H pm).
    Proof.
      intros Hc. apply accepted_implies in Hc as (src & _ & pm & acc & Hcv & _ & _ & Hacc & Hk & _ & Hv).
      exists pm, acc, src. eauto.
    Qed.

    (* signature made by another key: the account's key never signed this message *)
    Theorem not_signed_by_account_key_rejected tp :
      (forall pm acc k src, convert b64 tp = Ok pm -> parse_account_id (p_address tp) = Ok acc ->
         key_from acc (p_state_init tp) k src -> ~ Signed k (create_message H pm)) ->
      forall k, check tp <> Ok k.
    Proof.
      intros Hn k Hc. apply accepted_signed_by_account_key in Hc as (pm & acc & src & Hcv & Hacc & Hk & Hs).
      exact (Hn _ _ _ _ Hcv Hacc Hk Hs).
    Qed.

    (* any changed field: the holder signed only the message for [pm0]; the presented proof
       carries other fields *)
    Theorem changed_field_rejected tp pm pm0 :
      (forall x y, H x = H y -> x = y) ->
      convert b64 tp = Ok pm ->
      fields_in_range pm -> fields_in_range pm0 -> length (m_addr pm) = length (m_addr pm0) ->
      ~ same_fields pm pm0 ->
      (forall acc k src, parse_account_id (p_address tp) = Ok acc -> key_from acc (p_state_init tp) k src ->
         forall m, Signed k m -> m = create_message H pm0) ->
      forall k, check tp <> Ok k.
    Proof.
      intros Hinj Hcv Hr Hr0 Hlen Hdiff Honly k Hc.
      apply accepted_signed_by_account_key in Hc as (pm' & acc & src & Hcv' & Hacc & Hk & Hs).
      rewrite Hcv in Hcv'. injection Hcv' as <-.
      specialize (Honly _ _ _ Hacc Hk _ Hs).
      apply create_message_binding in Honly as [Hl|(x & y & Hxy & Hh)].
      - apply Hdiff. apply message_layout_injective; auto.
      - apply Hxy. apply Hinj. exact Hh.
    Qed.
  End Ideal.
End Server.

(** * Lifetimes *)

Lemma wrap64_small z : - 2 ^ 63 <= z < 2 ^ 63 -> wrap64 z = z.
Proof. intros Hz. unfold wrap64. rewrite Z.mod_small; lia. Qed.

Lemma clamp64_small z : - 2 ^ 63 <= z < 2 ^ 63 -> clamp64 z = z.
Proof. intros Hz. unfold clamp64. lia. Qed.

(* realistic clocks and timestamps: the check is "more than [lifetime] seconds since [ts]",
   to the nanosecond *)
Lemma expired_spec now ts lifetime :
  0 <= now < 2 ^ 33 * giga -> 0 <= ts < 2 ^ 33 -> 0 <= lifetime <= 9223372036 ->
  expired now ts lifetime = (now >? (ts + lifetime) * giga).
Proof.
  intros Hn Ht Hl. unfold expired, since, unixToInternal, giga in *.
  change (2 ^ 33) with 8589934592 in *.
  assert (Hs : 0 <= now / 1000000000 < 8589934592).
  { split; [apply Z.div_pos; lia|apply Z.div_lt_upper_bound; lia]. }
  assert (Hm : 0 <= now mod 1000000000 < 1000000000) by (apply Z.mod_pos_bound; lia).
  pose proof (Z.div_mod now 1000000000 ltac:(lia)) as Hdm.
  rewrite (wrap64_small (ts + 62135596800)) by (change (2 ^ 63) with 9223372036854775808; lia).
  rewrite clamp64_small by (change (2 ^ 63) with 9223372036854775808; lia).
  rewrite wrap64_small by (change (2 ^ 63) with 9223372036854775808; lia).
  rewrite !Z.gtb_ltb. apply Bool.eq_true_iff_eq. rewrite !Z.ltb_lt. lia.
Qed.

(* the boundary: exactly [lifetime] seconds is still valid, one nanosecond more is not;
   in whole seconds: lifetime - 1 s is valid at any nanosecond, lifetime + 1 s is not *)
Lemma lifetime_boundary ts lifetime ns :
  0 <= ts -> ts + lifetime + 1 < 2 ^ 33 -> 0 <= lifetime <= 9223372036 -> 0 <= ns < giga ->
  expired ((ts + lifetime) * giga) ts lifetime = false /\
  expired ((ts + lifetime) * giga + 1) ts lifetime = true /\
  (1 <= lifetime -> expired ((ts + lifetime - 1) * giga + ns) ts lifetime = false) /\
  expired ((ts + lifetime + 1) * giga + ns) ts lifetime = true.
Proof.
  intros Ht Hb Hl Hns. unfold giga in *. change (2 ^ 33) with 8589934592 in *.
  assert (E : forall n, 0 <= n < 8589934592 * 1000000000 ->
              expired n ts lifetime = (n >? (ts + lifetime) * 1000000000)).
  { intros n Hn. apply expired_spec; unfold giga; change (2 ^ 33) with 8589934592; lia. }
  split; [|split; [|split]].
  - rewrite E by lia. rewrite Z.gtb_ltb. apply Z.ltb_ge. lia.
  - rewrite E by lia. rewrite Z.gtb_ltb. apply Z.ltb_lt. lia.
  - intros H1. rewrite E by lia. rewrite Z.gtb_ltb. apply Z.ltb_ge. lia.
  - rewrite E by lia. rewrite Z.gtb_ltb. apply Z.ltb_lt. lia.
Qed.

(* a timestamp beyond the int64 seconds that time.Unix can represent wraps into the past *)
Lemma expired_wrap_example : expired (1790000000 * giga) (2 ^ 63 - 1) 300 = true.
Proof. vm_compute. reflexivity. Qed.
(* a timestamp in the far future is not expired (there is no lower bound on the age) *)
Lemma future_not_expired_example : expired (1790000000 * giga) 4102444800 300 = false.
Proof. vm_compute. reflexivity. Qed.

(** * CheckPayload *)

Section Payload.
  Variable hmac : bytes -> bytes -> bytes.
  Variable secret : bytes.
  Variable lifetime now : Z.

  (* what "the payload check passed" means: issued under the server's secret, not expired *)
  Definition payload_facts (payload : bytes) : Prop :=
    exists b, hex_decode payload = Some b /\ length b = 32%nat /\
      skipn 16 b = firstn 16 (hmac secret (firstn 16 b)) /\
      expired now (to_int64 (be_val (firstn 8 (skipn 8 b)))) lifetime = false.

  Theorem check_payload_accept_inv payload :
    check_payload hmac secret lifetime now payload = Ok true -> payload_facts payload.
  Proof.
    unfold check_payload, payload_facts. destruct (hex_decode payload) as [b|]; [|discriminate].
    destruct (Nat.eqb (length b) 32) eqn:El; cbn [negb]; [|discriminate]. apply Nat.eqb_eq in El.
    destruct (_ <? 16)%nat; [discriminate|].
    destruct (beqb _ _) eqn:Eb; cbn [negb]; [|discriminate]. apply beqb_eq in Eb.
    destruct (expired _ _ _) eqn:Ee; cbn [negb]; [discriminate|]. intros _. exists b. auto.
  Qed.

  (* not issued under the server's secret *)
  Theorem foreign_payload_rejected payload b :
    hex_decode payload = Some b ->
    skipn 16 b <> firstn 16 (hmac secret (firstn 16 b)) ->
    check_payload hmac secret lifetime now payload <> Ok true.
  Proof.
    intros Hh Hn Hc. apply check_payload_accept_inv in Hc as (b' & Hh' & _ & He & _). congruence.
  Qed.

  Theorem wrong_length_payload_rejected payload b :
    hex_decode payload = Some b -> length b <> 32%nat ->
    check_payload hmac secret lifetime now payload <> Ok true.
  Proof.
    intros Hh Hn Hc. apply check_payload_accept_inv in Hc as (b' & Hh' & Hl & _). congruence.
  Qed.

  Theorem check_payload_total payload :
    (forall k m, (16 <= length (hmac k m))%nat) ->
    is_panic (check_payload hmac secret lifetime now payload) = false.
  Proof.
    intros Hl. unfold check_payload. destruct (hex_decode payload) as [b|]; [|reflexivity].
    destruct (negb _); [reflexivity|].
    destruct (_ <? 16)%nat eqn:E; [|destruct (negb _); reflexivity].
    apply Nat.ltb_lt in E. specialize (Hl secret (firstn 16 b)). lia.
  Qed.
End Payload.

(** * The server as deployed: checkPayload = s.CheckPayload, checkDomain = StaticDomain d *)
Section Deployed.
  Variable H : bytes -> bytes.
  Variable verify : bytes -> bytes -> bytes -> bool.
  Variable hmac : bytes -> bytes -> bytes.
  Variable b64 : bytes -> option bytes.
  Variable boc : bytes -> res (list cell).
  Variable lib_ok ext_ok : cell -> bool.
  Variable known : known_table.
  Variable exec : Z * bytes -> exec_result.
  Variable secret domain : bytes.
  Variable lt_proof lt_payload now : Z.

  Definition server_check_proof (tp : proof) : res bytes :=
    check_proof H verify b64 boc lib_ok ext_ok known exec
      (check_payload hmac secret lt_payload now) (static_domain domain) lt_proof now tp.

  Theorem server_check_proof_total tp :
    (forall k m, (16 <= length (hmac k m))%nat) ->
    (forall s, is_panic (boc s) = false) ->
    is_panic (server_check_proof tp) = false.
  Proof.
    intros Hh Hb. apply check_proof_total; auto.
    intros s. apply check_payload_total. exact Hh.
  Qed.

  Theorem server_accepted_implies tp pk :
    server_check_proof tp = Ok pk ->
    payload_facts hmac secret lt_payload now (p_payload tp) /\
    exists src pm acc,
      convert b64 tp = Ok pm /\
      expired now (m_ts pm) lt_proof = false /\
      m_domain pm = domain /\
      parse_account_id (p_address tp) = Ok acc /\
      key_from boc lib_ok ext_ok known exec acc (p_state_init tp) pk src /\
      length pk = 32%nat /\
      verify pk (create_message H pm) (m_sig pm) = true.
  Proof.
    intros Hc. apply accepted_implies in Hc as (src & Hp & pm & acc & Hcv & Hex & Hd & Hacc & Hk & Hl & Hv).
    split; [apply check_payload_accept_inv; exact Hp|].
    exists src, pm, acc. repeat split; auto.
    unfold static_domain in Hd. apply Ok_inj in Hd. apply beqb_eq in Hd. exact Hd.
  Qed.
End Deployed.

(** * Histories: the answer to a call does not depend on the calls made before it on the
      same Server (nor on their order, repetition or interleaving) *)
Lemma run_history_stateless {C R} (f : C -> R) (calls : list C) :
  run_history (fun (st : unit) c => (st, f c)) tt calls = (tt, map f calls).
Proof. induction calls as [|c t IH]; cbn; [reflexivity|]. rewrite IH. reflexivity. Qed.

Section Histories.
  Variable H : bytes -> bytes.
  Variable verify : bytes -> bytes -> bytes -> bool.
  Variable hmac : bytes -> bytes -> bytes.
  Variable b64 : bytes -> option bytes.
  Variable boc : bytes -> res (list cell).
  Variable lib_ok ext_ok : cell -> bool.
  Variable known : known_table.
  Variable secret domain : bytes.
  Variable lt_proof lt_payload : Z.

  Notation hist := (server_history H verify hmac b64 boc lib_ok ext_ok known secret domain lt_proof lt_payload).
  Notation alone := (server_call H verify hmac b64 boc lib_ok ext_ok known secret domain lt_proof lt_payload).

  Theorem history_independent before c after :
    nth_error (hist (before ++ c :: after)) (length before) = Some (alone c).
  Proof.
    unfold server_history, server_step. rewrite run_history_stateless. cbn [snd].
    rewrite map_app. rewrite nth_error_app2 by (rewrite map_length; lia).
    rewrite map_length, Nat.sub_diag. reflexivity.
  Qed.

  Theorem history_is_map calls : hist calls = map alone calls.
  Proof. unfold server_history, server_step. rewrite run_history_stateless. reflexivity. Qed.

  (* in particular: a call rejected alone is rejected after any history (no login of the
     attacker can make a later forged proof pass) *)
  Corollary rejected_alone_rejected_in_history before c after k :
    alone c <> Ok k -> nth_error (hist (before ++ c :: after)) (length before) <> Some (Ok k).
  Proof. intros Hn He. rewrite history_independent in He. injection He as He. contradiction. Qed.
End Histories.
