(** The model of tl/encoder.go and tl/decoder.go (Model/Tl.v) on the primitive
    Go kinds against the TL wire format (Spec/TlWire.v): length prefix and
    padding of byte strings, the reader of byte strings, the vector loop;
    soundness of the structural equality tests of Model/TlMatch.v. *)
From Coq Require Import String List NArith PArith Arith Lia Bool.
From Tongo Require Import Lib.Bits Lib.Res Spec.TlWire Model.Tl Model.TlMatch Proofs.TlWireP.
Import ListNotations.
Local Open Scope N_scope.

(** * tl.EncodeLength / zeroPadding are the TL byte-string layout *)
Lemma go_encode_length_spec n : go_encode_length n = bytes_header n.
Proof.
  unfold go_encode_length, bytes_header.
  destruct (N.leb_spec 254 n) as [H|H]; destruct (N.ltb_spec n 254) as [H'|H']; try lia; reflexivity.
Qed.

Lemma go_bytes_spec b : go_bytes b = enc_bytes b.
Proof.
  unfold go_bytes, enc_bytes, go_zero_padding. rewrite go_encode_length_spec.
  set (h := bytes_header (N.of_nat (length b))).
  rewrite app_length, Nat2N.inj_add. set (x := N.of_nat (length h) + N.of_nat (length b)).
  unfold pad_of.
  assert (Hr : x mod 4 < 4) by (apply N.mod_upper_bound; lia).
  clearbody x. remember (x mod 4) as r eqn:Er. clear Er.
  destruct (N.eqb_spec r 0) as [E|E].
  - rewrite E. change ((4 - 0) mod 4) with 0. cbn [N.to_nat repeat]. now rewrite app_nil_r.
  - assert (Hs : 4 - r < 4) by lia. rewrite (N.mod_small (4 - r) 4 Hs). now rewrite app_assoc.
Qed.

Lemma enc_bool_literal b :
  enc_bool b = if b then [0xb5; 0x75; 0x72; 0x99] else [0x37; 0x97; 0x79; 0xbc].
Proof. destruct b; vm_compute; reflexivity. Qed.

(** * Runs of the reader monad that succeed, whatever the allocation counters *)
Definition runs {A} (m : M A) (bs : bytes) (v : A) (rest : bytes) : Prop :=
  forall a p, exists a' p', m (mkst bs a p) = (Ok v, mkst rest a' p').

Lemma runs_ret {A} (v : A) bs : runs (mret v) bs v bs.
Proof. intros a p. exists a, p. reflexivity. Qed.

Lemma runs_bind {A B} (m : M A) (k : A -> M B) bs v r1 w r2 :
  runs m bs v r1 -> runs (k v) r1 w r2 -> runs (mbind m k) bs w r2.
Proof.
  intros Hm Hk a p. destruct (Hm a p) as (a1 & p1 & E1). destruct (Hk a1 p1) as (a2 & p2 & E2).
  exists a2, p2. unfold mbind. rewrite E1. exact E2.
Qed.

Lemma runs_read_full n bs x r : split_at n bs = Some (x, r) -> runs (read_full n) bs x r.
Proof.
  unfold split_at. intros H a p. exists a, p. unfold read_full. cbn [inp alloc peak].
  destruct (short n bs); [discriminate|]. inversion H; subst. reflexivity.
Qed.

Lemma runs_read_fullN n bs x r : split_atN n bs = Some (x, r) -> runs (read_fullN n) bs x r.
Proof.
  unfold split_atN. intros H a p. unfold read_fullN. cbn [inp].
  destruct (shortN n bs); [discriminate|].
  apply (runs_read_full _ _ _ _ H).
Qed.

Lemma runs_make c esz bs : c * esz <= max_alloc -> runs (make c esz) bs tt bs.
Proof.
  intros H a p. unfold make. destruct (N.ltb_spec max_alloc (c * esz)) as [H'|_]; [lia|].
  eexists _, _. reflexivity.
Qed.

(** * readByteSlice accepts what the strict TL reader accepts, with the same result *)
Lemma le_num_1 h : le_num [h] = h.
Proof. cbn [le_num]. lia. Qed.

Lemma read_byte_slice_refines bs b rest :
  dec_bytes bs = Some (b, rest) -> runs read_byte_slice bs b rest.
Proof.
  unfold dec_bytes. destruct bs as [|h t]; [discriminate|].
  intros H. unfold read_byte_slice.
  apply (runs_bind _ _ _ [h] t); [apply runs_read_full; reflexivity|].
  rewrite le_num_1.
  destruct (N.ltb_spec h 254) as [Hh|Hh].
  - destruct (split_atN h t) as [[b0 r0]|] eqn:E1; [|discriminate].
    destruct (split_at (pad_of (1 + h)) r0) as [[pd r1]|] eqn:E2; [|discriminate].
    destruct (all_zero pd); [|discriminate]. inversion H; subst b0 r1.
    apply (runs_bind _ _ _ tt t); [apply runs_make; unfold max_alloc; lia|].
    apply (runs_bind _ _ _ b r0); [apply runs_read_fullN; exact E1|].
    apply (runs_bind _ _ _ pd rest); [apply runs_read_full; exact E2|].
    apply runs_ret.
  - destruct (N.eqb_spec h 254) as [->|]; [|discriminate].
    destruct (split_at 3 t) as [[lb r0]|] eqn:E0; [|discriminate].
    destruct (le_num lb <? 254); [discriminate|].
    destruct (split_atN (le_num lb) r0) as [[b0 r1]|] eqn:E1; [|discriminate].
    destruct (split_at (pad_of (4 + le_num lb)) r1) as [[pd r2]|] eqn:E2; [|discriminate].
    destruct (all_zero pd); [|discriminate]. inversion H; subst b0 r2.
    apply (runs_bind _ _ _ tt t); [apply runs_make; unfold max_alloc; lia|].
    apply (runs_bind _ _ _ lb r0); [apply runs_read_full; exact E0|].
    apply (runs_bind _ _ _ tt r0).
    { destruct (N.leb_spec (le_num lb) max_prealloc) as [Hl|Hl]; [|apply runs_ret].
      apply runs_make. unfold max_prealloc, max_alloc in *. lia. }
    apply (runs_bind _ _ _ b r1); [apply runs_read_fullN; exact E1|].
    apply (runs_bind _ _ _ pd rest); [apply runs_read_full; exact E2|].
    apply runs_ret.
Qed.

(** * decodeVector: the loop follows the spec's counted list *)
Lemma iter_pos_refines (Ds : bytes -> option (value * bytes)) (Dg : M value) :
  (forall bs v r, Ds bs = Some (v, r) -> runs Dg bs v r) ->
  forall p acc bs acc' r, dec_pos Ds p acc bs = Some (acc', r) -> runs (iter_pos Dg p acc) bs acc' r.
Proof.
  intros HD p; induction p as [p IH|p IH|]; intros acc bs acc' r H; cbn [dec_pos iter_pos] in *.
  - destruct (Ds bs) as [[v r0]|] eqn:E0; [|discriminate].
    destruct (dec_pos Ds p (v :: acc) r0) as [[acc1 r1]|] eqn:E1; [|discriminate].
    apply (runs_bind _ _ _ v r0); [apply HD; exact E0|].
    apply (runs_bind _ _ _ acc1 r1); [apply IH; exact E1|]. apply IH; exact H.
  - destruct (dec_pos Ds p acc bs) as [[acc1 r1]|] eqn:E1; [|discriminate].
    apply (runs_bind _ _ _ acc1 r1); [apply IH; exact E1|]. apply IH; exact H.
  - destruct (Ds bs) as [[v r0]|] eqn:E0; [|discriminate]. inversion H; subst.
    apply (runs_bind _ _ _ v r); [apply HD; exact E0|]. apply runs_ret.
Qed.

Lemma le_num_lt_two32 a : length a = 4%nat -> all_bytes a = true -> le_num a < two32.
Proof.
  intros Hl Hb. do 5 (destruct a as [|? a]; try discriminate).
  cbn [all_bytes forallb] in Hb. unfold is_byte in Hb.
  repeat (apply andb_true_iff in Hb as [?%N.ltb_lt Hb]).
  cbn [le_num]. unfold two32. lia.
Qed.

Lemma decode_vector_refines Ds Dg esz bs vs rest a r :
  (forall bs v r, Ds bs = Some (v, r) -> runs Dg bs v r) ->
  esz <= esz_limit ->
  split_at 4 bs = Some (a, r) -> dec_count Ds (le_num a) r = Some (vs, rest) ->
  runs (decode_vector Dg esz) bs (VVec vs) rest.
Proof.
  intros HD He Hs Hc. unfold decode_vector.
  apply (runs_bind _ _ _ a r); [apply runs_read_full; exact Hs|].
  apply (runs_bind _ _ _ tt r).
  { apply runs_make. unfold esz_limit, max_prealloc, max_alloc in *.
    assert (N.min (le_num a) 4096 <= 4096) by lia. nia. }
  unfold dec_count in Hc. destruct (le_num a) as [|p].
  - inversion Hc; subst. apply runs_ret.
  - destruct (dec_pos Ds p [] r) as [[acc r1]|] eqn:E; [|discriminate]. inversion Hc; subst.
    apply (runs_bind _ _ _ acc rest); [apply (iter_pos_refines Ds Dg HD); exact E|]. apply runs_ret.
Qed.

(** * encodeVector *)
Lemma enc_list_concat (Es : value -> option bytes) (Eg : value -> res bytes) :
  forall vs e, (forall v x, In v vs -> Es v = Some x -> Eg v = Ok x) ->
  enc_list Es vs = Some e -> concat_res (map Eg vs) = Ok e.
Proof.
  induction vs as [|v t IH]; intros e HE H; cbn [enc_list map concat_res] in *.
  - inversion H; reflexivity.
  - destruct (Es v) as [x|] eqn:Ex; [|discriminate].
    destruct (enc_list Es t) as [y|] eqn:Ey; [|discriminate]. inversion H; subst.
    rewrite (HE v x (or_introl eq_refl) Ex). cbn [bind].
    rewrite (IH y (fun v x Hin => HE v x (or_intror Hin)) eq_refl). reflexivity.
Qed.

Lemma concat_res_app {A} (f : A -> res bytes) l1 l2 x y :
  concat_res (map f l1) = Ok x -> concat_res (map f l2) = Ok y ->
  concat_res (map f (l1 ++ l2)) = Ok (x ++ y).
Proof.
  revert x; induction l1 as [|a l1 IH]; intros x H1 H2; cbn [map concat_res app] in *.
  - inversion H1; subst. exact H2.
  - destruct (f a) as [u| |]; try discriminate. cbn [bind] in *.
    destruct (concat_res (map f l1)) as [w| |] eqn:E; try discriminate. cbn [bind] in *.
    inversion H1; subst. rewrite (IH w eq_refl H2). cbn [bind]. now rewrite app_assoc.
Qed.

(** * The structural equality tests decide equality *)
Lemma list_eqb_eq {A} (eqb : A -> A -> bool) :
  (forall x y, eqb x y = true -> x = y) -> forall a b, list_eqb eqb a b = true -> a = b.
Proof.
  intros He a; induction a as [|x a IH]; intros [|y b] H; cbn [list_eqb] in H; try discriminate; auto.
  apply andb_true_iff in H as [H1 H2]. f_equal; [apply He; exact H1|apply IH; exact H2].
Qed.

Lemma gty_eqb_eq : forall a b, gty_eqb a b = true -> a = b.
Proof.
  fix IH 1. intros a b; destruct a; destruct b; cbn [gty_eqb]; try discriminate; intros H;
    try reflexivity.
  - f_equal; apply IH; exact H.
  - f_equal; apply IH; exact H.
  - apply String.eqb_eq in H; subst; reflexivity.
  - f_equal. revert fs0 H. induction fs as [|[n x] fs IHfs]; intros [|[m y] ys] H;
      try discriminate; auto.
    apply andb_true_iff in H as [H1 H3]. apply andb_true_iff in H1 as [H1 H2].
    apply String.eqb_eq in H1. subst m. f_equal; [f_equal; apply IH; exact H2|apply IHfs; exact H3].
  - apply String.eqb_eq in H; subst; reflexivity.
Qed.

Lemma access_eqb_eq a b : access_eqb a b = true -> a = b.
Proof.
  destruct a as [pa ta], b as [pb tb]. unfold access_eqb; cbn [fst snd]. intros H.
  apply andb_true_iff in H as [H1 H2].
  apply (list_eqb_eq _ (fun x y => proj1 (String.eqb_eq x y))) in H1. subst pb. f_equal.
  destruct ta as [[x p]|], tb as [[y q]|]; cbn [tmp_eqb] in H2; try discriminate; auto.
  apply andb_true_iff in H2 as [H2 H3]. apply gty_eqb_eq in H2. apply Bool.eqb_prop in H3. now subst.
Qed.

Lemma stmt_eqb_eq a b : stmt_eqb a b = true -> a = b.
Proof.
  destruct a, b; cbn [stmt_eqb]; try discriminate; intros H.
  - f_equal; apply access_eqb_eq; exact H.
  - apply andb_true_iff in H as [H H3]. apply andb_true_iff in H as [H1 H2].
    apply String.eqb_eq in H1. apply N.eqb_eq in H2. apply (list_eqb_eq _ access_eqb_eq) in H3. now subst.
  - apply N.eqb_eq in H; now subst.
  - apply N.eqb_eq in H; now subst.
  - apply String.eqb_eq in H; now subst.
Qed.

Lemma binding_eqb_eq a b : binding_eqb a b = true -> a = b.
Proof.
  destruct a as [an at_ am au], b as [bn bt bm bu]. unfold binding_eqb; cbn [b_name b_type b_marshal b_unmarshal].
  intros H. apply andb_true_iff in H as [H H4]. apply andb_true_iff in H as [H H3].
  apply andb_true_iff in H as [H1 H2].
  apply String.eqb_eq in H1. apply gty_eqb_eq in H2. subst bn bt. f_equal.
  - destruct am as [x|x|], bm as [y|y|]; cbn [mbody_eqb] in H3; try discriminate; auto; f_equal.
    + apply (list_eqb_eq _ stmt_eqb_eq); exact H3.
    + revert H3. apply list_eqb_eq. intros [n1 s1] [n2 s2]; cbn [fst snd]. intros H.
      apply andb_true_iff in H as [Ha Hb]. apply String.eqb_eq in Ha.
      apply (list_eqb_eq _ stmt_eqb_eq) in Hb. now subst.
  - destruct au as [x|x], bu as [y|y]; cbn [ubody_eqb] in H4; try discriminate; f_equal.
    + apply (list_eqb_eq _ stmt_eqb_eq); exact H4.
    + revert H4. apply list_eqb_eq. intros [[i1 n1] s1] [[i2 n2] s2]; cbn [fst snd]. intros H.
      apply andb_true_iff in H as [H Hc]. apply andb_true_iff in H as [Ha Hb].
      apply N.eqb_eq in Ha. apply String.eqb_eq in Hb. apply (list_eqb_eq _ stmt_eqb_eq) in Hc. now subst.
Qed.

(** [has B (Some x)]: the binding named like [x] in [B] is [x] *)
Lemma has_find B x : has B (Some x) = true -> find_binding B (b_name x) = Some x.
Proof.
  unfold has. destruct (find_binding B (b_name x)) as [b|]; [|discriminate].
  intros H. apply binding_eqb_eq in H. now subst.
Qed.

Lemma has_some B e : has B e = true -> exists x, e = Some x /\ find_binding B (b_name x) = Some x.
Proof. destruct e as [x|]; [|discriminate]. intros H. exists x. split; [reflexivity|apply has_find; exact H]. Qed.
