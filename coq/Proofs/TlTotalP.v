(** Resource logic for the reader monad of Model/TlTotal.v and the triples of
    the primitives of tl/decoder.go (readByteSlice, readN, decodeVector).

    [tri sl m w g k e]: for every start state, [m] never panics, never runs out
    of fuel, never un-reads; with R = allocation + steps and the potential
    R + sl * (bytes left):
      - if it succeeds it has consumed at least [w] bytes and the potential grew
        by at most [k] while leaving a credit of [g];
      - if it fails the potential grew by at most [e]. *)
From Coq Require Import String List NArith PArith Arith Lia Bool.
From Tongo Require Import Lib.Bits Lib.Res Spec.TlWire Model.Tl Model.TlTotal.
Import ListNotations.
Local Open Scope N_scope.

Definition R (s : tst) : N := t_alloc s + t_steps s.

Definition post {X} (sl w g k e : N) (s : tst) (o : res X * tst) : Prop :=
  tlen (snd o) <= tlen s /\
  match fst o with
  | Ok _ => tlen (snd o) + w <= tlen s /\
            R (snd o) + sl * tlen (snd o) + g <= R s + sl * tlen s + k
  | Err x => x <> EFuel /\ R (snd o) + sl * tlen (snd o) <= R s + sl * tlen s + e
  | Panic _ => False
  end.
Definition tri {X} (sl : N) (m : T X) (w g k e : N) : Prop := forall s, post sl w g k e s (m s).

Lemma tri_ret {X} sl (a : X) e : tri sl (tret a) 0 0 0 e.
Proof. intros s. unfold post, tret; cbn. lia. Qed.

Lemma tri_fail {X} sl x w g k : x <> EFuel -> tri sl (@tfail X x) w g k 0.
Proof. intros Hx s. unfold post, tfail; cbn. split; [lia | split; [exact Hx | lia]]. Qed.

Lemma tri_weaken {X} sl (m : T X) w g k e w' g' k' e' :
  tri sl m w g k e -> w' <= w -> k + g' <= k' + g -> e <= e' -> tri sl m w' g' k' e'.
Proof.
  intros H Hw Hk He s. specialize (H s). unfold post in *.
  destruct (m s) as [r s']; cbn in *. destruct H as [H0 H]. split; [exact H0|].
  destruct r; [lia | split; [tauto | lia] | exact H].
Qed.

Lemma tri_slope {X} sl sl' (m : T X) w g k e :
  sl <= sl' -> tri sl m w g k e -> tri sl' m w g k e.
Proof.
  intros Hs H s. specialize (H s). unfold post in *.
  destruct (m s) as [r s']; cbn in *. destruct H as [H0 H]. split; [exact H0|].
  assert (Hd : exists d, sl' = sl + d) by (exists (sl' - sl); lia).
  destruct Hd as [d ->].
  pose proof (N.mul_le_mono_l _ _ d H0) as Hm.
  rewrite !N.mul_add_distr_r.
  destruct r; [lia | split; [tauto | lia] | exact H].
Qed.

Lemma tri_bind {X Y} sl (m : T X) (f : X -> T Y) w1 g1 k1 e1 w2 g2 k2 e2 :
  tri sl m w1 g1 k1 e1 -> (forall a, tri sl (f a) w2 g2 k2 e2) ->
  tri sl (tbind m f) (w1 + w2) (g1 + g2) (k1 + k2) (N.max e1 (k1 + e2)).
Proof.
  intros H1 H2 s. specialize (H1 s). unfold post, tbind in *.
  destruct (m s) as [r s1]; cbn in *. destruct H1 as [L1 H1].
  destruct r as [a | x | p].
  - specialize (H2 a s1). unfold post in H2.
    destruct (f a s1) as [r2 s2]; cbn in *. destruct H2 as [L2 H2].
    split; [lia|]. destruct r2; [lia | split; [tauto | lia] | exact H2].
  - cbn. split; [lia | split; [tauto | lia]].
  - contradiction.
Qed.

(* the fixed cost of an action is paid by the bytes it consumed, at [rate] *)
Lemma tri_absorb {X} sl rate (m : T X) w g k e g' :
  tri sl m w g k e -> k + g' <= rate * w + g -> tri (sl + rate) m w g' 0 e.
Proof.
  intros H Hk s. specialize (H s). unfold post in *.
  destruct (m s) as [r s']; cbn in *. destruct H as [H0 H]. split; [exact H0|].
  rewrite !N.mul_add_distr_r.
  pose proof (N.mul_le_mono_l _ _ rate H0) as Hm.
  destruct r as [a | x | p]; [ | split; [tauto | lia] | exact H].
  destruct H as [Hw H]. split; [exact Hw|].
  pose proof (N.mul_le_mono_l _ _ rate Hw) as Hm2.
  rewrite N.mul_add_distr_l in Hm2. lia.
Qed.

(** * primitives *)
Lemma tlen_mk l a st : tlen (mktst l a st) = N.of_nat (length l).
Proof. reflexivity. Qed.

Lemma tri_rd_full sl n : tri sl (rd_full n) (N.of_nat n) (sl * N.of_nat n) 0 0.
Proof.
  intros s. unfold post, rd_full. rewrite short_spec.
  destruct (Nat.ltb_spec (length (t_inp s)) n) as [Hlt | Hge]; cbn.
  - unfold tlen, R; cbn. split; [lia | split; [discriminate | lia]].
  - unfold tlen, R; cbn. rewrite skipn_length.
    assert (Hm : sl * N.of_nat (length (t_inp s) - n) + sl * N.of_nat n = sl * N.of_nat (length (t_inp s)))
      by (rewrite <- N.mul_add_distr_l; f_equal; lia).
    split; [lia | split; lia].
Qed.

Lemma tri_rd_fullN sl n : tri sl (rd_fullN n) n (sl * n) 0 0.
Proof.
  intros s. unfold rd_fullN.
  destruct (N.ltb_spec (tlen s) n) as [Hlt | Hge].
  - unfold post, tlen, R; cbn. split; [lia | split; [discriminate | lia]].
  - pose proof (tri_rd_full sl (N.to_nat n) s) as H.
    rewrite N2Nat.id in H. exact H.
Qed.

Lemma tri_charge sl c : tri sl (charge c) 0 0 c c.
Proof. intros s. unfold post, charge, tlen, R; cbn. lia. Qed.

Lemma tri_tick sl : tri sl tick 0 0 1 1.
Proof. intros s. unfold post, tick, tlen, R; cbn. lia. Qed.

Lemma tri_mk sl cap esz :
  cap * esz <= max_alloc -> tri sl (mk cap esz) 0 0 (cap * esz) (cap * esz).
Proof.
  intros H s. unfold mk.
  destruct (N.ltb_spec max_alloc (cap * esz)) as [Hlt | Hge]; [lia|].
  apply tri_charge.
Qed.

Lemma max_alloc_val : max_alloc = 281474976710656.
Proof. reflexivity. Qed.

Lemma mul_ge_l (a b : N) : 1 <= a -> b <= a * b.
Proof. intros H. rewrite <- (N.mul_1_l b) at 1. apply N.mul_le_mono_r; exact H. Qed.

(* make([]byte, n); io.ReadFull: the buffer is paid by the bytes read *)
Lemma tri_mk_read sl n :
  1 <= sl -> n <= 4096 -> tri sl (mk_read n) n 0 0 4096.
Proof.
  intros Hs Hn. unfold mk_read.
  eapply tri_weaken.
  - eapply tri_bind; [apply (tri_mk sl n 1); rewrite max_alloc_val; lia|].
    intros _. apply tri_rd_fullN.
  - lia.
  - pose proof (mul_ge_l sl n Hs). lia.
  - lia.
Qed.

Lemma rd_fullN_err_drained n s x s' : rd_fullN n s = (Err x, s') -> tlen s' = 0.
Proof.
  unfold rd_fullN. destruct (tlen s <? n).
  - intros E; inversion E; subst; reflexivity.
  - unfold rd_full. destruct (short _ _); intros E; inversion E; subst; reflexivity.
Qed.

Lemma rd_fullN_R n s r s' :
  rd_fullN n s = (r, s') -> t_alloc s' = t_alloc s /\ t_steps s' = t_steps s.
Proof.
  unfold rd_fullN. destruct (tlen s <? n).
  - intros E; inversion E; subst; cbn; tauto.
  - unfold rd_full. destruct (short _ _); intros E; inversion E; subst; cbn; tauto.
Qed.

Lemma tri_read_n sl n : 5 <= sl -> tri sl (read_n n) n 0 0 4096.
Proof.
  intros Hs. unfold read_n, max_prealloc.
  destruct (N.leb_spec n 4096) as [Hle | Hgt].
  - apply tri_mk_read; lia.
  - intros s. pose proof (tri_rd_fullN sl n s) as H. unfold post in *.
    destruct (rd_fullN n s) as [r s'] eqn:E; cbn [fst snd] in *.
    pose proof (rd_fullN_err_drained n s) as Hdr. rewrite E in Hdr.
    unfold R, tlen in *; cbn [fst snd t_inp t_alloc t_steps] in *.
    set (l' := N.of_nat (length (t_inp s'))) in *.
    set (l := N.of_nat (length (t_inp s))) in *.
    destruct H as [H0 H]. split; [exact H0|].
    destruct r as [a | x | p]; [ | | exact H].
    + destruct H as [Hw H]. split; [exact Hw|].
      assert (H5 : 5 * n <= sl * n) by (apply N.mul_le_mono_r; exact Hs).
      lia.
    + destruct H as [Hx H]. split; [exact Hx|].
      (* failing read: the reader is drained *)
      assert (Hz : sl * l' = 0) by (unfold l'; rewrite (Hdr x s' eq_refl); apply N.mul_0_r).
      destruct (rd_fullN_R _ _ _ _ E) as [Ha Hst]. rewrite Ha, Hst.
      assert (H5 : 5 * l <= sl * l) by (apply N.mul_le_mono_r; exact Hs).
      lia.
Qed.

Lemma pad_ge (first : N) : 4 <= 1 + first + N.of_nat (pad_of (1 + first)).
Proof.
  unfold pad_of. rewrite N2Nat.id.
  destruct (N.ltb_spec first 3) as [Hlt | Hge]; [|generalize ((4 - (1 + first) mod 4) mod 4); intros; lia].
  assert (Hc : first = 0 \/ first = 1 \/ first = 2) by lia.
  destruct Hc as [-> | [-> | ->]]; vm_compute; discriminate.
Qed.

Lemma EInvalid_nf : EInvalid <> EFuel. Proof. discriminate. Qed.
Lemma EModel_nf : EModel <> EFuel. Proof. discriminate. Qed.
Lemma EOther_nf : EOther <> EFuel. Proof. discriminate. Qed.

Ltac tri_seq := eapply tri_bind; [ | intros ? ].

Lemma tri_read_byte_slice sl :
  5 <= sl -> tri sl read_byte_sliceT 4 0 4 (4 + 4096).
Proof.
  intros Hs. unfold read_byte_sliceT.
  eapply tri_weaken.
  - eapply tri_bind with (w2 := 3) (g2 := 0) (k2 := 4) (e2 := 4 + 4096); [apply tri_rd_full|].
    intros fb. set (first := le_num fb).
    destruct (first <? 254) eqn:E1.
    + apply N.ltb_lt in E1.
      eapply tri_weaken.
      * eapply tri_bind; [apply tri_mk_read; lia|]. intros data.
        eapply tri_bind; [apply tri_rd_full|]. intros _. apply (tri_ret sl data 0).
      * pose proof (pad_ge first). lia.
      * lia.
      * lia.
    + destruct (first =? 254) eqn:E2.
      * eapply tri_weaken.
        -- eapply tri_bind; [apply (tri_mk sl 4 1); rewrite max_alloc_val; lia|]. intros _.
           eapply tri_bind with (w2 := 0) (g2 := 0) (k2 := 0) (e2 := 4096); [apply tri_rd_full|]. intros sz.
           eapply tri_weaken.
           ++ eapply tri_bind; [apply tri_read_n; exact Hs|]. intros data.
              eapply tri_bind; [apply tri_rd_full|]. intros _. apply (tri_ret sl data 0).
           ++ lia.
           ++ lia.
           ++ lia.
        -- lia.
        -- lia.
        -- lia.
      * eapply tri_weaken; [apply (tri_fail sl EInvalid 3 0 4 EInvalid_nf) | lia | lia | lia].
  - lia.
  - lia.
  - lia.
Qed.

(** * decodeVector *)
Lemma tri_vec_elem sl (D : T value) esz w g k e :
  tri sl D w g k e ->
  tri sl (vec_elem D esz) w g (k + append_charge esz) (e + append_charge esz).
Proof.
  intros H s. specialize (H s). unfold post, vec_elem in *.
  destruct (D s) as [r s']; cbn in *.
  unfold R in *; cbn. rewrite tlen_mk. fold (tlen s').
  destruct H as [H0 H]. split; [exact H0|].
  destruct r; [lia | split; [tauto | lia] | exact H].
Qed.

Lemma tri_iter_pos sl (D : T value) w g e :
  tri sl D w g 0 e ->
  forall p acc, tri sl (iter_posT D p acc) (Npos p * w) (Npos p * g) 0 e.
Proof.
  intros HD. induction p as [p IH | p IH | ]; intros acc; cbn [iter_posT].
  - eapply tri_weaken.
    + eapply tri_bind; [exact HD|]. intros v.
      eapply tri_bind; [apply IH|]. intros acc'. apply IH.
    + lia.
    + lia.
    + lia.
  - eapply tri_weaken.
    + eapply tri_bind; [apply IH|]. intros acc'. apply IH.
    + lia.
    + lia.
    + lia.
  - eapply tri_weaken.
    + eapply tri_bind; [exact HD|]. intros v. apply (tri_ret sl (v :: acc) 0).
    + lia.
    + lia.
    + lia.
Qed.

Lemma tri_decode_vector sl rate (D : T value) esz w k e :
  tri sl D w 0 k e ->
  k + (1 + append_charge 1) * esz <= rate * w ->
  max_prealloc * esz <= max_alloc ->
  tri (sl + rate) (decode_vectorT D esz) 4 0 esz
      (esz + max_prealloc * esz + append_charge esz + e).
Proof.
  intros HD Hr Hm. unfold decode_vectorT, append_charge, max_prealloc in *.
  assert (HE : tri (sl + rate) (vec_elem D esz) w esz 0 (e + 6 * esz)).
  { eapply tri_absorb; [apply tri_vec_elem; exact HD|]. unfold append_charge. lia. }
  eapply tri_weaken.
  - eapply tri_bind; [apply tri_rd_full|]. intros b.
    eapply tri_bind with (w2 := 0) (g2 := 0) (k2 := 0) (e2 := 4096 * esz + (e + 6 * esz)); [apply tri_charge|].
    intros _.
    set (ln := le_num b).
    assert (Hcap : N.min ln 4096 * esz <= 4096 * esz) by (apply N.mul_le_mono_r; lia).
    destruct ln as [ | p] eqn:El.
    + eapply tri_weaken.
      * eapply tri_bind; [apply tri_mk; cbn; lia|]. intros _. apply (tri_ret _ (VVec []) 0).
      * lia.
      * cbn. lia.
      * cbn. lia.
    + eapply tri_weaken.
      * eapply tri_bind; [apply tri_mk; lia|]. intros _.
        eapply tri_bind; [apply (tri_iter_pos _ _ _ _ _ HE p [])|]. intros acc.
        apply (tri_ret _ (VVec (rev acc)) 0).
      * lia.
      * assert (Hp : N.min (N.pos p) 4096 * esz <= N.pos p * esz) by (apply N.mul_le_mono_r; lia).
        lia.
      * lia.
  - cbn. lia.
  - lia.
  - lia.
Qed.
