(** C01 — round trip of the serialiser model, part 6: [boc_roundtrip_model]
    (parse (serialize roots) yields the emitted cells, and every parsed root
    unfolds to the tree of the corresponding input root) and [stored_once]
    (the emitted cells are in bijection with the distinct hashes of the cells
    reachable from the roots). *)
From Coq Require Import List NArith ZArith Arith Bool Lia Permutation.
From Tongo Require Import Lib.Bits Lib.Res Model.BocParse Model.CellHash Model.BocSer Spec.BocLayout
  Proofs.BocParseP Proofs.BocLayoutP
  Proofs.BocReorderP1 Proofs.BocReorderP2 Proofs.BocReorderP3 Proofs.BocReorderP4
  Proofs.BocSerLayoutP1 Proofs.BocSerLayoutP2 Proofs.BocSerLayoutP3 Proofs.BocSerLayoutP4
  Proofs.BocSerLayoutP5.
Import ListNotations.

Lemma cells_ok_wf n size : forall cells stored i,
  cells_ok n i size cells stored -> dag_wf_from n i cells.
Proof.
  induction cells as [|c t IH]; intros stored i H; [exact I|].
  destruct stored as [|s ts]; [contradiction|]. destruct H as [(Hb & Hr & Hf & _) Ht].
  split; [split; [exact Hb|split; [exact Hr|exact Hf]]|]. eapply IH. exact Ht.
Qed.

Lemma layout_ok_wf v cells ri : layout_ok v cells ri -> dag_wf cells.
Proof.
  intros (_ & _ & _ & _ & _ & _ & _ & _ & _ & Hc & _). eapply cells_ok_wf. exact Hc.
Qed.

Lemma Forall2_impl_in {A B} (P Q : A -> B -> Prop) l l' :
  (forall a b, In a l -> In b l' -> P a b -> Q a b) -> Forall2 P l l' -> Forall2 Q l l'.
Proof.
  intros HPQ H. induction H as [|a b l l' Hab _ IH]; constructor.
  - apply HPQ; [left; reflexivity|left; reflexivity|exact Hab].
  - apply IH. intros a' b' Ha Hb. apply HPQ; right; assumption.
Qed.

(** tree size: strictly larger than the size of every sub-tree *)
Fixpoint tsize (t : tree) : nat :=
  match t with T _ _ _ _ refs => S (list_sum (map tsize refs)) end.

Lemma in_list_sum (f : tree -> nat) x l : In x l -> f x <= list_sum (map f l).
Proof.
  induction l as [|a t IH]; intros Hin; [destruct Hin|].
  cbn [map list_sum fold_right]. fold (list_sum (map f t)). destruct Hin as [<-|Hin]; [lia|]. specialize (IH Hin). lia.
Qed.

Lemma NoDup_map_seq' {A} (f : nat -> A) n :
  (forall i i', i < n -> i' < n -> f i = f i' -> i = i') -> NoDup (map f (seq 0 n)).
Proof.
  intros Hinj.
  assert (G : forall k b, b + k <= n -> NoDup (map f (seq b k))).
  { induction k as [|k IH]; intros b Hb; cbn [seq map]; constructor.
    - intros Hin. apply in_map_iff in Hin. destruct Hin as (x & Ex & Hx). apply in_seq in Hx.
      assert (x = b) by (apply Hinj; [lia|lia|exact Ex]). lia.
    - apply IH. lia. }
  apply G. lia.
Qed.

Section RT2.
Variable dag : list node.
Variable hashes : list (res bytes).
Variable roots : list nat.
Hypothesis Hwf : dag_wf dag.
Hypothesis Hok : Forall node_ok dag.
Hypothesis Hreal : hashes_real hashes.
Hypothesis Hcnt : (N.of_nat (length dag) < 2 ^ 24)%N.
Hypothesis Hrc : length roots < 256.
(* equal hashes mean equal trees, on the cells reachable from the roots *)
Hypothesis Hcf : collision_free dag hashes roots.

Theorem boc_roundtrip_model idx hasCrc cacheBits bs :
  serialize dag hashes roots idx hasCrc cacheBits = Ok bs ->
  exists p st0 m rootpos stf nl,
    parse_boc bs = Ok p /\
    imported dag hashes roots st0 m rootpos stf nl /\
    p_cells p = out_cells dag stf nl /\ p_roots p = map (epos stf nl) rootpos /\
    dag_wf (p_cells p) /\
    Forall2 (fun r' r => exists t, unfold_at (length dag) dag r = Some t /\
                                   unfold_at (length (p_cells p)) (p_cells p) r' = Some t)
            (p_roots p) roots.
Proof.
  intros E.
  destruct (serialize_is_layout dag hashes Hwf Hreal Hok roots idx hasCrc cacheBits bs Hcnt Hrc E)
    as (st0 & m & rootpos & stf & nl & Himp & HL).
  cbv zeta in HL. destruct HL as (-> & Hlok & Hem).
  pose proof Himp as (_ & _ & Hpre & _ & _ & HIS & HF2).
  destruct (parse_layout _ _ _ Hlok) as (p & Ep & Ec & Er).
  { rewrite map_length, (Forall2_length HF2).
    change (2 ^ 64)%N with 18446744073709551616%N. lia. }
  exists p, st0, m, rootpos, stf, nl.
  split; [exact Ep|]. split; [exact Himp|]. split; [exact Ec|]. split; [exact Er|].
  pose proof (layout_ok_wf _ _ _ Hlok) as Hcw. rewrite Ec, Er.
  split; [exact Hcw|].
  apply Forall2_map_left. eapply Forall2_impl_in; [|exact HF2].
  intros pk r _ Hrin (Hpl & Hrl & h & H1 & H2). cbv beta.
  destruct (unf_total dag r Hwf Hrl) as [t Ht]. exists t.
  split; [apply unf_full; assumption|].
  destruct (Hem pk Hpl) as (nd & _ & Hlt & _).
  apply unf_full; [exact Hcw|exact Hlt|].
  eapply (emitted_same_tree dag hashes roots Hcf); try eassumption.
  destruct HIS as (_ & _ & HRC & _).
  apply (Hcf r (nodeix st0 pk) h); [|apply HRC; exact Hpl|exact H2|exact H1|exact Ht].
  apply dreach_root. exact Hrin.
Qed.

(** *** stored once *)
(* equal trees have equal hashes: the hash is a function of the structure *)
Definition hash_functional : Prop :=
  forall a b t h, dreach dag roots a -> dreach dag roots b ->
  unf dag a t -> unf dag b t -> hash_of hashes a h -> hash_of hashes b h.

Definition tsz (c : nat) : nat :=
  match unfold_at (length dag) dag c with Some t => tsize t | None => 0 end.

Lemma tsz_unf c t : c < length dag -> unf dag c t -> tsz c = tsize t.
Proof. intros Hc Hu. unfold tsz. rewrite (unf_full dag c t Hwf Hc Hu). reflexivity. Qed.

Lemma T1_tree :
  True -> forall c nd r, dreach dag roots c -> nth_error dag c = Some nd -> In r (n_refs nd) ->
  tsz r < tsz c.
Proof.
  intros _ c nd r _ End Hr.
  assert (Hc : c < length dag) by (apply nth_error_Some; congruence).
  destruct (unf_total dag c Hwf Hc) as [t Ht].
  destruct (unf_inv _ _ _ Ht) as (nd' & ts & End' & Et & Hts).
  rewrite End in End'. injection End' as <-.
  destruct (Forall2_In_l _ _ _ r Hts Hr) as (tr & Htr & Hur).
  pose proof (dag_wf_nth _ _ 0 c nd Hwf End) as (_ & _ & Hf). rewrite Forall_forall in Hf.
  specialize (Hf r Hr). cbv beta in Hf.
  rewrite (tsz_unf r tr ltac:(lia) Hur), (tsz_unf c t Hc Ht). subst t. cbn [tsize].
  pose proof (in_list_sum tsize tr ts Htr). lia.
Qed.

Lemma T2_tree : Forall (fun r => r < length dag) roots ->
  True -> forall c c' h, dreach dag roots c -> dreach dag roots c' ->
  hash_of hashes c h -> hash_of hashes c' h -> tsz c = tsz c'.
Proof.
  intros Hrin _ c c' h Rc Rc' Hh Hh'.
  pose proof (dreach_lt dag roots Hwf c Hrin Rc) as Hc.
  pose proof (dreach_lt dag roots Hwf c' Hrin Rc') as Hc'.
  destruct (unf_total dag c Hwf Hc) as [t Ht].
  pose proof (Hcf c c' h Rc Rc' Hh Hh' t Ht) as Ht'.
  rewrite (tsz_unf c t Hc Ht), (tsz_unf c' t Hc' Ht'). reflexivity.
Qed.

Definition hash_at (st0 : list cinfo) (i : nat) : bytes :=
  match nth_error hashes (nodeix st0 i) with Some (Ok h) => h | _ => [] end.

Lemma hash_at_of st0 i h : hash_of hashes (nodeix st0 i) h -> hash_at st0 i = h.
Proof. unfold hash_at, hash_of. intros ->. reflexivity. Qed.

Theorem stored_once idx hasCrc cacheBits bs :
  hash_functional ->
  serialize dag hashes roots idx hasCrc cacheBits = Ok bs ->
  exists p hs,
    parse_boc bs = Ok p /\ NoDup hs /\ length hs = length (p_cells p) /\
    (forall c, dreach dag roots c -> exists h, hash_of hashes c h /\ In h hs) /\
    (forall h, In h hs -> exists c, dreach dag roots c /\ hash_of hashes c h).
Proof.
  intros Hfun E.
  destruct (boc_roundtrip_model idx hasCrc cacheBits bs E)
    as (p & st0 & m & rootpos & stf & nl & Ep & Himp & Ec & _).
  destruct (imported_count dag hashes roots st0 m rootpos stf nl Himp) as [Hn _].
  destruct Himp as (EP & _ & _ & _ & _ & _ & HF2).
  assert (Hrin : Forall (fun r => r < length dag) roots).
  { apply Forall_forall. intros r Hr. destruct (Forall2_In_r _ _ _ r HF2 Hr) as (pk & _ & _ & Hl & _).
    exact Hl. }
  pose proof (import_phase_links dag hashes (dreach dag roots) (dreach_child dag roots)
                True True tsz T1_tree (T2_tree Hrin) roots (dreach_root dag roots)) as HL.
  rewrite EP in HL. destruct HL as [(HLK & _ & HRC & _ & _ & HINJ) _]. specialize (HINJ I I).
  exists p, (map (hash_at st0) (seq 0 (length st0))).
  split; [exact Ep|]. split.
  { apply NoDup_map_seq'. intros i i' Hi Hi' Eh.
    destruct (HLK i Hi) as (_ & h & _ & Hh & _). destruct (HLK i' Hi') as (_ & h' & _ & Hh' & _).
    rewrite (hash_at_of _ _ _ Hh), (hash_at_of _ _ _ Hh') in Eh. subst h'.
    apply (HINJ i i' h); assumption. }
  split.
  { rewrite map_length, seq_length, Ec, out_cells_length. symmetry. exact Hn. }
  split.
  - (* every reachable cell has the hash of some entry *)
    assert (Hcov : forall c, dreach dag roots c ->
              c < length dag /\ exists i h, i < length st0 /\ hash_of hashes c h /\
      hash_of hashes (nodeix st0 i) h).
    { intros c Hc. induction Hc as [r Hr|c0 c Hc0 IH Hc].
      - destruct (Forall2_In_r _ _ _ r HF2 Hr) as (pk & _ & Hpl & Hl & h & H1 & H2).
        split; [exact Hl|]. exists pk, h. split; [exact Hpl|]. split; assumption.
      - destruct IH as (Hl0 & i & h & Hi & Hh0 & Hhi).
        unfold drefs in Hc. destruct (nth_error dag c0) as [nd0|] eqn:End0; [|destruct Hc].
        pose proof (dag_wf_nth _ _ 0 c0 nd0 Hwf End0) as (_ & _ & Hf). rewrite Forall_forall in Hf.
        specialize (Hf c Hc). cbv beta in Hf. split; [lia|].
        destruct (unf_total dag c0 Hwf Hl0) as [t0 Ht0].
        pose proof (Hcf c0 (nodeix st0 i) h Hc0 (HRC i Hi) Hh0 Hhi t0 Ht0) as Hti.
        destruct (unf_inv _ _ _ Ht0) as (nd0' & ts0 & End0' & Et0 & Hts0).
        rewrite End0 in End0'. injection End0' as <-.
        destruct (unf_inv _ _ _ Hti) as (ndi & tsi & Endi & Eti & Htsi).
        rewrite Et0 in Eti. injection Eti as _ _ _ _ Ets. subst tsi.
        destruct (Forall2_In_l _ _ _ c Hts0 Hc) as (tc & Htc & Huc).
        destruct (Forall2_In_r _ _ _ tc Htsi Htc) as (c' & Hc' & Huc').
        destruct (HLK i Hi) as (ndi' & _ & Endi' & _ & HFl).
        rewrite Endi in Endi'. injection Endi' as <-.
        destruct (Forall2_In_r _ _ _ c' HFl Hc') as (pj & _ & Hpj & _ & hc & H1 & H2).
        exists pj, hc. split; [exact Hpj|]. split; [|exact H1].
        apply (Hfun c' c tc hc); [|eapply reach_child; [exact Hc0|unfold drefs; rewrite End0; exact Hc]
                                  |exact Huc'|exact Huc|exact H2].
        eapply dreach_child; [apply HRC; exact Hi|exact Endi|exact Hc']. }
    intros c Hc. destruct (Hcov c Hc) as (_ & i & h & Hi & Hh & Hhi).
    exists h. split; [exact Hh|]. apply in_map_iff. exists i.
    split; [apply hash_at_of; exact Hhi|apply in_seq; lia].
  - intros h Hin. apply in_map_iff in Hin. destruct Hin as (i & <- & Hi). apply in_seq in Hi.
    destruct (HLK i ltac:(lia)) as (_ & h & _ & Hh & _).
    exists (nodeix st0 i). split; [apply HRC; lia|]. rewrite (hash_at_of _ _ _ Hh). exact Hh.
Qed.

End RT2.
