(** C06, write side: every writer appends exactly its encoding to the ideal bit
    list, or fails with Overflow leaving the previously written bits intact. *)
From Coq Require Import List NArith ZArith Arith Lia Bool.
From Tongo Require Import Lib.Bits Lib.Res Model.BitString.
Import ListNotations.

Ltac splits := repeat match goal with |- _ /\ _ => split end.

Lemma Inv_new n : Inv (new_bs n).
Proof.
  unfold Inv, new_bs, nbytes; cbn [len cap rcur buf].
  unfold zeros. rewrite repeat_length.
  pose proof (Nat.div_mod (n + 7) 8 ltac:(lia)) as H.
  pose proof (Nat.mod_upper_bound (n + 7) 8 ltac:(lia)).
  splits; try lia.
  rewrite Nat.mul_comm. apply Nat.mod_mul. lia.
Qed.

Lemma abs_new n : abs (new_bs n) = [].
Proof. reflexivity. Qed.

(** one bit *)
Lemma write_bit_ok v s :
  Inv s -> (len s < cap s)%nat ->
  exists s', write_bit v s = (s', Ok tt) /\
    abs s' = abs s ++ [v] /\ Inv s' /\
    len s' = S (len s) /\ cap s' = cap s /\ rcur s' = rcur s /\
    length (buf s') = length (buf s).
Proof.
  intros (H1 & H2 & H3 & H4) Hlt. unfold write_bit.
  destruct (Nat.leb_spec (cap s) (len s)) as [Hc|Hc]; [lia|].
  rewrite set_nth_opt_spec.
  destruct (Nat.ltb_spec (len s) (length (buf s))) as [Hb|Hb]; [|lia].
  eexists; split; [reflexivity|].
  unfold abs, Inv; cbn [buf len cap rcur].
  rewrite set_nth_length.
  splits; try lia.
  apply set_nth_firstn_S. exact Hb.
Qed.

Lemma write_bit_full v s :
  (cap s <= len s)%nat -> write_bit v s = (s, Err EOverflow).
Proof.
  intros H. unfold write_bit.
  destruct (Nat.leb_spec (cap s) (len s)); [reflexivity|lia].
Qed.

(** a list of bits that fits *)
Lemma write_bits_ok l : forall s,
  Inv s -> (len s + length l <= cap s)%nat ->
  exists s', write_bits l s = (s', Ok tt) /\
    abs s' = abs s ++ l /\ Inv s' /\
    len s' = (len s + length l)%nat /\ cap s' = cap s /\ rcur s' = rcur s /\
    length (buf s') = length (buf s).
Proof.
  induction l as [|b t IH]; intros s HI Hfit.
  - exists s. cbn [write_bits length]. rewrite app_nil_r. splits; auto; try lia.
  - cbn [length] in Hfit. cbn [write_bits].
    destruct (write_bit_ok b s HI ltac:(lia)) as (s1 & E1 & A1 & I1 & L1 & C1 & R1 & B1).
    rewrite E1.
    destruct (IH s1 I1 ltac:(lia)) as (s2 & E2 & A2 & I2 & L2 & C2 & R2 & B2).
    exists s2. rewrite E2, A2, A1, <- app_assoc. cbn [app length].
    splits; auto; try lia.
Qed.

(** a list that does not fit: Overflow, the part that fitted is appended, the
    previous content is intact *)
Lemma write_bits_overflow l : forall s,
  Inv s -> (cap s < len s + length l)%nat ->
  exists s', write_bits l s = (s', Err EOverflow) /\
    abs s' = abs s ++ firstn (cap s - len s) l /\ Inv s' /\
    cap s' = cap s /\ rcur s' = rcur s.
Proof.
  induction l as [|b t IH]; intros s HI Hov.
  - cbn [length] in Hov. destruct HI as (H1 & _). lia.
  - cbn [write_bits].
    destruct (Nat.leb_spec (cap s) (len s)) as [Hfull|Hroom].
    + rewrite write_bit_full by exact Hfull.
      exists s. replace (cap s - len s)%nat with 0%nat by lia.
      cbn [firstn]. rewrite app_nil_r. auto.
    + destruct (write_bit_ok b s HI Hroom) as (s1 & E1 & A1 & I1 & L1 & C1 & R1 & B1).
      rewrite E1. cbn [length] in Hov.
      destruct (IH s1 I1 ltac:(lia)) as (s2 & E2 & A2 & I2 & C2 & R2).
      exists s2. rewrite E2, A2, A1, C1, L1, <- app_assoc.
      replace (cap s - len s)%nat with (S (cap s - S (len s))) by lia.
      cbn [firstn app]. splits; auto; congruence.
Qed.

Corollary write_bits_overflow_keeps l s :
  Inv s -> (cap s < len s + length l)%nat ->
  exists s', write_bits l s = (s', Err EOverflow) /\
    firstn (len s) (abs s') = abs s /\ Inv s'.
Proof.
  intros HI Hov.
  destruct (write_bits_overflow l s HI Hov) as (s' & E & A & I' & _).
  exists s'. splits; auto.
  rewrite A.
  assert (Hl : length (abs s) = len s).
  { unfold abs. rewrite firstn_length. destruct HI as (? & ? & ? & ?). lia. }
  rewrite <- Hl at 1. apply firstn_app_exact.
Qed.

(** decision: a write of l succeeds iff it fits *)
Lemma write_bits_iff l s :
  Inv s ->
  (snd (write_bits l s) = Ok tt <-> (len s + length l <= cap s)%nat).
Proof.
  intros HI. split.
  - intros H. destruct (Nat.le_gt_cases (len s + length l) (cap s)) as [Hle|Hgt]; [exact Hle|].
    destruct (write_bits_overflow l s HI Hgt) as (s' & E & _). rewrite E in H. discriminate.
  - intros H. destruct (write_bits_ok l s HI H) as (s' & E & _). rewrite E. reflexivity.
Qed.

(** *** encodings of the individual writers *)

Definition enc_uint (v : N) (w : nat) : bits := bits_of w v.

(* two's complement encoding on w >= 1 bits *)
Definition enc_int (v : Z) (w : nat) : bits :=
  bits_of w (Z.to_N (v mod 2 ^ Z.of_nat w)).

Lemma length_enc_int v w : length (enc_int v w) = w.
Proof. apply bits_of_length. Qed.

Definition int_fits (v : Z) (w : nat) : Prop :=
  (- 2 ^ (Z.of_nat w - 1) <= v < 2 ^ (Z.of_nat w - 1))%Z.

Lemma bits_of_S_split w v :
  (v < 2 ^ N.of_nat (S w))%N ->
  bits_of (S w) v = N.testbit v (N.of_nat w) :: bits_of w v.
Proof.
  intros Hv.
  change (S w) with (1 + w)%nat. rewrite bits_of_app.
  f_equal.
  set (q := (v / 2 ^ N.of_nat w)%N).
  assert (Hq : (q < 2)%N).
  { unfold q. apply N.div_lt_upper_bound; [apply N.pow_nonzero; lia|].
    rewrite Nat2N.inj_succ, N.pow_succ_r' in Hv. lia. }
  assert (Ht : N.testbit v (N.of_nat w) = N.odd q).
  { unfold q. rewrite <- N.shiftr_div_pow2, <- N.bit0_odd, N.shiftr_spec'. f_equal; lia. }
  rewrite Ht. unfold bits_of. cbn [bits_of_le rev app]. reflexivity.
Qed.

(* the model's WriteInt emits exactly the two's complement numeral *)
Lemma write_int_enc v w s :
  (2 <= w <= 64)%nat -> int_fits v w ->
  write_int v w s = write_bits (enc_int v w) s.
Proof.
  intros Hw Hfit. unfold int_fits in Hfit.
  destruct w as [|[|w']]; try lia.
  set (k := S w') in *.
  assert (Hk : (Z.of_nat (S k) - 1 = Z.of_nat k)%Z) by lia.
  rewrite Hk in Hfit.
  assert (Hpk : (0 < 2 ^ Z.of_nat k)%Z) by (apply Z.pow_pos_nonneg; lia).
  assert (Hp2 : (2 ^ Z.of_nat (S k) = 2 * 2 ^ Z.of_nat k)%Z).
  { rewrite Nat2Z.inj_succ, Z.pow_succ_r by lia. reflexivity. }
  assert (H64 : (2 ^ Z.of_nat k <= 2 ^ 63)%Z) by (apply Z.pow_le_mono_r; lia).
  assert (Htwo : Z.of_N two64 = (2 * 2 ^ 63)%Z) by reflexivity.
  unfold write_int. fold k.
  unfold enc_int.
  (* generic fact: writing bit b then the low k bits = writing the (k+1)-bit numeral *)
  assert (Hsplit : forall (n : N) (b : bool),
            (n < 2 ^ N.of_nat (S k))%N -> N.testbit n (N.of_nat k) = b ->
            forall lowv, bits_of k lowv = bits_of k n ->
            (match write_bit b s with
             | (s', Ok _) => write_uint lowv k s'
             | r => r end) = write_bits (bits_of (S k) n) s).
  { intros n b Hn Hb lowv Hlow. rewrite (bits_of_S_split k n Hn), Hb.
    cbn [write_bits]. destruct (write_bit b s) as [s' [u|e|p]]; auto.
    unfold write_uint. rewrite Hlow. reflexivity. }
  destruct (Z.ltb_spec v 0) as [Hneg|Hpos].
  - (* negative *)
    assert (Hlt : (k <? 64)%nat = true) by (apply Nat.ltb_lt; lia).
    rewrite Hlt.
    set (n := Z.to_N (v mod 2 ^ Z.of_nat (S k))).
    assert (Hmod : (v mod 2 ^ Z.of_nat (S k) = v + 2 * 2 ^ Z.of_nat k)%Z).
    { rewrite Hp2. symmetry. apply Z.mod_unique with (q := (-1)%Z); lia. }
    assert (HnZ : Z.of_N n = (v + 2 * 2 ^ Z.of_nat k)%Z).
    { unfold n. rewrite Hmod, Z2N.id by lia. reflexivity. }
    assert (Hn : (n < 2 ^ N.of_nat (S k))%N).
    { apply N2Z.inj_lt. rewrite HnZ, N2Z.inj_pow, nat_N_Z. cbn [Z.of_N]. rewrite Hp2. lia. }
    apply (Hsplit n true Hn).
    + (* top bit set *)
      apply N.testbit_true. rewrite <- (N2Z.id (_ / _)), <- (N2Z.id (_ mod _)).
      apply N2Z.inj. rewrite N2Z.id.
      rewrite N2Z.inj_mod, N2Z.inj_div, N2Z.inj_pow, nat_N_Z, HnZ. cbn [Z.of_N].
      replace (v + 2 * 2 ^ Z.of_nat k)%Z with ((v + 2 ^ Z.of_nat k) + 1 * 2 ^ Z.of_nat k)%Z by lia.
      rewrite Z.div_add by lia. rewrite Z.div_small by lia. reflexivity.
    + (* low k bits agree *)
      apply N_of_bits_inj; [rewrite !bits_of_length; reflexivity|].
      rewrite !N_of_bits_bits_of.
      apply N2Z.inj. rewrite !N2Z.inj_mod, N2Z.inj_pow, nat_N_Z, HnZ. cbn [Z.of_N].
      unfold u64_of_Z. rewrite Z2N.id by (apply Z.mod_pos_bound; lia).
      rewrite Htwo.
      rewrite (Z.mod_small (2 ^ Z.of_nat k + v)) by lia.
      replace (v + 2 * 2 ^ Z.of_nat k)%Z with (2 ^ Z.of_nat k + v + 1 * 2 ^ Z.of_nat k)%Z by lia.
      rewrite Z.mod_add by lia. reflexivity.
  - (* non-negative *)
    set (n := Z.to_N (v mod 2 ^ Z.of_nat (S k))).
    assert (Hmod : (v mod 2 ^ Z.of_nat (S k) = v)%Z) by (apply Z.mod_small; lia).
    assert (HnZ : Z.of_N n = v) by (unfold n; rewrite Hmod, Z2N.id by lia; reflexivity).
    assert (Hn : (n < 2 ^ N.of_nat (S k))%N).
    { apply N2Z.inj_lt. rewrite HnZ, N2Z.inj_pow, nat_N_Z. cbn [Z.of_N]. lia. }
    apply (Hsplit n false Hn).
    + apply N.testbit_false. apply N2Z.inj.
      rewrite N2Z.inj_mod, N2Z.inj_div, N2Z.inj_pow, nat_N_Z, HnZ. cbn [Z.of_N].
      rewrite Z.div_small by lia. reflexivity.
    + f_equal. apply N2Z.inj. rewrite HnZ. unfold u64_of_Z.
      rewrite Z2N.id by (apply Z.mod_pos_bound; lia).
      rewrite Htwo. apply Z.mod_small. lia.
Qed.

Lemma write_int_enc_1 v s :
  int_fits v 1 -> write_int v 1 s = write_bits (enc_int v 1) s.
Proof.
  unfold int_fits. cbn. intros H.
  assert (Hv : (v = -1 \/ v = 0)%Z) by lia.
  destruct Hv as [-> | ->]; cbn; destruct (write_bit _ s) as [s' [u|e|p]]; try destruct u; reflexivity.
Qed.

Theorem write_int_is_twos_complement v w s :
  (1 <= w <= 64)%nat -> int_fits v w ->
  write_int v w s = write_bits (enc_int v w) s.
Proof.
  intros Hw Hf. destruct (Nat.eq_dec w 1) as [->|Hne].
  - apply write_int_enc_1; exact Hf.
  - apply write_int_enc; [lia|exact Hf].
Qed.

(** big integers *)
Lemma size_le_iff v w : (N.size v <= N.of_nat w)%N <-> (v < 2 ^ N.of_nat w)%N.
Proof.
  destruct (N.eq_dec v 0) as [->|Hnz].
  - cbn. split; intros _; [apply pow2_pos | lia].
  - rewrite N.size_log2 by exact Hnz. split; intros H.
    + apply N.log2_lt_pow2; lia.
    + apply N.log2_lt_pow2 in H; lia.
Qed.

Lemma write_big_uint_enc v w s :
  (1 <= w)%nat -> (v < 2 ^ N.of_nat w)%N ->
  write_big_uint v w s = write_bits (bits_of w v) s.
Proof.
  intros Hw Hv. unfold write_big_uint.
  destruct (Nat.eqb_spec w 0); [lia|]. cbn [orb].
  destruct (N.ltb_spec (N.of_nat w) (N.size v)) as [Hlt|_]; [|reflexivity].
  apply size_le_iff in Hv. lia.
Qed.

Lemma write_big_uint_too_small v w s :
  (2 ^ N.of_nat w <= v)%N -> write_big_uint v w s = (s, Err ETooSmall).
Proof.
  intros Hv. unfold write_big_uint.
  destruct (Nat.eqb_spec w 0); [reflexivity|]. cbn [orb].
  destruct (N.ltb_spec (N.of_nat w) (N.size v)) as [_|Hge]; [reflexivity|].
  apply size_le_iff in Hge. lia.
Qed.

Lemma write_unary_enc n s :
  write_unary n s = write_bits (ones n ++ [false]) s.
Proof.
  unfold write_unary.
  assert (E : (if (n <? 63)%nat then write_uint (2 ^ N.of_nat n - 1) n s else write_bits (ones n) s)
              = write_bits (ones n) s).
  { destruct (n <? 63)%nat; [|reflexivity]. unfold write_uint. f_equal.
    apply N_of_bits_inj; [rewrite bits_of_length; unfold ones; rewrite repeat_length; reflexivity|].
    rewrite N_of_bits_ones, N_of_bits_bits_of_small; [reflexivity|].
    pose proof (pow2_pos (N.of_nat n)). lia. }
  rewrite E. clear E.
  generalize (ones n). intros l. revert s.
  induction l as [|b t IH]; intros s.
  - cbn [write_bits app]. destruct (write_bit false s) as [s' [u|e|p]]; try destruct u; reflexivity.
  - cbn [write_bits app]. destruct (write_bit b s) as [s' [u|e|p]]; auto.
Qed.
