(** C01 — histories of builder operations and serialisations (Model/BocHist.v):
    the array stays a well-formed cell array with consistent type bytes under
    every accepted operation; the answers of a history are the serialiser model
    applied to the array at the moment of each request; hence they do not
    depend on what was serialised before, and every answer round-trips to the
    current structure (by the round-trip theorem of the serialiser model). *)
From Coq Require Import List NArith ZArith Arith Bool Lia.
From Tongo Require Import Lib.Bits Lib.Res Model.BocParse Model.CellHash Model.BocSer Model.BocHist
  Spec.BocLayout Proofs.BocParseP Proofs.BocReorderP4 Proofs.BocSerLayoutP2 Proofs.BocSerLayoutP5
  Proofs.BocSerLayoutP6.
Import ListNotations.

(** ** well-formedness is kept *)
Lemma dag_wf_from_set_nth n : forall cells base k x,
  dag_wf_from n base cells -> node_wf n (base + k) x -> dag_wf_from n base (set_nth k x cells).
Proof.
  induction cells as [|c t IH]; intros base k x Hwf Hx; [destruct k; exact I|].
  destruct Hwf as (Hc & Ht). destruct k as [|k]; cbn [set_nth dag_wf_from].
  - rewrite Nat.add_0_r in Hx. split; [exact Hx|exact Ht].
  - split; [exact Hc|]. apply IH; [exact Ht|].
    replace (S base + k)%nat with (base + S k)%nat by lia. exact Hx.
Qed.

Lemma Forall_set_nth {A} (P : A -> Prop) : forall l k x,
  Forall P l -> P x -> Forall P (set_nth k x l).
Proof.
  induction l as [|h t IH]; intros k x Hl Hx; [destruct k; constructor|].
  inversion Hl as [|? ? Hh Ht]; subst. destruct k; cbn [set_nth]; constructor; auto.
Qed.

Definition hist_wf (st : list node) : Prop := dag_wf st /\ Forall node_ok st.

Lemma nth_error_Forall {A} (P : A -> Prop) l k x : Forall P l -> nth_error l k = Some x -> P x.
Proof. intros HF Hn. rewrite Forall_forall in HF. apply HF. eapply nth_error_In. exact Hn. Qed.

Lemma hist_mutate_length st s st' : hist_mutate st s = Some st' -> length st' = length st.
Proof.
  destruct s as [k b|k j|k special mask|api k idx crc cache h]; cbn [hist_mutate].
  - destruct (nth_error st k) as [nd|]; [|discriminate].
    destruct (_ <=? _)%nat; [|discriminate]. intros E. injection E as <-. apply set_nth_length.
  - destruct (nth_error st k) as [nd|]; [|discriminate].
    destruct (_ && _); [|discriminate]. intros E. injection E as <-. apply set_nth_length.
  - destruct (nth_error st k) as [nd|]; [|discriminate].
    destruct (mask <? 8)%N; [|discriminate]. destruct special.
    + destruct (_ && _); [|discriminate]. intros E. injection E as <-. apply set_nth_length.
    + intros E. injection E as <-. apply set_nth_length.
  - intros E. injection E as <-. reflexivity.
Qed.

Lemma first_byte_app l b : (8 <= length l)%nat -> first_byte (l ++ b) = first_byte l.
Proof.
  intros H. unfold first_byte. rewrite firstn_app.
  replace (8 - length l)%nat with 0%nat by lia. cbn [firstn]. rewrite app_nil_r. reflexivity.
Qed.

Lemma hist_mutate_wf st s st' : hist_wf st -> hist_mutate st s = Some st' -> hist_wf st'.
Proof.
  intros (Hwf & Hok) E. pose proof (hist_mutate_length _ _ _ E) as Hlen.
  unfold hist_wf, dag_wf. rewrite Hlen.
  destruct s as [k b|k j|k special mask|api k idx crc cache h]; cbn [hist_mutate] in E.
  - destruct (nth_error st k) as [nd|] eqn:En; [|discriminate].
    destruct (length (n_bits nd) + length b <=? 1023)%nat eqn:Eb; [|discriminate].
    injection E as <-. apply Nat.leb_le in Eb.
    pose proof (dag_wf_nth _ _ 0 _ _ Hwf En) as (Hb & Hr & Hf).
    pose proof (nth_error_Forall _ _ _ _ Hok En) as (Hm & Hty).
    split.
    + apply dag_wf_from_set_nth; [exact Hwf|]. unfold node_wf, with_bits. cbn [n_bits n_refs].
      rewrite app_length. split; [lia|]. split; [exact Hr|exact Hf].
    + apply Forall_set_nth; [exact Hok|]. unfold node_ok, with_bits. cbn [n_mask n_special n_type n_bits].
      split; [exact Hm|]. destruct (n_special nd); [|exact Hty].
      destruct Hty as (H8 & Hfb & Hnz). rewrite app_length, first_byte_app by exact H8.
      split; [lia|]. split; [exact Hfb|exact Hnz].
  - destruct (nth_error st k) as [nd|] eqn:En; [|discriminate].
    destruct ((k <? j)%nat && (j <? length st)%nat && (length (n_refs nd) <? 4)%nat) eqn:Ec; [|discriminate].
    injection E as <-. apply andb_true_iff in Ec. destruct Ec as (Ec & E4).
    apply andb_true_iff in Ec. destruct Ec as (Ekj & Ej).
    apply Nat.ltb_lt in Ekj, Ej, E4.
    pose proof (dag_wf_nth _ _ 0 _ _ Hwf En) as (Hb & Hr & Hf).
    pose proof (nth_error_Forall _ _ _ _ Hok En) as Hnd.
    split.
    + apply dag_wf_from_set_nth; [exact Hwf|]. unfold node_wf, with_nrefs. cbn [n_bits n_refs].
      rewrite app_length. cbn [length]. split; [exact Hb|]. split; [lia|].
      apply Forall_app. split; [exact Hf|]. constructor; [cbn; lia|constructor].
    + apply Forall_set_nth; [exact Hok|]. exact Hnd.
  - destruct (nth_error st k) as [nd|] eqn:En; [|discriminate].
    destruct (mask <? 8)%N eqn:Em; [|discriminate]. apply N.ltb_lt in Em.
    pose proof (dag_wf_nth _ _ 0 _ _ Hwf En) as Hnw.
    destruct special.
    + destruct ((8 <=? length (n_bits nd))%nat && negb (first_byte (n_bits nd) =? 0)%N) eqn:Ec; [|discriminate].
      injection E as <-. apply andb_true_iff in Ec. destruct Ec as (E8 & Enz).
      apply Nat.leb_le in E8. apply negb_true_iff, N.eqb_neq in Enz.
      split.
      * apply dag_wf_from_set_nth; [exact Hwf|exact Hnw].
      * apply Forall_set_nth; [exact Hok|]. unfold node_ok, with_type. cbn [n_mask n_special n_type n_bits].
        split; [exact Em|]. split; [exact E8|]. split; [reflexivity|exact Enz].
    + injection E as <-. split.
      * apply dag_wf_from_set_nth; [exact Hwf|exact Hnw].
      * apply Forall_set_nth; [exact Hok|]. unfold node_ok, with_type. cbn [n_mask n_special n_type n_bits].
        split; [exact Em|reflexivity].
  - injection E as <-. split; [exact Hwf|exact Hok].
Qed.

Lemma repeat_empty_wf n : forall K i, dag_wf_from n i (repeat empty_cell K).
Proof.
  induction K as [|K IH]; intros i; [exact I|]. cbn [repeat dag_wf_from]. split; [|apply IH].
  unfold node_wf, empty_cell. cbn [n_bits n_refs length]. split; [lia|]. split; [lia|constructor].
Qed.

Lemma hist_init_wf K : hist_wf (hist_init K).
Proof.
  split; [apply repeat_empty_wf|]. unfold hist_init. apply Forall_forall. intros x Hx.
  apply repeat_spec in Hx. subst x. unfold node_ok, empty_cell. cbn [n_mask n_special n_type].
  split; [lia|reflexivity].
Qed.

Lemma hist_init_length K : length (hist_init K) = K.
Proof. apply repeat_length. Qed.

Lemma hist_state_wf : forall steps st s, hist_wf st -> hist_state st steps = Some s ->
  hist_wf s /\ length s = length st.
Proof.
  induction steps as [|x t IH]; intros st s Hwf E; cbn [hist_state] in E.
  - injection E as <-. split; [exact Hwf|reflexivity].
  - destruct (hist_mutate st x) as [st'|] eqn:Em; [|discriminate].
    destruct (IH _ _ (hist_mutate_wf _ _ _ Hwf Em) E) as (A & B). split; [exact A|].
    rewrite B. apply (hist_mutate_length _ _ _ Em).
Qed.

(** ** the answers *)
Section Run.
Variable hf : list node -> list (res bytes).

Lemma hist_state_app : forall h1 h2 st s, hist_state st h1 = Some s ->
  hist_state st (h1 ++ h2) = hist_state s h2.
Proof.
  induction h1 as [|x t IH]; intros h2 st s E; cbn [hist_state app] in *.
  - injection E as <-. reflexivity.
  - destruct (hist_mutate st x); [|discriminate]. apply IH. exact E.
Qed.

(* serialisations leave the array alone *)
Lemma hist_run_state : forall steps st stf outs,
  hist_run hf st steps = Some (stf, outs) -> hist_state st steps = Some stf.
Proof.
  induction steps as [|x t IH]; intros st stf outs E; cbn [hist_run hist_state] in *.
  - injection E as <- _. reflexivity.
  - destruct (request_ok st x); [|discriminate].
    destruct (hist_mutate st x) as [st'|]; [|discriminate].
    destruct (hist_run hf st' t) as [[sf o]|] eqn:Er; [|discriminate].
    rewrite (IH _ _ _ Er). destruct x; injection E as <- _; reflexivity.
Qed.

(* what an entry of the answer list is *)
Definition answer_of (st : list node) (steps : list hstep) (o : list node * nat * res bytes) : Prop :=
  let '(s, k, r) := o in
  exists pre api idx crc cache h post,
    steps = pre ++ HSer api k idx crc cache h :: post /\
    hist_state st pre = Some s /\ (k < length s)%nat /\
    r = ser_request hf s api k idx crc cache.

Lemma hist_run_answers : forall steps st stf outs,
  hist_run hf st steps = Some (stf, outs) -> Forall (answer_of st steps) outs.
Proof.
  induction steps as [|x t IH]; intros st stf outs E; cbn [hist_run] in E.
  - injection E as _ <-. constructor.
  - destruct (request_ok st x) eqn:Eq; [|discriminate].
    destruct (hist_mutate st x) as [st'|] eqn:Em; [|discriminate].
    destruct (hist_run hf st' t) as [[sf o]|] eqn:Er; [|discriminate].
    assert (Hlift : Forall (answer_of st (x :: t)) o).
    { eapply Forall_impl; [|exact (IH _ _ _ Er)].
      intros [[s k] r] (pre & api & idx & crc & cache & h & post & -> & Hs & Hk & Hr).
      exists (x :: pre), api, idx, crc, cache, h, post. split; [reflexivity|].
      split; [cbn [hist_state]; rewrite Em; exact Hs|]. split; [exact Hk|exact Hr]. }
    destruct x as [k b|k j|k special mask|api k idx crc cache h]; injection E as _ <-; try exact Hlift.
    constructor; [|exact Hlift].
    exists [], api, idx, crc, cache, h, t. split; [reflexivity|]. split; [reflexivity|].
    cbn [request_ok] in Eq. apply andb_true_iff in Eq. destruct Eq as (_ & Ek).
    apply Nat.ltb_lt in Ek. split; [exact Ek|reflexivity].
Qed.

(* a request at the end of a history: its answer is the last one, and it is the
   serialiser on the array the builder operations of the history produce *)
Lemma hist_run_app_ser : forall h st api k idx crc cache hs stf outs,
  hist_run hf st (h ++ [HSer api k idx crc cache hs]) = Some (stf, outs) ->
  exists outs0, hist_state st h = Some stf /\
    outs = outs0 ++ [(stf, k, ser_request hf stf api k idx crc cache)].
Proof.
  induction h as [|x t IH]; intros st api k idx crc cache hs stf outs E; cbn [app hist_run] in E.
  - destruct (request_ok _ _); [|discriminate]. cbn [hist_mutate] in E.
    injection E as <- <-. exists []. split; reflexivity.
  - destruct (request_ok st x); [|discriminate].
    destruct (hist_mutate st x) as [st'|] eqn:Em; [|discriminate].
    destruct (hist_run hf st' (t ++ _)) as [[sf o]|] eqn:Er; [|discriminate].
    destruct (IH _ _ _ _ _ _ _ _ _ Er) as (outs0 & Hs & Ho).
    cbn [hist_state]. rewrite Em.
    destruct x as [k' b|k' j|k' special mask|api' k' idx' crc' cache' h']; injection E as <- <-;
      try (exists outs0; split; [exact Hs|exact Ho]).
    exists ((st, k', ser_request hf st api' k' idx' crc' cache') :: outs0). split; [exact Hs|].
    rewrite Ho. reflexivity.
Qed.

(** the answer to a request depends on the current array only: two histories
    (any builder operations, any earlier serialisations through any entry point
    and with any hasher) that leave the same array answer the same request
    with the same bytes — whatever hasher the request itself names *)
Theorem serialize_history_independent :
  forall st1 st2 h1 h2 s api k idx crc cache hs1 hs2 stf1 stf2 outs1 outs2 d,
  hist_state st1 h1 = Some s -> hist_state st2 h2 = Some s ->
  hist_run hf st1 (h1 ++ [HSer api k idx crc cache hs1]) = Some (stf1, outs1) ->
  hist_run hf st2 (h2 ++ [HSer api k idx crc cache hs2]) = Some (stf2, outs2) ->
  last outs1 d = (s, k, ser_request hf s api k idx crc cache) /\ last outs2 d = last outs1 d.
Proof.
  intros st1 st2 h1 h2 s api k idx crc cache hs1 hs2 stf1 stf2 outs1 outs2 d H1 H2 R1 R2.
  destruct (hist_run_app_ser _ _ _ _ _ _ _ _ _ _ R1) as (o1 & S1 & ->).
  destruct (hist_run_app_ser _ _ _ _ _ _ _ _ _ _ R2) as (o2 & S2 & ->).
  rewrite H1 in S1. injection S1 as <-. rewrite H2 in S2. injection S2 as <-.
  rewrite !last_last. split; reflexivity.
Qed.

End Run.

(** ** every answer of every history round-trips to the CURRENT structure *)
Theorem history_roundtrip (hf : list node -> list (res bytes)) K steps stf outs :
  (N.of_nat K < 2 ^ 24)%N ->
  hist_run hf (hist_init K) steps = Some (stf, outs) ->
  Forall (fun o => let '(s, k, r) := o in
    dag_wf s /\ Forall node_ok s /\ length s = K /\ (k < K)%nat /\
    forall bs, r = Ok bs -> hashes_real (hf s) -> collision_free s (hf s) [k] ->
    exists p r' t, parse_boc bs = Ok p /\ dag_wf (p_cells p) /\ p_roots p = [r'] /\
      unfold_at (length s) s k = Some t /\
      unfold_at (length (p_cells p)) (p_cells p) r' = Some t) outs.
Proof.
  intros HK E. eapply Forall_impl; [|exact (hist_run_answers hf _ _ _ _ E)].
  intros [[s k] r] (pre & api & idx & crc & cache & h & post & _ & Hs & Hk & Hr).
  destruct (hist_state_wf _ _ _ (hist_init_wf K) Hs) as ((Hwf & Hok) & Hlen).
  rewrite hist_init_length in Hlen.
  split; [exact Hwf|]. split; [exact Hok|]. split; [exact Hlen|]. split; [lia|].
  intros bs Hb Hreal Hcf. subst r. unfold ser_request in Hb.
  assert (Hex : exists i c ca, serialize s (hf s) [k] i c ca = Ok bs).
  { destruct (Nat.eqb api 0); eauto. }
  destruct Hex as (i & c & ca & Hser).
  assert (Hcnt : (N.of_nat (length s) < 2 ^ 24)%N) by (rewrite Hlen; exact HK).
  destruct (boc_roundtrip_model s (hf s) [k] Hwf Hok Hreal Hcnt ltac:(cbn; lia) Hcf i c ca bs Hser)
    as (p & st0 & m & rootpos & stf' & nl & Hp & _ & _ & _ & Hpwf & HF2).
  inversion HF2 as [|r' x lr lx (t & Ht1 & Ht2) Hrest Hl1 Hl2]; subst.
  inversion Hrest; subst.
  exists p, r', t. split; [exact Hp|]. split; [exact Hpwf|]. split; [symmetry; assumption|].
  split; [exact Ht1|exact Ht2].
Qed.
