(** The hand-written TL codecs (Model/TlHand.v) write the layout of the
    lite_api.tl declaration they stand for, and their readers invert them. *)
From Coq Require Import String List NArith PArith Arith Lia Bool.
From Tongo Require Import Lib.Bits Lib.Res Spec.TlWire Model.Tl Model.TlMatch Model.TlHand
     Proofs.TlWireP Proofs.TlGoP.
Import ListNotations.
Local Open Scope N_scope.
Local Open Scope string_scope.

Lemma tl_fuel_SS : exists k, tl_fuel = Datatypes.S (Datatypes.S k).
Proof. exists 62%nat. reflexivity. Qed.

Definition hash_ok (a : bytes) : Prop := length a = 32%nat /\ all_bytes a = true.
Lemma hash_ok_test a : hash_ok a -> Nat.eqb (length a) 32 && all_bytes a = true.
Proof. intros [-> ->]. reflexivity. Qed.

Section Layout.
  Variable sch : schema.
  Let nm := go_naming sch.

  Ltac open_bare Hf Hd :=
    rewrite tl_encode_eq; destruct tl_fuel_SS as (k & ->); cbn [enc]; rewrite Hf;
    change (blbl nm _) with ""; cbn [String.eqb]; rewrite Hd.

  Theorem hand_account_layout d w a :
    find_ctor sch "liteServer.accountId" = Some d -> dfields d = fields_account_id ->
    w < two32 -> hash_ok a ->
    tl_encode nm sch (TBare "liteServer.accountId") (val_account_id w a) = Some (hand_account_marshal w a).
  Proof.
    intros Hf Hd Hw Ha. unfold val_account_id. open_bare Hf Hd.
    apply N.ltb_lt in Hw. apply hash_ok_test in Ha.
    cbn. rewrite Hw, Ha. unfold hand_account_marshal. now rewrite app_nil_r.
  Qed.

  Theorem hand_block_id_layout d w sh sq :
    find_ctor sch "tonNode.blockId" = Some d -> dfields d = fields_block_id ->
    w < two32 -> sh < two64 -> sq < two32 ->
    tl_encode nm sch (TBare "tonNode.blockId") (val_block_id w sh sq) = Some (hand_blockid_marshal w sh sq).
  Proof.
    intros Hf Hd Hw Hsh Hsq. unfold val_block_id. open_bare Hf Hd.
    apply N.ltb_lt in Hw, Hsh, Hsq. cbn. rewrite Hw, Hsh, Hsq. reflexivity.
  Qed.

  Theorem hand_block_id_ext_layout d w sh sq rh fh :
    find_ctor sch "tonNode.blockIdExt" = Some d -> dfields d = fields_block_id_ext ->
    w < two32 -> sh < two64 -> sq < two32 -> hash_ok rh -> hash_ok fh ->
    tl_encode nm sch (TBare "tonNode.blockIdExt") (val_block_id_ext w sh sq rh fh)
      = Some (hand_blockidext_marshal w sh sq rh fh).
  Proof.
    intros Hf Hd Hw Hsh Hsq Hr Hfh. unfold val_block_id_ext. open_bare Hf Hd.
    apply N.ltb_lt in Hw, Hsh, Hsq. apply hash_ok_test in Hr, Hfh.
    cbn. rewrite Hw, Hsh, Hsq, Hr, Hfh. unfold hand_blockidext_marshal. cbn [le_bytes app].
    now rewrite app_nil_r.
  Qed.
End Layout.
Local Close Scope string_scope.

(** readers invert writers, whatever follows *)
Theorem hand_account_roundtrip w a rest : w < two32 -> length a = 32%nat ->
  hand_account_unmarshal (hand_account_marshal w a ++ rest) = Some (w, a, rest).
Proof.
  intros Hw Ha. unfold hand_account_unmarshal, hand_account_marshal. rewrite <- app_assoc.
  rewrite split_le. rewrite (split_at_len 32 a rest Ha).
  rewrite le_num_le_bytes_small by (rewrite pow256_4; exact Hw). reflexivity.
Qed.

Theorem hand_block_id_roundtrip w sh sq rest : w < two32 -> sh < two64 -> sq < two32 ->
  hand_blockid_unmarshal (hand_blockid_marshal w sh sq ++ rest) = Some (w, sh, sq, rest).
Proof.
  intros Hw Hsh Hsq. unfold hand_blockid_unmarshal, hand_blockid_marshal. rewrite <- !app_assoc.
  rewrite split_le, split_le, split_le.
  rewrite !le_num_le_bytes_small; try reflexivity;
    [rewrite pow256_4|rewrite pow256_8|rewrite pow256_4]; assumption.
Qed.

Lemma firstn_pre {A} n (p r : list A) : length p = n -> firstn n (p ++ r) = p.
Proof. intros <-. apply firstn_app_exact. Qed.
Lemma skipn_pre {A} n (p r : list A) : length p = n -> skipn n (p ++ r) = r.
Proof. intros <-. apply skipn_app_exact. Qed.

Theorem hand_block_id_ext_roundtrip w sh sq rh fh :
  w < two32 -> sh < two64 -> sq < two32 -> length rh = 32%nat -> length fh = 32%nat ->
  hand_blockidext_unmarshal (hand_blockidext_marshal w sh sq rh fh) = Some (w, sh, sq, rh, fh).
Proof.
  intros Hw Hsh Hsq Hr Hf. unfold hand_blockidext_unmarshal, hand_blockidext_marshal.
  pose proof (le_bytes_length 4 w) as LA. pose proof (le_bytes_length 8 sh) as LB.
  pose proof (le_bytes_length 4 sq) as LC.
  pose proof (le_num_le_bytes_small 4 w ltac:(rewrite pow256_4; exact Hw)) as NA.
  pose proof (le_num_le_bytes_small 8 sh ltac:(rewrite pow256_8; exact Hsh)) as NB.
  pose proof (le_num_le_bytes_small 4 sq ltac:(rewrite pow256_4; exact Hsq)) as NC.
  set (A := le_bytes 4 w) in *. set (B := le_bytes 8 sh) in *. set (C := le_bytes 4 sq) in *.
  clearbody A B C.
  assert (L80 : length (A ++ B ++ C ++ rh ++ fh) = 80%nat) by (rewrite !app_length; lia).
  rewrite L80. cbn [Nat.eqb].
  rewrite (firstn_pre 4 A _ LA), (skipn_pre 4 A _ LA), (firstn_pre 8 B _ LB).
  replace (A ++ B ++ C ++ rh ++ fh) with ((A ++ B) ++ C ++ rh ++ fh) by (now rewrite <- app_assoc).
  rewrite (skipn_pre 12 (A ++ B)) by (rewrite app_length; lia). rewrite (firstn_pre 4 C _ LC).
  replace ((A ++ B) ++ C ++ rh ++ fh) with ((A ++ B ++ C) ++ rh ++ fh) by (now rewrite <- !app_assoc).
  rewrite (skipn_pre 16 (A ++ B ++ C)) by (rewrite !app_length; lia). rewrite (firstn_pre 32 rh _ Hr).
  replace ((A ++ B ++ C) ++ rh ++ fh) with ((A ++ B ++ C ++ rh) ++ fh) by (now rewrite <- !app_assoc).
  rewrite (skipn_pre 48 (A ++ B ++ C ++ rh)) by (rewrite !app_length; lia).
  now rewrite NA, NB, NC.
Qed.

(** VmStack: the BOC travels as a TL byte string *)
Theorem hand_vmstack_layout boc e : all_bytes boc = true ->
  (hand_vmstack_frame boc = Ok e <-> enc schema_naming [] 1 TBytes (VBytes boc) = Some e).
Proof.
  intros Hb. unfold hand_vmstack_frame. cbn [enc]. rewrite Hb. cbn [andb].
  destruct (N.of_nat (length boc) <? two24); rewrite ?go_bytes_spec; split; intros H; inversion H; reflexivity.
Qed.

Theorem hand_vmstack_roundtrip boc e rest : hand_vmstack_frame boc = Ok e ->
  exists s, hand_vmstack_unframe (e ++ rest) = (Ok boc, s) /\ inp s = rest.
Proof.
  unfold hand_vmstack_frame, hand_vmstack_unframe.
  destruct (N.ltb_spec (N.of_nat (length boc)) two24) as [Hl|]; [|discriminate].
  intros H; inversion H; subst e. rewrite go_bytes_spec.
  destruct (read_byte_slice_refines _ _ _ (dec_enc_bytes boc rest Hl) 0 0) as (a & p & E).
  unfold st0. rewrite E. eexists; split; reflexivity.
Qed.
