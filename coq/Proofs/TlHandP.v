(** The hand-written TL codecs (Model/TlHand.v) write the layout of the
    lite_api.tl declaration they stand for, and their readers invert them. *)
From Coq Require Import String List NArith PArith Arith Lia Bool.
From Tongo Require Import Lib.Bits Lib.Res Spec.TlWire Model.Tl Model.TlMatch Model.TlHand
     Proofs.TlWireP Proofs.TlGoP.
Import ListNotations.
Local Open Scope N_scope.
Local Open Scope string_scope.

Lemma tl_fuel_SS : exists k, tl_fuel = Datatypes.S (Datatypes.S k).
Proof. exists 62%nat. reflexivity. Qed.

Definition hash_ok (a : bytes) : Prop := length a = 32%nat /\ all_bytes a = true.
Lemma hash_ok_test a : hash_ok a -> Nat.eqb (length a) 32 && all_bytes a = true.
Proof. intros [-> ->]. reflexivity. Qed.

Section Layout.
  Variable sch : schema.
  Let nm := go_naming sch.

  Ltac open_bare Hf Hd :=
    rewrite tl_encode_eq; destruct tl_fuel_SS as (k & ->); cbn [enc]; rewrite Hf;
    change (blbl nm _) with ""; cbn [String.eqb]; rewrite Hd.

  Theorem hand_account_layout d w a :
    find_ctor sch "liteServer.accountId" = Some d -> dfields d = fields_account_id ->
    w < two32 -> hash_ok a ->
    tl_encode nm sch (TBare "liteServer.accountId") (val_account_id w a) = Some (hand_account_marshal w a).
  Proof.
    intros Hf Hd Hw Ha. unfold val_account_id. open_bare Hf Hd.
    apply N.ltb_lt in Hw. apply hash_ok_test in Ha.
    cbn. rewrite Hw, Ha. unfold hand_account_marshal. now rewrite app_nil_r.
  Qed.

  Theorem hand_block_id_layout d w sh sq :
    find_ctor sch "tonNode.blockId" = Some d -> dfields d = fields_block_id ->
    w < two32 -> sh < two64 -> sq < two32 ->
    tl_encode nm sch (TBare "tonNode.blockId") (val_block_id w sh sq) = Some (hand_blockid_marshal w sh sq).
  Proof.
    intros Hf Hd Hw Hsh Hsq. unfold val_block_id. open_bare Hf Hd.
    apply N.ltb_lt in Hw, Hsh, Hsq. cbn. rewrite Hw, Hsh, Hsq. reflexivity.
  Qed.

  Theorem hand_block_id_ext_layout d w sh sq rh fh :
    find_ctor sch "tonNode.blockIdExt" = Some d -> dfields d = fields_block_id_ext ->
    w < two32 -> sh < two64 -> sq < two32 -> hash_ok rh -> hash_ok fh ->
    tl_encode nm sch (TBare "tonNode.blockIdExt") (val_block_id_ext w sh sq rh fh)
      = Some (hand_blockidext_marshal w sh sq rh fh).
  Proof.
    intros Hf Hd Hw Hsh Hsq Hr Hfh. unfold val_block_id_ext. open_bare Hf Hd.
    apply N.ltb_lt in Hw, Hsh, Hsq. apply hash_ok_test in Hr, Hfh.
    cbn. rewrite Hw, Hsh, Hsq, Hr, Hfh. unfold hand_blockidext_marshal. cbn [le_bytes app].
    now rewrite app_nil_r.
  Qed.
End Layout.
Local Close Scope string_scope.

(** readers invert writers, whatever follows *)
Theorem hand_account_roundtrip w a rest : w < two32 -> length a = 32%nat ->
  hand_account_unmarshal (hand_account_marshal w a ++ rest) = Some (w, a, rest).
Proof.
  intros Hw Ha. unfold hand_account_unmarshal, hand_account_marshal. rewrite <- app_assoc.
  rewrite split_le. rewrite (split_at_len 32 a rest Ha).
  rewrite le_num_le_bytes_small by (rewrite pow256_4; exact Hw). reflexivity.
Qed.

Theorem hand_block_id_roundtrip w sh sq rest : w < two32 -> sh < two64 -> sq < two32 ->
  hand_blockid_unmarshal (hand_blockid_marshal w sh sq ++ rest) = Some (w, sh, sq, rest).
Proof.
  intros Hw Hsh Hsq. unfold hand_blockid_unmarshal, hand_blockid_marshal. rewrite <- !app_assoc.
  rewrite split_le, split_le, split_le.
  rewrite !le_num_le_bytes_small; try reflexivity;
    [rewrite pow256_4|rewrite pow256_8|rewrite pow256_4]; assumption.
Qed.

Lemma firstn_pre {A} n (p r : list A) : length p = n -> firstn n (p ++ r) = p.
Proof. intros <-. apply firstn_app_exact. Qed.
Lemma skipn_pre {A} n (p r : list A) : length p = n -> skipn n (p ++ r) = r.
Proof. intros <-. apply skipn_app_exact. Qed.

Theorem hand_block_id_ext_roundtrip w sh sq rh fh :
  w < two32 -> sh < two64 -> sq < two32 -> length rh = 32%nat -> length fh = 32%nat ->
  hand_blockidext_unmarshal (hand_blockidext_marshal w sh sq rh fh) = Some (w, sh, sq, rh, fh).
Proof.
  intros Hw Hsh Hsq Hr Hf. unfold hand_blockidext_unmarshal, hand_blockidext_marshal.
  pose proof (le_bytes_length 4 w) as LA. pose proof (le_bytes_length 8 sh) as LB.
  pose proof (le_bytes_length 4 sq) as LC.
  pose proof (le_num_le_bytes_small 4 w ltac:(rewrite pow256_4; exact Hw)) as NA.
  pose proof (le_num_le_bytes_small 8 sh ltac:(rewrite pow256_8; exact Hsh)) as NB.
  pose proof (le_num_le_bytes_small 4 sq ltac:(rewrite pow256_4; exact Hsq)) as NC.
  set (A := le_bytes 4 w) in *. set (B := le_bytes 8 sh) in *. set (C := le_bytes 4 sq) in *.
  clearbody A B C.
  assert (L80 : length (A ++ B ++ C ++ rh ++ fh) = 80%nat) by (rewrite !app_length; lia).
  rewrite L80. cbn [Nat.eqb].
  rewrite (firstn_pre 4 A _ LA), (skipn_pre 4 A _ LA), (firstn_pre 8 B _ LB).
  replace (A ++ B ++ C ++ rh ++ fh) with ((A ++ B) ++ C ++ rh ++ fh) by (now rewrite <- app_assoc).
  rewrite (skipn_pre 12 (A ++ B)) by (rewrite app_length; lia). rewrite (firstn_pre 4 C _ LC).
  replace ((A ++ B) ++ C ++ rh ++ fh) with ((A ++ B ++ C) ++ rh ++ fh) by (now rewrite <- !app_assoc).
  rewrite (skipn_pre 16 (A ++ B ++ C)) by (rewrite !app_length; lia). rewrite (firstn_pre 32 rh _ Hr).
  replace ((A ++ B ++ C) ++ rh ++ fh) with ((A ++ B ++ C ++ rh) ++ fh) by (now rewrite <- !app_assoc).
  rewrite (skipn_pre 48 (A ++ B ++ C ++ rh)) by (rewrite !app_length; lia).
  now rewrite NA, NB, NC.
Qed.

(** VmStack: the BOC travels as a TL byte string *)
Theorem hand_vmstack_layout boc e : all_bytes boc = true ->
  (hand_vmstack_frame boc = Ok e <-> enc schema_naming [] 1 TBytes (VBytes boc) = Some e).
Proof.
  intros Hb. unfold hand_vmstack_frame. cbn [enc]. rewrite Hb. cbn [andb].
  destruct (N.of_nat (length boc) <? two24); rewrite ?go_bytes_spec; split; intros H; inversion H; reflexivity.
Qed.

Theorem hand_vmstack_roundtrip boc e rest : hand_vmstack_frame boc = Ok e ->
  exists s, hand_vmstack_unframe (e ++ rest) = (Ok boc, s) /\ inp s = rest.
Proof.
  unfold hand_vmstack_frame, hand_vmstack_unframe.
  destruct (N.ltb_spec (N.of_nat (length boc)) two24) as [Hl|]; [|discriminate].
  intros H; inversion H; subst e. rewrite go_bytes_spec.
  destruct (read_byte_slice_refines _ _ _ (dec_enc_bytes boc rest Hl) 0 0) as (a & p & E).
  unfold st0. rewrite E. eexists; split; reflexivity.
Qed.

(** * liteclient's private length prefix / alignment copies and query frames *)
Lemma lc_encode_length_spec n : lc_encode_length n = bytes_header n.
Proof. exact (go_encode_length_spec n). Qed.

Lemma lc_align_spec b : lc_align b = go_zero_padding b.
Proof. reflexivity. Qed.

(* the 0xfe form is used exactly from 254 on: the boundary a copy can get wrong *)
Lemma lc_encode_length_boundary :
  lc_encode_length 253 = [253] /\ lc_encode_length 254 = [254; 254; 0; 0] /\
  lc_encode_length 255 = [254; 255; 0; 0].
Proof. repeat split; reflexivity. Qed.

Lemma le_bytes3_split n r : firstn 3 (le_bytes 3 n ++ r) = le_bytes 3 n /\ skipn 3 (le_bytes 3 n ++ r) = r.
Proof. split; reflexivity. Qed.

Theorem lc_decode_length_roundtrip n rest : n < two24 ->
  lc_decode_length (bytes_header n ++ rest) = Ok (n, rest).
Proof.
  intros Hn. unfold bytes_header, lc_decode_length.
  destruct (N.ltb_spec n 254) as [Hs|Hl]; cbn [app].
  - destruct (N.eqb_spec n 255) as [E|_]; [lia|]. apply N.ltb_lt in Hs. now rewrite Hs.
  - change (254 =? 255) with false. change (254 <? 254) with false. cbv iota.
    change (short 4 (254 :: le_bytes 3 n ++ rest)) with false. cbv iota.
    destruct (le_bytes3_split n rest) as [-> ->].
    rewrite le_num_le_bytes_small by (rewrite pow256_3; exact Hn). reflexivity.
Qed.

Lemma pad_prefix (p b : bytes) : N.of_nat (length p) mod 4 = 0 ->
  go_zero_padding (p ++ b) = p ++ go_zero_padding b.
Proof.
  intros Hp. unfold go_zero_padding. rewrite app_length, Nat2N.inj_add.
  rewrite N.add_mod by lia. rewrite Hp, N.add_0_l, N.mod_mod by lia.
  destruct (N.of_nat (length b) mod 4 =? 0); [reflexivity|]. now rewrite app_assoc.
Qed.

Theorem lc_request_layout id q : length id = 32%nat ->
  lc_request_payload id q = le_bytes 4 magic_adnl_query ++ id ++ enc_bytes q.
Proof.
  intros Hid. unfold lc_request_payload. rewrite lc_align_spec, lc_encode_length_spec.
  rewrite <- go_bytes_spec. unfold go_bytes. rewrite go_encode_length_spec.
  rewrite (app_assoc (le_bytes 4 magic_adnl_query) id). rewrite pad_prefix; [now rewrite <- app_assoc|].
  rewrite app_length, le_bytes_length, Hid. reflexivity.
Qed.

Theorem lc_ls_query_layout q : lc_ls_query q = le_bytes 4 magic_ls_query ++ enc_bytes q.
Proof.
  unfold lc_ls_query. rewrite lc_align_spec, <- go_bytes_spec. unfold go_bytes.
  apply pad_prefix. reflexivity.
Qed.

Theorem lc_answer_roundtrip id resp : length id = 32%nat -> N.of_nat (length resp) < two24 ->
  lc_process_answer (le_bytes 4 magic_adnl_answer ++ id ++ enc_bytes resp) = Ok resp.
Proof.
  intros Hid Hl. unfold lc_process_answer.
  assert (Hlen : (37 <= length (le_bytes 4 magic_adnl_answer ++ id ++ enc_bytes resp))%nat).
  { rewrite !app_length, le_bytes_length, Hid. pose proof (enc_bytes_length resp) as H. cbv zeta in H.
    destruct (N.of_nat (length resp) <? 254); lia. }
  rewrite short_spec. destruct (Nat.ltb_spec (length (le_bytes 4 magic_adnl_answer ++ id ++ enc_bytes resp)) 37); [lia|].
  rewrite (app_assoc _ id). rewrite (skipn_pre 36) by (rewrite app_length, le_bytes_length, Hid; reflexivity).
  unfold enc_bytes. rewrite lc_decode_length_roundtrip by exact Hl. cbn [bind].
  rewrite shortN_spec, app_length, Nat2N.inj_add.
  destruct (N.ltb_spec (N.of_nat (length resp) + N.of_nat (length (repeat 0 (pad_of (N.of_nat (length (bytes_header (N.of_nat (length resp)))) + N.of_nat (length resp))))))
                       (N.of_nat (length resp))); [lia|].
  rewrite Nat2N.id. now rewrite firstn_app_exact.
Qed.

(* Request's payload is the boxed adnl.Message constructor adnl.message.query of the schema *)
Theorem lc_request_is_adnl_query sch d id q :
  find (fun d => String.eqb "AdnlMessageQuery" (xlbl (go_naming sch) d)) (ctors_of sch "adnl.Message") = Some d ->
  did d = magic_adnl_query -> dfields d = fields_adnl_query ->
  hash_ok id -> all_bytes q = true -> N.of_nat (length q) < two24 ->
  tl_encode (go_naming sch) sch (TBoxed "adnl.Message") (val_adnl_query id q) = Some (lc_request_payload id q).
Proof.
  intros Hf Hid Hd Hi Hq Hl. rewrite lc_request_layout by apply Hi.
  rewrite tl_encode_eq. destruct tl_fuel_SS as (k & ->). unfold val_adnl_query. cbn [enc].
  rewrite Hf, Hid, Hd. apply hash_ok_test in Hi. apply N.ltb_lt in Hl.
  cbn. rewrite Hi, Hq, Hl. cbn. now rewrite app_nil_r.
Qed.

(** * Bool: the decoder accepts exactly the two constructor ids *)
Theorem go_bool_exact B bs v :
  fst (go_unmarshal B GBool bs) = Ok v <->
  exists w r, split_at 4 bs = Some (w, r) /\
    ((le_num w = bool_true_id /\ v = VBool true) \/ (le_num w = bool_false_id /\ v = VBool false)).
Proof.
  unfold go_unmarshal, go_fuel. cbn [Nat.mul Nat.add gdec]. unfold mbind at 1. unfold make at 1.
  change (max_alloc <? 4 * 1) with false. cbv iota. unfold mbind, read_full, split_at, st0. cbn [inp alloc peak].
  generalize (firstn 4 bs) as w0. generalize (skipn 4 bs) as r0. intros r0 w0.
  destruct (short 4 bs).
  - cbn [fst]. split; [discriminate|]. intros (w & r & H & _). discriminate.
  - unfold bool_true_id, bool_false_id.
    destruct (N.eqb_spec (le_num w0) 2574415285) as [E1|E1]; cbn [fst mret].
    + split.
      * intros H; injection H as <-. exists w0, r0. split; [reflexivity|]. left. auto.
      * intros (w & r & H & [[Hw ->]|[Hw ->]]); injection H as <- <-; [reflexivity|]. rewrite Hw in E1. discriminate.
    + destruct (N.eqb_spec (le_num w0) 3162085175) as [E2|E2]; cbn [fst mret mfail].
      * split.
        -- intros H; injection H as <-. exists w0, r0. split; [reflexivity|]. right. auto.
        -- intros (w & r & H & [[Hw ->]|[Hw ->]]); injection H as <- <-; [congruence|reflexivity].
      * split; [discriminate|]. intros (w & r & H & [[Hw _]|[Hw _]]); injection H as <- <-; congruence.
Qed.

(** * a byte string whose data ends before its announced length is refused,
    on both sides of readN's threshold (no short read is ever accepted) *)
Lemma read_fullN_short n d a p : N.of_nat (length d) < n ->
  read_fullN n (mkst d a p) = (Err EEof, mkst [] a p).
Proof.
  intros H. unfold read_fullN. cbn [inp alloc peak]. rewrite shortN_spec.
  apply N.ltb_lt in H. now rewrite H.
Qed.

Theorem read_byte_slice_truncated n d a p : n < two24 -> N.of_nat (length d) < n ->
  fst (read_byte_slice (mkst (bytes_header n ++ d) a p)) = Err EEof.
Proof.
  intros Hn Hd. unfold bytes_header, read_byte_slice.
  destruct (N.ltb_spec n 254) as [Hs|Hl]; cbn [app].
  - unfold mbind at 1. unfold read_full at 1. cbn [inp alloc peak short firstn skipn].
    rewrite le_num_1. apply N.ltb_lt in Hs. rewrite Hs.
    unfold mbind at 1. unfold make. cbn [inp alloc peak].
    destruct (N.ltb_spec max_alloc (n * 1)) as [H|_]; [unfold max_alloc, two24 in *; lia|].
    unfold mbind at 1. rewrite read_fullN_short by exact Hd. reflexivity.
  - unfold mbind at 1. unfold read_full at 1. cbn [inp alloc peak short firstn skipn].
    rewrite le_num_1. change (254 <? 254) with false. change (254 =? 254) with true. cbv iota.
    unfold mbind at 1. unfold make at 1. cbn [inp alloc peak].
    change (max_alloc <? 4 * 1) with false. cbv iota.
    unfold mbind at 1. unfold read_full at 1. cbn [inp alloc peak].
    change (short 3 (le_bytes 3 n ++ d)) with false. cbv iota.
    destruct (le_bytes3_split n d) as [-> ->].
    rewrite le_num_le_bytes_small by (rewrite pow256_3; exact Hn).
    unfold mbind at 1.
    assert (Hm : exists a' p', (if n <=? max_prealloc then make n 1 else mret tt)
                   (mkst d (a + 4 * 1) (N.max p (4 * 1))) = (Ok tt, mkst d a' p')).
    { destruct (n <=? max_prealloc); [|eexists _, _; reflexivity].
      unfold make. cbn [inp alloc peak].
      destruct (N.ltb_spec max_alloc (n * 1)) as [H|_]; [unfold max_alloc, two24 in *; lia|].
      eexists _, _; reflexivity. }
    destruct Hm as (a' & p' & ->).
    unfold mbind at 1. rewrite read_fullN_short by exact Hd. reflexivity.
Qed.

(** * answers under a constructor id that is neither the error's nor the result's are refused *)
Theorem go_response_foreign B m resp : short 4 resp = false ->
  le_num (firstn 4 resp) <> m_err_id m -> ~ In (le_num (firstn 4 resp)) (m_resp_ids m) ->
  go_response B m resp = Err EInvalid.
Proof.
  intros Hs He Hr. unfold go_response. rewrite Hs.
  destruct (N.eqb_spec (le_num (firstn 4 resp)) (m_err_id m)) as [E|_]; [contradiction|].
  destruct (existsb (N.eqb (le_num (firstn 4 resp))) (m_resp_ids m)) eqn:Ex; [|reflexivity].
  apply existsb_exists in Ex as (x & Hin & Hx). apply N.eqb_eq in Hx. subst x. contradiction.
Qed.
