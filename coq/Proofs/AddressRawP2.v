(** Raw form with short hex: AccountIDFromRaw / ParseAccountID zero-fill on the
    left, whatever the length of the text — every hex length 0..64 after every
    workchain, so every total length (also 48, the length of the user-friendly
    form) is a legal raw text. *)
From Coq Require Import List NArith ZArith Arith Lia Bool.
From Tongo Require Import Lib.Bits Lib.Res Model.Address Proofs.Crc16P Proofs.Base64P Proofs.AddressRawP.
Import ListNotations.
Local Open Scope N_scope.

(* the raw text with the first [k] hex digits (all '0') left out *)
Definition print_raw_short (k : nat) (wc : Z) (addr : list N) : list N :=
  dec_Z wc ++ 58 :: skipn k (flat_map hex_byte addr).

Lemma zero_fill_short k h : length h = 64%nat -> (k <= 64)%nat -> firstn k h = repeat 48 k ->
  (if short 64 (skipn k h) then zero_fill 64 (skipn k h) else skipn k h) = h.
Proof.
  intros HL Hk Hz. rewrite short_spec, skipn_length, HL.
  destruct (Nat.ltb_spec (64 - k) 64) as [H|H].
  - unfold zero_fill. rewrite skipn_length, HL.
    replace (64 - (64 - k))%nat with k by lia. rewrite <- Hz. apply firstn_skipn.
  - assert (k = 0)%nat by lia. subst k. reflexivity.
Qed.

Lemma raw_short_roundtrip k wc addr :
  (- 2 ^ 31 <= wc < 2 ^ 31)%Z -> length addr = 32%nat -> bytes_ok addr -> (k <= 64)%nat ->
  firstn k (flat_map hex_byte addr) = repeat 48 k ->
  parse_raw (print_raw_short k wc addr) = Ok (wc, addr) /\
  parse_account (print_raw_short k wc addr) = Ok (wc, addr).
Proof.
  intros Hwc HL Ha Hk Hz.
  assert (HR : parse_raw (print_raw_short k wc addr) = Ok (wc, addr)).
  { unfold parse_raw, print_raw_short.
    rewrite split_colon_app by apply dec_Z_no_colon.
    rewrite zero_fill_short; [| rewrite hex_print_length, HL; reflexivity | exact Hk | exact Hz].
    rewrite parse_int_dec_Z by exact Hwc.
    rewrite hex_decode_print by exact Ha.
    assert (H32 : len_is 32 addr = true) by (apply len_is_spec; exact HL).
    rewrite H32. reflexivity. }
  split; [exact HR|]. unfold parse_account. rewrite HR. reflexivity.
Qed.

(* the total length of such a text: any workchain text length + 1 + (64 - k) *)
Lemma print_raw_short_length k wc addr : length addr = 32%nat -> (k <= 64)%nat ->
  length (print_raw_short k wc addr) = (length (dec_Z wc) + 1 + (64 - k))%nat.
Proof.
  intros HL Hk. unfold print_raw_short. rewrite app_length. cbn [length].
  rewrite skipn_length, hex_print_length, HL. lia.
Qed.
