(** C20 proofs, part 4: bit strings in Fift hex and message addresses. *)
From Coq Require Import List NArith ZArith Bool Lia Arith.
From Tongo Require Import Lib.Bits Lib.Res Model.BitString Model.BitStringD Model.JsonText Model.Json
  Proofs.Fift Proofs.BitStringW Proofs.BitStringR Proofs.BitStringD Proofs.JsonTextP Proofs.JsonValidP Proofs.JsonP.
Import ListNotations.
Local Open Scope N_scope.

(** * Fift hex at character level *)
Definition lt16 (ds : list N) : Prop := Forall (fun d => d < 16) ds.

Lemma nibble_lt l : (length l <= 4)%nat -> nibble l < 16.
Proof.
  intros H. unfold nibble. pose proof (N_of_bits_bound l) as Hb.
  assert (2 ^ N.of_nat (length l) <= 2 ^ 4) by (apply N.pow_le_mono_r; lia).
  change (2 ^ 4) with 16 in *. lia.
Qed.

Lemma nibbles_lt fuel : forall l, lt16 (nibbles fuel l).
Proof.
  induction fuel as [|f IH]; intros l; cbn [nibbles]; [constructor|].
  destruct l as [|b l']; [constructor|].
  constructor; [apply nibble_lt; rewrite firstn_length; lia|apply IH].
Qed.

Lemma to_fift_lt l : lt16 (fst (to_fift l)).
Proof. unfold to_fift. destruct (length l mod 4 =? 0)%nat; cbn [fst]; apply nibbles_lt. Qed.

Definition upper_check (d : N) : bool :=
  let c := hex_upper d in
  (c <? 128) && negb (c =? 95) && negb (c =? 58) && json_plain c
  && match hex_val (c mod 256) with Some x => x =? d | None => false end.

Lemma upper_check_all : forallb upper_check (map N.of_nat (seq 0 16)) = true.
Proof. vm_compute. reflexivity. Qed.

Lemma hex_upper_facts d : d < 16 ->
  hex_upper d < 128 /\ hex_upper d <> 95 /\ hex_upper d <> 58 /\ json_plain (hex_upper d) = true
  /\ hex_val (hex_upper d mod 256) = Some d.
Proof.
  intros H. pose proof (check_below 16 upper_check upper_check_all d H) as Hc.
  unfold upper_check in Hc. cbv zeta in Hc.
  repeat (apply andb_prop in Hc; destruct Hc as [Hc ?]).
  repeat match goal with
         | h : negb _ = true |- _ => apply negb_true_iff in h; apply N.eqb_neq in h
         | h : (_ <? _) = true |- _ => apply N.ltb_lt in h
         end.
  repeat split; try assumption.
  destruct (hex_val (hex_upper d mod 256)) as [x|]; [|discriminate].
  match goal with h : (x =? d) = true |- _ => apply N.eqb_eq in h; congruence end.
Qed.

Lemma upper_ascii ds : lt16 ds -> ascii (map hex_upper ds).
Proof.
  induction 1 as [|d ds Hd _ IH]; [constructor|]. cbn [map]. constructor; [|exact IH].
  apply hex_upper_facts. exact Hd.
Qed.

Lemma hex_digits_upper ds : lt16 ds -> hex_digits (runes (map hex_upper ds)) = Some ds.
Proof.
  intros H. rewrite (runes_ascii _ (upper_ascii ds H)).
  induction H as [|d ds Hd _ IH]; [reflexivity|]. cbn [map hex_digits].
  destruct (hex_upper_facts d Hd) as (_ & _ & _ & _ & ->). rewrite IH. reflexivity.
Qed.

Lemma ends_under_upper ds : lt16 ds -> ends_under (map hex_upper ds) = false.
Proof.
  intros H. unfold ends_under. rewrite <- map_rev.
  assert (Hr : lt16 (rev ds)) by (apply Forall_rev; exact H).
  destruct (rev ds) as [|d r]; [reflexivity|]. cbn [map]. inversion Hr as [|? ? Hd _]; subst.
  apply N.eqb_neq. apply hex_upper_facts. exact Hd.
Qed.

Lemma ends_under_snoc s : ends_under (s ++ [ch_under]) = true.
Proof. unfold ends_under. rewrite rev_app_distr. cbn [rev app]. apply N.eqb_refl. Qed.

Theorem fift_str_roundtrip l : from_fift_str (fift_chars l) = Ok l.
Proof.
  pose proof (fift_roundtrip l) as Hrt. pose proof (to_fift_lt l) as Hlt.
  unfold fift_chars. destruct (to_fift l) as [ds u]. cbn [fst] in Hlt. destruct u.
  - unfold from_fift in Hrt. destruct (rev ds) as [|last rest] eqn:Er; [discriminate|].
    destruct (strip_tag last) as [tail|] eqn:Et; [|discriminate]. injection Hrt as Hl.
    assert (Hr : lt16 (last :: rest)) by (rewrite <- Er; apply Forall_rev; exact Hlt).
    inversion Hr as [|? ? Hlast Hrest]; subst.
    unfold from_fift_str. rewrite ends_under_snoc.
    rewrite rev_app_distr. cbn [rev app]. rewrite <- map_rev, Er. cbn [map].
    unfold ref_suffix.
    destruct (hex_upper_facts last Hlast) as (Hasc & _ & _ & _ & Hv).
    rewrite N.mod_small in Hv by lia. rewrite Hv, Et.
    rewrite <- map_rev. rewrite hex_digits_upper by (apply Forall_rev; exact Hrest).
    reflexivity.
  - injection Hrt as Hl. rewrite app_nil_r. unfold from_fift_str.
    rewrite (ends_under_upper ds Hlt), (hex_digits_upper ds Hlt). rewrite Hl. reflexivity.
Qed.

Definition fift_char_ok (c : N) : Prop := c < 128 /\ c <> 58 /\ json_plain c = true.

Lemma fift_chars_ok l : Forall fift_char_ok (fift_chars l).
Proof.
  pose proof (to_fift_lt l) as Hlt. unfold fift_chars. destruct (to_fift l) as [ds u]. cbn [fst] in Hlt.
  apply Forall_app. split.
  - induction Hlt as [|d ds Hd _ IH]; [constructor|]. cbn [map]. constructor; [|exact IH].
    destruct (hex_upper_facts d Hd) as (H1 & _ & H3 & H4 & _). repeat split; assumption.
  - destruct u; [|constructor]. constructor; [|constructor]. unfold ch_under, fift_char_ok. split; [lia|split; [lia|reflexivity]].
Qed.

Lemma fift_chars_plain l : all_b json_plain (fift_chars l).
Proof. eapply Forall_impl; [|apply fift_chars_ok]. intros c (_ & _ & H). exact H. Qed.

Lemma nibbles_length k : forall l fuel,
  length l = (4 * k)%nat -> (k <= fuel)%nat -> length (nibbles fuel l) = k.
Proof.
  induction k as [|k IH]; intros l fuel Hl Hf.
  - destruct l; [|cbn in Hl; lia]. destruct fuel; reflexivity.
  - destruct fuel as [|fuel]; [lia|].
    destruct l as [|a0 [|a1 [|a2 [|a3 l']]]]; cbn [length] in Hl; try lia.
    cbn [nibbles firstn skipn length]. f_equal. apply IH; lia.
Qed.

(* 64 characters without a tag are exactly 256 bits *)
Lemma fift_chars_std_shape b :
  len_is 64 (fift_chars b) = true -> ends_under (fift_chars b) = false -> length b = 256%nat.
Proof.
  unfold fift_chars, to_fift.
  pose proof (Nat.div_mod (length b) 4 ltac:(lia)) as Hdm.
  destruct (Nat.eqb_spec (length b mod 4) 0) as [Hm|Hm].
  - rewrite app_nil_r. intros H _. apply len_is_spec in H. rewrite map_length in H.
    rewrite (nibbles_length (length b / 4)) in H by lia. lia.
  - intros _ H. rewrite ends_under_snoc in H. discriminate.
Qed.

Theorem bitstring_roundtrip l : parse_bitstring (print_bitstring l) = Ok l.
Proof.
  unfold parse_bitstring, print_bitstring.
  rewrite trim_quotes_of_quote by (apply plain_none_quote, fift_chars_plain).
  apply fift_str_roundtrip.
Qed.

(* the printed form depends only on the written bits: not on the capacity of
   the buffer, nor on what the buffer holds past the length *)
Theorem print_bitstring_bs_spec s : Inv s -> print_bitstring_bs s = Ok (print_bitstring (abs s)).
Proof.
  intros HI. unfold print_bitstring_bs. rewrite (to_fift_bs_spec s HI). cbn [bind].
  unfold print_bitstring, fift_chars. destruct (to_fift (abs s)) as [ds u]. reflexivity.
Qed.

Lemma written_bs_spec l free : Inv (written_bs l free) /\ abs (written_bs l free) = l.
Proof.
  unfold written_bs.
  destruct (write_bits_ok l (new_bs (length l + free)) (Inv_new _)) as (s' & E & Ha & HI & _).
  { cbn [len cap new_bs]. lia. }
  rewrite E. cbn [fst]. rewrite abs_new in Ha. split; [exact HI|exact Ha].
Qed.

(* a writer-built string prints and parses back the same whatever capacity its
   buffer was given *)
Theorem written_bitstring_roundtrip l free :
  print_bitstring_bs (written_bs l free) = Ok (print_bitstring l)
  /\ parse_bitstring (print_bitstring l) = Ok l.
Proof.
  destruct (written_bs_spec l free) as [HI Ha]. split.
  - rewrite (print_bitstring_bs_spec _ HI), Ha. reflexivity.
  - apply bitstring_roundtrip.
Qed.

(* the BitString returned by ReadBits -- stale source bits behind its length
   included -- prints as the text of exactly the bits read, and parses back *)
Theorem read_bitstring_roundtrip n s s' r :
  Inv s -> read_bits_bs n s = (s', Ok r) ->
  abs r = rd s n /\ print_bitstring_bs r = Ok (print_bitstring (rd s n))
  /\ parse_bitstring (print_bitstring (rd s n)) = Ok (rd s n).
Proof.
  intros HI E. pose proof (read_bits_bs_spec n s HI) as Hs.
  destruct (rcur s + n <=? len s)%nat.
  - destruct Hs as (r0 & E0 & Ha & HIr & _). rewrite E0 in E. injection E as _ <-.
    split; [exact Ha|]. split; [|apply bitstring_roundtrip].
    rewrite (print_bitstring_bs_spec r0 HIr), Ha. reflexivity.
  - rewrite Hs in E. discriminate.
Qed.

(* bits switched on behind the length do not show *)
Lemma set_ons_spec tail : forall pos s, Inv s -> (len s <= pos)%nat ->
  Inv (set_ons pos tail s) /\ abs (set_ons pos tail s) = abs s /\ len (set_ons pos tail s) = len s.
Proof.
  induction tail as [|b t IH]; intros pos s HI Hp; cbn [set_ons]; [auto|].
  destruct b; [|apply IH; [exact HI|lia]].
  pose proof (set_bit_spec pos true s HI) as Hs.
  destruct (pos <? cap s)%nat.
  - destruct Hs as (s1 & E & HI1 & Hl & _ & _ & Ha). rewrite E. cbn [fst].
    assert (Hf : (pos <? len s)%nat = false) by (apply Nat.ltb_ge; lia). rewrite Hf in Ha.
    destruct (IH (S pos) s1 HI1 ltac:(lia)) as (A & B & C). split; [exact A|split; congruence].
  - rewrite Hs. cbn [fst]. apply IH; [exact HI|lia].
Qed.

Theorem on_bitstring_roundtrip l tail :
  print_bitstring_bs (on_bs l tail) = Ok (print_bitstring l).
Proof.
  unfold on_bs.
  destruct (write_bits_ok l (new_bs (length l + length tail)) (Inv_new _)) as (s' & E & Ha & HI & Hl & _).
  { cbn [len cap new_bs]. lia. }
  rewrite E. cbn [fst]. rewrite abs_new in Ha. cbn [len new_bs] in Hl.
  destruct (set_ons_spec tail (length l) s' HI ltac:(lia)) as (A & B & _).
  rewrite (print_bitstring_bs_spec _ A), B, Ha. reflexivity.
Qed.

Lemma bitstring_shape l : json_number_or_plain_string (print_bitstring l).
Proof. right. exists (fift_chars l). split; [apply fift_chars_plain|reflexivity]. Qed.

(** * message addresses *)
Definition anycast_ok (a : anycast) : Prop :=
  match a with None => True | Some (d, p) => d < 2 ^ 32 /\ p < 2 ^ 32 end.

(* the values of the TL-B domain (address lengths up to 65535 bits are enough
   for the JSON form; TL-B allows 511) *)
Definition msgaddr_wf (a : msgaddr) : Prop :=
  match a with
  | AddrNone => True
  | AddrExtern _ => True
  | AddrStd any wc addr =>
      anycast_ok any /\ (-128 <= wc <= 127)%Z /\ length addr = 32%nat /\ bytes_ok addr
  | AddrVar any alen wc b =>
      anycast_ok any /\ alen = N.of_nat (length b) /\ alen < 65536 /\ (- 2 ^ 31 <= wc < 2 ^ 31)%Z
  end.

(* the property's excluded case: a variable-length address whose text is that
   of a standard one *)
Definition std_lookalike (a : msgaddr) : Prop :=
  match a with
  | AddrVar _ _ wc b => length b = 256%nat /\ (-128 <= wc <= 127)%Z
  | _ => False
  end.

Definition anycast_text (d p : N) : str := s_anycast ++ print_N d ++ 44 :: print_N p ++ [41].
Definition no_colon (s : str) : Prop := Forall (fun c => c <> 58) s.

Lemma digits_no_colon s : all_b is_digit s -> no_colon s.
Proof. apply Forall_impl. intros c H. apply is_digit_range in H. lia. Qed.

Lemma print_Z_no_colon z : no_colon (print_Z z).
Proof.
  eapply Forall_impl; [|apply print_Z_chars]. intros c H. apply orb_prop in H.
  destruct H as [H|H]; [apply is_digit_range in H; lia|apply N.eqb_eq in H; unfold ch_minus in H; lia].
Qed.

Lemma anycast_text_no_colon d p : no_colon (anycast_text d p).
Proof.
  unfold anycast_text, s_anycast. repeat (constructor; [lia|]).
  apply Forall_app. split; [apply digits_no_colon, print_N_digits|].
  constructor; [lia|]. apply Forall_app. split; [apply digits_no_colon, print_N_digits|].
  constructor; [lia|constructor].
Qed.

Lemma anycast_text_plain d p : all_b json_plain (anycast_text d p).
Proof.
  unfold anycast_text, s_anycast. repeat (constructor; [reflexivity|]).
  apply Forall_app. split; [apply print_N_plain|].
  constructor; [reflexivity|]. apply Forall_app. split; [apply print_N_plain|].
  constructor; [reflexivity|constructor].
Qed.

Lemma parse_anycast_text d p : d < 2 ^ 32 -> p < 2 ^ 32 ->
  parse_anycast (anycast_text d p) = Ok (d, p).
Proof.
  intros Hd Hp. unfold parse_anycast, anycast_text.
  replace (print_N d ++ 44 :: print_N p ++ [41]) with ((print_N d ++ 44 :: print_N p) ++ [41])
    by (rewrite <- app_assoc; reflexivity).
  set (inner := print_N d ++ 44 :: print_N p).
  assert (H1 : has_prefix_b s_anycast (s_anycast ++ inner ++ [41]) = true).
  { unfold has_prefix_b. rewrite has_prefix_app. reflexivity. }
  assert (H2 : has_suffix_b [41] (s_anycast ++ inner ++ [41]) = true).
  { unfold has_suffix_b, has_prefix_b. rewrite app_assoc, rev_app_distr. cbn [rev app has_prefix].
    rewrite N.eqb_refl. destruct (rev (s_anycast ++ inner)); reflexivity. }
  rewrite H1, H2. cbn [andb].
  pose proof (go_slice_mid s_anycast inner [41]) as Hg.
  change (length s_anycast) with 8%nat in Hg. change (length [41]) with 1%nat in Hg.
  rewrite Hg. cbn [bind]. apply sscanf_d_d_print; assumption.
Qed.

Lemma split_addr_text wc body any : no_colon body ->
  split_on ch_colon (print_Z wc ++ ch_colon :: body ++ print_anycast any) =
  print_Z wc :: body :: match any with None => [] | Some (d, p) => [anycast_text d p] end.
Proof.
  intros Hb. rewrite split_on_app by apply print_Z_no_colon. f_equal.
  destruct any as [[d p]|].
  - change (print_anycast (Some (d, p))) with (ch_colon :: anycast_text d p).
    rewrite split_on_app by exact Hb. f_equal.
    apply split_on_nosep. apply anycast_text_no_colon.
  - cbn [print_anycast]. rewrite app_nil_r. apply split_on_nosep. exact Hb.
Qed.

(* what the parser computes on  <wc>:<body>[:Anycast(d,p)] *)
Lemma parse_addr_text wc body any : no_colon body -> anycast_ok any ->
  parse_addr_value (print_Z wc ++ ch_colon :: body ++ print_anycast any) =
  (let is_int8 := match parse_int 32 (print_Z wc) with
                  | Ok n => (-128 <=? n)%Z && (n <=? 127)%Z
                  | _ => false
                  end in
   if len_is 64 body && is_int8 && negb (ends_under body) then
     match hex_decode body with
     | None => Err EInvalidHex
     | Some a => do w <- parse_int 8 (print_Z wc); Ok (AddrStd any w a)
     end
   else
     do b <- from_fift_str body;
     do w <- parse_int 32 (print_Z wc);
     Ok (AddrVar any (N.of_nat (length b) mod 65536) w b)).
Proof.
  intros Hb Ha. unfold parse_addr_value. rewrite (split_addr_text wc body any Hb).
  destruct any as [[d p]|].
  - destruct Ha as [Hd Hp]. rewrite (parse_anycast_text d p Hd Hp). reflexivity.
  - reflexivity.
Qed.

Lemma addr_text_plain wc body any : all_b json_plain body ->
  all_b json_plain (print_Z wc ++ ch_colon :: body ++ print_anycast any).
Proof.
  intros Hb. apply Forall_app. split; [apply print_Z_plain|]. constructor; [reflexivity|].
  apply Forall_app. split; [exact Hb|]. destruct any as [[d p]|]; [|constructor].
  change (print_anycast (Some (d, p))) with (ch_colon :: anycast_text d p).
  constructor; [reflexivity|apply anycast_text_plain].
Qed.

Lemma parse_msgaddr_quote value : value <> [] -> all_b json_plain value ->
  parse_msgaddr (quote value) = parse_addr_value value.
Proof.
  intros Hne Hp. unfold parse_msgaddr. rewrite trim_quotes_of_quote by (apply plain_none_quote; exact Hp).
  destruct value; [congruence|reflexivity].
Qed.

Lemma addr_text_nonempty wc rest : print_Z wc ++ ch_colon :: rest <> [].
Proof. intros H. apply app_eq_nil in H. destruct H; discriminate. Qed.

Lemma len_is_of_length {A} n (l : list A) : length l = n -> len_is n l = true.
Proof. intros <-. apply len_is_length. Qed.

Lemma ends_under_hex s : all_b is_hex_lower s -> ends_under s = false.
Proof.
  intros H. unfold ends_under. pose proof (all_b_rev _ _ H) as Hr.
  destruct (rev s) as [|c r]; [reflexivity|]. inversion Hr as [|? ? Hc _]; subst.
  unfold is_hex_lower, is_digit in Hc. apply N.eqb_neq. unfold ch_under.
  apply orb_prop in Hc. destruct Hc as [Hc|Hc]; apply andb_prop in Hc; destruct Hc as [H1 H2];
    apply N.leb_le in H1, H2; lia.
Qed.

Lemma hex_no_colon s : all_b is_hex_lower s -> no_colon s.
Proof.
  apply Forall_impl. intros c Hc. unfold is_hex_lower, is_digit in Hc.
  apply orb_prop in Hc. destruct Hc as [Hc|Hc]; apply andb_prop in Hc; destruct Hc as [H1 H2];
    apply N.leb_le in H1, H2; lia.
Qed.

Lemma fift_no_colon b : no_colon (fift_chars b).
Proof. eapply Forall_impl; [|apply fift_chars_ok]. intros c (_ & H & _). exact H. Qed.

Lemma fift_chars_nonempty b : b <> [] -> fift_chars b <> [].
Proof.
  intros Hb E. pose proof (fift_str_roundtrip b) as H. rewrite E in H.
  change (from_fift_str []) with (@Ok bits []) in H. congruence.
Qed.

Lemma pow_31 : (2 ^ 31 = 2147483648)%Z. Proof. reflexivity. Qed.

Theorem msgaddr_roundtrip a :
  msgaddr_wf a -> ~ std_lookalike a -> a <> AddrExtern [] ->
  parse_msgaddr (print_msgaddr a) = Ok a.
Proof.
  intros Hwf Hnl Hne. destruct a as [|b|any wc addr|any alen wc b]; cbn [print_msgaddr].
  - reflexivity.
  - assert (Hb : b <> []) by (intros ->; apply Hne; reflexivity).
    rewrite parse_msgaddr_quote; [|apply fift_chars_nonempty; exact Hb|apply fift_chars_plain].
    unfold parse_addr_value. rewrite (split_on_nosep ch_colon _ (fift_no_colon b)).
    rewrite fift_str_roundtrip. reflexivity.
  - destruct Hwf as (Hany & Hwc & Hlen & Hbytes).
    pose proof (print_hex_chars addr Hbytes) as Hch.
    rewrite parse_msgaddr_quote;
      [|apply addr_text_nonempty|apply addr_text_plain, print_hex_plain; exact Hbytes].
    rewrite parse_addr_text; [|apply hex_no_colon; exact Hch|exact Hany].
    cbv zeta.
    rewrite (parse_int_print 32 wc) by (try lia; change (2 ^ (32 - 1)) with 2147483648; lia).
    rewrite (len_is_of_length 64 (print_hex addr)) by (rewrite print_hex_length; lia).
    rewrite (ends_under_hex _ Hch).
    replace ((-128 <=? wc)%Z && (wc <=? 127)%Z) with true
      by (symmetry; apply andb_true_intro; split; apply Z.leb_le; lia).
    cbn [andb negb]. rewrite (hex_decode_print addr Hbytes).
    rewrite (parse_int_print 8 wc) by (try lia; change (2 ^ (8 - 1)) with 128; lia).
    reflexivity.
  - destruct Hwf as (Hany & Hal & Hlt & Hwc). rewrite pow_31 in Hwc.
    rewrite parse_msgaddr_quote;
      [|apply addr_text_nonempty|apply addr_text_plain, fift_chars_plain].
    rewrite parse_addr_text; [|apply fift_no_colon|exact Hany].
    cbv zeta.
    rewrite (parse_int_print 32 wc) by (try lia; change (2 ^ (32 - 1)) with 2147483648; lia).
    destruct (len_is 64 (fift_chars b) && ((-128 <=? wc)%Z && (wc <=? 127)%Z)
              && negb (ends_under (fift_chars b))) eqn:Ec.
    + exfalso. apply Hnl. cbn [std_lookalike].
      apply andb_prop in Ec. destruct Ec as [Ec H3]. apply andb_prop in Ec. destruct Ec as [H1 H2].
      apply negb_true_iff in H3. apply andb_prop in H2. destruct H2 as [H2a H2b].
      apply Z.leb_le in H2a, H2b. split; [apply fift_chars_std_shape; assumption|lia].
    + rewrite fift_str_roundtrip. cbn [bind]. f_equal. f_equal.
      rewrite <- Hal. apply N.mod_small. exact Hlt.
Qed.

(* F17: an external address of length 0 prints as the empty string, which is
   the text of addr_none *)
Lemma msgaddr_empty_extern_refuted :
  parse_msgaddr (print_msgaddr (AddrExtern [])) = Ok AddrNone /\ AddrExtern [] <> AddrNone.
Proof. split; [reflexivity|discriminate]. Qed.

(* the excluded case is a real ambiguity of the format *)
Lemma msgaddr_lookalike_refuted :
  let a := AddrVar None 256 0 (repeat false 256) in
  msgaddr_wf a /\ parse_msgaddr (print_msgaddr a) = Ok (AddrStd None 0 (repeat 0 32)).
Proof.
  cbv zeta. split; [|vm_compute; reflexivity].
  cbn [msgaddr_wf anycast_ok]. rewrite repeat_length. repeat split; try lia; reflexivity.
Qed.

Lemma msgaddr_shape a : msgaddr_wf a -> json_number_or_plain_string (print_msgaddr a).
Proof.
  intros Hwf. right. destruct a as [|b|any wc addr|any alen wc b]; cbn [print_msgaddr].
  - exists []. split; [constructor|reflexivity].
  - exists (fift_chars b). split; [apply fift_chars_plain|reflexivity].
  - destruct Hwf as (_ & _ & _ & Hbytes). eexists. split; [|reflexivity].
    apply addr_text_plain, print_hex_plain. exact Hbytes.
  - eexists. split; [|reflexivity]. apply addr_text_plain, fift_chars_plain.
Qed.

(** * totality *)
Lemma from_fift_str_total s : no_panic (from_fift_str s).
Proof. intros p. unfold from_fift_str. np_cases. Qed.

Lemma skip_space_total rs : no_panic (skip_space rs).
Proof.
  induction rs as [|r t IH]; intros p; cbn [skip_space]; [discriminate|].
  destruct (r =? 10); [discriminate|]. destruct (fmt_space r); [apply IH|discriminate].
Qed.

Lemma scan_uint32_total rs : no_panic (scan_uint32 rs).
Proof.
  unfold scan_uint32. apply no_panic_bind; [apply skip_space_total|].
  intros a p. np_cases.
Qed.

Lemma sscanf_d_d_total s : no_panic (sscanf_d_d s).
Proof.
  unfold sscanf_d_d. apply no_panic_bind; [apply scan_uint32_total|].
  intros [a rest]. destruct rest as [|c rest1]; [intros p; discriminate|].
  destruct (c =? 44) eqn:E.
  - apply N.eqb_eq in E. subst c. apply no_panic_bind; [apply scan_uint32_total|].
    intros [b r] p. discriminate.
  - intros p. destruct c as [|q]; [discriminate|].
    repeat (destruct q as [q|q|]; try discriminate).
Qed.

(* parts[2][8:len-1] is guarded by HasPrefix Anycast( and HasSuffix ) *)
Lemma parse_anycast_total p2 : no_panic (parse_anycast p2).
Proof.
  unfold parse_anycast.
  destruct (has_prefix_b s_anycast p2) eqn:E1; [|intros p; discriminate].
  destruct (has_suffix_b [41] p2) eqn:E2; [|intros p; discriminate]. cbn [andb].
  assert (Hlen : (8 <= length p2 - 1 <= length p2)%nat).
  { unfold has_prefix_b in E1. destruct (has_prefix s_anycast p2) as [r|] eqn:Ep; [|discriminate].
    apply has_prefix_length in Ep. subst p2. rewrite app_length. change (length s_anycast) with 8%nat.
    destruct r as [|c r]; [vm_compute in E2; discriminate|]. cbn [length]. lia. }
  destruct (go_slice_no_panic 8 (length p2 - 1) p2 Hlen) as [inner ->]. cbn [bind].
  apply sscanf_d_d_total.
Qed.

Lemma parse_addr_value_total v : no_panic (parse_addr_value v).
Proof.
  unfold parse_addr_value. destruct (split_on ch_colon v) as [|p0 [|p1 more]].
  - intros p; discriminate.
  - pose proof (from_fift_str_total v) as H. destruct (from_fift_str v) as [b|e|q]; cbn [res_map]; intros p; try discriminate.
    exfalso. exact (H q eq_refl).
  - apply no_panic_bind.
    + destruct more as [|p2 [|p3 m]]; try (intros p; discriminate).
      pose proof (parse_anycast_total p2) as H.
      destruct (parse_anycast p2) as [x|e|q]; cbn [res_map]; intros p; try discriminate.
      exfalso. exact (H q eq_refl).
    + intros any. cbv zeta.
      match goal with |- no_panic (if ?c then _ else _) => destruct c end.
      * destruct (hex_decode p1); [|intros p; discriminate].
        apply no_panic_bind; [apply parse_int_total|]. intros w p. discriminate.
      * apply no_panic_bind; [apply from_fift_str_total|]. intros b.
        apply no_panic_bind; [apply parse_int_total|]. intros w p. discriminate.
Qed.

Theorem parse_msgaddr_total s : no_panic (parse_msgaddr s).
Proof.
  unfold parse_msgaddr. destruct (trim_quotes s) as [|c t]; [intros p; discriminate|].
  apply parse_addr_value_total.
Qed.

Theorem parse_bitstring_total s : no_panic (parse_bitstring s).
Proof. apply from_fift_str_total. Qed.
