(** C01 — the cell re-ordering of the bag-of-cells serialiser (Model/BocSer.v:
    [revisit], [reorder]) is valid for every input.  Part 1: unfolding equations
    presenting the nested loops of [revisit] as top-level folds, the invariant
    of DESIGN.md (C01, bullet reorder_valid) and the single-step update lemmas. *)
From Coq Require Import List NArith ZArith Arith Bool Lia.
From Tongo Require Import Lib.Bits Lib.Res Model.BocParse Model.BocSer.
Import ListNotations.

(** *** the three loops of [revisit] as top-level fixpoints *)
Definition rvT := list cinfo -> list nat -> nat -> force -> res (list cinfo * list nat * Z).

Section Loops.
Variable rv : rvT.
Variable idx : nat.
Fixpoint ploop (rs : list nat) (st : list cinfo) (nl : list nat) : res (list cinfo * list nat) :=
  match rs with
  | [] => Ok (st, nl)
  | r :: t =>
      let special := Nat.eqb (ci_wt (get_ci st r)) 0 in
      do x <- rv st nl r (if special then Visit else Previsit);
      let '(st', nl', _) := x in ploop t st' nl'
  end.
Fixpoint vloop (rs : list nat) (st : list cinfo) (nl : list nat) : res (list cinfo * list nat) :=
  match rs with
  | [] => Ok (st, nl)
  | r :: t =>
      do x <- rv st nl r Visit;
      let '(st', nl', _) := x in vloop t st' nl'
  end.
Fixpoint aloop (js : list nat) (st : list cinfo) (nl : list nat) : res (list cinfo * list nat) :=
  match js with
  | [] => Ok (st, nl)
  | j :: t =>
      let r := nth j (ci_refs (get_ci st idx)) 0%nat in
      do x <- rv st nl r Allocate;
      let '(st', nl', k) := x in
      let me := get_ci st' idx in
      aloop t (set_ci st' idx (with_refs me (set_nth j (Z.to_nat k) (ci_refs me)))) nl'
  end.
End Loops.

Definition alloc1 (st : list cinfo) (nl : list nat) (idx : nat) : list cinfo * list nat * Z :=
  let dci := get_ci st idx in
  if (0 <=? ci_new dci)%Z then (st, nl, ci_new dci) else
  let k := Z.of_nat (length nl) in
  (set_ci st idx (with_new dci k), nl ++ [idx], k).

Lemma revisit_alloc fu st nl idx : revisit (S fu) st nl idx Allocate = Ok (alloc1 st nl idx).
Proof. cbn [revisit]. unfold alloc1. destruct (0 <=? ci_new (get_ci st idx))%Z; reflexivity. Qed.

Lemma revisit_previsit fu st nl idx :
  revisit (S fu) st nl idx Previsit =
  let dci := get_ci st idx in
  if (0 <=? ci_new dci)%Z then Ok (st, nl, ci_new dci) else
  if negb (Z.eqb (ci_new dci) (-1)) then Ok (st, nl, ci_new dci) else
  do y <- ploop (revisit fu) (rev (ci_refs dci)) st nl;
  let '(st', nl') := y in
  Ok (set_ci st' idx (with_new (get_ci st' idx) (-2)), nl', (-2)%Z).
Proof. reflexivity. Qed.

Lemma revisit_visit fu st nl idx :
  revisit (S fu) st nl idx Visit =
  let dci := get_ci st idx in
  if (0 <=? ci_new dci)%Z then Ok (st, nl, ci_new dci) else
  if Z.eqb (ci_new dci) (-3) then Ok (st, nl, (-3)%Z) else
  do x0 <- (if Nat.eqb (ci_wt dci) 0 then
              do x <- revisit fu st nl idx Previsit; let '(s, n, _) := x in Ok (s, n)
            else Ok (st, nl));
  let '(st0, nl0) := x0 in
  do y <- vloop (revisit fu) (rev (ci_refs (get_ci st0 idx))) st0 nl0;
  let '(st1, nl1) := y in
  do z <- aloop (revisit fu) idx (rev (seq 0 (length (ci_refs (get_ci st1 idx))))) st1 nl1;
  let '(st2, nl2) := z in
  Ok (set_ci st2 idx (with_new (get_ci st2 idx) (-3)), nl2, (-3)%Z).
Proof. reflexivity. Qed.

(** *** lists and cell arrays *)
Lemma nth_set_nth_eq {A} i (x d : A) l : i < length l -> nth i (set_nth i x l) d = x.
Proof.
  revert i; induction l as [|h t IH]; intros [|i] H; cbn in *; try lia; auto.
  apply IH. lia.
Qed.

Lemma nth_set_nth_neq {A} i j (x d : A) l : i <> j -> nth j (set_nth i x l) d = nth j l d.
Proof.
  revert i j; induction l as [|h t IH]; intros [|i] [|j] H; cbn; auto; try lia.
Qed.

Lemma set_nth_oob {A} i (x : A) l : length l <= i -> set_nth i x l = l.
Proof.
  revert i; induction l as [|h t IH]; intros [|i] H; cbn in *; auto; try lia.
  f_equal. apply IH. lia.
Qed.

Lemma get_set_eq st i c : i < length st -> get_ci (set_ci st i c) i = c.
Proof. apply nth_set_nth_eq. Qed.

Lemma get_set_neq st i j c : i <> j -> get_ci (set_ci st i c) j = get_ci st j.
Proof. apply nth_set_nth_neq. Qed.

Lemma set_ci_length st i c : length (set_ci st i c) = length st.
Proof. apply set_nth_length. Qed.

Definition nw (st : list cinfo) (i : nat) : Z := ci_new (get_ci st i).
Definition rf (st : list cinfo) (i : nat) : list nat := ci_refs (get_ci st i).
Definition newidx (st : list cinfo) (c : nat) : nat := Z.to_nat (nw st c).
Definition visited (z : Z) : Prop := (z = -3 \/ 0 <= z)%Z.

(* the fields [revisit] never touches *)
Definition static (c : cinfo) :=
  (ci_node c, ci_cache c, ci_wt c, ci_hashcount c, ci_root c, length (ci_refs c)).

Lemma nw_oob st i : length st <= i -> nw st i = (-1)%Z.
Proof. intros H. unfold nw, get_ci. rewrite nth_overflow by exact H. reflexivity. Qed.

Lemma nw_set_eq st i c : i < length st -> nw (set_ci st i c) i = ci_new c.
Proof. intros H. unfold nw. rewrite get_set_eq by exact H. reflexivity. Qed.

Lemma nw_set_neq st i j c : i <> j -> nw (set_ci st i c) j = nw st j.
Proof. intros H. unfold nw. rewrite get_set_neq by exact H. reflexivity. Qed.

Lemma rf_set_eq st i c : i < length st -> rf (set_ci st i c) i = ci_refs c.
Proof. intros H. unfold rf. rewrite get_set_eq by exact H. reflexivity. Qed.

Lemma rf_set_neq st i j c : i <> j -> rf (set_ci st i c) j = rf st j.
Proof. intros H. unfold rf. rewrite get_set_neq by exact H. reflexivity. Qed.

(** *** monotone evolution of the state: cells with index >= b untouched,
    visited cells stay visited, allocated cells keep their index, static
    fields (and the number of references) never change *)
Definition Step (b : nat) (st st' : list cinfo) : Prop :=
  (forall i, b <= i -> get_ci st' i = get_ci st i) /\
  (forall i, visited (nw st i) -> visited (nw st' i)) /\
  (forall i, (0 <= nw st i)%Z -> nw st' i = nw st i) /\
  (forall i, static (get_ci st' i) = static (get_ci st i)).

Lemma Step_refl b st : Step b st st.
Proof. repeat split; auto. Qed.

Lemma Step_trans b1 b2 b st1 st2 st3 :
  b1 <= b -> b2 <= b -> Step b1 st1 st2 -> Step b2 st2 st3 -> Step b st1 st3.
Proof.
  intros Hb1 Hb2 (F1 & V1 & A1 & S1) (F2 & V2 & A2 & S2).
  repeat split.
  - intros i Hi. rewrite F2, F1 by lia. reflexivity.
  - intros i Hi. auto.
  - intros i Hi. rewrite A2, A1; auto. rewrite A1; auto.
  - intros i. rewrite S2. apply S1.
Qed.

(* a single-cell update *)
Lemma Step_set st i c :
  (visited (nw st i) -> visited (ci_new c)) ->
  ((0 <= nw st i)%Z -> ci_new c = nw st i) ->
  static c = static (get_ci st i) ->
  Step (S i) st (set_ci st i c).
Proof.
  intros HV HA HS.
  assert (Hcases : forall j, (j = i /\ get_ci (set_ci st i c) j = c) \/
                             get_ci (set_ci st i c) j = get_ci st j).
  { intros j. destruct (Nat.eq_dec i j) as [->|Hne].
    - destruct (Nat.lt_ge_cases j (length st)) as [Hlt|Hge].
      + left. split; [reflexivity|]. apply get_set_eq. exact Hlt.
      + right. unfold set_ci. rewrite set_nth_oob by exact Hge. reflexivity.
    - right. apply get_set_neq. exact Hne. }
  repeat split.
  - intros j Hj. apply get_set_neq. lia.
  - intros j Hj. unfold nw in *. destruct (Hcases j) as [[-> E]|E]; rewrite E; auto.
  - intros j Hj. unfold nw in *. destruct (Hcases j) as [[-> E]|E]; rewrite E; auto.
  - intros j. destruct (Hcases j) as [[-> E]|E]; rewrite E; auto.
Qed.

(** *** the invariant (DESIGN.md, C01, reorder_valid: (a)-(d)) *)
Section Inv.
Variable n : nat.                       (* number of cells *)
Variable ch : nat -> list nat.          (* original children (old indices) *)
Hypothesis ch_lt : forall i c, In c (ch i) -> c < i.

(* per-cell part: (b) a visited cell has all children allocated and its
   references remapped, (c) an unvisited cell still holds the old indices,
   (d) an allocated cell has a larger new index than each child *)
Definition cellP (st : list cinfo) (i : nat) : Prop :=
  (visited (nw st i) ->
     rf st i = map (newidx st) (ch i) /\ forall c, In c (ch i) -> (0 <= nw st c)%Z) /\
  (~ visited (nw st i) -> rf st i = ch i) /\
  ((0 <= nw st i)%Z -> forall c, In c (ch i) -> (nw st c < nw st i)%Z).

(* global part: status classes and (a) newList is the inverse of newIndex *)
Definition base (st : list cinfo) (nl : list nat) : Prop :=
  length st = n /\
  (forall i, (nw st i = -1 \/ nw st i = -2 \/ nw st i = -3 \/ 0 <= nw st i)%Z) /\
  (forall k i, nth_error nl k = Some i <-> nw st i = Z.of_nat k).

(* [E] = cells whose per-cell part is suspended (the cell being visited while
   its references are rewritten one by one) *)
Definition InvE (E : nat -> Prop) (st : list cinfo) (nl : list nat) : Prop :=
  base st nl /\ forall i, ~ E i -> cellP st i.
Definition Inv := InvE (fun _ => False).

Lemma Inv_InvE E st nl : Inv st nl -> InvE E st nl.
Proof. intros [B C]. split; [exact B|]. intros i _. apply C. tauto. Qed.

Lemma base_alloc_lt st nl c : base st nl -> (0 <= nw st c)%Z -> (nw st c < Z.of_nat (length nl))%Z.
Proof.
  intros (_ & _ & NL) H0.
  assert (E : nth_error nl (Z.to_nat (nw st c)) = Some c) by (apply NL; lia).
  assert (Hlt : Z.to_nat (nw st c) < length nl) by (apply nth_error_Some; congruence).
  lia.
Qed.

Lemma base_alloc_in st nl c : base st nl -> (0 <= nw st c)%Z -> c < n.
Proof.
  intros (L & _ & _) H0.
  destruct (Nat.lt_ge_cases c n) as [Hlt|Hge]; [exact Hlt|].
  rewrite nw_oob in H0 by lia. lia.
Qed.

Lemma base_same_nw st st' nl :
  length st' = length st -> (forall i, nw st' i = nw st i) -> base st nl -> base st' nl.
Proof.
  intros HL HN (L & C & NL). repeat split.
  - congruence.
  - intros i. rewrite HN. apply C.
  - rewrite HN. apply NL.
  - rewrite HN. apply NL.
Qed.

Lemma cellP_stable st st' i :
  get_ci st' i = get_ci st i ->
  (forall c, (0 <= nw st c)%Z -> nw st' c = nw st c) ->
  cellP st i -> cellP st' i.
Proof.
  intros Hg Ha (P1 & P2 & P3).
  assert (Hn : nw st' i = nw st i) by (unfold nw; rewrite Hg; reflexivity).
  assert (Hr : rf st' i = rf st i) by (unfold rf; rewrite Hg; reflexivity).
  unfold cellP. rewrite Hn, Hr.
  split; [|split].
  - intros Hv. destruct (P1 Hv) as [E A]. split.
    + rewrite E. apply map_ext_in. intros c Hc. unfold newidx. rewrite Ha; auto.
    + intros c Hc. rewrite Ha; auto.
  - exact P2.
  - intros H0 c Hc.
    assert (Hv : visited (nw st i)) by (right; exact H0).
    destruct (P1 Hv) as [_ A]. rewrite Ha by auto. auto.
Qed.

(** allocation of a visited, not yet allocated cell *)
Lemma alloc_fresh E st nl r :
  InvE E st nl -> r < n -> nw st r = (-3)%Z ->
  let st' := set_ci st r (with_new (get_ci st r) (Z.of_nat (length nl))) in
  InvE E st' (nl ++ [r]) /\ Step (S r) st st' /\ nw st' r = Z.of_nat (length nl).
Proof.
  intros [B CP] Hr H3 st'.
  pose proof B as (L & C & NL).
  assert (Hself : nw st' r = Z.of_nat (length nl)).
  { unfold st'. rewrite nw_set_eq by lia. reflexivity. }
  assert (Hoth : forall j, j <> r -> nw st' j = nw st j).
  { intros j Hj. unfold st'. apply nw_set_neq. auto. }
  assert (Hst : forall c, (0 <= nw st c)%Z -> nw st' c = nw st c).
  { intros c Hc. apply Hoth. intros ->. lia. }
  assert (HS : Step (S r) st st').
  { apply Step_set; cbn [with_new ci_new].
    - intros _. right. lia.
    - fold (nw st r). lia.
    - reflexivity. }
  split; [|split; [exact HS|exact Hself]].
  split.
  - repeat split.
    + unfold st'. rewrite set_ci_length. exact L.
    + intros i. destruct (Nat.eq_dec i r) as [->|Hne].
      * rewrite Hself. lia.
      * rewrite Hoth by exact Hne. apply C.
    + intros Hk. destruct (Nat.lt_ge_cases k (length nl)) as [Hlt|Hge].
      * rewrite nth_error_app1 in Hk by exact Hlt.
        apply NL in Hk. rewrite Hst; lia.
      * rewrite nth_error_app2 in Hk by exact Hge.
        destruct (k - length nl) as [|d] eqn:Ed; cbn in Hk.
        -- injection Hk as <-. rewrite Hself. f_equal. lia.
        -- destruct d; discriminate.
    + intros Hk. destruct (Nat.eq_dec i r) as [->|Hne].
      * rewrite Hself in Hk. apply Nat2Z.inj in Hk. subst k.
        rewrite nth_error_app2, Nat.sub_diag by lia. reflexivity.
      * rewrite Hoth in Hk by exact Hne.
        apply NL in Hk.
        rewrite nth_error_app1; [exact Hk|]. apply nth_error_Some. congruence.
  - intros i HE. destruct (Nat.eq_dec i r) as [->|Hne].
    + destruct (CP r HE) as (P1 & _ & _).
      destruct P1 as [Er A]; [left; exact H3|].
      assert (Hrf : rf st' r = rf st r).
      { unfold st'. rewrite rf_set_eq by lia. reflexivity. }
      split; [|split].
      * intros _. split.
        -- rewrite Hrf, Er. apply map_ext_in. intros c Hc. unfold newidx. rewrite Hst; auto.
        -- intros c Hc. rewrite Hst; auto.
      * intros Hnv. exfalso. apply Hnv. right. rewrite Hself. lia.
      * intros _ c Hc. rewrite Hself, Hst by auto.
        apply base_alloc_lt; auto.
    + apply cellP_stable with (st := st); auto.
      unfold st'. apply get_set_neq. auto.
Qed.

Lemma alloc1_spec E st nl r :
  InvE E st nl -> r < n -> visited (nw st r) ->
  exists st' nl', alloc1 st nl r = (st', nl', nw st' r) /\
    InvE E st' nl' /\ Step (S r) st st' /\ (0 <= nw st' r)%Z.
Proof.
  intros HI Hr Hv. unfold alloc1. fold (nw st r).
  destruct (Z.leb_spec 0 (nw st r)) as [H0|H0].
  - exists st, nl. split; [reflexivity|]. split; [exact HI|]. split; [apply Step_refl|exact H0].
  - assert (H3 : nw st r = (-3)%Z) by (destruct Hv; lia).
    destruct (alloc_fresh E st nl r HI Hr H3) as (HI' & HS & Hk).
    eexists _, _. split; [|split; [exact HI'|split; [exact HS|]]].
    + rewrite Hk. reflexivity.
    + rewrite Hk. lia.
Qed.

(** marking a fresh cell as previsited *)
Lemma mark_previsited st nl x :
  Inv st nl -> x < n -> nw st x = (-1)%Z ->
  let st' := set_ci st x (with_new (get_ci st x) (-2)) in
  Inv st' nl /\ Step (S x) st st' /\ nw st' x = (-2)%Z.
Proof.
  intros [B CP] Hx H1 st'.
  pose proof B as (L & C & NL).
  assert (Hself : nw st' x = (-2)%Z).
  { unfold st'. rewrite nw_set_eq by lia. reflexivity. }
  assert (Hoth : forall j, j <> x -> nw st' j = nw st j).
  { intros j Hj. unfold st'. apply nw_set_neq. auto. }
  assert (Hst : forall c, (0 <= nw st c)%Z -> nw st' c = nw st c).
  { intros c Hc. apply Hoth. intros ->. lia. }
  assert (HS : Step (S x) st st').
  { apply Step_set; cbn [with_new ci_new]; fold (nw st x).
    - intros [H|H]; lia.
    - lia.
    - reflexivity. }
  split; [|split; [exact HS|exact Hself]].
  split.
  - repeat split.
    + unfold st'. rewrite set_ci_length. exact L.
    + intros i. destruct (Nat.eq_dec i x) as [->|Hne].
      * rewrite Hself. lia.
      * rewrite Hoth by exact Hne. apply C.
    + intros Hk. apply NL in Hk. rewrite Hst; lia.
    + intros Hk. apply NL. destruct (Nat.eq_dec i x) as [->|Hne].
      * rewrite Hself in Hk. lia.
      * rewrite <- Hoth; auto.
  - intros i HE. destruct (Nat.eq_dec i x) as [->|Hne].
    + destruct (CP x HE) as (_ & P2 & _).
      assert (Hrf : rf st' x = rf st x).
      { unfold st'. rewrite rf_set_eq by lia. reflexivity. }
      split; [|split].
      * rewrite Hself. intros [H|H]; lia.
      * intros _. rewrite Hrf. apply P2. rewrite H1. intros [H|H]; lia.
      * rewrite Hself. lia.
    + apply cellP_stable with (st := st); auto.
      unfold st'. apply get_set_neq. auto.
Qed.

(** *** the allocation loop of [visit x]: references j, j+1, ... of [x] are
    already remapped, references 0..j-1 still hold old indices *)
Definition AInv (x j : nat) (st : list cinfo) (nl : list nat) : Prop :=
  InvE (fun i => i = x) st nl /\
  ~ visited (nw st x) /\
  length (rf st x) = length (ch x) /\
  (forall p, p < j -> nth p (rf st x) 0 = nth p (ch x) 0) /\
  (forall p, j <= p < length (ch x) ->
     nth p (rf st x) 0 = newidx st (nth p (ch x) 0) /\ (0 <= nw st (nth p (ch x) 0%nat))%Z) /\
  (forall c, In c (ch x) -> visited (nw st c)).

Lemma AInv_start st nl x :
  Inv st nl -> ~ visited (nw st x) -> (forall c, In c (ch x) -> visited (nw st c)) ->
  AInv x (length (ch x)) st nl.
Proof.
  intros HI Hnv Hc.
  assert (Hrf : rf st x = ch x).
  { destruct HI as [_ CP]. destruct (CP x) as (_ & P2 & _); [tauto|]. apply P2. exact Hnv. }
  split; [apply Inv_InvE; exact HI|].
  split; [exact Hnv|]. split; [rewrite Hrf; reflexivity|].
  split; [intros p _; rewrite Hrf; reflexivity|].
  split; [intros p Hp; lia|exact Hc].
Qed.

Lemma AInv_alloc x j st nl r :
  AInv x j st nl -> x < n -> In r (ch x) ->
  exists st' nl', alloc1 st nl r = (st', nl', nw st' r) /\
    AInv x j st' nl' /\ Step (S r) st st' /\ (0 <= nw st' r)%Z.
Proof.
  intros (HI & Hnv & HL & Hlo & Hhi & Hc) Hx Hr.
  assert (Hrx : r < x) by (apply ch_lt; exact Hr).
  destruct (alloc1_spec _ st nl r HI) as (st' & nl' & Ea & HI' & HS & H0); [lia|auto|].
  exists st', nl'. split; [exact Ea|]. split; [|split; [exact HS|exact H0]].
  destruct HS as (F & V & A & _).
  assert (Hg : get_ci st' x = get_ci st x) by (apply F; lia).
  assert (Hn : nw st' x = nw st x) by (unfold nw; rewrite Hg; reflexivity).
  assert (Hf : rf st' x = rf st x) by (unfold rf; rewrite Hg; reflexivity).
  split; [exact HI'|]. rewrite Hn, Hf.
  split; [exact Hnv|]. split; [exact HL|]. split; [exact Hlo|].
  split; [|intros c Hcc; apply V; auto].
  intros p Hp. destruct (Hhi p Hp) as [E1 E2].
  unfold newidx. rewrite A by exact E2. split; [exact E1|exact E2].
Qed.

Lemma AInv_setref x j st nl :
  AInv x (S j) st nl -> x < n -> j < length (ch x) -> (0 <= nw st (nth j (ch x) 0%nat))%Z ->
  let st' := set_ci st x (with_refs (get_ci st x)
                            (set_nth j (newidx st (nth j (ch x) 0)) (rf st x))) in
  AInv x j st' nl /\ Step (S x) st st'.
Proof.
  intros ([B CP] & Hnv & HL & Hlo & Hhi & Hc) Hx Hj H0 st'.
  pose proof B as (L & _ & _).
  assert (Hnw : forall i, nw st' i = nw st i).
  { intros i. destruct (Nat.eq_dec i x) as [->|Hne].
    - unfold st'. rewrite nw_set_eq by lia. reflexivity.
    - unfold st'. apply nw_set_neq. auto. }
  assert (Hrf : rf st' x = set_nth j (newidx st (nth j (ch x) 0)) (rf st x)).
  { unfold st'. rewrite rf_set_eq by lia. reflexivity. }
  assert (Hni : forall c, newidx st' c = newidx st c).
  { intros c. unfold newidx. rewrite Hnw. reflexivity. }
  split.
  - split; [split|].
    + apply base_same_nw with (st := st); auto. unfold st'. apply set_ci_length.
    + intros i Hne. apply cellP_stable with (st := st); auto.
      unfold st'. apply get_set_neq. auto.
    + rewrite Hnw, Hrf, set_nth_length.
      split; [exact Hnv|]. split; [exact HL|]. split; [|split].
      * intros p Hp. rewrite nth_set_nth_neq by lia. apply Hlo. lia.
      * intros p Hp. rewrite Hni, Hnw.
        destruct (Nat.eq_dec p j) as [->|Hne].
        -- rewrite nth_set_nth_eq by lia. split; [reflexivity|exact H0].
        -- rewrite nth_set_nth_neq by lia. apply Hhi. lia.
      * intros c Hcc. rewrite Hnw. auto.
  - apply Step_set; cbn [with_refs ci_new]; auto.
    unfold static. cbn [with_refs ci_node ci_cache ci_wt ci_hashcount ci_root ci_refs].
    fold (rf st x). rewrite set_nth_length. reflexivity.
Qed.

Lemma AInv_finish x st nl :
  AInv x 0 st nl -> x < n ->
  let st' := set_ci st x (with_new (get_ci st x) (-3)) in
  Inv st' nl /\ Step (S x) st st' /\ nw st' x = (-3)%Z.
Proof.
  intros ([B CP] & Hnv & HL & _ & Hhi & _) Hx st'.
  pose proof B as (L & C & NL).
  assert (Hself : nw st' x = (-3)%Z).
  { unfold st'. rewrite nw_set_eq by lia. reflexivity. }
  assert (Hoth : forall j, j <> x -> nw st' j = nw st j).
  { intros j Hj. unfold st'. apply nw_set_neq. auto. }
  assert (Hst : forall c, (0 <= nw st c)%Z -> nw st' c = nw st c).
  { intros c Hc. apply Hoth. intros ->. apply Hnv. right. exact Hc. }
  assert (HS : Step (S x) st st').
  { apply Step_set; cbn [with_new ci_new]; fold (nw st x).
    - intros _. left. reflexivity.
    - intros H. exfalso. apply Hnv. right. exact H.
    - reflexivity. }
  split; [|split; [exact HS|exact Hself]].
  split.
  - repeat split.
    + unfold st'. rewrite set_ci_length. exact L.
    + intros i. destruct (Nat.eq_dec i x) as [->|Hne].
      * rewrite Hself. lia.
      * rewrite Hoth by exact Hne. apply C.
    + intros Hk. apply NL in Hk. rewrite Hst; lia.
    + intros Hk. apply NL. destruct (Nat.eq_dec i x) as [->|Hne].
      * rewrite Hself in Hk. lia.
      * rewrite <- Hoth; auto.
  - intros i _. destruct (Nat.eq_dec i x) as [->|Hne].
    + assert (Hrf : rf st' x = rf st x).
      { unfold st'. rewrite rf_set_eq by lia. reflexivity. }
      assert (Hch : forall c, In c (ch x) -> (0 <= nw st c)%Z).
      { intros c Hc. destruct (In_nth _ _ 0 Hc) as (p & Hp & <-). apply Hhi. lia. }
      split; [|split].
      * intros _. split.
        -- rewrite Hrf. apply nth_ext with (d := 0) (d' := newidx st' 0).
           ++ rewrite map_length. exact HL.
           ++ intros p Hp. rewrite HL in Hp. rewrite map_nth.
              destruct (Hhi p) as [E1 E2]; [lia|]. rewrite E1.
              unfold newidx. rewrite Hst; auto.
        -- intros c Hc. rewrite Hst; auto.
      * rewrite Hself. intros Hf. exfalso. apply Hf. left. reflexivity.
      * rewrite Hself. lia.
    + apply cellP_stable with (st := st); auto.
      unfold st'. apply get_set_neq. auto.
Qed.

Lemma aloop_spec (rv : rvT) x :
  (forall st nl r, rv st nl r Allocate = Ok (alloc1 st nl r)) -> x < n ->
  forall j st nl, j <= length (ch x) -> AInv x j st nl ->
  exists st' nl', aloop rv x (rev (seq 0 j)) st nl = Ok (st', nl') /\
    AInv x 0 st' nl' /\ Step (S x) st st'.
Proof.
  intros Hrv Hx. induction j as [|j IH]; intros st nl Hj HA.
  - exists st, nl. cbn. split; [reflexivity|]. split; [exact HA|apply Step_refl].
  - rewrite seq_S, rev_app_distr. cbn [rev app plus aloop].
    pose proof HA as (_ & _ & _ & Hlo & _ & _).
    fold (rf st x). rewrite Hlo by lia. rewrite Hrv.
    set (r := nth j (ch x) 0).
    assert (Hr : In r (ch x)) by (apply nth_In; lia).
    destruct (AInv_alloc x (S j) st nl r HA Hx Hr) as (st1 & nl1 & Ea & HA1 & HS1 & H0).
    rewrite Ea. cbn [bind]. fold (rf st1 x). fold (newidx st1 r).
    destruct (AInv_setref x j st1 nl1 HA1 Hx) as [HA2 HS2]; [lia|exact H0|].
    fold r in HA2, HS2.
    destruct (IH _ _ ltac:(lia) HA2) as (st3 & nl3 & E3 & HA3 & HS3).
    exists st3, nl3. split; [exact E3|]. split; [exact HA3|].
    assert (Hrx : r < x) by (apply ch_lt; exact Hr).
    refine (Step_trans (S x) (S x) (S x) _ _ _ _ _ _ HS3); [lia|lia|].
    refine (Step_trans (S r) (S x) (S x) _ _ _ _ _ HS1 HS2); lia.
Qed.

End Inv.
