(** C04/C03 core: (1) the encoder emits exactly the bits and references the
    declarative TL-B semantics prescribes; (2) the decoder inverts that
    semantics on every well-formed descriptor and in-domain value (prefix law);
    hence decode (encode v) = v with the same constructor selected. *)
From Coq Require Import List NArith ZArith Arith Lia Bool.
From Tongo Require Import Lib.Bits Lib.Res Proofs.BitStringW Proofs.BitStringR Proofs.BitStringR2 Model.TlbCore.
Import ListNotations.

Ltac splits := repeat match goal with |- _ /\ _ => split end.

(** *** builder facts *)
Lemma put_bits_ok l b b' :
  put_bits l b = Ok b' -> bb b' = bb b ++ l /\ br b' = br b.
Proof.
  unfold put_bits. destruct (1023 <? length (bb b) + length l)%nat; [discriminate|].
  intros E. injection E as <-. split; reflexivity.
Qed.

Lemma put_ref_ok c b b' :
  put_ref c b = Ok b' -> bb b' = bb b /\ br b' = br b ++ [c].
Proof.
  unfold put_ref. destruct (4 <=? length (br b))%nat; [discriminate|].
  intros E. injection E as <-. split; reflexivity.
Qed.

Section P.
Variable env : list ty.

(** *** (1) encoder = declarative semantics *)
Definition extends (b b' : bld) (bs : bits) (rs : list ctree) : Prop :=
  bb b' = bb b ++ bs /\ br b' = br b ++ rs.

Lemma extends_refl b : extends b b [] [].
Proof. unfold extends. rewrite !app_nil_r. auto. Qed.

Lemma extends_trans b b1 b2 bs1 rs1 bs2 rs2 :
  extends b b1 bs1 rs1 -> extends b1 b2 bs2 rs2 -> extends b b2 (bs1 ++ bs2) (rs1 ++ rs2).
Proof.
  unfold extends. intros (H1 & H2) (H3 & H4). rewrite H3, H4, H1, H2, !app_assoc. auto.
Qed.

Lemma extends_bits l b b' : put_bits l b = Ok b' -> extends b b' l [].
Proof. intros H. apply put_bits_ok in H. destruct H as (H1 & H2). unfold extends. rewrite H1, H2, app_nil_r. auto. Qed.

Lemma extends_ref c b b' : put_ref c b = Ok b' -> extends b b' [] [c].
Proof. intros H. apply put_ref_ok in H. destruct H as (H1 & H2). unfold extends. rewrite H1, H2, app_nil_r. auto. Qed.

Lemma extends_empty c bs rs : extends empty_bld c bs rs -> finish c = CT bs rs.
Proof. unfold extends, finish, empty_bld. cbn. intros (-> & ->). reflexivity. Qed.

Ltac bind_ok H :=
  match type of H with
  | bind ?X _ = Ok _ =>
      let x := fresh "x" in let E := fresh "E" in
      destruct X as [x|?|?] eqn:E; cbn [bind] in H; [|discriminate H|discriminate H]
  end.

Theorem enc_is_spec : forall fuel t v b b',
  enc env fuel t v b = Ok b' ->
  exists bs rs, spec env fuel t v = Some (bs, rs) /\ extends b b' bs rs.
Proof.
  induction fuel as [|f IH]; intros t v b b' He; [discriminate|].
  destruct t; cbn [enc spec] in *.
  - (* TUint *) destruct v; try discriminate. eauto using extends_bits.
  - destruct v; try discriminate. eauto using extends_bits.
  - destruct v; try discriminate.
    destruct ((w =? 0)%nat || (N.of_nat w <? N.size n)%N); [discriminate|]. eauto using extends_bits.
  - destruct v; try discriminate. eauto using extends_bits.
  - destruct v; try discriminate. eauto using extends_bits.
  - destruct v; try discriminate. eauto using extends_bits.
  - (* TVarUInt *) destruct v; try discriminate. bind_ok He.
    do 2 eexists. split; [reflexivity|].
    rewrite <- (app_nil_r []). eapply extends_trans; eapply extends_bits; eassumption.
  - destruct v; try discriminate. eauto using extends_bits.
  - destruct v; try discriminate. eauto using extends_bits.
  - (* TMaybe *) destruct v as [| | | | | |[x|]| | | | |]; try discriminate.
    + bind_ok He. destruct (IH _ _ _ _ He) as (bs & rs & -> & Hx).
      do 2 eexists. split; [reflexivity|].
      change (true :: bs) with ([true] ++ bs). rewrite <- (app_nil_l rs).
      eapply extends_trans; [eapply extends_bits; eassumption|exact Hx].
    + eauto using extends_bits.
  - (* TEither *) destruct v as [| | | | | | |[|] x| | | |]; try discriminate; bind_ok He;
      destruct (IH _ _ _ _ He) as (bs & rs & -> & Hx);
      do 2 eexists; (split; [reflexivity|]);
      [change (true :: bs) with ([true] ++ bs)|change (false :: bs) with ([false] ++ bs)];
      rewrite <- (app_nil_l rs);
      (eapply extends_trans; [eapply extends_bits; eassumption|exact Hx]).
  - (* TEitherRef *) destruct v as [| | | | | | |[|] x| | | |]; try discriminate.
    + bind_ok He. bind_ok He.
      destruct (IH _ _ _ _ E0) as (bs & rs & -> & Hx).
      do 2 eexists. split; [reflexivity|].
      rewrite <- (extends_empty _ _ _ Hx).
      rewrite <- (app_nil_r [true]), <- (app_nil_l [finish x1]).
      eapply extends_trans; [eapply extends_bits; eassumption|eapply extends_ref; eassumption].
    + bind_ok He. destruct (IH _ _ _ _ He) as (bs & rs & -> & Hx).
      do 2 eexists. split; [reflexivity|].
      change (false :: bs) with ([false] ++ bs). rewrite <- (app_nil_l rs).
      eapply extends_trans; [eapply extends_bits; eassumption|exact Hx].
  - (* TRef *) bind_ok He.
    destruct (IH _ _ _ _ E) as (bs & rs & -> & Hx).
    do 2 eexists. split; [reflexivity|].
    rewrite <- (extends_empty _ _ _ Hx). eapply extends_ref; eassumption.
  - (* TMaybeRef *) destruct v as [| | | | | |[x|]| | | | |]; try discriminate.
    + bind_ok He. bind_ok He.
      destruct (IH _ _ _ _ E0) as (bs & rs & -> & Hx).
      do 2 eexists. split; [reflexivity|].
      rewrite <- (extends_empty _ _ _ Hx).
      rewrite <- (app_nil_r [true]), <- (app_nil_l [finish x1]).
      eapply extends_trans; [eapply extends_bits; eassumption|eapply extends_ref; eassumption].
    + eauto using extends_bits.
  - (* TStruct *) destruct v; try discriminate.
    revert vs b He. induction fs as [|t1 ft IHf]; intros vs b He; destruct vs as [|v1 vt]; try discriminate.
    + injection He as <-. do 2 eexists. split; [reflexivity|apply extends_refl].
    + bind_ok He. destruct (IH _ _ _ _ E) as (b1 & r1 & -> & H1).
      destruct (IHf _ _ He) as (b2 & r2 & -> & H2).
      do 2 eexists. split; [reflexivity|]. eapply extends_trans; eassumption.
  - (* TSum *) destruct v; try discriminate.
    destruct (nth_error alts k) as [[[len val] t']|]; [|discriminate].
    bind_ok He. destruct (IH _ _ _ _ He) as (bs & rs & -> & Hx).
    do 2 eexists. split; [reflexivity|].
    rewrite <- (app_nil_l rs).
    eapply extends_trans; [eapply extends_bits; eassumption|exact Hx].
  - (* TAny *) destruct v; try discriminate. bind_ok He.
    do 2 eexists. split; [reflexivity|].
    rewrite <- (app_nil_r b0), <- (app_nil_l r).
    eapply extends_trans; [eapply extends_bits; eassumption|].
    clear E. revert x He. induction r as [|c t IHr]; intros x He.
    + injection He as <-. apply extends_refl.
    + bind_ok He. change (c :: t) with ([c] ++ t). rewrite <- (app_nil_l []).
      eapply extends_trans; [eapply extends_ref; eassumption|apply IHr; exact He].
  - (* TCellRef *) destruct v; try discriminate. eauto using extends_ref.
  - (* TAddr *) destruct v; try discriminate.
    destruct a; try (destruct (511 <? length l)%nat; [discriminate|]); eauto using extends_bits.
  - (* TNamed *) destruct (nth_error env i); [|discriminate]. eauto.
Qed.


(** *** (2) the decoder inverts the declarative semantics *)
Lemma take_bits_app l x r : take_bits (length l) (mks (l ++ x) r) = Ok (l, mks x r).
Proof.
  unfold take_bits. cbn [sb sr].
  rewrite short_spec, app_length.
  destruct (Nat.ltb_spec (length l + length x) (length l)); [lia|].
  rewrite firstn_app_exact, skipn_app_exact. reflexivity.
Qed.

Lemma take_bits_app' n l x r : length l = n -> take_bits n (mks (l ++ x) r) = Ok (l, mks x r).
Proof. intros <-. apply take_bits_app. Qed.

Lemma is_prefix_app a x : is_prefix a (a ++ x) = true.
Proof. induction a as [|b a IH]; [reflexivity|]. cbn. rewrite eqb_reflx, IH. reflexivity. Qed.

Lemma is_prefix_firstn a S : is_prefix a S = true -> firstn (length a) S = a.
Proof.
  revert S; induction a as [|x a IH]; intros S H; [reflexivity|].
  destruct S as [|y S]; [discriminate|]. cbn in H. apply andb_true_iff in H. destruct H as (H1 & H2).
  apply eqb_prop in H1. subst. cbn. f_equal. apply IH. exact H2.
Qed.

Lemma firstn_is_prefix a S : (length a <= length S)%nat -> firstn (length a) S = a -> is_prefix a S = true.
Proof.
  revert S; induction a as [|x a IH]; intros S Hl H; [reflexivity|].
  destruct S as [|y S]; [cbn in Hl; lia|]. cbn in H. injection H as <- H.
  cbn. rewrite eqb_reflx. apply IH; [cbn in Hl; lia|exact H].
Qed.

Lemma prefixes_comparable a b S :
  is_prefix a S = true -> is_prefix b S = true -> is_prefix a b = true \/ is_prefix b a = true.
Proof.
  revert b S; induction a as [|x a IH]; intros b S Ha Hb; [left; reflexivity|].
  destruct b as [|y b]; [right; reflexivity|].
  destruct S as [|z S]; [discriminate|].
  cbn in Ha, Hb. apply andb_true_iff in Ha. apply andb_true_iff in Hb.
  destruct Ha as (Ha1 & Ha2). destruct Hb as (Hb1 & Hb2).
  apply eqb_prop in Ha1. apply eqb_prop in Hb1. subst.
  cbn. rewrite eqb_reflx. cbn. eapply IH; eassumption.
Qed.

Lemma byte_len_bound x : (x < 2 ^ N.of_nat (8 * byte_len x))%N.
Proof.
  unfold byte_len.
  assert (H : (N.size x <= N.of_nat (8 * ((N.to_nat (N.size x) + 7) / 8)))%N).
  { set (sz := N.to_nat (N.size x)).
    assert (Hs : N.size x = N.of_nat sz) by (unfold sz; rewrite N2Nat.id; reflexivity).
    rewrite Hs.
    pose proof (Nat.div_mod (sz + 7) 8 ltac:(lia)).
    pose proof (Nat.mod_upper_bound (sz + 7) 8 ltac:(lia)). lia. }
  set (L := N.of_nat (8 * ((N.to_nat (N.size x) + 7) / 8))) in *.
  destruct (N.eq_dec x 0) as [->|Hx]; [apply pow2_pos|].
  rewrite N.size_log2 in H by exact Hx.
  apply N.log2_lt_pow2; lia.
Qed.

Lemma size_bound n : (n < 2 ^ N.size n)%N.
Proof.
  destruct (N.eq_dec n 0) as [->|Hn]; [cbn; lia|].
  rewrite N.size_log2 by exact Hn. apply N.log2_spec. lia.
Qed.

Lemma int_roundtrip w z :
  (1 <=? w)%nat = true -> TlbCore.int_fits w z = true -> dec_int_bits (enc_int_bits w z) = z.
Proof.
  intros Hw Hf. apply Nat.leb_le in Hw.
  unfold TlbCore.int_fits in Hf. apply andb_true_iff in Hf. destruct Hf as (H1 & H2).
  apply Z.leb_le in H1. apply Z.ltb_lt in H2.
  exact (BitStringR2.dec_enc_int z w Hw (conj H1 H2)).
Qed.

Lemma rd_app l x : rd (length l) (l ++ x) = Ok (l, x).
Proof.
  unfold rd. rewrite short_spec, app_length.
  destruct (Nat.ltb_spec (length l + length x) (length l)); [lia|].
  rewrite firstn_app_exact, skipn_app_exact. reflexivity.
Qed.

Lemma rd_app' n l x : length l = n -> rd n (l ++ x) = Ok (l, x).
Proof. intros <-. apply rd_app. Qed.

Lemma zfits_roundtrip w z : (1 <= w)%nat -> zfits w z = true -> dec_int_bits (enc_int_bits w z) = z.
Proof. intros Hw Hf. apply int_roundtrip; [apply Nat.leb_le; exact Hw|exact Hf]. Qed.

Lemma any_parse_bits a rest : any_ok a = true -> any_parse (any_bits a ++ rest) = Ok (a, rest).
Proof.
  destruct a as [[d p]|]; cbn [any_ok any_bits]; intros Hok.
  - apply andb_true_iff in Hok. destruct Hok as (Hok & Hp).
    apply andb_true_iff in Hok. destruct Hok as (H1 & H30).
    apply N.leb_le in H1. apply N.leb_le in H30. apply N.ltb_lt in Hp.
    unfold any_parse. change ((true :: bits_of 5 d ++ bits_of (N.to_nat d) p) ++ rest)
      with ([true] ++ (bits_of 5 d ++ bits_of (N.to_nat d) p) ++ rest).
    rewrite (rd_app' 1 [true]) by reflexivity. cbn [bind fst snd nth].
    rewrite <- app_assoc. rewrite rd_app' by apply bits_of_length. cbn [bind fst snd].
    assert (Hd : (d < 2 ^ N.of_nat 5)%N) by (change (2 ^ N.of_nat 5)%N with 32%N; lia).
    rewrite N_of_bits_bits_of_small by exact Hd.
    destruct (N.ltb_spec d 1); [lia|].
    rewrite rd_app' by apply bits_of_length. cbn [bind fst snd].
    rewrite N_of_bits_bits_of_small by (rewrite N2Nat.id; exact Hp). reflexivity.
  - unfold any_parse. change ([false] ++ rest) with ([false] ++ rest).
    rewrite (rd_app' 1 [false]) by reflexivity. reflexivity.
Qed.

Lemma addr_parse_bits a rest : addr_ok a = true -> addr_parse (addr_bits a ++ rest) = Ok (a, rest).
Proof.
  destruct a as [|l|any wc addr|any wc addr]; cbn [addr_ok addr_bits]; intros Hok; unfold addr_parse.
  - rewrite (rd_app' 2 [false; false]) by reflexivity. reflexivity.
  - apply Nat.leb_le in Hok.
    rewrite <- app_assoc. rewrite (rd_app' 2 [false; true]) by reflexivity. cbn [bind fst snd].
    rewrite <- app_assoc. rewrite rd_app' by apply bits_of_length. cbn [bind fst snd].
    assert (Hl : (N.of_nat (length l) < 2 ^ N.of_nat 9)%N) by (change (2 ^ N.of_nat 9)%N with 512%N; lia).
    rewrite N_of_bits_bits_of_small by exact Hl. rewrite Nat2N.id.
    rewrite rd_app. reflexivity.
  - apply andb_true_iff in Hok. destruct Hok as (Hok & Hlen).
    apply andb_true_iff in Hok. destruct Hok as (Hany & Hwc). apply Nat.eqb_eq in Hlen.
    rewrite <- app_assoc. rewrite (rd_app' 2 [true; false]) by reflexivity. cbn [bind fst snd].
    rewrite <- app_assoc. rewrite any_parse_bits by exact Hany. cbn [bind fst snd].
    rewrite <- app_assoc. rewrite rd_app' by apply bits_of_length. cbn [bind fst snd].
    rewrite rd_app' by exact Hlen. cbn [bind fst snd].
    rewrite zfits_roundtrip by (try exact Hwc; lia). reflexivity.
  - apply andb_true_iff in Hok. destruct Hok as (Hok & Hlen).
    apply andb_true_iff in Hok. destruct Hok as (Hany & Hwc). apply Nat.leb_le in Hlen.
    rewrite <- app_assoc. rewrite (rd_app' 2 [true; true]) by reflexivity. cbn [bind fst snd].
    rewrite <- app_assoc. rewrite any_parse_bits by exact Hany. cbn [bind fst snd].
    rewrite <- app_assoc. rewrite rd_app' by apply bits_of_length. cbn [bind fst snd].
    rewrite <- app_assoc. rewrite rd_app' by apply bits_of_length. cbn [bind fst snd].
    assert (Hl : (N.of_nat (length addr) < 2 ^ N.of_nat 9)%N) by (change (2 ^ N.of_nat 9)%N with 512%N; lia).
    rewrite N_of_bits_bits_of_small by exact Hl. rewrite Nat2N.id.
    rewrite rd_app. cbn [bind fst snd].
    rewrite zfits_roundtrip by (try exact Hwc; lia). reflexivity.
Qed.

Definition tail_ok (tl : bool) (tb : bits) (tr : list ctree) : Prop :=
  tl = false \/ (tb = [] /\ tr = []).

Lemma unary_loop n : forall k acc x r,
  (n < k)%nat ->
  unary_go r k (ones n ++ false :: x) acc = Ok (VN (acc + N.of_nat n)%N, mks x r).
Proof.
  unfold ones.
  induction n as [|n IH]; intros k acc x r Hk; destruct k as [|k]; try lia.
  - cbn. rewrite N.add_0_r. reflexivity.
  - cbn [repeat app unary_go]. rewrite (IH k (N.succ acc) x r ltac:(lia)).
    do 3 f_equal. lia.
Qed.

Lemma dec_unary f n x r :
  dec env (S f) TUnary (mks (ones n ++ false :: x) r) = Ok (VN (N.of_nat n), mks x r).
Proof.
  cbn [dec sb sr].
  rewrite unary_loop; [rewrite N.add_0_l; reflexivity|].
  rewrite app_length. unfold ones. rewrite repeat_length. cbn [length]. lia.
Qed.

Theorem dec_inverts_spec : forall fuel t v bs rs tb tr,
  wf env fuel t = true -> has_type env fuel t v = true ->
  spec env fuel t v = Some (bs, rs) ->
  tail_ok (tail env fuel t) tb tr ->
  dec env fuel t (mks (bs ++ tb) (rs ++ tr)) = Ok (v, mks tb tr).
Proof.
  induction fuel as [|f IH]; intros t v bs rs tb tr Hwf Hty Hsp Htl; [discriminate|].
  destruct t; cbn [wf has_type spec dec tail] in *.
  - (* TUint *) destruct v; try discriminate. injection Hsp as <- <-.
    rewrite take_bits_app' by apply bits_of_length. cbn [bind fst snd app].
    apply N.ltb_lt in Hty. rewrite N_of_bits_bits_of_small by exact Hty. reflexivity.
  - (* TInt *) destruct v; try discriminate. injection Hsp as <- <-.
    destruct (Nat.eqb_spec w 0) as [->|_]; [discriminate|].
    rewrite take_bits_app' by apply bits_of_length. cbn [bind fst snd app].
    rewrite int_roundtrip by assumption. reflexivity.
  - destruct v; try discriminate. injection Hsp as <- <-.
    rewrite take_bits_app' by apply bits_of_length. cbn [bind fst snd app].
    apply N.ltb_lt in Hty. rewrite N_of_bits_bits_of_small by exact Hty. reflexivity.
  - destruct v; try discriminate. injection Hsp as <- <-.
    rewrite take_bits_app' by apply bits_of_length. cbn [bind fst snd app].
    rewrite int_roundtrip by assumption. reflexivity.
  - (* TBool *) destruct v; try discriminate. injection Hsp as <- <-.
    rewrite (take_bits_app' 1 [b]) by reflexivity. reflexivity.
  - (* TBits *) destruct v; try discriminate. injection Hsp as <- <-.
    apply Nat.eqb_eq in Hty. rewrite take_bits_app' by exact Hty. reflexivity.
  - (* TVarUInt *) destruct v; try discriminate. injection Hsp as <- <-.
    apply Nat.leb_le in Hty.
    set (w := N.to_nat (N.size (N.of_nat (n - 1)))) in *.
    rewrite <- app_assoc.
    rewrite take_bits_app' by apply bits_of_length. cbn [bind fst snd].
    assert (Hlen : (N.of_nat (byte_len n0) < 2 ^ N.of_nat w)%N).
    { unfold w. rewrite N2Nat.id.
      pose proof (size_bound (N.of_nat (n - 1))) as Hs.
      eapply N.le_lt_trans; [|exact Hs]. lia. }
    rewrite N_of_bits_bits_of_small by exact Hlen. rewrite Nat2N.id.
    rewrite take_bits_app' by apply bits_of_length. cbn [bind fst snd app].
    rewrite N_of_bits_bits_of_small by apply byte_len_bound. reflexivity.
  - (* TUnary *) destruct v; try discriminate. injection Hsp as <- <-.
    change (dec env (S f) TUnary (mks ((ones (N.to_nat n) ++ [false]) ++ tb) ([] ++ tr)) = Ok (VN n, mks tb tr)).
    rewrite <- app_assoc. cbn [app].
    rewrite dec_unary, N2Nat.id. reflexivity.
  - (* TMagic *) destruct v; try discriminate. injection Hsp as <- <-.
    cbn [sb sr app]. rewrite short_spec, app_length, bits_of_length.
    destruct (Nat.ltb_spec (len + length tb) len); [lia|].
    rewrite take_bits_app' by apply bits_of_length. cbn [bind fst snd].
    apply N.ltb_lt in Hwf. rewrite N_of_bits_bits_of_small by exact Hwf.
    rewrite N.eqb_refl. reflexivity.
  - (* TMaybe *) destruct v as [| | | | | |[x|]| | | | |]; try discriminate.
    + destruct (spec env f t x) as [[bs' rs']|] eqn:Es; [|discriminate]. injection Hsp as <- <-.
      change ((true :: bs') ++ tb) with ([true] ++ (bs' ++ tb)).
      rewrite (take_bits_app' 1 [true]) by reflexivity. cbn [bind fst snd nth].
      rewrite (IH _ _ _ _ _ _ Hwf Hty Es Htl). reflexivity.
    + injection Hsp as <- <-. rewrite (take_bits_app' 1 [false]) by reflexivity. reflexivity.
  - (* TEither *) apply andb_true_iff in Hwf. destruct Hwf as (Hw1 & Hw2).
    assert (Ht1 : tail_ok (tail env f t1) tb tr).
    { destruct Htl as [Htl|Htl]; [left|right; exact Htl]. apply orb_false_iff in Htl. tauto. }
    assert (Ht2 : tail_ok (tail env f t2) tb tr).
    { destruct Htl as [Htl|Htl]; [left|right; exact Htl]. apply orb_false_iff in Htl. tauto. }
    destruct v as [| | | | | | |[|] x| | | |]; try discriminate.
    + destruct (spec env f t2 x) as [[bs' rs']|] eqn:Es; [|discriminate]. injection Hsp as <- <-.
      change ((true :: bs') ++ tb) with ([true] ++ (bs' ++ tb)).
      rewrite (take_bits_app' 1 [true]) by reflexivity. cbn [bind fst snd nth].
      rewrite (IH _ _ _ _ _ _ Hw2 Hty Es Ht2). reflexivity.
    + destruct (spec env f t1 x) as [[bs' rs']|] eqn:Es; [|discriminate]. injection Hsp as <- <-.
      change ((false :: bs') ++ tb) with ([false] ++ (bs' ++ tb)).
      rewrite (take_bits_app' 1 [false]) by reflexivity. cbn [bind fst snd nth].
      rewrite (IH _ _ _ _ _ _ Hw1 Hty Es Ht1). reflexivity.
  - (* TEitherRef *) destruct v as [| | | | | | |[|] x| | | |]; try discriminate.
    + destruct (spec env f t x) as [[bs' rs']|] eqn:Es; [|discriminate]. injection Hsp as <- <-.
      rewrite (take_bits_app' 1 [true]) by reflexivity. cbn [bind fst snd nth app take_ref sr sb].
      unfold open. cbn [ct_bits ct_refs].
      rewrite <- (app_nil_r bs'), <- (app_nil_r rs').
      rewrite (IH _ _ _ _ [] [] Hwf Hty Es); [reflexivity|right; auto].
    + destruct (spec env f t x) as [[bs' rs']|] eqn:Es; [|discriminate]. injection Hsp as <- <-.
      change ((false :: bs') ++ tb) with ([false] ++ (bs' ++ tb)).
      rewrite (take_bits_app' 1 [false]) by reflexivity. cbn [bind fst snd nth].
      rewrite (IH _ _ _ _ _ _ Hwf Hty Es Htl). reflexivity.
  - (* TRef *) destruct (spec env f t v) as [[bs' rs']|] eqn:Es; [|discriminate]. injection Hsp as <- <-.
    cbn [app take_ref sr sb bind fst snd]. unfold open. cbn [ct_bits ct_refs].
    rewrite <- (app_nil_r bs'), <- (app_nil_r rs').
    rewrite (IH _ _ _ _ [] [] Hwf Hty Es); [reflexivity|right; auto].
  - (* TMaybeRef *) destruct v as [| | | | | |[x|]| | | | |]; try discriminate.
    + destruct (spec env f t x) as [[bs' rs']|] eqn:Es; [|discriminate]. injection Hsp as <- <-.
      rewrite (take_bits_app' 1 [true]) by reflexivity. cbn [bind fst snd nth app take_ref sr sb].
      unfold open. cbn [ct_bits ct_refs].
      rewrite <- (app_nil_r bs'), <- (app_nil_r rs').
      rewrite (IH _ _ _ _ [] [] Hwf Hty Es); [reflexivity|right; auto].
    + injection Hsp as <- <-. rewrite (take_bits_app' 1 [false]) by reflexivity. reflexivity.
  - (* TStruct *) destruct v; try discriminate.
    apply andb_true_iff in Hwf. destruct Hwf as (Hall & Hnt).
    assert (Hgen : forall acc,
      (fix go (fs : list ty) (s : slc) (acc : list value) : res (value * slc) :=
         match fs with
         | [] => Ok (VStruct (rev acc), s)
         | t1 :: ft => do y <- dec env f t1 s; go ft (snd y) (fst y :: acc)
         end) fs (mks (bs ++ tb) (rs ++ tr)) acc = Ok (VStruct (rev acc ++ vs), mks tb tr)).
    { revert vs bs rs Hty Hsp Hall Hnt Htl.
      induction fs as [|t1 ft IHf]; intros vs bs rs Hty Hsp Hall Hnt Htl acc; destruct vs as [|v1 vt]; try discriminate.
      - injection Hsp as <- <-. rewrite app_nil_r. reflexivity.
      - apply andb_true_iff in Hty. destruct Hty as (Hty1 & Hty2).
        cbn [forallb] in Hall. apply andb_true_iff in Hall. destruct Hall as (Hw1 & Hw2).
        destruct (spec env f t1 v1) as [[b1 r1]|] eqn:E1; [|discriminate].
        match type of Hsp with match ?X with _ => _ end = _ => destruct X as [[b2 r2]|] eqn:E2; [|discriminate] end.
        injection Hsp as <- <-. rewrite <- !app_assoc.
        destruct ft as [|t2 ft'].
        + (* t1 is the last field *)
          destruct vt; [|discriminate]. injection E2 as <- <-. cbn [app].
          rewrite (IH _ _ _ _ _ _ Hw1 Hty1 E1 Htl). cbn [bind fst snd rev].
          reflexivity.
        + apply andb_true_iff in Hnt. destruct Hnt as (Hn1 & Hn2).
          apply negb_true_iff in Hn1.
          rewrite (IH _ _ _ _ _ _ Hw1 Hty1 E1 (or_introl Hn1)). cbn [bind fst snd].
          rewrite (IHf vt b2 r2 Hty2 E2 Hw2 Hn2 Htl).
          cbn [rev]. rewrite <- app_assoc. reflexivity. }
    rewrite Hgen. reflexivity.
  - (* TSum *) destruct v; try discriminate.
    apply andb_true_iff in Hwf. destruct Hwf as (Hall & Hpf).
    destruct (nth_error alts k) as [[[len val] t']|] eqn:En; [|discriminate].
    destruct (spec env f t' v) as [[bs' rs']|] eqn:Es; [|discriminate]. injection Hsp as <- <-.
    cbn [snd] in Hty.
    (* split the alternatives at k *)
    destruct (nth_error_split alts k En) as (pre & post & Halts & Hk).
    subst alts.
    rewrite forallb_app in Hall. apply andb_true_iff in Hall. destruct Hall as (Hpre & Hk').
    cbn [forallb] in Hk'. apply andb_true_iff in Hk'. destruct Hk' as (Hkk & _).
    apply andb_true_iff in Hkk. destruct Hkk as (Hwk & Hvk). cbn [fst snd] in Hwk, Hvk.
    apply N.ltb_lt in Hvk.
    assert (Htk : tail_ok (tail env f t') tb tr).
    { destruct Htl as [Htl|Htl]; [left|right; exact Htl].
      rewrite existsb_app in Htl. apply orb_false_iff in Htl. destruct Htl as (_ & Htl).
      cbn [existsb snd] in Htl. apply orb_false_iff in Htl. tauto. }
    set (S := bits_of len val ++ bs' ++ tb).
    assert (HS : (bits_of len val ++ bs') ++ tb = S) by (unfold S; rewrite <- app_assoc; reflexivity).
    rewrite HS.
    (* every earlier alternative fails to match *)
    assert (Hloop : forall j pre',
      forallb (fun a => wf env f (snd a) && (snd (fst a) <? 2 ^ N.of_nat (fst (fst a)))%N) pre' = true ->
      forallb (fun u => negb (is_prefix (bits_of len val) u) && negb (is_prefix u (bits_of len val)))
              (map tag_bits pre') = true ->
      (fix go (k : nat) (alts : list (nat * N * ty)) : res (value * slc) :=
         match alts with
         | [] => Err ETlb
         | (len, val, t') :: rest =>
             if short len (sb (mks S (rs' ++ tr))) then go (Datatypes.S k) rest
             else if N.eqb (N_of_bits (firstn len (sb (mks S (rs' ++ tr))))) val then
               do y <- dec env f t' (mks (skipn len (sb (mks S (rs' ++ tr)))) (sr (mks S (rs' ++ tr))));
               Ok (VSum k (fst y), snd y)
             else go (Datatypes.S k) rest
         end) j (pre' ++ (len, val, t') :: post) = Ok (VSum (j + length pre') v, mks tb tr)).
    { intros j pre'. revert j. induction pre' as [|[[la va] ta] pre'' IHp]; intros j Hwp Hfree.
      - cbn [app sb sr length]. rewrite Nat.add_0_r.
        unfold S at 1. rewrite short_spec, !app_length, bits_of_length.
        destruct (Nat.ltb_spec (len + (length bs' + length tb)) len); [lia|].
        unfold S at 1. assert (Hl : length (bits_of len val) = len) by apply bits_of_length.
        rewrite <- Hl at 1. rewrite firstn_app_exact.
        rewrite N_of_bits_bits_of_small by exact Hvk. rewrite N.eqb_refl.
        unfold S. rewrite <- Hl at 1. rewrite skipn_app_exact.
        rewrite (IH _ _ _ _ _ _ Hwk Hty Es Htk). reflexivity.
      - cbn [app]. cbn [forallb map] in Hwp, Hfree.
        apply andb_true_iff in Hwp. destruct Hwp as (Hwa & Hwp).
        apply andb_true_iff in Hwa. destruct Hwa as (_ & Hva). cbn [fst snd] in Hva. apply N.ltb_lt in Hva.
        apply andb_true_iff in Hfree. destruct Hfree as (Hfa & Hfree).
        apply andb_true_iff in Hfa. destruct Hfa as (Hf1 & Hf2).
        apply negb_true_iff in Hf1. apply negb_true_iff in Hf2.
        unfold tag_bits in Hf1, Hf2. cbn [fst snd] in Hf1, Hf2.
        cbn [sb].
        assert (Hnext : (fix go (k : nat) (alts : list (nat * N * ty)) : res (value * slc) :=
         match alts with
         | [] => Err ETlb
         | (len, val, t') :: rest =>
             if short len (sb (mks S (rs' ++ tr))) then go (Datatypes.S k) rest
             else if N.eqb (N_of_bits (firstn len (sb (mks S (rs' ++ tr))))) val then
               do y <- dec env f t' (mks (skipn len (sb (mks S (rs' ++ tr)))) (sr (mks S (rs' ++ tr))));
               Ok (VSum k (fst y), snd y)
             else go (Datatypes.S k) rest
         end) (Datatypes.S j) (pre'' ++ (len, val, t') :: post) = Ok (VSum (j + length ((la, va, ta) :: pre'')) v, mks tb tr)).
        { rewrite (IHp (Datatypes.S j) Hwp Hfree). cbn [length]. do 3 f_equal. lia. }
        destruct (short la S) eqn:Esh; [exact Hnext|].
        destruct (N.eqb_spec (N_of_bits (firstn la S)) va) as [Heq|Hne]; [|exact Hnext].
        exfalso.
        (* then the tag of this alternative is a prefix of S, as is tag k *)
        rewrite short_spec in Esh. apply Nat.ltb_ge in Esh.
        assert (Hpa : is_prefix (bits_of la va) S = true).
        { apply firstn_is_prefix; [rewrite bits_of_length; exact Esh|].
          rewrite bits_of_length.
          apply N_of_bits_inj; [rewrite firstn_length, bits_of_length; lia|].
          rewrite N_of_bits_bits_of_small by exact Hva. exact Heq. }
        assert (Hpk : is_prefix (bits_of len val) S = true) by (unfold S; apply is_prefix_app).
        destruct (prefixes_comparable _ _ _ Hpk Hpa); congruence. }
    cbn [sb sr].
    (* prefix-freeness of tag k against the earlier ones *)
    assert (Hfree : forallb (fun u => negb (is_prefix (bits_of len val) u) && negb (is_prefix u (bits_of len val)))
                            (map tag_bits pre) = true).
    { clear - Hpf. rewrite map_app in Hpf. cbn [map] in Hpf.
      induction (map tag_bits pre) as [|u us IHu]; [reflexivity|].
      cbn [app prefix_free] in Hpf. apply andb_true_iff in Hpf. destruct Hpf as (Hu & Hrest).
      rewrite forallb_app in Hu. apply andb_true_iff in Hu. destruct Hu as (_ & Hu).
      cbn [forallb] in Hu. apply andb_true_iff in Hu. destruct Hu as (Hu & _).
      cbn [forallb]. rewrite (IHu Hrest), andb_true_r.
      unfold tag_bits in Hu at 1 2. cbn [fst snd] in Hu.
      apply andb_true_iff in Hu. destruct Hu as (H1 & H2). rewrite H1, H2. reflexivity. }
    pose proof (Hloop 0%nat pre Hpre Hfree) as Hl. cbn [sb sr] in Hl.
    rewrite Hl. rewrite Hk. reflexivity.
  - (* TAny *) destruct v; try discriminate. injection Hsp as <- <-.
    destruct Htl as [Htl|(-> & ->)]; [discriminate|]. rewrite !app_nil_r. reflexivity.
  - (* TCellRef *) destruct v; try discriminate. injection Hsp as <- <-. reflexivity.
  - (* TAddr *) destruct v; try discriminate. injection Hsp as <- <-.
    cbn [sb sr app]. rewrite addr_parse_bits by exact Hty. reflexivity.
  - (* TNamed *) destruct (nth_error env i) as [t'|]; [|discriminate]. eauto.
Qed.

(** *** round trip: decoding what the encoder wrote returns the value (with
    the same constructor of every tagged union: it is part of the value) *)
Corollary roundtrip fuel t v c :
  wf env fuel t = true -> has_type env fuel t v = true ->
  enc env fuel t v empty_bld = Ok c ->
  dec env fuel t (open (finish c)) = Ok (v, mks [] []).
Proof.
  intros Hwf Hty He.
  destruct (enc_is_spec _ _ _ _ _ He) as (bs & rs & Hs & Hx).
  rewrite (extends_empty _ _ _ Hx). unfold open. cbn [ct_bits ct_refs].
  rewrite <- (app_nil_r bs), <- (app_nil_r rs).
  apply dec_inverts_spec; auto. right. auto.
Qed.

End P.
