(** Resource bounds for the tree walkers of Model/TlbHand.v (VmStackValue /
    tuples, VmStack lists, snake data, dictionaries): cost = steps + modelled
    allocation, measured against the size in bytes [tsz] and the height [thg]
    of the cell tree — never against a length, count or depth announced inside
    the data.  Also: none of their errors is the model's fuel error. *)
From Coq Require Import List NArith ZArith Arith Lia Bool.
From Tongo Require Import Lib.Bits Lib.Res Spec.Dict Model.Hashmap Model.TlbCore Model.TlbTotal
     Proofs.TlbTotalP Model.TlbHand Proofs.TlbHandP.
Import ListNotations.
Local Open Scope N_scope.

Definition cost (st : ct) : N := c_steps st + c_alloc st.

Lemma cost_tickc st : cost (tickc st) = cost st + 1.
Proof. unfold cost, tickc; cbn. lia. Qed.
Lemma cost_chg n st : cost (chg n st) = cost st + n.
Proof. unfold cost, chg; cbn. lia. Qed.

(** ** outcome without panic and without the fuel error *)
Definition good {A} (r : res A) : Prop :=
  match r with Ok _ => True | Err e => e <> EFuel | Panic _ => False end.

Lemma good_bind {A B} (r : res A) (f : A -> res B) :
  good r -> (forall a, good (f a)) -> good (bind r f).
Proof. destruct r; cbn; auto. Qed.
Lemma good_if {A} (b : bool) (x y : res A) : good x -> good y -> good (if b then x else y).
Proof. destruct b; auto. Qed.
Ltac gerr := cbn; discriminate.

Lemma good_ytake_bits n s : good (ytake_bits n s).
Proof. unfold ytake_bits. destruct (short n (yb s)); [gerr | exact I]. Qed.
Lemma good_ytake_ref s : good (ytake_ref s).
Proof. unfold ytake_ref. destruct (yr s); [gerr | exact I]. Qed.
Lemma good_rd n l : good (rd n l).
Proof. unfold rd. destruct (short n l); [gerr | exact I]. Qed.
Lemma good_xunary k : forall l, good (xunary k l).
Proof. induction k as [ | k IH]; intros l; cbn; [discriminate|]. destruct l as [ | [ | ] t]; cbn; auto; discriminate. Qed.
Lemma good_any_parse l : good (any_parse l).
Proof.
  unfold any_parse. apply good_bind; [apply good_rd|]. intros x.
  apply good_if; [|exact I].
  apply good_bind; [apply good_rd|]. intros d.
  apply good_if; [gerr|].
  apply good_bind; [apply good_rd|]. intros p. exact I.
Qed.
Lemma good_addr_parse l : good (addr_parse l).
Proof.
  unfold addr_parse. apply good_bind; [apply good_rd|]. intros t.
  destruct (fst t) as [ | [ | ] [ | [ | ] [ | ? ? ]]];
    repeat first [ exact I
                 | apply good_bind; [first [apply good_rd | apply good_any_parse] | intros ?] ].
Qed.
Lemma good_vm_cellslice s : good (vm_cellslice s).
Proof.
  unfold vm_cellslice. apply good_bind; [apply good_ytake_ref|]. intros [cell s1].
  apply good_bind; [apply good_ytake_bits|]. intros a.
  apply good_bind; [apply good_ytake_bits|]. intros b.
  apply good_if; [gerr|].
  apply good_bind; [apply good_ytake_bits|]. intros c.
  apply good_bind; [apply good_ytake_bits|]. intros d.
  apply good_if; [gerr|].
  destruct cell as [k cb crefs]. apply good_if; [gerr|]. apply good_if; [gerr | exact I].
Qed.
Lemma good_grams s : good (grams s).
Proof.
  unfold grams. apply good_bind; [apply good_ytake_bits|]. intros x.
  apply good_if; [gerr|]. apply good_bind; [apply good_ytake_bits|]. intros y. exact I.
Qed.
Lemma good_fixed_text s : good (fixed_text s).
Proof.
  unfold fixed_text. apply good_bind; [apply good_ytake_bits|]. intros x.
  apply good_bind; [apply good_ytake_bits|]. intros y. exact I.
Qed.
Lemma good_read_unary l : good (read_unary l).
Proof. induction l as [ | [ | ] t IH]; cbn; try exact I; try discriminate. apply good_bind; [exact IH | intros; exact I]. Qed.
Lemma good_read_lim m l : good (read_lim m l).
Proof. unfold read_lim. destruct (short _ l); [gerr | exact I]. Qed.
Lemma good_load_label m room c : good (load_label m room c).
Proof.
  unfold load_label. destruct c as [ | [ | ] c1]; try gerr.
  - destruct c1 as [ | [ | ] c2]; try gerr.
    + destruct c2 as [ | b c3]; [gerr|].
      apply good_bind; [apply good_read_lim|]. intros [lnN c4]. apply good_if; [gerr | exact I].
    + apply good_bind; [apply good_read_lim|]. intros [lnN c3].
      apply good_if; [gerr|]. apply good_if; [gerr | exact I].
  - apply good_bind; [apply good_read_unary|]. intros [ln c2].
    apply good_if; [gerr|]. apply good_if; [gerr | exact I].
Qed.

(** ** measures *)
Lemma cell_w_pos b : 1 <= cell_w b.
Proof. unfold cell_w. generalize (N.of_nat (length b) / 8). intros; lia. Qed.

Lemma tsz_cons k b c1 r : tsz (XT k b (c1 :: r)) = tsz c1 + tsz (XT k b r).
Proof. cbn [tsz fold_right]. lia. Qed.
Lemma tsz_nil k b : tsz (XT k b []) = cell_w b.
Proof. cbn. lia. Qed.
Lemma thg_cons k b c1 r : thg (XT k b (c1 :: r)) = N.max (thg c1 + 1) (thg (XT k b r)).
Proof. cbn [thg fold_right]. lia. Qed.
Lemma thg_nil k b : thg (XT k b []) = 1.
Proof. reflexivity. Qed.

Lemma tsz_pos c : 1 <= tsz c.
Proof.
  destruct c as [k b r]. induction r as [ | c1 r IH].
  - rewrite tsz_nil. apply cell_w_pos.
  - rewrite tsz_cons. lia.
Qed.
Lemma thg_pos c : 1 <= thg c.
Proof. destruct c as [k b r]. cbn [thg]. lia. Qed.

Lemma thg_le_tsz : forall c, thg c <= tsz c.
Proof.
  induction c as [k b r IH] using xtree_ind'.
  induction r as [ | c1 r IHr].
  - rewrite thg_nil, tsz_nil. apply cell_w_pos.
  - inversion IH; subst. rewrite thg_cons, tsz_cons.
    specialize (IHr H2). pose proof (tsz_pos (XT k b r)). lia.
Qed.

(* the kind and the bits of the cell itself do not matter for the height; the
   size is monotone in the number of bits *)
Lemma thg_kb k b k' b' r : thg (XT k b r) = thg (XT k' b' r).
Proof. reflexivity. Qed.
Lemma tsz_bits k b k' b' r :
  (length b' <= length b)%nat -> tsz (XT k' b' r) <= tsz (XT k b r).
Proof.
  intros H. cbn [tsz]. unfold cell_w.
  assert (N.of_nat (length b') / 8 <= N.of_nat (length b) / 8) by (apply N.div_le_mono; lia).
  lia.
Qed.

(** what is left of a cell after reading from it *)
Definition ysub (s' s : ys) : Prop :=
  (length (yb s') <= length (yb s))%nat /\ exists pre, yr s = pre ++ yr s'.

Lemma ysub_refl s : ysub s s.
Proof. split; [lia | exists []; reflexivity]. Qed.
Lemma ysub_trans a b c : ysub a b -> ysub b c -> ysub a c.
Proof.
  intros [H1 [p1 E1]] [H2 [p2 E2]]. split; [lia|].
  exists (p2 ++ p1). rewrite E2, E1. apply app_assoc.
Qed.

Lemma tsz_app k b pre r : tsz (XT k b r) <= tsz (XT k b (pre ++ r)).
Proof. induction pre as [ | c p IH]; cbn [app]; [lia|]. rewrite tsz_cons. lia. Qed.
Lemma thg_app k b pre r : thg (XT k b r) <= thg (XT k b (pre ++ r)).
Proof. induction pre as [ | c p IH]; cbn [app]; [lia|]. rewrite thg_cons. lia. Qed.

Lemma ysub_tsz s' s : ysub s' s -> tsz (cell_of s') <= tsz (cell_of s).
Proof.
  intros [Hb [pre E]]. unfold cell_of. rewrite E.
  etransitivity; [|apply tsz_app].
  apply tsz_bits. exact Hb.
Qed.
Lemma ysub_thg s' s : ysub s' s -> thg (cell_of s') <= thg (cell_of s).
Proof.
  intros [Hb [pre E]]. unfold cell_of. rewrite E.
  rewrite (thg_kb (yk s') (yb s') (yk s) (yb s)). apply thg_app.
Qed.

Lemma ysub_take_bits n s x : ytake_bits n s = Ok x -> ysub (snd x) s.
Proof.
  unfold ytake_bits. destruct (short n (yb s)); [discriminate|].
  intros E; inversion E; subst; cbn. split; [cbn; rewrite skipn_length; lia | exists []; reflexivity].
Qed.
Lemma ysub_take_ref s x : ytake_ref s = Ok x -> ysub (snd x) s /\ yr s = fst x :: yr (snd x).
Proof.
  unfold ytake_ref. destruct (yr s) as [ | c t] eqn:E; [discriminate|].
  intros E1; inversion E1; subst; cbn. split; [|reflexivity].
  split; [cbn; lia | exists [c]; cbn; exact E].
Qed.

(** ** arithmetic helpers for size x height bounds *)
Lemma quad_step (A t1 t h1 h : N) : t1 <= t -> h1 + 1 <= h -> A * t1 * h1 + A * t <= A * t * h.
Proof.
  intros Ht Hh.
  assert (H1 : A * t1 * h1 <= A * t * h1).
  { apply N.mul_le_mono_r. apply N.mul_le_mono_l. exact Ht. }
  assert (H2 : A * t * (h1 + 1) <= A * t * h) by (apply N.mul_le_mono_l; exact Hh).
  rewrite N.mul_add_distr_l, N.mul_1_r in H2. lia.
Qed.

Lemma sq_step (a h : N) : a + 1 <= h -> a * a + 2 * a + 1 <= h * h.
Proof.
  intros H. assert (H1 : (a + 1) * (a + 1) <= h * h) by (apply N.mul_le_mono; exact H).
  rewrite N.mul_add_distr_l, !N.mul_add_distr_r in H1. lia.
Qed.
