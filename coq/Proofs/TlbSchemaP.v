(** C04: a descriptor accepted by [refines] serialises every value exactly as
    the TL-B schema prescribes. *)
From Coq Require Import List NArith ZArith Arith Lia Bool.
From Tongo Require Import Lib.Bits Lib.Res Model.TlbCore Spec.TlbSchema Proofs.TlbCoreP.
Import ListNotations.

Lemma s_anycast_eq a : s_anycast a = any_bits a.
Proof. destruct a as [[d p]|]; reflexivity. Qed.

Lemma s_addr_eq a : s_addr a = addr_bits a.
Proof. destruct a; unfold s_addr, addr_bits, twos, numeral, enc_int_bits; rewrite ?s_anycast_eq; reflexivity. Qed.

Ltac inv_opt H :=
  match type of H with
  | match ?X with _ => _ end = Some _ => destruct X as [[? ?]|] eqn:?; [|discriminate H]
  end.

Theorem refines_sound : forall fuel s d env v x,
  refines fuel s d = true -> spec env fuel d v = Some x -> spec_encode s v = Some x.
Proof.
  induction fuel as [|f IH]; intros s d env v x Hr Hs; [discriminate|].
  destruct s; destruct d; cbn [refines] in Hr; try discriminate; cbn [spec] in Hs.
  - (* SUint / TUint *) apply Nat.eqb_eq in Hr. subst. destruct v; try discriminate. exact Hs.
  - apply Nat.eqb_eq in Hr. subst. destruct v; try discriminate. exact Hs.
  - (* SInt *) apply Nat.eqb_eq in Hr. subst. destruct v; try discriminate. exact Hs.
  - apply Nat.eqb_eq in Hr. subst. destruct v; try discriminate. exact Hs.
  - (* SBits *) destruct v; try discriminate. exact Hs.
  - (* SLe *) apply Nat.eqb_eq in Hr. subst. destruct v; try discriminate. exact Hs.
  - (* SVar *) apply Nat.eqb_eq in Hr. subst. destruct v; try discriminate. exact Hs.
  - (* SBool *) destruct v; try discriminate. exact Hs.
  - (* SUnary *) destruct v; try discriminate. exact Hs.
  - (* STag *) apply andb_true_iff in Hr. destruct Hr as (H1 & H2).
    apply Nat.eqb_eq in H1. apply N.eqb_eq in H2. subst. destruct v; try discriminate. exact Hs.
  - (* SMaybe / TMaybe *) destruct v; try discriminate.
    match goal with o : option value |- _ => destruct o as [y|] end; [|exact Hs].
    inv_opt Hs. cbn [spec_encode]. erewrite IH by eassumption. exact Hs.
  - (* SMaybe (SRef _) / TMaybeRef *) destruct s; try discriminate. destruct v; try discriminate.
    match goal with o : option value |- _ => destruct o as [y|] end; [|exact Hs].
    inv_opt Hs. cbn [spec_encode]. erewrite IH by eassumption. exact Hs.
  - (* SEither / TEither *) apply andb_true_iff in Hr. destruct Hr as (H1 & H2).
    destruct v; try discriminate.
    match goal with r : bool |- _ => destruct r end; inv_opt Hs; cbn [spec_encode]; erewrite IH by eassumption; exact Hs.
  - (* SEither _ (SRef _) / TEitherRef *) destruct s2; try discriminate.
    apply andb_true_iff in Hr. destruct Hr as (H1 & H2).
    destruct v; try discriminate.
    match goal with r : bool |- _ => destruct r end; inv_opt Hs; cbn [spec_encode]; erewrite IH by eassumption; exact Hs.
  - (* SRef / TRef *) inv_opt Hs. cbn [spec_encode]. erewrite IH by eassumption. exact Hs.
  - (* SSeq / TStruct *) destruct v; try discriminate. cbn [spec_encode].
    revert fs0 vs x Hr Hs. induction fs as [|s1 ft IHf]; intros ds vs x Hr Hs; destruct ds as [|d1 dt]; try discriminate.
    + destruct vs; [exact Hs|discriminate].
    + apply andb_true_iff in Hr. destruct Hr as (H1 & H2).
      destruct vs as [|v1 vt]; [discriminate|].
      destruct (spec env f d1 v1) as [[b1 r1]|] eqn:E1; [|discriminate].
      match type of Hs with match ?X with _ => _ end = _ => destruct X as [[b2 r2]|] eqn:E2; [|discriminate] end.
      rewrite (IH _ _ _ _ _ H1 E1). rewrite (IHf _ _ _ H2 E2). exact Hs.
  - (* SAlt / TSum *) destruct v; try discriminate. cbn [spec_encode].
    revert alts0 k Hr Hs. induction alts as [|[[l va] s1] at' IHa]; intros dalts k Hr Hs;
      destruct dalts as [|[[l' va'] d1] bt]; try discriminate.
    + destruct k; discriminate.
    + apply andb_true_iff in Hr. destruct Hr as (Hr & H4).
      apply andb_true_iff in Hr. destruct Hr as (Hr & H3).
      apply andb_true_iff in Hr. destruct Hr as (H1 & H2).
      apply Nat.eqb_eq in H1. apply N.eqb_eq in H2. subst.
      destruct k as [|k']; cbn [nth_error] in Hs.
      * inv_opt Hs. erewrite IH by eassumption. exact Hs.
      * apply (IHa _ _ H4 Hs).
  - (* SAny *) destruct v; try discriminate. exact Hs.
  - (* SCell *) destruct v; try discriminate. exact Hs.
  - (* SDictE / TMaybeRef TAny *) destruct d; try discriminate. destruct v; try discriminate.
    match goal with o : option value |- _ => destruct o as [y|] end; [|exact Hs].
    destruct f; [discriminate|]. cbn [spec] in Hs. destruct y; try discriminate. exact Hs.
  - (* SAddr *) destruct v; try discriminate. cbn [spec_encode]. rewrite s_addr_eq. exact Hs.
Qed.

(** with the encoder: bit-exactness of tlb.Marshal's model against the schema *)
Corollary encode_is_schema fuel s d env v b b' :
  refines fuel s d = true ->
  enc env fuel d v b = Ok b' ->
  exists bs rs, spec_encode s v = Some (bs, rs) /\ bb b' = bb b ++ bs /\ br b' = br b ++ rs.
Proof.
  intros Hr He. destruct (enc_is_spec env _ _ _ _ _ He) as (bs & rs & Hs & Hx).
  exists bs, rs. split; [eapply refines_sound; eassumption|exact Hx].
Qed.

(** *** primitive exactness *)
(* the n-bit big-endian numeral: the only n-bit list whose big-endian value is x *)
Theorem numeral_exact n x l :
  (x < 2 ^ N.of_nat n)%N -> (length l = n /\ N_of_bits l = x <-> l = numeral n x).
Proof.
  intros Hx. unfold numeral. split.
  - intros (Hl & Hv). apply N_of_bits_inj; [rewrite bits_of_length; exact Hl|].
    rewrite N_of_bits_bits_of_small by exact Hx. exact Hv.
  - intros ->. split; [apply bits_of_length|apply N_of_bits_bits_of_small; exact Hx].
Qed.

(* two's complement: the n-bit numeral of z mod 2^n; the first bit is the sign *)
Theorem twos_exact n z :
  (1 <= n)%nat -> (- 2 ^ (Z.of_nat n - 1) <= z < 2 ^ (Z.of_nat n - 1))%Z ->
  length (twos n z) = n /\
  Z.of_N (N_of_bits (twos n z)) = (z mod 2 ^ Z.of_nat n)%Z /\
  dec_int_bits (twos n z) = z.
Proof.
  intros Hn Hz. unfold twos, numeral. split; [apply bits_of_length|]. split.
  - assert (Hpos : (0 < 2 ^ Z.of_nat n)%Z) by (apply Z.pow_pos_nonneg; lia).
    pose proof (Z.mod_pos_bound z _ Hpos) as Hm.
    rewrite N_of_bits_bits_of_small.
    + rewrite Z2N.id by lia. reflexivity.
    + apply N2Z.inj_lt. rewrite Z2N.id by lia. rewrite N2Z.inj_pow, nat_N_Z. cbn. lia.
  - exact (Proofs.BitStringR2.dec_enc_int z n Hn Hz).
Qed.

(* #<= b is written in N.size b = floor(log2 b) + 1 bits, enough for every value <= b *)
Theorem le_width_exact b x :
  (x <= b)%N -> (x < 2 ^ N.of_nat (le_width b))%N.
Proof.
  intros Hx. unfold le_width. rewrite N2Nat.id.
  eapply N.le_lt_trans; [exact Hx|]. apply size_bound.
Qed.
