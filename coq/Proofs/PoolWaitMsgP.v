(** The waiter's contract in the repaired wait-list protocol (Model/PoolWait.v):
    provenance of the heads a waiter receives (soundness of success), the
    keep-the-newer notification never loses a sufficient head (completeness),
    a notification reaches every registered waiter, timeout / cancel always enabled. *)
From Coq Require Import List NArith ZArith Bool Arith Lia.
From Tongo Require Import Model.Pool Model.PoolWait Proofs.PoolWaitP.
Import ListNotations.

Lemma same_best_true s c : same_best s c = true -> best s = Some c.
Proof.
  unfold same_best. destruct (best s) as [b|]; [|discriminate].
  intros H. apply Nat.eqb_eq in H. congruence.
Qed.

(** notifySubscriber keeps the head with the larger seqno *)
Lemma newer_cases old u : newer old u = u \/ old = Some (newer old u).
Proof. unfold newer. destruct old as [m|]; [|auto]. destruct (snd u <? snd m)%N; auto. Qed.

Lemma newer_ge_new old u : (snd u <= snd (newer old u))%N.
Proof.
  unfold newer. destruct old as [m|]; [|lia].
  destruct (N.ltb_spec (snd u) (snd m)); lia.
Qed.

Lemma newer_ge_old m u : (snd m <= snd (newer (Some m) u))%N.
Proof. unfold newer. destruct (N.ltb_spec (snd u) (snd m)); lia. Qed.

Section Msg.
  Variable strat : strategy.
  Variable nconns : nat.
  Variable tgt : nat -> N.
  Notation step := (step strat false false nconns tgt).
  Notation reachable := (reachable strat false false nconns tgt).

  (** the ghost field [log] grows only by heads of the connection that is the best
      one in that very state: at subscribe (its current head) and when Run starts
      notifying an update whose connection id equals bestConn's *)
  Lemma log_from_best s l s' :
    step s l = Some s' ->
    log s' = log s \/
    exists c h, log s' = log s ++ [(c, h)] /\ best s = Some c /\
      ((exists w, l = LSubBody w /\ h = head s c) \/ (exists o, l = LRLock o /\ rpc s = RWantR (c, h))).
  Proof.
    intros Hs. step_inv Hs; guards; sred; try (left; reflexivity).
    - right. destruct u as [c h]. exists c, h. sred.
      repeat apply conj; [reflexivity|apply same_best_true; assumption|].
      right. eexists. split; reflexivity.
    - right. match goal with H : best s = Some ?b |- _ => exists b, (head s b) end.
      repeat apply conj; [reflexivity|reflexivity|].
      left. eexists. split; reflexivity.
  Qed.

  (** the caller has left its loop with nil (and is about to unsubscribe / has returned) *)
  Definition succeeded (pc : wait_pc) : Prop :=
    pc = WUnsub ROk \/ pc = WUnsubW ROk \/ pc = WDone ROk.

  Definition msg_inv (s : state) : Prop :=
    (forall w m, wch s w = Some m -> In m (log s)) /\
    (forall w m, wgot s w = Some m -> In m (log s)) /\
    (forall u mt w rem, rpc s = RNotify u mt (w :: rem) -> In u (log s)) /\
    (forall w, succeeded (wpc s w) <-> exists m, wgot s w = Some m /\ (tgt w <= snd m)%N).

  Lemma msg_inv_init heads b : msg_inv (init_state heads b).
  Proof.
    unfold msg_inv, init_state. sred. repeat apply conj; try discriminate.
    intros w. split; [intros [H|[H|H]]; discriminate|intros (m & H & _); discriminate].
  Qed.

  Ltac inlog :=
    try solve [eauto];
    try solve [apply in_or_app; left; eauto];
    try solve [apply in_or_app; right; left; congruence].

  Lemma msg_inv_step s l s' : msg_inv s -> step s l = Some s' -> msg_inv s'.
  Proof.
    intros (Hch & Hgot & Hnot & Hok) Hs. unfold msg_inv.
    assert (Hok1 := fun w => proj1 (Hok w)). assert (Hok2 := fun w => proj2 (Hok w)). clear Hok.
    unfold succeeded in *.
    step_inv Hs; guards; sred.
    all: repeat apply conj.
    all: intros; try split; intros; fu; sred.
    all: repeat match goal with
         | H : RNotify _ _ _ = RNotify _ _ _ |- _ => injection H as ? ? ?; subst
         | H : (_ <=? _)%N = true |- _ => apply N.leb_le in H
         | H : (_ <=? _)%N = false |- _ => apply N.leb_gt in H
         end.
    all: try congruence.
    all: inlog.
    all: try solve [match goal with H : _ = _ \/ _ = _ \/ _ = _ |- _ => destruct H as [H|[H|H]]; try discriminate H end;
                    first [ apply Hok1; left; congruence | apply Hok1; right; left; congruence
                          | apply Hok1; right; right; congruence
                          | eexists; split; [reflexivity|assumption] ]].
    all: try solve [match goal with H : exists _, wgot _ _ = Some _ /\ _ |- _ =>
                      apply Hok2 in H; destruct H as [H|[H|H]];
                      first [congruence | left; congruence | right; left; congruence | right; right; congruence] end].
    all: try solve [match goal with H : exists _, Some _ = Some _ /\ _ |- _ =>
                      destruct H as (? & [= <-] & ?); lia end].
    all: try solve [eapply Hnot; reflexivity].
    all: try solve [match goal with H : Some _ = Some _ |- _ => injection H as <- end;
                    match goal with |- In (newer ?o ?u) _ =>
                      destruct (newer_cases o u) as [Hn|Hn];
                      [rewrite Hn; eapply Hnot; reflexivity|eapply Hch; exact Hn] end].
    all: try solve [match goal with H : Some _ = Some _ |- _ => injection H as <- end; eauto].
  Qed.

  Theorem msg_inv_reachable heads b s :
    reachable (init_state heads b) s -> msg_inv s.
  Proof.
    induction 1 as [|s l s' _ IH Hs]; [apply msg_inv_init|exact (msg_inv_step _ _ _ IH Hs)].
  Qed.

  (** the heads in flight are heads the connection has really reached *)
  Definition head_inv (s : state) : Prop :=
    (forall c h, In (c, h) (log s) -> (h <= head s c)%N) /\
    (forall c h, In (c, h) (updq s) -> (h <= head s c)%N) /\
    (forall c h, In (c, h) (pend s) -> (h <= head s c)%N) /\
    (forall c h, rpc s = RWantR (c, h) -> (h <= head s c)%N).

  Lemma head_inv_init heads b : head_inv (init_state heads b).
  Proof.
    unfold head_inv, init_state. sred. repeat apply conj; try discriminate; intros c h [].
  Qed.

  Lemma In_remove_nth {A} (x : A) k : forall l, In x (remove_nth k l) -> In x l.
  Proof.
    induction k as [|k IH]; intros [|y t] Hin; cbn [remove_nth] in Hin; try contradiction.
    - right. exact Hin.
    - destruct Hin as [->|Hin]; [left; reflexivity|right; apply IH; exact Hin].
  Qed.

  Lemma head_inv_step s l s' : head_inv s -> step s l = Some s' -> head_inv s'.
  Proof.
    intros (Hlog & Hq & Hpd & Hr) Hs. unfold head_inv.
    step_inv Hs; guards; sred.
    all: repeat match goal with
         | H : (_ <? _)%N = true |- _ => apply N.ltb_lt in H
         end.
    all: repeat apply conj.
    all: intros; fu; sred.
    all: try solve [eauto].
    all: repeat match goal with
         | H : In _ (remove_nth _ _) |- _ => apply In_remove_nth in H
         | H : In _ (_ ++ _) |- _ => apply in_app_or in H as [H|H]
         | H : In _ [_] |- _ => destruct H as [H|[]]
         | H : (_, _) = (_, _) |- _ => first [injection H as ? ?|injection H as ?|clear H]; subst
         | H : RWantR _ = RWantR _ |- _ => injection H as ?; subst
         | H : updq _ = _ :: _ |- _ => rewrite H in *
         | H : nth_error _ _ = Some _ |- _ => apply nth_error_In in H
         end.
    all: try match goal with H : In _ (log _) |- _ => apply Hlog in H end.
    all: try match goal with H : In _ (updq _) |- _ => apply Hq in H end.
    all: try match goal with H : In _ (pend _) |- _ => apply Hpd in H end.
    all: try match goal with H : rpc _ = RWantR (_, _) |- _ => apply Hr in H end.
    all: try lia.
    all: try discriminate.
    all: try solve [apply Hq; simpl; eauto].
    all: try solve [eapply Hr; eauto].
    all: try solve [subst; apply Hr; reflexivity].
    all: try solve [subst; eauto].
  Qed.

  Theorem head_inv_reachable heads b s :
    reachable (init_state heads b) s -> head_inv s.
  Proof.
    induction 1 as [|s l s' _ IH Hs]; [apply head_inv_init|exact (head_inv_step _ _ _ IH Hs)].
  Qed.

  (** ---- success: soundness ---- *)

  (** success (the waiter left its loop with nil, or has returned nil) only if it
      received a head at or beyond its target; that head was published for the
      connection that was the best one when it was sent ([log], see
      [log_from_best]) and the connection had really reached it *)
  Theorem wait_success heads b s w :
    reachable (init_state heads b) s -> succeeded (wpc s w) ->
    exists c h, wgot s w = Some (c, h) /\ (tgt w <= h)%N /\ In (c, h) (log s) /\ (h <= head s c)%N.
  Proof.
    intros Hr Hpc.
    destruct (msg_inv_reachable _ _ _ Hr) as (_ & Hgot & _ & Hok).
    destruct (head_inv_reachable _ _ _ Hr) as (Hlog & _).
    destruct (proj1 (Hok w) Hpc) as ([c h] & Hg & Hle).
    exists c, h. repeat apply conj; [exact Hg|exact Hle|exact (Hgot _ _ Hg)|].
    apply Hlog. exact (Hgot _ _ Hg).
  Qed.

  Theorem wait_success_iff heads b s w :
    reachable (init_state heads b) s ->
    (succeeded (wpc s w) <-> exists m, wgot s w = Some m /\ (tgt w <= snd m)%N).
  Proof. intros Hr. destruct (msg_inv_reachable _ _ _ Hr) as (_ & _ & _ & Hok). apply Hok. Qed.

  (** a waiter in its loop can always take the timeout / cancel branch, and takes
      the success branch as soon as a sufficient head is in its channel *)
  Theorem wait_leave_enabled s w r :
    wpc s w = WWait -> r <> ROk -> exists s', step s (LLeave w r) = Some s' /\ wpc s' w = WUnsub r.
  Proof.
    intros Hpc Hr. unfold PoolWait.step. rewrite Hpc.
    destruct r; [contradiction| |]; eexists; (split; [reflexivity|]); sred; apply fupd_same.
  Qed.

  Theorem wait_recv_enabled s w m :
    wpc s w = WWait -> wch s w = Some m ->
    exists s', step s (LRecv w) = Some s' /\
      wpc s' w = (if (tgt w <=? snd m)%N then WUnsub ROk else WWait) /\ wch s' w = None /\
      wgot s' w = Some m.
  Proof.
    intros Hpc Hch. unfold PoolWait.step. rewrite Hpc, Hch. eexists. split; [reflexivity|].
    sred. rewrite !fupd_same. auto.
  Qed.

  (** subscribe when the best connection is already at the target: the head is put
      into the fresh channel, nothing is registered, the first receive succeeds *)
  Theorem wait_immediate s w b :
    wpc s w = WSubL -> writer s = Some (AW w) -> best s = Some b -> (tgt w <= head s b)%N ->
    exists s1 s2, step s (LSubBody w) = Some s1 /\ step s1 (LRecv w) = Some s2 /\
                  wpc s2 w = WUnsub ROk /\ writer s1 = None /\ wl s1 = wl s.
  Proof.
    intros Hpc Hwr Hb Hle. unfold PoolWait.step at 1. rewrite Hpc. unfold is_writer.
    rewrite Hwr, Nat.eqb_refl, Hb. apply N.leb_le in Hle. rewrite Hle.
    eexists. eexists. split; [reflexivity|]. unfold PoolWait.step. sred. rewrite !fupd_same. sred.
    rewrite Hle. split; [reflexivity|]. sred. rewrite fupd_same. auto.
  Qed.

  (** an error result is only ever produced by the timeout / cancel branch *)
  Theorem wait_error s l s' w r :
    step s l = Some s' -> wpc s' w = WUnsub r -> wpc s w <> WUnsub r -> r <> ROk -> l = LLeave w r.
  Proof.
    intros Hs Hpc' Hpc Hr. step_inv Hs; guards; sred; try congruence.
    all: fu; sred; try congruence.
    all: match goal with H : (if ?b then _ else _) = _ |- _ => destruct b; congruence end.
  Qed.

  (** ---- success: completeness (no sufficient head is ever lost) ---- *)

  (** [woff s w] is the ghost list of all heads sent into w's channel.  While the
      waiter has not left, a sufficient head among them is still in the channel
      (or a newer one is): replacing the pending head keeps the larger seqno. *)
  Definition not_left (pc : wait_pc) : bool :=
    match pc with WNew | WSubW | WSubL | WWait => true | _ => false end.

  Definition offer_inv (s : state) : Prop :=
    forall w, not_left (wpc s w) = true ->
      forall m, In m (woff s w) -> (tgt w <= snd m)%N ->
        exists m', wch s w = Some m' /\ (tgt w <= snd m')%N.

  Lemma offer_inv_init heads b : offer_inv (init_state heads b).
  Proof. unfold offer_inv, init_state. sred. intros w _ m []. Qed.

  Lemma offer_inv_step s l s' : offer_inv s -> step s l = Some s' -> offer_inv s'.
  Proof.
    intros Hoff Hs. unfold offer_inv.
    step_inv Hs; guards; sred; try exact Hoff.
    all: intros w' Hpc m' Hin Hle; fu; sred; cbn [not_left] in *.
    all: repeat match goal with
         | H : (_ <=? _)%N = true |- _ => apply N.leb_le in H
         | H : (_ <=? _)%N = false |- _ => apply N.leb_gt in H
         end.
    all: try solve [eapply Hoff; eauto].
    all: try discriminate.
    all: try solve [eapply Hoff; eauto; match goal with H : wpc _ _ = _ |- _ => rewrite H; reflexivity end].
    all: try solve [destruct (_ <=? _)%N; discriminate].
    - (* LSend into w's channel: the channel keeps the newer head *)
      exists (newer (wch s n) u). split; [reflexivity|].
      apply in_app_or in Hin as [Hin|[Heq|[]]].
      + destruct (Hoff _ Hpc _ Hin Hle) as (m0 & Hch & Hle0). rewrite Hch.
        eapply N.le_trans; [exact Hle0|exact (newer_ge_old m0 u)].
      + subst m'. eapply N.le_trans; [exact Hle|exact (newer_ge_new (wch s n) u)].
    - (* subscribe, head already there *)
      eexists. split; [reflexivity|]. sred. assumption.
    - (* receive of an insufficient head: then nothing sufficient had been offered *)
      exfalso. assert (Hpc0 : not_left (wpc s w) = true)
        by (match goal with H : wpc s w = _ |- _ => rewrite H; reflexivity end).
      destruct (Hoff _ Hpc0 _ Hin Hle) as (m0 & Hch & Hle0).
      match goal with H : wch s w = Some _ |- _ => rewrite H in Hch; injection Hch as <- end. lia.
  Qed.

  Theorem offer_inv_reachable heads b s :
    reachable (init_state heads b) s -> offer_inv s.
  Proof.
    induction 1 as [|s l s' _ IH Hs]; [apply offer_inv_init|exact (offer_inv_step _ _ _ IH Hs)].
  Qed.

  (** a waiter in its loop to which a sufficient head has been sent finds a
      sufficient head in its channel, and its receive step returns success *)
  Theorem wait_not_missed heads b s w m :
    reachable (init_state heads b) s ->
    wpc s w = WWait -> In m (woff s w) -> (tgt w <= snd m)%N ->
    exists m' s', wch s w = Some m' /\ (tgt w <= snd m')%N /\
                  step s (LRecv w) = Some s' /\ wpc s' w = WUnsub ROk.
  Proof.
    intros Hr Hpc Hin Hle.
    assert (Hnl : not_left (wpc s w) = true) by (rewrite Hpc; reflexivity).
    destruct (offer_inv_reachable _ _ _ Hr w Hnl m Hin Hle) as (m' & Hch & Hle').
    destruct (wait_recv_enabled s w m' Hpc Hch) as (s' & Hs & Hpc' & _).
    exists m', s'. repeat apply conj; auto.
    rewrite Hpc'. apply N.leb_le in Hle'. rewrite Hle'. reflexivity.
  Qed.

  (** ---- a notification of the best connection's head reaches every registered waiter ---- *)

  Definition cover_inv (s : state) : Prop :=
    forall u rem, rpc s = RNotify u true rem ->
      forall e, In e (wl s) -> In (snd e) rem \/ In u (woff s (snd e)).

  Lemma mem_In x l : mem x l = true -> In x l.
  Proof.
    unfold mem. intros H. apply existsb_exists in H as (y & Hy & He).
    apply Nat.eqb_eq in He. subst. exact Hy.
  Qed.

  Lemma cover_inv_step s l s' :
    lock_inv s -> cover_inv s -> step s l = Some s' -> cover_inv s'.
  Proof.
    intros (Hrd & Hmx & _ & Hw) Hcov Hs. unfold cover_inv.
    step_inv Hs; guards; sred; try exact Hcov; try discriminate.
    all: intros u' rem' Hp e He; sred.
    all: try solve [eapply Hcov; eauto].
    all: try discriminate.
    - (* RLock: the order covers the wait list *)
      injection Hp as <- <-. left.
      match goal with H : is_order _ _ = true |- _ =>
        unfold is_order in H; apply andb_true_iff in H as [_ H];
        rewrite forallb_forall in H; apply mem_In; apply H; apply in_map; exact He end.
    - (* send *)
      injection Hp as ? ? ?; subst.
      destruct (Hcov _ _ Heqr e He) as [[Heq|Hin]|Hin].
      + right. rewrite Heq, fupd_same. apply in_or_app. right. left. reflexivity.
      + left. exact Hin.
      + right. fu; [apply in_or_app; left; exact Hin|exact Hin].
    - (* subscribe cannot run while Run holds the read lock *)
      rewrite Hp in Hmx. specialize (Hmx _ _ _ eq_refl). congruence.
    - rewrite Hp in Hmx. specialize (Hmx _ _ _ eq_refl). congruence.
    - (* unsubscribe only removes *)
      apply filter_In in He as [He _]. eapply Hcov; eauto.
  Qed.

  Theorem cover_inv_reachable heads b s :
    reachable (init_state heads b) s -> cover_inv s.
  Proof.
    induction 1 as [|s l s' Hr IH Hs].
    - unfold cover_inv, init_state. sred. discriminate.
    - eapply cover_inv_step; [eapply lock_inv_reachable; exact Hr|exact IH|exact Hs].
  Qed.

  (** when Run has finished notifying a head of the best connection, every waiter
      registered at that moment has been sent it *)
  Theorem notify_reaches_all heads b s u :
    reachable (init_state heads b) s -> rpc s = RNotify u true [] ->
    forall id w, In (id, w) (wl s) -> In u (woff s w).
  Proof.
    intros Hr Hp id w He.
    destruct (cover_inv_reachable _ _ _ Hr _ _ Hp _ He) as [[]|H]. exact H.
  Qed.
End Msg.
