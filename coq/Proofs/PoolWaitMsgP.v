(** Provenance of the heads a waiter receives (Model/PoolWait.v): every head in
    a waiter channel was published for the connection that was the best one at
    that moment, and that connection really had reached it. *)
From Coq Require Import List NArith Bool Arith Lia.
From Tongo Require Import Model.PoolWait Proofs.PoolWaitP.
Import ListNotations.

Lemma same_best_true s c : same_best s c = true -> best s = Some c.
Proof.
  unfold same_best. destruct (best s) as [b|]; [|discriminate].
  intros H. apply Nat.eqb_eq in H. congruence.
Qed.

Section Msg.
  Variable nconns : nat.
  Variable tgt : nat -> N.
  Notation step := (step nconns tgt).
  Notation reachable := (reachable nconns tgt).

  (** the ghost field [log] grows only by heads of the connection that is the best
      one in that very state: at subscribe (its current head) and when Run starts
      notifying an update whose connection id equals bestConn's *)
  Lemma log_from_best s l s' :
    step s l = Some s' ->
    log s' = log s \/
    exists c h, log s' = log s ++ [(c, h)] /\ best s = Some c /\
      ((exists w, l = LSubBody w /\ h = head s c) \/ (exists o, l = LRLock o /\ rpc s = RWantR (c, h))).
  Proof.
    intros Hs. step_inv Hs; guards; sred; try (left; reflexivity).
    - right. destruct u as [c h]. exists c, h. sred.
      repeat apply conj; [reflexivity|apply same_best_true; exact Heqb|].
      right. eexists. split; reflexivity.
    - right. exists n, (head s n). repeat apply conj; [reflexivity|reflexivity|].
      left. eexists. split; reflexivity.
  Qed.

  Definition msg_inv (s : state) : Prop :=
    (forall w m, wch s w = Some m -> In m (log s)) /\
    (forall w m, wgot s w = Some m -> In m (log s)) /\
    (forall u w rem, rpc s = RNotify u (w :: rem) -> In u (log s)) /\
    (forall w, (wpc s w = WUnsub ROk \/ wpc s w = WDone ROk) <->
               exists m, wgot s w = Some m /\ (tgt w <= snd m)%N).

  Lemma msg_inv_init heads b : msg_inv (init_state heads b).
  Proof.
    unfold msg_inv, init_state. sred. repeat apply conj; try discriminate.
    intros w. split; [intros [H|H]; discriminate|intros (m & H & _); discriminate].
  Qed.

  Ltac inlog :=
    try solve [eauto];
    try solve [apply in_or_app; left; eauto];
    try solve [apply in_or_app; right; left; congruence].

  Lemma msg_inv_step s l s' : msg_inv s -> step s l = Some s' -> msg_inv s'.
  Proof.
    intros (Hch & Hgot & Hnot & Hok) Hs. unfold msg_inv.
    assert (Hok1 := fun w => proj1 (Hok w)). assert (Hok2 := fun w => proj2 (Hok w)). clear Hok.
    step_inv Hs; guards; sred.
    all: repeat apply conj.
    all: intros; try split; intros; fu; sred.
    all: repeat match goal with
         | H : RNotify _ _ = RNotify _ _ |- _ => injection H as ? ?; subst
         | H : (_ <=? _)%N = true |- _ => apply N.leb_le in H
         | H : (_ <=? _)%N = false |- _ => apply N.leb_gt in H
         end.
    all: try congruence.
    all: inlog.
    all: try solve [match goal with H : _ = _ \/ _ = _ |- _ => destruct H as [H|H]; try discriminate H end;
                    first [ apply Hok1; left; congruence | apply Hok1; right; congruence
                          | eexists; split; [reflexivity|assumption] ]].
    all: try solve [match goal with H : exists _, wgot _ _ = Some _ /\ _ |- _ =>
                      apply Hok2 in H; destruct H as [H|H];
                      first [congruence | left; congruence | right; congruence] end].
    all: try solve [match goal with H : exists _, Some _ = Some _ /\ _ |- _ =>
                      destruct H as (? & [= <-] & ?); lia end].
    all: match goal with H : Some _ = Some _ |- _ => injection H as <- end.
    all: try solve [eapply Hnot; reflexivity]; eauto.
  Qed.

  Theorem msg_inv_reachable heads b s :
    reachable (init_state heads b) s -> msg_inv s.
  Proof.
    induction 1 as [|s l s' _ IH Hs]; [apply msg_inv_init|exact (msg_inv_step _ _ _ IH Hs)].
  Qed.

  (** the heads in flight are heads the connection has really reached *)
  Definition head_inv (s : state) : Prop :=
    (forall c h, In (c, h) (log s) -> (h <= head s c)%N) /\
    (forall c h, In (c, h) (updq s) -> (h <= head s c)%N) /\
    (forall c h, rpc s = RWantR (c, h) -> (h <= head s c)%N) /\
    (forall c h, cpc s c = CPub h -> (h <= head s c)%N).

  Lemma head_inv_init heads b : head_inv (init_state heads b).
  Proof.
    unfold head_inv, init_state. sred. repeat apply conj; try discriminate; intros c h [].
  Qed.

  Lemma head_inv_step s l s' : head_inv s -> step s l = Some s' -> head_inv s'.
  Proof.
    intros (Hlog & Hq & Hr & Hc) Hs. unfold head_inv.
    step_inv Hs; guards; sred.
    all: repeat match goal with
         | H : (_ <? _)%N = true |- _ => apply N.ltb_lt in H
         end.
    all: repeat apply conj.
    all: intros; fu; sred.
    all: try solve [eauto].
    all: repeat match goal with
         | H : In _ (_ ++ _) |- _ => apply in_app_or in H as [H|H]
         | H : In _ [_] |- _ => destruct H as [H|[]]
         | H : (_, _) = (_, _) |- _ => injection H as ? ?; subst
         | H : CPub _ = CPub _ |- _ => injection H as ?; subst
         | H : RWantR _ = RWantR _ |- _ => injection H as ?; subst
         | H : updq _ = _ :: _ |- _ => rewrite H in *
         end.
    all: try match goal with H : In _ (log _) |- _ => apply Hlog in H end.
    all: try match goal with H : In _ (updq _) |- _ => apply Hq in H end.
    all: try match goal with H : cpc _ _ = CPub _ |- _ => apply Hc in H end.
    all: try match goal with H : rpc _ = RWantR (_, _) |- _ => apply Hr in H end.
    all: try lia.
    all: try discriminate.
    all: try solve [apply Hq; simpl; eauto].
    all: try solve [eapply Hr; eauto].
    subst u. apply Hr. reflexivity.
  Qed.

  Theorem head_inv_reachable heads b s :
    reachable (init_state heads b) s -> head_inv s.
  Proof.
    induction 1 as [|s l s' _ IH Hs]; [apply head_inv_init|exact (head_inv_step _ _ _ IH Hs)].
  Qed.

  (** ---- the waiter's contract ---- *)

  (** success (the waiter left its loop with nil, or has returned nil) iff it
      received a head at or beyond its target; that head was published for the
      connection that was the best one when it was sent ([log], see
      [log_from_best]) and the connection had really reached it *)
  Theorem wait_success heads b s w :
    reachable (init_state heads b) s ->
    (wpc s w = WUnsub ROk \/ wpc s w = WDone ROk) ->
    exists c h, wgot s w = Some (c, h) /\ (tgt w <= h)%N /\ In (c, h) (log s) /\ (h <= head s c)%N.
  Proof.
    intros Hr Hpc.
    destruct (msg_inv_reachable _ _ _ Hr) as (_ & Hgot & _ & Hok).
    destruct (head_inv_reachable _ _ _ Hr) as (Hlog & _).
    destruct (proj1 (Hok w) Hpc) as ([c h] & Hg & Hle).
    exists c, h. repeat apply conj; [exact Hg|exact Hle|exact (Hgot _ _ Hg)|].
    apply Hlog. exact (Hgot _ _ Hg).
  Qed.

  Theorem wait_success_iff heads b s w :
    reachable (init_state heads b) s ->
    ((wpc s w = WUnsub ROk \/ wpc s w = WDone ROk) <->
     exists m, wgot s w = Some m /\ (tgt w <= snd m)%N).
  Proof. intros Hr. destruct (msg_inv_reachable _ _ _ Hr) as (_ & _ & _ & Hok). apply Hok. Qed.

  (** a waiter in its loop can always take the timeout / cancel branch, and takes
      the success branch as soon as a sufficient head is in its channel *)
  Theorem wait_leave_enabled s w r :
    wpc s w = WWait -> r <> ROk -> exists s', step s (LLeave w r) = Some s' /\ wpc s' w = WUnsub r.
  Proof.
    intros Hpc Hr. unfold step. rewrite Hpc.
    destruct r; [contradiction| |]; eexists; (split; [reflexivity|]); sred; apply fupd_same.
  Qed.

  Theorem wait_recv_enabled s w m :
    wpc s w = WWait -> wch s w = Some m ->
    exists s', step s (LRecv w) = Some s' /\
      wpc s' w = (if (tgt w <=? snd m)%N then WUnsub ROk else WWait) /\ wch s' w = None.
  Proof.
    intros Hpc Hch. unfold step. rewrite Hpc, Hch. eexists. split; [reflexivity|].
    sred. rewrite !fupd_same. auto.
  Qed.

  (** an error result is only ever produced by the timeout / cancel branch *)
  Theorem wait_error s l s' w r :
    step s l = Some s' -> wpc s' w = WUnsub r -> wpc s w <> WUnsub r -> r <> ROk -> l = LLeave w r.
  Proof.
    intros Hs Hpc' Hpc Hr. step_inv Hs; guards; sred; try congruence.
    all: fu; sred; try congruence.
    all: match goal with H : (if ?b then _ else _) = _ |- _ => destruct b; congruence end.
  Qed.

  (** returning (running the deferred unsubscribe) needs the pool lock: it is
      enabled exactly when nobody holds it *)
  Theorem wait_return_enabled s w r :
    wpc s w = WUnsub r -> (step s (LUnsub w) <> None <-> lock_free s = true).
  Proof.
    intros Hpc. unfold step. rewrite Hpc. destruct (lock_free s); split; congruence.
  Qed.
End Msg.
