(** Proofs for C16, part 5: SourceBoc is tongo's own serialiser (Model/BocSer.v,
    shown byte-exact by C01) applied to the captured cell with the hashes of the
    (caching) hasher: its output parses back to one root whose hash is the
    reported transaction hash.  Bridges: the two unfoldings of a cell array
    (BocParseP.unfold_at on [tree], DagP.trees_of on [cell]) agree, and the
    hashes of eval_dag are never the model's fuel error. *)
From Coq Require Import List NArith ZArith Arith Lia Bool.
From Tongo Require Import Lib.Bits Lib.Res Model.BocParse Model.CellHash Spec.ReprHash Model.BocSer
  Spec.BocLayout Proofs.CellHashP Proofs.BocParseP Proofs.DagP Proofs.BocLayoutP
  Proofs.BocReorderP4 Proofs.BocSerLayoutP2 Proofs.BocSerLayoutP5 Proofs.BocSerLayoutP6 Proofs.BocSerLayoutP8
  Model.MsgHash Proofs.MsgHashP.
Import ListNotations.

(** *** tree = cell *)
Fixpoint cell_of_tree (t : tree) : cell :=
  match t with
  | T s ty m b refs =>
      Cell s ty m b ((fix go (l : list tree) : list cell :=
                        match l with [] => [] | x :: r => cell_of_tree x :: go r end) refs)
  end.

Lemma trees_of_skipn : forall b cells base,
  skipn b (trees_of base cells) = trees_of (base + b) (skipn b cells).
Proof.
  induction b as [|b IH]; intros cells base.
  - rewrite Nat.add_0_r. reflexivity.
  - destruct cells as [|c rest]; [reflexivity|]. cbn [trees_of skipn].
    rewrite IH. f_equal. lia.
Qed.

Lemma nth_error_skipn {A} (l : list A) b r : (b <= r)%nat -> nth_error (skipn b l) (r - b) = nth_error l r.
Proof.
  revert l r. induction b as [|b IH]; intros l r Hr.
  - rewrite Nat.sub_0_r. reflexivity.
  - destruct l as [|x t]; [cbn [skipn]; destruct (r - S b)%nat, r; reflexivity|].
    destruct r as [|r]; [lia|]. cbn [skipn nth_error Nat.sub]. apply IH. lia.
Qed.

Lemma nth_error_Some_lt {A} (l : list A) i x : nth_error l i = Some x -> (i < length l)%nat.
Proof. intros E. apply nth_error_Some. rewrite E. discriminate. Qed.

(* entry k of trees_of: the node with its references looked up in the later entries *)
Lemma trees_of_at : forall cells k nd,
  nth_error cells k = Some nd ->
  nth_error (trees_of 0 cells) k =
  Some (do refs <- lookup_trees (skipn (S k) (trees_of 0 cells)) (S k) (n_refs nd);
        Ok (Cell (n_special nd) (n_type nd) (n_mask nd) (n_bits nd) refs)).
Proof.
  intros cells k nd En.
  rewrite <- (nth_error_skipn (trees_of 0 cells) k k) by lia. rewrite Nat.sub_diag.
  rewrite (trees_of_skipn (S k)), (trees_of_skipn k). cbn [Nat.add].
  destruct (skipn k cells) as [|c rest] eqn:Es.
  - exfalso. assert (L : length (skipn k cells) = 0%nat) by (rewrite Es; reflexivity).
    rewrite skipn_length in L. apply nth_error_Some_lt in En. lia.
  - assert (c = nd) as ->.
    { rewrite <- (nth_error_skipn cells k k) in En by lia. rewrite Nat.sub_diag, Es in En.
      injection En as En. exact En. }
    assert (Er : skipn (S k) cells = rest).
    { replace (S k) with (k + 1)%nat by lia. rewrite <- skipn_add, Es. reflexivity. }
    rewrite Er. reflexivity.
Qed.

Lemma trees_of_at' cells k nd :
  nth_error cells k = Some nd ->
  exists done,
    (forall r, (k < r)%nat -> nth_error done (r - S k) = nth_error (trees_of 0 cells) r) /\
    nth_error (trees_of 0 cells) k =
    Some (do refs <- lookup_trees done (S k) (n_refs nd);
          Ok (Cell (n_special nd) (n_type nd) (n_mask nd) (n_bits nd) refs)).
Proof.
  intros En. exists (skipn (S k) (trees_of 0 cells)). split.
  - intros r Hr. apply nth_error_skipn. lia.
  - apply trees_of_at. exact En.
Qed.

Lemma unfold_is_tree cells : dag_wf cells -> forall f i t c,
  unfold_at f cells i = Some t -> nth_error (trees_of 0 cells) i = Some (Ok c) -> cell_of_tree t = c.
Proof.
  intros Hwf. induction f as [|f IH]; intros i t c Hu Ht; [discriminate|].
  cbn [unfold_at] in Hu. destruct (nth_error cells i) as [nd|] eqn:En; [|discriminate].
  destruct (trees_of_at' _ _ _ En) as (done & Hd & Et). rewrite Et in Ht. clear Et. injection Ht as Ht.
  pose proof (dag_wf_nth _ _ 0 i nd Hwf En) as (_ & _ & Hrefs). cbn [Nat.add] in Hrefs.
  match type of Hu with match ?G with _ => _ end = _ => destruct G as [ts|] eqn:Eg; [|discriminate] end.
  injection Hu as <-.
  destruct (lookup_trees _ _ _) as [cs|e|p] eqn:El; cbn [bind] in Ht; try discriminate.
  injection Ht as <-. cbn [cell_of_tree]. f_equal.
  clear En. revert ts cs Eg El. induction (n_refs nd) as [|r rs IHr]; intros ts cs Eg El.
  - injection Eg as <-. injection El as <-. reflexivity.
  - inversion Hrefs as [|? ? Hr Hrs]; subst. cbn [lookup_trees] in El.
    destruct (unfold_at f cells r) as [x|] eqn:Ex; [|discriminate].
    match type of Eg with match ?G with _ => _ end = _ => destruct G as [xs|] eqn:Exs; [|discriminate] end.
    injection Eg as <-.
    destruct (nth_error done (r - S i)) as [rc|] eqn:En; [|discriminate].
    destruct rc as [cx|e|p]; cbn [bind] in El; try discriminate.
    destruct (lookup_trees _ _ rs) as [cxs|e|p] eqn:Els; cbn [bind] in El; try discriminate.
    injection El as <-.
    rewrite Hd in En by lia.
    f_equal; [exact (IH _ _ _ Ex En)|exact (IHr Hrs _ _ eq_refl eq_refl)].
Qed.

(** *** the hasher never returns the model's fuel error *)
Lemma mapM_err {A B} (f : A -> res B) l e :
  mapM f l = Err e -> exists x, In x l /\ f x = Err e.
Proof.
  induction l as [|a t IH]; [discriminate|]. cbn [mapM].
  destruct (f a) as [b|e'|p] eqn:Ea; cbn [bind]; try discriminate.
  - destruct (mapM f t) as [bs|e'|p]; cbn [bind]; try discriminate.
    intros E. injection E as ->. destruct (IH eq_refl) as (x & Hin & Hx). exists x. split; [right; exact Hin|exact Hx].
  - intros E. injection E as ->. exists a. split; [left; reflexivity|exact Ea].
Qed.

Lemma imm_depth_no_err c l e : imm_depth c l <> Err e.
Proof.
  unfold imm_depth. destruct (is_pruned _ _); [destruct (negb _)|];
    repeat match goal with |- match ?X with _ => _ end <> _ => destruct X end; discriminate.
Qed.
Lemma imm_hash_no_err c l e : imm_hash c l <> Err e.
Proof.
  unfold imm_hash. destruct (is_pruned _ _); [destruct (negb _)|];
    repeat match goal with |- match ?X with _ => _ end <> _ => destruct X end; discriminate.
Qed.

Lemma build_loop_err H sp ty m l refs : forall levels seen hs ds e,
  build_loop H sp ty m l refs levels seen hs ds = Err e -> e = EDepth.
Proof.
  induction levels as [|i rest IH]; intros seen hs ds e E; [discriminate|].
  cbn [build_loop] in E.
  destruct (negb (mask_significant m i)); [eapply IH; exact E|].
  destruct (seen <? (if is_pruned sp ty then mask_popcount m else 0))%nat; [eapply IH; exact E|].
  match type of E with bind ?X _ = _ => destruct X as [hd|e'|p] eqn:Eh end; cbn [bind] in E; try discriminate.
  - match type of E with bind ?X _ = _ => destruct X as [cd|e'|p] eqn:Ed end; cbn [bind] in E; try discriminate.
    + match type of E with (if ?c then _ else _) = _ => destruct c end; [injection E as <-; reflexivity|].
      match type of E with bind ?X _ = _ => destruct X as [ch|e'|p] eqn:Ec end; cbn [bind] in E; try discriminate.
      * eapply IH; exact E.
      * injection E as ->. destruct (mapM_err _ _ _ Ec) as (x & _ & Hx). exfalso. eapply imm_hash_no_err; exact Hx.
    + injection E as ->. destruct (mapM_err _ _ _ Ed) as (x & _ & Hx). exfalso. eapply imm_depth_no_err; exact Hx.
  - exfalso. destruct (seen =? _)%nat; [discriminate|]. destruct (nth_error hs _); discriminate.
Qed.

Lemma lookup_refs_err done base refs e :
  lookup_refs done base refs = Err e -> In (Err e) done.
Proof.
  induction refs as [|r t IH]; [discriminate|]. cbn [lookup_refs].
  destruct (nth_error done (r - base)) as [rc|] eqn:En; [|discriminate].
  destruct rc as [c|e'|p]; cbn [bind]; try discriminate.
  - destruct (lookup_refs done base t) as [cs|e'|p]; cbn [bind]; try discriminate.
    intros E. injection E as ->. apply IH. reflexivity.
  - intros E. injection E as ->. eapply nth_error_In. exact En.
Qed.

Lemma eval_dag_err H : forall cells i e, In (Err e) (eval_dag H i cells) -> e = EDepth.
Proof.
  induction cells as [|c rest IH]; intros i e Hin; [contradiction|].
  cbn [eval_dag] in Hin. destruct Hin as [E|Hin]; [|eapply IH; exact Hin].
  destruct (lookup_refs _ _ _) as [refs|e'|p] eqn:El; cbn [bind] in E; try discriminate.
  - unfold build_imm in E.
    destruct (build_loop _ _ _ _ _ _ _ _ _ _) as [[hs ds]|e'|p] eqn:Eb; cbn [bind] in E; try discriminate.
    injection E as Ee. subst. eapply build_loop_err. exact Eb.
  - injection E as Ee. subst. eapply IH. eapply lookup_refs_err. exact El.
Qed.

Definition hasher_hashes (H : bytes -> bytes) (cells : list node) : list (res bytes) :=
  map (fun ri => do c <- ri; cell_hash c) (eval_dag H 0 cells).

Lemma hasher_hashes_real H cells : hashes_real (hasher_hashes H cells).
Proof.
  intros k e En. unfold hasher_hashes in En. rewrite nth_error_map in En.
  destruct (nth_error (eval_dag H 0 cells) k) as [ri|] eqn:Ei; [|discriminate].
  cbn [option_map] in En. injection En as En.
  destruct ri as [c|e'|p]; cbn [bind] in En; try discriminate.
  - exfalso. unfold cell_hash in En. eapply imm_hash_no_err. exact En.
  - injection En as Ee. subst. rewrite (eval_dag_err H cells 0 _ (nth_error_In _ _ Ei)). unfold EDepth, EFuel. discriminate.
Qed.

(** *** SourceBoc *)
Section S.
Variable H : bytes -> bytes.

Theorem source_boc_model_parses_back o c t cells k bs :
  decode_tx H o c = Ok t ->
  dag_wf cells -> Forall node_ok cells -> (N.of_nat (length cells) < 2 ^ 24)%N ->
  nth_error (trees_of 0 cells) k = Some (Ok (tx_src t)) ->
  collision_free cells (hasher_hashes H cells) [k] ->
  serialize cells (hasher_hashes H cells) [k] false false false = Ok bs ->
  exists p r', parse_boc bs = Ok p /\ p_roots p = [r'] /\ cached_hash H (p_cells p) r' = Ok (tx_hash t).
Proof.
  intros E Hwf Hok Hn Ht Hcf Hs.
  destruct (decode_tx_gen_hash _ _ _ _ _ E) as (Hh & Hsrc). rewrite Hsrc in Ht. clear Hsrc E.
  destruct (boc_roundtrip_model cells (hasher_hashes H cells) [k] Hwf Hok (hasher_hashes_real H cells) Hn
              ltac:(cbn; lia) Hcf false false false bs Hs)
    as (p & st0 & m & rootpos & stf & nl & Hp & _ & _ & _ & Hwf' & HF).
  inversion HF as [|r' r l' l (t0 & U1 & U2) HF' E1 E2]; subst. inversion HF'; subst.
  exists p, r'. split; [exact Hp|]. split; [symmetry; assumption|].
  pose proof (unfold_is_tree _ Hwf _ _ _ _ U1 Ht) as Ec.
  (* the parsed array unfolds at r' to the same cell *)
  assert (Hr : (r' < length (p_cells p))%nat).
  { destruct (nth_error (p_cells p) r') eqn:En; [apply nth_error_Some_lt in En; exact En|].
    destruct (length (p_cells p)); cbn [unfold_at] in U2; [discriminate|]. rewrite En in U2. discriminate. }
  pose proof (trees_of_wf (p_cells p) 0 (length (p_cells p)) Hwf' eq_refl) as Fall.
  destruct (nth_error (trees_of 0 (p_cells p)) r') as [rc|] eqn:En.
  2:{ apply nth_error_None in En. rewrite trees_of_length in En. lia. }
  rewrite Forall_forall in Fall. destruct (Fall rc (nth_error_In _ _ En)) as (c' & ->).
  pose proof (unfold_is_tree _ Hwf' _ _ _ _ U2 En) as Ec'.
  rewrite (cached_hash_is_hash_cell H _ _ _ En). rewrite <- Ec', Ec. exact Hh.
Qed.

End S.
