(** CRC-16/XMODEM: xor-linearity of the bitwise definition, and the
    table-driven loop of utils/crc16.go computes it when the table is the one
    derived from the polynomial. *)
From Coq Require Import List NArith ZArith Arith Lia Bool.
From Tongo Require Import Lib.Bits Model.Address.
Import ListNotations.
Local Open Scope N_scope.

(** ** small bitwise toolkit *)
Ltac bits_ext n := apply N.bits_inj; intro n;
  repeat first [rewrite N.lxor_spec | rewrite N.land_spec | rewrite N.lor_spec | rewrite N.bits_0].
Ltac kill_bits :=
  repeat match goal with
         | |- context [N.testbit ?x ?n] => destruct (N.testbit x n)
         end; reflexivity.
(* equalities between xor/and combinations of opaque atoms *)
Ltac lxor_ac := let n := fresh "n" in bits_ext n; kill_bits.

Lemma land_lxor_distr_l a b m : N.land (N.lxor a b) m = N.lxor (N.land a m) (N.land b m).
Proof. lxor_ac. Qed.

Lemma lxor_lt_pow2 a b n : a < 2 ^ n -> b < 2 ^ n -> N.lxor a b < 2 ^ n.
Proof.
  intros Ha Hb.
  destruct (N.eq_dec (N.lxor a b) 0) as [E|NE]; [rewrite E; apply pow2_pos|].
  apply N.log2_lt_pow2; [lia|].
  pose proof (N.log2_lxor a b) as HL.
  destruct (N.eq_dec a 0) as [Ea|Na].
  - subst a. rewrite N.lxor_0_l in *. apply N.log2_lt_pow2; lia.
  - destruct (N.eq_dec b 0) as [Eb|Nb].
    + subst b. rewrite N.lxor_0_r in *. apply N.log2_lt_pow2; lia.
    + assert (N.log2 a < n) by (apply N.log2_lt_pow2; lia).
      assert (N.log2 b < n) by (apply N.log2_lt_pow2; lia). lia.
Qed.

Lemma land_ones_small a n : a < 2 ^ n -> N.land a (N.ones n) = a.
Proof. intros H. rewrite N.land_ones. apply N.mod_small; exact H. Qed.

(* c = (c >> k) << k  xor  (c & ones k) *)
Lemma split_hi_lo c k : c = N.lxor (N.shiftl (N.shiftr c k) k) (N.land c (N.ones k)).
Proof.
  bits_ext n. destruct (N.ltb_spec n k) as [L|G].
  - rewrite N.shiftl_spec_low by exact L. rewrite N.ones_spec_low by exact L.
    destruct (N.testbit c n); reflexivity.
  - rewrite N.shiftl_spec_high' by exact G. rewrite N.shiftr_spec'.
    rewrite N.sub_add by exact G. rewrite N.ones_spec_high by exact G.
    destruct (N.testbit c n); reflexivity.
Qed.

(* (c << k) & ones (k + j) = (c & ones j) << k *)
Lemma shiftl_land_ones c k j :
  N.land (N.shiftl c k) (N.ones (k + j)) = N.shiftl (N.land c (N.ones j)) k.
Proof.
  bits_ext n. destruct (N.ltb_spec n k) as [L|G].
  - rewrite !N.shiftl_spec_low by exact L. reflexivity.
  - rewrite !N.shiftl_spec_high' by exact G. rewrite N.land_spec.
    destruct (N.ltb_spec n (k + j)) as [L2|G2].
    + rewrite !N.ones_spec_low by lia. reflexivity.
    + rewrite !N.ones_spec_high by lia. reflexivity.
Qed.

(** ** finite checks lifted to bounded quantifiers *)
Definition Nrange (n : nat) : list N := map N.of_nat (seq 0 n).

Lemma forallb_Nrange (f : N -> bool) (n : nat) :
  forallb f (Nrange n) = true -> forall x, x < N.of_nat n -> f x = true.
Proof.
  intros H x Hx. rewrite forallb_forall in H. apply H.
  unfold Nrange. rewrite in_map_iff. exists (N.to_nat x). split.
  - apply N2Nat.id.
  - apply in_seq. lia.
Qed.

Lemma forallb2_Nrange (f : N -> N -> bool) (n m : nat) :
  forallb (fun a => forallb (f a) (Nrange m)) (Nrange n) = true ->
  forall x y, x < N.of_nat n -> y < N.of_nat m -> f x y = true.
Proof.
  intros H x y Hx Hy.
  pose proof (forallb_Nrange _ _ H x Hx) as H1. cbv beta in H1.
  exact (forallb_Nrange _ _ H1 y Hy).
Qed.

(** ** linearity *)
Definition xor_list (l1 l2 : list N) : list N :=
  map (fun p => N.lxor (fst p) (snd p)) (combine l1 l2).

Lemma xor_list_length l1 l2 : length l1 = length l2 -> length (xor_list l1 l2) = length l1.
Proof.
  intros H. unfold xor_list. rewrite map_length, combine_length. lia.
Qed.

Lemma crc16_step_lin a b :
  crc16_step (N.lxor a b) = N.lxor (crc16_step a) (crc16_step b).
Proof.
  unfold crc16_step. rewrite N.shiftl_lxor, land_lxor_distr_l, N.lxor_spec.
  destruct (N.testbit a 15), (N.testbit b 15); cbn [xorb]; lxor_ac.
Qed.

Lemma iter_step_lin n a b :
  iter n crc16_step (N.lxor a b) = N.lxor (iter n crc16_step a) (iter n crc16_step b).
Proof.
  revert a b; induction n as [|n IH]; intros a b; cbn [iter]; [reflexivity|].
  rewrite crc16_step_lin. apply IH.
Qed.

Lemma crc16_byte_lin c1 c2 b1 b2 :
  crc16_byte (N.lxor c1 c2) (N.lxor b1 b2) = N.lxor (crc16_byte c1 b1) (crc16_byte c2 b2).
Proof.
  unfold crc16_byte. rewrite <- iter_step_lin. f_equal.
  rewrite N.shiftl_lxor. lxor_ac.
Qed.

Lemma crc16_from_lin l1 : forall l2 c1 c2, length l1 = length l2 ->
  crc16_from (N.lxor c1 c2) (xor_list l1 l2) = N.lxor (crc16_from c1 l1) (crc16_from c2 l2).
Proof.
  unfold crc16_from, xor_list.
  induction l1 as [|x l1 IH]; intros [|y l2] c1 c2 HL; cbn in HL; try discriminate.
  - reflexivity.
  - cbn [combine map fold_left fst snd]. rewrite crc16_byte_lin. apply IH. lia.
Qed.

(** crc (a xor b) = crc a xor crc b for inputs of equal length *)
Lemma crc16_linear l1 l2 : length l1 = length l2 ->
  crc16 (xor_list l1 l2) = N.lxor (crc16 l1) (crc16 l2).
Proof.
  intros H. unfold crc16. rewrite <- (crc16_from_lin l1 l2 0 0 H). reflexivity.
Qed.

(** ** range of the register *)
Lemma crc16_step_lt c : crc16_step c < 65536.
Proof.
  unfold crc16_step. change 65536 with (2 ^ 16). apply lxor_lt_pow2.
  - change 0xFFFF with (N.ones 16). rewrite N.land_ones. apply N.mod_lt. discriminate.
  - destruct (N.testbit c 15); unfold crc16_poly; cbn; lia.
Qed.

Lemma iter_step_lt n c : c < 65536 -> iter n crc16_step c < 65536.
Proof.
  revert c; induction n as [|n IH]; intros c H; cbn [iter]; [exact H|].
  apply IH. apply crc16_step_lt.
Qed.

Lemma iter8_step_lt c : iter 8 crc16_step c < 65536.
Proof. cbn [iter]. apply crc16_step_lt. Qed.

Lemma crc16_byte_lt c b : crc16_byte c b < 65536.
Proof. apply iter8_step_lt. Qed.

Lemma crc16_from_lt l : forall c, c < 65536 -> crc16_from c l < 65536.
Proof.
  unfold crc16_from. induction l as [|x l IH]; intros c H; cbn [fold_left]; [exact H|].
  apply IH. apply crc16_byte_lt.
Qed.

Lemma crc16_lt l : crc16 l < 65536.
Proof. apply crc16_from_lt. lia. Qed.

(** ** the table-driven loop *)
(* shifting a byte through an empty register only moves it *)
Lemma iter8_low_check :
  forallb (fun x => iter 8 crc16_step x =? N.shiftl x 8) (Nrange 256) = true.
Proof. vm_compute. reflexivity. Qed.

Lemma iter8_low x : x < 256 -> iter 8 crc16_step x = N.shiftl x 8.
Proof.
  intros H. apply N.eqb_eq. exact (forallb_Nrange _ 256 iter8_low_check x H).
Qed.

Lemma table_ref_nth i : i < 256 -> nth (N.to_nat i) crc16_table_ref 0 = crc16_entry i.
Proof.
  intros H. unfold crc16_table_ref.
  rewrite (nth_indep _ 0 (crc16_entry (N.of_nat 0))) by (rewrite map_length, seq_length; lia).
  rewrite (map_nth (fun i => crc16_entry (N.of_nat i))).
  rewrite seq_nth by lia. cbn [Nat.add]. rewrite N2Nat.id. reflexivity.
Qed.

Lemma crc16_tab_byte_ok c b : c < 65536 -> b < 256 ->
  crc16_tab_byte crc16_table_ref c b = crc16_byte c b.
Proof.
  intros Hc Hb. unfold crc16_tab_byte, crc16_byte.
  assert (Hhi : N.shiftr c 8 < 256).
  { rewrite N.shiftr_div_pow2. change (2 ^ 8) with 256.
    apply N.div_lt_upper_bound; lia. }
  assert (Hidx : N.lxor (N.shiftr c 8) b < 256).
  { change 256 with (2 ^ 8). apply lxor_lt_pow2; assumption. }
  change 0xFF with (N.ones 8). change 0xFFFF with (N.ones (8 + 8)).
  rewrite (land_ones_small _ 8) by exact Hidx.
  rewrite table_ref_nth by exact Hidx.
  rewrite land_lxor_distr_l, shiftl_land_ones.
  unfold crc16_entry.
  rewrite (land_ones_small _ (8 + 8)) by (apply iter8_step_lt).
  assert (Hlo : N.land c (N.ones 8) < 256).
  { rewrite N.land_ones. apply N.mod_lt. discriminate. }
  rewrite <- (iter8_low _ Hlo).
  rewrite (split_hi_lo c 8) at 3.
  rewrite N.shiftl_lxor, !iter_step_lin.
  lxor_ac.
Qed.

Lemma crc16_tab_from_ok l : forall c, c < 65536 -> Forall (fun b => b < 256) l ->
  fold_left (crc16_tab_byte crc16_table_ref) l c = crc16_from c l.
Proof.
  unfold crc16_from. induction l as [|x l IH]; intros c Hc HF; cbn [fold_left]; [reflexivity|].
  inversion HF as [|? ? Hx HF']; subst.
  rewrite crc16_tab_byte_ok by assumption. apply IH; [apply crc16_byte_lt|exact HF'].
Qed.

(** utils.Crc16 with the reference table = bitwise CRC, for all byte lists *)
Lemma crc16_tab_ok tab l : tab = crc16_table_ref -> Forall (fun b => b < 256) l ->
  crc16_tab tab l = crc16 l.
Proof.
  intros -> HF. unfold crc16_tab, crc16. apply crc16_tab_from_ok; [lia|exact HF].
Qed.
