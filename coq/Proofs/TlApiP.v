(** Soundness of the checker, part 3: the statements at the fuel the
    executable definitions use (tl_encode / go_marshal ...), the round trip
    through the Go bindings, and the request methods: the payload is the
    declared function id followed by the arguments, the answer is dispatched
    on the declared ids of liteServer.error and of the result type. *)
From Coq Require Import String List NArith PArith Arith Lia Bool.
From Tongo Require Import Lib.Bits Lib.Res Spec.TlWire Model.Tl Model.TlMatch
     Proofs.TlWireP Proofs.TlGoP Proofs.TlMatchP Proofs.TlSoundP.
Import ListNotations.
Local Open Scope N_scope.

Lemma split4_le n r :
  short 4 (le_bytes 4 n ++ r) = false /\ firstn 4 (le_bytes 4 n ++ r) = le_bytes 4 n /\
  skipn 4 (le_bytes 4 n ++ r) = r.
Proof.
  repeat split; reflexivity.
Qed.

Lemma tl_fuel_S : exists ks, tl_fuel = Datatypes.S ks.
Proof. exists 63%nat. reflexivity. Qed.

Section Api.
  Variables (S F : list decl) (B : bindings).
  Hypothesis HM : matches_all S F B = true.
  Let nm := go_naming S.

  Lemma go_fuel_ge : (3 * tl_fuel + 3 <= go_fuel)%nat.
  Proof. unfold go_fuel. lia. Qed.

  Theorem marshal_refines t g v e : ty_ok S B t = true -> goty t = Some g ->
    tl_encode nm S t v = Some e -> go_marshal B g v = Ok e.
  Proof.
    intros Hok Hg He. rewrite tl_encode_eq in He. unfold go_marshal.
    apply (proj1 (refines S F B HM tl_fuel) t g v e go_fuel Hok Hg He). pose proof go_fuel_ge. lia.
  Qed.

  Theorem unmarshal_refines t g bs v rest : ty_ok S B t = true -> goty t = Some g ->
    tl_decode nm S t bs = Some (v, rest) ->
    exists st, go_unmarshal B g bs = (Ok v, st) /\ inp st = rest.
  Proof.
    intros Hok Hg He. rewrite tl_decode_eq in He. unfold go_unmarshal.
    assert (Hr : runs (gdec B go_fuel g) bs v rest).
    { apply (proj2 (refines S F B HM tl_fuel) t g bs v rest go_fuel Hok Hg He). pose proof go_fuel_ge. lia. }
    destruct (Hr 0 0) as (a & p & E). unfold st0. rewrite E. eexists; split; reflexivity.
  Qed.

  (** marshal gives the spec's bytes, and unmarshal inverts it on every continuation *)
  Theorem binding_roundtrip t g v e : ids_distinct S = true -> ty_ok S B t = true -> goty t = Some g ->
    tl_encode nm S t v = Some e ->
    go_marshal B g v = Ok e /\
    forall rest, exists st, go_unmarshal B g (e ++ rest) = (Ok v, st) /\ inp st = rest.
  Proof.
    intros Hids Hok Hg He. split; [apply (marshal_refines t g v e Hok Hg He)|].
    intros rest. apply (unmarshal_refines t g (e ++ rest) v rest Hok Hg).
    rewrite tl_decode_eq. rewrite tl_encode_eq in He.
    exact (roundtrip nm S Hids tl_fuel t v e rest He).
  Qed.

  (** ** requests *)
  Lemma request_binding f : In f F ->
    exists sfs ms us, opt_cat (map gofield (dfields f)) = Some sfs /\
      mstmts [] f = Some ms /\ ustmts [] f = Some us /\
      find_binding B (camel (dname f) ++ "Request") =
        Some (mkbinding (camel (dname f) ++ "Request") (GStruct sfs)
                (match dfields f with [] => MNone | _ => MPlain ms end) (UPlain us)).
  Proof.
    intros Hf. destruct (M_parts S F B HM) as (_ & M2 & _). specialize (M2 f Hf).
    apply has_some in M2 as (x & Hx & Hb). unfold expected_request, gostruct in Hx.
    destruct (opt_cat (map gofield (dfields f))) as [sfs|]; [|discriminate].
    destruct (mstmts [] f) as [ms|]; [|discriminate]. destruct (ustmts [] f) as [us|]; [|discriminate].
    inversion Hx; subst x. exists sfs, ms, us. repeat split; auto.
  Qed.

  (* the conjuncts of matches_method *)
  Lemma method_parts f m : matches_method S f m = true ->
    match m_req m, dfields f with
    | None, [] => True
    | Some r, _ :: _ => r = (camel (dname f) ++ "Request")%string
    | _, _ => False
    end /\
    m_req_id m = did f /\
    (exists e0, find_ctor S "liteServer.error" = Some e0 /\ m_err_id m = did e0 /\ single S e0 = true) /\
    (exists d, ctors_of S (dres f) = [d] /\ m_resp_ids m = [did d] /\ m_resp_ty m = cname d) /\
    m_err_id m <> (match m_resp_ids m with [x] => x | _ => m_err_id m + 1 end).
  Proof.
    unfold matches_method. intros H.
    apply andb_true_iff in H as [H Hneg]. apply andb_true_iff in H as [H Hty].
    apply andb_true_iff in H as [H Hlen]. apply andb_true_iff in H as [H Hids].
    apply andb_true_iff in H as [H Herr]. apply andb_true_iff in H as [H Hrid].
    apply andb_true_iff in H as [_ Hreq].
    repeat split.
    - destruct (m_req m), (dfields f); try discriminate; auto. apply String.eqb_eq; exact Hreq.
    - apply N.eqb_eq; exact Hrid.
    - destruct (find_ctor S "liteServer.error") as [e0|]; [|discriminate]. exists e0.
      apply andb_true_iff in Herr as [Ha Hb]. apply N.eqb_eq in Ha. auto.
    - destruct (ctors_of S (dres f)) as [|d [|? ?]] eqn:Ec; try discriminate. exists d.
      split; [reflexivity|]. cbn [map] in Hids. unfold result_goname in Hty. rewrite Ec in Hty.
      apply (list_eqb_eq _ (fun x y => proj1 (N.eqb_eq x y))) in Hids. rewrite Hids.
      split; [reflexivity|]. symmetry. apply String.eqb_eq; exact Hty.
    - apply negb_true_iff in Hneg.
      destruct (m_resp_ids m) as [|x [|? ?]]; try lia. cbn [existsb] in Hneg. rewrite orb_false_r in Hneg.
      apply N.eqb_neq; exact Hneg.
  Qed.

  Theorem request_refines f m v e : In f F -> matches_method S f m = true ->
    tl_request nm S f v = Some e ->
    go_request B m (match dfields f with [] => None | _ => Some v end) = Ok e.
  Proof.
    intros Hf Hm He. destruct (method_parts f m Hm) as (Hreq & Hid & _).
    unfold tl_request in He. destruct (did f <? two32); [|discriminate].
    destruct (enc_args nm S tl_fuel f v) as [a|] eqn:Ea; [|discriminate]. inversion He; subst e. clear He.
    unfold enc_args in Ea. destruct v as [| | | |c fs]; try discriminate.
    destruct (String.eqb c (blbl nm f)); [|discriminate].
    unfold go_request. rewrite Hid.
    destruct (m_req m) as [r|], (dfields f) as [|f0 fl] eqn:Edf; try contradiction.
    - (* request struct *)
      subst r. unfold go_marshal.
      assert (Hg : forall kk, (3 * tl_fuel + 2 <= kk)%nat ->
                genc B kk (GNamed (camel (dname f) ++ "Request")) (Some (VRec c fs)) = Ok a).
      { intros kk Hkk. destruct kk as [|k1]; [lia|]. cbn [genc].
        destruct (request_binding f Hf) as (sfs & ms & us & Hsf & Hms & Hus & Hb). rewrite Hb, Edf.
        cbn [run_marshal b_marshal b_type]. unfold run_mstmts.
        apply (mfields_ok S B tl_fuel (3 * tl_fuel) (proj1 (refines S F B HM tl_fuel)) k1 (GStruct sfs) []
                 (VRec c fs) ltac:(lia) (dfields f) ms fs [] a []); auto.
        - apply (ready_plain S F B HM); [apply in_or_app; right; exact Hf|exact Hsf].
        - apply env_rel_nil.
        - rewrite Edf; exact Ea. }
      rewrite (Hg go_fuel); [reflexivity|]. pose proof go_fuel_ge. lia.
    - (* no arguments: the id alone *)
      cbn [enc_fields] in Ea. destruct fs; [|discriminate]. inversion Ea. reflexivity.
  Qed.

  (* the server side: the arguments of a request decode into the request struct *)
  Theorem request_args_refines f bs v rest : In f F ->
    dec_args nm S tl_fuel f bs = Some (v, rest) ->
    exists st, go_unmarshal B (GNamed (camel (dname f) ++ "Request")) bs = (Ok v, st) /\ inp st = rest.
  Proof.
    intros Hf He. unfold dec_args in He.
    destruct (dec_fields nm (dec nm S tl_fuel) (dfields f) [] bs) as [[fs r]|] eqn:Ef; [|discriminate].
    inversion He; subst. change (blbl nm f) with ""%string.
    destruct (request_binding f Hf) as (sfs & ms & us & Hsf & Hms & Hus & Hb).
    assert (Hr : runs (gdec B go_fuel (GNamed (camel (dname f) ++ "Request"))) bs (VRec "" fs) rest).
    { pose proof go_fuel_ge. destruct go_fuel as [|k1]; [lia|]. cbn [gdec]. rewrite Hb.
      unfold run_unmarshal. cbn [b_unmarshal b_type].
      apply (runs_bind _ _ _ fs rest); [|apply runs_ret].
      apply (ufields_ok S B tl_fuel (3 * tl_fuel) (proj2 (refines S F B HM tl_fuel)) k1 (GStruct sfs) []
               ltac:(lia) (dfields f) us [] bs fs rest []); auto.
      - apply (ready_plain S F B HM); [apply in_or_app; right; exact Hf|exact Hsf].
      - apply env_rel_nil. }
    unfold go_unmarshal. destruct (Hr 0 0) as (a & p & E). unfold st0. rewrite E. eexists; split; reflexivity.
  Qed.

  (** ** responses *)
  (* a boxed value of a single-constructor type: id, then the bare value *)
  Lemma boxed_single_inv T d v e : ids_distinct S = true -> ctors_of S T = [d] ->
    tl_encode nm S (TBoxed T) v = Some e ->
    exists e', e = le_bytes 4 (did d) ++ e' /\ did d < two32 /\
      exists st, go_unmarshal B (GNamed (cname d)) e' = (Ok v, st).
  Proof.
    intros Hids Ec He. rewrite tl_encode_eq in He. destruct tl_fuel_S as (ks & Eks).
    assert (Hgf : (3 * ks + 1 <= go_fuel)%nat) by (pose proof go_fuel_ge; lia).
    rewrite Eks in He. cbn [enc] in He. destruct v as [| | | |c fs]; try discriminate.
    rewrite Ec in He. cbn [find] in He.
    destruct (single_of_ctors S T d Ec) as (Hd & _ & Hs).
    change (xlbl nm d) with (if single S d then ""%string else camel (dname d)) in He. rewrite Hs in He.
    destruct (String.eqb_spec c "") as [->|]; [|discriminate].
    destruct (N.ltb_spec (did d) two32) as [Hlt|]; [|discriminate].
    destruct (enc_fields nm (enc nm S ks) (dfields d) fs []) as [e'|] eqn:Ee; [|discriminate].
    inversion He; subst e. exists e'. split; [reflexivity|]. split; [exact Hlt|].
    pose proof (fields_law nm _ _ (roundtrip nm S Hids ks) _ _ _ _ [] Ee) as Hdec.
    rewrite app_nil_r in Hdec.
    pose proof (single_unmarshal S F B HM ks (proj2 (refines S F B HM ks)) d e' fs [] go_fuel Hd Hs Hdec Hgf) as Hr.
    unfold go_unmarshal. destruct (Hr 0 0) as (a & p & E). unfold st0. rewrite E. eexists; reflexivity.
  Qed.

  Theorem response_result f m v e : ids_distinct S = true -> In f F -> matches_method S f m = true ->
    tl_encode nm S (TBoxed (dres f)) v = Some e -> go_response B m e = Ok (RResult v).
  Proof.
    intros Hids Hf Hm He. destruct (method_parts f m Hm) as (_ & _ & _ & (d & Ec & Hri & Hrt) & Hne).
    destruct (boxed_single_inv _ d v e Hids Ec He) as (e' & -> & Hlt & st & Hu).
    unfold go_response. destruct (split4_le (did d) e') as (H1 & H2 & H3). rewrite H1, H2, H3.
    rewrite le_num_le_bytes_small by (rewrite pow256_4; exact Hlt).
    rewrite Hri in *. destruct (N.eqb_spec (did d) (m_err_id m)) as [E|_]; [congruence|].
    cbn [existsb]. rewrite N.eqb_refl. cbn [orb]. rewrite Hrt, Hu. reflexivity.
  Qed.

  Theorem response_error f m v e : ids_distinct S = true -> matches_method S f m = true ->
    forall e0, find_ctor S "liteServer.error" = Some e0 ->
    tl_encode nm S (TBoxed (dres e0)) v = Some e -> go_response B m e = Ok (RError v).
  Proof.
    intros Hids Hm e0 He0 He. destruct (method_parts f m Hm) as (_ & _ & (e1 & He1 & Hei & Hs) & _).
    rewrite He0 in He1. inversion He1; subst e1.
    apply find_ctor_some in He0 as [Hin Hn].
    assert (Ec : ctors_of S (dres e0) = [e0]).
    { unfold single in Hs. assert (Hm0 : In e0 (ctors_of S (dres e0))) by (apply ctors_of_in; auto).
      destruct (ctors_of S (dres e0)) as [|x [|? ?]]; try discriminate. destruct Hm0 as [->|[]]. reflexivity. }
    destruct (boxed_single_inv _ e0 v e Hids Ec He) as (e' & -> & Hlt & st & Hu).
    unfold go_response. destruct (split4_le (did e0) e') as (H1 & H2 & H3). rewrite H1, H2, H3.
    rewrite le_num_le_bytes_small by (rewrite pow256_4; exact Hlt).
    rewrite Hei, N.eqb_refl.
    assert (Hc : cname e0 = "LiteServerErrorC"%string) by (unfold cname; rewrite Hn; reflexivity).
    rewrite <- Hc, Hu. reflexivity.
  Qed.
End Api.
