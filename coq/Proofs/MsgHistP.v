(** Proofs for C16, histories: a successful decode overwrites everything Hash /
    Hash(true) / SourceBoc look at, so the observables after it are those of a
    fresh variable; and a refutation of the design in which SourceBoc keeps the
    serialised source in the variable without UnmarshalTLB clearing it. *)
From Coq Require Import List NArith Bool.
From Tongo Require Import Lib.Bits Lib.Res Model.BocParse Model.CellHash Spec.ReprHash Proofs.CellHashP
  Model.MsgHash Proofs.MsgHashP Model.MsgHist.
Import ListNotations.

Theorem tx_assign_overwrites {S} o hr hf c (s : S) v1 v2 v1' :
  tx_assign o hr hf c s v1 = (v1', true) -> tx_assign o hr hf c s v2 = (v1', true).
Proof.
  unfold tx_assign, tx_assign_res.
  destruct (is_library_cell c); [intros E; discriminate|].
  destruct hr as [h|e|p]; [|intros E; discriminate|intros E; discriminate].
  destruct (decode_tx_gen o (Ok h) hf c); intros E; try discriminate. exact E.
Qed.

(* after a successful decode: the hash is the hasher's answer for that cell, the
   captured source is that cell, the fields are those of decode_tx_gen *)
Theorem tx_assign_fresh {S} o hr hf c (s : S) v v' :
  tx_assign o hr hf c s v = (v', true) ->
  exists t, decode_tx_gen o hr hf c = Ok t /\ hr = Ok (tx_hash t) /\
            v' = mktv (tx_hash t) (Some s) (Some t) /\ tx_src t = c.
Proof.
  unfold tx_assign, tx_assign_res.
  destruct (is_library_cell c); [intros E; discriminate|].
  destruct hr as [h|e|p]; [|intros E; discriminate|intros E; discriminate].
  destruct (decode_tx_gen o (Ok h) hf c) as [t|e|p] eqn:D; intros E; try discriminate.
  injection E as <-. destruct (decode_tx_gen_hash _ _ _ _ _ D) as (A & B). exists t. auto.
Qed.

Theorem msg_assign_overwrites o hr c v1 v2 v1' :
  msg_assign o hr c v1 = (v1', true) -> msg_assign o hr c v2 = (v1', true).
Proof.
  unfold msg_assign, msg_assign_res.
  destruct (is_library_cell c); [intros E; discriminate|].
  destruct hr as [h|e|p]; [|intros E; discriminate|intros E; discriminate].
  destruct (parse_message o (open c)) as [[[[i ini] r] b]|e|p]; intros E; try discriminate. exact E.
Qed.

(* ... and the variable then holds exactly the message decode_message_gen returns *)
Theorem msg_assign_fresh o hr c v v' :
  msg_assign o hr c v = (v', true) ->
  exists m, decode_message_gen o hr c = Ok m /\ v' = mkmv (m_hash m) (Some m) /\ hr = Ok (m_hash m).
Proof.
  unfold msg_assign, msg_assign_res, decode_message_gen, decode_message_body.
  destruct (is_library_cell c); [intros E; discriminate|].
  destruct hr as [h|e|p]; [|intros E; discriminate|intros E; discriminate].
  cbn [bind].
  destruct (parse_message o (open c)) as [[[[i ini] r] b]|e|p]; intros E; try discriminate.
  injection E as <-. cbn [bind]. eexists. split; [reflexivity|]. split; reflexivity.
Qed.

(** *** what Hash(true) leaves in the receiver *)
Lemma clear_std_anycast_idem a : clear_std_anycast (clear_std_anycast a) = clear_std_anycast a.
Proof. destruct a; reflexivity. Qed.

(* the identity hash is never written; the normalised hash is the same when
   asked again; both after any number of Hash(_) calls *)
Theorem after_hash_observables H b m n :
  m_hash (after_hash b m) = m_hash m /\
  msg_hash H n (after_hash b m) = msg_hash H n m.
Proof.
  destruct b; [|split; reflexivity]. split; [reflexivity|].
  unfold msg_hash, after_hash. cbn [m_info m_hash m_body]. destruct n; cbn [negb]; [|reflexivity].
  destruct (m_info m) as [| s d f |]; cbn [clear_info_anycast]; try reflexivity.
  unfold norm_cell, norm_info_bits. rewrite clear_std_anycast_idem. reflexivity.
Qed.

(* the only thing that changes: the anycast of an addr_std destination of an
   external-in message is gone *)
Theorem after_hash_receiver m :
  after_hash false m = m /\
  m_info (after_hash true m) = clear_info_anycast (m_info m) /\
  m_init (after_hash true m) = m_init m /\ m_body (after_hash true m) = m_body m /\
  m_body_ref (after_hash true m) = m_body_ref m /\
  ((forall s any wc x f, m_info m <> IExtIn s (AStd (Some any) wc x) f) -> after_hash true m = m).
Proof.
  repeat split. intros Hn. unfold after_hash. destruct m as [i ini r b h]. cbn [m_info] in *.
  f_equal. destruct i as [| s d f |]; try reflexivity. cbn [clear_info_anycast].
  destruct d as [| l | [any|] wc x | any len wc x]; try reflexivity.
  exfalso. eapply Hn. reflexivity.
Qed.

(* any sequence (hence any interleaving, at call granularity) of Hash(false) /
   Hash(true) calls: every call answers what a single call on the freshly
   decoded message answers *)
Theorem hash_calls_any_order H calls : forall m,
  run_hash_calls H calls m = map (fun n => msg_hash H n m) calls.
Proof.
  induction calls as [|n t IH]; intros m; [reflexivity|].
  cbn [run_hash_calls map]. f_equal. rewrite IH. apply map_ext. intros k.
  apply (after_hash_observables H n m k).
Qed.

(** *** the cached-source design (seeded mutant C16-r2m2), refuted *)
Section Cached.
Variable S : Type.
Record cvar := mkcv { cv_var : tvar S; cv_cache : option S }.

(* SourceBoc: return the kept source if there is one, else keep the current one *)
Definition cached_source (v : cvar) : option S * cvar :=
  match cv_cache v with
  | Some s => (Some s, v)
  | None => (tv_src (cv_var v), mkcv (cv_var v) (tv_src (cv_var v)))
  end.
(* UnmarshalTLB does not know the new field *)
Definition cached_assign o hr hf c (s : S) (v : cvar) : cvar * bool :=
  let '(v', ok) := tx_assign o hr hf c s (cv_var v) in (mkcv v' (cv_cache v), ok).

(* decode A, SourceBoc, decode B, SourceBoc: the second answer is still A
   although Hash() and the captured cell are B's *)
Theorem cached_source_design_refuted o hf ca cb ha hb (a b : S) ta tb :
  decode_tx_gen o (Ok ha) hf ca = Ok ta -> decode_tx_gen o (Ok hb) hf cb = Ok tb ->
  is_library_cell ca = false -> is_library_cell cb = false ->
  let v0 := mkcv tvar_zero None in
  let v1 := fst (cached_assign o (Ok ha) hf ca a v0) in
  let v2 := snd (cached_source v1) in
  let v3 := fst (cached_assign o (Ok hb) hf cb b v2) in
  fst (cached_source v3) = Some a /\ tv_src (cv_var v3) = Some b /\ tv_hash (cv_var v3) = tx_hash tb.
Proof.
  intros Da Db La Lb. cbv zeta.
  unfold cached_assign, tx_assign, tx_assign_res. rewrite La, Lb, Da. cbn [fst snd cv_var cv_cache].
  unfold cached_source at 2. cbn [cv_cache cv_var tv_src snd].
  rewrite Db. cbn [fst snd cv_var cv_cache]. unfold cached_source. cbn [cv_cache cv_var tv_src tv_hash fst].
  auto.
Qed.
End Cached.
