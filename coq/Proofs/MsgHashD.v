(** Proofs for C16, part 3: what the message decoder guarantees about the
    values Hash(true) consumes: the destination is well formed and re-encodes
    to exactly the bits it was read from; the body is the unread rest of the
    message cell or the content of one of its references. *)
From Coq Require Import List NArith ZArith Arith Lia Bool.
From Tongo Require Import Lib.Bits Lib.Res Model.BocParse Model.CellHash Spec.ReprHash
  Proofs.CellHashP Model.MsgHash Spec.MsgCanon Proofs.MsgHashP Proofs.MsgHashN.
Import ListNotations.

(** *** ReadInt / WriteInt *)
Lemma enc_dec_int l : l <> [] -> enc_int (length l) (dec_int l) = l.
Proof.
  destruct l as [|s r]; [congruence|]. intros _. unfold enc_int.
  apply N_of_bits_inj; [apply bits_of_length|].
  rewrite N_of_bits_bits_of, N_of_bits_cons. cbn [length dec_int].
  set (n := length r). pose proof (N_of_bits_bound r) as Hb. fold n in Hb.
  set (v := N_of_bits r) in *. set (P := (2 ^ N.of_nat n)%N) in *.
  assert (HP : (2 ^ Z.of_nat n = Z.of_N P)%Z).
  { unfold P. rewrite N2Z.inj_pow, nat_N_Z. reflexivity. }
  assert (HPS : (2 ^ Z.of_nat (S n) = 2 * Z.of_N P)%Z).
  { rewrite Nat2Z.inj_succ, Z.pow_succ_r by lia. rewrite HP. reflexivity. }
  assert (HNS : (2 ^ N.of_nat (S n) = 2 * P)%N).
  { rewrite Nat2N.inj_succ, N.pow_succ_r'. reflexivity. }
  rewrite HPS, HNS, HP.
  destruct s; cbn [N.b2n].
  - assert (E : ((Z.of_N v - Z.of_N P) mod (2 * Z.of_N P) = Z.of_N v + Z.of_N P)%Z).
    { symmetry. apply (Z.mod_unique_pos _ _ (-1)%Z); lia. }
    rewrite E. rewrite <- N2Z.inj_add, N2Z.id. rewrite N.mod_small; lia.
  - rewrite Z.mod_small by lia. rewrite N2Z.id. rewrite N.mod_small; lia.
Qed.

Lemma bits_of_back n b : length b = n -> b = bits_of n (N_of_bits b).
Proof. intros <-. symmetry. apply bits_of_N_of_bits. Qed.
Lemma enc_dec_back n b : length b = n -> n <> 0%nat -> b = enc_int n (dec_int b).
Proof. intros <- Hn. symmetry. apply enc_dec_int. destruct b; [contradiction|discriminate]. Qed.
Ltac back := first [ apply bits_of_back | symmetry; apply bits_of_back
                   | apply enc_dec_back | symmetry; apply enc_dec_back ];
             first [ assumption | lia | idtac ].

(** *** addresses *)
Lemma parse_anycast_spec s a s' :
  parse_anycast s = Ok (a, s') -> sb s = any_bits a ++ sb s' /\ sr s' = sr s /\ any_wf a.
Proof.
  unfold parse_anycast. intros E. inv_ok E.
  - destruct a0 as [b s1], a1 as [d s2], a2 as [p s3]. cbn [fst snd] in *. injection E as <- <-.
    destruct (rd_bit_spec _ _ _ E0) as (A0 & R0). subst b.
    destruct (rd_uint_spec _ _ _ _ E2) as (bd & A1 & L1 & -> & R1).
    destruct (rd_uint_spec _ _ _ _ E4) as (bp & A2 & L2 & -> & R2).
    apply N.ltb_ge in E3.
    pose proof (N_of_bits_bound bd) as Bd. rewrite L1 in Bd. change (2 ^ N.of_nat 5)%N with 32%N in Bd.
    pose proof (N_of_bits_bound bp) as Bp. rewrite L2, N2Nat.id in Bp.
    split; [|split; [congruence|cbn [any_wf]; lia]].
    cbn [any_bits]. rewrite A0, A1, A2. cbn [app]. f_equal. rewrite <- app_assoc. f_equal; [|f_equal].
    + back.
    + back.
  - destruct a0 as [b s1]. cbn [fst snd] in *. injection E as <- <-.
    destruct (rd_bit_spec _ _ _ E0) as (A0 & R0). subst b.
    split; [exact A0|split; [exact R0|exact I]].
Qed.

Lemma parse_addr_spec s a s' :
  parse_addr s = Ok (a, s') -> sb s = addr_bits a ++ sb s' /\ sr s' = sr s /\ addr_wf a.
Proof.
  unfold parse_addr. intros E.
  destruct (rd 2 s) as [[t s1]|e|p] eqn:E0; cbn [bind fst snd] in E; try discriminate.
  destruct (rd_spec _ _ _ _ E0) as (A0 & L0 & R0).
  destruct t as [|b1 [|b2 [|b3 t]]]; cbn [length] in L0; try lia. clear L0.
  destruct b1, b2.
  - (* addr_var *)
    inv_ok E. destruct a0 as [any s2], a1 as [ln s3], a2 as [wc s4], a3 as [x s5]. cbn [fst snd] in *.
    injection E as <- <-.
    destruct (parse_anycast_spec _ _ _ E1) as (A1 & R1 & W1).
    destruct (rd_uint_spec _ _ _ _ E2) as (bl & A2 & L2 & -> & R2).
    destruct (rd_spec _ _ _ _ E3) as (A3 & L3 & R3).
    destruct (rd_spec _ _ _ _ E4) as (A4 & L4 & R4).
    pose proof (N_of_bits_bound bl) as Bl. rewrite L2 in Bl. change (2 ^ N.of_nat 9)%N with 512%N in Bl.
    split; [|split; [congruence|cbn [addr_wf]; auto]].
    cbn [addr_bits]. rewrite A0, A1, A2, A3, A4. cbn [app]. do 2 f_equal.
    rewrite <- !app_assoc. f_equal. f_equal; [|f_equal].
    + back.
    + back.
  - (* addr_std *)
    inv_ok E. destruct a0 as [any s2], a1 as [wc s3], a2 as [x s4]. cbn [fst snd] in *.
    injection E as <- <-.
    destruct (parse_anycast_spec _ _ _ E1) as (A1 & R1 & W1).
    destruct (rd_spec _ _ _ _ E2) as (A2 & L2 & R2).
    destruct (rd_spec _ _ _ _ E3) as (A3 & L3 & R3).
    split; [|split; [congruence|cbn [addr_wf]; auto]].
    cbn [addr_bits]. rewrite A0, A1, A2, A3. cbn [app]. do 2 f_equal.
    rewrite <- !app_assoc. f_equal. f_equal.
    back.
  - (* addr_extern *)
    inv_ok E. destruct a0 as [ln s2], a1 as [x s3]. cbn [fst snd] in *. injection E as <- <-.
    destruct (rd_uint_spec _ _ _ _ E1) as (bl & A1 & L1 & -> & R1).
    destruct (rd_spec _ _ _ _ E2) as (A2 & L2 & R2).
    pose proof (N_of_bits_bound bl) as Bl. rewrite L1 in Bl. change (2 ^ N.of_nat 9)%N with 512%N in Bl.
    split; [|split; [congruence|cbn [addr_wf]; lia]].
    cbn [addr_bits]. rewrite A0, A1, A2. cbn [app]. do 2 f_equal.
    rewrite <- app_assoc. f_equal.
    rewrite L2, N2Nat.id. back.
  - (* addr_none *)
    injection E as <- <-. split; [exact A0|split; [exact R0|exact I]].
Qed.

(** *** the decoder only moves forward in the cell *)
Definition ext (s s' : slc) : Prop :=
  (exists p, sb s = p ++ sb s') /\ (exists q, sr s = q ++ sr s').

Lemma ext_refl s : ext s s.
Proof. split; exists []; reflexivity. Qed.
Lemma ext_trans a b c : ext a b -> ext b c -> ext a c.
Proof.
  intros ((p & P) & (q & Q)) ((p' & P') & (q' & Q')). split.
  - exists (p ++ p'). rewrite P, P', app_assoc. reflexivity.
  - exists (q ++ q'). rewrite Q, Q', app_assoc. reflexivity.
Qed.

Lemma rd_ext n s a : rd n s = Ok a -> ext s (snd a).
Proof. destruct a as [b s']. cbn [snd]. intros E. destruct (rd_spec _ _ _ _ E) as (A & _ & R). split; [exists b; exact A|exists []; rewrite R; reflexivity]. Qed.
Lemma rd_bit_ext s a : rd_bit s = Ok a -> ext s (snd a).
Proof. destruct a as [b s']. cbn [snd]. intros E. destruct (rd_bit_spec _ _ _ E) as (A & R). split; [exists [b]; exact A|exists []; rewrite R; reflexivity]. Qed.
Lemma rd_uint_ext n s a : rd_uint n s = Ok a -> ext s (snd a).
Proof. destruct a as [v s']. cbn [snd]. intros E. destruct (rd_uint_spec _ _ _ _ E) as (b & A & _ & _ & R). split; [exists b; exact A|exists []; rewrite R; reflexivity]. Qed.
Lemma next_ref_ext s a : next_ref s = Ok a -> ext s (snd a).
Proof. destruct a as [c s']. cbn [snd]. intros E. destruct (next_ref_spec _ _ _ E) as (A & B). split; [exists []; rewrite B; reflexivity|exists [c]; exact A]. Qed.
Lemma parse_addr_ext s a : parse_addr s = Ok a -> ext s (snd a).
Proof. destruct a as [x s']. cbn [snd]. intros E. destruct (parse_addr_spec _ _ _ E) as (A & R & _). split; [eexists; exact A|exists []; rewrite R; reflexivity]. Qed.

Ltac ext_hyps :=
  repeat match goal with
         | X : rd _ _ = Ok _ |- _ => apply rd_ext in X
         | X : rd_bit _ = Ok _ |- _ => apply rd_bit_ext in X
         | X : rd_uint _ _ = Ok _ |- _ => apply rd_uint_ext in X
         | X : next_ref _ = Ok _ |- _ => apply next_ref_ext in X
         | X : parse_addr _ = Ok _ |- _ => apply parse_addr_ext in X
         end.
Ltac ext_chain :=
  cbn [fst snd] in *;
  repeat first [ assumption | apply ext_refl | eapply ext_trans; [eassumption|] ].

Lemma parse_grams_ext s a : parse_grams s = Ok a -> ext s (snd a).
Proof. unfold parse_grams. intros E. inv_ok E. ext_hyps. ext_chain. Qed.
Lemma parse_var16_ext s a : parse_var16 s = Ok a -> ext s (snd a).
Proof. unfold parse_var16. intros E. inv_ok E. ext_hyps. ext_chain. Qed.
Lemma parse_dict_ext o k s a : parse_dict o k s = Ok a -> ext s (snd a).
Proof.
  unfold parse_dict. intros E. inv_ok E; try (injection E as <-); ext_hyps; ext_chain.
Qed.
Lemma parse_maybe_cell_ext s a : parse_maybe_cell s = Ok a -> ext s (snd a).
Proof. unfold parse_maybe_cell. intros E. inv_ok E; injection E as <-; ext_hyps; ext_chain. Qed.

Ltac ext_hyps2 :=
  ext_hyps;
  repeat match goal with
         | X : parse_grams _ = Ok _ |- _ => apply parse_grams_ext in X
         | X : parse_var16 _ = Ok _ |- _ => apply parse_var16_ext in X
         | X : parse_dict _ _ _ = Ok _ |- _ => apply parse_dict_ext in X
         | X : parse_maybe_cell _ = Ok _ |- _ => apply parse_maybe_cell_ext in X
         end.

Lemma parse_state_init_ext o s a : parse_state_init o s = Ok a -> ext s (snd a).
Proof.
  unfold parse_state_init. intros E. inv_ok E. injection E as <-. cbn [snd].
  assert (X1 : ext (snd a0) (snd a1)).
  { destruct (fst a0); [inv_ok E1; injection E1 as <-; ext_hyps; ext_chain|injection E1 as <-; apply ext_refl]. }
  assert (X3 : ext (snd a2) (snd a3)).
  { destruct (fst a2); [inv_ok E3; injection E3 as <-; ext_hyps; ext_chain|injection E3 as <-; apply ext_refl]. }
  clear E1 E3. ext_hyps2. ext_chain.
Qed.

Lemma parse_info_ext o s a : parse_info o s = Ok a -> ext s (snd a).
Proof.
  unfold parse_info. intros E.
  destruct (sb s) as [|b1 t] eqn:Es; [discriminate|].
  assert (X1 : ext s (mks t (sr s))).
  { split; [exists [b1]; exact Es|exists []; reflexivity]. }
  destruct b1.
  - destruct t as [|b2 t2]; [discriminate|].
    assert (X2 : ext s (mks t2 (sr s))).
    { split; [exists [true; b2]; exact Es|exists []; reflexivity]. }
    destruct b2; inv_ok E; injection E as <-; ext_hyps2; ext_chain.
  - inv_ok E; injection E as <-; ext_hyps2; ext_chain.
Qed.

(** *** what a decoded message hands to Hash(true) *)
Definition body_from (c : cell) (body : bits * list cell) : Prop :=
  (exists p q, cell_bits c = p ++ fst body /\ cell_refs c = q ++ snd body) \/
  (exists r, In r (cell_refs c) /\ body = (cell_bits r, cell_refs r)).

Lemma parse_message_facts o c i ini isref body :
  parse_message o (open c) = Ok (i, ini, isref, body) ->
  body_from c body /\
  (forall s d f, i = IExtIn s d f -> addr_wf d).
Proof.
  unfold parse_message. intros E.
  destruct (parse_info o (open c)) as [[i0 s1]|e|p] eqn:Ei; cbn [bind fst snd] in E; try discriminate.
  assert (Hd : forall s d f, i0 = IExtIn s d f -> addr_wf d).
  { intros s d f ->. clear E. unfold parse_info in Ei.
    destruct (sb (open c)) as [|[] [|[] t]]; try discriminate; inv_ok Ei;
      try (injection Ei; intros; discriminate).
    injection Ei; intros; subst.
    match goal with X : parse_addr _ = Ok a0 |- _ => destruct a0 as [x sx];
      destruct (parse_addr_spec _ _ _ X) as (_ & _ & W); exact W end. }
  apply parse_info_ext in Ei. cbn [snd] in Ei.
  destruct (rd_bit s1) as [[hi s2]|e|p] eqn:E1; cbn [bind fst snd] in E; try discriminate.
  match type of E with bind ?X _ = _ => destruct X as [[iv s3]|e|p] eqn:E2 end;
    cbn [bind fst snd] in E; try discriminate.
  assert (X3 : ext (open c) s3).
  { apply rd_bit_ext in E1. cbn [snd] in E1. apply (ext_trans _ _ _ Ei). apply (ext_trans _ _ _ E1).
    destruct hi.
    - inv_ok E2; injection E2 as _ <-; ext_hyps;
        repeat match goal with X : parse_state_init _ _ = Ok _ |- _ => apply parse_state_init_ext in X end;
        ext_chain.
    - injection E2 as _ <-. apply ext_refl. }
  destruct (rd_bit s3) as [[rt s4]|e|p] eqn:E3; cbn [bind fst snd] in E; try discriminate.
  apply rd_bit_ext in E3. cbn [snd] in E3. pose proof (ext_trans _ _ _ X3 E3) as X4.
  destruct rt.
  - destruct (next_ref s4) as [[r s5]|e|p] eqn:E4; cbn [bind fst snd] in E; try discriminate.
    injection E as <- _ _ <-. split; [|exact Hd].
    right. exists r. split; [|reflexivity].
    destruct (next_ref_spec _ _ _ E4) as (A & _). destruct X4 as (_ & (q & Q)).
    cbn [open sr] in Q. rewrite Q, A. apply in_or_app. right. left. reflexivity.
  - injection E as <- _ _ <-. split; [|exact Hd].
    left. destruct X4 as ((p & P) & (q & Q)). exists p, q. cbn [open sb sr fst snd] in *. auto.
Qed.

Definition bits_ok (c : cell) : Prop :=
  (length (cell_bits c) <= 1023)%nat /\ Forall (fun r => length (cell_bits r) <= 1023)%nat (cell_refs c).

Lemma body_from_ok c (body : bits * list cell) :
  masks_ok c -> bits_ok c -> body_from c body ->
  (length (fst body) <= 1023)%nat /\ Forall masks_ok (snd body).
Proof.
  intros Hm (Hb & Hr) [(p & q & P & Q)|(r & Hin & ->)].
  - split.
    + rewrite P, app_length in Hb. lia.
    + pose proof (masks_ok_refs _ Hm) as F. rewrite Q in F. apply Forall_app in F. tauto.
  - cbn [fst snd]. split.
    + rewrite Forall_forall in Hr. apply Hr. exact Hin.
    + apply masks_ok_refs. pose proof (masks_ok_refs _ Hm) as F. rewrite Forall_forall in F. apply F. exact Hin.
Qed.

Section D.
Variable H : bytes -> bytes.

(** end to end: for every cell that decodes as an external-in message, Hash(true)
    is the representation hash of the canonical cell of (dest, body) *)
Theorem decoded_normalized_hash o c m src dest fee h :
  masks_ok c -> bits_ok c ->
  decode_message H o c = Ok m -> m_info m = IExtIn src dest fee ->
  hash_cell H (canonical_cell dest (m_body m)) = Ok h ->
  msg_hash H true m = Ok h /\ repr_hash H (canonical_cell dest (m_body m)) = Ok h /\
  body_from c (m_body m) /\ addr_wf dest.
Proof.
  intros Hm Hb E Ei Hh. unfold decode_message, decode_message_gen, decode_message_body in E. inv_ok E.
  injection E as <-. cbn [m_info m_body] in *.
  match goal with X : parse_message _ _ = Ok _ |- _ =>
    destruct (parse_message_facts _ _ _ _ _ _ X) as (Hf & Hd) end.
  pose proof (Hd _ _ _ Ei) as Hw.
  destruct (body_from_ok _ _ Hm Hb Hf) as (Hl & Hmk).
  match goal with |- msg_hash H true ?mm = _ /\ _ =>
    destruct (normalized_hash_spec H mm src dest fee h Ei Hw Hl Hmk Hh) as (A & B) end.
  auto.
Qed.

End D.
