(** The message envelope beyond the one CreateExternalMessage writes: every
    CommonMsgInfo constructor and address form, init absent / by reference /
    inline (with libraries), body by reference or inline: parse_ext returns the
    info, the StateInit and the body that were put in. *)
From Coq Require Import List NArith ZArith Arith Bool Lia Permutation.
From Tongo Require Import Lib.Bits Lib.Res Model.BocParse Model.CellHash Spec.ReprHash Model.Wallet
  Proofs.WalletP Proofs.WalletHlP.
From Tongo Require Model.TlbCore Proofs.TlbCoreP Spec.Dict Model.Hashmap Proofs.HashmapSort Proofs.HashmapP
  Proofs.HashmapP2.
Import ListNotations.

(** *** Grams *)
Definition grams_bits (n : N) : bits :=
  bits_of 4 (N.of_nat (TlbCore.byte_len n)) ++ bits_of (8 * TlbCore.byte_len n) n.

Lemma grams_dec_bits n rest :
  (TlbCore.byte_len n <= 15)%nat -> grams_dec (grams_bits n ++ rest) = Ok (n, rest).
Proof.
  intros H. unfold grams_dec, grams_bits. rewrite <- app_assoc.
  rewrite (take_app_n 4) by apply bits_of_length. cbn [bind fst snd].
  rewrite N_of_bits_bits_of_small by (change (2 ^ N.of_nat 4)%N with 16%N; lia).
  rewrite Nat2N.id. rewrite take_app_n by apply bits_of_length. cbn [bind fst snd].
  rewrite N_of_bits_bits_of_small by apply TlbCoreP.byte_len_bound. reflexivity.
Qed.

(** *** CommonMsgInfo *)
Definition info_bits (i : msginfo) : bits :=
  match i with
  | IInt ihr b bd s d g ih fw lt at_ =>
      [false; ihr; b; bd] ++ TlbCore.addr_bits s ++ TlbCore.addr_bits d ++ grams_bits g ++ [false] ++
      grams_bits ih ++ grams_bits fw ++ u64 lt ++ u32 at_
  | IExtIn s d fee => [true; false] ++ TlbCore.addr_bits s ++ TlbCore.addr_bits d ++ grams_bits fee
  | IExtOut s d lt at_ => [true; true] ++ TlbCore.addr_bits s ++ TlbCore.addr_bits d ++ u64 lt ++ u32 at_
  end.

Definition gok (n : N) : Prop := (TlbCore.byte_len n <= 15)%nat.
Definition info_ok (i : msginfo) : Prop :=
  match i with
  | IInt _ _ _ s d g ih fw lt at_ =>
      TlbCore.addr_ok s = true /\ TlbCore.addr_ok d = true /\ gok g /\ gok ih /\ gok fw /\
      (lt < 18446744073709551616)%N /\ (at_ < 4294967296)%N
  | IExtIn s d fee => TlbCore.addr_ok s = true /\ TlbCore.addr_ok d = true /\ gok fee
  | IExtOut s d lt at_ =>
      TlbCore.addr_ok s = true /\ TlbCore.addr_ok d = true /\
      (lt < 18446744073709551616)%N /\ (at_ < 4294967296)%N
  end.

Lemma info_dec_bits i rest refs :
  info_ok i -> info_dec (info_bits i ++ rest) refs = Ok (i, rest, refs).
Proof.
  destruct i as [ihr b bd s d g ih fw lt at_|s d fee|s d lt at_]; cbn [info_ok info_bits]; unfold info_dec.
  - intros (Hs & Hd & Hg & Hih & Hfw & Hlt & Hat).
    change ([false; ihr; b; bd] ++ ?x) with ([false] ++ [ihr; b; bd] ++ x). rewrite <- !app_assoc.
    rewrite (take_app_n 1) by reflexivity. cbn [bind fst snd nth negb].
    rewrite (take_app_n 3) by reflexivity. cbn [bind fst snd nth].
    rewrite TlbCoreP.addr_parse_bits by exact Hs. cbn [bind fst snd].
    rewrite TlbCoreP.addr_parse_bits by exact Hd. cbn [bind fst snd].
    rewrite grams_dec_bits by exact Hg. cbn [bind fst snd].
    unfold dict_skip. rewrite (take_app_n 1) by reflexivity. cbn [bind fst snd nth].
    rewrite grams_dec_bits by exact Hih. cbn [bind fst snd].
    rewrite grams_dec_bits by exact Hfw. cbn [bind fst snd].
    rewrite (take_app_n 64) by apply u64_len. cbn [bind fst snd].
    rewrite (take_app_n 32) by apply u32_len. cbn [bind fst snd].
    rewrite N_u64, N_u32 by assumption. reflexivity.
  - intros (Hs & Hd & Hg).
    change ([true; false] ++ ?x) with ([true] ++ [false] ++ x). rewrite <- !app_assoc.
    rewrite (take_app_n 1) by reflexivity. cbn [bind fst snd nth negb].
    rewrite (take_app_n 1) by reflexivity. cbn [bind fst snd nth negb].
    rewrite TlbCoreP.addr_parse_bits by exact Hs. cbn [bind fst snd].
    rewrite TlbCoreP.addr_parse_bits by exact Hd. cbn [bind fst snd].
    rewrite grams_dec_bits by exact Hg. reflexivity.
  - intros (Hs & Hd & Hlt & Hat).
    change ([true; true] ++ ?x) with ([true] ++ [true] ++ x). rewrite <- !app_assoc.
    rewrite (take_app_n 1) by reflexivity. cbn [bind fst snd nth negb].
    rewrite (take_app_n 1) by reflexivity. cbn [bind fst snd nth negb].
    rewrite TlbCoreP.addr_parse_bits by exact Hs. cbn [bind fst snd].
    rewrite TlbCoreP.addr_parse_bits by exact Hd. cbn [bind fst snd].
    rewrite (take_app_n 64) by apply u64_len. cbn [bind fst snd].
    rewrite (take_app_n 32) by apply u32_len. cbn [bind fst snd].
    rewrite N_u64, N_u32 by assumption. reflexivity.
Qed.

(** *** StateInit, any form.  [si_consumes b r]: the bits b and references r are
    a complete StateInit wherever they stand *)
Definition si_consumes (b : bits) (r : list cell) : Prop :=
  forall X Y, stateinit_dec (b ++ X) (r ++ Y) = Ok (X, Y).

(* a library dictionary: distinct 256-bit keys, values public:Bool root:^Cell *)
Definition lib_wf (kvs : list (bits * Dict.cell)) : Prop :=
  NoDup (map fst kvs) /\ Dict.keys_len 256 kvs /\
  Forall (fun kv => match snd kv with Dict.Cell vb vr => (1 <= length vb)%nat /\ (1 <= length vr)%nat end) kvs.

Definition lib_field (kvs : list (bits * Dict.cell)) (bit : bits) (refs : list cell) : Prop :=
  match kvs with
  | [] => bit = [false] /\ refs = []
  | _ => exists root, Hashmap.encode Hashmap.venc_any 256 kvs = Ok root /\ bit = [true] /\ refs = [of_dict root]
  end.

Definition mb {A} (o : option A) : bits := match o with Some _ => [true] | None => [false] end.

(* split_depth, special (tick, tock), code, data, libraries *)
Definition si_bits (sd : option N) (sp : option (bool * bool)) (code data : option cell) (libbit : bits) : bits :=
  mb sd ++ match sd with Some d => bits_of 5 d | None => [] end ++
  mb sp ++ match sp with Some (a, b) => [a; b] | None => [] end ++
  mb code ++ mb data ++ libbit.

Lemma si_spec_consumes sd sp code data kvs libbit librefs :
  lib_wf kvs -> lib_field kvs libbit librefs ->
  si_consumes (si_bits sd sp code data libbit) (opt_list code ++ opt_list data ++ librefs).
Proof.
  intros (Hnd & Hkl & Hv) Hf X Y. unfold stateinit_dec, si_bits, dict_skip, lib_field in *.
  assert (E : forallb (fun kv0 : bits * Dict.cell =>
                         match snd kv0 with Dict.Cell b' r' => simplelib_ok b' r' end)
                      (Hashmap.bsort kvs) = true).
  { apply forallb_forall. intros x Hx.
    pose proof (Permutation_Forall (HashmapSort.bsort_perm _ kvs) Hv) as Hv'.
    rewrite Forall_forall in Hv'. specialize (Hv' x Hx). destruct (snd x) as [vb vr].
    unfold simplelib_ok. rewrite !short_spec. destruct Hv' as (H1 & H2).
    apply andb_true_iff. split; apply negb_true_iff, Nat.ltb_ge; assumption. }
  destruct kvs as [|kv kvs'].
  - destruct Hf as (-> & ->).
    destruct sd as [d|], sp as [[a b]|], code as [c|], data as [dd|]; cbn [mb opt_list app];
      rewrite <- ?app_assoc;
      repeat (first [ rewrite (take_app_n 5) by apply bits_of_length; cbn [bind fst snd nth]
                    | progress (unfold take at 1; cbn [short firstn skipn bind fst snd nth app]) ]);
      reflexivity.
  - destruct Hf as (root & Hr & -> & ->).
    pose proof (HashmapP.encode_decode_dict Dict.cell Hashmap.venc_any Hashmap.vdec_any HashmapP2.vcodec_any
                  256 (kv :: kvs') root Hnd Hkl ltac:(discriminate) Hr) as Hd.
    destruct sd as [d|], sp as [[a b]|], code as [c|], data as [dd|]; cbn [mb opt_list app];
      rewrite <- ?app_assoc;
      repeat (first [ rewrite (take_app_n 5) by apply bits_of_length; cbn [bind fst snd nth]
                    | progress (unfold take at 1; cbn [short firstn skipn bind fst snd nth app]) ]);
      rewrite to_dict_of_dict, Hd; cbn [bind]; rewrite E; reflexivity.
Qed.

(** *** the whole message *)
Inductive init_form :=
| FNone | FRef (si : cell) | FInline (b : bits) (r : list cell).
Inductive body_form := BRef (c : cell) | BInline (b : bits) (r : list cell).

Definition init_bits_of (f : init_form) : bits :=
  match f with FNone => [false] | FRef _ => [true; true] | FInline b _ => [true; false] ++ b end.
Definition init_refs_of (f : init_form) : list cell :=
  match f with FNone => [] | FRef si => [si] | FInline _ r => r end.
Definition init_cell_of (f : init_form) : option cell :=
  match f with FNone => None | FRef si => Some si | FInline b r => Some (ocell b r) end.
Definition init_form_ok (f : init_form) : Prop :=
  match f with FNone => True | FRef si => stateinit_ok si = Ok tt | FInline b r => si_consumes b r end.

Definition body_bits_of (f : body_form) : bits := match f with BRef _ => [true] | BInline b _ => [false] ++ b end.
Definition body_refs_of (f : body_form) : list cell := match f with BRef c => [c] | BInline _ r => r end.
Definition body_cell_of (f : body_form) : cell :=
  match f with BRef c => ocell (cdata c) (crefs c) | BInline b r => ocell b r end.

Lemma drop_suffix_app {A} (a b : list A) : drop_suffix (a ++ b) b = a.
Proof.
  unfold drop_suffix. rewrite app_length. replace (length a + length b - length b)%nat with (length a) by lia.
  apply firstn_app_exact.
Qed.

Theorem envelope_roundtrip (chash : cell -> res bytes) info fi fb sp mk_ sp' h :
  info_ok info -> init_form_ok fi ->
  chash (Cell sp mk_ sp' (info_bits info ++ init_bits_of fi ++ body_bits_of fb)
              (init_refs_of fi ++ body_refs_of fb)) = Ok h ->
  parse_ext chash (Cell sp mk_ sp' (info_bits info ++ init_bits_of fi ++ body_bits_of fb)
                        (init_refs_of fi ++ body_refs_of fb)) =
    Ok (mkext info (init_cell_of fi) (body_cell_of fb)).
Proof.
  intros Hi Hf Hh. unfold parse_ext. rewrite Hh. cbn [bind cdata crefs].
  rewrite info_dec_bits by exact Hi. cbn [bind].
  destruct fi as [|si|b r]; cbn [init_bits_of init_refs_of init_cell_of init_form_ok] in *.
  - rewrite (take_app_n 1 [false]) by reflexivity. cbn [bind fst snd nth app].
    destruct fb as [c|bb br]; cbn [body_bits_of body_refs_of body_cell_of].
    + rewrite (take_all 1) by reflexivity. reflexivity.
    + rewrite (take_app_n 1 [false]) by reflexivity. reflexivity.
  - change ([true; true] ++ ?x) with ([true] ++ [true] ++ x).
    rewrite (take_app_n 1 [true]) by reflexivity. cbn [bind fst snd nth].
    rewrite (take_app_n 1 [true]) by reflexivity. cbn [bind fst snd nth app]. rewrite Hf. cbn [bind].
    destruct fb as [c|bb br]; cbn [body_bits_of body_refs_of body_cell_of].
    + rewrite (take_all 1) by reflexivity. reflexivity.
    + rewrite (take_app_n 1 [false]) by reflexivity. reflexivity.
  - change (([true; false] ++ b) ++ ?x) with ([true] ++ [false] ++ b ++ x).
    rewrite (take_app_n 1 [true]) by reflexivity. cbn [bind fst snd nth].
    rewrite (take_app_n 1 [false]) by reflexivity. cbn [bind fst snd nth].
    rewrite (Hf (body_bits_of fb) (body_refs_of fb)). cbn [bind fst snd].
    rewrite !drop_suffix_app.
    destruct fb as [c|bb br]; cbn [body_bits_of body_refs_of body_cell_of].
    + rewrite (take_all 1) by reflexivity. reflexivity.
    + rewrite (take_app_n 1 [false]) by reflexivity. reflexivity.
Qed.

(** *** a built body inside ANY envelope: verification and decoding start from
    the full message cell and give the same answers *)
Section Any.
Variable SK : Type.
Variable chash : cell -> res bytes.
Variable sign : SK -> bytes -> bits.
Variable verify : bits -> bytes -> bits -> bool.
Variable pub : SK -> bits.
Hypothesis sig_len : forall sk m, length (sign sk m) = 512%nat.

(* the body put by reference or inline *)
Definition carries (fb : body_form) (body : cell) : Prop :=
  fb = BRef body \/ fb = BInline (cdata body) (crefs body).

Theorem any_envelope_roundtrip w sk seqno valid ms rnd body info fi fb sp ty mk_ h :
  modes_ok ms -> WalletSigP.sendable (w_ver w) -> (seqno < 4294967296)%N ->
  create_body SK chash sign w sk ms seqno valid op_signed_external rnd = Ok body ->
  info_ok info -> init_form_ok fi -> carries fb body ->
  let m := Cell sp ty mk_ (info_bits info ++ init_bits_of fi ++ body_bits_of fb)
                (init_refs_of fi ++ body_refs_of fb) in
  chash m = Ok h ->
  exists d,
    decode_msg chash (w_ver w) m = Ok d /\ extract_raw chash (w_ver w) m = Ok ms /\
    d_msgs d = ms /\ d_id d = expected_id w /\ d_valid d = unix32 valid /\
    (w_ver w <> HLV2R2 -> d_seqno d = seqno) /\
    (forall appended, (forall x, verify (pub sk) x (sign sk x) = true) -> length (pub sk) = 256%nat ->
       verify_layout (w_ver w) = Some appended ->
       verify_signature chash verify (w_ver w) m (pub sk) = Ok tt).
Proof.
  intros Hm Hs Hq Hb Hi Hf Hc m Hh.
  pose proof (envelope_roundtrip chash info fi fb sp ty mk_ h Hi Hf Hh) as Hp. fold m in Hp.
  assert (Eb : body_cell_of fb = body).
  { destruct (WalletSigP.create_body_shape SK chash sign _ _ _ _ _ _ _ _ Hb) as (u & hu & _ & _ & _ & E & _).
    destruct Hc as [-> | ->]; cbn [body_cell_of]; rewrite E; destruct (sig_appended (w_ver w)); reflexivity. }
  rewrite Eb in Hp.
  destruct (built_body_decodes SK chash sign sig_len _ _ _ _ _ _ _ Hm Hs Hq Hb) as (d & Hd & D1 & D2 & D3 & D4 & _).
  assert (E : decode_msg chash (w_ver w) m = Ok d).
  { rewrite (decode_msg_body chash _ _ Hs), Hp. exact Hd. }
  exists d. unfold extract_raw. rewrite E. cbn [bind]. rewrite D1.
  repeat split; auto.
  intros appended Hv Hpk Hl.
  destruct (WalletSigP.built_signed_hash SK chash sign sig_len _ _ _ _ _ _ _ _ Hb) as (u & hu & _ & _ & _ & Hsh).
  unfold verify_signature. rewrite Hl, Hp. cbn [bind e_body].
  rewrite <- (WalletSigP.layout_sendable _ _ Hl Hs), Hsh. cbn [bind fst snd].
  unfold verify_prim. rewrite Hpk, Hv. reflexivity.
Qed.

End Any.
