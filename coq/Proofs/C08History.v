(** The behaviour of /repo BEFORE the C08 repairs, kept as models of the old
    functions with the witnesses that refuted the property (F12, F18). *)
From Coq Require Import String List NArith PArith Arith Lia Bool.
From Tongo Require Import Lib.Bits Lib.Res Spec.TlWire Model.BocParse Model.Tl Model.TlTotal Model.Framing.
Import ListNotations.
Local Open Scope N_scope.

(* decodeVector before "fix: bound the pre-allocation of a TL vector":
   reflect.MakeSlice(val.Type(), 0, ln) with ln straight from the wire *)
Definition decode_vector_before_fix (D : T value) (esz : N) : T value :=
  dot b <- rd_full 4;
  let ln := le_num b in
  dot _ <- mk ln esz;
  match ln with
  | N0 => tret (VVec [])
  | Npos p => dot acc <- iter_posT (vec_elem D esz) p []; tret (VVec (rev acc))
  end.

(* readByteSlice before the fix: data = make([]byte, n) for the announced n *)
Definition read_long_bytes_before_fix : T bytes :=
  dot _ <- rd_full 1; dot sz <- rd_full 3; let n := le_num sz in
  dot _ <- mk n 1; rd_fullN n.

(* 8 bytes of input: a []uint64 vector with count 0x7fffffff requests 16 GiB *)
Theorem tl_vector_alloc_before_fix_refuted :
  exists bs, length bs = 8%nat /\
    17179869176 <= t_alloc (snd (decode_vector_before_fix (gdecT [] 1 GU64) 8 (tst0 bs))).
Proof. exists [255; 255; 255; 127; 0; 0; 0; 0]. split; [reflexivity|]. vm_compute. discriminate. Qed.

(* 4 bytes of input: fe ff ff ff requests 16 MiB *)
Theorem tl_bytes_alloc_before_fix_refuted :
  exists bs, length bs = 4%nat /\
    16777215 <= t_alloc (snd (read_long_bytes_before_fix (tst0 bs))).
Proof. exists [254; 255; 255; 255]. split; [reflexivity|]. vm_compute. discriminate. Qed.

(* a well-formed 10-byte BOC with zero roots *)
Definition boc_no_roots : bytes := [0xb5; 0xee; 0x9c; 0x72; 0x01; 0x01; 0x00; 0x00; 0x00; 0x00].
(* a two-cell, one-root BOC *)
Definition boc_one_root : bytes :=
  [0xb5; 0xee; 0x9c; 0x72; 0x01; 0x01; 0x02; 0x01; 0x00; 0x05; 0x00; 0x01; 0x00; 0x01; 0x00; 0x00].

Theorem vmstack_before_fix_refuted :
  exists b, vmstack_after_tl_before_fix (fun _ _ => Ok tt) b = Panic PIndex.
Proof. exists boc_no_roots. vm_compute. reflexivity. Qed.

Theorem parse_contract_methods_before_fix_refuted :
  exists code, parse_contract_methods_before_fix (fun _ _ => Ok tt) code = Panic PIndex.
Proof. exists boc_no_roots. vm_compute. reflexivity. Qed.

(* the server sends one transaction and no block id *)
Theorem get_transactions_before_fix_refuted :
  exists ids txs, get_transactions_before_fix (fun _ _ => Ok tt) ids txs = Panic PIndex.
Proof. exists 0%nat, boc_one_root. vm_compute. reflexivity. Qed.

(* and the repaired functions return an error on the same inputs *)
Example repaired_on_witnesses :
  vmstack_after_tl (fun _ _ => Ok tt) boc_no_roots = Err EFrame /\
  parse_contract_methods (fun _ _ => Ok tt) boc_no_roots = Err EFrame /\
  get_transactions (fun _ _ => Ok tt) 0 boc_one_root = Err EFrame.
Proof. vm_compute. repeat split. Qed.

(** a design that recognises tcp.pong by its constructor id alone (without the
    payload length) lets a 4-byte framed packet panic the reader goroutine *)
Theorem conn_reader_pong_by_magic_only_refuted :
  exists payload, length payload = 4%nat /\ conn_reader_step_gen false payload = Panic PIndex.
Proof. exists [0x03; 0xfb; 0x69; 0xdc]. split; [reflexivity | vm_compute; reflexivity]. Qed.

(** a design of the capability / protocol list loop of tlb/dns.go that skips a list head it
    cannot decode ("continue") never returns: a failed head consumes nothing and the
    `next` bit is only read after a head, so every iteration fails at the same position.
    No number of iterations is enough - for any head decoder, as soon as one head fails;
    in particular when the cell ends right after a `next` bit that is set. *)
Theorem dns_list_skipping_heads_refuted :
  forall (item : list bool -> option (list bool)) s, item s = None ->
  forall fuel, dns_list item true fuel (true :: s) = Err EFuel.
Proof.
  intros item s E fuel. unfold dns_list.
  induction fuel as [| f IH]; [reflexivity|]. cbn [dns_list_loop]. rewrite E. exact IH.
Qed.

Corollary dns_list_truncated_after_next_refuted :
  forall item, (forall s r, item s = Some r -> (length r < length s)%nat) ->
  forall fuel, dns_list item true fuel [true] = Err EFuel.
Proof.
  intros item Hp fuel. apply dns_list_skipping_heads_refuted.
  destruct (item []) as [r|] eqn:E; [|reflexivity]. apply Hp in E. cbn in E. lia.
Qed.

(** ParsePacket with a wider window for the announced length: a 4-byte prefix makes the reader
    allocate more than the limit of the model before any data has arrived *)
Definition packet_prealloc_with (limit : N) (stream : bytes) : N :=
  if short 4 stream then 4 else
  let length := le_num (firstn 4 stream) in
  if (length <? min_packet) || (limit <? length) then 4 else 4 + length.

Lemma packet_prealloc_with_limit s : packet_prealloc_with max_packet s = packet_prealloc s.
Proof. reflexivity. Qed.

Theorem packet_window_12mib_refuted :
  exists s, length s = 4%nat /\ 4 + max_packet < packet_prealloc_with (12 * 1048576) s.
Proof. exists [0; 0; 0xA0; 0]. split; [reflexivity | vm_compute; reflexivity]. Qed.
