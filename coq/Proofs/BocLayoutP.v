(** C01: the BOC parser model inverts the byte layout of the BOC format
    (Spec/BocLayout.v) for every header variant, every forward-referencing cell
    order and every root list. *)
From Coq Require Import List NArith Arith Lia Bool ZArith ZifyNat ZifyN.
From Tongo Require Import Lib.Bits Lib.Res Spec.Crc32c Model.BitString Model.BocParse
  Spec.BocLayout Proofs.BocParseP.
Import ListNotations.

(* lia understands / and mod by constants in this file only *)
Local Ltac Zify.zify_post_hook ::= Z.div_mod_to_equations.

(** *** big-endian numerals *)
Lemma be_length n : forall v, length (be n v) = n.
Proof.
  induction n as [|n IH]; intros v; cbn [be]; [reflexivity|].
  rewrite app_length, IH. cbn [length]. lia.
Qed.

Lemma be_bytes n : forall v, Forall is_byte (be n v).
Proof.
  induction n as [|n IH]; intros v; cbn [be]; [constructor|].
  apply Forall_app. split; [apply IH|].
  constructor; [|constructor]. unfold is_byte. apply N.mod_lt. lia.
Qed.

Lemma two64_nz : two64 <> 0%N.
Proof. discriminate. Qed.

Lemma fold_be n : forall v,
  fold_left (fun acc b => ((acc * 256 + b) mod two64)%N) (be n v) 0%N
  = ((v mod 256 ^ N.of_nat n) mod two64)%N.
Proof.
  induction n as [|n IH]; intros v.
  - cbn [be fold_left]. change (N.of_nat 0) with 0%N.
    rewrite N.pow_0_r, N.mod_1_r. reflexivity.
  - cbn [be]. rewrite fold_left_app. cbn [fold_left]. rewrite IH.
    rewrite Nat2N.inj_succ, N.pow_succ_r'.
    assert (Hp : (256 ^ N.of_nat n <> 0)%N) by (apply N.pow_nonzero; lia).
    rewrite (N.mod_mul_r v 256 (256 ^ N.of_nat n)) by (lia || exact Hp).
    set (X := ((v / 256) mod 256 ^ N.of_nat n)%N).
    rewrite <- (N.add_mod_idemp_l (X mod two64 * 256)) by exact two64_nz.
    rewrite (N.mul_mod_idemp_l X 256 two64) by exact two64_nz.
    rewrite N.add_mod_idemp_l by exact two64_nz.
    f_equal. lia.
Qed.

Lemma firstn_be n v rest : firstn n (be n v ++ rest) = be n v.
Proof.
  pose proof (firstn_app_exact (be n v) rest) as E. rewrite be_length in E. exact E.
Qed.

Lemma skipn_be n v rest : skipn n (be n v ++ rest) = rest.
Proof.
  pose proof (skipn_app_exact (be n v) rest) as E. rewrite be_length in E. exact E.
Qed.

Lemma read_be_drop_be_gen n v rest :
  read_be_drop n (be n v ++ rest)
  = Ok (((v mod 256 ^ N.of_nat n) mod two64)%N, rest).
Proof.
  unfold read_be_drop, read_be.
  assert (Hs : short n (be n v ++ rest) = false).
  { apply short_false_iff. rewrite app_length, be_length. lia. }
  rewrite Hs, firstn_be, fold_be. cbn [bind]. rewrite skipn_be. reflexivity.
Qed.

Lemma read_be_drop_be n v rest :
  (v < 256 ^ N.of_nat n)%N -> (v < two64)%N ->
  read_be_drop n (be n v ++ rest) = Ok (v, rest).
Proof.
  intros H1 H2. rewrite read_be_drop_be_gen.
  rewrite (N.mod_small v _ H1), (N.mod_small v _ H2). reflexivity.
Qed.

Definition fits (w : nat) (r : nat) : Prop :=
  (N.of_nat r < 256 ^ N.of_nat w)%N /\ (N.of_nat r < two64)%N.

Definition be_list (w : nat) (rs : list nat) : bytes :=
  flat_map (fun r => be w (N.of_nat r)) rs.

Lemma be_list_length w rs : length (be_list w rs) = (w * length rs)%nat.
Proof.
  induction rs as [|r t IH]; cbn [be_list flat_map length]; [lia|].
  fold (be_list w t). rewrite app_length, be_length, IH. lia.
Qed.

Lemma be_list_bytes w rs : Forall is_byte (be_list w rs).
Proof.
  induction rs as [|r t IH]; cbn [be_list flat_map]; [constructor|].
  apply Forall_app. split; [apply be_bytes|exact IH].
Qed.

Lemma read_list_be w rs : forall rest acc,
  Forall (fits w) rs ->
  read_list (length rs) w false (be_list w rs ++ rest) acc
  = Ok (rev acc ++ map N.of_nat rs, rest).
Proof.
  induction rs as [|r t IH]; intros rest acc Hf.
  - cbn [length read_list be_list flat_map app map]. rewrite app_nil_r. reflexivity.
  - inversion Hf as [|? ? (H1 & H2) Ht]; subst.
    cbn [length read_list be_list flat_map map]. fold (be_list w t).
    rewrite <- app_assoc, (read_be_drop_be _ _ _ H1 H2). cbn [bind].
    rewrite (IH _ _ Ht). cbn [rev]. rewrite <- app_assoc. reflexivity.
Qed.

Lemma read_refs_be w rs : forall rest acc,
  Forall (fits w) rs ->
  read_refs (length rs) w (be_list w rs ++ rest) acc
  = Ok (rev acc ++ map N.of_nat rs, rest).
Proof.
  induction rs as [|r t IH]; intros rest acc Hf.
  - cbn [length read_refs be_list flat_map app map]. rewrite app_nil_r. reflexivity.
  - inversion Hf as [|? ? (H1 & H2) Ht]; subst.
    cbn [length read_refs be_list flat_map map]. fold (be_list w t).
    rewrite <- app_assoc, (read_be_drop_be _ _ _ H1 H2). cbn [bind].
    rewrite (IH _ _ Ht). cbn [rev]. rewrite <- app_assoc. reflexivity.
Qed.

Lemma map_to_of_nat (l : list nat) : map N.to_nat (map N.of_nat l) = l.
Proof.
  induction l as [|x t IH]; [reflexivity|].
  cbn [map]. rewrite Nat2N.id, IH. reflexivity.
Qed.

Lemma short_app_exact {A} (a b : list A) : short (length a) (a ++ b) = false.
Proof. apply short_false_iff. rewrite app_length. lia. Qed.

(** *** data bits *)
Lemma bytes_of_bits_length k : forall l, length (bytes_of_bits k l) = k.
Proof.
  induction k as [|k IH]; intros l; cbn [bytes_of_bits length]; [reflexivity|].
  rewrite IH. reflexivity.
Qed.

Lemma bytes_of_bits_bytes k : forall l, Forall is_byte (bytes_of_bits k l).
Proof.
  induction k as [|k IH]; intros l; cbn [bytes_of_bits]; [constructor|].
  constructor; [|apply IH]. unfold is_byte.
  eapply N.lt_le_trans; [apply N_of_bits_bound|].
  change 256%N with (2 ^ 8)%N. apply N.pow_le_mono_r; [lia|].
  rewrite firstn_length. lia.
Qed.

Lemma bytes_bits_of_bits k : forall l,
  length l = (8 * k)%nat -> bytes_bits (bytes_of_bits k l) = l.
Proof.
  induction k as [|k IH]; intros l Hl.
  - destruct l; [reflexivity|cbn [length] in Hl; lia].
  - cbn [bytes_of_bits bytes_bits].
    rewrite IH by (rewrite skipn_length; lia).
    assert (H8 : length (firstn 8 l) = 8%nat) by (rewrite firstn_length; lia).
    pose proof (bits_of_N_of_bits (firstn 8 l)) as E. rewrite H8 in E. rewrite E.
    apply firstn_skipn.
Qed.

Lemma padded_length b : length (padded b) = (8 * ((length b + 7) / 8))%nat.
Proof.
  unfold padded. destruct (Nat.eqb_spec (length b mod 8) 0) as [E|E]; [lia|].
  rewrite app_length. cbn [length]. unfold zeros. rewrite repeat_length. lia.
Qed.

Lemma padded_div b : (length (padded b) / 8 = (length b + 7) / 8)%nat.
Proof. rewrite padded_length. lia. Qed.

Lemma enc_data_length b : length (enc_data b) = ((length b + 7) / 8)%nat.
Proof. unfold enc_data. rewrite bytes_of_bits_length. apply padded_div. Qed.

Lemma zeros_snoc z : zeros z ++ [false] = false :: zeros z.
Proof.
  induction z as [|z IH]; [reflexivity|].
  unfold zeros in *. cbn [repeat app]. rewrite IH. reflexivity.
Qed.

Lemma rev_zeros z : rev (zeros z) = zeros z.
Proof.
  induction z as [|z IH]; [reflexivity|].
  unfold zeros in *. cbn [repeat rev]. rewrite IH. apply zeros_snoc.
Qed.

Lemma strip_go_zeros z : forall fuel r,
  (z < fuel)%nat -> strip_go fuel (zeros z ++ true :: r) = Some (rev r).
Proof.
  induction z as [|z IH]; intros fuel r Hf.
  - destruct fuel as [|fuel]; [lia|]. reflexivity.
  - destruct fuel as [|fuel]; [lia|].
    unfold zeros. cbn [repeat app strip_go]. apply IH. lia.
Qed.

Lemma strip_completion_tag b z :
  (z <= 6)%nat -> strip_completion (b ++ true :: zeros z) = Some b.
Proof.
  intros Hz. unfold strip_completion.
  rewrite rev_app_distr. cbn [rev]. rewrite rev_zeros, <- app_assoc. cbn [app].
  rewrite strip_go_zeros by lia. rewrite rev_involutive. reflexivity.
Qed.

Lemma top_upped_enc b :
  top_upped_bits (enc_data b) (Nat.eqb (length b mod 8) 0) = Ok b.
Proof.
  unfold top_upped_bits.
  pose proof (enc_data_length b) as Hl. rewrite Hl.
  unfold enc_data. rewrite bytes_bits_of_bits by (rewrite padded_div; apply padded_length).
  unfold padded.
  destruct (Nat.eqb_spec (length b mod 8) 0) as [E|E]; cbn [orb]; [reflexivity|].
  destruct (Nat.eqb_spec ((length b + 7) / 8) 0) as [E0|E0]; [lia|].
  rewrite strip_completion_tag by lia. reflexivity.
Qed.

Lemma enc_data_first b :
  (8 <= length b)%nat -> exists t, enc_data b = first_byte b :: t.
Proof.
  intros H8. unfold enc_data. rewrite padded_div.
  destruct ((length b + 7) / 8)%nat as [|k] eqn:Ek; [lia|].
  cbn [bytes_of_bits]. eexists. f_equal.
  unfold first_byte, padded.
  destruct (length b mod 8 =? 0)%nat; [reflexivity|].
  rewrite firstn_app. replace (8 - length b)%nat with 0%nat by lia.
  cbn [firstn]. rewrite app_nil_r. reflexivity.
Qed.

(** *** descriptor bytes *)
Lemma d1_facts (k : N) (s h : bool) (m : N) :
  (k <= 4)%N -> (m < 8)%N ->
  let d1 := (k + (if s then 8 else 0) + (if h then 0 else 16) + 32 * m)%N in
  N.testbit d1 3 = s /\ N.testbit d1 4 = negb h /\ (d1 mod 8 = k)%N /\
  (d1 / 32 = m)%N /\ (d1 < 256)%N.
Proof.
  intros Hk Hm.
  assert (Hk' : (k = 0 \/ k = 1 \/ k = 2 \/ k = 3 \/ k = 4)%N) by lia.
  assert (Hm' : (m = 0 \/ m = 1 \/ m = 2 \/ m = 3 \/ m = 4 \/ m = 5 \/ m = 6 \/ m = 7)%N) by lia.
  clear Hk Hm.
  destruct Hk' as [->|[->|[->|[->| ->]]]];
    destruct Hm' as [->|[->|[->|[->|[->|[->|[->| ->]]]]]]];
    destruct s, h; vm_compute; repeat split.
Qed.

Lemma d2_facts (L : nat) :
  (L <= 1023)%nat ->
  let d2 := N.of_nat (L / 8 + (L + 7) / 8) in
  N.to_nat (d2 / 2 + d2 mod 2) = ((L + 7) / 8)%nat /\
  N.eqb (d2 mod 2) 0 = Nat.eqb (L mod 8) 0 /\ (d2 < 256)%N.
Proof.
  intros HL d2. subst d2. split; [lia|]. split; [|lia].
  destruct (Nat.eqb_spec (L mod 8) 0) as [E|E].
  - apply N.eqb_eq. lia.
  - apply N.eqb_neq. lia.
Qed.

(** *** CRC-32C values are 32-bit *)
Lemma lxor_lt32 a b : (a < 2 ^ 32 -> b < 2 ^ 32 -> N.lxor a b < 2 ^ 32)%N.
Proof.
  intros Ha Hb.
  destruct (N.eq_dec (N.lxor a b) 0) as [E|E]; [rewrite E; apply pow2_pos|].
  apply N.log2_lt_pow2; [lia|].
  eapply N.le_lt_trans; [apply N.log2_lxor|].
  apply N.max_lub_lt.
  - destruct (N.eq_dec a 0) as [->|Ha0]; [cbn; lia|apply N.log2_lt_pow2; lia].
  - destruct (N.eq_dec b 0) as [->|Hb0]; [cbn; lia|apply N.log2_lt_pow2; lia].
Qed.

Lemma crc_bits_bound n : forall c, (c < 2 ^ 32)%N -> (crc_bits n c < 2 ^ 32)%N.
Proof.
  induction n as [|n IH]; intros c Hc; cbn [crc_bits]; [exact Hc|].
  apply IH.
  assert (Hs : (N.shiftr c 1 < 2 ^ 32)%N).
  { rewrite N.shiftr_div_pow2. change (2 ^ 1)%N with 2%N.
    change (2 ^ 32)%N with 4294967296%N in *. lia. }
  destruct (N.odd c); [|exact Hs].
  apply lxor_lt32; [exact Hs|]. unfold crc_poly. change (2 ^ 32)%N with 4294967296%N. lia.
Qed.

Lemma crc_fold_bound l : forall c,
  Forall is_byte l -> (c < 2 ^ 32)%N -> (fold_left crc_byte l c < 2 ^ 32)%N.
Proof.
  induction l as [|b t IH]; intros c Hb Hc; cbn [fold_left]; [exact Hc|].
  inversion Hb as [|? ? Hb1 Hbt]; subst.
  apply IH; [exact Hbt|]. unfold crc_byte. apply crc_bits_bound.
  apply lxor_lt32; [exact Hc|]. unfold is_byte in Hb1.
  change (2 ^ 32)%N with 4294967296%N. lia.
Qed.

Lemma crc32c_bound l : Forall is_byte l -> (crc32c l < 2 ^ 32)%N.
Proof.
  intros Hb. unfold crc32c. apply lxor_lt32.
  - apply crc_fold_bound; [exact Hb|]. change (2 ^ 32)%N with 4294967296%N. lia.
  - change (2 ^ 32)%N with 4294967296%N. lia.
Qed.

Lemma le32_be4 c : (c < 2 ^ 32)%N -> le32 (rev (be 4 c)) = c.
Proof.
  intros Hc. change (2 ^ 32)%N with 4294967296%N in Hc.
  cbn [be app rev le32]. lia.
Qed.
